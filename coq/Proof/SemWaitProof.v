(* SemWaitProof: invariants of SemWaitModel and the lemmas behind Properties_C05sw.v. *)
From NsyncBase Require Import CSem.
From NsyncGen Require Import Consts Sites.
From NsyncModel Require Import SemWaitModel.
From Coq Require Import List ZArith Bool Lia Arith.
Import ListNotations.
Local Open Scope Z_scope.

(* ------------------------------------------------------------------------------------------------ *)
(* values and guards taken from Gen/Sites.v *)
Lemma c_store1 : note_notify_child_store1_new = 1. Proof. reflexivity. Qed.
Lemma c_store2 : note_notify_child_store2_new = 0. Proof. reflexivity. Qed.
Lemma w_store1 : nsync_sem_wait_with_cancel_store1_new = 1. Proof. reflexivity. Qed.
Lemma wait_guard n : nsync_sem_wait_with_cancel_load1_guard (ptr_of (Some n)) = true.
Proof. unfold nsync_sem_wait_with_cancel_load1_guard, ptr_of. destruct (Z.eqb_spec (Z.of_nat n + 1) 0); [lia|reflexivity]. Qed.

(* step = begin_call, then the step proper *)
Definition step_core (w : world) (t : nat) (c : bool) : world * ev :=
  match stack (get w t) with
  | [] => (w, EvNone)
  | f :: rest =>
      match f with
      | FD n s => step_D w t n s rest
      | FN n s par inc => step_N w t c n s par inc rest
      | FC n par s => step_C w t n par s rest
      | FP n s => step_P w t n s rest
      | AWait l s => step_W w t c l s rest
      | FNotify _ | AIs _ => (w, EvNone)
      end
  end.
Lemma step_eq w t c : step w t c = step_core (begin_call w t) t c.
Proof. reflexivity. Qed.

(* ------------------------------------------------------------------------------------------------ *)
(* Layer 1: the shape of the stacks *)
Definition bottom (f : frame) : Prop := match f with FNotify _ | AIs _ | AWait _ _ | FP _ _ => True | _ => False end.
Definition adj (f g : frame) : Prop :=
  match f, g with
  | FD n _, FNotify m => n = m
  | FD n _, AIs m => n = m
  | FD n _, AWait _ (WChk m) => n = m
  | FN n _ _ _, FD m (D6 _) => n = m
  | FN n _ _ _, FNotify m => n = m
  | FC n par _, FN m N9 par' _ => n = m /\ par = par'
  | FC n par _, FP m P2 => n = m
  | FNotify n, AWait _ (WNtf m) => n = m
  | _, _ => False
  end.
Fixpoint wf (st : list frame) : Prop :=
  match st with
  | [] => True
  | f :: r => match r with [] => bottom f | g :: _ => adj f g /\ wf r end
  end.
Definition calling (f : frame) : bool :=
  match f with
  | FD _ (D6 _) | FN _ N9 _ _ | FP _ P2 | FNotify _ | AIs _ | AWait _ (WChk _) | AWait _ (WNtf _) => true
  | _ => false
  end.
Definition top_ok (st : list frame) : Prop := match st with f :: _ => calling f = false | [] => True end.
Definition wst_note (s : wst) : option nat :=
  match s with
  | WPlain => None
  | WChk n | WSt n | WLk1 n | WLd1 n | WUn1 n | WP n | WNtf n | WLk2 n | WLd2 n | WUnl n => Some n
  end.
Definition fr1 (f : frame) : Prop :=
  match f with
  | AWait l s => w_note l = wst_note s
  | FN _ s _ inc => match s with N1 | N2 | N3 | N4 => inc = false | N11 => True | _ => inc = true end
  | _ => True
  end.
Definition stack_ok (st : list frame) : Prop := wf st /\ top_ok st /\ Forall fr1 st.
Definition pre_ok (st : list frame) : Prop := wf st /\ Forall fr1 st.
Definition W1 (w : world) : Prop := forall u, stack_ok (stack (get w u)).

#[local] Hint Constructors Forall : core.
Lemma wf_tail f r : wf (f :: r) -> wf r.
Proof. destruct r; simpl; tauto. Qed.

Ltac upd := unfold finish_wait, finish, add_ret, setst, set_sem, set_thr, set_note, set_rec, new_rec, set_dead, acquire, release, touch, touch_all, get, nt.
Ltac eqt u t := destruct (Nat.eqb_spec u t); [subst u|].

Lemma get_setst w t st u : stack (get (setst w t st) u) = if Nat.eqb u t then st else stack (get w u).
Proof. upd; simpl; unfold fupd. destruct (Nat.eqb u t); reflexivity. Qed.
Lemma stack_set_sem w o v u : stack (get (set_sem w o v) u) = stack (get w u).
Proof. upd; simpl; unfold fupd. destruct (Nat.eqb_spec u o); subst; reflexivity. Qed.
Lemma stack_finish w t o r u : stack (get (finish w t o r) u) = if Nat.eqb u t then [] else stack (get w u).
Proof. upd; simpl; unfold fupd. destruct (Nat.eqb u t); reflexivity. Qed.
Lemma stack_finish_wait w t l b u : stack (get (finish_wait w t l b) u) = if Nat.eqb u t then [] else stack (get w u).
Proof. unfold finish_wait. rewrite stack_finish. destruct b; reflexivity. Qed.

Lemma stack_set_note w n x u : stack (get (set_note w n x) u) = stack (get w u). Proof. reflexivity. Qed.
Lemma stack_set_rec w n x u : stack (get (set_rec w n x) u) = stack (get w u). Proof. reflexivity. Qed.
Lemma stack_new_rec w x u : stack (get (new_rec w x) u) = stack (get w u). Proof. reflexivity. Qed.
Lemma stack_set_dead w x u : stack (get (set_dead w x) u) = stack (get w u). Proof. reflexivity. Qed.
Lemma stack_add_ret w x u : stack (get (add_ret w x) u) = stack (get w u). Proof. reflexivity. Qed.
Lemma stack_acquire w t n u : stack (get (acquire w t n) u) = stack (get w u). Proof. reflexivity. Qed.
Lemma stack_release w n u : stack (get (release w n) u) = stack (get w u). Proof. reflexivity. Qed.
Lemma stack_touch w n u : stack (get (touch w n) u) = stack (get w u). Proof. reflexivity. Qed.
Lemma stack_touch_all w n u : stack (get (touch_all w n) u) = stack (get w u). Proof. reflexivity. Qed.
Ltac stk := repeat rewrite ?get_setst, ?stack_set_sem, ?stack_finish_wait, ?stack_finish, ?stack_set_note, ?stack_set_rec, ?stack_new_rec, ?stack_set_dead,
  ?stack_add_ret, ?stack_acquire, ?stack_release, ?stack_touch, ?stack_touch_all.
Ltac oth Ho := let u := fresh "u" in let Hu := fresh "Hu" in intros u Hu; stk; apply Ho; exact Hu.

(* the stacks after a step: only the stepping thread's changes *)
Definition same_others (t : nat) (w w' : world) : Prop := forall u, u <> t -> stack (get w' u) = stack (get w u).

Definition others_ok (t : nat) (w : world) : Prop := forall u, u <> t -> stack_ok (stack (get w u)).
Ltac ok_tac := repeat split; simpl; auto; repeat (constructor; simpl; auto).
Ltac inv_ok H := destruct H as (?Hwf & ?Htop & ?Hfr); simpl in *.
Ltac kill_rest rest Hwf :=
  destruct rest as [|[? []|? [] ? ?|? ? []|? []|?|?|? []] rest]; simpl in Hwf; try contradiction; try (exfalso; tauto).

Lemma Forall_inv2 {A} (P : A -> Prop) a l : Forall P (a :: l) -> P a /\ Forall P l.
Proof. intro H; inversion H; auto. Qed.

Lemma wf_AWait l s r : wf (AWait l s :: r) -> r = [].
Proof. destruct r; simpl; [reflexivity|intros [[] _]]. Qed.
Lemma wf_AIs n r : wf (AIs n :: r) -> r = [].
Proof. destruct r; simpl; [reflexivity|intros [[] _]]. Qed.
Lemma wf_FP n s r : wf (FP n s :: r) -> r = [].
Proof. destruct r; simpl; [reflexivity|intros [[] _]]. Qed.
Lemma wf_cons f g r : wf (f :: g :: r) -> adj f g /\ wf (g :: r).
Proof. simpl; tauto. Qed.

Lemma ret_Notify_ok w t n rest : others_ok t w -> pre_ok (FNotify n :: rest) -> W1 (ret_Notify w t n rest).
Proof.
  intros Ho (Hwf & Hfr) u. unfold ret_Notify.
  destruct rest as [|[| | | | | |l []] r]; try (rewrite stack_finish; eqt u t; [ok_tac|apply Ho; auto]).
  rewrite get_setst. eqt u t; [|apply Ho; auto].
  apply wf_cons in Hwf. destruct Hwf as [Ha Hwf]. apply wf_AWait in Hwf. subst r.
  apply Forall_inv2 in Hfr. destruct Hfr as [_ Hfr]. apply Forall_inv2 in Hfr. destruct Hfr as [Hf _]. simpl in Hf.
  ok_tac.
Qed.

Ltac fin_ok Ho u t := first [rewrite stack_finish_wait | rewrite stack_finish]; eqt u t; [ok_tac|stk; apply Ho; auto].
Ltac set_ok Ho u t := rewrite get_setst; eqt u t; [|apply Ho; auto].
Ltac fr_split H := repeat (apply Forall_inv2 in H; let h := fresh "Hf" in destruct H as [h H]; simpl in h).

Lemma ret_D_ok w t n s rest v clk : others_ok t w -> pre_ok (FD n s :: rest) -> W1 (ret_D w t rest v clk).
Proof.
  intros Ho (Hwf & Hfr). unfold ret_D.
  destruct rest as [|g r]; [intro u; simpl; eqt u t; [contradiction Hwf|apply Ho; auto]|].
  apply wf_cons in Hwf. destruct Hwf as [Ha Hwf].
  destruct g as [| | | |m|m|l []]; simpl in Ha; try contradiction; subst.
  - destruct (tpos v).
    + intro u. set_ok Ho u t. fr_split Hfr. ok_tac.
    + apply ret_Notify_ok; auto. fr_split Hfr. split; simpl; auto.
  - intro u. fin_ok Ho u t.
  - apply wf_AWait in Hwf. subst r. fr_split Hfr. intro u. destruct (tpos v).
    + set_ok Ho u t. ok_tac.
    + fin_ok Ho u t.
Qed.

Lemma ret_N_ok w t n s par inc rest : others_ok t w -> pre_ok (FN n s par inc :: rest) -> W1 (ret_N w t rest).
Proof.
  intros Ho (Hwf & Hfr). unfold ret_N.
  destruct rest as [|g r]; [intro u; simpl; eqt u t; [contradiction Hwf|apply Ho; auto]|].
  apply wf_cons in Hwf. destruct Hwf as [Ha Hwf].
  destruct g as [m []| | | |m|m|]; simpl in Ha; try contradiction; subst.
  - fr_split Hfr. eapply ret_D_ok; [exact Ho|]. split; [exact Hwf|]. constructor; simpl; auto.
  - apply ret_Notify_ok; auto. fr_split Hfr. split; simpl; auto.
Qed.

Lemma ret_C_ok w t n par s rest : others_ok t w -> pre_ok (FC n par s :: rest) -> W1 (ret_C w t rest).
Proof.
  intros Ho (Hwf & Hfr) u. unfold ret_C.
  destruct rest as [|g r]; [contradiction Hwf|].
  apply wf_cons in Hwf. destruct Hwf as [Ha Hwf].
  destruct g as [|m [] par' inc| |m []| | |]; simpl in Ha; try contradiction.
  - destruct Ha as (-> & ->). set_ok Ho u t. fr_split Hfr. apply wf_tail in Hwf as Hwf'.
    destruct par'; repeat split; simpl; auto; destruct r; simpl in *; tauto.
  - subst. set_ok Ho u t. apply wf_FP in Hwf. subst r. ok_tac.
Qed.

Lemma c_tail_ok w t n par s rest : others_ok t w -> pre_ok (FC n par s :: rest) -> W1 (c_tail w t n par rest).
Proof. intros Ho Hp. unfold c_tail. eapply ret_C_ok; eauto. destruct par; [oth Ho|exact Ho]. Qed.
Lemma c_wloop_ok w t n par s rest : others_ok t w -> pre_ok (FC n par s :: rest) -> W1 (c_wloop w t n par rest).
Proof.
  intros Ho Hp. unfold c_wloop. destruct (waiters (nt w n)) as [|o ws]; [eapply c_tail_ok; eauto|].
  intro u. stk. eqt u t; [|apply Ho; auto]. destruct Hp as [Hwf Hfr]. fr_split Hfr.
  split; [|split]; simpl; auto.
Qed.

Lemma begin_call_W1 w t : W1 w -> W1 (begin_call w t).
Proof.
  intros H u. unfold begin_call. destruct (stack (get w t)) eqn:Es; [|apply H]. destruct (prog (get w t)) as [|o rest]; [apply H|].
  unfold set_thr, get; simpl; unfold fupd. eqt u t; [|apply H].
  destruct o as [[n|] dl|n|n|n]; try (pose proof (wait_guard n) as G; unfold ptr_of in G); simpl; try rewrite G; ok_tac.
Qed.

Ltac dif := match goal with |- context [if ?b then _ else _] => destruct b end.
Ltac nx Ho Hwf Hfr u t rest := intro u; stk; eqt u t; [|apply Ho; auto]; fr_split Hfr; ok_tac; try (destruct rest; simpl in *; tauto).
Lemma step_core_W1 w t c : W1 w -> W1 (fst (step_core w t c)).
Proof.
  intros H. pose proof (H t) as Ht. assert (Ho : others_ok t w) by (intros u _; apply H).
  unfold step_core. destruct (stack (get w t)) as [|f rest] eqn:Est; [exact H|].
  destruct Ht as (Hwf & Htop & Hfr). assert (Hp : pre_ok (f :: rest)) by (split; auto).
  destruct f as [n s|n s par inc|n par s|n s|n|n|l s]; try exact H.
  - (* FD *) destruct s; simpl; try exact H.
    + destruct (flag (nt w n) =? 0); simpl; [nx Ho Hwf Hfr u t rest|eapply ret_D_ok; eauto].
    + destruct (lock_free w n); simpl; [|exact H]. nx Ho Hwf Hfr u t rest.
    + nx Ho Hwf Hfr u t rest.
    + destruct (tpos x); simpl; [nx Ho Hwf Hfr u t rest|]. eapply ret_D_ok; eauto; oth Ho.
    + destruct (tle_z x (clock w)); simpl; [nx Ho Hwf Hfr u t rest|eapply ret_D_ok; eauto].
  - (* FN *) destruct s; simpl; try exact H.
    + destruct (lock_free w n); simpl; [|exact H]. destruct (not_disconnecting (acquire w t n) n); simpl; nx Ho Hwf Hfr u t rest.
    + nx Ho Hwf Hfr u t rest.
    + destruct (lock_free w n && not_disconnecting w n); simpl; [|exact H]. nx Ho Hwf Hfr u t rest.
    + destruct (tpos (notified_time w n (flag (nt w n)))); simpl; [destruct (has_par (nt w n)); simpl|]; nx Ho Hwf Hfr u t rest.
    + destruct c; simpl; nx Ho Hwf Hfr u t rest.
    + nx Ho Hwf Hfr u t rest.
    + nx Ho Hwf Hfr u t rest.
    + destruct (lock_free w n); simpl; [|exact H]. nx Ho Hwf Hfr u t rest.
    + nx Ho Hwf Hfr u t rest.
    + eapply ret_N_ok; eauto; destruct inc; oth Ho.
  - (* FC *) destruct s; simpl.
    + destruct (tpos (notified_time w n (flag (nt w n)))); simpl; [nx Ho Hwf Hfr u t rest|eapply ret_C_ok; eauto].
    + eapply c_wloop_ok; eauto; oth Ho.
    + nx Ho Hwf Hfr u t rest.
    + eapply c_wloop_ok; eauto; oth Ho.
  - (* FP *) destruct s; simpl; try exact H.
    + destruct (lock_free w n); simpl; [|exact H]. apply wf_FP in Hwf as ->.
      match goal with |- context [if ?b then _ else _] => destruct b end; simpl; nx Ho Hwf Hfr u t rest.
    + intro u. stk. eqt u t; [ok_tac|]. destruct dec; stk; apply Ho; auto.
  - (* AWait *) apply wf_AWait in Hwf as Hr. subst rest. fr_split Hfr. destruct s; simpl; try exact H.
    + destruct c; simpl; [destruct (tle_z (w_dl l) (clock w)); simpl; [|exact H]|destruct (sem (get w t)); simpl; [exact H|]]; intro u; fin_ok Ho u t.
    + intro u; stk. eqt u t; [|apply Ho; auto]. ok_tac.
    + destruct (lock_free w n); simpl; [|exact H]. intro u; stk. eqt u t; [|apply Ho; auto]. ok_tac.
    + destruct (tpos (notified_time w n (flag (nt w n)))); simpl; intro u; stk; (eqt u t; [|apply Ho; auto]); ok_tac.
    + intro u; stk. eqt u t; [|apply Ho; auto]. ok_tac.
    + destruct c; simpl; [destruct (tle_z (w_ldl l) (clock w)); simpl; [destruct (w_near l); simpl|exact H]|destruct (sem (get w t)); simpl; [exact H|]];
        intro u; stk; (eqt u t; [|apply Ho; auto]); ok_tac.
    + destruct (lock_free w n); simpl; [|exact H]. intro u; stk. eqt u t; [|apply Ho; auto]. ok_tac.
    + destruct (tpos (notified_time w n (flag (nt w n)))); simpl; intro u; stk; (eqt u t; [|apply Ho; auto]); ok_tac.
    + intro u; fin_ok Ho u t.
Qed.

(* ------------------------------------------------------------------------------------------------ *)
(* projections of the worlds built by the return functions *)
Ltac dmatch := repeat match goal with |- context [match ?x with _ => _ end] => destruct x end.
Lemma notes_ret_Notify w t n r : notes (ret_Notify w t n r) = notes w. Proof. unfold ret_Notify; dmatch; reflexivity. Qed.
Lemma clock_ret_Notify w t n r : clock (ret_Notify w t n r) = clock w. Proof. unfold ret_Notify; dmatch; reflexivity. Qed.
Lemma recs_ret_Notify w t n r : recs (ret_Notify w t n r) = recs w. Proof. unfold ret_Notify; dmatch; reflexivity. Qed.
Lemma nrec_ret_Notify w t n r : nrec (ret_Notify w t n r) = nrec w. Proof. unfold ret_Notify; dmatch; reflexivity. Qed.
Lemma dead_ret_Notify w t n r : dead_touch (ret_Notify w t n r) = dead_touch w. Proof. unfold ret_Notify; dmatch; reflexivity. Qed.
Lemma rets_ret_Notify w t n r : rets (ret_Notify w t n r) = rets w. Proof. unfold ret_Notify; dmatch; reflexivity. Qed.
Lemma notes_ret_D w t r v k : notes (ret_D w t r v k) = notes w. Proof. unfold ret_D; dmatch; try apply notes_ret_Notify; reflexivity. Qed.
Lemma clock_ret_D w t r v k : clock (ret_D w t r v k) = clock w. Proof. unfold ret_D; dmatch; try apply clock_ret_Notify; reflexivity. Qed.
Lemma recs_ret_D w t r v k : recs (ret_D w t r v k) = recs w. Proof. unfold ret_D; dmatch; try apply recs_ret_Notify; reflexivity. Qed.
Lemma nrec_ret_D w t r v k : nrec (ret_D w t r v k) = nrec w. Proof. unfold ret_D; dmatch; try apply nrec_ret_Notify; reflexivity. Qed.
Lemma dead_ret_D w t r v k : dead_touch (ret_D w t r v k) = dead_touch w. Proof. unfold ret_D; dmatch; try apply dead_ret_Notify; reflexivity. Qed.
Lemma notes_ret_N w t r : notes (ret_N w t r) = notes w. Proof. unfold ret_N; dmatch; try apply notes_ret_D; try apply notes_ret_Notify; reflexivity. Qed.
Lemma clock_ret_N w t r : clock (ret_N w t r) = clock w. Proof. unfold ret_N; dmatch; try apply clock_ret_D; try apply clock_ret_Notify; reflexivity. Qed.
Lemma recs_ret_N w t r : recs (ret_N w t r) = recs w. Proof. unfold ret_N; dmatch; try apply recs_ret_D; try apply recs_ret_Notify; reflexivity. Qed.
Lemma nrec_ret_N w t r : nrec (ret_N w t r) = nrec w. Proof. unfold ret_N; dmatch; try apply nrec_ret_D; try apply nrec_ret_Notify; reflexivity. Qed.
Lemma dead_ret_N w t r : dead_touch (ret_N w t r) = dead_touch w. Proof. unfold ret_N; dmatch; try apply dead_ret_D; try apply dead_ret_Notify; reflexivity. Qed.
Lemma notes_ret_C w t r : notes (ret_C w t r) = notes w. Proof. unfold ret_C; dmatch; reflexivity. Qed.
Lemma clock_ret_C w t r : clock (ret_C w t r) = clock w. Proof. unfold ret_C; dmatch; reflexivity. Qed.
Lemma recs_ret_C w t r : recs (ret_C w t r) = recs w. Proof. unfold ret_C; dmatch; reflexivity. Qed.
Lemma nrec_ret_C w t r : nrec (ret_C w t r) = nrec w. Proof. unfold ret_C; dmatch; reflexivity. Qed.
Lemma dead_ret_C w t r : dead_touch (ret_C w t r) = dead_touch w. Proof. unfold ret_C; dmatch; reflexivity. Qed.
Lemma rets_ret_C w t r : rets (ret_C w t r) = rets w. Proof. unfold ret_C; dmatch; reflexivity. Qed.
Lemma clock_c_tail w t n p r : clock (c_tail w t n p r) = clock w. Proof. unfold c_tail. rewrite clock_ret_C. destruct p; reflexivity. Qed.
Lemma clock_c_wloop w t n p r : clock (c_wloop w t n p r) = clock w. Proof. unfold c_wloop. dmatch; [apply clock_c_tail|reflexivity]. Qed.
Lemma rets_c_tail w t n p r : rets (c_tail w t n p r) = rets w. Proof. unfold c_tail. rewrite rets_ret_C. destruct p; reflexivity. Qed.
Lemma rets_c_wloop w t n p r : rets (c_wloop w t n p r) = rets w. Proof. unfold c_wloop. dmatch; [apply rets_c_tail|reflexivity]. Qed.
Lemma nrec_c_tail w t n p r : nrec (c_tail w t n p r) = nrec w. Proof. unfold c_tail. rewrite nrec_ret_C. destruct p; reflexivity. Qed.
Lemma nrec_c_wloop w t n p r : nrec (c_wloop w t n p r) = nrec w. Proof. unfold c_wloop. dmatch; [apply nrec_c_tail|reflexivity]. Qed.

(* ------------------------------------------------------------------------------------------------ *)
(* Layer 2: what the locals know; the log of returns *)
Definition ext (w w' : world) : Prop :=
  clock w <= clock w' /\ forall n, expiry (notes w' n) = expiry (notes w n) /\ (flag (notes w n) <> 0 -> flag (notes w' n) <> 0).
Lemma ext_refl w : ext w w. Proof. split; [lia|auto]. Qed.
Lemma ext_trans a b c : ext a b -> ext b c -> ext a c.
Proof. intros [A1 A2] [B1 B2]. split; [lia|]. intro n. destruct (A2 n), (B2 n). split; [congruence|auto]. Qed.
Lemma ext_by w w' : clock w' = clock w -> notes w' = notes w -> ext w w'.
Proof. intros A B. split; [lia|]. rewrite B. auto. Qed.
Lemma ext_c_tail w t n p r : ext w (c_tail w t n p r).
Proof.
  unfold c_tail. split; [rewrite clock_ret_C; destruct p; simpl; lia|]. intro m. rewrite notes_ret_C. destruct p; simpl; auto.
  unfold fupd, nt. destruct (Nat.eqb_spec m n); subst; simpl; auto.
Qed.
Lemma ext_c_wloop w t n p r : ext w (c_wloop w t n p r).
Proof.
  unfold c_wloop. destruct (waiters (nt w n)); [apply ext_c_tail|]. split; simpl; [lia|]. intro m.
  unfold fupd, nt. destruct (Nat.eqb_spec m n); subst; simpl; auto.
Qed.
Ltac prj := rewrite ?clock_ret_D, ?clock_ret_N, ?clock_ret_C, ?clock_ret_Notify, ?notes_ret_D, ?notes_ret_N, ?notes_ret_C, ?notes_ret_Notify.
Ltac ext_tac := split; [prj; simpl; lia|]; let m := fresh "m" in intro m; prj; simpl; unfold fupd, nt; simpl;
  repeat match goal with |- context [Nat.eqb ?a ?b] => destruct (Nat.eqb_spec a b); subst; simpl end; auto.
Lemma step_core_ext w t c : ext w (fst (step_core w t c)).
Proof.
  unfold step_core. destruct (stack (get w t)) as [|f rest]; [apply ext_refl|].
  destruct f as [n s|n s par inc|n par s|n s|n|n|l s]; try apply ext_refl.
  - destruct s; simpl; repeat (dif; simpl); try apply ext_refl; ext_tac.
  - destruct s; simpl; repeat (dif; simpl); try apply ext_refl; ext_tac.
  - destruct s; simpl; repeat (dif; simpl); try apply ext_refl; try ext_tac.
    + eapply ext_trans; [|apply ext_c_wloop]. ext_tac. split; [reflexivity|intros _; rewrite c_store1; lia].
    + eapply ext_trans; [|apply ext_c_wloop]. ext_tac.
  - destruct s; simpl; repeat (dif; simpl); try apply ext_refl; ext_tac.
  - destruct s; simpl; repeat (dif; simpl); try apply ext_refl; try ext_tac.
    all: destruct (sem (get w t)); simpl; try apply ext_refl; ext_tac.
Qed.


Definition notifiedish (w : world) (n : nat) : Prop := flag (notes w n) <> 0 \/ tpos (expiry (notes w n)) = false.
Definition res3 (r : Z) : Prop := r = 0 \/ r = ETIMEDOUT \/ r = ECANCELED.
(* what the enqueueing step (site 2) computed *)
Definition enq_ok (w : world) (n : nat) (l : wl) : Prop :=
  w_ct l = expiry (notes w n) /\ tpos (w_ct l) = true /\ w_near l = tlt (w_dl l) (w_ct l) /\ w_ldl l = (if w_near l then w_dl l else w_ct l).
Definition to_ok (w : world) (l : wl) : Prop := exists c, w_toclk l = Some c /\ tle_z (w_ldl l) c = true /\ c <= clock w.
(* the outcome of the P *)
Definition out_ok (w : world) (n : nat) (l : wl) : Prop :=
  match w_why l with
  | YOk => w_so l = 0 /\ w_took l <> None
  | YTimeout => w_so l = ETIMEDOUT /\ w_near l = true /\ to_ok w l
  | YExpiry => w_so l = ECANCELED /\ w_near l = false /\ to_ok w l /\ notifiedish w n
  | _ => False
  end.
Definition wl_ok (w : world) (l : wl) (s : wst) : Prop :=
  match s with
  | WPlain | WChk _ | WSt _ | WLk1 _ | WLd1 _ => w_so l = ECANCELED
  | WUn1 n | WP n => w_so l = ECANCELED /\ enq_ok w n l
  | WNtf n => w_so l = ECANCELED /\ w_why l = YExpiry /\ w_near l = false /\ enq_ok w n l /\ to_ok w l
  | WLk2 n | WLd2 n => enq_ok w n l /\ out_ok w n l
  | WUnl n => (enq_ok w n l /\ out_ok w n l) \/ (w_why l = YLocked /\ w_so l = ECANCELED /\ notifiedish w n)
  end.
Definition fr2 (w : world) (f : frame) : Prop :=
  match f with
  | FD n (D4 x) => (tpos x = false -> notifiedish w n) /\ (tpos x = true -> x = expiry (notes w n))
  | FD n (D5 x) => tpos x = true /\ x = expiry (notes w n)
  | FD n (D6 now) => tle_z (expiry (notes w n)) now = true /\ now <= clock w
  | FN n N10 _ _ | FN n N11 _ _ => notifiedish w n
  | FC n _ (C3 _) | FC n _ (C4 _) => flag (notes w n) <> 0
  | AWait l s => wl_ok w l s
  | _ => True
  end.
Definition e_notifiedish (e : rentry) : Prop := e_flag e <> 0 \/ tpos (e_exp e) = false.
Definition ret_ok (e : rentry) : Prop :=
  match e_why e with
  | YOk => e_res e = 0 /\ e_took e <> None
  | YTimeout => e_res e = ETIMEDOUT /\ (exists c, e_toclk e = Some c /\ tle_z (e_dl e) c = true /\ c <= e_clock e) /\
                (e_note e = None \/ (e_note e <> None /\ e_near e = true /\ tlt (e_dl e) (e_ct e) = true /\ e_ct e = e_exp e))
  | YEarly => e_res e = ECANCELED /\ e_note e <> None /\ e_notifiedish e /\ (forall c, e_chk e = Some c -> tle_z (e_exp e) c = true /\ c <= e_clock e)
  | YLocked => e_res e = ECANCELED /\ e_note e <> None /\ e_notifiedish e
  | YExpiry => e_res e = ECANCELED /\ e_note e <> None /\ e_notifiedish e /\ e_near e = false /\ tlt (e_dl e) (e_ct e) = false /\ e_ct e = e_exp e /\
               exists c, e_toclk e = Some c /\ tle_z (e_exp e) c = true /\ c <= e_clock e
  end.
Definition W2 (w : world) : Prop := (forall u, Forall (fr2 w) (stack (get w u))) /\ (forall e, In e (rets w) -> ret_ok e).

Lemma notifiedish_ext w w' n : ext w w' -> notifiedish w n -> notifiedish w' n.
Proof. intros [_ E] [A|A]; destruct (E n) as [E1 E2]; [left; auto|right; congruence]. Qed.
Lemma enq_ok_ext w w' n l : ext w w' -> enq_ok w n l -> enq_ok w' n l.
Proof. intros [_ E] (A & B); destruct (E n) as [E1 E2]. split; [congruence|exact B]. Qed.
Lemma to_ok_ext w w' l : ext w w' -> to_ok w l -> to_ok w' l.
Proof. intros [E _] (c & A & B & C). exists c; repeat split; auto; lia. Qed.
Lemma out_ok_ext w w' n l : ext w w' -> out_ok w n l -> out_ok w' n l.
Proof.
  intros E. unfold out_ok. destruct (w_why l); auto.
  - intros (A & B & C); split; [auto|split; [auto|eapply to_ok_ext; eauto]].
  - intros (A & B & C & D); split; [auto|split; [auto|split; [eapply to_ok_ext|eapply notifiedish_ext]; eauto]].
Qed.
Lemma fr2_ext w w' f : ext w w' -> fr2 w f -> fr2 w' f.
Proof.
  intros E. pose proof E as [Ec En]. destruct f as [n s|n s par inc|n par s|n s|n|n|l s]; simpl; auto.
  - destruct s; auto; destruct (En n) as [E1 E2]; rewrite ?E1.
    + intros [A B]; split; auto. intro; eapply notifiedish_ext; eauto.
    + auto.
    + intros [A B]; split; auto; lia.
  - destruct s; auto; apply notifiedish_ext; auto.
  - destruct s; auto; apply En.
  - destruct s; simpl; auto.
    + intros [A B]; split; auto; eapply enq_ok_ext; eauto.
    + intros [A B]; split; auto; eapply enq_ok_ext; eauto.
    + intros (A & B & C & D & F); split; [auto|split; [auto|split; [auto|split; [eapply enq_ok_ext|eapply to_ok_ext]; eauto]]].
    + intros [A B]; split; [eapply enq_ok_ext|eapply out_ok_ext]; eauto.
    + intros [A B]; split; [eapply enq_ok_ext|eapply out_ok_ext]; eauto.
    + intros [[A B]|(A & B & C)]; [left; split; [eapply enq_ok_ext|eapply out_ok_ext]; eauto|right; split; [auto|split; [auto|eapply notifiedish_ext; eauto]]].
Qed.
Lemma Forall_fr2_ext w w' st : ext w w' -> Forall (fr2 w) st -> Forall (fr2 w') st.
Proof. intros E. apply Forall_impl. intro; apply fr2_ext; auto. Qed.

(* the world after a step, seen from the threads that did not move *)
Definition keeps (t : nat) (w w' : world) : Prop :=
  ext w w' /\ (forall u, u <> t -> stack (get w' u) = stack (get w u)).
Lemma W2_setst t w w1 st : keeps t w w1 -> rets w1 = rets w -> W2 w -> Forall (fr2 w1) st -> W2 (setst w1 t st).
Proof.
  intros [E K] R [A B] F. split.
  - intro u. stk. eqt u t; [eapply Forall_fr2_ext; [|exact F]; apply ext_by; reflexivity|].
    rewrite K; auto. eapply Forall_fr2_ext; [|apply A]. eapply ext_trans; [exact E|]. apply ext_by; reflexivity.
  - simpl. rewrite R. exact B.
Qed.
Lemma W2_finish t w w1 o r : keeps t w w1 -> rets w1 = rets w -> W2 w -> W2 (finish w1 t o r).
Proof.
  intros [E K] R [A B]. split.
  - intro u. stk. eqt u t; [constructor|].
    rewrite K; auto. eapply Forall_fr2_ext; [|apply A]. eapply ext_trans; [exact E|]. apply ext_by; reflexivity.
  - simpl. rewrite R. exact B.
Qed.

Lemma W2_finish_wait t w w1 l (b : bool) : keeps t w w1 -> rets w1 = rets w -> W2 w ->
  ret_ok (mk_re t (w_note l) (w_dl l) (w_so l) (w_why l) (clock w1)
                 (match w_note l with Some n => flag (nt w1 n) | None => 0 end)
                 (match w_note l with Some n => expiry (nt w1 n) | None => None end)
                 (w_ct l) (w_near l) (w_chk l) (w_toclk l) (w_took l) (if b then Some (w_rec l) else None)) ->
  W2 (finish_wait w1 t l b).
Proof.
  intros [E K] R [A B] He. unfold finish_wait. split.
  - intro u. stk. eqt u t; [constructor|].
    destruct b; stk; rewrite K; auto; (eapply Forall_fr2_ext; [|apply A]); (eapply ext_trans; [exact E|]); apply ext_by; reflexivity.
  - simpl. intros e [<-|Hin].
    + destruct b; exact He.
    + apply B. rewrite <- R. destruct b; exact Hin.
Qed.
Ltac kp := split; [first [apply ext_refl | ext_tac]|intros; stk; reflexivity].

Lemma ret_Notify_W2 t w w1 n rest : keeps t w w1 -> rets w1 = rets w -> W2 w -> pre_ok (FNotify n :: rest) -> Forall (fr2 w1) rest ->
  notifiedish w1 n -> W2 (ret_Notify w1 t n rest).
Proof.
  intros K R H [Hwf Hfr] F N. unfold ret_Notify.
  destruct rest as [|[| | | | | |l []] r]; try (apply W2_finish with (w := w); auto).
  apply wf_cons in Hwf. destruct Hwf as [Ha Hwf]. apply wf_AWait in Hwf. subst r. simpl in Ha. subst n0.
  apply W2_setst with (w := w); auto. fr_split F. constructor; [|constructor]. simpl.
  destruct Hf as (A & B & C & D & G). split; auto. unfold out_ok. rewrite B. auto.
Qed.

Lemma ret_D_W2 t w w1 n s rest v clk : keeps t w w1 -> rets w1 = rets w -> W2 w -> pre_ok (FD n s :: rest) -> Forall (fr2 w1) rest ->
  (tpos v = false -> notifiedish w1 n /\ forall c, clk = Some c -> tle_z (expiry (notes w1 n)) c = true /\ c <= clock w1) ->
  W2 (ret_D w1 t rest v clk).
Proof.
  intros K R H [Hwf Hfr] F N. unfold ret_D.
  destruct rest as [|g r]; [contradiction Hwf|].
  apply wf_cons in Hwf. destruct Hwf as [Ha Hwf]. fr_split Hfr.
  destruct g as [| | | |m|m|l []]; simpl in Ha; try contradiction; subst.
  - destruct (tpos v).
    + apply W2_setst with (w := w); auto.
    + fr_split F. apply ret_Notify_W2 with (w := w); auto; [split; auto|apply N; auto].
  - apply W2_finish with (w := w); auto.
  - apply wf_AWait in Hwf. subst r. fr_split F. destruct (tpos v).
    + apply W2_setst with (w := w); auto; try (constructor; simpl; auto).
    + apply W2_finish_wait with (w := w); auto. unfold ret_ok, e_notifiedish; simpl. unfold fr1 in Hf0; simpl in Hf0. rewrite Hf0; simpl. destruct N as [N1 N2]; auto.
      split; [auto|split; [congruence|split; [exact N1|exact N2]]].
Qed.

Lemma ret_N_W2 t w w1 n s par inc rest : keeps t w w1 -> rets w1 = rets w -> W2 w -> pre_ok (FN n s par inc :: rest) -> Forall (fr2 w1) rest ->
  notifiedish w1 n -> W2 (ret_N w1 t rest).
Proof.
  intros K R H [Hwf Hfr] F N. unfold ret_N.
  destruct rest as [|g r]; [contradiction Hwf|].
  apply wf_cons in Hwf. destruct Hwf as [Ha Hwf]. fr_split Hfr.
  destruct g as [m []| | | |m|m|]; simpl in Ha; try contradiction; subst.
  - fr_split F. eapply ret_D_W2 with (w := w); eauto; [split; eauto|]. intros _. split; [exact N|]. intros c [= <-]. exact Hf1.
  - fr_split F. apply ret_Notify_W2 with (w := w); auto. split; auto.
Qed.

Lemma ret_C_W2 t w w1 n par s rest : keeps t w w1 -> rets w1 = rets w -> W2 w -> pre_ok (FC n par s :: rest) -> Forall (fr2 w1) rest ->
  notifiedish w1 n -> W2 (ret_C w1 t rest).
Proof.
  intros K R H [Hwf Hfr] F N. unfold ret_C.
  destruct rest as [|g r]; [contradiction Hwf|].
  apply wf_cons in Hwf. destruct Hwf as [Ha Hwf]. fr_split F.
  destruct g as [|m [] par' inc| |m []| | |]; simpl in Ha; try contradiction.
  - destruct Ha as (-> & ->). apply W2_setst with (w := w); auto. constructor; auto. destruct par'; exact N.
  - subst. apply W2_setst with (w := w); auto; try (constructor; simpl; auto).
Qed.

Lemma c_tail_W2 t w w1 n par s rest : keeps t w w1 -> rets w1 = rets w -> W2 w -> pre_ok (FC n par s :: rest) -> Forall (fr2 w1) rest ->
  flag (notes w1 n) <> 0 -> W2 (c_tail w1 t n par rest).
Proof.
  intros [E K] R H P F N. unfold c_tail. destruct par.
  - eapply ret_C_W2 with (w := w); eauto.
    + split; [eapply ext_trans; [exact E|ext_tac]|intros; stk; auto].
    + eapply Forall_fr2_ext; [|exact F]. ext_tac.
    + left. simpl. unfold fupd. rewrite Nat.eqb_refl. exact N.
  - eapply ret_C_W2 with (w := w); eauto. split; auto. left; auto.
Qed.
Lemma c_wloop_W2 t w w1 n par s rest : keeps t w w1 -> rets w1 = rets w -> W2 w -> pre_ok (FC n par s :: rest) -> Forall (fr2 w1) rest ->
  flag (notes w1 n) <> 0 -> W2 (c_wloop w1 t n par rest).
Proof.
  intros [E K] R H P F N. unfold c_wloop. destruct (waiters (nt w1 n)) as [|o ws]; [eapply c_tail_W2; eauto; split; auto|].
  apply W2_setst with (w := w); auto.
  - split; [eapply ext_trans; [exact E|ext_tac]|intros; stk; auto].
  - constructor; [simpl; unfold fupd; rewrite Nat.eqb_refl; exact N|]. eapply Forall_fr2_ext; [|exact F]. ext_tac.
Qed.

Lemma begin_call_W2 w t : W2 w -> W2 (begin_call w t).
Proof.
  intros [A B]. unfold begin_call. destruct (stack (get w t)) eqn:Es; [|split; auto]. destruct (prog (get w t)) as [|o rest]; [split; auto|].
  split; [|exact B]. intro u. unfold set_thr, get; simpl; unfold fupd. eqt u t; [|apply A].
  destruct o as [[n|] dl|n|n|n]; simpl; repeat dif; repeat (constructor; simpl; auto).
Qed.

Lemma tpos_nt w n : tpos (notified_time w n (flag (nt w n))) = false -> notifiedish w n.
Proof. unfold notified_time, notifiedish, nt. destruct (Z.eqb_spec (flag (notes w n)) 0); auto. Qed.
Lemma tpos_nt_true w n : tpos (notified_time w n (flag (nt w n))) = true -> notified_time w n (flag (nt w n)) = expiry (notes w n) /\ flag (notes w n) = 0.
Proof. unfold notified_time, nt. destruct (Z.eqb_spec (flag (notes w n)) 0); auto. discriminate. Qed.

Ltac fs := simpl; unfold fupd, nt; simpl; rewrite ?Nat.eqb_refl; simpl.
Ltac exr := first [apply ext_refl | ext_tac].
Ltac fcons := match goal with |- Forall _ (_ :: _) => constructor; [simpl|] end.
Ltac s2 w := apply W2_setst with (w := w); [kp | reflexivity | assumption | ];
  repeat fcons; [..|eapply Forall_fr2_ext; [|eassumption]; exr].
Lemma step_core_W2 w t c : W1 w -> W2 w -> W2 (fst (step_core w t c)).
Proof.
  intros H1 H2. pose proof (H1 t) as (Hwf & Htop & Hfr). pose proof H2 as [A B]. pose proof (A t) as Ft.
  unfold step_core. destruct (stack (get w t)) as [|f rest] eqn:Est; [exact H2|].
  assert (Hp : pre_ok (f :: rest)) by (split; auto).
  apply Forall_inv2 in Ft. destruct Ft as [Ff Fr].
  destruct f as [n s|n s par inc|n par s|n s|n|n|l s]; try exact H2.
  - (* FD *) destruct s; simpl in *; try exact H2.
    + destruct (Z.eqb_spec (flag (nt w n)) 0); simpl; [s2 w; auto|].
      eapply ret_D_W2 with (w := w); eauto; [kp|]. intros _. split; [left; exact n0|discriminate].
    + destruct (lock_free w n); simpl; [|exact H2]. s2 w; auto.
    + s2 w. split; [apply tpos_nt|apply tpos_nt_true].
    + destruct (tpos x) eqn:Ex; simpl.
      * s2 w. split; auto. fs. apply Ff; auto.
      * eapply ret_D_W2 with (w := w); eauto; [kp| |].
        -- eapply Forall_fr2_ext; [|exact Fr]. exr.
        -- intros _. split; [|discriminate]. eapply notifiedish_ext; [|apply Ff; auto]. exr.
    + destruct Ff as [Fa Fb]. destruct (tle_z x (clock w)) eqn:Ex; simpl.
      * s2 w; auto. split; [rewrite <- Fb; exact Ex|lia].
      * eapply ret_D_W2 with (w := w); eauto; [kp|]. congruence.
  - (* FN *) destruct s; simpl in *; try exact H2.
    + destruct (lock_free w n); simpl; [|exact H2]. dif; simpl; s2 w; auto.
    + s2 w; auto.
    + dif; simpl; [|exact H2]. s2 w; auto.
    + destruct (tpos (notified_time w n (flag (nt w n)))) eqn:Ex; simpl; [dif; simpl|]; s2 w; auto. apply tpos_nt; auto.
    + destruct c; simpl; s2 w; auto.
    + s2 w; auto.
    + s2 w; auto.
    + destruct (lock_free w n); simpl; [|exact H2]. s2 w; auto.
    + s2 w; auto.
    + destruct inc; (eapply ret_N_W2 with (w := w); eauto; [kp | eapply Forall_fr2_ext; [|exact Fr]; exr | eapply notifiedish_ext; [|exact Ff]; exr]).
  - (* FC *) destruct s; simpl in *.
    + destruct (tpos (notified_time w n (flag (nt w n)))) eqn:Ex; simpl; [s2 w; auto|].
      eapply ret_C_W2 with (w := w); eauto; [kp|]. apply tpos_nt; auto.
    + assert (E2 : ext w (set_note w n (set_flag (nt w n) note_notify_child_store1_new))) by (ext_tac; split; [reflexivity|intros _; rewrite c_store1; lia]).
      eapply c_wloop_W2 with (w := w); eauto.
      * split; [exact E2|intros; stk; reflexivity].
      * eapply Forall_fr2_ext; [|exact Fr]; exact E2.
      * fs. rewrite c_store1; lia.
    + s2 w. exact Ff.
    + eapply c_wloop_W2 with (w := w); eauto; try kp; try (eapply Forall_fr2_ext; [|exact Fr]; exr).
  - (* FP *) destruct s; simpl in *; try exact H2.
    + destruct (lock_free w n); simpl; [|exact H2]. dif; simpl; s2 w; auto.
    + destruct dec; apply W2_finish with (w := w); auto; kp.
  - (* AWait *) apply wf_AWait in Hwf as Hr. subst rest. fr_split Hfr. unfold fr1 in Hf; simpl in Hf. destruct s; simpl in *; try exact H2.
    + (* WPlain *) destruct c; simpl.
      * destruct (tle_z (w_dl l) (clock w)) eqn:Ed; simpl; [|exact H2].
        apply W2_finish_wait with (w := w); auto; [kp|]. unfold ret_ok; simpl. rewrite Hf.
        split; [auto|split; [exists (clock w); split; [auto|split; [auto|lia]]|left; auto]].
      * destruct (sem (get w t)) eqn:Es; simpl; [exact H2|].
        apply W2_finish_wait with (w := w); auto; [kp|]. unfold ret_ok; simpl. split; [auto|discriminate].
    + s2 w; auto.
    + destruct (lock_free w n); simpl; [|exact H2]. s2 w; auto.
    + destruct (tpos (notified_time w n (flag (nt w n)))) eqn:Ex; simpl.
      * s2 w. pose proof (tpos_nt_true _ _ Ex) as [Ex1 Ex2]. unfold nt in *. split; [auto|]. unfold enq_ok; fs. repeat split; auto.
      * s2 w. right. split; [auto|split; [auto|apply tpos_nt; auto]].
    + s2 w. destruct Ff as [Fa Fb]. split; auto. eapply enq_ok_ext; [|exact Fb]. exr.
    + (* WP *) destruct Ff as [Fa Fb]. destruct c; simpl.
      * destruct (tle_z (w_ldl l) (clock w)) eqn:Ed; simpl; [|exact H2]. destruct (w_near l) eqn:En; simpl.
        -- s2 w. split; [exact Fb|]. unfold out_ok; simpl. split; [auto|split; [auto|exists (clock w); simpl; split; [auto|split; [auto|lia]]]].
        -- s2 w; auto. split; [auto|split; [auto|split; [auto|split; [exact Fb|exists (clock w); simpl; split; [auto|split; [auto|lia]]]]]].
      * destruct (sem (get w t)) eqn:Es; simpl; [exact H2|]. s2 w. split; [exact Fb|]. unfold out_ok; simpl. split; [auto|discriminate].
    + destruct (lock_free w n); simpl; [|exact H2]. s2 w. change (fr2 (acquire w t n) (AWait l (WLk2 n))). eapply fr2_ext; [|exact Ff]. exr.
    + destruct (tpos (notified_time w n (flag (nt w n)))) eqn:Ex; simpl; s2 w; left.
      * change (fr2 (set_note (set_rec (touch (touch_all w (waiters (nt w n))) (w_rec l)) (w_rec l) (set_rs (recs w (w_rec l)) RGone)) n
                  (set_waiters (nt w n) (remove_nat (w_rec l) (waiters (nt w n))))) (AWait l (WLk2 n))). eapply fr2_ext; [|exact Ff]. exr.
      * exact Ff.
    + (* WUnl *) apply W2_finish_wait with (w := w); auto; [kp|]. unfold ret_ok, e_notifiedish; simpl. rewrite Hf. fs.
      destruct Ff as [[(Fa & Fb & Fc & Fd) Fo]|(Fa & Fb & Fc)].
      * unfold out_ok in Fo. destruct (w_why l); try contradiction.
        -- exact Fo.
        -- destruct Fo as (O1 & O2 & c0 & O3 & O4 & O5). rewrite O2 in *.
           split; [auto|split; [exists c0; rewrite Fd in O4; auto|right; split; [discriminate|split; [auto|split; [congruence|auto]]]]].
        -- destruct Fo as (O1 & O2 & (c0 & O3 & O4 & O5) & O6). rewrite O2 in *.
           split; [auto|split; [discriminate|split; [exact O6|split; [auto|split; [congruence|split; [auto|exists c0; rewrite Fd, Fa in O4; auto]]]]]].
      * rewrite Fa. split; [auto|split; [discriminate|exact Fc]].
Qed.

(* ------------------------------------------------------------------------------------------------ *)
(* the two layers hold in every reachable world *)
Lemma exec_W1 w a : W1 w -> W1 (exec w a).
Proof.
  intros H. destruct a as [t c|d|o|t]; simpl.
  - rewrite step_eq. apply step_core_W1, begin_call_W1, H.
  - exact H.
  - intro u. unfold env_v. stk. apply H.
  - intro u. unfold env_p. destruct (stack (get w t)); [|apply H]. destruct (sem (get w t)); [apply H|]. stk. apply H.
Qed.
Lemma ext_tick w d : ext w (tick w d). Proof. split; simpl; [lia|auto]. Qed.
Lemma exec_W2 w a : W1 w -> W2 w -> W2 (exec w a).
Proof.
  intros H1 H. destruct a as [t c|d|o|t]; simpl.
  - rewrite step_eq. apply step_core_W2; [apply begin_call_W1, H1|apply begin_call_W2, H].
  - destruct H as [A B]. split; [|exact B]. intro u. eapply Forall_fr2_ext; [apply ext_tick|apply A].
  - destruct H as [A B]. split; [|exact B]. intro u. unfold env_v. stk. eapply Forall_fr2_ext; [|apply A]. apply ext_by; reflexivity.
  - unfold env_p. destruct (stack (get w t)); [|exact H]. destruct (sem (get w t)); [exact H|].
    destruct H as [A B]. split; [|exact B]. intro u. stk. eapply Forall_fr2_ext; [|apply A]. apply ext_by; reflexivity.
Qed.
Lemma init_stack c0 ns progs u : stack (get (init c0 ns progs) u) = [].
Proof.
  unfold init, get; simpl. revert u. induction progs as [|p ps IH]; intro u; destruct u; simpl; auto.
Qed.
Lemma init_W1 c0 ns progs : W1 (init c0 ns progs).
Proof. intro u. rewrite init_stack. repeat split; simpl; auto. Qed.
Lemma init_W2 c0 ns progs : W2 (init c0 ns progs).
Proof. split; [intro u; rewrite init_stack; constructor|intros e []]. Qed.
Lemma run_W12 sched : forall w, W1 w -> W2 w -> W1 (run w sched) /\ W2 (run w sched).
Proof.
  unfold run. induction sched as [|a s IH]; intros w H1 H2; simpl; [auto|]. apply IH; [apply exec_W1|apply exec_W2]; auto.
Qed.
Lemma reachable_W1 w : reachable w -> W1 w.
Proof. intros (c0 & ns & progs & sched & _ & ->). apply run_W12; [apply init_W1|apply init_W2]. Qed.
Lemma reachable_W2 w : reachable w -> W2 w.
Proof. intros (c0 & ns & progs & sched & _ & ->). apply run_W12; [apply init_W1|apply init_W2]. Qed.

(* C05sw_reason / C05sw_results *)
Lemma sw_ret_ok w e : reachable w -> In e (rets w) -> ret_ok e.
Proof. intros R. apply (reachable_W2 w R). Qed.
Lemma sw_results w e : reachable w -> In e (rets w) -> e_res e = 0 \/ e_res e = ETIMEDOUT \/ e_res e = ECANCELED.
Proof. intros R H. pose proof (sw_ret_ok w e R H) as K. unfold ret_ok in K. destruct (e_why e); tauto. Qed.
