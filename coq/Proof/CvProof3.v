(* CvProof3: layer C (CV_NON_EMPTY), the converse of the private-list invariant (Q2c) and "a waker that has taken
   records can always move".  Continues Proof/CvProof2.v. *)
From NsyncBase Require Import CSem.
From NsyncGen Require Import Consts Sites.
From NsyncModel Require Import CvModel.
From NsyncProof Require Import CvProof CvProof2.
From Coq Require Import List ZArith Bool Lia PeanoNat.
Import ListNotations.
Local Open Scope Z_scope.
(* ================================================================== *)
(* Layer C: CV_NON_EMPTY tells the truth whenever the spinlock is free *)
(* ================================================================== *)
Definition ne (v : Z) : bool := has v CV_NON_EMPTY.
Definition cinv_pc (w : world) (p : pc) : Prop :=
  match p with
  | WLoad7 l | WLoad8 l | WRcLoad l | WRcCas l _ | WStore0 l | WStoreW l => cvq w <> [] -> ne (w_old l) = true
  | KRcLoad k | KRcCas k _ | KStoreW k => if k_bc k then cvq w = [] else cvq w <> [] -> ne (k_old k) = true
  | NDeqLoad n | NDeqStore n | NDeqRel n => cvq w <> [] -> ne (n_old n) = true
  | _ => True
  end.
Definition CInv (w : world) : Prop :=
  ((forall t, pc_spin (pcof w t) = false) -> cvq w <> [] -> ne (cvw w) = true) /\
  (forall t, cinv_pc w (pcof w t)).

Lemma ne_clear old : lowbits old -> ne (band old (bnot32 CV_NON_EMPTY)) = false.
Proof. intros [-> | ->]; reflexivity. Qed.
Lemma ne_set old : lowbits old -> ne (nsync_cv_wait_with_deadline_generic_store2_new old) = true /\ ne (cv_enqueue_store2_new old) = true.
Proof. intros [-> | ->]; split; reflexivity. Qed.
Lemma ne_spin_new1 old : lowbits old -> ne (nsync_spin_test_and_set_cas1_new old CV_SPINLOCK 0) = ne old.
Proof. intros [-> | ->]; reflexivity. Qed.

Lemma cinv_pc_after_todo w k : cinv_pc w (after_todo k) = (if k_bc k then cvq w = [] else cvq w <> [] -> ne (k_old k) = true).
Proof. unfold after_todo. destruct (k_todo k); reflexivity. Qed.
Lemma cinv_pc_enter_wake_loop w k : cinv_pc w (enter_wake_loop k) = True.
Proof. unfold enter_wake_loop. destruct (k_wake k); reflexivity. Qed.

(* the cv queue changes only in a step after which the stepping thread holds the spinlock *)
Lemma cvq_change w t c : (t < length (thr w))%nat -> cvq (fst (step_core w t c)) <> cvq w -> pc_spin (pcof (fst (step_core w t c)) t) = true.
Proof.
  intros Hlt. unfold pcof. step_cases w t; simpl fst; simpl cvq; try (intros H; elim H; reflexivity); intros _; pc_nf;
    rewrite ?(proj2 (pc_old_after_todo _)); reflexivity.
Qed.

Lemma cinv_self w t c : CInv w -> AInv w -> (t < length (thr w))%nat ->
  let w' := fst (step_core w t c) in cinv_pc w' (pcof w' t).
Proof.
  intros (C1 & C2) HA Hlt. pose proof HA as (A1 & A2 & A3 & A4). cbv zeta.
  pose proof (C2 t) as Ct. pose proof (A3 t) as A3t. unfold pcof in *.
  assert (Hfree : lowbits (cvw w) -> cvq w <> [] -> ne (cvw w) = true).
  { intros Hl. apply C1. intros s. destruct (pc_spin (t_pc (get w s))) eqn:E; [|reflexivity]. destruct (A2 s E) as [E'|E']; destruct Hl; congruence. }
  unfold step_core; destruct (t_pc (get w t)) eqn:Hpc; unfold_st; simpl cvq; destr_all;
    try rewrite Hpc in *; simpl fst; pc_nf; try rewrite Hpc; simpl cinv_pc;
    rewrite ?cinv_pc_after_todo, ?cinv_pc_enter_wake_loop; simpl cvq; simpl k_bc; simpl k_old; try exact I; try exact Ct.
  all: autorewrite with getdb; try rewrite Hpc; simpl cinv_pc; try exact I; try exact Ct.
  all: simpl in Ct, A3t; zbool; unfold nsync_spin_test_and_set_cas1_old in *.
  all: try match goal with H : cvw ?w0 = _ |- _ => assert (Hlow : lowbits (cvw w0)) by (rewrite H; apply A3t; reflexivity) end.
  all: sel_part.
  all: try match goal with H : sel_broadcast _ _ = _ |- _ => unfold sel_broadcast in H; injection H as <- <- <- end.
  all: try reflexivity.
  all: try solve [intros Hne; rewrite <- Heqb; apply Hfree; [exact Hlow | exact Hne]].
  all: try solve [intros Hne; apply Ct; intros E; rewrite E in Hne; apply Hne; reflexivity].
  (* nsync_cv_signal: a non-empty rest comes from a non-empty queue *)
  all: try match goal with Hp : part (cvq ?w0) ?a ?b |- _ => assert (Hsub : b <> [] -> cvq w0 <> []) by
              (intros Hne E; destruct b as [|x b']; [now apply Hne|]; rewrite E in Hp; destruct (proj2 (proj1 Hp x)); simpl; auto) end.
  all: try solve [intros Hne; rewrite <- Heqb; apply Hfree; [exact Hlow | now apply Hsub]].
  all: try match goal with H : is_nil ?b = true |- ?b <> [] -> _ => intros Hne; destruct b; [elim Hne; reflexivity | discriminate] end.
  all: try match goal with H : is_nil (cvq ?w0) = true |- _ => destruct (cvq w0); [|discriminate] end.
  all: try solve [intros Hne; elim Hne; reflexivity].
Qed.

Lemma release_ne w t c : AInv w -> (t < length (thr w))%nat ->
  pc_spin (pcof w t) = true -> pc_spin (pcof (fst (step_core w t c)) t) = false -> cinv_pc w (pcof w t) ->
  cvq w <> [] -> ne (cvw (fst (step_core w t c))) = true.
Proof.
  intros HA Hlt. pose proof HA as (A1 & A2 & A3 & A4). pose proof (A3 t) as A3t. unfold pcof in *.
  step_cases w t; try rewrite Hpc in *; simpl fst; pc_nf; try rewrite Hpc; simpl pc_spin;
    rewrite ?(proj2 (pc_old_after_todo _)), ?(proj2 (pc_old_enter_wake_loop _)); try discriminate; intros _ _; simpl cvw; simpl cinv_pc.
  all: autorewrite with getdb; try rewrite Hpc; simpl pc_spin; try discriminate.
  all: simpl in A3t; try (specialize (A3t _ eq_refl)).
  all: try solve [intros _ _; apply (ne_set _ A3t)].
  all: try solve [intros Hc Hne; now apply Hc].
  all: try solve [intros Hc Hne; congruence].
  all: match goal with H : k_bc _ = _ |- _ => rewrite H end; intros Hc Hne; first [congruence | now apply Hc].
Qed.

Lemma CInv_step_core w t c : CInv w -> AInv w -> (t < length (thr w))%nat -> CInv (fst (step_core w t c)).
Proof.
  intros HC HA Hlt. pose proof HC as (C1 & C2). pose proof (AInv_step_core w t c HA Hlt) as HA'.
  pose proof HA as (A1 & A2 & A3 & A4). pose proof HA' as (A1' & _).
  assert (Hoth : forall s, s <> t -> pcof (fst (step_core w t c)) s = pcof w s) by (intros; unfold pcof; now rewrite step_core_other by congruence).
  assert (Hq : pc_spin (pcof (fst (step_core w t c)) t) = false -> cvq (fst (step_core w t c)) = cvq w).
  { intros Hs. destruct (list_eq_dec Nat.eq_dec (cvq (fst (step_core w t c))) (cvq w)) as [E|Hne]; [exact E|].
    rewrite (cvq_change w t c Hlt Hne) in Hs. discriminate. }
  split.
  - intros Hfree Hne. rewrite (Hq (Hfree t)) in Hne.
    destruct (step_core_A w t c HA Hlt) as (_ & [(Hs & Hw)|[(_ & Hs & _)|(Hs0 & Hs1 & _)]]); cbv zeta in *; fold (pcof w t) in *;
      fold (pcof (fst (step_core w t c)) t) in *.
    + rewrite Hw. apply C1; [|exact Hne]. intros s. destruct (Nat.eq_dec s t) as [->|Hn]; [rewrite Hs; apply Hfree | rewrite <- Hoth by assumption; apply Hfree].
    + rewrite (Hfree t) in Hs. discriminate.
    + apply (release_ne w t c HA Hlt Hs0 Hs1 (C2 t) Hne).
  - intros s. destruct (Nat.eq_dec s t) as [->|Hn]; [apply (cinv_self w t c HC HA Hlt)|].
    rewrite Hoth by assumption. specialize (C2 s).
    destruct (pc_spin (pcof w s)) eqn:Hsp.
    + (* s holds the spinlock: t cannot have changed the queue *)
      assert (E : cvq (fst (step_core w t c)) = cvq w).
      { apply Hq. destruct (pc_spin (pcof (fst (step_core w t c)) t)) eqn:Ht; [|reflexivity]. exfalso. apply Hn.
        apply A1'; [|exact Ht]. fold (pcof (fst (step_core w t c)) s). now rewrite Hoth. }
      unfold cinv_pc in *. now rewrite E.
    + unfold cinv_pc. destruct (pcof w s); simpl in Hsp; try discriminate; exact I.
Qed.


Lemma CInv_frame w w' : (forall t, pcof w' t = pcof w t) -> cvq w' = cvq w -> cvw w' = cvw w -> CInv w -> CInv w'.
Proof.
  intros Hp Hq Hw (C1 & C2). split.
  - rewrite Hq, Hw. intros Hf. apply C1. intros t. rewrite <- Hp. apply Hf.
  - intros t. rewrite Hp. specialize (C2 t). unfold cinv_pc in *. now rewrite Hq.
Qed.
Lemma CInv_begin_op w t : CInv w -> CInv (begin_op w t).
Proof.
  intros (C1 & C2). pose proof (begin_op_misc w t) as (_ & _ & _ & _ & _ & _ & Hcw & Hcq & _).
  assert (Hsp : forall s, pc_spin (pcof (begin_op w t) s) = pc_spin (pcof w s) /\ cinv_pc (begin_op w t) (pcof (begin_op w t) s) = cinv_pc w (pcof w s) \/
                          (pcof w s = Idle /\ pc_spin (pcof (begin_op w t) s) = false /\ cinv_pc (begin_op w t) (pcof (begin_op w t) s) = True)).
  { intros s. destruct (Nat.eq_dec s t) as [->|Hne].
    - destruct (begin_op_pc w t) as [E|(Hpc & _ & o & rest & _ & E)].
      + left. unfold pcof. rewrite E. split; [reflexivity|]. unfold cinv_pc. now rewrite Hcq.
      + right. unfold pcof. rewrite E. split; [exact Hpc|]. destruct o; simpl; try destruct (held (get w t)); auto.
    - left. unfold pcof. rewrite begin_op_other by congruence. split; [reflexivity|]. unfold cinv_pc. now rewrite Hcq. }
  split.
  - rewrite Hcq, Hcw. intros Hf. apply C1. intros s. destruct (Hsp s) as [(A & _)|(A & _)]; [rewrite <- A; apply Hf | now rewrite A].
  - intros s. destruct (Hsp s) as [(_ & A)|(_ & _ & A)]; rewrite A; [apply C2 | exact I].
Qed.
Lemma CInv_step w a c : CInv w -> AInv w -> CInv (fst (step w a c)).
Proof.
  intros HC HA. destruct a as [t| | | | | | | |].
  { simpl. destruct (le_lt_dec (length (thr w)) t) as [Hoob|Hlt]; [now rewrite step_thr_oob|].
    unfold step_thr. apply CInv_step_core; [now apply CInv_begin_op | now apply AInv_begin_op |].
    now rewrite (proj1 (proj2 (proj2 (begin_op_misc w t)))). }
  all: match goal with |- CInv (fst (step ?w0 ?a ?c0)) =>
         pose proof (env_frame w0 a c0 ltac:(intros; discriminate)) as (Hg & _ & _ & _ & _ & _ & Hcw & Hcq & _) end.
  all: apply (CInv_frame w); [intros t0; unfold pcof; now rewrite Hg | assumption | assumption | assumption].
Qed.
Lemma CInv_run progs clock0 exp sched : CInv (run (init progs clock0 exp) sched).
Proof.
  induction sched as [|[a c] s IH] using rev_ind.
  - split; [intros _ H; elim H; reflexivity|]. intros t. unfold pcof, run. simpl fold_left. rewrite (proj1 (get_init progs clock0 exp t)). exact I.
  - rewrite run_snoc. apply CInv_step; [exact IH | apply AInv_run].
Qed.

(* CV_NON_EMPTY is set whenever the queue is not empty and nobody is inside a spinlock section; in particular a
   signaller that reads the cv word then does not take the early exit *)
Lemma non_empty_reachable progs clock0 exp sched :
  let w := run (init progs clock0 exp) sched in
  (forall t, pc_spin (pcof w t) = false) -> cvq w <> [] -> has (cvw w) CV_NON_EMPTY = true.
Proof. cbv zeta. apply CInv_run. Qed.

(* ================================================================== *)
(* Progress, partial: a waker that has taken records can always move   *)
(* ================================================================== *)
Definition Q2c (w : world) : Prop := forall r s, lc w r = PPriv s -> In r (priv (pcof w s)).

(* a record that moves from the cv queue to thread t is on t's private list *)
Lemma select_membership w t c r : PInv w -> (t < length (thr w))%nat ->
  lc w r = PCvq -> lc (fst (step_core w t c)) r = PPriv t -> In r (priv (pcof (fst (step_core w t c)) t)).
Proof.
  intros HP Hlt. pose proof HP as ((Q0 & (Q1n & Q1) & Q2 & _) & HT). destruct (Q2 t) as (_ & Q2t).
  unfold pcof, lc in *.
  step_cases w t; try rewrite Hpc in *; simpl fst; simpl recs; unfold clear_cv_mu; pc_nf; try rewrite Hpc;
    rewrite ?priv_after_todo, ?priv_enter_wake_loop; simpl priv; intros Hq.
  all: try solve [intros Hp'; congruence].
  all: try solve [rewrite (fupd_field loc) by (intros; subst; simpl; first [reflexivity | congruence]); intros Hp'; congruence].
  all: try solve [unfold fupd; destruct (Nat.eqb r _); simpl; intros Hp'; congruence].
  all: rewrite ?loc_map_move, ?loc_map_xfer.
  all: try match goal with |- context [mem_id ?x ?l0] => destruct (mem_id x l0) eqn:Hm; [apply mem_id_In in Hm | intros Hp'; congruence] end.
  all: try solve [intros _; exact Hm].
  all: try solve [intros Hp'; discriminate].
Qed.

Lemma Q2c_step_core w t c : PInv w -> SInv w -> Q2c w -> (t < length (thr w))%nat -> Q2c (fst (step_core w t c)).
Proof.
  intros HP HS HQ Hlt r s Hl.
  destruct (step_core_loc w t c r HP HS Hlt) as [E|[(E0 & E)|[(_ & E & _)|[(_ & E & _)|(_ & [E|E])]]]]; try congruence.
  - rewrite E in Hl. specialize (HQ r s Hl). destruct (Nat.eq_dec s t) as [->|Hne].
    + destruct (private_fate_step w t c r HP Hlt HQ) as [H|[(_ & H & _)|(_ & _ & _ & H)]]; [exact H | |]; congruence.
    + unfold pcof. rewrite step_core_other by congruence. exact HQ.
  - assert (s = t) by congruence. subst s. now apply select_membership.
Qed.
Lemma Q2c_begin_op w t : PInv w -> Q2c w -> Q2c (begin_op w t).
Proof.
  intros HP HQ r s Hl. pose proof HP as ((Q0 & _) & _).
  pose proof (begin_op_misc w t) as (_ & _ & _ & _ & _ & Hrec & _).
  assert (El : lc (begin_op w t) r = lc w r).
  { destruct (Nat.eq_dec r (nrec w)) as [->|Hne]; [|unfold lc; now rewrite Hrec].
    rewrite (Q0 (nrec w)) by lia. destruct (begin_op_nrec w t) as [(_ & E)|(dl & rest & Hpc & Hops & _)].
    - unfold lc. rewrite E. now apply Q0.
    - unfold lc. rewrite (begin_op_recs_new w t _ dl rest Hpc Hops), Nat.eqb_refl. reflexivity. }
  rewrite El in Hl. specialize (HQ r s Hl). destruct (Nat.eq_dec s t) as [->|Hne].
  - destruct (begin_op_pc w t) as [E|(Hpc & _ & o & rest & _ & E)]; [unfold pcof; now rewrite E|].
    unfold pcof in HQ. rewrite Hpc in HQ. elim HQ.
  - unfold pcof. rewrite begin_op_other by congruence. exact HQ.
Qed.
Lemma Q2c_step w a c : PInv w -> SInv w -> Q2c w -> Q2c (fst (step w a c)).
Proof.
  intros HP HS HQ. destruct a as [t| | | | | | | |].
  { simpl. destruct (le_lt_dec (length (thr w)) t) as [Hoob|Hlt]; [now rewrite step_thr_oob|].
    unfold step_thr. apply Q2c_step_core; [now apply PInv_begin_op | now apply SInv_begin_op | now apply Q2c_begin_op |].
    now rewrite (proj1 (proj2 (proj2 (begin_op_misc w t)))). }
  all: match goal with |- Q2c (fst (step ?w0 ?a ?c0)) =>
         pose proof (env_frame w0 a c0 ltac:(intros; discriminate)) as (Hg & _) end.
  all: intros r0 s Hl; unfold pcof; rewrite Hg; apply HQ; revert Hl; unfold lc; simpl; destr_all; simpl; try (intros Hl; exact Hl).
  all: unfold fupd; match goal with |- context [Nat.eqb ?y ?x] => destruct (Nat.eqb_spec y x); [subst y|] end; simpl;
       try (intros Hl; exact Hl); intros Hl; discriminate.
Qed.
Lemma Q2c_run progs clock0 exp sched : Q2c (run (init progs clock0 exp) sched).
Proof.
  induction sched as [|[a c] s IH] using rev_ind; [intros r s' Hl; discriminate|].
  rewrite run_snoc. pose proof (Inv_run progs clock0 exp s) as (_ & _ & HS & HP). now apply Q2c_step.
Qed.

(* a waker with a non-empty private list is never blocked: every step changes its pc *)
Lemma waker_moves w t c : (t < length (thr w))%nat -> priv (pcof w t) <> [] -> fst (step w (Thr t) c) <> w.
Proof.
  intros Hlt Hp. simpl. unfold step_thr.
  assert (Eb : begin_op w t = w) by (unfold begin_op; unfold pcof in Hp; destruct (t_pc (get w t)); try reflexivity; elim Hp; reflexivity).
  rewrite Eb. intros E. apply (f_equal (fun x => t_pc (get x t))) in E. revert E Hp. unfold pcof.
  step_cases w t; try rewrite Hpc in *; simpl fst; pc_nf; try rewrite Hpc; simpl priv; try (intros _ H; elim H; reflexivity);
    unfold after_todo, enter_wake_loop; destr_all; intros E; discriminate E.
Qed.

(* C04_no_stuck, the part that is proved: in a reachable world in which no thread can move and the (abstract) mutex
   holds no transferred record, a thread asleep in nsync_sem_wait_with_cancel_ either still has its record on the cv
   queue (nobody signalled it), or its record was taken by a waker, is on no list any more (that waker finished with
   it) and the thread's semaphore is empty.  Excluding the second case needs the accounting of the posts of the
   per-thread semaphore (every store waiting = 0 is followed by a V that only the owner consumes), which is not
   proved here. *)
Lemma no_stuck_partial_reachable progs clock0 exp sched :
  let w := run (init progs clock0 exp) sched in
  (forall t c, fst (step w (Thr t) c) = w) -> (forall r, lc w r <> PMuq /\ lc w r <> PMwake) ->
  forall t l, (t < length (thr w))%nat -> pcof w t = WSem l ->
  In t (cvq w) \/ (lc w t = PNone /\ sem w t <= 0 /\ exists s, s <> t /\ taker (recs w t) = Some s).
Proof.
  cbv zeta. set (w := run (init progs clock0 exp) sched). intros Hblk Hmu t l Hlt Hpc.
  pose proof (Inv_run progs clock0 exp sched) as (_ & _ & _ & HP). fold w in HP.
  pose proof (Q2c_run progs clock0 exp sched) as HQ. fold w in HQ.
  pose proof HP as ((_ & (_ & Q1) & _) & HT). destruct (HT t) as (Hnat & _). specialize (Hnat Hlt).
  rewrite Hpc in Hnat. simpl in Hnat. destruct Hnat as (HJ & _). unfold Jst in HJ. fold (lc w t) in HJ.
  destruct (lc w t) as [| |s| |] eqn:El.
  - right. split; [reflexivity|]. split; [|tauto].
    specialize (Hblk t CNormal). simpl in Hblk. unfold step_thr in Hblk.
    assert (Eb : begin_op w t = w) by (unfold begin_op; unfold pcof in Hpc; rewrite Hpc; reflexivity).
    rewrite Eb in Hblk. unfold step_core in Hblk. unfold pcof in Hpc. rewrite Hpc in Hblk. unfold st_WSem in Hblk.
    destruct (0 <? sem w t) eqn:Es; [|apply Z.ltb_ge in Es; exact Es].
    exfalso. simpl in Hblk. apply (f_equal (fun x => t_pc (get x t))) in Hblk. rewrite pc_set_pc in Hblk by (simpl; assumption).
    rewrite Hpc in Hblk. destruct (nsync_cv_wait_with_deadline_generic_load4_guard _); discriminate.
  - left. now apply Q1.
  - exfalso. specialize (HQ t s El). assert (Hne : priv (pcof w s) <> []) by (intros E; rewrite E in HQ; elim HQ).
    destruct (le_lt_dec (length (thr w)) s) as [Hoob|Hls].
    + unfold pcof in Hne. rewrite (get_oob w s Hoob) in Hne. apply Hne. reflexivity.
    + apply (waker_moves w s CNormal Hls Hne). apply Hblk.
  - exfalso. destruct (Hmu t) as (A & B). congruence.
  - exfalso. destruct (Hmu t) as (A & B). congruence.
Qed.


