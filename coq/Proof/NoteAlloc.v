(* NoteAlloc: what a FAILED allocation inside nsync_note_new does in NoteModel (property C19, note half).
   The failing malloc is the choice c = true at pc W1; NoteModel's reachable worlds quantify over every choice, so every
   C08 / C09 theorem already covers runs with failed constructors.  Here: the frame of the failing step itself. *)
From NsyncBase Require Import CSem.
From NsyncModel Require Import NoteModel.
From Coq Require Import List ZArith Bool Lia.
Import ListNotations.
Local Open Scope Z_scope.

Lemma begin_call_busy w t f rest : stack (get w t) = f :: rest -> begin_call w t = w.
Proof. intros H. unfold begin_call. rewrite H. reflexivity. Qed.

Lemma fupd_same {A} (f : nat -> A) k v : fupd f k v k = v.
Proof. unfold fupd. now rewrite Nat.eqb_refl. Qed.
Lemma fupd_other {A} (f : nat -> A) k v x : x <> k -> fupd f k v x = f x.
Proof. intros N. unfold fupd. destruct (Nat.eqb_spec x k); [contradiction | reflexivity]. Qed.

(* the failing step: NULL is returned, the call is over, and NOTHING else in the world differs -- no note (in particular
   not the intended parent: neither its fields nor its lock), no other thread, not the allocation counter, not the ghost *)
Lemma new_fail_frame w t par dl rest :
  stack (get w t) = ANew par dl W1 :: rest ->
  let w' := fst (step w t true) in
  snd (step w t true) = EvMalloc None /\
  notes w' = notes w /\ nnext w' = nnext w /\ clock w' = clock w /\ gh w' = gh w /\ nthr w' = nthr w /\
  (forall u, u <> t -> thr w' u = thr w u) /\
  stack (get w' t) = [] /\ prog (get w' t) = prog (get w t) /\
  hist (get w' t) = (ONew par dl, RNote None) :: hist (get w t) /\
  sem (get w' t) = sem (get w t) /\ tw (get w' t) = tw (get w t).
Proof.
  intros H. unfold step. rewrite (begin_call_busy w t _ _ H), H. cbn [step_New fst snd].
  unfold finish, set_thr, get. cbn.
  repeat split; try reflexivity.
  - intros u N. now apply fupd_other.
  - now rewrite fupd_same.
  - now rewrite fupd_same.
  - now rewrite fupd_same.
  - now rewrite fupd_same.
  - now rewrite fupd_same.
Qed.

(* the failing step AS IT OCCURS IN RUNS (audit 3, L2): begin_call creates the frame ANew .. W1 and the same step consumes it, so between
   two steps the thread is idle with ONew as its next operation.  Everything but the thread's own program / history -- and the ghost
   `broken`, which records a client-contract violation of the CALL, not of the allocation -- is unchanged. *)
Lemma real_fail_frame w t par dl r :
  stack (get w t) = [] -> prog (get w t) = ONew par dl :: r ->
  (match par with Some p => (p < nnext w)%nat | None => True end) ->
  let w' := fst (step w t true) in
  snd (step w t true) = EvMalloc None /\ notes w' = notes w /\ nnext w' = nnext w /\ clock w' = clock w /\ nthr w' = nthr w /\
  (forall u, u <> t -> thr w' u = thr w u) /\ freed (gh w') = freed (gh w) /\ notify_called (gh w') = notify_called (gh w) /\
  seen (gh w') = seen (gh w) /\ obs (gh w') = obs (gh w) /\ crashed (gh w') = crashed (gh w) /\
  hist (get w' t) = (ONew par dl, RNote None) :: hist (get w t) /\ prog (get w' t) = r /\ stack (get w' t) = [] /\
  sem (get w' t) = sem (get w t) /\ tw (get w' t) = tw (get w t).
Proof.
  intros Hs Hp Hlt. unfold step, begin_call. rewrite Hs, Hp. destruct par as [p|]; cbn [op_note].
  - apply Nat.ltb_lt in Hlt. rewrite Hlt. destruct (contract_ok w t (ONew (Some p) dl)); cbn;
    unfold fupd; rewrite Nat.eqb_refl; cbn; unfold fupd; rewrite Nat.eqb_refl; cbn; repeat split; auto;
    intros u Hu; destruct (Nat.eqb_spec u t); congruence.
  - cbn. unfold fupd; rewrite Nat.eqb_refl; cbn; unfold fupd; rewrite Nat.eqb_refl; cbn; repeat split; auto;
    intros u Hu; destruct (Nat.eqb_spec u t); congruence.
Qed.

(* the model's footprint of that step is empty (the lock-step replay checks footprints against the notes the code touches) *)
Lemma new_fail_touches w t par dl rest : stack (get w t) = ANew par dl W1 :: rest -> touches w t = [].
Proof. intros H. unfold touches. rewrite (begin_call_busy w t _ _ H), H. reflexivity. Qed.

(* with a successful allocation the constructor does go on (the frame theorem is not vacuous about W1) *)
Lemma new_ok_continues w t par dl rest :
  stack (get w t) = ANew par dl W1 :: rest ->
  snd (step w t false) = EvMalloc (Some (nnext w)) /\ nnext (fst (step w t false)) = S (nnext w).
Proof.
  intros H. unfold step. rewrite (begin_call_busy w t _ _ H), H. cbn [step_New fst snd]. split; reflexivity.
Qed.

(* a concrete run: root; a child whose allocation fails; a second child that succeeds; notify (root) reaches it *)
Definition ex_progs : list (list op) := [[ONew None None; ONew (Some 0%nat) None; ONew (Some 0%nat) None; ONotify 0%nat; OIsNotified 1%nat]].
Definition ex_sched : list act :=
  repeat (AStep 0 false) 6 ++ [AStep 0 true] ++ repeat (AStep 0 false) 60.
Lemma example_fail_then_usable :
  let w := run (init 0 ex_progs) ex_sched in
  map snd (rev (hist (get w 0%nat))) =
    [RNote (Some 0%nat); RNote None; RNote (Some 1%nat); RNone; RBool true] /\ broken (gh w) = false /\ crashed (gh w) = false.
Proof. vm_compute. repeat split; reflexivity. Qed.
