(* MuWRefProof2: "MU_CONDITION makes the release late", as an invariant of Model/MuWaitModel.v -- for ALL programs
   (nsync_mu_unlock_without_wakeup included).

   The invariant QI says
     K2    spinlock free, MU_WAITING set, MU_CONDITION clear  =>  mu->waiters is non-empty
           (the converse of MuWaitWorld7.b_wt; with MU_CONDITION set it is FALSE: a timed-out nsync_mu_wait that removes itself
           in mu_try_acquire_after_timeout_or_cancel stores a word that keeps MU_WAITING over a queue that may now be empty --
           but MU_CONDITION, set when that waiter queued itself, is still set: clause MtStoreW / MtStore2 below);
     pcq   per thread, what the owner of the spinlock knows about mu->waiters (nobody else can change it meanwhile):
             nsync_mu_lock_slow_ / nsync_mu_wait_with_deadline about to release the spinlock after queueing: non-empty;
             nsync_mu_unlock_slow_ at its last load / CAS: if clear_on_release does not contain MU_WAITING the queue is
               non-empty, and IF THE LOCK WAS RELEASED EARLY (late_release_mu = 0) THE WAKE LIST IS NON-EMPTY;
             mu_try_acquire_after_timeout_or_cancel holding spinlock + lock with the word [old] it replaced: K2 of [old]; after
               the removal of its waiter: MU_CONDITION is set in [old];
           and: a thread that converted itself to a writer to test conditions (ghost [conv]: late release) sees MU_CONDITION
           set until its last CAS.
   Part A  pure facts about the scan; Part B  generic step lemmas; Part C  the pass over the pcs; Part D  reachable worlds. *)
From NsyncBase Require Import CSem.
From NsyncGen Require Import Consts Sites.
From NsyncModel Require Import MuWaitModel MuWaitSpec.
From NsyncProof Require Import WordView MuWaitProof MuWaitRings MuWaitBits MuWaitWorld1 MuWaitWorld2 MuWaitWorld3 MuWaitWorld4
  MuWaitWorld5 MuWaitWorld6 MuWaitFlags MuWRefProof.
From Coq Require Import List ZArith Bool Lia PeanoNat.
Import ListNotations.
Local Open Scope Z_scope.
Ltac Zify.zify_post_hook ::= Z.div_mod_to_equations.

(* ================================================================== *)
(* the invariant                                                       *)
(* ================================================================== *)
Definition K2 (w : world) : Prop :=
  b1 (word w) = 0 -> tb 2 (word w) = true -> tb 4 (word w) = false -> queue w <> [].

Definition pcqa (q : list nat) (p : pc) : Prop :=
  match p with
  | RelLoad (KLs _ _) _ | RelCas (KLs _ _) _ | MwRelLoad | MwRelCas _ _ => q <> []
  | UsRelLoad _ f _ | UsRelCas _ f _ => (tb 2 (clear_on f) = false -> q <> []) /\ (late f = 0 -> wake f <> [])
  | MtLoadW old | MtLoadRc old | RmLoad (KTry old) | RmCas (KTry old) _ | MtStore3 old =>
      tb 2 old = true -> tb 4 old = false -> q <> []
  | MtStoreW old | MtStore2 old => tb 4 old = true
  | _ => True
  end.
Definition pcq (w : world) (s : tstate) : Prop :=
  pcqa (queue w) (t_pc s) /\ (conv s = true -> tb 4 (word w) = true).
Definition QI (w : world) : Prop := K2 w /\ forall y, pcq w (get w y).

(* ================================================================== *)
(* Part A: the scan                                                    *)
(* ================================================================== *)
(* what the scan returns when it ends at the last load: lt = late_release_mu, wk = wake *)
Definition finq (w : world) (p : pc) (lt : Z) (wk : list nat) : Prop :=
  match p with
  | UsRelLoad _ f _ => (tb 2 (clear_on f) = false -> queue w <> []) /\ late f = lt /\ wake f = wk
  | _ => True
  end.

Lemma finq_nofin w p lt wk : fin_of p = None -> finq w p lt wk.
Proof. destruct p; try (intros _; exact I). discriminate. Qed.

Lemma finalize_finq w m u : finq (fst (finalize w m u)) (snd (finalize w m u)) (u_late u) (u_wake u).
Proof.
  destruct (finalize_flags_gen w m u) as (f & E & Ew & _ & El & _ & E2 & _). rewrite E. cbn [fst snd finq].
  split; [| split; assumption]. intros H. cbn [queue set_queue]. rewrite E2 in H. destruct (u_done u); [discriminate H | discriminate].
Qed.

Lemma scan_from_finq m : forall fuel w u,
  finq (fst (scan_from fuel w m u)) (snd (scan_from fuel w m u)) (u_late u) (u_wake u).
Proof.
  induction fuel as [|f IH]; intros w u; cbn [scan_from]; [exact I|].
  destruct (u_new u) as [|p rest] eqn:En; [apply finalize_finq|].
  destruct (adjust_test w u p); [exact I|].
  match goal with |- context [inner w m ?u1 ?r] =>
    pose proof (inner_scanres w m r u1) as K; pose proof (inner_spec w m r u1) as S; destruct (inner w m u1 r) as [p0|u2] end.
  - cbn [fst snd]. apply finq_nofin. apply K.
  - destruct S as (sk & (_ & _ & Ew & _ & El & _) & _). cbn [u_wake u_late] in Ew, El.
    destruct (end_inner_set_lists u2) as [(_ & _ & Ew2 & _ & El2 & _) _].
    destruct (round_end_fields w (end_inner_set u2)) as (_ & _ & _ & _ & _ & _ & _ & _ & _ & _ & _ & R12).
    destruct (round_end w (end_inner_set u2)) as [w2 u3]. cbn [fst snd] in *.
    specialize (IH w2 u3).
    assert (E1 : u_late u3 = u_late u) by (rewrite R12; cbn [u_late]; congruence).
    assert (E2 : u_wake u3 = u_wake u) by (rewrite R12; cbn [u_wake]; congruence).
    rewrite E1, E2 in IH. exact IH.
Qed.

Lemma after_inner_finq w m r lt wk :
  match r with InPc p => fin_of p = None | InEnd u => u_late u = lt /\ u_wake u = wk end ->
  finq (fst (after_inner w m r)) (snd (after_inner w m r)) lt wk.
Proof.
  destruct r as [p|u]; cbn [after_inner].
  - intros H. cbn [fst snd]. apply finq_nofin. exact H.
  - intros [El Ew]. destruct (end_inner_set_lists u) as [(_ & _ & Ew2 & _ & El2 & _) _].
    destruct (u_test (end_inner_set u)); [exact I|].
    destruct (round_end_fields w (end_inner_set u)) as (_ & _ & _ & _ & _ & _ & _ & _ & _ & _ & _ & R12).
    destruct (round_end w (end_inner_set u)) as [w2 u3]. cbn [fst snd] in *.
    pose proof (scan_from_finq m 3 w2 u3) as K.
    assert (E1 : u_late u3 = lt) by (rewrite R12; cbn [u_late]; congruence).
    assert (E2 : u_wake u3 = wk) by (rewrite R12; cbn [u_wake]; congruence).
    rewrite E1, E2 in K. exact K.
Qed.

Lemma inner_after_finq w m u rest :
  finq (fst (after_inner w m (inner w m u rest))) (snd (after_inner w m (inner w m u rest))) (u_late u) (u_wake u).
Proof.
  apply after_inner_finq. pose proof (inner_scanres w m rest u) as K. pose proof (inner_spec w m rest u) as S.
  destruct (inner w m u rest) as [p|u']; [apply K|].
  destruct S as (sk & (_ & _ & Ew & _ & El & _) & _). split; assumption.
Qed.

(* while the scan tests conditions it does not touch mu->waiters between its spinlock sections *)
Lemma after_inner_queue_test w m r :
  match r with InPc _ => True | InEnd u => u_test u = true end -> queue (fst (after_inner w m r)) = queue w.
Proof.
  destruct r as [p|u]; cbn [after_inner]; [reflexivity|]. intros T.
  destruct (end_inner_set_lists u) as [(_ & _ & _ & T2 & _) _]. rewrite T2, T. reflexivity.
Qed.
Lemma inner_after_queue_test w m u rest : u_test u = true ->
  queue (fst (after_inner w m (inner w m u rest))) = queue w.
Proof.
  intros T. apply after_inner_queue_test. pose proof (inner_spec w m rest u) as S.
  destruct (inner w m u rest) as [p|u']; [exact I|]. destruct S as (sk & (_ & _ & _ & T2 & _) & _). rewrite T2. exact T.
Qed.

(* an early-release scan that starts on a non-empty queue does not end at once: it removes the first waiter (or panics) *)
Lemma scan_from_early_start m f w u p rest : u_new u = p :: rest -> u_test u = false -> u_wty u = None ->
  fin_of (snd (scan_from (S f) w m u)) = None.
Proof.
  intros En T Wt. cbn [scan_from]. rewrite En.
  assert (A : adjust_test w u p = false) by (unfold adjust_test; rewrite T; reflexivity). rewrite A.
  cbn [inner u_wty u_test]. rewrite Wt.
  destruct (wcond w p); [reflexivity|].
  unfold wakeable. cbn [u_wty]. rewrite ?Wt. reflexivity.
Qed.

(* ================================================================== *)
(* Part B: generic step lemmas                                         *)
(* ================================================================== *)
Lemma tb4_hC x : hC x = tb 4 x.
Proof. unfold hC. exact (has_tb 4 x ltac:(lia)). Qed.

Lemma K2_same w W : word W = word w -> queue W = queue w -> K2 w -> K2 W.
Proof. unfold K2. intros -> ->. auto. Qed.
Lemma K2_ne W : queue W <> [] -> K2 W.
Proof. unfold K2. auto. Qed.
Lemma K2_tb4 W : tb 4 (word W) = true -> K2 W.
Proof. unfold K2. intros H _ _ E. congruence. Qed.
Lemma K2_notb2 W : tb 2 (word W) = false -> K2 W.
Proof. unfold K2. intros H _ E. congruence. Qed.

Section Step.
Variable n : nat.
Hypothesis Hn : Z.of_nat n < 16777215.

Lemma K2_spin W t : Inv n W -> spin (get W t) = true -> K2 W.
Proof. intros HI Hs E. rewrite (Inv_spin n W t HI Hs) in E. discriminate E. Qed.

(* the spinlock bit follows the ghost *)
Lemma b1_TS w W t x s' : Inv n w -> Inv n W -> TS t w W x s' ->
  b1 (word W) = b1 (word w) - b2z (spin (get w t)) + b2z (spin s').
Proof.
  intros (L & (_ & _ & _ & _ & HS) & _) (L' & (_ & _ & _ & _ & HS') & _) (_ & Et & Lt).
  rewrite HS, HS'. rewrite Et. unfold cntS. rewrite cntp_lupd by exact Lt. reflexivity.
Qed.

(* a word written without the spinlock changing hands: MU_WAITING is not set, MU_CONDITION is not cleared *)
Lemma K2_fl w W t x s' S C : Inv n w -> Inv n W -> TS t w W x s' -> spin s' = spin (get w t) ->
  fl (word w) S C (word W) -> tb 2 S = false -> tb 4 C = false -> queue W = queue w -> K2 w -> K2 W.
Proof.
  intros HI HI' HT Es F S2 C4 Eq H B T2 T4. rewrite Eq.
  pose proof (b1_TS w W t x s' HI HI' HT) as E. rewrite Es in E.
  rewrite (F 2 ltac:(lia)), S2, orb_false_r in T2. apply andb_prop in T2. destruct T2 as [T2 _].
  rewrite (F 4 ltac:(lia)), C4 in T4. cbn [negb] in T4. rewrite andb_true_r in T4. apply orb_false_elim in T4. destruct T4 as [T4 _].
  apply H; [lia | exact T2 | exact T4].
Qed.

Lemma other_nospin w t y : Inv n w -> (spin (get w t) = true \/ b1 (word w) = 0) -> y <> t -> spin (get w y) = false.
Proof.
  intros HI [H|H] N; destruct (spin (get w y)) eqn:E; try reflexivity; exfalso.
  - apply N. apply (spin_unique n w y t HI E H).
  - rewrite (Inv_spin n w y HI E) in H. discriminate H.
Qed.

(* the queue clauses concern owners of the spinlock only *)
Lemma pcqa_nospin s q q' : pc_ok s -> spin s = false -> pcqa q (t_pc s) -> pcqa q' (t_pc s).
Proof.
  unfold pc_ok. destruct (t_pc s) eqn:Ep; cbn [pcqa]; try (intros; exact I); try (intros; assumption).
  all: try (destruct k; cbn [pcqa]; try (intros; exact I); try contradiction).
  all: unfold scanning, try_frozen, in_mw, own; intros H Sp; exfalso;
    repeat match goal with
           | H : _ /\ _ |- _ => destruct H
           | H : exists _, _ |- _ => destruct H
           end;
    try congruence.
  all: try (match goal with H : scan_pc_ok _ _ _ |- _ => rewrite Ep in H; cbn [scan_pc_ok] in H; destruct H as (H & _); congruence end).
Qed.

Lemma conv_scl s : pc_ok s -> NCt s -> conv s = true -> scl (t_pc s) = true.
Proof.
  unfold pc_ok, NCt. intros H N C. destruct (t_pc s) eqn:Ep; try (destruct k); try reflexivity; exfalso.
  all: try (destruct (N _ eq_refl) as (_ & _ & C' & _); congruence).
  all: unfold scanning, try_frozen, mt_pre, in_mw, own in H;
    repeat match goal with
           | H : _ /\ _ |- _ => destruct H
           | H : exists _, _ |- _ => destruct H
           | H : _ \/ _ |- _ => destruct H
           end; try congruence; try contradiction.
Qed.

Lemma QI_intro w W t s' : Inv n w -> U1 w -> NC w -> QI w ->
  (forall y, y <> t -> get W y = get w y) -> get W t = s' ->
  (queue W = queue w \/ spin (get w t) = true \/ b1 (word w) = 0) ->
  ((tb 4 (word w) = true -> tb 4 (word W) = true) \/ scl (t_pc (get w t)) = true) ->
  K2 W -> pcq W s' -> QI W.
Proof.
  intros HI HU HN [_ HP] Ho Eg Hq H4 HK Hs. split; [exact HK|]. intros y.
  destruct (Nat.eq_dec y t) as [->|N]; [rewrite Eg; exact Hs|]. rewrite (Ho y N).
  destruct (HP y) as [A B]. split.
  - destruct Hq as [E|E]; [rewrite E; exact A|].
    apply (pcqa_nospin (get w y) (queue w)); [apply (pc_ok_get n w y HI) | apply (other_nospin w t y HI E N) | exact A].
  - intros C. destruct H4 as [H4|H4]; [apply H4, B, C|]. exfalso. apply N. apply HU; [| exact H4].
    apply conv_scl; [apply (pc_ok_get n w y HI) | apply HN | exact C].
Qed.


(* ================================================================== *)
(* Part C: the pass over the pcs                                       *)
(* ================================================================== *)
Lemma snoc_ne {A} (l : list A) x : l ++ [x] <> [].
Proof. intros E. apply app_eq_nil in E. destruct E as [_ E]. discriminate E. Qed.
Lemma fl_keep4 old S C new : fl old S C new -> tb 4 C = false -> tb 4 old = true -> tb 4 new = true.
Proof. intros F HC H. rewrite (F 4 ltac:(lia)), H, HC. reflexivity. Qed.
Lemma fl_same4 old new : fl old 0 0 new -> tb 4 new = tb 4 old.
Proof. intros F. rewrite (F 4 ltac:(lia)). change (tb 4 0) with false. rewrite orb_false_r, andb_true_r. reflexivity. Qed.
Lemma fl_same2 old new : fl old 0 0 new -> tb 2 new = tb 2 old.
Proof. intros F. rewrite (F 2 ltac:(lia)). change (tb 2 0) with false. rewrite orb_false_r, andb_true_r. reflexivity. Qed.
Lemma K2_cas3 w W S C : fl (word w) S C (word W) -> (tb 2 C = false -> queue W <> []) -> K2 W.
Proof.
  intros F H _ T2 _. apply H. rewrite (F 2 ltac:(lia)) in T2. apply andb_prop in T2. destruct T2 as [_ T2].
  destruct (tb 2 C); [discriminate T2 | reflexivity].
Qed.
Lemma tb4_coa m : tb 4 (coa m) = false. Proof. destruct m; reflexivity. Qed.
Lemma tb4_cur m : tb 4 (cur m) = false. Proof. destruct m; reflexivity. Qed.
Lemma tb2_sww_no m l : lsl_ok m l -> tb 4 (Z.lor (clr l) 128) = false.
Proof. intros (_ & [-> | ->] & _); reflexivity. Qed.
Lemma tb4_lsC m l : lsl_ok m l -> tb 4 (Z.lor (Z.lor (clr l) (longw l)) (coa m)) = false.
Proof. intros (_ & [-> | ->] & [-> | ->]); destruct m; reflexivity. Qed.

Lemma pcqa_scan q p : scanres p -> fin_of p = None -> pcqa q p.
Proof. destruct p; cbn [scanres]; try contradiction; try (destruct k; try contradiction); intros _ E; try exact I; discriminate E. Qed.
Lemma finq_pcqa w p lt wk : scanres p -> finq w p lt wk -> (lt = 0 -> wk <> []) -> pcqa (queue w) p.
Proof.
  destruct p; cbn [scanres]; try contradiction; try (destruct k; try contradiction); intros _ F H; try exact I.
  cbn [finq] in F. destruct F as (A & B & C). cbn [pcqa]. split; [exact A|]. rewrite B, C. exact H.
Qed.
Lemma inner_lw w m u rest :
  match inner w m u rest with InPc p => fin_of p = None | InEnd u' => u_late u' = u_late u /\ u_wake u' = u_wake u end.
Proof.
  pose proof (inner_scanres w m rest u) as K. pose proof (inner_spec w m rest u) as S.
  destruct (inner w m u rest) as [p|u']; [apply K|]. destruct S as (sk & (_ & _ & Ew & _ & El & _) & _). split; assumption.
Qed.
Lemma inner_test w m u rest : match inner w m u rest with InPc _ => True | InEnd u' => u_test u' = u_test u end.
Proof.
  pose proof (inner_spec w m rest u) as S. destruct (inner w m u rest) as [p|u']; [exact I|].
  destruct S as (sk & (_ & _ & _ & T & _) & _). exact T.
Qed.

Lemma begin_op_QI w t : Inv n w -> QI w -> QI (begin_op w t).
Proof.
  intros HI [A B]. destruct (begin_op_fields w t) as (Eq & _). pose proof (begin_op_word w t) as Ew.
  split; [unfold K2; rewrite Ew, Eq; exact A|]. intros y. unfold pcq. rewrite Ew, Eq.
  destruct (Nat.eq_dec y t) as [->|N]; [| rewrite begin_op_get_other by exact N; apply B].
  destruct (begin_op_state w t) as [E | E]; [rewrite E; apply B|].
  destruct (B t) as [_ B2]. split.
  - destruct (t_pc (get (begin_op w t) t)); try contradiction; exact I.
  - intros C. apply B2. revert C. unfold begin_op. destruct (t_pc (get w t)) eqn:Ep; try (intros C; exact C).
    destruct (t_ops (get w t)) as [|o rest] eqn:Eo; [intros C; exact C|].
    destruct (Nat.lt_ge_cases t (length (thr w))) as [L|L].
    2:{ rewrite (get_oob' w t L) in Eo. discriminate Eo. }
    destruct (match o with OLock m => _ | _ => _ end) as [p x].
    unfold get at 1, set_t, set_thr; cbn [thr]. rewrite nth_lupd_same by exact L. cbn [conv]. intros C; exact C.
Qed.

Ltac cas_split w :=
  unfold cas;
  match goal with |- context [word w =? ?e] => destruct (Z.eqb_spec (word w) e) as [Hcas|Hcas] end;
  cbv beta iota; cbn [fst snd].
Ltac fldr :=
  rewrite ?acq_queue, ?acq_rings, ?acq_wcond, ?acq_cls, ?acq_waiting, ?acq_rcount, ?acq_wtype, ?acq_pst, ?acq_word,
          ?ru_queue, ?ru_rings, ?ru_wcond, ?ru_cls, ?ru_waiting, ?ru_rcount, ?ru_wtype, ?ru_pst, ?ru_word.
Ltac mwsome Hok mx :=
  unfold try_frozen, mt_pre, in_mw in Hok; cbn [mw] in Hok;
  let x := fresh "x" in let Hx := fresh "Hx" in
  first [ destruct Hok as ((x & Hx & _) & _) | destruct Hok as (x & Hx & _) ]; subst mx.
Ltac wq := fldr; cbn [word queue set_pc set_t set_thr set_winfo set_waiting set_queue set_rings set_rcount set_sem set_word set_own
                      set_held set_spin set_mw upd_mw released mw_return add_ev log_eval set_pst w_merge].
Ltac down Ho := unfold own in Ho; cbn [held spin conv] in Ho; destruct Ho as (-> & -> & ->).
Ltac tb4c := first [ reflexivity | apply tb4_coa | apply tb4_cur | (eapply tb4_lsC; eassumption) | (eapply tb2_sww_no; eassumption) ].
(* hook for debugging copies of this file; fails here *)
Ltac giveup := fail.

Ltac qi_intro w t :=
  intros HI' Hoth; cbn [fst] in *;
  lazymatch goal with
  | H0 : Inv _ w, HU : U1 w, HN : NC w, HQ : QI w, Hlen : length (thr w) = _, Ht : (t < _)%nat |- QI ?W =>
    eassert (HT : TS t w W _ _) by (ts_solve; rewrite Hlen; exact Ht);
    pose proof (TS_get _ _ _ _ _ HT) as Eg;
    eapply (QI_intro w W t _ H0 HU HN HQ Hoth Eg)
  end.
(* the clause of the stepping thread: trivial at the new pc, or carried over from the old pc (same queue, same word) *)
Ltac pcq_tac Hpt Hs :=
  unfold pcq; unfold get; rewrite ?Hs; unfold mw_of; cbn [t_pc conv pcqa t_ops held spin mw last_ret]; split;
  [ first [ exact I | (wq; exact (proj1 Hpt)) | giveup ]
  | first [ (let E := fresh "E" in intros E; discriminate E) | (wq; exact (proj2 Hpt)) | giveup ] ].
(* a step that changes neither the word nor mu->waiters *)
Ltac boringq w t Hpt Hs :=
  qi_intro w t;
  [ left; wq; reflexivity
  | left; wq; (let E := fresh "E" in intros E; exact E)
  | lazymatch goal with HQ : QI w |- _ => apply (K2_same w); [wq; reflexivity | wq; reflexivity | exact (proj1 HQ)] end
  | pcq_tac Hpt Hs ].
Ltac BQ :=
  try (match goal with mx : option mwl |- _ => destruct mx end);
  match goal with
  | HQ : QI ?w, Hs : nth ?t (thr ?w) dflt_t = _, Hpt : _ /\ (_ = true -> tb 4 _ = true) |- _ => boringq w t Hpt Hs
  end.
(* a CAS that succeeds with the spinlock not changing hands: F : fl (word w) S C <the new word> *)
Ltac flq w t Hpt Hs F :=
  qi_intro w t;
  [ left; wq; reflexivity
  | left; wq; (let E := fresh "E" in intros E; exact (fl_keep4 _ _ _ _ F ltac:(tb4c) E))
  | lazymatch goal with H0 : Inv _ w, HQ : QI w, HT1 : TS t w ?W _ _, HI1 : Inv _ ?W |- _ =>
      eapply (K2_fl w W t _ _ _ _ H0 HI1 HT1);
      [ unfold get; rewrite Hs; reflexivity | wq; exact F | reflexivity | tb4c | wq; reflexivity | exact (proj1 HQ) ] end
  | unfold pcq; unfold get; rewrite ?Hs; unfold mw_of; cbn [t_pc conv pcqa t_ops held spin mw last_ret]; split;
    [ first [ exact I | (wq; exact (proj1 Hpt)) | giveup ]
    | first [ (let E := fresh "E" in intros E; discriminate E)
            | (let E := fresh "E" in intros E; wq; exact (fl_keep4 _ _ _ _ F ltac:(tb4c) (proj2 Hpt E))) | giveup ] ] ].
Ltac FQ F :=
  try (match goal with mx : option mwl |- _ => destruct mx end);
  match goal with
  | HQ : QI ?w, Hs : nth ?t (thr ?w) dflt_t = _, Hpt : _ /\ (_ = true -> tb 4 _ = true) |- _ => flq w t Hpt Hs F
  end.
Ltac noopq := cbn [fst]; intros _ _; assumption.

Lemma QI_step_thr w0 t c : Inv n w0 -> frozen_word w0 -> L1 w0 -> U1 w0 -> L2 w0 -> NC w0 -> K1 w0 -> QI w0 ->
  QI (fst (step_thr w0 t c)).
Proof.
  intros H0 HF HL HU H2 HN HK HQ.
  pose proof (step_thr_ok n Hn w0 t c H0) as (HI' & _ & _ & Hoth).
  apply (begin_op_L1 n _ t H0) in HL. apply (begin_op_U1 n _ t H0) in HU. apply (begin_op_L2 n _ t H0) in H2.
  apply (begin_op_NC n _ t H0) in HN. apply (begin_op_K1 n _ t H0) in HK. apply (begin_op_QI _ t H0) in HQ.
  apply (begin_op_frozen _ t) in HF. apply (begin_op_inv n w0 t) in H0.
  revert HI' Hoth. unfold step_thr. set (w := begin_op w0 t) in *. clearbody w. clear w0. cbv zeta.
  destruct (Nat.lt_ge_cases t n) as [Ht|Ht].
  2:{ assert (Eg : get w t = dflt_t) by (apply get_oob'; destruct H0 as (-> & _); exact Ht).
      rewrite Eg. cbn. intros; assumption. }
  pose proof H0 as (Hlen & _ & Hok). specialize (Hok t).
  pose proof (Inv_rng n _ H0) as Rw.
  pose proof (Inv_held n w t) as Hheld. specialize (fun m => Hheld m H0).
  pose proof (proj2 HQ t) as Hpt.
  destruct (get w t) as [p ops h cv sp mx lr] eqn:Hs. unfold get in Hs. rewrite Hs in Hok.
  unfold pc_ok in Hok. unfold pcq in Hpt. cbn [t_pc t_ops held conv spin mw last_ret] in *.
  destruct p; cbn [pcqa] in Hpt.
  - (* Idle *) noopq.
  - (* LkFast *) destruct Hok as (Ho & ->). down Ho. cas_split w; [| BQ].
    assert (F : fl (word w) 0 0 (fast_new m)) by (rewrite Hcas; apply fl_fast_new). FQ F.
  - (* LkLoad *) destruct Hok as (Ho & ->). down Ho. destruct (fast_guard2 m (word w)) eqn:G; BQ.
  - (* LkCas2 *) destruct Hok as (Ho & -> & G). down Ho. cas_split w; [subst old | BQ].
    pose proof (fl_fast_new2 m (word w) Rw G) as F. FQ F.
  - (* TryFast *) destruct Hok as (Ho & ->). down Ho. cas_split w; [| BQ].
    assert (F : fl (word w) 0 0 (try_new m)) by (rewrite Hcas; apply fl_try_new). FQ F.
  - (* TryLoad *) destruct Hok as (Ho & ->). down Ho. destruct (try_guard2 m (word w)) eqn:G; BQ.
  - (* TryCas2 *) destruct Hok as (Ho & -> & G). down Ho. cas_split w; [subst old | BQ].
    pose proof (fl_try_new2 m (word w) Rw G) as F. FQ F.
  - (* LsLoad *) destruct Hok as (Ho & _). down Ho.
    destruct (nsync_mu_lock_slow_cas1_guard (word w) (zta l)) eqn:G1; [BQ|].
    destruct (nsync_mu_lock_slow_cas2_guard (word w) (zta l)) eqn:G2; [BQ | noopq].
  - (* LsCasAcq *) destruct Hok as (Ho & Hm & Hl & G). down Ho. cas_split w; [subst old | BQ].
    pose proof (fl_lock_slow_cas1 m l (word w) Rw Hl G) as F. destruct mx; FQ F.
  - (* LsCasEnq *) destruct Hok as (Ho & Hm & Hl & G). down Ho. cas_split w; [subst old | BQ].
    pose proof (fl_lock_slow_cas2 m l (word w) Rw Hl) as F.
    qi_intro w t.
    + left; wq; reflexivity.
    + left; wq. intros E. exact (fl_keep4 _ _ _ _ F (tb2_sww_no m l Hl) E).
    + apply (K2_spin _ t HI'). rewrite Eg; cbn [spin]; unfold get; rewrite ?Hs; reflexivity.
    + pcq_tac Hpt Hs.
  - (* LsStoreWaiting *) destruct Hok as (Ho & _). down Ho.
    qi_intro w t.
    + right; left. unfold get; rewrite Hs; reflexivity.
    + left; wq. intros E; exact E.
    + apply (K2_spin _ t HI'). rewrite Eg; cbn [spin]; unfold get; rewrite ?Hs; reflexivity.
    + unfold pcq; unfold get; rewrite ?Hs; cbn [t_pc conv pcqa]. split; [| intros E; discriminate E].
      wq. destruct (wcount l =? 0); [apply snoc_ne | discriminate].
  - (* LsWaitLoad *) destruct Hok as (Ho & _). down Ho. destruct (waiting w t) eqn:Ew; BQ.
  - (* LsSemP *) destruct Hok as (Ho & _). down Ho. destruct (0 <? sem w t); [BQ | noopq].
  - (* RelLoad *) destruct k; try contradiction.
    + destruct Hok as (Ho & _). down Ho. BQ.
    + destruct Hok as (Hnh & lt & [(E1 & E2 & E3) | (E1 & E2 & E3)] & Hsc); cbn [held conv] in E2, E3; subst h cv; BQ.
  - (* RelCas *) destruct k; try contradiction.
    + destruct Hok as (Ho & _). down Ho. cas_split w; [subst old | BQ].
      pose proof (fl_release_spinlock (word w) Rw) as F.
      qi_intro w t.
      * left; wq; reflexivity.
      * left; wq. intros E. exact (fl_keep4 _ _ _ _ F eq_refl E).
      * apply K2_ne. wq. exact (proj1 Hpt).
      * pcq_tac Hpt Hs.
    + cas_split w; [| destruct Hok as (Hnh & lt & [(E1 & E2 & E3) | (E1 & E2 & E3)] & Hsc); cbn [held conv] in E2, E3; subst h cv; BQ].
      destruct Hok as (Hnh & lt & Hown & Hsc). cbn [scan_pc_ok spin] in Hsc. destruct Hsc as (-> & Hte & Hu).
      assert (Ecv : cv = true).
      { destruct Hu as (_ & _ & Hlt & _). specialize (Hlt Hte). destruct Hown as [(_ & _ & E3) | (E1 & _)]; [exact E3 | rewrite Hlt in E1; discriminate E1]. }
      subst cv old. pose proof (fl_release_spinlock (word w) Rw) as F.
      assert (T4 : tb 4 (mu_release_spinlock_cas1_new (word w)) = true) by (rewrite (fl_same4 _ _ F); exact (proj2 Hpt eq_refl)).
      intros HI' Hoth.
      match goal with |- context [after_inner ?w2 m ?r] =>
        pose proof (inner_after_finq w2 m u (u_rest u)) as Hfq;
        pose proof (inner_after_queue_test w2 m u (u_rest u) Hte) as Hqq;
        pose proof (after_inner_sres w2 m r (inner_scanres w2 m (u_rest u) u)) as [Hsr _];
        pose proof (after_inner_wt w2 m r) as [Hw1 Hw2];
        destruct (after_inner w2 m r) as [w3 p'] eqn:Ea; cbn [fst snd] in *;
        eassert (HT : TS t w w2 _ _) by (ts_solve; rewrite Hlen; exact Ht)
      end.
      eassert (HT3 : TS t w (set_pc w3 t p') _ _) by (apply TS_set_pc; eapply TS_eq; [exact HT | exact Hw1 | exact Hw2]).
      pose proof (TS_get _ _ _ _ _ HT3) as Eg.
      eapply (QI_intro w _ t _ H0 HU HN HQ Hoth Eg).
      * left. change (queue w3 = queue w). rewrite Hqq. reflexivity.
      * left. intros _. change (tb 4 (word w3) = true). rewrite Hw1. exact T4.
      * apply K2_tb4. change (tb 4 (word w3) = true). rewrite Hw1. exact T4.
      * unfold pcq; unfold get; rewrite ?Hs; cbn [t_pc conv]. split.
        -- change (pcqa (queue w3) p'). apply (finq_pcqa w3 p' _ _ Hsr Hfq).
           intros E. destruct Hu as (E1 & _ & Hlt & _). rewrite (Hlt Hte) in E1. rewrite E1 in E. discriminate E.
        -- intros _. change (tb 4 (word w3) = true). rewrite Hw1. exact T4.
  - (* SpinLoad *) destruct k; try contradiction.
    + destruct Hok as (Hnh & lt & [(E1 & E2 & E3) | (E1 & E2 & E3)] & Hsc); cbn [held conv] in E2, E3; subst h cv;
        destruct (nsync_spin_test_and_set_cas1_guard (word w) MU_SPINLOCK) eqn:G; BQ.
    + unfold in_mw in Hok; cbn [mw] in Hok. destruct Hok as (x & Hx & Ho & _). subst mx. down Ho.
      destruct (nsync_spin_test_and_set_cas1_guard (word w) MU_SPINLOCK) eqn:G; BQ.
  - (* SpinCas *) destruct k; try contradiction.
    + unfold spin_set. cbv beta iota.
      cas_split w; [| destruct Hok as (Hnh & lt & [(E1 & E2 & E3) | (E1 & E2 & E3)] & Hsc); cbn [held conv] in E2, E3; subst h cv; BQ].
      destruct Hok as (Hnh & lt & Hown & Hsc). cbn [scan_pc_ok spin] in Hsc. destruct Hsc as (-> & Hte & Hu & G).
      assert (Ecv : cv = true).
      { destruct Hu as (_ & _ & Hlt & _). specialize (Hlt Hte). destruct Hown as [(_ & _ & E3) | (E1 & _)]; [exact E3 | rewrite Hlt in E1; discriminate E1]. }
      subst cv old. pose proof (fl_spin_scan (word w) Rw) as F.
      assert (T4 : tb 4 (nsync_spin_test_and_set_cas1_new (word w) MU_SPINLOCK 0) = true) by (rewrite (fl_same4 _ _ F); exact (proj2 Hpt eq_refl)).
      intros HI' Hoth.
      match goal with |- context [round_end ?w2 u] =>
        eassert (HT : TS t w w2 _ _) by (ts_solve; rewrite Hlen; exact Ht);
        destruct (round_end_fields w2 u) as (_ & _ & _ & _ & _ & _ & _ & _ & _ & R10 & R11 & R12);
        destruct (round_end w2 u) as [w3 u3] eqn:Ere; cbn [fst snd] in *
      end.
      pose proof (scan_from_finq m 3 w3 u3) as Hfq. pose proof (scan_from_sres m 3 w3 u3) as [Hsr _].
      pose proof (scan_from_wt m 3 w3 u3) as [Hw1 Hw2].
      destruct (scan_from 3 w3 m u3) as [w4 p'] eqn:Esf. cbn [fst snd] in *.
      rewrite R10 in Hw1. rewrite R11 in Hw2.
      eassert (HT3 : TS t w (set_pc w4 t p') _ _) by (apply TS_set_pc; eapply TS_eq; [exact HT | exact Hw1 | exact Hw2]).
      pose proof (TS_get _ _ _ _ _ HT3) as Eg.
      eapply (QI_intro w _ t _ H0 HU HN HQ Hoth Eg).
      * right; right. apply (spin_guard_b1 _ G).
      * left. intros _. change (tb 4 (word w4) = true). rewrite Hw1. exact T4.
      * apply (K2_spin _ t HI'). rewrite Eg; cbn [spin]; unfold get; rewrite ?Hs; reflexivity.
      * unfold pcq; unfold get; rewrite ?Hs; cbn [t_pc conv]. split.
        -- change (pcqa (queue w4) p'). apply (finq_pcqa w4 p' _ _ Hsr Hfq).
           intros E. rewrite R12 in E. cbn [u_late] in E. destruct Hu as (E1 & _ & Hlt & _). rewrite (Hlt Hte) in E1. rewrite E1 in E. discriminate E.
        -- intros _. change (tb 4 (word w4) = true). rewrite Hw1. exact T4.
    + unfold in_mw in Hok; cbn [mw] in Hok. destruct Hok as ((x & Hx & Ho & _) & G). subst mx. down Ho.
      unfold spin_set. cbv beta iota. cas_split w; [subst old | BQ].
      match goal with |- context [mw_first (get_mw ?ww t)] =>
        assert (get_mw ww t = x) as Egm by (erewrite (TS_get_mw t w); [| ts_solve; rewrite Hlen; exact Ht]; unfold get; rewrite Hs; reflexivity);
        rewrite Egm end.
      assert (Egm0 : get_mw w t = x) by (unfold get_mw, get; rewrite Hs; reflexivity). rewrite Egm0.
      pose proof (fl_spin_wait (word w) (mw_cond x) Rw) as F.
      destruct (mw_first x); qi_intro w t.
      all: try (right; right; apply (spin_guard_b1 _ G)).
      all: try (left; wq; let E := fresh "E" in intros E; exact (fl_keep4 _ _ _ _ F eq_refl E)).
      all: try (apply (K2_spin _ t HI'); rewrite Eg; cbn [spin]; unfold get; rewrite ?Hs; reflexivity).
      all: unfold pcq; unfold get; rewrite ?Hs; unfold mw_of; cbn [t_pc conv pcqa]; (split; [| intros E; discriminate E]); wq.
      * apply snoc_ne.
      * discriminate.
  - (* RmLoad *) destruct k; try contradiction.
    + destruct Hok as (Hnh & lt & [(E1 & E2 & E3) | (E1 & E2 & E3)] & Hsc); cbn [held conv] in E2, E3; subst h cv; BQ.
    + destruct Hok as ((x & Hx & Ho & _) & _). cbn [mw] in Hx. subst mx. down Ho. BQ.
  - (* RmCas *) destruct k; try contradiction.
    + destruct (Z.eqb_spec (rcount w (List.hd t (u_rest u))) oldv) as [Erc|Erc];
        [| destruct Hok as (Hnh & lt & [(E1 & E2 & E3) | (E1 & E2 & E3)] & Hsc); cbn [held conv] in E2, E3; subst h cv; BQ].
      destruct Hok as (Hnh & lt & Hown & Hsc). cbn [scan_pc_ok spin] in Hsc. destruct Hsc as (-> & Hu).
      destruct (remove_from _ _ _ _ (u_new u) _) as [nl rg] eqn:Erm. intros HI' Hoth.
      match goal with |- context [after_inner ?w2 m (inner ?w2 m ?u' ?tl)] =>
        pose proof (inner_after_finq w2 m u' tl) as Hfq;
        pose proof (inner_after_queue_test w2 m u' tl) as Hqq;
        pose proof (after_inner_sres w2 m (inner w2 m u' tl) (inner_scanres w2 m tl u')) as [Hsr _];
        pose proof (after_inner_wt w2 m (inner w2 m u' tl)) as [Hw1 Hw2];
        destruct (after_inner w2 m (inner w2 m u' tl)) as [w3 p'] eqn:Ea; cbn [fst snd u_late u_wake u_test] in *;
        eassert (HT : TS t w w2 _ _) by (ts_solve; rewrite Hlen; exact Ht)
      end.
      eassert (HT3 : TS t w (set_pc w3 t p') _ _) by (apply TS_set_pc; eapply TS_eq; [exact HT | exact Hw1 | exact Hw2]).
      pose proof (TS_get _ _ _ _ _ HT3) as Eg.
      eapply (QI_intro w _ t _ H0 HU HN HQ Hoth Eg).
      * destruct (u_test u) eqn:Tu; [left; change (queue w3 = queue w); rewrite (Hqq eq_refl); reflexivity|].
        right; left. unfold get; rewrite Hs; reflexivity.
      * left. intros E. change (tb 4 (word w3) = true). rewrite Hw1. exact E.
      * destruct (u_test u) eqn:Tu.
        -- apply (K2_same w); [change (word w3 = word w); rewrite Hw1; reflexivity | change (queue w3 = queue w); rewrite (Hqq eq_refl); reflexivity | exact (proj1 HQ)].
        -- apply (K2_spin _ t HI'). rewrite Eg; cbn [spin]; unfold get; rewrite ?Hs; reflexivity.
      * unfold pcq; unfold get; rewrite ?Hs; cbn [t_pc conv]. split.
        -- change (pcqa (queue w3) p'). apply (finq_pcqa w3 p' _ _ Hsr Hfq). intros _. apply snoc_ne.
        -- intros E. change (tb 4 (word w3) = true). rewrite Hw1. exact (proj2 Hpt E).
    + destruct (Z.eqb_spec (rcount w t) oldv) as [Erc|Erc];
        [| destruct Hok as ((x & Hx & Ho & _) & _); cbn [mw] in Hx; subst mx; down Ho; BQ].
      pose proof (a_kt _ _ _ _ _ _ _ HL t) as Hin. unfold winfo, get in Hin. rewrite Hs in Hin. specialize (Hin eq_refl).
      destruct Hok as ((x & Hx & Ho & _) & Hto). cbn [mw] in Hx. subst mx. down Ho.
      assert (Ewf : word w = mu_try_acquire_after_timeout_or_cancel_cas1_new old) by (apply (HF t old); unfold get; rewrite Hs; reflexivity).
      assert (T4 : tb 4 old = true).
      { assert (Ere : rcount w t = mw_rc x).
        { apply (a_i3 _ _ _ _ _ _ _ HL t (mw_rc x)); [unfold winfo, get; rewrite Hs; reflexivity | left; exact Hin]. }
        destruct (H2 t) as (A & _). unfold get in A. rewrite Hs in A. cbn [mw t_pc] in A.
        specialize (A x eq_refl eq_refl Ere (HK t x ltac:(unfold get; rewrite Hs; reflexivity) ltac:(unfold get; rewrite Hs; reflexivity))).
        rewrite tb4_hC, Ewf in A. rewrite (fl_mt_cas1 old Hto 4 ltac:(lia)) in A.
        change (tb 4 0) with false in A. change (tb 4 32) with false in A. rewrite orb_false_r, andb_true_r in A. exact A. }
      destruct (remove_from _ _ _ _ (queue _) t) as [nl rg] eqn:Erm.
      qi_intro w t.
      * right; left. unfold get; rewrite Hs; reflexivity.
      * left; wq. intros E; exact E.
      * apply (K2_spin _ t HI'). rewrite Eg; cbn [spin]; unfold get; rewrite ?Hs; reflexivity.
      * unfold pcq; unfold get; rewrite ?Hs; cbn [t_pc conv pcqa]. split; [exact T4 | intros E; discriminate E].
  - (* UlFast *) destruct Hok as (Ho & ->). down Ho. cas_split w; [| BQ].
    assert (F : fl (word w) 0 0 (ufast_new m)) by (rewrite Hcas; apply fl_ufast). FQ F.
  - (* UlLoad *) destruct Hok as (Ho & ->). down Ho. destruct (unlock_try_cas2 m (word w)); [| destruct (unlock_bad m (word w))]; BQ.
  - (* UlCas2 *) destruct Hok as (Ho & ->). down Ho.
    pose proof (held_rel_pre _ _ (Hheld m eq_refl)) as Hp. cas_split w; [subst old | BQ].
    pose proof (fl_unlock_new2 m (word w) Rw Hp) as F. FQ F.
  - (* UwFast *) destruct Hok as (Ho & ->). down Ho. cas_split w; [| BQ].
    assert (F : fl (word w) 0 0 nsync_mu_unlock_without_wakeup_cas1_new) by (rewrite Hcas; apply fl_uwfast). FQ F.
  - (* UwLoad *) destruct Hok as (Ho & ->). down Ho.
    destruct (nsync_mu_unlock_without_wakeup_cas2_guard (word w)); [| destruct (uw_bad (word w))]; BQ.
  - (* UwCas2 *) destruct Hok as (Ho & ->). down Ho.
    pose proof (Hheld W eq_refl) as Hp. cas_split w; [subst old | BQ].
    pose proof (fl_uw_new2 (word w) Rw (proj1 Hp)) as F. FQ F.
  - (* UsLoad *) destruct Hok as (Ho & _). down Ho. destruct (nsync_mu_unlock_slow_cas1_guard (word w)); [BQ|].
    destruct (nsync_mu_unlock_slow_cas2_guard (word w)) eqn:G2; [BQ | noopq].
  - (* UsCasRel *) destruct Hok as (Ho & Hnh). down Ho.
    pose proof (held_rel_pre _ _ (Hheld m eq_refl)) as Hp. cas_split w; [subst old | BQ].
    pose proof (fl_unlock_slow_cas1 m (word w) Rw Hp) as F. FQ F.
  - (* UsCasSpin *) destruct Hok as (Ho & Hnh & G). down Ho. cas_split w; [| BQ].
    subst old. pose proof (held_rel_pre2 _ _ (Hheld m eq_refl)) as Hp.
    destruct (unlock_slow_cas2_guard_flags (word w) Rw G) as (G2 & _ & Gb).
    destruct (has (word w) MU_CONDITION) eqn:Etest; intros HI' Hoth;
    (match goal with |- context [scan_from 3 (set_queue ?w2 []) m ?u] =>
      eassert (HT : TS t w (set_queue w2 []) _ _) by (ts_solve; rewrite Hlen; exact Ht);
      pose proof (scan_from_finq m 3 (set_queue w2 []) u) as Hfq;
      pose proof (scan_from_sres m 3 (set_queue w2 []) u) as [Hsr _];
      pose proof (scan_from_wt m 3 (set_queue w2 []) u) as [Hw1 Hw2];
      pose proof (scan_from_early_start m 2 (set_queue w2 []) u) as Hes;
      destruct (scan_from 3 (set_queue w2 []) m u) as [w4 p'] eqn:Esf; cbn [fst snd u_late u_wake u_new u_test u_wty] in *
    end);
    (eassert (HT3 : TS t w (set_pc w4 t p') _ _) by (apply TS_set_pc; eapply TS_eq; [exact HT | exact Hw1 | exact Hw2]));
    pose proof (TS_get _ _ _ _ _ HT3) as Eg;
    eapply (QI_intro w _ t _ H0 HU HN HQ Hoth Eg).
    all: try (right; right; exact Gb).
    all: try (apply (K2_spin _ t HI'); rewrite Eg; cbn [spin]; unfold get; rewrite ?Hs; reflexivity).
    + left. intros E. change (tb 4 (word w4) = true). rewrite Hw1. cbn [word set_queue set_own set_word set_t set_thr].
      exact (fl_keep4 _ _ _ _ (fl_unlock_slow_cas2 m true (word w) Rw Hp) eq_refl E).
    + unfold pcq; unfold get; rewrite ?Hs; cbn [t_pc conv]. split.
      * change (pcqa (queue w4) p'). apply (finq_pcqa w4 p' _ _ Hsr Hfq). intros E. discriminate E.
      * intros _. change (tb 4 (word w4) = true). rewrite Hw1. cbn [word set_queue set_own set_word set_t set_thr].
        apply (fl_keep4 _ _ _ _ (fl_unlock_slow_cas2 m true (word w) Rw Hp) eq_refl). rewrite <- tb4_hC. exact Etest.
    + left. intros E. change (tb 4 (word w4) = true). rewrite Hw1. cbn [word set_queue set_own set_word set_t set_thr].
      exact (fl_keep4 _ _ _ _ (fl_unlock_slow_cas2 m false (word w) Rw Hp) eq_refl E).
    + unfold pcq; unfold get; rewrite ?Hs; cbn [t_pc conv]. split; [| intros E; discriminate E].
      change (pcqa (queue w4) p'). apply pcqa_scan; [exact Hsr|].
      assert (Hne : queue w <> []).
      { apply (proj1 HQ); [exact Gb | exact G2 | rewrite <- tb4_hC; exact Etest]. }
      destruct (queue w) as [|q0 qr] eqn:Eq0; [now elim Hne|].
      change (queue (set_own (set_word w (nsync_mu_unlock_slow_cas2_new (word w) (lt_add_to_acquire (lt_of m)))) t None false true)) with (queue w) in Hes.
      rewrite Eq0 in Hes. exact (Hes q0 qr eq_refl eq_refl eq_refl).
  - (* UsEval *)
    destruct Hok as (Hnh & lt & Hown & Hsc). cbn [scan_pc_ok spin] in Hsc. destruct Hsc as (-> & Hte & Hu).
    assert (Ecv : cv = true).
    { destruct Hu as (_ & _ & Hlt & _). specialize (Hlt Hte). destruct Hown as [(_ & _ & E3) | (E1 & _)]; [exact E3 | rewrite Hlt in E1; discriminate E1]. }
    assert (Elt : u_late u <> 0).
    { destruct Hu as (E1 & _ & Hlt & _). rewrite E1, (Hlt Hte). discriminate. }
    subst cv.
    destruct (u_rest u) as [|p tl0] eqn:Er; [BQ|]. destruct (wcond w p) as [[f a]|] eqn:Ec; [| BQ].
    intros HI' Hoth.
    match goal with |- context [after_inner ?w2 m ?r] =>
      assert (Hr : match r with InPc p0 => fin_of p0 = None /\ scanres p0 | InEnd u' => (u_late u' = u_late u /\ u_wake u' = u_wake u) /\ u_test u' = true end);
      [ destruct (pst w f a);
        [ match goal with |- context [wakeable ?ww u p] => destruct (wakeable ww u p) end;
          [ split; [reflexivity | exact I] |]
        | ];
        match goal with |- context [inner ?ww m ?uu ?rr] =>
          pose proof (inner_lw ww m uu rr) as Q1; pose proof (inner_test ww m uu rr) as Q2; pose proof (inner_scanres ww m rr uu) as Q3;
          destruct (inner ww m uu rr) as [p0|u'] end;
        [ split; [exact Q1 | apply Q3] | split; [exact Q1 | rewrite Q2; exact Hte]
        | split; [exact Q1 | apply Q3] | split; [exact Q1 | rewrite Q2; exact Hte] ]
      | pose proof (after_inner_finq w2 m r (u_late u) (u_wake u)) as Hfq;
        pose proof (after_inner_queue_test w2 m r) as Hqq;
        pose proof (after_inner_sres w2 m r) as Hsr;
        pose proof (after_inner_wt w2 m r) as [Hw1 Hw2];
        destruct r as [p0|u'];
        [ specialize (Hfq (proj1 Hr)); specialize (Hqq I); specialize (Hsr (conj (proj2 Hr) (proj1 Hr)))
        | specialize (Hfq (proj1 Hr)); specialize (Hqq (proj2 Hr)); specialize (Hsr I) ] ]
    end.
    all: destruct Hsr as [Hsr _].
    all: match goal with |- context [after_inner ?ww ?mm ?rr] => destruct (after_inner ww mm rr) as [w3 p'] eqn:Ea end; cbn [fst snd] in *.
    all: (eassert (HT : TS t w (log_eval w t f a (pst w f a)) _ _) by (ts_solve; rewrite Hlen; exact Ht)).
    all: (eassert (HT3 : TS t w (set_pc w3 t p') _ _) by (apply TS_set_pc; eapply TS_eq; [exact HT | exact Hw1 | exact Hw2])).
    all: pose proof (TS_get _ _ _ _ _ HT3) as Eg.
    all: eapply (QI_intro w _ t _ H0 HU HN HQ Hoth Eg).
    all: try (left; change (queue w3 = queue w); rewrite Hqq; reflexivity).
    all: try (left; intros E; change (tb 4 (word w3) = true); rewrite Hw1; exact E).
    all: try (apply (K2_same w); [change (word w3 = word w); rewrite Hw1; reflexivity | change (queue w3 = queue w); rewrite Hqq; reflexivity | exact (proj1 HQ)]).
    all: unfold pcq; unfold get; rewrite ?Hs; cbn [t_pc conv]; split;
      [ change (pcqa (queue w3) p'); apply (finq_pcqa w3 p' _ _ Hsr Hfq); intros E; now elim Elt
      | intros E; change (tb 4 (word w3) = true); rewrite Hw1; exact (proj2 Hpt E) ].
  - (* UsRelLoad *)
    destruct Hok as (Hnh & lt & [(E1 & E2 & E3) | (E1 & E2 & E3)] & Hsc); cbn [held conv] in E2, E3; subst h cv; BQ.
  - (* UsRelCas *)
    cas_split w; [| destruct Hok as (Hnh & lt & [(E1 & E2 & E3) | (E1 & E2 & E3)] & Hsc); cbn [held conv] in E2, E3; subst h cv; BQ].
    destruct Hok as (Hnh & lt & Hown & Hsc). cbn [scan_pc_ok spin] in Hsc. destruct Hsc as (-> & Hu & Hl).
    assert (HW : late u = MU_WLOCK -> old mod 2 = 1).
    { subst old. destruct Hown as [(E1 & E2 & E3) | (E1 & E2 & E3)]; cbn [held] in E2; rewrite Hl, E1; subst h;
        [intros _; apply (Hheld W eq_refl) | discriminate]. }
    subst old. pose proof (fl_cas3 u (word w) Rw Hu HW) as F.
    destruct (wake u) as [|q rest] eqn:Ewk; [destruct mx as [x|]|]; qi_intro w t.
    all: try (left; wq; reflexivity).
    all: try (right; unfold get; rewrite Hs; reflexivity).
    all: try (apply (K2_cas3 w _ (set_on u) (clear_on u)); [wq; exact F | wq; exact (proj1 (proj1 Hpt))]).
    all: unfold pcq; unfold get; rewrite ?Hs; unfold mw_of; cbn [t_pc conv pcqa t_ops held spin mw last_ret]; (split; [exact I | intros E; discriminate E]).
  - (* UsWakeStore *) destruct Hok as (Ho & _). down Ho. destruct (wake u) as [|q rest] eqn:Ewk; BQ.
  - (* UsWakeV *) destruct Hok as (Ho & _). down Ho. destruct (wake u) as [|q rest] eqn:Ewk; BQ.
  - (* SetC *) destruct Hok as (Ho & ->). down Ho. BQ.
  - (* MwLoad *) destruct Hok as (-> & -> & Hh & Hm). destruct h as [h|]; [| congruence]. destruct mx as [x|]; [| congruence].
    destruct (band (word w) MU_ANY_LOCK =? 0); [BQ|].
    match goal with |- context [mw_cond (get_mw ?ww t)] =>
      assert (get_mw ww t = mk_mw (if negb (band (word w) MU_RHELD_IF_NON_ZERO =? 0) then R else W) (mw_cond x) (mw_eq x) (mw_dl x) (mw_canc x) (mw_first x) (mw_rc x) (mw_hadw x)
                                  (mw_semout x) (mw_have x) (mw_outcome x) (mw_tmo x) (mw_ent x)) as Egm
        by (erewrite (TS_get_mw t w); [| ts_solve; rewrite Hlen; exact Ht]; unfold get; rewrite Hs; reflexivity);
      rewrite Egm end.
    cbn [mw_cond]. destruct (mw_cond x) eqn:Emc; [BQ|].
    unfold mw_after_eval. rewrite Egm. cbn [mw_outcome mw_mode mw_cond mw_eq]. destruct (nsync_mu_wait_with_deadline_store1_guard _ _); BQ.
  - (* MwEval *) unfold in_mw in Hok; cbn [mw] in Hok. destruct Hok as (x & Hx & Ho). subst mx. down Ho.
    unfold get_mw, get. rewrite Hs. cbn [mw].
    destruct (mw_cond x) as [[f a]|] eqn:Emc; unfold mw_after_eval;
      (match goal with |- context [get_mw ?ww t] =>
         assert (get_mw ww t = x) as Egm by (unfold get_mw, get; cbn [thr log_eval add_ev]; rewrite Hs; reflexivity); rewrite Egm end);
      destruct (nsync_mu_wait_with_deadline_store1_guard _ _); BQ.
  - (* MwStoreWaiting *) unfold in_mw in Hok; cbn [mw] in Hok. destruct Hok as (x & Hx & Ho). subst mx. down Ho. BQ.
  - (* MwRcLoad *) unfold in_mw in Hok; cbn [mw] in Hok. destruct Hok as (x & Hx & Ho). subst mx. down Ho. BQ.
  - (* MwRelLoad *) unfold in_mw in Hok; cbn [mw] in Hok. destruct Hok as (x & Hx & Ho & _). subst mx. down Ho. BQ.
  - (* MwRelCas *) unfold in_mw in Hok; cbn [mw] in Hok. destruct Hok as (x & Hx & Ho & Hh & Hadd). subst mx. down Ho.
    pose proof (held_rel_pre _ _ (Hheld (mw_mode x) eq_refl)) as Hp. cas_split w; [subst old | BQ].
    pose proof (fl_mw_cas1 (mw_mode x) (word w) add Rw Hp Hadd) as F.
    destruct (add =? 0);
      [ match goal with |- context [mw_mode (get_mw ?ww t)] =>
          assert (get_mw ww t = x) as Egm by (erewrite (TS_get_mw t w); [| ts_solve; rewrite Hlen; exact Ht]; unfold get; rewrite Hs; reflexivity);
          rewrite Egm end |];
      qi_intro w t.
    all: try (left; wq; reflexivity).
    all: try (left; wq; let E := fresh "E" in intros E; exact (fl_keep4 _ _ _ _ F eq_refl E)).
    all: try (apply K2_ne; wq; exact (proj1 Hpt)).
    all: unfold pcq; unfold get; rewrite ?Hs; unfold mw_of; cbn [t_pc conv pcqa t_ops held spin mw last_ret]; (split; [exact I | intros E; discriminate E]).
  - (* MwLoadW1 *) unfold in_mw in Hok; cbn [mw] in Hok. destruct Hok as (x & Hx & [(Ho & _) | (Ho & _)]); subst mx; down Ho;
    unfold get_mw, get; rewrite Hs; cbn [mw];
    (destruct (waiting w t) eqn:Ew; [destruct (mw_semout x =? 0); BQ | destruct (mw_have x) eqn:Eh; BQ]).
  - (* MwSemP *) unfold in_mw in Hok; cbn [mw] in Hok. destruct Hok as (x & Hx & Ho & _). subst mx. down Ho.
    unfold get_mw, get. rewrite Hs. cbn [mw]. destruct c.
    + destruct (0 <? sem w t); [BQ | noopq].
    + destruct (mw_dl x) as [d|]; [| noopq]. destruct (d <=? clock w); [BQ | noopq].
    + destruct (mw_canc x && note w); [BQ | noopq].
  - (* MwLoadW2 *) unfold mt_pre, in_mw in Hok; cbn [mw] in Hok. destruct Hok as (x & Hx & Ho & _). subst mx. down Ho. destruct (waiting w t); BQ.
  - (* MwLoadW3 *) unfold in_mw in Hok; cbn [mw] in Hok. destruct Hok as (x & Hx & [(Ho & _) | (Ho & _)]); subst mx; down Ho; BQ.
  - (* MtLoad *) unfold mt_pre, in_mw in Hok; cbn [mw] in Hok. destruct Hok as (x & Hx & Ho & _). subst mx. down Ho.
    destruct (mu_try_acquire_after_timeout_or_cancel_cas1_guard (word w)) eqn:G1;
      [| destruct (mu_try_acquire_after_timeout_or_cancel_cas2_guard (word w)) eqn:G2]; BQ.
  - (* MtCas1 *) unfold mt_pre, in_mw in Hok; cbn [mw] in Hok. destruct Hok as ((x & Hx & Ho & _) & G). subst mx. down Ho. cas_split w.
    + subst old. pose proof (mt_cas1_guard_facts _ Rw G) as Hto. pose proof (fl_mt_cas1 (word w) Hto) as F.
      destruct (mt_cas1_guard_free (word w) Rw G) as [_ Gb].
      qi_intro w t.
      * left; wq; reflexivity.
      * left; wq. intros E. exact (fl_keep4 _ _ _ _ F eq_refl E).
      * apply (K2_spin _ t HI'). rewrite Eg; cbn [spin]; unfold get; rewrite ?Hs; reflexivity.
      * unfold pcq; unfold get; rewrite ?Hs; unfold mw_of; cbn [t_pc conv pcqa]. split; [| intros E; discriminate E].
        intros T2 T4. wq. exact (proj1 HQ Gb T2 T4).
    + destruct (mu_try_acquire_after_timeout_or_cancel_cas2_guard old) eqn:G2; BQ.
  - (* MtCas2 *) unfold mt_pre, in_mw in Hok; cbn [mw] in Hok. destruct Hok as ((x & Hx & Ho & _) & G). subst mx. down Ho.
    cas_split w; [subst old | BQ]. pose proof (fl_mt_cas2 (word w) Rw) as F. FQ F.
  - (* MtLoadW *) unfold try_frozen, in_mw in Hok; cbn [mw] in Hok. destruct Hok as ((x & Hx & Ho & _) & Hto). subst mx. down Ho.
    destruct (waiting w t); BQ.
  - (* MtLoadRc *) unfold try_frozen, in_mw in Hok; cbn [mw] in Hok. destruct Hok as ((x & Hx & Ho & _) & Hto). subst mx. down Ho.
    unfold get_mw, get. rewrite Hs. cbn [mw]. destruct (mw_rc x =? rcount w t); BQ.
  - (* MtStoreW *) unfold try_frozen, in_mw in Hok; cbn [mw] in Hok. destruct Hok as ((x & Hx & Ho & _) & Hto). subst mx. down Ho. BQ.
  - (* MtStore2 *) unfold try_frozen, in_mw in Hok; cbn [mw] in Hok. destruct Hok as ((x & Hx & Ho & _) & Hto). subst mx. down Ho.
    assert (Ewf : word w = mu_try_acquire_after_timeout_or_cancel_cas1_new old) by (apply (HF t old); unfold get; rewrite Hs; reflexivity).
    unfold get_mw, get. rewrite Hs. cbn [mw].
    pose proof (fl_mt_store2 old (mw_mode x) Hto) as F. rewrite <- Ewf in F.
    assert (T4 : tb 4 (mu_try_acquire_after_timeout_or_cancel_store2_new old (lt_of (mw_mode x))) = true).
    { rewrite (fl_same4 _ _ F), Ewf, (fl_mt_cas1 old Hto 4 ltac:(lia)). rewrite (proj1 Hpt). reflexivity. }
    qi_intro w t.
    + left; wq; reflexivity.
    + left; wq. intros _. exact T4.
    + apply K2_tb4. wq. exact T4.
    + unfold pcq; unfold get; rewrite ?Hs; unfold mw_of; cbn [t_pc conv pcqa]. split; [exact I | intros E; discriminate E].
  - (* MtStore3 *) unfold try_frozen, in_mw in Hok; cbn [mw] in Hok. destruct Hok as ((x & Hx & Ho & _) & Hto). subst mx. down Ho.
    assert (Ewf : word w = mu_try_acquire_after_timeout_or_cancel_cas1_new old) by (apply (HF t old); unfold get; rewrite Hs; reflexivity).
    pose proof (fl_mt_store3 old Hto) as F. pose proof (fl_mt_cas1 old Hto) as F1.
    assert (E2 : tb 2 (mu_try_acquire_after_timeout_or_cancel_store3_new old) = tb 2 old).
    { rewrite (fl_same2 _ _ F), (F1 2 ltac:(lia)). change (tb 2 0) with false. change (tb 2 32) with false. rewrite orb_false_r, andb_true_r. reflexivity. }
    assert (E4 : tb 4 (mu_try_acquire_after_timeout_or_cancel_store3_new old) = tb 4 old).
    { rewrite (fl_same4 _ _ F), (F1 4 ltac:(lia)). change (tb 4 0) with false. change (tb 4 32) with false. rewrite orb_false_r, andb_true_r. reflexivity. }
    qi_intro w t.
    + left; wq; reflexivity.
    + left; wq. intros E. rewrite E4. rewrite Ewf, (F1 4 ltac:(lia)) in E. change (tb 4 0) with false in E. change (tb 4 32) with false in E.
      rewrite orb_false_r, andb_true_r in E. exact E.
    + intros _ T2 T4. revert T2 T4. wq. rewrite E2, E4. exact (proj1 Hpt).
    + unfold pcq; unfold get; rewrite ?Hs; unfold mw_of; cbn [t_pc conv pcqa]. split; [exact I | intros E; discriminate E].
  - (* Crash *) noopq.
Qed.

Lemma QI_step w a : Inv n w -> frozen_word w -> L1 w -> U1 w -> L2 w -> NC w -> K1 w -> QI w -> QI (fst (step w a)).
Proof.
  intros HI HF HL HU H2 HN HK H. destruct a as [t c|dt| |p]; cbn [step].
  - apply QI_step_thr; assumption.
  - destruct (0 <=? dt); exact H.
  - exact H.
  - destruct (note w); exact H.
Qed.

End Step.

Lemma QI_init progs cl c0 : QI (init progs cl c0).
Proof.
  split; [intros _ T; discriminate T|]. intros y. destruct (init_get progs cl c0 y) as [Ep _]. unfold pcq. rewrite Ep. cbn [pcqa].
  split; [exact I|]. unfold get, init; cbn [thr].
  destruct (Nat.lt_ge_cases y (length progs)) as [L|L].
  - rewrite (nth_indep _ dflt_t (mk_t Idle [] None false false None None)) by (rewrite map_length; exact L).
    rewrite (map_nth (fun p => mk_t Idle p None false false None None) progs []). discriminate.
  - rewrite nth_overflow by (rewrite map_length; exact L). discriminate.
Qed.
