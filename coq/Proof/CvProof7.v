(* CvProof7: C05, "no further wake-up is needed once the outcome of the wait is decided".
   From a reachable world in which thread t's nsync_sem_wait_with_cancel_ has returned non-zero (sem_outcome <> 0), its
   waiting flag is clear (a waker or an unlocker cleared it) or t is itself in the middle of removing its record from
   the cv queue, nobody else is inside a cv spinlock section and the mutex is free, thread t RUN ALONE -- only steps
   of t -- returns from the wait within 9 steps, holding the mutex, without any P or V on any semaphore.
   Continues Proof/CvProof3.v. *)
From NsyncBase Require Import CSem.
From NsyncGen Require Import Consts Sites.
From NsyncModel Require Import CvModel.
From NsyncProof Require Import CvProof CvProof2 CvProof3.
From Coq Require Import List ZArith Bool Lia PeanoNat.
Import ListNotations.
Local Open Scope Z_scope.

(* the pcs of the wait after sem_outcome has been assigned *)
Definition dpc (p : pc) : option wl :=
  match p with
  | WLoad6 l | SpLoad _ (KWaitTo l) | SpCas (KWaitTo l) _ | WLoad7 l | WLoad8 l | WRcLoad l | WRcCas l _ | WStore0 l | WStoreW l
  | WLoad13 l | WLoop l | WMuAcq l => Some l
  | _ => None
  end.
(* ... those in which the thread itself is removing its record (timeout / cancellation confirmed under the spinlock) *)
Definition selfpc (p : pc) : bool := match p with WRcLoad _ | WRcCas _ _ | WStore0 _ => true | _ => false end.

Definition decided (w : world) (t : nat) : Prop :=
  (t < length (thr w))%nat /\ (forall s, s <> t -> pc_spin (pcof w s) = false) /\ can_acquire (muw w) W = true /\
  exists l, dpc (pcof w t) = Some l /\ w_so l <> 0 /\ (selfpc (pcof w t) = true \/ waiting (recs w t) = 0).

(* number of steps to the return *)
Definition dist (w : world) (t : nat) : nat :=
  match pcof w t with
  | WMuAcq _ => 1 | WLoop _ => 2 | WLoad13 _ => 3 | WStoreW _ => 4 | WStore0 _ => 5
  | WRcCas _ old => if (rcount (recs w t) =? old)%Z then 6 else 8
  | WRcLoad _ => 7
  | WLoad8 _ => 8
  | WLoad7 _ => 5
  | SpCas (KWaitTo _) old => if (cvw w =? old)%Z then 6 else 8
  | SpLoad _ (KWaitTo _) => 7
  | WLoad6 _ => 4
  | _ => 0
  end%nat.

Lemma can_acquire_W_any v m : can_acquire v W = true -> can_acquire v m = true.
Proof.
  destruct m; [auto|]. unfold can_acquire. intros H. apply andb_true_iff in H. destruct H as (A & B).
  rewrite A. apply Z.eqb_eq in B. rewrite B. reflexivity.
Qed.

Lemma solo_step w t : AInv w -> decided w t -> (forall l, pcof w t <> WMuAcq l) ->
  let w1 := fst (step w (Thr t) CNormal) in
  decided w1 t /\ (dist w1 t < dist w t)%nat /\ sem w1 = sem w /\ rets (get w1 t) = rets (get w t).
Proof.
  intros HA (Hlt & Hoth & Hmu & l & Hd & Hso & Hw) Hna. pose proof HA as (A1 & A2 & A3 & A4). cbv zeta.
  assert (Eb : begin_op w t = w).
  { unfold begin_op. unfold pcof in Hd. destruct (t_pc (get w t)); try reflexivity. discriminate. }
  simpl. unfold step_thr. rewrite Eb.
  pose proof (A3 t) as A3t.
  unfold decided, dist, pcof in *.
  assert (Hfree : pc_spin (t_pc (get w t)) = false -> lowbits (cvw w)).
  { intros Ht. destruct A4 as [(s & Hs)|Hl]; [|exact Hl]. destruct (Nat.eq_dec s t) as [->|Hne]; [congruence|].
    rewrite (Hoth s Hne) in Hs. discriminate. }
  set (G := fun w1 : world =>
    muw w1 = muw w /\
    (exists l, dpc (t_pc (get w1 t)) = Some l /\ w_so l <> 0 /\ (selfpc (t_pc (get w1 t)) = true \/ waiting (recs w1 t) = 0)) /\
    (match t_pc (get w1 t) with
     | WMuAcq _ => 1 | WLoop _ => 2 | WLoad13 _ => 3 | WStoreW _ => 4 | WStore0 _ => 5
     | WRcCas _ old => if (rcount (recs w1 t) =? old)%Z then 6 else 8
     | WRcLoad _ => 7 | WLoad8 _ => 8 | WLoad7 _ => 5
     | SpCas (KWaitTo _) old => if (cvw w1 =? old)%Z then 6 else 8
     | SpLoad _ (KWaitTo _) => 7 | WLoad6 _ => 4 | _ => 0 end <
     match t_pc (get w t) with
     | WMuAcq _ => 1 | WLoop _ => 2 | WLoad13 _ => 3 | WStoreW _ => 4 | WStore0 _ => 5
     | WRcCas _ old => if (rcount (recs w t) =? old)%Z then 6 else 8
     | WRcLoad _ => 7 | WLoad8 _ => 8 | WLoad7 _ => 5
     | SpCas (KWaitTo _) old => if (cvw w =? old)%Z then 6 else 8
     | SpLoad _ (KWaitTo _) => 7 | WLoad6 _ => 4 | _ => 0 end)%nat /\
    sem w1 = sem w /\ rets (get w1 t) = rets (get w t)).
  assert (HG : G (fst (step_core w t CNormal))).
  2: { destruct HG as (Em & He & Hdist & Hs & Hr). split; [|split; [exact Hdist | split; [exact Hs | exact Hr]]].
       split; [now rewrite (proj1 (proj2 (proj2 (step_core_misc w t CNormal))))|]. split; [|split; [now rewrite Em | exact He]].
       intros s Hs'. rewrite step_core_other by congruence. now apply Hoth. }
  destruct (t_pc (get w t)) eqn:Hpc; simpl in Hd; try discriminate.
  all: try match goal with k : spk |- _ => destruct k; simpl in Hd; try discriminate end.
  all: injection Hd as ->.
  all: try (exfalso; eapply Hna; reflexivity).
  all: simpl in Hw, A3t; try (specialize (Hfree eq_refl)).
  all: unfold step_core; rewrite Hpc; unfold_st; destr_all; subst G; cbv beta; simpl fst; pc_nf; autorewrite with getdb; simpl muw; simpl sem; simpl recs; simpl cvw.
  all: rewrite ?fupd_same; simpl waiting; simpl rcount.
  all: (split; [reflexivity|]).
  (* impossible branches: waiting <> 0, or the spinlock bit set in a free word *)
  all: try (exfalso; destruct Hw as [Hw|Hw]; [discriminate|]; rewrite Hw in *; discriminate).
  all: try (exfalso; destruct Hfree as [Hf|Hf]; rewrite Hf in *; vm_compute in Heqb; discriminate).
  all: unfold nsync_spin_test_and_set_cas1_old, nsync_cv_wait_with_deadline_generic_cas1_old in *.
  all: split; [eexists; split; [reflexivity|]; split; [exact Hso|];
               first [left; reflexivity | right; first [reflexivity | destruct Hw as [Hw|Hw]; [discriminate | exact Hw]]]|].
  all: split; [rewrite ?Z.eqb_refl; try match goal with H : (_ =? _) = _ |- _ => rewrite H end; lia|].
  all: split; [reflexivity|]; get_nf; reflexivity.
Qed.

Lemma solo_last w t l : decided w t -> pcof w t = WMuAcq l ->
  let w1 := fst (step w (Thr t) CNormal) in
  pcof w1 t = Idle /\ (exists e, rets (get w1 t) = e :: rets (get w t) /\ r_wait e = true /\ r_code e = w_out l /\ r_held e <> None) /\
  sem w1 = sem w /\ held (get w1 t) <> None.
Proof.
  intros (Hlt & _ & Hmu & _) Hpc. cbv zeta. unfold pcof in *.
  assert (Eb : begin_op w t = w) by (unfold begin_op; rewrite Hpc; reflexivity).
  simpl. unfold step_thr. rewrite Eb. unfold step_core. rewrite Hpc. unfold st_WMuAcq.
  match goal with |- context [can_acquire (muw w) ?m] => rewrite (can_acquire_W_any (muw w) m Hmu) end.
  simpl fst. get_nf. split; [reflexivity|]. split; [|split; [reflexivity | discriminate]].
  eexists. split; [reflexivity|]. unfold wait_ret. simpl. get_nf. repeat split; discriminate.
Qed.

Lemma dist_pos w t : decided w t -> (1 <= dist w t <= 8)%nat.
Proof.
  intros (_ & _ & _ & l & Hd & _). unfold dist. destruct (pcof w t); simpl in Hd; try discriminate; try lia.
  all: try (destruct k; try discriminate; try lia).
  all: match goal with |- context [if ?b then _ else _] => destruct b; lia end.
Qed.

Lemma run_cons w a c s : run w ((a, c) :: s) = run (fst (step w a c)) s.
Proof. reflexivity. Qed.

Lemma solo_returns_n t n : forall w, AInv w -> decided w t -> (dist w t <= n)%nat ->
  exists m, (m <= n)%nat /\
    let w' := run w (repeat (Thr t, CNormal) m) in
    pcof w' t = Idle /\ length (rets (get w' t)) = S (length (rets (get w t))) /\ sem w' = sem w /\ held (get w' t) <> None /\
    (exists e, rets (get w' t) = e :: rets (get w t) /\ r_wait e = true /\ r_held e <> None).
Proof.
  induction n as [|n IH]; intros w HA Hd Hn.
  - pose proof (dist_pos w t Hd). lia.
  - destruct (pcof w t) eqn:Hpc.
    all: try (destruct (solo_step w t HA Hd ltac:(intros l0 E; rewrite Hpc in E; discriminate)) as (Hd1 & Hlt1 & Hs1 & Hr1);
              destruct (IH _ (AInv_step w (Thr t) CNormal HA) Hd1 ltac:(lia)) as (mm & Hm & H1 & H2 & H3 & H4 & e & H5 & H6);
              exists (S mm); split; [lia|]; cbv zeta; simpl repeat; rewrite run_cons;
              split; [exact H1|]; split; [now rewrite H2, Hr1|]; split; [now rewrite H3, Hs1|]; split; [exact H4|];
              exists e; now rewrite H5, Hr1).
    match goal with Hp : pcof w t = WMuAcq ?l0 |- _ => destruct (solo_last w t l0 Hd Hp) as (H1 & (e & H2 & H3 & _ & H4) & H5 & H6) end.
    exists 1%nat. split; [lia|]. cbv zeta. simpl repeat. rewrite run_cons.
    change (run (fst (step w (Thr t) CNormal)) []) with (fst (step w (Thr t) CNormal)).
    split; [exact H1|]. split; [now rewrite H2|]. split; [exact H5|]. split; [exact H6|]. exists e. auto.
Qed.

(* the reachable-world form used by Props/Properties_C05cv.v *)
Lemma solo_returns_reachable progs clock0 exp sched t :
  let w := run (init progs clock0 exp) sched in
  decided w t ->
  exists m, (m <= 8)%nat /\
    let w' := run w (repeat (Thr t, CNormal) m) in
    pcof w' t = Idle /\ sem w' = sem w /\ held (get w' t) <> None /\
    exists e, rets (get w' t) = e :: rets (get w t) /\ r_wait e = true /\ r_held e <> None.
Proof.
  cbv zeta. intros Hd. pose proof (AInv_run progs clock0 exp sched) as HA.
  destruct (solo_returns_n t 8 _ HA Hd (proj2 (dist_pos _ t Hd))) as (m & Hm & H1 & _ & H3 & H4 & H5).
  exists m. auto.
Qed.
