(* MuWaitFlags: the flag bits 2..7 (MU_WAITING, MU_DESIG_WAKER, MU_CONDITION, MU_WRITER_WAITING, MU_LONG_WAIT,
   MU_ALL_FALSE) of the mutex word of Model/MuWaitModel.v, uniformly; generalises Proof/MuWaitBits.v (bits 4 and 7).

   Part 1  one lemma per word-writing site: [fl old S C new] = every flag bit of new is (old | S) & ~C.
   Part 2  what the guards and tests say about the flags and the lock fields (masks turned into arithmetic:
           x & 2^k = 2^k * bit k, x & 0xffffff00 = 256 * (x / 256), then lia); the lock view (bit 0, reader count,
           spinlock bit) of every written value ([lockview_*]) and which written values are free ([free_*]).
   Part 3  the private flag sets of the scan of nsync_mu_unlock_slow_ (set_on_release, clear_on_release).
   Part 4  ghost ownership vs. the word under the invariant Inv of MuWaitProof. *)
From NsyncBase Require Import CSem.
From NsyncGen Require Import Consts Sites.
From NsyncModel Require Import MuWaitModel MuWaitSpec.
From NsyncProof Require Import WordView MuWaitProof MuWaitBits.
From Coq Require Import List ZArith Bool Lia PeanoNat Setoid.
Import ListNotations.
Local Open Scope Z_scope.
Ltac Zify.zify_post_hook ::= Z.div_mod_to_equations.

(* ================================================================== *)
(* Part 1: every written value, all flag bits 2..7                     *)
(* ================================================================== *)
Definition fl (old S C new : Z) : Prop :=
  forall k, 2 <= k <= 7 -> tb k new = (tb k old || tb k S) && negb (tb k C).
Definition coa (m : mode) : Z := match m with W => 32 | R => 0 end.   (* clear_on_acquire *)
Definition sww (m : mode) : Z := match m with W => 36 | R => 4 end.   (* set_when_waiting *)
Definition cur (m : mode) : Z := match m with W => 128 | R => 0 end.  (* clear_on_uncontended_release *)

Lemma fl_bit old S C new k : fl old S C new -> 2 <= k <= 7 -> tb k new = (tb k old || tb k S) && negb (tb k C).
Proof. intros H Hk. exact (H k Hk). Qed.

(* closed masks: numerals, the constants of Gen/Consts.v, coa/sww/cur of a constructor, and |, &, +, - of those
   (vm_compute is only run on such terms: on an open word it would normalise the whole stuck site expression) *)
Ltac pclosed p := lazymatch p with xH => idtac | xO ?q => pclosed q | xI ?q => pclosed q end.
Ltac mclosed m := lazymatch m with W => idtac | R => idtac end.
Ltac zclosed c :=
  lazymatch c with
  | Z0 => idtac
  | Zpos ?p => pclosed p
  | Zneg ?p => pclosed p
  | Z.lor ?a ?b => zclosed a; zclosed b
  | Z.land ?a ?b => zclosed a; zclosed b
  | Z.add ?a ?b => zclosed a; zclosed b
  | Z.sub ?a ?b => zclosed a; zclosed b
  | bor ?a ?b => zclosed a; zclosed b
  | band ?a ?b => zclosed a; zclosed b
  | bnot32 ?a => zclosed a
  | coa ?m => mclosed m
  | sww ?m => mclosed m
  | cur ?m => mclosed m
  | MU_WLOCK => idtac | MU_SPINLOCK => idtac | MU_WAITING => idtac | MU_DESIG_WAKER => idtac
  | MU_CONDITION => idtac | MU_WRITER_WAITING => idtac | MU_LONG_WAIT => idtac | MU_ALL_FALSE => idtac
  end.
Ltac tb_const_in H :=
  repeat match type of H with context [tb ?k ?c] =>
    zclosed k; zclosed c;
    let v := eval vm_compute in (tb k c) in
    match v with
    | true => change (tb k c) with true in H
    | false => change (tb k c) with false in H
    end
  end.
(* [flk H k]: the instance of the [fl] hypothesis H at the numeral k, constants evaluated *)
Ltac flk H k :=
  let F := fresh "F" in
  pose proof (fl_bit _ _ _ _ k H ltac:(lia)) as F;
  tb_const_in F; cbn [negb andb orb] in F;
  rewrite ?andb_true_r, ?andb_false_r, ?orb_false_r, ?orb_true_r in F; cbn [negb andb orb] in F.

(* finish: one case per bit, constants evaluated, the remaining bits (of old, of symbolic masks) by cases *)
Ltac fl_fin k :=
  kcases k; tb_const;
  repeat match goal with |- context [tb ?a ?b] => destruct (tb a b) end; reflexivity.

(* ----- lock / rlock / trylock / rtrylock ----- *)
Lemma fl_fast_new m : fl 0 0 0 (fast_new m).
Proof. intros k Hk. destruct m; kcases k; reflexivity. Qed.
Lemma fl_try_new m : fl 0 0 0 (try_new m).
Proof. intros k Hk. destruct m; kcases k; reflexivity. Qed.

Lemma fl_acq_shape m old c : old mod 2 = 0 -> 0 <= c < 4294967296 ->
  fl old 0 c (wrap_u 32 (Z.land (wrap_u 32 (old + match m with W => 1 | R => 256 end)) (4294967295 - c))).
Proof.
  intros E Rc k Hk. destruct m; tb_norm; [rewrite tb_add1 by (lia || assumption) | rewrite tb_add256 by lia];
    change (tb k 0) with (Z.testbit 0 k); rewrite Z.bits_0, orb_false_r; reflexivity.
Qed.
Lemma fl_fast_new2 m old : rng old -> fast_guard2 m old = true -> fl old 0 (coa m) (fast_new2 m old).
Proof.
  intros R G. pose proof (fast_guard2_even m old R G) as E. rewrite fast_new2_eq.
  apply (fl_acq_shape m old (coa m) E). destruct m; cbn; lia.
Qed.
Lemma fl_try_new2 m old : rng old -> try_guard2 m old = true -> fl old 0 (coa m) (try_new2 m old).
Proof.
  intros R G. pose proof (try_guard2_even m old R G) as E. rewrite try_new2_eq.
  apply (fl_acq_shape m old (coa m) E). destruct m; cbn; lia.
Qed.

(* ----- nsync_mu_lock_slow_ ----- *)
Lemma fl_lock_slow_cas1 m l old : rng old -> lsl_ok m l -> nsync_mu_lock_slow_cas1_guard old (zta l) = true ->
  fl old 0 (Z.lor (Z.lor (clr l) (longw l)) (coa m)) (nsync_mu_lock_slow_cas1_new old (lt_of m) (clr l) (longw l)).
Proof.
  intros R Hl G k Hk. pose proof (ls_cas1_even m l old Hl G) as E.
  rewrite lock_slow_cas1_new_eq. unfold coa.
  destruct m; tb_norm; [rewrite tb_add1 by (lia || assumption) | rewrite tb_add256 by lia]; fl_fin k.
Qed.
Lemma fl_lock_slow_cas2 m l old : rng old -> lsl_ok m l ->
  fl old (Z.lor (longw l) (sww m)) (Z.lor (clr l) 128) (nsync_mu_lock_slow_cas2_new old (longw l) (lt_of m) (clr l)).
Proof.
  intros R Hl k Hk. rewrite lock_slow_cas2_new_eq. unfold sww. destruct m; tb_norm; fl_fin k.
Qed.

(* ----- mu_release_spinlock, nsync_spin_test_and_set_ ----- *)
Lemma fl_release_spinlock old : rng old -> fl old 0 0 (mu_release_spinlock_cas1_new old).
Proof. intros R k Hk. rewrite release_spinlock_new_eq. tb_norm. fl_fin k. Qed.
Lemma fl_spin_scan old : rng old -> fl old 0 0 (nsync_spin_test_and_set_cas1_new old MU_SPINLOCK 0).
Proof. intros R k Hk. rewrite spin_tas_new_eq. change MU_SPINLOCK with 2. tb_norm. fl_fin k. Qed.
Lemma fl_spin_wait old (c : cond) : rng old ->
  fl old (Z.lor 4 (match c with Some _ => 16 | None => 0 end)) 128
     (nsync_spin_test_and_set_cas1_new old (bor (bor MU_SPINLOCK MU_WAITING) (match c with Some _ => MU_CONDITION | None => 0 end)) MU_ALL_FALSE).
Proof.
  intros R k Hk. rewrite spin_tas_new_eq. unfold bor.
  change MU_SPINLOCK with 2. change MU_WAITING with 4. change MU_CONDITION with 16. change MU_ALL_FALSE with 128.
  destruct c; tb_norm; fl_fin k.
Qed.

(* ----- nsync_mu_unlock / nsync_mu_runlock / nsync_mu_unlock_without_wakeup ----- *)
Lemma fl_ufast m : fl (ufast_old m) 0 0 (ufast_new m).
Proof. intros k Hk. destruct m; kcases k; reflexivity. Qed.
Lemma fl_uwfast : fl nsync_mu_unlock_without_wakeup_cas1_old 0 0 nsync_mu_unlock_without_wakeup_cas1_new.
Proof. intros k Hk. kcases k; reflexivity. Qed.
Lemma fl_rel_shape m old c : match m with W => old mod 2 = 1 | R => 1 <= old / 256 end -> 0 <= c < 4294967296 ->
  fl old 0 c (wrap_u 32 (Z.land (wrap_u 32 (old - match m with W => 1 | R => 256 end)) (4294967295 - c))).
Proof.
  intros E Rc k Hk. destruct m; tb_norm; [rewrite tb_sub1 by (lia || assumption) | rewrite tb_sub256 by lia];
    change (tb k 0) with (Z.testbit 0 k); rewrite Z.bits_0, orb_false_r; reflexivity.
Qed.
Lemma fl_unlock_new2 m old : rng old -> match m with W => old mod 2 = 1 | R => 1 <= old / 256 end ->
  fl old 0 (cur m) (unlock_new2 m old).
Proof.
  intros R H. rewrite unlock_new2_eq. destruct m.
  - apply (fl_rel_shape W old 128 H). lia.
  - intros k Hk. cbn [cur]. tb_norm. rewrite tb_sub256 by lia. fl_fin k.
Qed.
Lemma fl_uw_new2 old : rng old -> old mod 2 = 1 -> fl old 0 0 (nsync_mu_unlock_without_wakeup_cas2_new old).
Proof. intros R H k Hk. rewrite uw_new2_eq. tb_norm. rewrite tb_sub1 by (lia || assumption). fl_fin k. Qed.

(* ----- nsync_mu_unlock_slow_ ----- *)
Lemma fl_unlock_slow_cas1 m old : rng old -> match m with W => old mod 2 = 1 | R => 1 <= old / 256 end ->
  fl old 0 (cur m) (nsync_mu_unlock_slow_cas1_new old (lt_of m)).
Proof.
  intros R H. rewrite unlock_slow_cas1_new_eq.
  replace (match m with W => 128 | R => 0 end) with (cur m) by (destruct m; reflexivity).
  apply (fl_rel_shape m old (cur m) H). destruct m; cbn; lia.
Qed.
Lemma fl_unlock_slow_cas2 m testing old : rng old ->
  match m with W => old mod 2 = 1 | R => 1 <= old / 256 /\ old mod 2 = 0 end ->
  fl old 8 0 (nsync_mu_unlock_slow_cas2_new old (early_of m testing)).
Proof.
  intros R H k Hk. rewrite unlock_slow_cas2_new_eq.
  assert (tb k (old - early_of m testing) = tb k old) as E.
  { destruct m, testing; rewrite ?early_of_Wt, ?early_of_Wf, ?early_of_Rt, ?early_of_Rf.
    - now rewrite Z.sub_0_r.
    - apply tb_sub1; [lia | assumption].
    - apply tb_sub255; [lia | apply H].
    - apply tb_sub256; lia. }
  tb_norm. rewrite E. fl_fin k.
Qed.
Lemma fl_cas3 u old : rng old -> usl_ok u -> (late u = MU_WLOCK -> old mod 2 = 1) ->
  fl old (set_on u) (clear_on u) (nsync_mu_unlock_slow_cas3_new old (late u) (set_on u) (clear_on u)).
Proof.
  intros R (L & _ & [[Sc _] _]) HW k Hk. rewrite unlock_slow_cas3_new_eq.
  assert (0 <= clear_on u < 4294967296) as Rc by lia.
  assert (tb k (old - late u) = tb k old) as E.
  { destruct L as [L | L]; rewrite L.
    - now rewrite Z.sub_0_r.
    - change MU_WLOCK with 1. apply tb_sub1; [assumption | now apply HW]. }
  tb_norm. rewrite E. reflexivity.
Qed.

(* ----- nsync_mu_wait_with_deadline ----- *)
Lemma fl_mw_cas1 m old add : rng old -> match m with W => old mod 2 = 1 | R => 1 <= old / 256 end ->
  (add = 0 \/ add = lt_add_to_acquire (lt_of m)) -> fl old 0 0 (nsync_mu_wait_with_deadline_cas1_new old add).
Proof.
  intros R H A k Hk. rewrite mw_cas1_new_eq.
  assert (tb k (old - add) = tb k old) as E.
  { destruct A as [-> | ->]; [now rewrite Z.sub_0_r|]. destruct m.
    - change (lt_add_to_acquire (lt_of W)) with 1. apply tb_sub1; [lia | assumption].
    - change (lt_add_to_acquire (lt_of MuWaitModel.R)) with 256. apply tb_sub256; lia. }
  tb_norm. rewrite E. fl_fin k.
Qed.

(* ----- mu_try_acquire_after_timeout_or_cancel ----- *)
Lemma fl_mt_cas1 old : try_ok old -> fl old 0 32 (mu_try_acquire_after_timeout_or_cancel_cas1_new old).
Proof.
  intros (R & E & B & D) k Hk. rewrite mt_cas1_new_eq.
  tb_norm. rewrite tb_wrap_add by lia. rewrite tb_add3 by (lia || assumption). fl_fin k.
Qed.
Lemma fl_mt_cas2 old : rng old -> fl old 32 0 (mu_try_acquire_after_timeout_or_cancel_cas2_new old).
Proof. intros R k Hk. rewrite mt_cas2_new_eq. tb_norm. fl_fin k. Qed.
(* the release stores write a value computed from the word read BEFORE the acquiring CAS; relative to the word
   that CAS wrote, the flags are unchanged *)
Lemma fl_mt_store2 old m : try_ok old ->
  fl (mu_try_acquire_after_timeout_or_cancel_cas1_new old) 0 0 (mu_try_acquire_after_timeout_or_cancel_store2_new old (lt_of m)).
Proof.
  intros T k Hk. rewrite (fl_mt_cas1 old T k Hk). destruct T as (R & E & B & D). rewrite mt_store2_new_eq.
  assert (Z.land old (4294967295 - 32) mod 2 = 0) as E' by (rewrite land_mod2, E; reflexivity).
  rewrite tb_wrap, tb_wrap_add by lia.
  destruct m; [rewrite tb_add1 by (lia || assumption) | rewrite tb_add256 by lia]; tb_norm; fl_fin k.
Qed.
Lemma fl_mt_store3 old : try_ok old ->
  fl (mu_try_acquire_after_timeout_or_cancel_cas1_new old) 0 0 (mu_try_acquire_after_timeout_or_cancel_store3_new old).
Proof.
  intros T k Hk. rewrite (fl_mt_cas1 old T k Hk). destruct T as (R & _). rewrite mt_store3_new_eq. tb_norm. fl_fin k.
Qed.

(* a use of [flk]: a writer that gets in through the fast path clears MU_WRITER_WAITING and keeps MU_WAITING *)
Lemma fast_new2_W_flags old : rng old -> fast_guard2 W old = true ->
  tb 5 (fast_new2 W old) = false /\ tb 2 (fast_new2 W old) = tb 2 old.
Proof. intros R G. pose proof (fl_fast_new2 W old R G) as H. cbn [coa] in H. flk H 5. flk H 2. split; assumption. Qed.

(* ================================================================== *)
(* Part 2: what the guards and tests say                               *)
(* ================================================================== *)
Definition free (x : Z) : Prop := x mod 2 = 0 /\ x / 256 = 0.
Definition zred (m : mode) : Z := band (lt_zero_to_acquire (lt_of m)) clr_mask.

(* ----- masks as arithmetic: x & 2^k = 2^k * bit k of x; x & (a + b) = x & a + x & b for disjoint a, b ----- *)
Lemma tb_true k x : 0 <= k -> (tb k x = true <-> (x / 2 ^ k) mod 2 = 1).
Proof. intros Hk. unfold tb. rewrite Z.testbit_eqb by assumption. apply Z.eqb_eq. Qed.
Lemma tb_false k x : 0 <= k -> (tb k x = false <-> (x / 2 ^ k) mod 2 = 0).
Proof.
  intros Hk. unfold tb. rewrite Z.testbit_eqb by assumption. rewrite Z.eqb_neq.
  assert (0 < 2 ^ k) by (apply Z.pow_pos_nonneg; lia). lia.
Qed.
Lemma land_bit x k : 0 <= k -> Z.land x (2 ^ k) = 2 ^ k * ((x / 2 ^ k) mod 2).
Proof.
  intros Hk.
  assert (Z.land x (2 ^ k) = if Z.testbit x k then 2 ^ k else 0) as E.
  { apply Z.bits_inj'. intros i Hi. rewrite Z.land_spec, Z.pow2_bits_eqb by lia.
    destruct (Z.eqb_spec k i) as [<-|N].
    - rewrite andb_true_r. destruct (Z.testbit x k) eqn:T; [symmetry; apply Z.pow2_bits_true; lia | symmetry; apply Z.bits_0].
    - rewrite andb_false_r. destruct (Z.testbit x k); [symmetry; apply Z.pow2_bits_false; lia | symmetry; apply Z.bits_0]. }
  rewrite E, Z.testbit_eqb by assumption.
  assert (0 < 2 ^ k) by (apply Z.pow_pos_nonneg; lia).
  destruct (Z.eqb_spec ((x / 2 ^ k) mod 2) 1) as [-> | N]; [lia|].
  replace ((x / 2 ^ k) mod 2) with 0 by lia. lia.
Qed.
Lemma land_add x a b : Z.land a b = 0 -> Z.land x (a + b) = Z.land x a + Z.land x b.
Proof.
  intros H. rewrite (Z.add_nocarry_lxor a b H), (Z.lxor_lor a b H), Z.land_lor_distr_r.
  assert (Z.land (Z.land x a) (Z.land x b) = 0) as H'.
  { apply Z.bits_inj'. intros i Hi. rewrite !Z.land_spec, Z.bits_0.
    pose proof (f_equal (fun z => Z.testbit z i) H) as Hb. cbv beta in Hb. rewrite Z.land_spec, Z.bits_0 in Hb.
    destruct (Z.testbit x i), (Z.testbit a i), (Z.testbit b i); cbn in *; congruence. }
  now rewrite (Z.add_nocarry_lxor _ _ H'), (Z.lxor_lor _ _ H').
Qed.
Lemma land_1 x : Z.land x 1 = x mod 2.
Proof. pose proof (land_bit x 0 ltac:(lia)) as H. change (2 ^ 0) with 1 in H. rewrite Z.div_1_r in H. lia. Qed.
Lemma land_2 x : Z.land x 2 = 2 * ((x / 2) mod 2).        Proof. exact (land_bit x 1 ltac:(lia)). Qed.
Lemma land_4 x : Z.land x 4 = 4 * ((x / 4) mod 2).        Proof. exact (land_bit x 2 ltac:(lia)). Qed.
Lemma land_8 x : Z.land x 8 = 8 * ((x / 8) mod 2).        Proof. exact (land_bit x 3 ltac:(lia)). Qed.
Lemma land_32 x : Z.land x 32 = 32 * ((x / 32) mod 2).    Proof. exact (land_bit x 5 ltac:(lia)). Qed.
Lemma land_64 x : Z.land x 64 = 64 * ((x / 64) mod 2).    Proof. exact (land_bit x 6 ltac:(lia)). Qed.
Lemma land_128 x : Z.land x 128 = 128 * ((x / 128) mod 2). Proof. exact (land_bit x 7 ltac:(lia)). Qed.
Lemma land_256 x : Z.land x 256 = 256 * ((x / 256) mod 2). Proof. exact (land_bit x 8 ltac:(lia)). Qed.

(* the masks of mu.c / mu_wait.c *)
Ltac mask_nf := rewrite !land_add by reflexivity;
  rewrite ?land_high by assumption; rewrite ?land_1, ?land_2, ?land_4, ?land_8, ?land_32, ?land_64, ?land_128, ?land_256.
Lemma land_12 x : Z.land x 12 = 8 * ((x / 8) mod 2) + 4 * ((x / 4) mod 2).
Proof. change 12 with (8 + 4). now mask_nf. Qed.
Lemma land_34 x : Z.land x 34 = 32 * ((x / 32) mod 2) + 2 * ((x / 2) mod 2).
Proof. change 34 with (32 + 2). now mask_nf. Qed.
Lemma land_97 x : Z.land x 97 = 64 * ((x / 64) mod 2) + (32 * ((x / 32) mod 2) + x mod 2).
Proof. change 97 with (64 + (32 + 1)). now mask_nf. Qed.
Lemma land_384 x : Z.land x 384 = 256 * ((x / 256) mod 2) + 128 * ((x / 128) mod 2).
Proof. change 384 with (256 + 128). now mask_nf. Qed.
Lemma land_anylock x : rng x -> Z.land x 4294967041 = 256 * (x / 256) + x mod 2.
Proof. intros R. change 4294967041 with (4294967040 + 1). now mask_nf. Qed.
Lemma land_anylock_spin x : rng x -> Z.land x 4294967043 = 256 * (x / 256) + (2 * ((x / 2) mod 2) + x mod 2).
Proof. intros R. change 4294967043 with (4294967040 + (2 + 1)). now mask_nf. Qed.
Lemma land_wzero x : rng x -> Z.land x 4294967105 = 256 * (x / 256) + (64 * ((x / 64) mod 2) + x mod 2).
Proof. intros R. change 4294967105 with (4294967040 + (64 + 1)). now mask_nf. Qed.
Lemma land_field_af x : rng x -> Z.land x 4294967168 = 256 * (x / 256) + 128 * ((x / 128) mod 2).
Proof. intros R. change 4294967168 with (4294967040 + 128). now mask_nf. Qed.

Lemma wrap_land x M : rng x -> wrap_u 32 (Z.land x M) = Z.land x M.
Proof.
  intros R. unfold wrap_u. rewrite <- Z.land_ones by lia.
  rewrite <- Z.land_assoc, (Z.land_comm M), Z.land_assoc, Z.land_ones by lia.
  fold (wrap_u 32 x). now rewrite (wrap32 x R).
Qed.

(* bits as arithmetic, for lia *)
Ltac tbz := rewrite ?tb_true, ?tb_false by lia; pow2.
Ltac tbz_in H := rewrite ?tb_true, ?tb_false in H by lia;
  repeat match type of H with context [2 ^ ?n] => let v := eval vm_compute in (2 ^ n) in change (2 ^ n) with v in H end.

Lemma zred_W : zred W = 4294967041.  Proof. reflexivity. Qed.
Lemma zred_R : zred R = 1.           Proof. reflexivity. Qed.
Lemma zfull_W : lt_zero_to_acquire (lt_of W) = 4294967105.  Proof. reflexivity. Qed.
Lemma zfull_R : lt_zero_to_acquire (lt_of R) = 97.          Proof. reflexivity. Qed.

(* ----- nsync_mu_lock_slow_ ----- *)
(* a thread that has already been woken enqueues only when the lock is held against it *)
Lemma enq_guard_woken m old : rng old -> free old -> nsync_mu_lock_slow_cas2_guard old (zred m) = true -> False.
Proof.
  intros R [E D] G. rewrite lock_slow_cas2_guard_eq in G. apply andb_true_iff in G. destruct G as [G _].
  apply negb_true_iff, Z.eqb_neq in G. apply G. rewrite wrap_land by assumption.
  destruct m; [rewrite zred_W, land_anylock by assumption | rewrite zred_R, land_1]; lia.
Qed.
(* a thread that has not waited yet enqueues on a free lock only behind MU_LONG_WAIT / MU_WRITER_WAITING *)
Lemma enq_guard_fresh m old : rng old -> free old ->
  nsync_mu_lock_slow_cas2_guard old (lt_zero_to_acquire (lt_of m)) = true -> tb 6 old = true \/ tb 5 old = true.
Proof.
  intros R [E D] G. rewrite lock_slow_cas2_guard_eq in G. apply andb_true_iff in G. destruct G as [G _].
  apply negb_true_iff, Z.eqb_neq in G. rewrite wrap_land in G by assumption. tbz.
  destruct m; [rewrite zfull_W, land_wzero in G by assumption | rewrite zfull_R, land_97 in G]; lia.
Qed.
Lemma enq_guard_spin old z : nsync_mu_lock_slow_cas2_guard old z = true -> b1 old = 0.
Proof. exact (ls_cas2_b1 old z). Qed.
(* with the spinlock free one of the two branches of LsLoad is taken *)
Lemma lock_slow_guards_complete m l old : rng old -> lsl_ok m l -> b1 old = 0 ->
  nsync_mu_lock_slow_cas1_guard old (zta l) = true \/ nsync_mu_lock_slow_cas2_guard old (zta l) = true.
Proof.
  intros R _ B. rewrite lock_slow_cas1_guard_eq, lock_slow_cas2_guard_eq.
  destruct (wrap_u 32 (Z.land old (zta l)) =? 0); [now left | right].
  cbn [negb andb]. apply Z.eqb_eq. rewrite wrap_land, land_2 by assumption. unfold b1 in B. lia.
Qed.
(* a designated waker gets in when the word is free, whatever the flags *)
Lemma lock_slow_cas1_guard_desig m old : rng old -> free old -> nsync_mu_lock_slow_cas1_guard old (zred m) = true.
Proof.
  intros R [E D]. rewrite lock_slow_cas1_guard_eq. apply Z.eqb_eq. rewrite wrap_land by assumption.
  destruct m; [rewrite zred_W, land_anylock by assumption | rewrite zred_R, land_1]; lia.
Qed.

(* ----- nsync_spin_test_and_set_ ----- *)
Lemma spin_guard_complete old : b1 old = 0 -> nsync_spin_test_and_set_cas1_guard old MU_SPINLOCK = true.
Proof.
  intros B. rewrite spin_tas_guard_eq, negb_involutive. apply Z.eqb_eq. rewrite land_2. unfold b1 in B. rewrite B. reflexivity.
Qed.
Lemma spin_guard_b1 old : nsync_spin_test_and_set_cas1_guard old MU_SPINLOCK = true -> b1 old = 0.
Proof. intros G. rewrite spin_tas_guard_eq, negb_involutive in G. apply Z.eqb_eq in G. now apply spin_clear_of_test. Qed.

(* ----- nsync_mu_unlock / nsync_mu_runlock ----- *)
Lemma unlock_cas2_guard_eq old : nsync_mu_unlock_cas2_guard old =
  negb (negb (wrap_u 32 (Z.land (wrap_u 32 (Z.land (wrap_u 32 (old - 1)) (4294967295 - 128))) 4294967041) =? 0))
  && negb (wrap_u 32 (Z.land old 12) =? 4).
Proof. reflexivity. Qed.
Lemma runlock_cas2_guard_eq old : nsync_mu_runlock_cas2_guard old =
  negb (wrap_u 32 (Z.land (wrap_u 32 (Z.lxor old 1)) 4294967041) =? 0)
  && negb ((wrap_u 32 (Z.land old 12) =? 4) && (wrap_u 32 (Z.land old 4294967168) =? 256)).
Proof. reflexivity. Qed.
Lemma wrap_small y : 0 <= y < 4294967296 -> wrap_u 32 y = y.
Proof. exact (wrap32 y). Qed.

Lemma unlock_cas2_guard_W old : unlock_try_cas2 W old = true -> tb 2 old = false \/ tb 3 old = true.
Proof.
  unfold unlock_try_cas2. rewrite unlock_cas2_guard_eq. intros G. apply andb_true_iff in G. destruct G as [_ G].
  apply negb_true_iff, Z.eqb_neq in G. rewrite land_12, wrap_small in G by lia. tbz. lia.
Qed.
Lemma unlock_cas2_guard_R old : rng old -> unlock_try_cas2 R old = true ->
  tb 2 old = false \/ tb 3 old = true \/ old / 256 <> 1 \/ tb 7 old = true.
Proof.
  intros R. unfold unlock_try_cas2. rewrite runlock_cas2_guard_eq. intros G. apply andb_true_iff in G. destruct G as [_ G].
  apply negb_true_iff, andb_false_iff in G. rewrite !Z.eqb_neq in G.
  rewrite land_12, land_field_af, !wrap_small in G by (unfold rng in *; lia). tbz. lia.
Qed.

(* ----- nsync_mu_unlock_slow_ ----- *)
Lemma unlock_slow_cas1_guard_eq old : nsync_mu_unlock_slow_cas1_guard old =
  ((((wrap_u 32 (Z.land old 4) =? 0) || negb (wrap_u 32 (Z.land old 8) =? 0))
      || (wrap_u 32 (Z.land old 4294967040) >? 256))
     || (wrap_u 32 (Z.land old 384) =? 384)).
Proof. reflexivity. Qed.
Lemma unlock_slow_cas2_guard_eq old : nsync_mu_unlock_slow_cas2_guard old =
  negb (nsync_mu_unlock_slow_cas1_guard old) && (wrap_u 32 (Z.land old 2) =? 0).
Proof. reflexivity. Qed.
(* the guard as a proposition over the fields *)
Lemma unlock_slow_cas1_guard_iff old : rng old ->
  (nsync_mu_unlock_slow_cas1_guard old = true <->
   (tb 2 old = false \/ tb 3 old = true \/ 2 <= old / 256 \/ (tb 7 old = true /\ (old / 256) mod 2 = 1))).
Proof.
  intros R. rewrite unlock_slow_cas1_guard_eq, !orb_true_iff, negb_true_iff, !Z.eqb_eq, Z.eqb_neq.
  rewrite Z.gtb_lt. rewrite !wrap_land by assumption.
  rewrite land_4, land_8, land_high, land_384 by assumption. tbz. unfold rng in R. lia.
Qed.
Lemma unlock_slow_cas1_guard_flags old : rng old -> nsync_mu_unlock_slow_cas1_guard old = true ->
  tb 2 old = false \/ tb 3 old = true \/ 2 <= old / 256 \/ (tb 7 old = true /\ 1 <= old / 256).
Proof.
  intros R G. apply (unlock_slow_cas1_guard_iff old R) in G. unfold rng in R.
  destruct G as [G | [G | [G | [G1 G2]]]]; auto. right; right; right. split; [assumption | lia].
Qed.
Lemma unlock_slow_cas2_guard_flags old : rng old -> nsync_mu_unlock_slow_cas2_guard old = true ->
  tb 2 old = true /\ tb 3 old = false /\ b1 old = 0.
Proof.
  intros R G. rewrite unlock_slow_cas2_guard_eq in G. apply andb_true_iff in G. destruct G as [G1 G2].
  apply Z.eqb_eq in G2. split; [| split; [| now apply spin_clear_of_test]].
  - destruct (tb 2 old) eqn:T; [reflexivity|]. apply negb_true_iff in G1.
    rewrite (proj2 (unlock_slow_cas1_guard_iff old R)) in G1; [discriminate | now left].
  - destruct (tb 3 old) eqn:T; [| reflexivity]. apply negb_true_iff in G1.
    rewrite (proj2 (unlock_slow_cas1_guard_iff old R)) in G1; [discriminate | now right; left].
Qed.
Lemma unlock_slow_guards_complete old : rng old -> b1 old = 0 ->
  nsync_mu_unlock_slow_cas1_guard old = true \/ nsync_mu_unlock_slow_cas2_guard old = true.
Proof.
  intros R B. rewrite unlock_slow_cas2_guard_eq. destruct (nsync_mu_unlock_slow_cas1_guard old); [now left | right].
  cbn [negb andb]. apply Z.eqb_eq. rewrite wrap_land, land_2 by assumption. unfold b1 in B. lia.
Qed.

(* ----- mu_try_acquire_after_timeout_or_cancel ----- *)
Lemma mt_cas1_guard_free old : rng old -> mu_try_acquire_after_timeout_or_cancel_cas1_guard old = true -> free old /\ b1 old = 0.
Proof. intros R G. destruct (mt_cas1_guard_facts old R G) as (_ & E & B & D). repeat split; assumption. Qed.
Lemma mt_cas1_guard_complete old : rng old -> free old -> b1 old = 0 -> mu_try_acquire_after_timeout_or_cancel_cas1_guard old = true.
Proof.
  intros R [E D] B. rewrite mt_cas1_guard_eq, negb_involutive. apply Z.eqb_eq.
  rewrite wrap_land, land_anylock_spin by assumption. unfold b1 in B. lia.
Qed.
Lemma mt_cas2_guard_eq old : mu_try_acquire_after_timeout_or_cancel_cas2_guard old = (wrap_u 32 (Z.land old 34) =? 0).
Proof. reflexivity. Qed.
Lemma mt_cas2_guard_flags old : mu_try_acquire_after_timeout_or_cancel_cas2_guard old = true -> tb 5 old = false /\ b1 old = 0.
Proof.
  intros G. rewrite mt_cas2_guard_eq in G. apply Z.eqb_eq in G. rewrite land_34, wrap_small in G by lia.
  tbz. unfold b1. lia.
Qed.

(* ----- tests of nsync_mu_wait_with_deadline ----- *)
Lemma anylock_free x : rng x -> ((band x MU_ANY_LOCK =? 0) = true <-> free x).
Proof.
  intros R. rewrite Z.eqb_eq. unfold band. change MU_ANY_LOCK with 4294967041. rewrite land_anylock by assumption.
  unfold free, rng in *. lia.
Qed.
Lemma mw_free_after m old : rng old ->
  match m with W => old mod 2 = 1 /\ old / 256 = 0 | R => 1 <= old / 256 /\ old mod 2 = 0 end ->
  ((band (wrap_u 32 (old - lt_add_to_acquire (lt_of m))) MU_ANY_LOCK =? 0) = true <->
   free (wrap_u 32 (old - lt_add_to_acquire (lt_of m)))).
Proof. intros _ _. apply anylock_free, wrap32_rng. Qed.
Lemma mw_free_after_R old : rng old -> 1 <= old / 256 ->
  free (wrap_u 32 (old - lt_add_to_acquire (lt_of R))) -> old / 256 = 1.
Proof.
  intros R H [_ D]. change (lt_add_to_acquire (lt_of MuWaitModel.R)) with 256 in D.
  destruct (sub256_v old R H) as (_ & _ & _ & Dy). lia.
Qed.
Lemma has_waiting old : negb (band old MU_WAITING =? 0) = tb 2 old.
Proof. exact (has_tb 2 old ltac:(lia)). Qed.
Lemma desig_clear old : (band old MU_DESIG_WAKER =? 0) = negb (tb 3 old).
Proof. rewrite <- (has_tb 3 old) by lia. unfold has. now rewrite negb_involutive. Qed.
Lemma has_tb2 x : has x MU_WAITING = tb 2 x.          Proof. exact (has_tb 2 x ltac:(lia)). Qed.
Lemma has_tb3 x : has x MU_DESIG_WAKER = tb 3 x.      Proof. exact (has_tb 3 x ltac:(lia)). Qed.
Lemma has_tb5 x : has x MU_WRITER_WAITING = tb 5 x.   Proof. exact (has_tb 5 x ltac:(lia)). Qed.
Lemma has_tb6 x : has x MU_LONG_WAIT = tb 6 x.        Proof. exact (has_tb 6 x ltac:(lia)). Qed.


(* ----- the lock view (bit 0, reader count, spinlock bit) of every written value ----- *)
Definition lockview (x wl rd sp : Z) : Prop := rng x /\ x mod 2 = wl /\ x / 256 = rd /\ b1 x = sp.
Definition wbit (m : mode) : Z := match m with W => 1 | R => 0 end.
Definition rinc (m : mode) : Z := match m with W => 0 | R => 1 end.

Lemma lockview_free x wl rd sp : lockview x wl rd sp -> (free x <-> wl = 0 /\ rd = 0).
Proof. intros (_ & A & B & _). unfold free. rewrite A, B. reflexivity. Qed.

Ltac lv_trans T :=
  let Rn := fresh "Rn" in let L := fresh "L" in let S := fresh "S" in
  destruct T as (Rn & L & S); cbv beta iota delta [ltrans strans] in L, S.

Ltac lv_fin := unfold rng in *; repeat split; intros; try assumption; try discriminate; lia.

Lemma lockview_fast_new m : lockview (fast_new m) (wbit m) (rinc m) 0.
Proof. destruct m; now vm_compute. Qed.
Lemma lockview_try_new m : lockview (try_new m) (wbit m) (rinc m) 0.
Proof. destruct m; now vm_compute. Qed.
Lemma lockview_fast_new2 m old : rng old -> old / 256 + 1 < 16777216 -> fast_guard2 m old = true ->
  lockview (fast_new2 m old) (wbit m) (old / 256 + rinc m) (b1 old) /\ old mod 2 = 0 /\ (m = W -> old / 256 = 0).
Proof.
  intros R D G. pose proof (fast_new2_trans m old R D G) as T.
  unfold lockview, wbit, rinc. destruct m; lv_trans T; lv_fin.
Qed.
Lemma lockview_try_new2 m old : rng old -> old / 256 + 1 < 16777216 -> try_guard2 m old = true ->
  lockview (try_new2 m old) (wbit m) (old / 256 + rinc m) (b1 old) /\ old mod 2 = 0 /\ (m = W -> old / 256 = 0).
Proof.
  intros R D G. pose proof (try_new2_trans m old R D G) as T.
  unfold lockview, wbit, rinc. destruct m; lv_trans T; lv_fin.
Qed.
Lemma lockview_lock_slow_cas1 m l old : rng old -> old / 256 + 1 < 16777216 -> lsl_ok m l ->
  nsync_mu_lock_slow_cas1_guard old (zta l) = true ->
  lockview (nsync_mu_lock_slow_cas1_new old (lt_of m) (clr l) (longw l)) (wbit m) (old / 256 + rinc m) (b1 old)
  /\ old mod 2 = 0 /\ (m = W -> old / 256 = 0).
Proof.
  intros R D Hl G. pose proof (lock_slow_cas1_trans m l old R D Hl G) as T.
  unfold lockview, wbit, rinc. destruct m; lv_trans T; lv_fin.
Qed.
Lemma lockview_lock_slow_cas2 m l old : rng old -> lsl_ok m l ->
  lockview (nsync_mu_lock_slow_cas2_new old (longw l) (lt_of m) (clr l)) (old mod 2) (old / 256) 1.
Proof.
  intros R Hl. destruct (small_clr l m Hl) as [Sc Sl]. rewrite lock_slow_cas2_new_eq.
  assert (Vset old (wrap_u 32 (Z.land (wrap_u 32 (Z.lor (wrap_u 32 (Z.lor (wrap_u 32 (Z.lor old 2)) (longw l))) (match m with W => 36 | R => 4 end)))
                    (4294967295 - wrap_u 32 (Z.lor (clr l) 128))))) as [(Rz & Mz & Dz) Bz].
  { eapply Vset_V; [apply (Vset_wlor old old 2 (SL_refl _ R) smallS_2)|].
    assert (V (wrap_u 32 (Z.lor old 2)) (wrap_u 32 (Z.lor old 2))) as V0 by (apply V_refl, wrap32_rng).
    apply V_wland; [| apply small3_wrap, small3_lor; [assumption | apply small3_128]].
    apply V_wlor; [| destruct m; [apply small3_36 | apply small3_4]].
    apply V_wlor; [| assumption]. exact V0. }
  lv_fin.
Qed.
Lemma lockview_release_spinlock old : rng old -> lockview (mu_release_spinlock_cas1_new old) (old mod 2) (old / 256) 0.
Proof. intros R. pose proof (release_spinlock_trans old None R) as T. lv_trans T. destruct L. lv_fin. Qed.
Lemma lockview_spin_tas old st cl : rng old -> smallS st -> small3 cl ->
  lockview (nsync_spin_test_and_set_cas1_new old st cl) (old mod 2) (old / 256) 1.
Proof.
  intros R Ss Sc. rewrite spin_tas_new_eq.
  assert (Vset old (wrap_u 32 (Z.land (wrap_u 32 (Z.lor old st)) (4294967295 - cl)))) as [(Rz & Mz & Dz) Bz].
  { eapply Vset_V; [apply (Vset_wlor old old st (SL_refl _ R) Ss)|].
    apply V_wland; [apply V_refl, wrap32_rng | assumption]. }
  lv_fin.
Qed.
Lemma lockview_spin_scan old : rng old -> lockview (nsync_spin_test_and_set_cas1_new old MU_SPINLOCK 0) (old mod 2) (old / 256) 1.
Proof. intros R. apply lockview_spin_tas; [assumption | apply smallS_2 | apply small3_0]. Qed.
Lemma lockview_spin_wait old (c : cond) : rng old ->
  lockview (nsync_spin_test_and_set_cas1_new old (bor (bor MU_SPINLOCK MU_WAITING) (match c with Some _ => MU_CONDITION | None => 0 end)) MU_ALL_FALSE)
           (old mod 2) (old / 256) 1.
Proof. intros R. apply lockview_spin_tas; [assumption | apply smallS_spin_set | apply small3_128]. Qed.
Lemma lockview_ufast m : lockview (ufast_new m) 0 0 0.
Proof. destruct m; now vm_compute. Qed.
Lemma lockview_uwfast : lockview nsync_mu_unlock_without_wakeup_cas1_new 0 0 0.
Proof. now vm_compute. Qed.
Lemma lockview_unlock_new2 m old : rng old -> match m with W => old mod 2 = 1 | R => 1 <= old / 256 end ->
  lockview (unlock_new2 m old) (match m with W => 0 | R => old mod 2 end) (old / 256 - rinc m) (b1 old).
Proof.
  intros R H. pose proof (unlock_new2_trans m old R H) as T.
  unfold lockview, rinc. destruct m; lv_trans T; lv_fin.
Qed.
Lemma lockview_uw_new2 old : rng old -> old mod 2 = 1 ->
  lockview (nsync_mu_unlock_without_wakeup_cas2_new old) 0 (old / 256) (b1 old).
Proof. intros R H. pose proof (uw_new2_trans old R H) as T. lv_trans T. lv_fin. Qed.
Lemma lockview_unlock_slow_cas1 m old : rng old -> match m with W => old mod 2 = 1 | R => 1 <= old / 256 end ->
  lockview (nsync_mu_unlock_slow_cas1_new old (lt_of m)) (match m with W => 0 | R => old mod 2 end) (old / 256 - rinc m) (b1 old).
Proof.
  intros R H. pose proof (unlock_slow_cas1_trans m old R H) as T.
  unfold lockview, rinc. destruct m; lv_trans T; lv_fin.
Qed.
(* the first CAS of the slow path: keeps (W, testing), releases (not testing), or converts the last reader to a writer *)
Lemma lockview_unlock_slow_cas2 m testing old : rng old ->
  match m with W => old mod 2 = 1 | R => 1 <= old / 256 /\ old mod 2 = 0 end ->
  nsync_mu_unlock_slow_cas2_guard old = true ->
  lockview (nsync_mu_unlock_slow_cas2_new old (early_of m testing))
           (if testing then 1 else 0)
           (match m, testing with W, _ => old / 256 | R, true => 0 | R, false => old / 256 - 1 end) 1
  /\ b1 old = 0 /\ (m = R -> testing = true -> old / 256 = 1).
Proof.
  intros R H G. pose proof (unlock_slow_cas2_trans m testing old R H G) as T.
  unfold lockview. destruct m, testing; lv_trans T; lv_fin.
Qed.
Lemma lockview_cas3 u old : rng old -> usl_ok u -> (late u = MU_WLOCK -> old mod 2 = 1) ->
  lockview (nsync_mu_unlock_slow_cas3_new old (late u) (set_on u) (clear_on u))
           (if late u =? 0 then old mod 2 else 0) (old / 256) 0.
Proof.
  intros R Hu HW. pose proof (unlock_slow_cas3_trans u old R Hu HW) as T.
  unfold lockview. destruct (late u =? 0); lv_trans T; lv_fin.
Qed.
Lemma lockview_mw_cas1 m old add : rng old -> match m with W => old mod 2 = 1 | R => 1 <= old / 256 end ->
  add = 0 \/ add = lt_add_to_acquire (lt_of m) ->
  lockview (nsync_mu_wait_with_deadline_cas1_new old add)
           (if add =? 0 then old mod 2 else match m with W => 0 | R => old mod 2 end)
           (if add =? 0 then old / 256 else old / 256 - rinc m) 0.
Proof.
  intros R H A. pose proof (mw_cas1_trans m old add R H A) as T.
  unfold lockview, rinc. destruct (add =? 0), m; lv_trans T; lv_fin.
Qed.
Lemma lockview_mt_cas1 old : try_ok old -> lockview (mu_try_acquire_after_timeout_or_cancel_cas1_new old) 1 0 1.
Proof. intros T. destruct (mt_cas1_view old T) as (A & B & C & D). lv_fin. Qed.
Lemma lockview_mt_cas2 old : rng old -> lockview (mu_try_acquire_after_timeout_or_cancel_cas2_new old) (old mod 2) (old / 256) (b1 old).
Proof. intros R. pose proof (mt_cas2_trans old None false R) as T. lv_trans T. destruct L. lv_fin. Qed.
Lemma lockview_mt_store2 old m : try_ok old ->
  lockview (mu_try_acquire_after_timeout_or_cancel_store2_new old (lt_of m)) (wbit m) (rinc m) 0.
Proof.
  intros H. pose proof (mt_store2_trans 1 old m H eq_refl eq_refl) as T.
  unfold lockview, wbit, rinc. destruct m; lv_trans T; change (1 mod 2) with 1 in *; change (1 / 256) with 0 in *;
    lv_fin.
Qed.
Lemma lockview_mt_store3 old : try_ok old -> lockview (mu_try_acquire_after_timeout_or_cancel_store3_new old) 0 0 0.
Proof.
  intros H. pose proof (mt_store3_trans 1 old H eq_refl) as T. lv_trans T.
  change (1 / 256) with 0 in L. lv_fin.
Qed.

(* ----- which written values are free ----- *)
Lemma free_fast_new m : ~ free (fast_new m).
Proof. destruct m; intros [A B]; vm_compute in A, B; discriminate. Qed.
Lemma free_try_new m : ~ free (try_new m).
Proof. destruct m; intros [A B]; vm_compute in A, B; discriminate. Qed.
Lemma free_fast_new2 m old : rng old -> old / 256 + 1 < 16777216 -> fast_guard2 m old = true -> ~ free (fast_new2 m old).
Proof.
  intros R D G. destruct (lockview_fast_new2 m old R D G) as [V _]. rewrite (lockview_free _ _ _ _ V).
  unfold rng, wbit, rinc in *. destruct m; lia.
Qed.
Lemma free_try_new2 m old : rng old -> old / 256 + 1 < 16777216 -> try_guard2 m old = true -> ~ free (try_new2 m old).
Proof.
  intros R D G. destruct (lockview_try_new2 m old R D G) as [V _]. rewrite (lockview_free _ _ _ _ V).
  unfold rng, wbit, rinc in *. destruct m; lia.
Qed.
Lemma free_lock_slow_cas1 m l old : rng old -> old / 256 + 1 < 16777216 -> lsl_ok m l ->
  nsync_mu_lock_slow_cas1_guard old (zta l) = true -> ~ free (nsync_mu_lock_slow_cas1_new old (lt_of m) (clr l) (longw l)).
Proof.
  intros R D Hl G. destruct (lockview_lock_slow_cas1 m l old R D Hl G) as [V _]. rewrite (lockview_free _ _ _ _ V).
  unfold rng, wbit, rinc in *. destruct m; lia.
Qed.
Lemma free_lock_slow_cas2 m l old : rng old -> lsl_ok m l ->
  (free (nsync_mu_lock_slow_cas2_new old (longw l) (lt_of m) (clr l)) <-> free old).
Proof. intros R Hl. rewrite (lockview_free _ _ _ _ (lockview_lock_slow_cas2 m l old R Hl)). reflexivity. Qed.
Lemma free_release_spinlock old : rng old -> (free (mu_release_spinlock_cas1_new old) <-> free old).
Proof. intros R. rewrite (lockview_free _ _ _ _ (lockview_release_spinlock old R)). reflexivity. Qed.
Lemma free_spin_tas old st cl : rng old -> smallS st -> small3 cl ->
  (free (nsync_spin_test_and_set_cas1_new old st cl) <-> free old).
Proof. intros R Ss Sc. rewrite (lockview_free _ _ _ _ (lockview_spin_tas old st cl R Ss Sc)). reflexivity. Qed.
Lemma free_mt_cas2 old : rng old -> (free (mu_try_acquire_after_timeout_or_cancel_cas2_new old) <-> free old).
Proof. intros R. rewrite (lockview_free _ _ _ _ (lockview_mt_cas2 old R)). reflexivity. Qed.
Lemma free_ufast m : free (ufast_new m).
Proof. destruct m; now vm_compute. Qed.
Lemma free_uwfast : free nsync_mu_unlock_without_wakeup_cas1_new.
Proof. now vm_compute. Qed.
Lemma free_unlock_new2_W old : rng old -> old mod 2 = 1 -> old / 256 = 0 -> free (unlock_new2 W old).
Proof. intros R H D. rewrite (lockview_free _ _ _ _ (lockview_unlock_new2 W old R H)). unfold rinc. lia. Qed.
Lemma free_unlock_new2_R old : rng old -> 1 <= old / 256 -> old mod 2 = 0 -> (free (unlock_new2 R old) <-> old / 256 = 1).
Proof. intros R H E. rewrite (lockview_free _ _ _ _ (lockview_unlock_new2 MuWaitModel.R old R H)). unfold rinc. lia. Qed.
Lemma free_uw_new2 old : rng old -> old mod 2 = 1 -> old / 256 = 0 -> free (nsync_mu_unlock_without_wakeup_cas2_new old).
Proof. intros R H D. rewrite (lockview_free _ _ _ _ (lockview_uw_new2 old R H)). lia. Qed.
Lemma free_unlock_slow_cas1_W old : rng old -> old mod 2 = 1 -> old / 256 = 0 -> free (nsync_mu_unlock_slow_cas1_new old (lt_of W)).
Proof. intros R H D. rewrite (lockview_free _ _ _ _ (lockview_unlock_slow_cas1 W old R H)). unfold rinc. lia. Qed.
Lemma free_unlock_slow_cas1_R old : rng old -> 1 <= old / 256 -> old mod 2 = 0 ->
  (free (nsync_mu_unlock_slow_cas1_new old (lt_of R)) <-> old / 256 = 1).
Proof. intros R H E. rewrite (lockview_free _ _ _ _ (lockview_unlock_slow_cas1 MuWaitModel.R old R H)). unfold rinc. lia. Qed.
Lemma free_mw_cas1_W old : rng old -> old mod 2 = 1 -> old / 256 = 0 ->
  free (nsync_mu_wait_with_deadline_cas1_new old (lt_add_to_acquire (lt_of W))).
Proof.
  intros R H D. rewrite (lockview_free _ _ _ _ (lockview_mw_cas1 W old _ R H (or_intror eq_refl))).
  change (lt_add_to_acquire (lt_of W) =? 0) with false. cbv iota. unfold rinc. lia.
Qed.
Lemma free_mw_cas1_R old : rng old -> 1 <= old / 256 -> old mod 2 = 0 ->
  (free (nsync_mu_wait_with_deadline_cas1_new old (lt_add_to_acquire (lt_of R))) <-> old / 256 = 1).
Proof.
  intros R H E. rewrite (lockview_free _ _ _ _ (lockview_mw_cas1 MuWaitModel.R old _ R H (or_intror eq_refl))).
  change (lt_add_to_acquire (lt_of MuWaitModel.R) =? 0) with false. cbv iota. unfold rinc. lia.
Qed.
Lemma free_mw_cas1_keep m old : rng old -> match m with W => old mod 2 = 1 | R => 1 <= old / 256 end ->
  ~ free (nsync_mu_wait_with_deadline_cas1_new old 0).
Proof.
  intros R H. rewrite (lockview_free _ _ _ _ (lockview_mw_cas1 m old 0 R H (or_introl eq_refl))).
  change (0 =? 0) with true. cbv iota. destruct m; lia.
Qed.
Lemma free_mt_cas1 old : try_ok old -> ~ free (mu_try_acquire_after_timeout_or_cancel_cas1_new old).
Proof. intros T. rewrite (lockview_free _ _ _ _ (lockview_mt_cas1 old T)). lia. Qed.
Lemma free_mt_store2 old m : try_ok old -> ~ free (mu_try_acquire_after_timeout_or_cancel_store2_new old (lt_of m)).
Proof. intros T. rewrite (lockview_free _ _ _ _ (lockview_mt_store2 old m T)). unfold wbit, rinc. destruct m; lia. Qed.
Lemma free_mt_store3 old : try_ok old -> free (mu_try_acquire_after_timeout_or_cancel_store3_new old).
Proof. intros T. rewrite (lockview_free _ _ _ _ (lockview_mt_store3 old T)). lia. Qed.
Lemma free_cas3 u old : rng old -> usl_ok u -> (late u = MU_WLOCK -> old mod 2 = 1) -> old / 256 = 0 ->
  (late u = 0 -> old mod 2 = 0) -> free (nsync_mu_unlock_slow_cas3_new old (late u) (set_on u) (clear_on u)).
Proof.
  intros R Hu HW D H0. rewrite (lockview_free _ _ _ _ (lockview_cas3 u old R Hu HW)).
  destruct (Z.eqb_spec (late u) 0); auto.
Qed.

(* ================================================================== *)
(* Part 3: the scan's private flag sets                                *)
(* ================================================================== *)
Definition uset_ok (s : Z) : Prop := tb 2 s = false /\ tb 3 s = false /\ tb 4 s = false /\ tb 6 s = false.

Lemma uset_ok_init : uset_ok MU_ALL_FALSE.
Proof. repeat split. Qed.
Lemma tb_set_ww k s : tb k (set_ww s) = (tb k s || tb k 32) && tb k (4294967295 - 128).
Proof. unfold set_ww, band, bor, bnot32. change MU_WRITER_WAITING with 32. change MU_ALL_FALSE with 128. now rewrite tb_land, tb_lor. Qed.
Lemma tb_clear_af k s : tb k (band s (bnot32 MU_ALL_FALSE)) = tb k s && tb k (4294967295 - 128).
Proof. unfold band, bnot32. change MU_ALL_FALSE with 128. now rewrite tb_land. Qed.
Lemma uset_ok_set_ww s : uset_ok s -> uset_ok (set_ww s).
Proof. intros (A & B & C & D). unfold uset_ok. rewrite !tb_set_ww, A, B, C, D. repeat split. Qed.
Lemma uset_ok_clear_af s : uset_ok s -> uset_ok (band s (bnot32 MU_ALL_FALSE)).
Proof. intros (A & B & C & D). unfold uset_ok. rewrite !tb_clear_af, A, B, C, D. repeat split. Qed.
Lemma set_ww_tb5 s : tb 5 (set_ww s) = true.
Proof. rewrite tb_set_ww. change (tb 5 32) with true. change (tb 5 (4294967295 - 128)) with true. now rewrite orb_true_r. Qed.
Lemma set_ww_tb7 s : tb 7 (set_ww s) = false.
Proof. rewrite tb_set_ww. change (tb 7 (4294967295 - 128)) with false. apply andb_false_r. Qed.
Lemma clear_af_tb5 s : tb 5 (band s (bnot32 MU_ALL_FALSE)) = tb 5 s.
Proof. rewrite tb_clear_af. change (tb 5 (4294967295 - 128)) with true. apply andb_true_r. Qed.
Lemma clear_af_tb7 s : tb 7 (band s (bnot32 MU_ALL_FALSE)) = false.
Proof. rewrite tb_clear_af. change (tb 7 (4294967295 - 128)) with false. apply andb_false_r. Qed.
Lemma uset_ok_end_inner_set u : uset_ok (u_set u) -> uset_ok (u_set (end_inner_set u)).
Proof. intros H. unfold end_inner_set. destruct (u_rest u); [exact H | now apply uset_ok_clear_af]. Qed.

Lemma finalize_flags_gen w m u :
  exists f, finalize w m u = (set_queue w (u_done u), UsRelLoad m f true) /\ wake f = u_wake u /\ set_on f = u_set u /\ late f = u_late u /\
    tb 3 (clear_on f) = (match u_wake u with [] => true | _ => false end) /\
    tb 2 (clear_on f) = (match u_done u with [] => true | _ => false end) /\
    tb 5 (clear_on f) = tb 2 (clear_on f) /\ tb 4 (clear_on f) = tb 2 (clear_on f) /\
    tb 6 (clear_on f) = false /\
    tb 7 (clear_on f) = (negb (tb 7 (u_set u)) || tb 2 (clear_on f)).
Proof.
  unfold finalize. eexists. split; [reflexivity|]. cbn [wake set_on late clear_on].
  split; [reflexivity|]. split; [reflexivity|]. split; [reflexivity|].
  assert ((band (u_set u) MU_ALL_FALSE =? 0) = negb (tb 7 (u_set u))) as E.
  { rewrite <- (has_tb 7) by lia. unfold has. now rewrite negb_involutive. }
  rewrite E. destruct (u_wake u), (u_done u), (tb 7 (u_set u)); repeat split.
Qed.
Lemma finalize_flags w m u : uset_ok (u_set u) ->
  exists f, finalize w m u = (set_queue w (u_done u), UsRelLoad m f true) /\ wake f = u_wake u /\ set_on f = u_set u /\ late f = u_late u /\
    tb 3 (clear_on f) = (match u_wake u with [] => true | _ => false end) /\
    tb 2 (clear_on f) = (match u_done u with [] => true | _ => false end) /\
    tb 5 (clear_on f) = tb 2 (clear_on f) /\ tb 4 (clear_on f) = tb 2 (clear_on f) /\
    tb 6 (clear_on f) = false /\
    tb 7 (clear_on f) = (negb (tb 7 (u_set u)) || tb 2 (clear_on f)).
Proof. intros _. apply finalize_flags_gen. Qed.

(* ================================================================== *)
(* Part 4: ownership vs. the word                                      *)
(* ================================================================== *)
Lemma b1_tb1 x : b1 x = 1 <-> tb 1 x = true.
Proof. rewrite b1_testbit. unfold tb. destruct (Z.testbit x 1); cbn; split; intros; (reflexivity || discriminate || lia). Qed.

Lemma cntp_ex p l : 1 <= cntp p l -> exists t, (t < length l)%nat /\ p (nth t l dflt_t) = true.
Proof.
  unfold cntp. induction l as [|a l IH]; cbn [filter length]; intros H; [cbn in H; lia|].
  destruct (p a) eqn:E.
  - exists 0%nat. split; [lia | exact E].
  - destruct (IH H) as (t & Ht & Pt). exists (S t). split; [lia | exact Pt].
Qed.

Lemma free_no_holder n w : Inv n w -> free (word w) -> forall t, held (get w t) = None.
Proof.
  intros I [E D] t. destruct (held (get w t)) as [m|] eqn:H; [| reflexivity].
  pose proof (Inv_held n w t m I H) as P. destruct m; lia.
Qed.
Lemma no_holder_free n w : Inv n w -> (forall t, held (get w t) = None) -> free (word w).
Proof.
  intros (L & (Rx & HW & HR & HX & HS) & _) H. unfold free.
  pose proof (cntp_range (pm W) (thr w)) as CW. pose proof (cntp_range (pm R) (thr w)) as CR. unfold cnt in *.
  split.
  - destruct (Z_lt_le_dec (cntp (pm W) (thr w)) 1) as [|G]; [lia|].
    destruct (cntp_ex _ _ G) as (t & _ & Pt). unfold pm in Pt. specialize (H t). unfold get in H. rewrite H in Pt. discriminate.
  - destruct (Z_lt_le_dec (cntp (pm R) (thr w)) 1) as [|G]; [lia|].
    destruct (cntp_ex _ _ G) as (t & _ & Pt). unfold pm in Pt. specialize (H t). unfold get in H. rewrite H in Pt. discriminate.
Qed.
Lemma spin_owner n w : Inv n w -> b1 (word w) = 1 -> exists t, spin (get w t) = true.
Proof.
  intros (L & (Rx & HW & HR & HX & HS) & _) B. unfold cntS in HS.
  destruct (cntp_ex spin (thr w) ltac:(lia)) as (t & _ & Pt). exists t. exact Pt.
Qed.
Lemma no_spin_owner n w : Inv n w -> b1 (word w) = 0 -> forall t, spin (get w t) = false.
Proof.
  intros I B t. destruct (spin (get w t)) eqn:E; [| reflexivity].
  pose proof (Inv_spin n w t I E). lia.
Qed.

Print Assumptions fl_lock_slow_cas2.
Print Assumptions fl_cas3.
Print Assumptions fl_mt_store2.
Print Assumptions fast_new2_W_flags.
Print Assumptions enq_guard_fresh.
Print Assumptions unlock_slow_cas1_guard_iff.
Print Assumptions unlock_slow_cas2_guard_flags.
Print Assumptions mt_cas1_guard_complete.
Print Assumptions lockview_unlock_slow_cas2.
Print Assumptions free_mw_cas1_R.
Print Assumptions finalize_flags.
Print Assumptions no_holder_free.
Print Assumptions spin_owner.
