(* MuXferProof6: the hand-off invariant over Model/MuXferModel.v and the full no-lost-transfer theorem.
   Part A  HXInv = MuXferProof5.HX instantiated with the wrapper's participants (transferred cv waiters as agents, the
           semaphore wait of nsync_cv_wait, wake_waiters as waker and as spinlock owner), preserved by every step
   Part B  quiescent worlds: no transferred waiter (and no nsync_mu_lock sleeper) is asleep while the mutex is free;
           the analogues of MuProof3.no_lost_handoff / last_holder_must_scan. *)
From NsyncBase Require Import CSem.
From NsyncGen Require Import Consts Sites.
From NsyncModel Require Import MuModel MuSpec.
From NsyncProof Require Import WordView MuProof MuProof2 MuProof3.
From NsyncModel Require Import MuXferModel.
From NsyncProof Require Import MuXferProof MuXferProof2 MuXferProof3 MuXferProof4 MuXferProof5.
From Coq Require Import List ZArith Bool Lia PeanoNat Permutation.
Import ListNotations.
Local Open Scope Z_scope.

Ltac Zify.zify_post_hook ::= Z.div_mod_to_equations.

(* ================================================================== *)
(* Part A: the invariant over the wrapper                              *)
(* ================================================================== *)
Definition xs_pc (xp : xpc) : bool := match xp with XwSem _ => true | _ => false end.
Definition xv_pc (xp : xpc) : option nat := match xp with XvV _ p => Some p | _ => None end.
Definition xo_pc (xp : xpc) : bool := match xp with XvLoad3 _ | XvCas2 _ _ | XvLoad5 _ => true | _ => false end.
Definition xsf (xw : xworld) (x : nat) : bool := xs_pc (x_pc (xget xw x)).
Definition xvf (xw : xworld) (t : nat) : option nat := xv_pc (x_pc (xget xw t)).
Definition xof (xw : xworld) (t : nat) : bool := xo_pc (x_pc (xget xw t)).
(* wake_waiters' acquiring CAS is attempted only on a word that shows a holder *)
Definition xpcH (xp : xpc) : Prop :=
  match xp with
  | XvLoad1 k => k_wake k <> []
  | XvCas1 k old => has old MU_ANY_LOCK = true /\ k_wake k <> []
  | _ => True
  end.

Definition HXw (xw : xworld) : Prop := HX (xaf xw) (xsf xw) (xvf xw) (xof xw) (mw xw).
Definition HXInv (xw : xworld) : Prop := HXw xw /\ forall t, xpcH (x_pc (xget xw t)).

Lemma xk_kof n xw o : XInv n xw -> own (kof (mw xw) o) = true -> xk xw o = kof (mw xw) o.
Proof.
  intros (_ & _ & HT) O. destruct (HT o) as [Hp _]. unfold xk, xkr, kof in *.
  destruct (x_pc (xget xw o)); try reflexivity; cbn [xpc_ok] in Hp; destruct Hp as [E _]; rewrite E in O; discriminate O.
Qed.

Lemma xget_upd xw m' q' f' t xs' p : (t < length (xthr xw))%nat ->
  xget (mk_xw m' q' f' (lupd (xthr xw) t xs')) p = if Nat.eqb p t then xs' else xget xw p.
Proof.
  intros Ht. destruct (Nat.eqb_spec p t) as [->|N]; [now apply xget_lupd_same | now apply xget_lupd_other].
Qed.

Section HandoffX.
Variable n : nat.
Hypothesis Hn : Z.of_nat n < 16777215.

(* a step of mu.c by thread t *)
Lemma HXw_mu xw t xs' : XInv n xw -> SInv xw -> PInv xw -> HXw xw -> (t < length (xthr xw))%nat ->
  xkr (x_pc (xget xw t)) = role_of -> xs_pc (x_pc (xget xw t)) = false ->
  xv_pc (x_pc (xget xw t)) = None -> xo_pc (x_pc (xget xw t)) = false ->
  wph2 (x_pc xs') = wph2 (x_pc (xget xw t)) -> xs_pc (x_pc xs') = false -> xv_pc (x_pc xs') = None -> xo_pc (x_pc xs') = false ->
  HXw (mk_xw (fst (step (mw xw) t)) (cvq xw) (xferred xw) (lupd (xthr xw) t xs')).
Proof.
  intros HI (HQ & HA & _) (HM & _ & _) HH Ht K0 S0 V0 O0 W1 S1 V1 O1.
  unfold HXw. cbn [mw].
  set (xw' := mk_xw (fst (step (mw xw) t)) (cvq xw) (xferred xw) (lupd (xthr xw) t xs')).
  assert (forall p, xget xw' p = if Nat.eqb p t then xs' else xget xw p) as G by (intros p; now apply xget_upd).
  apply (HX_ext (xaf xw) (xsf xw) (xvf xw) (xof xw)).
  2-5: intros a; unfold xaf, xsf, xvf, xof; rewrite G; cbn [xferred xw']; destruct (Nat.eqb_spec a t) as [->|N]; congruence.
  pose proof HI as (HI0 & _ & _).
  apply (step_hx _ _ _ _ n Hn); auto.
  - intros o O. destruct HQ as (B1 & _). apply (B1 o). now rewrite (xk_kof n).
  - destruct HQ as (_ & _ & _ & _ & Q5 & _). exact Q5.
  - intros cw R. destruct HQ as (_ & _ & C & _). apply (C t cw). unfold xk. now rewrite K0.
  - intros L. destruct HQ as (_ & _ & _ & El & _). apply (El t). unfold xk. now rewrite K0.
  - intros p Hp. destruct HM as (_ & _ & _ & Hw & _). destruct (Hw t p Hp) as (_ & b & _).
    unfold slp, slpf in b. apply orb_prop in b. exact b.
  - apply HA.
  - intros m l E. unfold xaf. destruct (wph2 (x_pc (xget xw t))) eqn:W; [|reflexivity].
    unfold P in E. destruct (wph2_pc n xw t HI W) as [X | X]; rewrite E in X; discriminate X.
Qed.

Lemma HXw_mu0 xw t : XInv n xw -> SInv xw -> PInv xw -> HXw xw -> (t < length (xthr xw))%nat ->
  xkr (x_pc (xget xw t)) = role_of -> xs_pc (x_pc (xget xw t)) = false ->
  xv_pc (x_pc (xget xw t)) = None -> xo_pc (x_pc (xget xw t)) = false ->
  HXw (mk_xw (fst (step (mw xw) t)) (cvq xw) (xferred xw) (xthr xw)).
Proof.
  intros HI HS HP HH Ht K0 S0 V0 O0.
  replace (mk_xw (fst (step (mw xw) t)) (cvq xw) (xferred xw) (xthr xw))
    with (mk_xw (fst (step (mw xw) t)) (cvq xw) (xferred xw) (lupd (xthr xw) t (xget xw t)))
    by (unfold xget; now rewrite lupd_nth_same).
  apply HXw_mu; auto.
Qed.
End HandoffX.

(* a step outside mu.c that leaves the mutex word alone *)
Lemma HXw_sw xw m' q' f' t xs' : HXw xw -> (t < length (xthr xw))%nat ->
  word m' = word (mw xw) -> incl (queue (mw xw)) (queue m') ->
  (forall x, P m' x = P (mw xw) x \/ (P (mw xw) x = Idle /\ entered (P m' x))) ->
  (xo_pc (x_pc (xget xw t)) = true -> xo_pc (x_pc xs') = true) ->
  (forall a, agentx (xaf xw) (mw xw) a -> agentx (xaf (mk_xw m' q' f' (lupd (xthr xw) t xs'))) m' a) ->
  (forall x, isq (kof (mw xw) x) = true -> waiting m' x = true -> waiting (mw xw) x = true) ->
  H7c (xsf (mk_xw m' q' f' (lupd (xthr xw) t xs'))) (xvf (mk_xw m' q' f' (lupd (xthr xw) t xs'))) m' ->
  (forall x, 0 <= sem m' x) ->
  HXw (mk_xw m' q' f' (lupd (xthr xw) t xs')).
Proof.
  intros HH Ht Ew Iq FP Xo Ag Wt H7 H8. pose proof HH as (H1 & H2 & _).
  unfold HXw. cbn [mw].
  apply (HX_frame (xaf xw) (xsf xw) (xvf xw) (xof xw) (mw xw)); auto; rewrite ?Ew; auto.
  intros B. left. split; [exact B|]. intros o Ho. unfold xof in *. rewrite xget_upd by exact Ht.
  destruct (Nat.eqb_spec o t) as [->|N]; auto.
Qed.

(* ... and changes nothing but the wrapper pc of t, within its class *)
Lemma HXw_local xw m' q' t xs' : HXw xw -> (t < length (xthr xw))%nat ->
  word m' = word (mw xw) -> queue m' = queue (mw xw) -> waiting m' = waiting (mw xw) -> sem m' = sem (mw xw) ->
  (forall x, P m' x = P (mw xw) x) ->
  wph2 (x_pc xs') = wph2 (x_pc (xget xw t)) ->
  (xs_pc (x_pc xs') = true -> xs_pc (x_pc (xget xw t)) = true \/ waiting (mw xw) t = true) ->
  xv_pc (x_pc xs') = xv_pc (x_pc (xget xw t)) -> xo_pc (x_pc xs') = xo_pc (x_pc (xget xw t)) ->
  HXw (mk_xw m' q' (xferred xw) (lupd (xthr xw) t xs')).
Proof.
  intros HH Ht Ew Eq Ewt Es EP W1 S1 V1 O1. pose proof (HX_H7 _ _ _ _ _ HH) as [H7 H8].
  set (xw' := mk_xw m' q' (xferred xw) (lupd (xthr xw) t xs')).
  assert (forall p, xget xw' p = if Nat.eqb p t then xs' else xget xw p) as G by (intros p; now apply xget_upd).
  apply HXw_sw; auto.
  - rewrite Eq. apply incl_refl.
  - congruence.
  - intros a. unfold agentx. rewrite EP, Ewt. intros [A | [A B]]; [left; exact A | right; split; [|exact B]].
    fold xw'. unfold xaf in *. rewrite G. cbn [xferred xw']. destruct (Nat.eqb_spec a t) as [->|N]; congruence.
  - intros x _. now rewrite Ewt.
  - fold xw'. apply (H7_mono _ _ _ _ _ _ H7).
    + intros x Sx Wx. rewrite Ewt in Wx. rewrite Es. left. split; [|split; [exact Wx | lia]].
      rewrite EP in Sx. destruct Sx as [Sx | Sx]; [left; exact Sx|]. right.
      unfold xsf in *. rewrite G in Sx. destruct (Nat.eqb_spec x t) as [E|N]; [|exact Sx].
      rewrite E in *. destruct (S1 Sx) as [X | X]; [exact X | congruence].
    + intros t' m0 x u. now rewrite EP.
    + intros t' x V. left. unfold xvf in *. rewrite G. destruct (Nat.eqb_spec t' t) as [->|N]; congruence.
  - intros x. rewrite Es. apply H8.
Qed.

(* thread t, between mutex calls and outside every class of participants before and after the step, changes its own
   waiting flag (the flag of its nsync_wait_n record), consumes a post of its own semaphore, and sets its next MuModel pc *)
Lemma HXw_own xw m' q' t xs' : HXw xw -> (t < length (xthr xw))%nat ->
  word m' = word (mw xw) -> queue m' = queue (mw xw) ->
  (forall x, x <> t -> sem m' x = sem (mw xw) x) -> 0 <= sem m' t ->
  (forall x, x <> t -> waiting m' x = waiting (mw xw) x) ->
  (forall x, x <> t -> P m' x = P (mw xw) x) ->
  P (mw xw) t = Idle -> (P m' t = Idle \/ entered (P m' t)) ->
  wph2 (x_pc (xget xw t)) = false -> xs_pc (x_pc (xget xw t)) = false -> xv_pc (x_pc (xget xw t)) = None ->
  xo_pc (x_pc (xget xw t)) = false ->
  wph2 (x_pc xs') = false -> xs_pc (x_pc xs') = false -> xv_pc (x_pc xs') = None -> xo_pc (x_pc xs') = false ->
  HXw (mk_xw m' q' (xferred xw) (lupd (xthr xw) t xs')).
Proof.
  intros HH Ht Ew Eq Es Es0 Ewt EP PI PN W0 S0 V0 O0 W1 S1 V1 O1. pose proof (HX_H7 _ _ _ _ _ HH) as [H7 H8].
  set (xw' := mk_xw m' q' (xferred xw) (lupd (xthr xw) t xs')).
  assert (forall p, xget xw' p = if Nat.eqb p t then xs' else xget xw p) as G by (intros p; now apply xget_upd).
  assert (sp (P m' t) = false /\ forall mm y u, P m' t <> UsWakeV mm y u) as [SPt NVt].
  { destruct PN as [-> | En]; [split; [reflexivity | discriminate]|].
    destruct (entered_facts _ En) as (_ & _ & _ & _ & a & b). split; assumption. }
  apply HXw_sw; auto.
  - rewrite Eq. apply incl_refl.
  - intros x. destruct (Nat.eq_dec x t) as [->|N]; [|left; now apply EP].
    destruct PN as [E | En]; [left; congruence | right; split; assumption].
  - rewrite O0. discriminate.
  - intros a Ha. fold xw'. unfold agentx in *. destruct (Nat.eq_dec a t) as [->|N].
    + exfalso. destruct Ha as [A | [A _]]; [rewrite PI in A; discriminate A|]. unfold xaf in A. rewrite W0 in A. discriminate A.
    + rewrite EP, Ewt by exact N. unfold xaf in *. rewrite G. cbn [xferred xw']. destruct (Nat.eqb_spec a t); [contradiction | exact Ha].
  - intros x Ix Wx. destruct (Nat.eq_dec x t) as [->|N]; [unfold kof in Ix; fold (P (mw xw) t) in Ix; rewrite PI in Ix; discriminate Ix|].
    now rewrite Ewt in Wx.
  - fold xw'. apply (H7_mono _ _ _ _ _ _ H7).
    + intros x Sx Wx. destruct (Nat.eq_dec x t) as [->|N].
      { exfalso. unfold xsf in Sx. rewrite G, Nat.eqb_refl in Sx. destruct Sx as [Sx | Sx]; congruence. }
      rewrite Ewt in Wx by exact N. rewrite EP in Sx by exact N. left. split; [|split; [exact Wx | rewrite Es by exact N; lia]].
      destruct Sx as [Sx | Sx]; [left; exact Sx | right]. unfold xsf in *. rewrite G in Sx.
      destruct (Nat.eqb_spec x t); [contradiction | exact Sx].
    + intros t' m0 x u E. rewrite EP; [exact E|]. intros ->. rewrite PI in E. discriminate E.
    + intros t' x V. left. unfold xvf in *. rewrite G. destruct (Nat.eqb_spec t' t) as [E|N]; [|exact V]. rewrite E in V. congruence.
  - intros x. destruct (Nat.eq_dec x t) as [->|N]; [exact Es0 | rewrite Es by exact N; apply H8].
Qed.

Lemma P_push_op w t o x : P (push_op w t o) x = P w x.
Proof.
  unfold P. destruct (Nat.eq_dec x t) as [->|N]; [apply xkr_push_op|]. unfold push_op. now rewrite get_set_t_other.
Qed.

Ltac xnorm :=
  unfold set_xpc, add_xret, set_xt, set_mw, set_cvq, set_xferred, xget; cbn [mw cvq xferred xthr];
  rewrite ?lupd_lupd.
Ltac xn Hx := xnorm; rewrite ?Hx; cbn [x_pc x_ops x_rets].

Lemma xbegin_hxw xw t : HXw xw -> HXw (xbegin xw t).
Proof.
  intros H0. unfold xbegin. cbv zeta.
  destruct (xget xw t) as [xp xo xr] eqn:Hx. cbn [x_pc x_ops x_rets].
  destruct xp; try exact H0. destruct xo as [|o rest]; try exact H0.
  destruct (mu_idle (mw xw) t) eqn:MI; try exact H0.
  assert (t < length (xthr xw))%nat as Ht by (apply xget_inb; rewrite Hx; discriminate).
  pose proof Hx as Hx'. unfold xget in Hx.
  destruct o as [o'|m| | |[m|]|m]; xn Hx; rewrite ?nth_lupd_same by exact Ht; cbn [x_pc x_ops x_rets];
    (apply HXw_local; [exact H0 | exact Ht | reflexivity | reflexivity | reflexivity | reflexivity | | | | | ]);
    rewrite ?Hx'; cbn [x_pc wph2 xs_pc xv_pc xo_pc]; try reflexivity; try discriminate;
    try (intros x; first [apply P_push_op | reflexivity]).
  all: destruct (held (get (mw xw) t)) as [m'|]; [destruct (mode_eqb m m')|]; cbn [wph2 xs_pc xv_pc xo_pc]; first [reflexivity | discriminate].
Qed.

(* ----- bits of the two words wake_waiters writes ----- *)
Lemma fb_wake_cas1 old k : 0 <= k < 32 ->
  Z.testbit (wake_waiters_cas1_new old) k = ((Z.testbit old k || Z.testbit 2 k) || Z.testbit 4 k) && negb (Z.testbit 128 k).
Proof. intros H. rewrite wake_cas1_new_eq. tbs. reflexivity. Qed.

Lemma fb_wake_cas2 old s c k : 0 <= k < 32 ->
  Z.testbit (wake_waiters_cas2_new old s c) k = (Z.testbit old k || Z.testbit s k) && negb (Z.testbit c k).
Proof. intros H. rewrite wake_cas2_new_eq. tbs. reflexivity. Qed.

Lemma SL_free x y : SL x y -> free y -> free x.
Proof. intros (_ & M & D) [F1 F2]. split; congruence. Qed.

Lemma anylock_not_free x : rng x -> has x MU_ANY_LOCK = true -> ~ free x.
Proof.
  intros R H [F1 F2]. unfold has, band in H. apply negb_true_iff, Z.eqb_neq in H. apply H.
  apply Z.bits_inj'. intros k Hk. rewrite Z.land_spec, Z.bits_0.
  destruct (Z_lt_ge_dec k 8) as [L|G].
  - destruct (Z.eq_dec k 0) as [->|N0].
    + rewrite bit0_mod2. replace (x mod 2 =? 1) with false by (symmetry; apply Z.eqb_neq; lia). reflexivity.
    + assert (k = 1 \/ k = 2 \/ k = 3 \/ k = 4 \/ k = 5 \/ k = 6 \/ k = 7) as D by lia.
      repeat (destruct D as [-> | D]; [apply andb_false_r|]). subst k. apply andb_false_r.
  - rewrite (free_high_bits x k R F2) by lia. reflexivity.
Qed.

Lemma set_all_keeps f l p : f p = true -> set_all f l true p = true.
Proof.
  intros H. destruct (in_dec Nat.eq_dec p l) as [I|NI]; [now apply set_all_in | now rewrite set_all_other].
Qed.

Lemma agent_pc_false_mono p : agent_pc p true = true -> forall b, agent_pc p b = true.
Proof. intros H [|]; [exact H | now apply agent_pc_mono]. Qed.

Section HandoffX2.
Variable n : nat.
Hypothesis Hn : Z.of_nat n < 16777215.

Ltac hloc H1 Ht Hx' :=
  apply HXw_local; [exact H1 | exact Ht | reflexivity | reflexivity | reflexivity | reflexivity | intros; reflexivity
                   | rewrite Hx'; cbn [x_pc wph2]; try reflexivity
                   | rewrite Hx'; cbn [x_pc xs_pc]; try (intros EE; discriminate EE)
                   | rewrite Hx'; cbn [x_pc xv_pc]; try reflexivity
                   | rewrite Hx'; cbn [x_pc xo_pc]; try reflexivity ].

Lemma xstep_thr_hxw xw0 t c : XInv n xw0 -> SInv xw0 -> PInv xw0 -> HXInv xw0 -> HXw (fst (xstep_thr xw0 t c)).
Proof.
  intros HI0 HS0 HP0 [H0 HX0].
  assert (forall t', xpcH (x_pc (xget (xbegin xw0 t) t'))) as HXb.
  { intros t'. unfold xbegin. cbv zeta. destruct (xget xw0 t) as [xp xo xr] eqn:Hx. cbn [x_pc x_ops x_rets].
    destruct xp; try apply HX0. destruct xo as [|o rest]; try apply HX0.
    destruct (mu_idle (mw xw0) t); try apply HX0.
    assert (t < length (xthr xw0))%nat as Ht by (apply xget_inb; rewrite Hx; discriminate).
    unfold xget in Hx. destruct o as [o'|m| | |[m|]|m]; xn Hx; rewrite ?nth_lupd_same by exact Ht; cbn [x_pc x_ops x_rets];
      (destruct (Nat.eq_dec t' t) as [->|N]; [rewrite nth_lupd_same by exact Ht | rewrite nth_lupd_other by exact N; apply HX0]);
      cbn [x_pc xpcH]; try exact I.
    all: destruct (held (get (mw xw0) t)) as [m'|]; [destruct (mode_eqb m m')|]; exact I. }
  pose proof (xbegin_hxw _ t H0) as H1. apply (xbegin_pinv _ t) in HP0. apply (xbegin_sinv _ t) in HS0.
  apply (xbegin_inv n Hn _ t) in HI0. clear H0 HX0.
  unfold xstep_thr. set (xw := xbegin xw0 t) in *. clearbody xw. clear xw0. cbv zeta.
  pose proof HI0 as (HI & HL & HT). destruct (HT t) as [Hp _].
  pose proof HP0 as (HM & HC & HF & HNH). pose proof HS0 as (HQ & HA & HXA). pose proof (HXA t) as HXAt. pose proof (HXb t) as HXHt.
  pose proof (HX_H7 _ _ _ _ _ H1) as [H7 H8].
  destruct (xget xw t) as [xp xo xr] eqn:Hx. cbn [x_pc x_ops x_rets] in *.
  assert (xp <> XIdle -> (t < length (xthr xw))%nat) as HtN.
  { intros NE. apply xget_inb. rewrite Hx. intros E. inversion E. contradiction. }
  assert (Hlen : length (thr (mw xw)) = length (xthr xw)) by (rewrite HL; apply HI).
  pose proof Hx as Hx'. unfold xget in Hx.
  destruct xp.
  - (* XIdle *) unfold mu_step. destruct (step (mw xw) t) as [m' e] eqn:E. cbn [fst]. xnorm.
    assert (m' = fst (step (mw xw) t)) as -> by now rewrite E.
    destruct (Nat.lt_ge_cases t (length (xthr xw))) as [Ht|Ht].
    + apply (HXw_mu0 n Hn); auto; rewrite Hx'; reflexivity.
    + assert (step (mw xw) t = (mw xw, EvNone)) as ->.
      { assert (length (thr (mw xw)) <= t)%nat as G by lia.
        unfold step, begin_op. cbv zeta. rewrite (get_oob _ _ G). cbn [t_pc t_ops dflt_t]. rewrite (get_oob _ _ G). reflexivity. }
      cbn [fst]. destruct xw; exact H1.
  - exact H1.
  - (* XwStore *) assert (t < length (xthr xw))%nat as Ht by (apply HtN; discriminate). cbn [fst]. xn Hx.
    change (negb (nsync_cv_wait_with_deadline_generic_store1_new =? 0)) with true.
    destruct Hp as [PI _].
    set (xs' := {| x_pc := XwLoadMu m; x_ops := xo; x_rets := xr |}).
    set (xw' := mk_xw (set_waiting (mw xw) t true) (cvq xw) (fupd (xferred xw) t false) (lupd (xthr xw) t xs')).
    assert (forall p, xget xw' p = if Nat.eqb p t then xs' else xget xw p) as G by (intros p; now apply xget_upd).
    apply HXw_sw; [exact H1 | exact Ht | reflexivity | apply incl_refl | intros; left; reflexivity
                  | rewrite Hx'; discriminate | | | | intros; apply H8]; fold xw'.
    + intros a Ha. unfold agentx in *. change (P (set_waiting (mw xw) t true) a) with (P (mw xw) a).
      cbn [waiting set_waiting]. destruct (Nat.eq_dec a t) as [->|N].
      * exfalso. destruct Ha as [A | [A _]]; [unfold P in A; rewrite PI in A; discriminate A|].
        unfold xaf in A. rewrite Hx' in A. discriminate A.
      * rewrite fupd_other by exact N. unfold xaf in *. rewrite G. cbn [xferred xw'].
        destruct (Nat.eqb_spec a t); [contradiction|]. now rewrite fupd_other.
    + intros x Ix Wx. cbn [waiting set_waiting] in Wx. destruct (Nat.eq_dec x t) as [->|N].
      * unfold kof in Ix. rewrite PI in Ix. discriminate Ix.
      * now rewrite fupd_other in Wx.
    + apply (H7_mono _ _ _ _ _ _ H7).
      * intros x Sx Wx. cbn [waiting set_waiting] in Wx. destruct (Nat.eq_dec x t) as [->|N].
        { rewrite fupd_same in Wx. discriminate Wx. }
        rewrite fupd_other in Wx by exact N. left. split; [|split; [exact Wx | cbn [sem set_waiting]; lia]].
        destruct Sx as [Sx | Sx]; [left; exact Sx | right]. unfold xsf in *. rewrite G in Sx.
        destruct (Nat.eqb_spec x t); [contradiction | exact Sx].
      * intros; assumption.
      * intros t' x V. left. unfold xvf in *. rewrite G. destruct (Nat.eqb_spec t' t) as [E|N]; [|exact V].
        rewrite E, Hx' in V. discriminate V.
  - (* XwLoadMu *) assert (t < length (xthr xw))%nat as Ht by (apply HtN; discriminate).
    destruct (has (word (mw xw)) MU_WHELD_IF_NON_ZERO), (has (word (mw xw)) MU_RHELD_IF_NON_ZERO); cbn [fst]; xn Hx;
      hloc H1 Ht Hx'.
  - (* XwEnq *) assert (t < length (xthr xw))%nat as Ht by (apply HtN; discriminate). destruct Hp as (PI & _).
    cbn [fst]. xn Hx.
    set (xs' := {| x_pc := XwUnlock l; x_ops := xo; x_rets := xr |}).
    set (m' := set_pc (mw xw) t (UlFast (w_lm l))).
    set (xw' := mk_xw m' (cvq xw ++ [t]) (xferred xw) (lupd (xthr xw) t xs')).
    assert (forall p, xget xw' p = if Nat.eqb p t then xs' else xget xw p) as G by (intros p; now apply xget_upd).
    assert (P m' t = UlFast (w_lm l)) as Pt' by (unfold P, m'; rewrite get_set_pc_same by (rewrite Hlen; exact Ht); reflexivity).
    assert (forall x, x <> t -> P m' x = P (mw xw) x) as Po' by (intros x N; unfold P, m'; now rewrite get_set_pc_other).
    destruct (HF t ltac:(rewrite Hx'; reflexivity)) as [Wt Xt].
    apply HXw_sw; [exact H1 | exact Ht | reflexivity | apply incl_refl | | rewrite Hx'; discriminate | | auto | | intros; apply H8]; fold xw'.
    + intros x. destruct (Nat.eq_dec x t) as [->|N]; [right; rewrite Pt'; split; [exact PI | exact I] | left; now apply Po'].
    + intros a Ha. unfold agentx in *. change (waiting m' a) with (waiting (mw xw) a). destruct (Nat.eq_dec a t) as [->|N].
      * exfalso. destruct Ha as [A | [A _]]; [unfold P in A; rewrite PI in A; discriminate A|].
        unfold xaf in A. rewrite Hx' in A. discriminate A.
      * rewrite Po' by exact N. unfold xaf in *. rewrite G. destruct (Nat.eqb_spec a t); [contradiction | exact Ha].
    + apply (H7_mono _ _ _ _ _ _ H7).
      * intros x Sx Wx. change (waiting m' x) with (waiting (mw xw) x) in Wx. change (sem m' x) with (sem (mw xw) x).
        destruct (Nat.eq_dec x t) as [->|N].
        { exfalso. rewrite Pt' in Sx. unfold xsf in Sx. rewrite G, Nat.eqb_refl in Sx. destruct Sx as [Sx | Sx]; discriminate Sx. }
        left. split; [|split; [exact Wx | lia]]. rewrite Po' in Sx by exact N.
        destruct Sx as [Sx | Sx]; [left; exact Sx | right]. unfold xsf in *. rewrite G in Sx.
        destruct (Nat.eqb_spec x t); [contradiction | exact Sx].
      * intros t' m0 x u E. rewrite Po'; [exact E|]. intros ->. unfold P in E. rewrite PI in E. discriminate E.
      * intros t' x V. left. unfold xvf in *. rewrite G. destruct (Nat.eqb_spec t' t) as [E|N]; [|exact V].
        rewrite E, Hx' in V. discriminate V.
  - (* XwUnlock *) assert (t < length (xthr xw))%nat as Ht by (apply HtN; discriminate).
    unfold mu_step. destruct (step (mw xw) t) as [m' e] eqn:E. xnorm.
    assert (m' = fst (step (mw xw) t)) as Em by now rewrite E.
    cbn [mw]. destruct (mu_pc_idle m' t); cbn [fst]; xn Hx; rewrite Em.
    + apply (HXw_mu n Hn); auto; rewrite ?Hx'; reflexivity.
    + apply (HXw_mu0 n Hn); auto; rewrite Hx'; reflexivity.
  - (* XwLoop *) assert (t < length (xthr xw))%nat as Ht by (apply HtN; discriminate). destruct Hp as (PI & _).
    destruct (waiting (mw xw) t) eqn:Wt; cbn [fst]; xn Hx.
    + destruct (w_so l); hloc H1 Ht Hx'. intros _. right. exact Wt.
    + set (xs' := {| x_pc := XwReacq l; x_ops := xo; x_rets := xr |}).
      set (pc' := if xferred xw t then LsLoad (w_lm l) (ls_desig (w_lm l)) else LkFast (w_lm l)).
      set (m' := set_pc (set_wtype (mw xw) t (w_lm l)) t pc').
      set (xw' := mk_xw m' (cvq xw) (xferred xw) (lupd (xthr xw) t xs')).
      assert (forall p, xget xw' p = if Nat.eqb p t then xs' else xget xw p) as G by (intros p; now apply xget_upd).
      assert (P m' t = pc') as Pt'.
      { unfold P, m'. rewrite get_set_pc_same by (cbn [thr set_wtype]; rewrite Hlen; exact Ht). reflexivity. }
      assert (forall x, x <> t -> P m' x = P (mw xw) x) as Po' by (intros x N; unfold P, m'; now rewrite get_set_pc_other).
      assert (entered pc') as En by (unfold pc'; destruct (xferred xw t); cbn [entered]; auto).
      apply HXw_sw; [exact H1 | exact Ht | reflexivity | apply incl_refl | | rewrite Hx'; discriminate | | auto | | intros; apply H8]; fold xw'.
      * intros x. destruct (Nat.eq_dec x t) as [->|N]; [right; rewrite Pt'; split; [exact PI | exact En] | left; now apply Po'].
      * intros a Ha. unfold agentx in *. change (waiting m' a) with (waiting (mw xw) a). destruct (Nat.eq_dec a t) as [->|N].
        -- left. destruct Ha as [A | [A _]]; [unfold P in A; rewrite PI in A; discriminate A|].
           unfold xaf in A. apply andb_prop in A. rewrite Pt'. unfold pc'. rewrite (proj2 A). reflexivity.
        -- rewrite Po' by exact N. unfold xaf in *. rewrite G. destruct (Nat.eqb_spec a t); [contradiction | exact Ha].
      * apply (H7_mono _ _ _ _ _ _ H7).
        -- intros x Sx Wx. change (waiting m' x) with (waiting (mw xw) x) in Wx. change (sem m' x) with (sem (mw xw) x).
           destruct (Nat.eq_dec x t) as [->|N].
           { exfalso. rewrite Pt' in Sx. unfold xsf in Sx. rewrite G, Nat.eqb_refl in Sx.
             destruct Sx as [Sx | Sx]; [|discriminate Sx]. destruct (entered_facts _ En) as (_ & _ & _ & _ & X & _). congruence. }
           left. split; [|split; [exact Wx | lia]]. rewrite Po' in Sx by exact N.
           destruct Sx as [Sx | Sx]; [left; exact Sx | right]. unfold xsf in *. rewrite G in Sx.
           destruct (Nat.eqb_spec x t); [contradiction | exact Sx].
        -- intros t' m0 x u E. rewrite Po'; [exact E|]. intros ->. unfold P in E. rewrite PI in E. discriminate E.
        -- intros t' x V. left. unfold xvf in *. rewrite G. destruct (Nat.eqb_spec t' t) as [E|N]; [|exact V].
           rewrite E, Hx' in V. discriminate V.
  - (* XwSem *) assert (t < length (xthr xw))%nat as Ht by (apply HtN; discriminate). destruct Hp as (PI & _).
    destruct c; [destruct (0 <? sem (mw xw) t) eqn:Es|]; cbn [fst]; try exact H1; xn Hx; [|hloc H1 Ht Hx'].
    set (xs' := {| x_pc := XwLoad13 l; x_ops := xo; x_rets := xr |}).
    set (m' := set_sem (mw xw) t (sem (mw xw) t - 1)).
    set (xw' := mk_xw m' (cvq xw) (xferred xw) (lupd (xthr xw) t xs')).
    assert (forall p, xget xw' p = if Nat.eqb p t then xs' else xget xw p) as G by (intros p; now apply xget_upd).
    apply Z.ltb_lt in Es.
    apply HXw_sw; [exact H1 | exact Ht | reflexivity | apply incl_refl | intros; left; reflexivity
                  | rewrite Hx'; discriminate | | auto | | ]; fold xw'.
    + intros a Ha. unfold agentx in *. change (P m' a) with (P (mw xw) a). change (waiting m' a) with (waiting (mw xw) a).
      destruct Ha as [A | [A B]]; [left; exact A | right; split; [|exact B]].
      unfold xaf in *. rewrite G. destruct (Nat.eqb_spec a t) as [E|N]; [|exact A]. rewrite E in *. rewrite Hx' in A. exact A.
    + apply (H7_mono _ _ _ _ _ _ H7).
      * intros x Sx Wx. change (waiting m' x) with (waiting (mw xw) x) in Wx. change (P m' x) with (P (mw xw) x) in Sx.
        destruct (Nat.eq_dec x t) as [->|N].
        { exfalso. unfold xsf in Sx. rewrite G, Nat.eqb_refl in Sx. unfold P in Sx. rewrite PI in Sx. destruct Sx as [Sx | Sx]; discriminate Sx. }
        left. split; [|split; [exact Wx | cbn [sem m' set_sem]; rewrite fupd_other by exact N; lia]].
        destruct Sx as [Sx | Sx]; [left; exact Sx | right]. unfold xsf in *. rewrite G in Sx.
        destruct (Nat.eqb_spec x t); [contradiction | exact Sx].
      * intros; assumption.
      * intros t' x V. left. unfold xvf in *. rewrite G. destruct (Nat.eqb_spec t' t) as [E|N]; [|exact V].
        rewrite E, Hx' in V. discriminate V.
    + intros x. cbn [sem m' set_sem]. unfold fupd. destruct (Nat.eqb x t); [lia | apply H8].
  - (* XwLoad6 *) assert (t < length (xthr xw))%nat as Ht by (apply HtN; discriminate).
    destruct (waiting (mw xw) t); cbn [fst]; xn Hx; hloc H1 Ht Hx'.
  - (* XwConfirm *) assert (t < length (xthr xw))%nat as Ht by (apply HtN; discriminate). destruct Hp as (PI & _).
    destruct (mem_id t (cvq xw)) eqn:Mi; cbn [fst]; xn Hx; [|hloc H1 Ht Hx'].
    change (negb (nsync_cv_wait_with_deadline_generic_store3_new =? 0)) with false.
    set (xs' := {| x_pc := XwLoad13 (wl_set_out l (w_so l)); x_ops := xo; x_rets := xr |}).
    set (m' := set_waiting (mw xw) t false).
    set (xw' := mk_xw m' (remove_id t (cvq xw)) (xferred xw) (lupd (xthr xw) t xs')).
    assert (forall p, xget xw' p = if Nat.eqb p t then xs' else xget xw p) as G by (intros p; now apply xget_upd).
    apply HXw_sw; [exact H1 | exact Ht | reflexivity | apply incl_refl | intros; left; reflexivity
                  | rewrite Hx'; discriminate | | | | intros; apply H8]; fold xw'.
    + intros a Ha. unfold agentx in *. change (P m' a) with (P (mw xw) a). cbn [waiting m' set_waiting].
      destruct (Nat.eq_dec a t) as [->|N].
      * right. rewrite fupd_same. split; [|reflexivity]. destruct Ha as [A | [A _]]; [unfold P in A; rewrite PI in A; discriminate A|].
        unfold xaf in *. rewrite G, Nat.eqb_refl. rewrite Hx' in A. exact A.
      * rewrite fupd_other by exact N. unfold xaf in *. rewrite G. destruct (Nat.eqb_spec a t); [contradiction | exact Ha].
    + intros x _ Wx. cbn [waiting m' set_waiting] in Wx. unfold fupd in Wx. destruct (Nat.eqb x t); [discriminate Wx | exact Wx].
    + apply (H7_mono _ _ _ _ _ _ H7).
      * intros x Sx Wx. change (P m' x) with (P (mw xw) x) in Sx. cbn [waiting m' set_waiting] in Wx.
        destruct (Nat.eq_dec x t) as [->|N].
        { exfalso. unfold xsf in Sx. rewrite G, Nat.eqb_refl in Sx. unfold P in Sx. rewrite PI in Sx. destruct Sx as [Sx | Sx]; discriminate Sx. }
        rewrite fupd_other in Wx by exact N. left. split; [|split; [exact Wx | cbn [sem m' set_waiting]; lia]].
        destruct Sx as [Sx | Sx]; [left; exact Sx | right]. unfold xsf in *. rewrite G in Sx.
        destruct (Nat.eqb_spec x t); [contradiction | exact Sx].
      * intros; assumption.
      * intros t' x V. left. unfold xvf in *. rewrite G. destruct (Nat.eqb_spec t' t) as [E|N]; [|exact V].
        rewrite E, Hx' in V. discriminate V.
  - (* XwLoad13 *) assert (t < length (xthr xw))%nat as Ht by (apply HtN; discriminate).
    cbn [fst]; xn Hx; hloc H1 Ht Hx'.
  - (* XwReacq *) assert (t < length (xthr xw))%nat as Ht by (apply HtN; discriminate).
    unfold mu_step. destruct (step (mw xw) t) as [m' e] eqn:E. xnorm.
    assert (m' = fst (step (mw xw) t)) as Em by now rewrite E.
    cbn [mw]. destruct (mu_pc_idle m' t); cbn [fst]; xn Hx.
    + rewrite nth_lupd_same by exact Ht. cbn [x_ops x_rets]. rewrite Em.
      apply (HXw_mu n Hn); auto; rewrite ?Hx'; reflexivity.
    + rewrite Em. apply (HXw_mu0 n Hn); auto; rewrite Hx'; reflexivity.
  - (* XkLoad *) assert (t < length (xthr xw))%nat as Ht by (apply HtN; discriminate).
    destruct c; [|destruct (cvq xw)]; cbn [fst]; try exact H1; xn Hx; hloc H1 Ht Hx'.
  - (* XkSelect *) assert (t < length (xthr xw))%nat as Ht by (apply HtN; discriminate).
    destruct (if bc then sel_broadcast (xrd xw) (cvq xw) else sel_signal (xrd xw) (cvq xw)) as [[wk kp] allr].
    destruct wk as [|f wk']; [|destruct (nrec xw f)]; cbn [fst]; xn Hx; hloc H1 Ht Hx'.
  - (* XvLoad1 *) assert (t < length (xthr xw))%nat as Ht by (apply HtN; discriminate).
    destruct (xfer_wanted (wtype (mw xw)) (word (mw xw)) k); cbn [fst]; xn Hx;
      [|unfold wake_loop; destruct (k_wake k) eqn:Ek]; hloc H1 Ht Hx'.
  - (* XvCas1 *) assert (t < length (xthr xw))%nat as Ht by (apply HtN; discriminate).
    unfold cas. destruct (wake_cas_old_eq old) as [-> _].
    destruct (Z.eqb_spec (word (mw xw)) old) as [Hc|Hc]; cbv beta iota.
    2:{ cbn [fst]. xn Hx. unfold wake_loop; destruct (k_wake k) eqn:Ek; hloc H1 Ht Hx'. }
    destruct (xfer (nrec xw) (wtype (mw xw)) (first_cant_acquire (wtype (mw xw)) old (k_wake k)) (k_wake k)) as [[moved stay] set_on].
    cbn [fst]. xn Hx. cbn [xpcH] in HXHt. apply proj1 in HXHt. subst old.
    match goal with |- HXw (mk_xw ?m ?q ?f (lupd _ _ ?x)) => set (m' := m); set (xs' := x); set (xw' := mk_xw m' q f (lupd (xthr xw) t xs')) end.
    assert (forall q, xget xw' q = if Nat.eqb q t then xs' else xget xw q) as G by (intros q; now apply xget_upd).
    pose proof H1 as (X1 & _).
    pose proof (Inv_rng _ _ HI) as Rw.
    unfold HXw. change (mw xw') with m'.
    apply (HX_frame (xaf xw) (xsf xw) (xvf xw) (xof xw) (mw xw)); [exact H1 | intros; left; reflexivity | | | | | | | | | | auto | | exact H8];
      cbn [word queue m' set_word set_queue]; rewrite ?fb_wake_cas1 by lia.
    + apply andb_false_r.
    + intros _. rewrite orb_true_r. reflexivity.
    + change (Z.testbit 2 6) with false. change (Z.testbit 4 6) with false. rewrite !orb_false_r.
      intros B. apply andb_true_iff in B. apply B.
    + change (Z.testbit 2 3) with false. change (Z.testbit 4 3) with false. rewrite !orb_false_r.
      intros B. apply andb_true_iff in B. apply B.
    + intros _ F. exfalso. apply (anylock_not_free _ Rw HXHt). apply (SL_free _ _ (wake_cas1_SL _ Rw) F).
    + intros _. right. exists t. unfold xof. rewrite G, Nat.eqb_refl. reflexivity.
    + change (Z.testbit 2 5) with false. change (Z.testbit 4 5) with false. rewrite !orb_false_r.
      intros B. apply andb_true_iff in B. left. apply B.
    + intros a Ha. unfold agentx in *. change (P m' a) with (P (mw xw) a). change (waiting m' a) with (waiting (mw xw) a).
      destruct Ha as [A | [A B]]; [left; exact A | right; split; [|exact B]].
      unfold xaf in *. rewrite G. cbn [xferred xw']. apply andb_prop in A. destruct A as [A1 A2].
      rewrite (set_all_keeps _ _ _ A2), andb_true_r.
      destruct (Nat.eqb_spec a t) as [E|N]; [|exact A1]. rewrite E in *. rewrite Hx' in A1. discriminate A1.
    + apply incl_appl, incl_refl.
    + apply (H7_mono _ _ _ _ _ _ H7).
      * intros x Sx Wx. left. split; [|split; [exact Wx | cbn [sem m' set_word set_queue]; lia]].
        destruct Sx as [Sx | Sx]; [left; exact Sx | right]. unfold xsf in *. rewrite G in Sx.
        destruct (Nat.eqb_spec x t) as [E|N]; [discriminate Sx | exact Sx].
      * intros; assumption.
      * intros t' x V. left. unfold xvf in *. rewrite G. destruct (Nat.eqb_spec t' t) as [E|N]; [|exact V].
        rewrite E, Hx' in V. discriminate V.
  - (* XvLoad3 *) assert (t < length (xthr xw))%nat as Ht by (apply HtN; discriminate).
    cbn [fst]; xn Hx; hloc H1 Ht Hx'.
  - (* XvCas2 *) assert (t < length (xthr xw))%nat as Ht by (apply HtN; discriminate). destruct Hp as (PI & Sm1 & Sm2).
    unfold cas. destruct (wake_cas_old_eq old) as [_ ->].
    destruct (Z.eqb_spec (word (mw xw)) old) as [Hc|Hc]; cbv beta iota; cbn [fst]; xn Hx; [|hloc H1 Ht Hx'].
    cbn [xpcA] in HXAt. destruct HXAt as (Hs & Hcl & Hsc). subst old.
    set (xs' := {| x_pc := wake_loop k; x_ops := xo; x_rets := xr |}).
    set (m' := set_word (mw xw) (wake_waiters_cas2_new (word (mw xw)) (k_set k) (k_clr k))).
    set (xw' := mk_xw m' (cvq xw) (xferred xw) (lupd (xthr xw) t xs')).
    assert (forall q, xget xw' q = if Nat.eqb q t then xs' else xget xw q) as G by (intros q; now apply xget_upd).
    assert (wph2 (wake_loop k) = false /\ xs_pc (wake_loop k) = false /\ xv_pc (wake_loop k) = None /\ xo_pc (wake_loop k) = false) as (WL1 & WL2 & WL3 & WL4)
      by (unfold wake_loop; destruct (k_wake k); auto).
    assert (xk xw t = Rrel [] (tb2 (k_clr k))) as Kt by (unfold xk; rewrite Hx'; reflexivity).
    pose proof HQ as (_ & QB2 & C & _ & Q5 & _). specialize (C t (tb2 (k_clr k)) ltac:(rewrite Kt; reflexivity)). unfold tb2 in C.
    pose proof H1 as (X1 & X2 & _ & _ & _ & _ & _ & _ & _ & _ & X11).
    assert (Z.testbit (k_set k) 7 = false /\ Z.testbit (k_set k) 6 = false /\ Z.testbit (k_set k) 3 = false /\
            Z.testbit (k_set k) 2 = false /\ Z.testbit (k_set k) 1 = false) as (S7 & S6 & S3 & S2 & S1)
      by (destruct Hs as [-> | ->]; repeat split; reflexivity).
    assert (Z.testbit (k_clr k) 1 = true /\ Z.testbit (k_clr k) 5 = false) as (K1 & K5)
      by (destruct Hcl as [-> | ->]; split; reflexivity).
    assert (Z.testbit (word (mw xw)) 5 = true -> queue (mw xw) <> []) as B5q.
    { intros B. destruct (X11 B) as [Q | [o Ho]]; [exact Q | exfalso].
      pose proof (xk_kof n xw o HI0 Ho) as Ko. assert (o = t) as -> by (apply QB2; [rewrite Ko; exact Ho | rewrite Kt; reflexivity]).
      unfold kof in Ho. rewrite PI in Ho. discriminate Ho. }
    unfold HXw. change (mw xw') with m'.
    apply (HX_frame (xaf xw) (xsf xw) (xvf xw) (xof xw) (mw xw)); [exact H1 | intros; left; reflexivity | | | | | | | | | apply incl_refl | auto | | exact H8];
      cbn [word m' set_word]; rewrite ?fb_wake_cas2 by lia.
    + rewrite X1, S7. reflexivity.
    + intros B. apply andb_true_iff in B. destruct B as [B _]. rewrite S2, orb_false_r.
      destruct (Z.testbit (k_clr k) 2) eqn:E2.
      * exfalso. apply orb_true_iff in B. destruct B as [B | B].
        -- apply (B5q B). apply C. reflexivity.
        -- destruct Hs as [E | E]; [rewrite E in B; discriminate B|]. rewrite (Hsc E) in E2. discriminate E2.
      * rewrite andb_true_r. apply Q5. intros Eq0. apply C in Eq0. discriminate Eq0.
    + rewrite S6, orb_false_r. intros B. apply andb_true_iff in B. apply B.
    + rewrite S3, orb_false_r. intros B. apply andb_true_iff in B. apply B.
    + rewrite S2, orb_false_r. intros B F. apply andb_true_iff in B. split; [apply B|].
      apply (SL_free _ _ (wake_cas2_SL _ _ _ (Inv_rng _ _ HI) Sm1 Sm2) F).
    + rewrite K1, andb_false_r. discriminate.
    + intros B. apply andb_true_iff in B. destruct B as [B _]. apply orb_true_iff in B. destruct B as [B | B]; [left; exact B | right].
      destruct Hs as [E | E]; [rewrite E in B; discriminate B|]. intros Eq0. apply C in Eq0. rewrite (Hsc E) in Eq0. discriminate Eq0.
    + intros a Ha. unfold agentx in *. change (P m' a) with (P (mw xw) a). change (waiting m' a) with (waiting (mw xw) a).
      destruct Ha as [A | [A B]]; [left; exact A | right; split; [|exact B]].
      unfold xaf in *. rewrite G. destruct (Nat.eqb_spec a t) as [E|N]; [|exact A]. rewrite E in *. rewrite Hx' in A. discriminate A.
    + apply (H7_mono _ _ _ _ _ _ H7).
      * intros x Sx Wx. left. split; [|split; [exact Wx | cbn [sem m' set_word]; lia]].
        destruct Sx as [Sx | Sx]; [left; exact Sx | right]. unfold xsf in *. rewrite G in Sx.
        destruct (Nat.eqb_spec x t) as [E|N]; [cbn [x_pc xs'] in Sx; congruence | exact Sx].
      * intros; assumption.
      * intros t' x V. left. unfold xvf in *. rewrite G. destruct (Nat.eqb_spec t' t) as [E|N]; [|exact V].
        rewrite E, Hx' in V. discriminate V.
  - (* XvLoad5 *) assert (t < length (xthr xw))%nat as Ht by (apply HtN; discriminate).
    cbn [fst]; xn Hx; hloc H1 Ht Hx'.
  - (* XvStore *) assert (t < length (xthr xw))%nat as Ht by (apply HtN; discriminate).
    destruct (k_wake k) as [|p rest] eqn:Ek; cbn [fst]; xn Hx; [hloc H1 Ht Hx'|].
    change (negb (wake_waiters_store1_new =? 0)) with false.
    set (xs' := {| x_pc := XvV (mk_kl rest (k_allr k) (k_set k) (k_clr k)) p; x_ops := xo; x_rets := xr |}).
    set (m' := set_waiting (mw xw) p false).
    set (xw' := mk_xw m' (cvq xw) (xferred xw) (lupd (xthr xw) t xs')).
    assert (forall q, xget xw' q = if Nat.eqb q t then xs' else xget xw q) as G by (intros q; now apply xget_upd).
    apply HXw_sw; [exact H1 | exact Ht | reflexivity | apply incl_refl | intros; left; reflexivity
                  | rewrite Hx'; discriminate | | | | intros; apply H8]; fold xw'.
    + intros a Ha. unfold agentx in *. change (P m' a) with (P (mw xw) a). cbn [waiting m' set_waiting].
      assert (xaf xw' a = xaf xw a) as XA.
      { unfold xaf. rewrite G. destruct (Nat.eqb_spec a t) as [E|N]; [|reflexivity]. rewrite E, Hx'. reflexivity. }
      rewrite XA. destruct Ha as [A | [A B]].
      * left. unfold fupd. destruct (Nat.eqb a p); [|exact A].
        destruct (waiting (mw xw) a); [now apply agent_pc_mono | exact A].
      * right. split; [exact A|]. unfold fupd. destruct (Nat.eqb a p); [reflexivity | exact B].
    + intros x _ Wx. cbn [waiting m' set_waiting] in Wx. unfold fupd in Wx. destruct (Nat.eqb x p); [discriminate Wx | exact Wx].
    + apply (H7_mono _ _ _ _ _ _ H7).
      * intros x Sx Wx. change (P m' x) with (P (mw xw) x) in Sx. cbn [waiting m' set_waiting] in Wx.
        destruct (Nat.eq_dec x p) as [->|N].
        { right; right. exists t. unfold xvf. rewrite G, Nat.eqb_refl. reflexivity. }
        rewrite fupd_other in Wx by exact N. left. split; [|split; [exact Wx | cbn [sem m' set_waiting]; lia]].
        destruct Sx as [Sx | Sx]; [left; exact Sx | right]. unfold xsf in *. rewrite G in Sx.
        destruct (Nat.eqb_spec x t) as [E|Nt]; [discriminate Sx | exact Sx].
      * intros; assumption.
      * intros t' x V. left. unfold xvf in *. rewrite G. destruct (Nat.eqb_spec t' t) as [E|N]; [|exact V].
        rewrite E, Hx' in V. discriminate V.
  - (* XvV *) assert (t < length (xthr xw))%nat as Ht by (apply HtN; discriminate).
    cbn [fst]; xn Hx.
    set (xs' := {| x_pc := wake_loop k; x_ops := xo; x_rets := xr |}).
    set (m' := set_sem (mw xw) p (sem (mw xw) p + 1)).
    set (xw' := mk_xw m' (cvq xw) (xferred xw) (lupd (xthr xw) t xs')).
    assert (forall q, xget xw' q = if Nat.eqb q t then xs' else xget xw q) as G by (intros q; now apply xget_upd).
    assert (wph2 (wake_loop k) = false /\ xs_pc (wake_loop k) = false /\ xv_pc (wake_loop k) = None /\ xo_pc (wake_loop k) = false) as (WL1 & WL2 & WL3 & WL4)
      by (unfold wake_loop; destruct (k_wake k); auto).
    assert (forall x, sem (mw xw) x <= sem m' x) as SM.
    { intros x. cbn [sem m' set_sem]. unfold fupd. destruct (Nat.eqb_spec x p) as [->|]; lia. }
    apply HXw_sw; [exact H1 | exact Ht | reflexivity | apply incl_refl | intros; left; reflexivity
                  | rewrite Hx'; discriminate | | auto | | ]; fold xw'.
    + intros a Ha. unfold agentx in *. change (P m' a) with (P (mw xw) a). change (waiting m' a) with (waiting (mw xw) a).
      destruct Ha as [A | [A B]]; [left; exact A | right; split; [|exact B]].
      unfold xaf in *. rewrite G. destruct (Nat.eqb_spec a t) as [E|N]; [|exact A]. rewrite E in *. rewrite Hx' in A. discriminate A.
    + apply (H7_mono _ _ _ _ _ _ H7).
      * intros x Sx Wx. change (waiting m' x) with (waiting (mw xw) x) in Wx. change (P m' x) with (P (mw xw) x) in Sx.
        left. split; [|split; [exact Wx | apply SM]].
        destruct Sx as [Sx | Sx]; [left; exact Sx | right]. unfold xsf in *. rewrite G in Sx.
        destruct (Nat.eqb_spec x t) as [E|N]; [cbn [x_pc xs'] in Sx; congruence | exact Sx].
      * intros; assumption.
      * intros t' x V. unfold xvf in *. rewrite G. destruct (Nat.eqb_spec t' t) as [E|N]; [|left; exact V].
        rewrite E, Hx' in V. cbn [x_pc xv_pc] in V. injection V as <-. right.
        cbn [sem m' set_sem]. rewrite fupd_same. specialize (H8 p). lia.
    + intros x. specialize (SM x). specialize (H8 x). lia.
  - (* XnStore0 *) assert (t < length (xthr xw))%nat as Ht by (apply HtN; discriminate). destruct Hp as (PI & _).
    cbn [fst]. xn Hx.
    apply HXw_own; try (rewrite Hx'; reflexivity); try reflexivity; try exact (H8 t); auto.
    + intros x N. cbn [waiting set_waiting]. now apply fupd_other.
  - (* XnEnq *) assert (t < length (xthr xw))%nat as Ht by (apply HtN; discriminate). destruct Hp as (PI & _).
    destruct om as [m|]; cbn [fst]; xn Hx; (apply HXw_own; try (rewrite Hx'; reflexivity); try reflexivity; try exact (H8 t); auto).
    + intros x N. cbn [waiting set_waiting set_pc set_t]. now apply fupd_other.
    + intros x N. unfold P. now rewrite get_set_pc_other.
    + right. unfold P. rewrite get_set_pc_same by (cbn [thr set_waiting]; rewrite Hlen; exact Ht). exact I.
    + intros x N. cbn [waiting set_waiting]. now apply fupd_other.
  - (* XnUnlock *) assert (t < length (xthr xw))%nat as Ht by (apply HtN; discriminate).
    unfold mu_step. destruct (step (mw xw) t) as [m' e] eqn:E. xnorm.
    assert (m' = fst (step (mw xw) t)) as Em by now rewrite E.
    cbn [mw]. destruct (mu_pc_idle m' t); cbn [fst]; xn Hx; rewrite Em.
    + apply (HXw_mu n Hn); auto; rewrite ?Hx'; reflexivity.
    + apply (HXw_mu0 n Hn); auto; rewrite Hx'; reflexivity.
  - (* XnReady *) assert (t < length (xthr xw))%nat as Ht by (apply HtN; discriminate).
    destruct (cv_ready_time_load1_guard (b2z (waiting (mw xw) t))); cbn [fst]; xn Hx; hloc H1 Ht Hx'.
  - (* XnSem *) assert (t < length (xthr xw))%nat as Ht by (apply HtN; discriminate). destruct Hp as (PI & _).
    destruct c; [destruct (0 <? sem (mw xw) t) eqn:Es|]; cbn [fst]; try exact H1; xn Hx; [|hloc H1 Ht Hx'].
    apply Z.ltb_lt in Es.
    apply HXw_own; try (rewrite Hx'; reflexivity); try reflexivity; try exact (H8 t); auto.
    + intros x N. cbn [sem set_sem]. now apply fupd_other.
    + cbn [sem set_sem]. rewrite fupd_same. lia.
  - (* XnDeq *) assert (t < length (xthr xw))%nat as Ht by (apply HtN; discriminate). destruct Hp as (PI & _).
    destruct (waiting (mw xw) t && cv_dequeue_store1_guard (b2z (mem_id t (cvq xw)))); [destruct om as [m|]|]; cbn [fst]; xn Hx;
      [| |hloc H1 Ht Hx'].
    + apply HXw_own; try (rewrite Hx'; reflexivity); try reflexivity; try exact (H8 t); auto.
      * intros x N. cbn [waiting set_waiting set_pc set_t]. now apply fupd_other.
      * intros x N. unfold P. now rewrite get_set_pc_other.
      * right. unfold P. rewrite get_set_pc_same by (cbn [thr set_waiting]; rewrite Hlen; exact Ht). exact I.
    + apply HXw_own; try (rewrite Hx'; reflexivity); try reflexivity; try exact (H8 t); auto.
      intros x N. cbn [waiting set_waiting]. now apply fupd_other.
  - (* XnSpin *) assert (t < length (xthr xw))%nat as Ht by (apply HtN; discriminate). destruct Hp as (PI & _).
    destruct (waiting (mw xw) t); [|destruct om as [m|]]; cbn [fst]; try exact H1; xn Hx; [|hloc H1 Ht Hx'].
    apply HXw_own; try (rewrite Hx'; reflexivity); try reflexivity; try exact (H8 t); auto.
    + intros x N. unfold P. now rewrite get_set_pc_other.
    + right. unfold P. rewrite get_set_pc_same by (rewrite Hlen; exact Ht). exact I.
  - (* XnReacq *) assert (t < length (xthr xw))%nat as Ht by (apply HtN; discriminate).
    unfold mu_step. destruct (step (mw xw) t) as [m' e] eqn:E. xnorm.
    assert (m' = fst (step (mw xw) t)) as Em by now rewrite E.
    cbn [mw]. destruct (mu_pc_idle m' t); cbn [fst]; xn Hx.
    + rewrite nth_lupd_same by exact Ht. cbn [x_ops x_rets]. rewrite Em.
      apply (HXw_mu n Hn); auto; rewrite ?Hx'; reflexivity.
    + rewrite Em. apply (HXw_mu0 n Hn); auto; rewrite Hx'; reflexivity.
  - (* XgStore *) assert (t < length (xthr xw))%nat as Ht by (apply HtN; discriminate). cbn [fst]. xn Hx.
    change (negb (nsync_cv_wait_with_deadline_generic_store1_new =? 0)) with true.
    destruct Hp as [PI _].
    set (xs' := {| x_pc := XwEnq (mk_xwl m m false false true); x_ops := xo; x_rets := xr |}).
    set (xw' := mk_xw (set_waiting (mw xw) t true) (cvq xw) (fupd (xferred xw) t false) (lupd (xthr xw) t xs')).
    assert (forall p, xget xw' p = if Nat.eqb p t then xs' else xget xw p) as G by (intros p; now apply xget_upd).
    apply HXw_sw; [exact H1 | exact Ht | reflexivity | apply incl_refl | intros; left; reflexivity
                  | rewrite Hx'; discriminate | | | | intros; apply H8]; fold xw'.
    + intros a Ha. unfold agentx in *. change (P (set_waiting (mw xw) t true) a) with (P (mw xw) a).
      cbn [waiting set_waiting]. destruct (Nat.eq_dec a t) as [->|N].
      * exfalso. destruct Ha as [A | [A _]]; [unfold P in A; rewrite PI in A; discriminate A|].
        unfold xaf in A. rewrite Hx' in A. discriminate A.
      * rewrite fupd_other by exact N. unfold xaf in *. rewrite G. cbn [xferred xw'].
        destruct (Nat.eqb_spec a t); [contradiction|]. now rewrite fupd_other.
    + intros x Ix Wx. cbn [waiting set_waiting] in Wx. destruct (Nat.eq_dec x t) as [->|N].
      * unfold kof in Ix. rewrite PI in Ix. discriminate Ix.
      * now rewrite fupd_other in Wx.
    + apply (H7_mono _ _ _ _ _ _ H7).
      * intros x Sx Wx. cbn [waiting set_waiting] in Wx. destruct (Nat.eq_dec x t) as [->|N].
        { rewrite fupd_same in Wx. discriminate Wx. }
        rewrite fupd_other in Wx by exact N. left. split; [|split; [exact Wx | cbn [sem set_waiting]; lia]].
        destruct Sx as [Sx | Sx]; [left; exact Sx | right]. unfold xsf in *. rewrite G in Sx.
        destruct (Nat.eqb_spec x t); [contradiction | exact Sx].
      * intros; assumption.
      * intros t' x V. left. unfold xvf in *. rewrite G. destruct (Nat.eqb_spec t' t) as [E|N]; [|exact V].
        rewrite E, Hx' in V. discriminate V.
Qed.
End HandoffX2.

Lemma xbegin_xpch xw0 t : (forall t', xpcH (x_pc (xget xw0 t'))) -> forall t', xpcH (x_pc (xget (xbegin xw0 t) t')).
Proof.
  intros HX0 t'. unfold xbegin. cbv zeta. destruct (xget xw0 t) as [xp xo xr] eqn:Hx. cbn [x_pc x_ops x_rets].
  destruct xp; try apply HX0. destruct xo as [|o rest]; try apply HX0.
  destruct (mu_idle (mw xw0) t); try apply HX0.
  assert (t < length (xthr xw0))%nat as Ht by (apply xget_inb; rewrite Hx; discriminate).
  unfold xget in Hx. destruct o as [o'|m| | |[m|]|m]; xn Hx; rewrite ?nth_lupd_same by exact Ht; cbn [x_pc x_ops x_rets];
    (destruct (Nat.eq_dec t' t) as [->|N]; [rewrite nth_lupd_same by exact Ht | rewrite nth_lupd_other by exact N; apply HX0]);
    cbn [x_pc xpcH]; try exact I.
  all: destruct (held (get (mw xw0) t)) as [m'|]; [destruct (mode_eqb m m')|]; exact I.
Qed.

Lemma xstep_thr_xpch xw0 t c : (forall t', xpcH (x_pc (xget xw0 t'))) ->
  forall t', xpcH (x_pc (xget (fst (xstep_thr xw0 t c)) t')).
Proof.
  intros HX0. pose proof (xbegin_xpch _ t HX0) as HXb. clear HX0.
  unfold xstep_thr. set (xw := xbegin xw0 t) in *. clearbody xw. clear xw0. cbv zeta.
  destruct (xget xw t) as [xp xo xr] eqn:Hx. cbn [x_pc x_ops x_rets] in *.
  assert (xp <> XIdle -> (t < length (xthr xw))%nat) as HtN.
  { intros NE. apply xget_inb. rewrite Hx. intros E. inversion E. contradiction. }
  unfold xget in Hx. intros t'.
  Local Ltac finh HXb Ht :=
    first [ apply HXb
          | unfold xget; cbn [xthr];
            match goal with |- xpcH (x_pc (nth ?a (lupd _ ?b _) _)) =>
              destruct (Nat.eq_dec a b) as [->|N];
              [rewrite nth_lupd_same by exact Ht; cbn [x_pc xpcH]; try exact I | rewrite nth_lupd_other by exact N; apply HXb] end ].
  destruct xp.
  - unfold mu_step. destruct (step (mw xw) t) as [m' e]. cbn [fst]. xnorm. apply HXb.
  - apply HXb.
  - assert (t < length (xthr xw))%nat as Ht by (apply HtN; discriminate). cbn [fst]. xn Hx. finh HXb Ht.
  - assert (t < length (xthr xw))%nat as Ht by (apply HtN; discriminate).
    destruct (has (word (mw xw)) MU_WHELD_IF_NON_ZERO), (has (word (mw xw)) MU_RHELD_IF_NON_ZERO); cbn [fst]; xn Hx; finh HXb Ht.
  - assert (t < length (xthr xw))%nat as Ht by (apply HtN; discriminate). cbn [fst]. xn Hx. finh HXb Ht.
  - assert (t < length (xthr xw))%nat as Ht by (apply HtN; discriminate).
    unfold mu_step. destruct (step (mw xw) t) as [m' e]. xnorm. cbn [mw].
    destruct (mu_pc_idle m' t); cbn [fst]; xn Hx; finh HXb Ht.
  - assert (t < length (xthr xw))%nat as Ht by (apply HtN; discriminate).
    destruct (waiting (mw xw) t); cbn [fst]; xn Hx; [destruct (w_so l)|]; finh HXb Ht.
  - assert (t < length (xthr xw))%nat as Ht by (apply HtN; discriminate).
    destruct c; [destruct (0 <? sem (mw xw) t)|]; cbn [fst]; xn Hx; finh HXb Ht.
  - assert (t < length (xthr xw))%nat as Ht by (apply HtN; discriminate).
    destruct (waiting (mw xw) t); cbn [fst]; xn Hx; finh HXb Ht.
  - assert (t < length (xthr xw))%nat as Ht by (apply HtN; discriminate).
    destruct (mem_id t (cvq xw)); cbn [fst]; xn Hx; finh HXb Ht.
  - assert (t < length (xthr xw))%nat as Ht by (apply HtN; discriminate). cbn [fst]. xn Hx. finh HXb Ht.
  - assert (t < length (xthr xw))%nat as Ht by (apply HtN; discriminate).
    unfold mu_step. destruct (step (mw xw) t) as [m' e]. xnorm. cbn [mw].
    destruct (mu_pc_idle m' t); cbn [fst]; xn Hx; rewrite ?lupd_lupd; finh HXb Ht.
  - assert (t < length (xthr xw))%nat as Ht by (apply HtN; discriminate).
    destruct c; [|destruct (cvq xw)]; cbn [fst]; xn Hx; finh HXb Ht.
  - assert (t < length (xthr xw))%nat as Ht by (apply HtN; discriminate).
    destruct (if bc then sel_broadcast (xrd xw) (cvq xw) else sel_signal (xrd xw) (cvq xw)) as [[wk kp] allr].
    destruct wk as [|f wk']; [|destruct (nrec xw f)]; cbn [fst]; xn Hx; finh HXb Ht.
    cbn [k_wake]. discriminate.
  - assert (t < length (xthr xw))%nat as Ht by (apply HtN; discriminate).
    destruct (xfer_wanted (wtype (mw xw)) (word (mw xw)) k) eqn:XW; cbn [fst]; xn Hx;
      [|unfold wake_loop; destruct (k_wake k)]; finh HXb Ht.
    unfold xfer_wanted in XW. apply andb_prop in XW. destruct XW as [XW XW2]. apply andb_prop in XW. split; [apply XW|].
    intros E. rewrite E in XW2. cbn [first_cant_acquire orb andb] in XW2. discriminate XW2.
  - assert (t < length (xthr xw))%nat as Ht by (apply HtN; discriminate).
    unfold cas. destruct (word (mw xw) =? wake_waiters_cas1_old old); cbv beta iota.
    + destruct (xfer (nrec xw) (wtype (mw xw)) (first_cant_acquire (wtype (mw xw)) old (k_wake k)) (k_wake k)) as [[moved stay] set_on].
      cbn [fst]. xn Hx. finh HXb Ht.
    + cbn [fst]. xn Hx. unfold wake_loop; destruct (k_wake k); finh HXb Ht.
  - assert (t < length (xthr xw))%nat as Ht by (apply HtN; discriminate). cbn [fst]. xn Hx. finh HXb Ht.
  - assert (t < length (xthr xw))%nat as Ht by (apply HtN; discriminate).
    unfold cas. destruct (word (mw xw) =? wake_waiters_cas2_old old); cbv beta iota; cbn [fst]; xn Hx;
      [unfold wake_loop; destruct (k_wake k)|]; finh HXb Ht.
  - assert (t < length (xthr xw))%nat as Ht by (apply HtN; discriminate). cbn [fst]. xn Hx. finh HXb Ht.
  - assert (t < length (xthr xw))%nat as Ht by (apply HtN; discriminate).
    destruct (k_wake k) as [|p rest]; cbn [fst]; xn Hx; finh HXb Ht.
  - assert (t < length (xthr xw))%nat as Ht by (apply HtN; discriminate).
    cbn [fst]; xn Hx; unfold wake_loop; destruct (k_wake k); finh HXb Ht.
  - assert (t < length (xthr xw))%nat as Ht by (apply HtN; discriminate). cbn [fst]. xn Hx. finh HXb Ht.
  - assert (t < length (xthr xw))%nat as Ht by (apply HtN; discriminate).
    destruct om as [m|]; cbn [fst]; xn Hx; finh HXb Ht.
  - assert (t < length (xthr xw))%nat as Ht by (apply HtN; discriminate).
    unfold mu_step. destruct (step (mw xw) t) as [m' e]. xnorm. cbn [mw].
    destruct (mu_pc_idle m' t); cbn [fst]; xn Hx; finh HXb Ht.
  - assert (t < length (xthr xw))%nat as Ht by (apply HtN; discriminate).
    destruct (cv_ready_time_load1_guard (b2z (waiting (mw xw) t))); cbn [fst]; xn Hx; finh HXb Ht.
  - assert (t < length (xthr xw))%nat as Ht by (apply HtN; discriminate).
    destruct c; [destruct (0 <? sem (mw xw) t)|]; cbn [fst]; xn Hx; finh HXb Ht.
  - assert (t < length (xthr xw))%nat as Ht by (apply HtN; discriminate).
    destruct (waiting (mw xw) t && cv_dequeue_store1_guard (b2z (mem_id t (cvq xw)))); [destruct om as [m|]|]; cbn [fst]; xn Hx; finh HXb Ht.
  - assert (t < length (xthr xw))%nat as Ht by (apply HtN; discriminate).
    destruct (waiting (mw xw) t); [|destruct om as [m|]]; cbn [fst]; xn Hx; finh HXb Ht.
  - assert (t < length (xthr xw))%nat as Ht by (apply HtN; discriminate).
    unfold mu_step. destruct (step (mw xw) t) as [m' e]. xnorm. cbn [mw].
    destruct (mu_pc_idle m' t); cbn [fst]; xn Hx; rewrite ?lupd_lupd; finh HXb Ht.
  - assert (t < length (xthr xw))%nat as Ht by (apply HtN; discriminate). cbn [fst]. xn Hx. finh HXb Ht.
Qed.

(* ----- all the invariants of the wrapper together ----- *)
Section RunAll.
Variable n : nat.
Hypothesis Hn : Z.of_nat n < 16777215.

Definition AllInv (xw : xworld) : Prop := XInv n xw /\ SInv xw /\ PInv xw /\ TInv xw /\ HXInv xw.

Lemma xstep_all xw a : AllInv xw -> AllInv (fst (xstep xw a)).
Proof.
  intros (HI & HS & HP & HT & HH).
  split; [apply (xstep_inv n Hn), HI|]. split; [apply (xstep_sinv n Hn); assumption|].
  split; [apply (xstep_pinv n Hn); assumption|]. split; [apply (xstep_tinv n Hn); assumption|].
  destruct a as [t c|p].
  - cbn [xstep]. split; [apply (xstep_thr_hxw n Hn); assumption | apply xstep_thr_xpch, HH].
  - destruct HH as [H1 HX]. split; [|exact HX]. cbn [xstep fst]. unfold HXw, set_mw. cbn [mw].
    pose proof (HX_H7 _ _ _ _ _ H1) as [H7 H8]. pose proof H1 as (X1 & X2 & _).
    apply (HX_frame (xaf xw) (xsf xw) (xvf xw) (xof xw) (mw xw)); auto.
    + apply incl_refl.
    + apply (H7_mono _ _ _ _ _ _ H7).
      * intros x Sx Wx. left. split; [exact Sx | split; [exact Wx|]].
        cbn [sem set_sem]. unfold fupd. destruct (Nat.eqb_spec x p) as [E|E]; [rewrite E|]; lia.
      * intros; assumption.
      * intros; left; assumption.
    + intros x. cbn [sem set_sem]. unfold fupd. pose proof (H8 x). pose proof (H8 p). destruct (Nat.eqb x p); lia.
Qed.

Lemma xrun_all sched : forall xw, AllInv xw -> AllInv (xrun xw sched).
Proof.
  unfold xrun. induction sched as [|a rest IH]; intros xw H; cbn [fold_left]; [exact H|]. apply IH, xstep_all, H.
Qed.
End RunAll.

Lemma xinit_hxinv progs : HXInv (xinit progs).
Proof.
  destruct (xinit_pcs progs) as [PX PM].
  assert (forall x, P (mw (xinit progs)) x = Idle) as PI by (intros x; apply PM).
  split; [|intros t; rewrite PX; exact I].
  unfold HXw, HX. change (word (mw (xinit progs))) with 0. rewrite !Z.bits_0.
  split; [reflexivity|]. split; [discriminate|]. split; [discriminate|]. split; [discriminate|].
  split; [discriminate|]. split; [|split; [|split; [|split; [|split]]]].
  - intros x Ix. rewrite kofP, PI in Ix. discriminate Ix.
  - intros x [Sx | Sx]; [rewrite PI in Sx; discriminate Sx | unfold xsf in Sx; rewrite PX in Sx; discriminate Sx].
  - intros x. cbn. lia.
  - intros x. rewrite PI. split; exact I.
  - discriminate.
  - discriminate.
Qed.

Lemma xreachable_all progs sched : Z.of_nat (length progs) < 2 ^ 24 - 1 ->
  AllInv (length progs) (xrun (xinit progs) sched).
Proof.
  intros H. apply (xrun_all (length progs) H).
  split; [apply xinit_inv|]. split; [apply xinit_sinv|]. split; [apply xinit_pinv|]. split; [apply xinit_tinv | apply xinit_hxinv].
Qed.

(* ================================================================== *)
(* Part B: quiescent worlds, and all worlds                            *)
(* ================================================================== *)
Lemma step_started_not_blocked w t : started (P (begin_op w t) t) \/ P (begin_op w t) t = Idle ->
  snd (step w t) <> EvBlocked.
Proof.
  unfold step, P. cbv zeta. intros H.
  destruct (t_pc (get (begin_op w t) t)); cbn [started] in H; try (destruct H as [H | H]; [contradiction | discriminate H]);
    unfold cas; brk; cbn [snd]; discriminate.
Qed.

Lemma push_step_not_blocked w t o : mu_idle w t = true -> snd (step (push_op w t o) t) <> EvBlocked.
Proof.
  intros MI. apply step_started_not_blocked.
  destruct (begin_op_cases (push_op w t o) t) as [E | [_ S]]; [right | left; exact S].
  rewrite E. unfold P. rewrite xkr_push_op. apply mu_idle_pc, MI.
Qed.

(* what an asleep thread is doing *)
Lemma x_asleep_cases n xw t : XInv n xw -> x_asleep xw t ->
  (exists l, x_pc (xget xw t) = XwSem l /\ (0 <? sem (mw xw) t) = false) \/
  ((x_pc (xget xw t) = XIdle \/ (exists l, x_pc (xget xw t) = XwReacq l) \/ (exists m, x_pc (xget xw t) = XnReacq m)) /\
   exists m l, P (mw xw) t = LsSemP m l /\ (0 <? sem (mw xw) t) = false) \/
  (exists om, x_pc (xget xw t) = XnSem om /\ (0 <? sem (mw xw) t) = false).
Proof.
  intros (HI & HL & HT) A. destruct (HT t) as [Hp _]. unfold x_asleep, xstep_thr in A.
  destruct (x_pc (xget xw t)) eqn:EX.
  - (* XIdle *)
    assert (snd (step (mw xw) t) = EvBlocked -> exists m l, P (mw xw) t = LsSemP m l /\ (0 <? sem (mw xw) t) = false) as AS
      by (intros B; apply asleep_pc; exact B).
    unfold xbegin in A. cbv zeta in A. rewrite EX in A.
    destruct (x_ops (xget xw t)) as [|o rest] eqn:EO.
    { rewrite EX in A. unfold mu_step in A. destruct (step (mw xw) t) as [m' e] eqn:E. cbn [snd] in A.
      right; left. split; [now left|]. apply AS. cbn [snd]. congruence. }
    destruct (mu_idle (mw xw) t) eqn:MI.
    2:{ rewrite EX in A. unfold mu_step in A. destruct (step (mw xw) t) as [m' e] eqn:E. cbn [snd] in A.
        right; left. split; [now left|]. apply AS. cbn [snd]. congruence. }
    exfalso. assert (t < length (xthr xw))%nat as Ht.
    { apply xget_inb. intros E. rewrite E in EO. discriminate EO. }
    destruct o as [o'|m| | |[m|]|m]; revert A; unfold set_xpc, set_xt, set_mw, xget; cbn [mw cvq xferred xthr];
      rewrite ?lupd_lupd, ?nth_lupd_same by exact Ht; cbn [x_pc x_ops x_rets].
    + unfold mu_step. cbn [mw]. destruct (step (push_op (mw xw) t o') t) as [m' e] eqn:E. cbn [snd]. intros A.
      apply (push_step_not_blocked (mw xw) t o' MI). rewrite E. cbn [snd]. congruence.
    + destruct (held (get (mw xw) t)) as [m'|]; [destruct (mode_eqb m m')|]; cbn [snd]; discriminate.
    + cbn [snd]. discriminate.
    + cbn [snd]. discriminate.
    + destruct (held (get (mw xw) t)) as [m'|]; [destruct (mode_eqb m m')|]; cbn [snd]; discriminate.
    + cbn [snd]. discriminate.
    + destruct (held (get (mw xw) t)) as [m'|]; [destruct (mode_eqb m m')|]; cbn [snd]; discriminate.
  - rewrite xbegin_nonidle in A by (rewrite EX; discriminate). cbv zeta in A. rewrite EX in A. discriminate A.
  - rewrite xbegin_nonidle in A by (rewrite EX; discriminate). cbv zeta in A. rewrite EX in A. discriminate A.
  - rewrite xbegin_nonidle in A by (rewrite EX; discriminate). cbv zeta in A. rewrite EX in A.
    destruct (has (word (mw xw)) MU_WHELD_IF_NON_ZERO), (has (word (mw xw)) MU_RHELD_IF_NON_ZERO); discriminate A.
  - rewrite xbegin_nonidle in A by (rewrite EX; discriminate). cbv zeta in A. rewrite EX in A. discriminate A.
  - (* XwUnlock *) exfalso. rewrite xbegin_nonidle in A by (rewrite EX; discriminate). cbv zeta in A. rewrite EX in A.
    cbn [xpc_ok] in Hp. destruct Hp as [U _].
    unfold mu_step in A. destruct (step (mw xw) t) as [m' e] eqn:E.
    assert (e = EvBlocked) as -> by (destruct (mu_pc_idle (mw (set_mw xw m')) t); cbn [snd] in A; congruence).
    assert (snd (step (mw xw) t) = EvBlocked) as B by (rewrite E; reflexivity).
    destruct (asleep_pc _ _ B) as (m0 & l0 & Pc & _). unfold P in Pc. rewrite Pc in U. discriminate U.
  - rewrite xbegin_nonidle in A by (rewrite EX; discriminate). cbv zeta in A. rewrite EX in A.
    destruct (waiting (mw xw) t); discriminate A.
  - (* XwSem *) rewrite xbegin_nonidle in A by (rewrite EX; discriminate). cbv zeta in A. rewrite EX in A.
    left. exists l. split; [reflexivity|]. destruct (0 <? sem (mw xw) t); [discriminate A | reflexivity].
  - rewrite xbegin_nonidle in A by (rewrite EX; discriminate). cbv zeta in A. rewrite EX in A.
    destruct (waiting (mw xw) t); discriminate A.
  - rewrite xbegin_nonidle in A by (rewrite EX; discriminate). cbv zeta in A. rewrite EX in A.
    destruct (mem_id t (cvq xw)); discriminate A.
  - rewrite xbegin_nonidle in A by (rewrite EX; discriminate). cbv zeta in A. rewrite EX in A. discriminate A.
  - (* XwReacq *) rewrite xbegin_nonidle in A by (rewrite EX; discriminate). cbv zeta in A. rewrite EX in A.
    unfold mu_step in A. destruct (step (mw xw) t) as [m' e] eqn:E.
    assert (e = EvBlocked) as -> by (destruct (mu_pc_idle (mw (set_mw xw m')) t); cbn [snd] in A; congruence).
    right; left. split; [right; left; eauto|]. apply asleep_pc. unfold h_asleep. rewrite E. reflexivity.
  - rewrite xbegin_nonidle in A by (rewrite EX; discriminate). cbv zeta in A. rewrite EX in A. discriminate A.
  - rewrite xbegin_nonidle in A by (rewrite EX; discriminate). cbv zeta in A. rewrite EX in A.
    destruct (if bc then sel_broadcast (xrd xw) (cvq xw) else sel_signal (xrd xw) (cvq xw)) as [[wk kp] allr].
    destruct wk as [|f wk']; [|destruct (nrec xw f)]; discriminate A.
  - rewrite xbegin_nonidle in A by (rewrite EX; discriminate). cbv zeta in A. rewrite EX in A.
    destruct (xfer_wanted (wtype (mw xw)) (word (mw xw)) k); discriminate A.
  - rewrite xbegin_nonidle in A by (rewrite EX; discriminate). cbv zeta in A. rewrite EX in A.
    unfold cas in A. destruct (word (mw xw) =? wake_waiters_cas1_old old); cbv beta iota in A;
      [destruct (xfer (nrec xw) (wtype (mw xw)) (first_cant_acquire (wtype (mw xw)) old (k_wake k)) (k_wake k)) as [[moved stay] set_on]|];
      discriminate A.
  - rewrite xbegin_nonidle in A by (rewrite EX; discriminate). cbv zeta in A. rewrite EX in A. discriminate A.
  - rewrite xbegin_nonidle in A by (rewrite EX; discriminate). cbv zeta in A. rewrite EX in A.
    unfold cas in A. destruct (word (mw xw) =? wake_waiters_cas2_old old); discriminate A.
  - rewrite xbegin_nonidle in A by (rewrite EX; discriminate). cbv zeta in A. rewrite EX in A. discriminate A.
  - rewrite xbegin_nonidle in A by (rewrite EX; discriminate). cbv zeta in A. rewrite EX in A.
    destruct (k_wake k); discriminate A.
  - rewrite xbegin_nonidle in A by (rewrite EX; discriminate). cbv zeta in A. rewrite EX in A. discriminate A.
  - (* XnStore0 *) rewrite xbegin_nonidle in A by (rewrite EX; discriminate). cbv zeta in A. rewrite EX in A. discriminate A.
  - (* XnEnq *) rewrite xbegin_nonidle in A by (rewrite EX; discriminate). cbv zeta in A. rewrite EX in A.
    destruct om; discriminate A.
  - (* XnUnlock *) exfalso. rewrite xbegin_nonidle in A by (rewrite EX; discriminate). cbv zeta in A. rewrite EX in A.
    cbn [xpc_ok] in Hp. rename Hp into U.
    unfold mu_step in A. destruct (step (mw xw) t) as [m' e] eqn:E.
    assert (e = EvBlocked) as -> by (destruct (mu_pc_idle (mw (set_mw xw m')) t); cbn [snd] in A; congruence).
    assert (snd (step (mw xw) t) = EvBlocked) as B by (rewrite E; reflexivity).
    destruct (asleep_pc _ _ B) as (m0 & l0 & Pc & _). unfold P in Pc. rewrite Pc in U. discriminate U.
  - (* XnReady *) rewrite xbegin_nonidle in A by (rewrite EX; discriminate). cbv zeta in A. rewrite EX in A.
    destruct (cv_ready_time_load1_guard (b2z (waiting (mw xw) t))); discriminate A.
  - (* XnSem *) rewrite xbegin_nonidle in A by (rewrite EX; discriminate). cbv zeta in A. rewrite EX in A.
    right; right. exists om. split; [reflexivity|]. destruct (0 <? sem (mw xw) t); [discriminate A | reflexivity].
  - (* XnDeq *) rewrite xbegin_nonidle in A by (rewrite EX; discriminate). cbv zeta in A. rewrite EX in A.
    destruct (waiting (mw xw) t && cv_dequeue_store1_guard (b2z (mem_id t (cvq xw)))); [destruct om|]; discriminate A.
  - (* XnSpin *) rewrite xbegin_nonidle in A by (rewrite EX; discriminate). cbv zeta in A. rewrite EX in A.
    destruct (waiting (mw xw) t); [|destruct om]; discriminate A.
  - (* XnReacq *) rewrite xbegin_nonidle in A by (rewrite EX; discriminate). cbv zeta in A. rewrite EX in A.
    unfold mu_step in A. destruct (step (mw xw) t) as [m' e] eqn:E.
    assert (e = EvBlocked) as -> by (destruct (mu_pc_idle (mw (set_mw xw m')) t); cbn [snd] in A; congruence).
    right; left. split; [right; right; eauto|]. apply asleep_pc. unfold h_asleep. rewrite E. reflexivity.
  - (* XgStore *) rewrite xbegin_nonidle in A by (rewrite EX; discriminate). cbv zeta in A. rewrite EX in A. discriminate A.
Qed.

Section Quiescent.
Variable n : nat.
Hypothesis Hn : Z.of_nat n < 16777215.

(* in a quiescent world nobody is responsible for a wake-up any more: no agent (generalised) exists *)
Lemma quiescent_facts xw : AllInv n xw -> x_quiescent xw ->
  (forall x, x_pc (xget xw x) <> XIdle \/ P (mw xw) x <> Idle ->
     (exists l, x_pc (xget xw x) = XwSem l /\ (0 <? sem (mw xw) x) = false) \/
     ((x_pc (xget xw x) = XIdle \/ (exists l, x_pc (xget xw x) = XwReacq l) \/ (exists m, x_pc (xget xw x) = XnReacq m)) /\
      exists m l, P (mw xw) x = LsSemP m l /\ (0 <? sem (mw xw) x) = false) \/
     (exists om, x_pc (xget xw x) = XnSem om /\ (0 <? sem (mw xw) x) = false)) /\
  (forall a, agentx (xaf xw) (mw xw) a -> False).
Proof.
  intros (HI & HS & HP & HT & (HH & _)) Q.
  pose proof HI as (HI0 & HL & HTt).
  assert (forall x, x_pc (xget xw x) <> XIdle \/ P (mw xw) x <> Idle ->
     (exists l, x_pc (xget xw x) = XwSem l /\ (0 <? sem (mw xw) x) = false) \/
     ((x_pc (xget xw x) = XIdle \/ (exists l, x_pc (xget xw x) = XwReacq l) \/ (exists m, x_pc (xget xw x) = XnReacq m)) /\
      exists m l, P (mw xw) x = LsSemP m l /\ (0 <? sem (mw xw) x) = false) \/
     (exists om, x_pc (xget xw x) = XnSem om /\ (0 <? sem (mw xw) x) = false)) as NQ.
  { intros x Nx. assert (x < length (xthr xw))%nat as Lx.
    { destruct Nx as [Nx | Nx].
      - apply xget_inb. intros E. rewrite E in Nx. now apply Nx.
      - rewrite HL. destruct HI0 as (<- & _). apply get_inb. exact Nx. }
    destruct (Q x Lx) as [A | (D1 & D2 & D3)]; [apply (x_asleep_cases n xw x HI A)|].
    exfalso. destruct Nx as [Nx | Nx]; [contradiction | apply Nx, mu_idle_pc, D3]. }
  split; [exact NQ|].
  assert (forall x l, x_pc (xget xw x) = XwSem l -> P (mw xw) x = Idle) as SemIdle.
  { intros x l E. destruct (HTt x) as [Hp _]. rewrite E in Hp. apply Hp. }
  assert (forall x om, x_pc (xget xw x) = XnSem om -> P (mw xw) x = Idle) as NSemIdle.
  { intros x om E. destruct (HTt x) as [Hp _]. rewrite E in Hp. apply Hp. }
  assert (forall t' m' x u, P (mw xw) t' = UsWakeV m' x u -> False) as W1.
  { intros t' m' x u E. destruct (NQ t' ltac:(right; rewrite E; discriminate)) as [(l & X & _) | [(_ & m0 & l0 & X & _) | (om & X & _)]].
    - rewrite (SemIdle _ _ X) in E. discriminate E.
    - rewrite X in E. discriminate E.
    - rewrite (NSemIdle _ _ X) in E. discriminate E. }
  assert (forall t' x, xvf xw t' = Some x -> False) as W2.
  { intros t' x E. unfold xvf in E.
    destruct (NQ t' ltac:(left; intros X; rewrite X in E; discriminate E)) as [(l & X & _) | [([X | [[l X] | [m X]]] & _) | (om & X & _)]];
      rewrite X in E; discriminate E. }
  pose proof HH as (H1 & H2 & H3 & H4 & H5 & H6 & H7 & H8 & H9 & H10 & H11).
  intros a [A | [A B]].
  - assert (P (mw xw) a <> Idle) as Na by (intros E; rewrite E in A; discriminate A).
    destruct (NQ a (or_intror Na)) as [(l & X & _) | [(_ & m & l & Pa & Sa) | (om & X & _)]];
      [elim Na; exact (SemIdle _ _ X) | | elim Na; exact (NSemIdle _ _ X)].
    rewrite Pa in A. cbn [agent_pc] in A. apply negb_true_iff in A. apply Z.ltb_ge in Sa.
    destruct (H7 a ltac:(left; rewrite Pa; reflexivity) A) as [S | [(t' & m' & u & E) | [t' E]]]; [lia | exact (W1 _ _ _ _ E) | exact (W2 _ _ E)].
  - unfold xaf in A. apply andb_prop in A. destruct A as [A _].
    destruct (NQ a ltac:(left; intros X; rewrite X in A; discriminate A)) as [(l & X & Sa) | [([X | [[l X] | [m X]]] & _) | (om & X & _)]];
      [|rewrite X in A; discriminate A | rewrite X in A; discriminate A | rewrite X in A; discriminate A | rewrite X in A; discriminate A].
    apply Z.ltb_ge in Sa.
    destruct (H7 a ltac:(right; unfold xsf; rewrite X; reflexivity) B) as [S | [(t' & m' & u & E) | [t' E]]]; [lia | exact (W1 _ _ _ _ E) | exact (W2 _ _ E)].
Qed.
End Quiescent.

(* a thread that sleeps on the mutex: inside nsync_mu_lock_slow_'s semaphore wait, or a TRANSFERRED cv waiter inside the
   semaphore wait of nsync_cv_wait *)
Definition x_mu_sleeper (xw : xworld) (p : nat) : Prop :=
  (exists m l, t_pc (get (mw xw) p) = LsSemP m l) \/ (exists l, x_pc (xget xw p) = XwSem l /\ xferred xw p = true).

Section Quiescent2.
Variable n : nat.
Hypothesis Hn : Z.of_nat n < 16777215.

Lemma xhandoff_core xw : AllInv n xw -> x_quiescent xw -> forall p, x_mu_sleeper xw p ->
  ~ free (word (mw xw)) /\ In p (queue (mw xw)) /\ waiting (mw xw) p = true /\
  Z.testbit (word (mw xw)) 2 = true /\ Z.testbit (word (mw xw)) 3 = false /\ Z.testbit (word (mw xw)) 7 = false /\
  Z.testbit (word (mw xw)) 1 = false.
Proof.
  intros HA Q p Sp. destruct (quiescent_facts n Hn xw HA Q) as [NQ NA].
  destruct HA as (HI & (HQ & _) & HP & HT & (HH & _)).
  pose proof HH as (H1 & H2 & H3 & H4 & H5 & H6 & H7 & H8 & H9 & H10 & H11).
  assert (waiting (mw xw) p = true) as Wp.
  { destruct (waiting (mw xw) p) eqn:E; [reflexivity | exfalso]. apply (NA p). destruct Sp as [(m & l & Pp) | (l & Xp & Fp)].
    - left. unfold P. rewrite Pp, E. reflexivity.
    - right. split; [|exact E]. unfold xaf. rewrite Xp, Fp. reflexivity. }
  assert (In p (queue (mw xw))) as Iq.
  { assert (In p (queue (mw xw)) \/ exists u, In p (wl (kof (mw xw) u))) as [Hq | [u Hu]].
    { destruct Sp as [(m & l & Pp) | (l & Xp & Fp)].
      - apply H6; [rewrite kofP; unfold P; rewrite Pp; reflexivity | exact Wp].
      - apply (HT p); [rewrite Xp; reflexivity | exact Fp | exact Wp]. }
    - exact Hq.
    - exfalso. apply (NA u). left. eapply wl_agent. rewrite kofP in Hu. exact Hu. }
  assert (Z.testbit (word (mw xw)) 2 = true) as B2.
  { destruct HQ as (_ & _ & _ & _ & Q5a & _). apply Q5a. intros E. rewrite E in Iq. destruct Iq. }
  split; [|split; [exact Iq | split; [exact Wp | split; [exact B2 | split; [|split; [exact H1|]]]]]].
  - intros F. destruct (H5 B2 F) as [a Ha]. exact (NA a Ha).
  - destruct (Z.testbit (word (mw xw)) 3) eqn:B3; [exfalso | reflexivity]. destruct (H4 eq_refl) as [a Ha]. exact (NA a Ha).
  - destruct (Z.testbit (word (mw xw)) 1) eqn:B1; [exfalso | reflexivity].
    destruct (H10 eq_refl) as [[o Ho] | [o Ho]].
    + assert (P (mw xw) o <> Idle) as No by (intros E; rewrite kofP, E in Ho; discriminate Ho).
      pose proof HI as (_ & _ & HTt). destruct (HTt o) as [Hp _].
      destruct (NQ o (or_intror No)) as [(l & X & _) | [(_ & m & l & Po & _) | (om & X & _)]].
      * rewrite X in Hp. elim No. apply Hp.
      * rewrite kofP, Po in Ho. discriminate Ho.
      * rewrite X in Hp. elim No. apply Hp.
    + unfold xof in Ho.
      destruct (NQ o ltac:(left; intros X; rewrite X in Ho; discriminate Ho)) as [(l & X & _) | [([X | [[l X] | [m X]]] & _) | (om & X & _)]];
        rewrite X in Ho; discriminate Ho.
Qed.

(* every world, quiescent or not: a non-empty mutex queue over a free mutex with the spinlock free has a live waker *)
Lemma xhandoff_all_states xw : AllInv n xw ->
  queue (mw xw) <> [] -> free (word (mw xw)) -> Z.testbit (word (mw xw)) 1 = false ->
  exists a, agentx (xaf xw) (mw xw) a /\ own (kof (mw xw) a) = false.
Proof.
  intros (HI & (HQ & _) & _ & _ & (HH & _)) Nq F B1.
  pose proof HH as (_ & _ & _ & _ & H5 & _).
  destruct HQ as (QB1 & _ & _ & _ & Q5a & _).
  destruct (H5 (Q5a Nq) F) as [a Ha]. exists a. split; [exact Ha|].
  destruct (own (kof (mw xw) a)) eqn:O; [|reflexivity]. exfalso.
  pose proof (xk_kof n xw a HI O) as K. specialize (QB1 a). rewrite K in QB1. specialize (QB1 O). unfold tb1 in QB1. congruence.
Qed.
End Quiescent2.

Lemma free_dec x : {free x} + {~ free x}.
Proof.
  unfold free. destruct (Z.eq_dec (x mod 2) 0), (Z.eq_dec (x / 256) 0); [left; auto | right; tauto | right; tauto | right; tauto].
Qed.

(* ---------- the lemmas of Props/Properties_C04x.v ---------- *)
Lemma no_lost_transfer_full_holds : no_lost_transfer_full.
Proof.
  intros progs sched l p Hn xw Q Pp Xp.
  pose proof (xreachable_all progs sched Hn) as HA. fold xw in HA.
  destruct (xhandoff_core _ Hn xw HA Q p ltac:(right; eauto)) as (NF & _).
  destruct HA as ((HI & _) & _). destruct (not_free_holder _ _ HI NF) as [t' [H | H]]; [exists t', W | exists t', R]; exact H.
Qed.

Lemma x_no_lost_handoff : forall progs sched,
  Z.of_nat (length progs) < 2 ^ 24 - 1 ->
  let xw := xrun (xinit progs) sched in
  x_quiescent xw -> forall p, x_mu_sleeper xw p ->
  (exists t', holds (mw xw) t' W \/ holds (mw xw) t' R) /\
  In p (queue (mw xw)) /\ waiting (mw xw) p = true /\
  has (word (mw xw)) MU_WAITING = true /\ has (word (mw xw)) MU_DESIG_WAKER = false /\
  has (word (mw xw)) MU_ALL_FALSE = false /\ has (word (mw xw)) MU_SPINLOCK = false.
Proof.
  intros progs sched Hn xw Q p Sp.
  pose proof (xreachable_all progs sched Hn) as HA. fold xw in HA.
  destruct (xhandoff_core _ Hn xw HA Q p Sp) as (NF & Iq & Wt & B2 & B3 & B7 & B1).
  rewrite has_waiting, has_desig, has_allfalse, has_spin.
  destruct HA as ((HI & _) & _). split; [exact (not_free_holder _ _ HI NF) | auto 10].
Qed.

Lemma x_last_holder_must_scan : forall progs sched,
  Z.of_nat (length progs) < 2 ^ 24 - 1 ->
  let xw := xrun (xinit progs) sched in
  x_quiescent xw -> forall p, x_mu_sleeper xw p -> forall m,
  match m with W => count_held (mw xw) W = 1 | R => count_held (mw xw) W = 0 /\ count_held (mw xw) R = 1 end ->
  word (mw xw) <> ufast_old m /\ unlock_try_cas2 m (word (mw xw)) = false /\
  nsync_mu_unlock_slow_cas1_guard (word (mw xw)) = false /\ nsync_mu_unlock_slow_cas2_guard (word (mw xw)) = true.
Proof.
  intros progs sched Hn xw Q p Sp m Hm.
  pose proof (xreachable_all progs sched Hn) as HA. fold xw in HA.
  destruct (xhandoff_core _ Hn xw HA Q p Sp) as (NF & Iq & Wt & B2 & B3 & B7 & B1).
  destruct HA as (((_ & (Rx & HW & HR & HX) & _) & _) & _). rewrite !count_held_cnt in Hm.
  apply release_must_scan; auto. destruct m; [split; [lia | apply HX; lia] | lia].
Qed.

(* the kinds of live wakers *)
Definition x_waker (xw : xworld) (a : nat) : Prop :=
  (* a waiter whose flag has been cleared: asleep with a post pending, or on its way to nsync_mu_lock_slow_'s loop *)
  (exists m l, (t_pc (get (mw xw) a) = LsWaitLoad m l \/ t_pc (get (mw xw) a) = LsSemP m l) /\ waiting (mw xw) a = false) \/
  (* a designated waker inside the loop of nsync_mu_lock_slow_ (clear = MU_DESIG_WAKER) *)
  (exists m l, clr l = MU_DESIG_WAKER /\
     (t_pc (get (mw xw) a) = LsLoad m l \/ (exists old, t_pc (get (mw xw) a) = LsCasAcq m l old) \/
      exists old, t_pc (get (mw xw) a) = LsCasEnq m l old)) \/
  (* a transferred cv waiter, parked in nsync_cv_wait, whose flag has been cleared *)
  (wph2 (x_pc (xget xw a)) = true /\ xferred xw a = true /\ waiting (mw xw) a = false) \/
  (* a releaser of nsync_mu_unlock_slow_ that has dropped the spinlock and still has waiters to wake *)
  (wake_of (t_pc (get (mw xw) a)) <> [] /\ own (kof (mw xw) a) = false).

Lemma agent_is_waker xw a : agentx (xaf xw) (mw xw) a -> own (kof (mw xw) a) = false -> x_waker xw a.
Proof.
  intros [A | [A B]] O.
  - unfold x_waker, P, kof in *. destruct (t_pc (get (mw xw) a)) eqn:E; cbn [agent_pc role_of own] in *; try discriminate.
    + right; left. exists m, l. apply Z.eqb_eq in A. split; [exact A | left; reflexivity].
    + right; left. exists m, l. apply Z.eqb_eq in A. split; [exact A | right; left; eauto].
    + right; left. exists m, l. apply Z.eqb_eq in A. split; [exact A | right; right; eauto].
    + left. exists m, l. apply negb_true_iff in A. auto.
    + left. exists m, l. apply negb_true_iff in A. auto.
    + right; right; right. cbn [wake_of]. split; [|reflexivity]. destruct (wake u); [discriminate A | discriminate].
    + right; right; right. cbn [wake_of]. split; [|reflexivity]. destruct (wake u); [discriminate A | discriminate].
  - right; right; left. unfold xaf in A. apply andb_prop in A. tauto.
Qed.

Lemma x_handoff_all_states : forall progs sched,
  Z.of_nat (length progs) < 2 ^ 24 - 1 ->
  let xw := xrun (xinit progs) sched in
  queue (mw xw) <> [] -> (forall t m, held (get (mw xw) t) <> Some m) -> has (word (mw xw)) MU_SPINLOCK = false ->
  exists a, x_waker xw a.
Proof.
  intros progs sched Hn xw Nq NH S.
  pose proof (xreachable_all progs sched Hn) as HA. fold xw in HA.
  assert (free (word (mw xw))) as F.
  { destruct (free_dec (word (mw xw))) as [F | NF]; [exact F | exfalso].
    destruct HA as ((HI & _) & _). destruct (not_free_holder _ _ HI NF) as [t' [H | H]]; exact (NH _ _ H). }
  rewrite has_spin in S.
  destruct (xhandoff_all_states _ xw HA Nq F S) as (a & Ha & O). exists a. apply agent_is_waker; assumption.
Qed.

(* the coupling a cv model relies on: a waiter inside the semaphore wait of nsync_cv_wait whose flag has been cleared
   has a post available, or its waker is about to post it *)
Lemma x_cleared_flag_has_post : forall progs sched p l,
  Z.of_nat (length progs) < 2 ^ 24 - 1 ->
  let xw := xrun (xinit progs) sched in
  x_pc (xget xw p) = XwSem l -> waiting (mw xw) p = false ->
  1 <= sem (mw xw) p \/ (exists u m us, t_pc (get (mw xw) u) = UsWakeV m p us) \/ (exists u k, x_pc (xget xw u) = XvV k p).
Proof.
  intros progs sched p l Hn xw Xp Wp.
  destruct (xreachable_all progs sched Hn) as (_ & _ & _ & _ & (HH & _)). fold xw in HH.
  destruct HH as (_ & _ & _ & _ & _ & _ & H7 & _).
  destruct (H7 p ltac:(right; unfold xsf; rewrite Xp; reflexivity) Wp) as [S | [V | [u V]]]; [left; exact S | right; left; exact V | right; right].
  exists u. unfold xvf in V. destruct (x_pc (xget xw u)); try discriminate V. cbn [xv_pc] in V. injection V as ->. eauto.
Qed.
