(* CounterProof: proofs of the C10 lemmas about Model/CounterModel.v (nsync_counter + the one-object path of nsync_wait_n).

   Part 1  the sites: the expressions of Gen/Sites.v that the model uses (the value installed by the CAS of add, the
           guards of the `waited' ASSERT and of the wake-up loop, the enqueue guard, the constants stored) are
           characterised by UNFOLDING the generated definitions; afterwards the generated names are opaque, so every
           later proof goes through these lemmas: if the C expression changes, Part 1 breaks.
   Part 2  lists, threads, the history.
   Part 3  the inductive invariant [Inv]: the counter is the head of the history; counter_mu is held exactly at the
           pcs inside a critical section; "waiters <> [] -> value <> 0" outside the tail of an add; per-thread facts
           [tinv] (what a thread knows at each pc, the wake-up facts Bq / Cq of a sleeper, the deadline facts of a
           timed-out wait, the linearization facts of an add after its CAS); every logged call satisfies [LogOK];
           [broken] only if an ASSERT has fired or the ASSERT at add#4 is bound to fire.
           [inv_frame] is the frame rule: what a step of thread t has to establish, everything about the other
           threads follows.  Then one lemma per pc.
   Part 4  step / run preserve [Inv].
   Part 5  what a step does to the shared state (history, clock, waiters) -- no invariant needed.
   Part 6  the lemmas used by Props/Properties_C10.v, a concrete run, the refutation of the naive no-stuck claim. *)
From NsyncBase Require Import CSem.
From NsyncGen Require Import Consts Sites.
From Coq Require Import List ZArith Bool Lia Arith.
From NsyncModel Require Import CounterModel.
Import ListNotations.
Local Open Scope Z_scope.

(* ================================================================== *)
(* Part 1: the sites                                                   *)
(* ================================================================== *)
Lemma cas_guard_of_load1 d : nsync_counter_add_load1_guard d = false -> nsync_counter_add_cas1_guard d = true.
Proof. unfold nsync_counter_add_load1_guard, nsync_counter_add_cas1_guard. intros ->. reflexivity. Qed.

Lemma cas_guard_of_load1_true d : nsync_counter_add_load1_guard d = true -> nsync_counter_add_cas1_guard d = false.
Proof. unfold nsync_counter_add_load1_guard, nsync_counter_add_cas1_guard. intros ->. reflexivity. Qed.

Lemma cas_old_id v : nsync_counter_add_cas1_old v = v.
Proof. reflexivity. Qed.

(* the value installed by the CAS is the sum modulo 2^32 *)
Lemma cas_new_spec v d : nsync_counter_add_cas1_new v d = (v + d) mod 2 ^ 32.
Proof. unfold nsync_counter_add_cas1_new, wrap_u. apply Zplus_mod_idemp_r. Qed.

Lemma cas_new_zero d : nsync_counter_add_cas1_new 0 d = wrap_u 32 d.
Proof. unfold nsync_counter_add_cas1_new, wrap_u. rewrite Z.add_0_l. apply Z.mod_mod. lia. Qed.

(* an increment from zero always reaches the ASSERT on `waited' (add#4) *)
Lemma load3_from_zero d : d > 0 -> nsync_counter_add_load3_guard d (nsync_counter_add_cas1_new 0 d) = true.
Proof.
  intros H. rewrite cas_new_zero. unfold nsync_counter_add_load3_guard.
  rewrite Z.eqb_refl. replace (d =? 0) with false by (symmetry; apply Z.eqb_neq; lia).
  replace (d >? 0) with true by (symmetry; apply Z.gtb_lt; lia). reflexivity.
Qed.
Lemma load3_pos d v : nsync_counter_add_load3_guard d v = true -> d > 0.
Proof.
  unfold nsync_counter_add_load3_guard. intros H. apply andb_prop in H as [H _]. apply andb_prop in H as [_ H].
  apply Z.gtb_lt in H. lia.
Qed.
(* the wake-up loop runs exactly when the new value is 0 *)
Lemma store1_guard_zero d v : nsync_counter_add_store1_guard d v = true -> v = 0.
Proof.
  unfold nsync_counter_add_store1_guard. intros H. apply andb_prop in H as [_ H]. apply Z.eqb_eq in H. exact H.
Qed.
Lemma store1_guard_nz d v : nsync_counter_add_cas1_guard d = true -> nsync_counter_add_store1_guard d v = false -> v <> 0.
Proof.
  unfold nsync_counter_add_store1_guard, nsync_counter_add_cas1_guard. intros -> H. cbn in H.
  apply Z.eqb_neq in H. exact H.
Qed.
Lemma add_store_zero : nsync_counter_add_store1_new = 0. Proof. reflexivity. Qed.
Lemma ready_store_nz : counter_ready_time_store1_new <> 0. Proof. discriminate. Qed.
Lemma enq_guard1 v : counter_enqueue_store1_guard v = true -> v <> 0.
Proof. unfold counter_enqueue_store1_guard. intros H. apply negb_true_iff, Z.eqb_neq in H. exact H. Qed.
Lemma enq_guard1f v : counter_enqueue_store1_guard v = false -> v = 0.
Proof. unfold counter_enqueue_store1_guard. intros H. apply negb_false_iff, Z.eqb_eq in H. exact H. Qed.

(* a decrement (or a zero delta) applied to 0 fails the overflow ASSERT *)
Lemma overflow_from_zero d : d <= 0 ->
  let v := nsync_counter_add_cas1_new 0 d in
  (if d >? 0 then v >? wrap_u 32 (v - wrap_u 32 d) else v <? wrap_u 32 (v - wrap_u 32 d)) = false.
Proof.
  intros H v. subst v. rewrite cas_new_zero.
  destruct (d >? 0) eqn:E; [apply Z.gtb_lt in E; lia|].
  rewrite Z.sub_diag. change (wrap_u 32 0) with 0. apply Z.ltb_ge.
  unfold wrap_u. apply Z.mod_pos_bound. lia.
Qed.

Global Opaque nsync_counter_add_cas1_new nsync_counter_add_load3_guard nsync_counter_add_store1_guard
  nsync_counter_add_cas1_guard nsync_counter_add_load1_guard counter_enqueue_store1_guard
  counter_ready_time_store1_new counter_enqueue_store1_new counter_enqueue_store2_new counter_dequeue_store1_new
  nsync_counter_add_store1_new.
(* ================================================================== *)
(* Part 2: lists, threads, the history                                 *)
(* ================================================================== *)
Lemma lupd_length {A} (l : list A) k v : length (lupd l k v) = length l.
Proof. revert k; induction l as [|x t IH]; intros [|k]; cbn; auto. Qed.
Lemma nth_lupd_same {A} (l : list A) k v d : (k < length l)%nat -> nth k (lupd l k v) d = v.
Proof. revert k; induction l as [|x t IH]; intros [|k] H; cbn in *; try lia; auto. apply IH; lia. Qed.
Lemma nth_lupd_other {A} (l : list A) k k' v d : k <> k' -> nth k' (lupd l k v) d = nth k' l d.
Proof. revert k k'; induction l as [|x t IH]; intros [|k] [|k'] H; cbn; auto; try congruence. Qed.
Lemma lupd_beyond {A} (l : list A) k v : (length l <= k)%nat -> lupd l k v = l.
Proof. revert k; induction l as [|x t IH]; intros [|k] H; cbn in *; auto; try lia. f_equal. apply IH. lia. Qed.

Definition live (w : world) (t : nat) : Prop := (t < length (thr w))%nat.
Lemma get_dead w t : ~ live w t -> get w t = dflt.
Proof. unfold live, get. intros H. apply nth_overflow. lia. Qed.
Lemma live_of_pc w t : pc (get w t) <> Idle -> live w t.
Proof.
  intros H. destruct (lt_dec t (length (thr w))) as [L|L]; [exact L|].
  rewrite get_dead in H by exact L. cbn in H. congruence.
Qed.

Definition hat (h : list Z) (i : nat) : option Z := nth_error (rev h) i.
Lemma hat_cons h x i v : hat h i = Some v -> hat (x :: h) i = Some v.
Proof.
  unfold hat. cbn [rev]. intros H. rewrite nth_error_app1; [exact H|]. apply nth_error_Some. congruence.
Qed.
Lemma hat_last h x : hat (x :: h) (length h) = Some x.
Proof.
  unfold hat. cbn [rev]. rewrite nth_error_app2 by (rewrite rev_length; lia).
  rewrite rev_length, Nat.sub_diag. reflexivity.
Qed.
Lemma hat_head h : h <> [] -> hat h (pred (length h)) = Some (hd 0 h).
Proof. destruct h as [|x h]; [congruence|]. intros _. cbn [length pred hd]. apply hat_last. Qed.
Lemma held_at_hat w i : held_at w i = hat (hist w) i. Proof. reflexivity. Qed.

Lemma unlink_other u t l : u <> t -> In u l -> In u (unlink t l).
Proof.
  intros H I. unfold unlink. apply filter_In. split; [exact I|].
  apply negb_true_iff, Nat.eqb_neq. exact H.
Qed.
Lemma unlink_sub u t l : In u (unlink t l) -> In u l.
Proof. unfold unlink. intros H. apply filter_In in H. tauto. Qed.

(* ================================================================== *)
(* Part 3: the invariant                                               *)
(* ================================================================== *)
Definition holds (p : cpc) : bool :=      (* counter_mu is held at this pc *)
  match p with
  | AddReload _ | AddCas _ _ | AddChk _ _ | AddStore _ _ | AddV _ _ _ | WEnqStore1 _ | WEnqStore2 _
  | WDeqLoad _ _ | WDeqStore _ _ | Crash => true
  | _ => false
  end.
Definition postcas (p : cpc) : bool :=    (* add between its successful CAS and its unlock *)
  match p with AddChk _ _ | AddStore _ _ | AddV _ _ _ | Crash => true | _ => false end.
(* a V for the semaphore of thread u is about to be executed *)
Definition pend (w : world) (u : nat) : Prop := exists h d v, pc (get w h) = AddV d v u.

Definition Wt (w : world) (x : cg) (dl : option Z) : Prop :=
  g_op x = Wait dl /\ (g_start x <= idx w)%nat /\ waited w <> 0 /\
  (forall k, g_exp x = Some k -> exists d, dl = Some d /\ d <= k /\ k <= clock w).
Definition Wf (x : cg) : Prop := exists v, g_first x = Some v /\ v <> 0.
Definition Wb (x : cg) (dl : option Z) : Prop := Wf x /\ after_zero dl = true.   (* inside the block of nsync_wait_n *)
Definition Bq (w : world) (u : nat) : Prop := In u (waiters w) \/ value w = 0 \/ broken w = true.
Definition Cq (w : world) (u : nat) : Prop := In u (waiters w) \/ 0 < sem w u \/ pend w u \/ broken w = true.
Definition Jq (w : world) (x : cg) : Prop := g_exp x = None -> value w = 0 \/ broken w = true.
Definition Fq (w : world) (x : cg) (dl : option Z) : Prop :=
  broken w = true \/ exists d, dl = Some d /\ (d <= 0 \/ exists k, g_exp x = Some k /\ d <= k).
Definition Lq (w : world) (x : cg) (d v : Z) : Prop :=
  is_add (g_op x) d /\ value w = v /\ g_lin x = idx w /\ (g_start x < idx w)%nat /\
  exists old, held_at w (pred (idx w)) = Some old /\ v = nsync_counter_add_cas1_new old d.

Definition tinv (w : world) (u : nat) (s : tstate) : Prop :=
  let x := gh w u in
  match pc s with
  | Idle => True
  | AddLoad0 d => g_op x = Add d /\ nsync_counter_add_cas1_guard d = false /\ (g_start x <= idx w)%nat
  | AddLock d | AddReload d => is_add (g_op x) d /\ (g_start x <= idx w)%nat
  | AddCas d v => is_add (g_op x) d /\ (g_start x <= idx w)%nat /\ value w = v
  | AddChk d v => Lq w x d v
  | AddStore d v | AddV d v _ => Lq w x d v /\ v = 0
  | ValLoad => g_op x = Value /\ (g_start x <= idx w)%nat
  | WRdyStore dl => g_op x = Wait dl /\ (g_start x <= idx w)%nat /\ g_np x = 0%nat /\ g_exp x = None
  | WRdyLoad dl => Wt w x dl /\ g_np x = 0%nat
  | WEnq dl => Wt w x dl /\ Wb x dl
  | WEnqStore1 dl => Wt w x dl /\ Wb x dl /\ value w <> 0
  | WEnqStore2 dl => Wt w x dl /\ Wb x dl /\ value w = 0
  | WLoopStore dl | WLoopLoad dl => Wt w x dl /\ Wb x dl /\ Bq w u
  | WP dl => Wt w x dl /\ Wb x dl /\ Bq w u /\ Cq w u
  | WDeq dl => Wt w x dl /\ Wf x /\ Jq w x
  | WDeqLoad dl v | WDeqStore dl v => Wt w x dl /\ Wf x /\ Jq w x /\ value w = v
  | WFinal dl => Wt w x dl /\ Wf x /\ Fq w x dl
  | Crash => broken w = true
  end.

Definition LogOK (w : world) (r : crec) : Prop :=
  (c_start r <= c_stop r)%nat /\ (c_stop r <= idx w)%nat /\
  (exists i, (c_start r <= i <= c_stop r)%nat /\ held_at w i = Some (c_res r)) /\
  (forall d, is_add (c_op r) d ->
     (c_start r < c_lin r <= c_stop r)%nat /\ held_at w (c_lin r) = Some (c_res r) /\
     exists old, held_at w (pred (c_lin r)) = Some old /\ c_res r = nsync_counter_add_cas1_new old d) /\
  (forall dl, c_op r = Wait dl -> c_res r <> 0 ->
     broken w = true \/ exists d, dl = Some d /\ (d <= 0 \/ exists k, c_exp r = Some k /\ d <= k /\ k <= clock w)) /\
  (forall dl, c_op r = Wait dl -> c_first r = Some 0 -> c_np r = 0%nat /\ c_res r = 0).

Record Inv (w : world) : Prop := mkInv {
  i_hist : hist w <> [] /\ value w = hd 0 (hist w);
  i_lock : forall u, holds (pc (get w u)) = true <-> mu w = Some u;
  i_rel : (exists u, postcas (pc (get w u)) = true) \/ (waiters w <> [] -> value w <> 0);
  i_sem : forall u, 0 <= sem w u;
  i_thr : forall u, tinv w u (get w u);
  i_log : forall r, In r (log w) -> LogOK w r;
  i_brk : broken w = true ->
          exists t, pc (get w t) = Crash \/ ((exists d v, pc (get w t) = AddChk d v) /\ waited w <> 0) }.

(* --- the frame: what a step of thread t may do to the shared state without disturbing thread u --- *)
(* either the history is unchanged, or it is extended by the CAS of the lock holder (then u does not hold the lock,
   and leaving zero while `waited' is set breaks the contract) *)
Definition hist_step (w w' : world) (nonholder : Prop) : Prop :=
  (hist w' = hist w /\ value w' = value w) \/
  (exists x, hist w' = x :: hist w /\ value w' = x /\ nonholder /\ (value w = 0 -> waited w <> 0 -> broken w' = true)).

Lemma hist_step_idx w w' P : hist_step w w' P -> (idx w <= idx w')%nat.
Proof. unfold idx. intros [[-> _]|(x & -> & _)]; cbn; lia. Qed.
Lemma hist_step_at w w' P i v : hist_step w w' P -> held_at w i = Some v -> held_at w' i = Some v.
Proof. unfold held_at. intros [[-> _]|(x & -> & _)]; auto. apply hat_cons. Qed.

Lemma tinv_frame w w' u s :
  hist_step w w' (holds (pc s) = false) ->
  gh w' u = gh w u ->
  (waited w <> 0 -> waited w' <> 0) ->
  clock w <= clock w' ->
  (broken w = true -> broken w' = true) ->
  (In u (waiters w) -> In u (waiters w') \/ (value w' = 0 /\ pend w' u)) ->
  (0 < sem w u -> 0 < sem w' u) ->
  (pend w u -> pend w' u \/ 0 < sem w' u) ->
  tinv w u s -> tinv w' u s.
Proof.
  intros HS Hg Hwd Hck Hb Hin Hs Hp.
  pose proof (hist_step_idx _ _ _ HS) as Hidx.
  assert (HW : forall x dl, Wt w x dl -> Wt w' x dl).
  { intros x dl (A & B & C & D). repeat split; auto; try lia.
    intros k Hk. destruct (D k Hk) as (d & E1 & E2 & E3). exists d. repeat split; auto. lia. }
  assert (HC : Cq w u -> Cq w' u).
  { unfold Cq. intros [A|[A|[A|A]]]; auto.
    - destruct (Hin A) as [A'|[_ A']]; auto.
    - destruct (Hp A) as [A'|A']; auto. }
  assert (HF : forall x dl, Fq w x dl -> Fq w' x dl).
  { unfold Fq. intros x dl [A|A]; auto. }
  destruct HS as [[Hh Hv]|(x0 & Hh & Hv & Hnh & Hz)].
  - assert (Hidx' : idx w' = idx w) by (unfold idx; rewrite Hh; reflexivity).
    assert (Hat : forall i, held_at w' i = held_at w i) by (intros; unfold held_at; rewrite Hh; reflexivity).
    assert (HB : Bq w u -> Bq w' u).
    { unfold Bq. rewrite Hv. intros [A|[A|A]]; auto. destruct (Hin A) as [A'|[A' _]]; auto. rewrite <- Hv; auto. }
    assert (HJ : forall x, Jq w x -> Jq w' x).
    { unfold Jq. rewrite Hv. intros x A E. destruct (A E); auto. }
    assert (HL : forall x d v, Lq w x d v -> Lq w' x d v).
    { unfold Lq. rewrite Hv, Hidx', Hat. auto. }
    unfold tinv. rewrite Hg. destruct (pc s); cbv zeta; rewrite ?Hidx', ?Hv; intuition auto.
  - assert (HB : forall x dl, Wt w x dl -> Bq w u -> Bq w' u).
    { unfold Bq. intros x dl (_ & _ & Wd & _) [A|[A|A]]; auto. destruct (Hin A) as [A'|[A' _]]; auto. }
    assert (HJ : forall x dl, Wt w x dl -> Jq w x -> Jq w' x).
    { unfold Jq. intros x dl (_ & _ & Wd & _) A E. destruct (A E); auto. }
    unfold tinv. rewrite Hg. destruct (pc s); cbv zeta; try (cbn in Hnh; discriminate);
      intuition (eauto; try lia).
Qed.

Lemma get_upd w w' t s' : thr w' = lupd (thr w) t s' -> live w t \/ s' = dflt ->
  get w' t = s' /\ forall u, u <> t -> get w' u = get w u.
Proof.
  intros H L. unfold get. rewrite H. split.
  - destruct (lt_dec t (length (thr w))) as [Lt|Lt].
    + apply nth_lupd_same. exact Lt.
    + destruct L as [L|L]; [contradiction|]. subst s'. rewrite lupd_beyond by lia. apply nth_overflow. lia.
  - intros u Hu. apply nth_lupd_other. congruence.
Qed.

Lemma logok_frame w w' P r :
  hist_step w w' P -> clock w <= clock w' -> (broken w = true -> broken w' = true) -> LogOK w r -> LogOK w' r.
Proof.
  intros HS Hc Hb (A & B & C & D & E & F).
  pose proof (hist_step_idx _ _ _ HS) as Hidx.
  pose proof (fun i v => hist_step_at _ _ _ i v HS) as Hat.
  unfold LogOK. split; [exact A|]. split; [lia|]. split; [|split; [|split]].
  - destruct C as (i & C1 & C2). exists i. auto.
  - intros d H. destruct (D d H) as (D1 & D2 & old & D3 & D4). repeat split; auto; try lia. exists old. auto.
  - intros dl H H0. destruct (E dl H H0) as [E1|(d & E1 & E2)]; auto. right. exists d. split; auto.
    destruct E2 as [E2|(k & E2 & E3 & E4)]; auto. right. exists k. repeat split; auto. lia.
  - exact F.
Qed.

Lemma inv_frame w w' t s' :
  Inv w ->
  thr w' = lupd (thr w) t s' -> live w t \/ s' = dflt ->
  hist_step w w' (holds (pc (get w t)) = true) ->
  (forall u, u <> t -> gh w' u = gh w u) ->
  (waited w <> 0 -> waited w' <> 0) ->
  clock w <= clock w' ->
  (broken w = true -> broken w' = true) ->
  (forall u, u <> t -> In u (waiters w) -> In u (waiters w') \/ (value w' = 0 /\ exists d v, pc s' = AddV d v u)) ->
  (forall u, 0 <= sem w' u) ->
  (forall u, u <> t -> 0 < sem w u -> 0 < sem w' u) ->
  (forall u d v, pc (get w t) = AddV d v u -> 0 < sem w' u) ->
  tinv w' t s' ->
  (holds (pc s') = true <-> mu w' = Some t) ->
  (forall u, u <> t -> (mu w' = Some u <-> mu w = Some u)) ->
  (postcas (pc s') = true \/ (exists u, u <> t /\ postcas (pc (get w u)) = true) \/ (waiters w' <> [] -> value w' <> 0)) ->
  (forall r, In r (log w') -> In r (log w) \/ LogOK w' r) ->
  (broken w' = true -> broken w = true \/ pc s' = Crash \/ ((exists d v, pc s' = AddChk d v) /\ waited w' <> 0)) ->
  (pc (get w t) = Crash \/ ((exists d v, pc (get w t) = AddChk d v) /\ waited w <> 0) ->
   pc s' = Crash \/ ((exists d v, pc s' = AddChk d v) /\ waited w' <> 0)) ->
  Inv w'.
Proof.
  intros [IH IL IR IS IT IG IB] Hthr Hl HS Hg Hwd Hck Hb Hin Hs0 Hs Hpv Ht Hlk Hlk' Hrel Hlog Hbk Hbk'.
  destruct (get_upd _ _ _ _ Hthr Hl) as [Gt Gu].
  constructor.
  - destruct HS as [[-> ->]|(x & -> & -> & _)]; [exact IH|]. split; [discriminate|reflexivity].
  - intros u. destruct (Nat.eq_dec u t) as [->|Hu].
    + rewrite Gt. exact Hlk.
    + rewrite (Gu u Hu). rewrite (Hlk' u Hu). apply IL.
  - destruct Hrel as [A|[(u & Hu & A)|A]].
    + left. exists t. rewrite Gt. exact A.
    + left. exists u. rewrite (Gu u Hu). exact A.
    + right. exact A.
  - exact Hs0.
  - intros u. destruct (Nat.eq_dec u t) as [->|Hu].
    + rewrite Gt. exact Ht.
    + rewrite (Gu u Hu).
      apply (tinv_frame w w' u (get w u)); [ | apply Hg; exact Hu | exact Hwd | exact Hck | exact Hb | | apply Hs; exact Hu | | apply IT].
      * destruct HS as [A|(x & A1 & A2 & A3 & A4)]; [left; exact A|]. right. exists x. repeat split; auto.
        destruct (holds (pc (get w u))) eqn:E; auto. apply IL in E. apply IL in A3. congruence.
      * intros A. destruct (Hin u Hu A) as [A'|(A1 & d & v & A2)]; auto.
        right. split; auto. exists t, d, v. rewrite Gt. exact A2.
      * intros (h & d & v & A). destruct (Nat.eq_dec h t) as [->|Hh'].
        -- right. eapply Hpv. exact A.
        -- left. exists h, d, v. rewrite (Gu h Hh'). exact A.
  - intros r Hr. destruct (Hlog r Hr) as [A|A]; auto. eapply logok_frame; eauto.
  - intros Hb'. destruct (Hbk Hb') as [A|[A|A]].
    + destruct (IB A) as (t0 & A0). destruct (Nat.eq_dec t0 t) as [->|Ht0].
      * exists t. rewrite Gt. apply Hbk'. exact A0.
      * exists t0. rewrite (Gu t0 Ht0). destruct A0 as [A0|[A0 A1]]; auto.
    + exists t. rewrite Gt. auto.
    + exists t. rewrite Gt. auto.
Qed.

Lemma rel_keep w t : Inv w -> postcas (pc (get w t)) = false ->
  (exists u, u <> t /\ postcas (pc (get w u)) = true) \/ (waiters w <> [] -> value w <> 0).
Proof.
  intros I H. destruct (i_rel _ I) as [(u & A)|A]; auto.
  left. exists u. split; auto. intros ->. congruence.
Qed.
(* the holder of the lock is the only thread after a CAS *)
Lemma rel_holder w t : Inv w -> holds (pc (get w t)) = true -> postcas (pc (get w t)) = false ->
  waiters w <> [] -> value w <> 0.
Proof.
  intros I H P. destruct (i_rel _ I) as [(u & A)|A]; auto.
  assert (holds (pc (get w u)) = true) as Hu by (destruct (pc (get w u)); cbn in *; congruence).
  apply (i_lock _ I) in Hu. apply (i_lock _ I) in H. assert (u = t) by congruence. subst u. congruence.
Qed.
Lemma holder w t : Inv w -> holds (pc (get w t)) = true -> mu w = Some t.
Proof. intros I H. apply (i_lock _ I). exact H. Qed.
Lemma cur_held w : Inv w -> held_at w (idx w) = Some (value w).
Proof. intros I. destruct (i_hist _ I) as [A B]. rewrite B. unfold held_at, idx. apply hat_head. exact A. Qed.

Ltac lockt I Hpc :=
  first
  [ tauto
  | rewrite <- (i_lock _ I), Hpc; cbn; tauto
  | split; congruence
  | split; intros; discriminate ].

Ltac routine I Hpc :=
  cbn;
  repeat match goal with H : mu _ = _ |- _ => rewrite H end;
  try (left; split; reflexivity);
  try reflexivity; try lia; try tauto; try (apply (i_sem _ I));
  try (intros; auto; fail);
  try (rewrite ?Hpc; intros; discriminate);
  try (lockt I Hpc);
  try (right; apply rel_keep; [exact I | rewrite Hpc; reflexivity]; fail);
  try (rewrite ?Hpc; intros [A|[(d0 & v0 & A) _]]; discriminate).

Ltac pre I t Hpc L Tt :=
  assert (L : live _ t) by (apply live_of_pc; rewrite Hpc; discriminate);
  pose proof (i_thr _ I t) as Tt; unfold tinv in Tt; rewrite Hpc in Tt; cbv zeta in Tt.
Ltac fr I t L := eapply (inv_frame _ _ t); [exact I | cbn; reflexivity | left; exact L | .. ].
Ltac newlog w := intros r [<-|A]; [right|left; exact A];
  eapply (logok_frame w _ True); [left; split; reflexivity | cbn; lia | cbn; auto | ].

Lemma logok_mk w t o s lin r np fi ex :
  (s <= idx w)%nat ->
  (exists i, (s <= i <= idx w)%nat /\ held_at w i = Some r) ->
  (forall d, is_add o d -> (s < lin <= idx w)%nat /\ held_at w lin = Some r /\
     exists old, held_at w (pred lin) = Some old /\ r = nsync_counter_add_cas1_new old d) ->
  (forall dl, o = Wait dl -> r <> 0 ->
     broken w = true \/ exists d, dl = Some d /\ (d <= 0 \/ exists k, ex = Some k /\ d <= k /\ k <= clock w)) ->
  (forall dl, o = Wait dl -> fi = Some 0 -> np = 0%nat /\ r = 0) ->
  LogOK w (mk_c t o s (idx w) lin r np fi ex).
Proof. intros. unfold LogOK; cbn. split; [|split; [|split; [|split; [|split]]]]; auto. Qed.

Lemma not_add_load0 d d' : nsync_counter_add_cas1_guard d = false -> ~ is_add (Add d) d'.
Proof. intros G [E G']. injection E as <-. congruence. Qed.

Lemma case_AddLoad0 w t d : Inv w -> pc (get w t) = AddLoad0 d -> Inv (ret w t (value w)).
Proof.
  intros I Hpc. pre I t Hpc L Tt. destruct Tt as (To & Tg & Ts).
  fr I t L; routine I Hpc.
  newlog w. rewrite To. apply logok_mk; auto; try (intros; discriminate).
  - exists (idx w). split; [lia|]. apply cur_held; exact I.
  - intros d' H. destruct (not_add_load0 _ _ Tg H).
Qed.

Lemma case_ValLoad w t : Inv w -> pc (get w t) = ValLoad -> Inv (ret w t (value w)).
Proof.
  intros I Hpc. pre I t Hpc L Tt. destruct Tt as (To & Ts).
  fr I t L; routine I Hpc.
  newlog w. rewrite To. apply logok_mk; auto; try (intros; discriminate).
  - exists (idx w). split; [lia|]. apply cur_held; exact I.
  - intros d' [H _]. discriminate.
Qed.

Lemma case_AddLock w t d : Inv w -> pc (get w t) = AddLock d -> mu w = None ->
  Inv (set_pc (set_mu w (Some t)) t (AddCas d (value w))).
Proof.
  intros I Hpc Hm. pre I t Hpc L Tt.
  fr I t L; routine I Hpc.
Qed.

Lemma case_AddReload w t d : Inv w -> pc (get w t) = AddReload d -> Inv (set_pc w t (AddCas d (value w))).
Proof. intros I Hpc. pre I t Hpc L Tt. fr I t L; routine I Hpc. Qed.

Lemma case_AddCas_fail w t d v : Inv w -> pc (get w t) = AddCas d v -> Inv (set_pc w t (AddReload d)).
Proof. intros I Hpc. pre I t Hpc L Tt. fr I t L; routine I Hpc. Qed.

(* --- the tail of nsync_counter_add after its successful CAS (shared by the CAS step and the add#4 step) --- *)
Lemma hist_step_mono w w0 w' P :
  hist_step w w0 P -> hist w' = hist w0 -> value w' = value w0 -> (broken w0 = true -> broken w' = true) ->
  hist_step w w' P.
Proof.
  intros [[A B]|(x & A & B & C & D)] Hh Hv Hb; [left|right].
  - rewrite Hh, Hv. auto.
  - exists x. rewrite Hh, Hv. repeat split; auto.
Qed.
Lemma hist_step_hd w w0 P : Inv w -> hist_step w w0 P -> hist w0 <> [] /\ value w0 = hd 0 (hist w0).
Proof.
  intros I [[-> ->]|(x & -> & -> & _)]; [apply (i_hist _ I)|]. split; [discriminate|reflexivity].
Qed.

Section AfterChk.
  Variables (w w0 : world) (t : nat) (d v : Z).
  Hypothesis I : Inv w.
  Hypothesis L : live w t.
  Hypothesis Hthr : thr w0 = thr w.
  Hypothesis Hwd : waited w0 = waited w.
  Hypothesis Hmu : mu w0 = mu w.
  Hypothesis Hws : waiters w0 = waiters w.
  Hypothesis Hsem0 : forall u, 0 <= sem w0 u.
  Hypothesis Hsem1 : forall u, 0 < sem w u -> 0 < sem w0 u.
  Hypothesis Hck : clock w0 = clock w.
  Hypothesis Hlog : log w0 = log w.
  Hypothesis Hgh : forall u, u <> t -> gh w0 u = gh w u.
  Hypothesis HS : hist_step w w0 (holds (pc (get w t)) = true).
  Hypothesis Hb : broken w = true <-> broken w0 = true.
  Hypothesis Hh : holds (pc (get w t)) = true.
  Hypothesis Hnb : ~ (pc (get w t) = Crash \/ ((exists d v, pc (get w t) = AddChk d v) /\ waited w <> 0)).
  Hypothesis Hnv : forall u d v, pc (get w t) = AddV d v u -> 0 < sem w0 u.
  Hypothesis HL : Lq w0 (gh w0 t) d v.

  Let Hget : get w0 t = get w t.
  Proof. unfold get. rewrite Hthr. reflexivity. Qed.
  Let Hm : mu w = Some t.
  Proof. apply holder; assumption. Qed.

  Ltac frA := eapply (inv_frame w _ t);
    [ exact I | cbn; rewrite Hthr; reflexivity | left; exact L
    | eapply hist_step_mono; [exact HS | reflexivity | reflexivity | cbn; auto]
    | intros u Hu; cbn; apply Hgh; exact Hu
    | cbn; rewrite Hwd; auto
    | cbn; rewrite Hck; lia
    | cbn; try (intros _; reflexivity); apply Hb
    | cbn; rewrite ?Hws; auto
    | cbn; exact Hsem0
    | cbn; intros u _; apply Hsem1
    | cbn; exact Hnv
    | | | | | | | ].

  Lemma crash_inv : Inv (crash w0 t).
  Proof.
    frA; cbn; rewrite ?Hmu, ?Hm, ?Hlog; auto; try tauto.
  Qed.

  Lemma finish_inv : (waiters w <> [] -> v <> 0) -> Inv (finish_add w0 t v).
  Proof.
    intros Hz. destruct HL as ((Lo & Lg) & Lv & Ll & Ls & old & Lh & Le).
    destruct (hist_step_hd _ _ _ I HS) as [H01 H02].
    frA; cbn; rewrite ?Hmu, ?Hm, ?Hlog, ?Hws, ?Lv; auto; try tauto.
    - split; intros; discriminate.
    - intros u Hu. split; intros; congruence.
    - intros r [<-|A]; [right|left; exact A].
      eapply (logok_frame w0 _ True); [left; split; reflexivity | cbn; lia | cbn; auto | ].
      change (idx (set_mu w0 None)) with (idx w0).
      apply logok_mk.
      + lia.
      + exists (idx w0). split; [lia|]. rewrite <- Lv, H02. unfold held_at, idx. apply hat_head. exact H01.
      + intros d' [E' _]. rewrite Lo in E'. injection E' as <-. rewrite Ll. repeat split; try lia.
        * rewrite <- Lv, H02. unfold held_at, idx. apply hat_head. exact H01.
        * exists old. auto.
      + intros dl E'. rewrite Lo in E'. discriminate.
      + intros dl E'. rewrite Lo in E'. discriminate.
  Qed.

  Lemma store_inv : v = 0 -> Inv (set_pc w0 t (AddStore d v)).
  Proof.
    intros Hz.
    frA; cbn; rewrite ?Hmu, ?Hm, ?Hlog, ?Hws; auto; try tauto.
  Qed.

  Lemma drain_inv : v = 0 -> Inv (drain w0 t d v).
  Proof.
    intros Hz. unfold drain. case_eq (waiters w0); [intros E | intros a l E].
    - apply finish_inv. rewrite <- Hws, E. congruence.
    - apply store_inv. exact Hz.
  Qed.

  Lemma after_chk_inv : Inv (after_chk w0 t d v).
  Proof.
    unfold after_chk.
    destruct (if d >? 0 then v >? wrap_u 32 (v - wrap_u 32 d) else v <? wrap_u 32 (v - wrap_u 32 d)).
    - destruct (nsync_counter_add_store1_guard d v) eqn:G.
      + apply drain_inv. eapply store1_guard_zero; eauto.
      + apply finish_inv. intros _. destruct HL as ((_ & Lg) & _). eapply store1_guard_nz; eauto.
    - apply crash_inv.
  Qed.
End AfterChk.

Lemma idx_cons w w' x : hist w <> [] -> hist w' = x :: hist w -> idx w' = S (idx w).
Proof. unfold idx. intros H ->. destruct (hist w); [congruence|]. reflexivity. Qed.

Lemma lq_cas w w' x d :
  Inv w -> hist w' = nsync_counter_add_cas1_new (value w) d :: hist w ->
  value w' = nsync_counter_add_cas1_new (value w) d ->
  is_add (g_op x) d -> g_lin x = idx w' -> (g_start x <= idx w)%nat ->
  Lq w' x d (nsync_counter_add_cas1_new (value w) d).
Proof.
  intros I Hh Hv Ha Hl Hs.
  pose proof (idx_cons _ _ _ (proj1 (i_hist _ I)) Hh) as Hi.
  unfold Lq. repeat split; auto; try apply Ha; try lia.
  exists (value w). split; [|reflexivity]. rewrite Hi. cbn [pred].
  unfold held_at. rewrite Hh. apply hat_cons. apply (cur_held _ I).
Qed.

Ltac sect I L Hpc :=
  try exact I; try exact L; try reflexivity; try (apply (i_sem _ I)); try tauto;
  try (rewrite Hpc; reflexivity);
  try (left; split; reflexivity);
  try (rewrite Hpc; intros; discriminate);
  try (rewrite Hpc; intros [A|[(d0 & v0 & A) _]]; discriminate).

Lemma case_AddChk w t d v : Inv w -> pc (get w t) = AddChk d v ->
  Inv (if waited w =? 0 then after_chk w t d v else crash w t).
Proof.
  intros I Hpc. pre I t Hpc L Tt.
  destruct (waited w =? 0) eqn:E.
  - apply Z.eqb_eq in E.
    apply (after_chk_inv w w t d v); sect I L Hpc.
    rewrite Hpc. intros [A|[_ A]]; [discriminate|contradiction].
  - apply Z.eqb_neq in E. unfold crash. fr I t L; routine I Hpc.
Qed.

Lemma case_AddStore w t d v : Inv w -> pc (get w t) = AddStore d v ->
  Inv (match waiters w with
       | [] => finish_add w t v
       | u :: rest => set_pc (set_waiting (set_waiters w rest) u nsync_counter_add_store1_new) t (AddV d v u)
       end).
Proof.
  intros I Hpc. pre I t Hpc L Tt. destruct Tt as [TL Tz].
  destruct (waiters w) as [|u rest] eqn:E.
  - apply (finish_inv w w t d v); sect I L Hpc.
  - fr I t L; routine I Hpc.
    intros u0 Hu0 Hin. rewrite E in Hin. destruct Hin as [<-|Hin]; [right|left; exact Hin].
    split; [|eauto]. destruct TL as (_ & -> & _). exact Tz.
Qed.

Lemma case_AddV w t d v u : Inv w -> pc (get w t) = AddV d v u ->
  Inv (drain (set_sem w u (sem w u + 1)) t d v).
Proof.
  intros I Hpc. pre I t Hpc L Tt. destruct Tt as [TL Tz].
  pose proof (i_sem _ I) as S0.
  apply (drain_inv w _ t d v); sect I L Hpc.
  - intros u0. cbn. unfold fupd. destruct (u0 =? u)%nat; [specialize (S0 u); lia | apply S0].
  - intros u0 H. cbn. unfold fupd. destruct (u0 =? u)%nat; [specialize (S0 u); lia | exact H].
  - intros u0 d0 v0 E. rewrite Hpc in E. injection E as _ _ <-. cbn. unfold fupd. rewrite Nat.eqb_refl.
    specialize (S0 u); lia.
Qed.


Lemma Wt_mono w w' x x' dl :
  idx w' = idx w -> waited w' <> 0 -> clock w <= clock w' ->
  g_op x' = g_op x -> g_start x' = g_start x -> g_exp x' = g_exp x ->
  Wt w x dl -> Wt w' x' dl.
Proof.
  intros Hi Hw Hc E1 E2 E3 (A & B & C & D). unfold Wt. rewrite E1, E2, E3, Hi. repeat split; auto.
  intros k Hk. destruct (D k Hk) as (d & D1 & D2 & D3). exists d. repeat split; auto. lia.
Qed.
Ltac wt w t dl TW := apply (Wt_mono w _ (gh w t) _ dl); [reflexivity | first [apply ready_store_nz | apply TW] | cbn; lia | reflexivity | reflexivity | reflexivity | exact TW].

Ltac routine2 I Hpc := routine I Hpc;
  try (intros u Hu; unfold fupd; apply Nat.eqb_neq in Hu; rewrite Hu; reflexivity);
  unfold fupd; rewrite ?Nat.eqb_refl; cbn.

Lemma case_WRdyStore w t dl : Inv w -> pc (get w t) = WRdyStore dl ->
  Inv (set_pc (set_waited w counter_ready_time_store1_new) t (WRdyLoad dl)).
Proof.
  intros I Hpc. pre I t Hpc L Tt. destruct Tt as (To & Ts & Tn & Te).
  fr I t L; routine2 I Hpc.
  split; [|exact Tn]. unfold Wt. rewrite Te. repeat split; auto. apply ready_store_nz. intros; discriminate.
Qed.

Lemma case_WRdyLoad w t dl : Inv w -> pc (get w t) = WRdyLoad dl ->
  let v := value w in
  let x := gh w t in
  let w1 := set_g w t (mk_g (g_op x) (g_start x) (g_lin x) (g_np x) (Some v) (g_exp x)) in
  Inv (if v =? 0 then ret w1 t 0 else if after_zero dl then set_pc w1 t (WEnq dl) else set_pc w1 t (WFinal dl)).
Proof.
  intros I Hpc v x w1. pre I t Hpc L Tt. destruct Tt as (TW & Tn).
  subst w1 x v. destruct (value w =? 0) eqn:E; [|destruct (after_zero dl) eqn:Ea].
  - apply Z.eqb_eq in E. fr I t L; routine2 I Hpc.
    match goal with |- context [idx (set_g w t ?x)] => change (idx (set_g w t x)) with (idx w) end.
    destruct TW as (To & Ts & _).
    newlog w. rewrite To. apply logok_mk; auto.
    + exists (idx w). split; [lia|]. rewrite <- E. apply cur_held; exact I.
    + intros d' [H _]. discriminate.
  - apply Z.eqb_neq in E. fr I t L; routine2 I Hpc.
    split; [wt w t dl TW|]. split; [exists (value w); auto | exact Ea].
  - apply Z.eqb_neq in E. fr I t L; routine2 I Hpc.
    split; [wt w t dl TW|]. split; [exists (value w); auto|].
    right. destruct dl as [d|]; [|discriminate]. exists d. split; auto. left. cbn in Ea. apply Z.ltb_ge in Ea. exact Ea.
Qed.

Lemma case_WEnq w t dl : Inv w -> pc (get w t) = WEnq dl -> mu w = None ->
  let w1 := set_waiting (set_mu w (Some t)) t 0 in
  Inv (if counter_enqueue_store1_guard (value w) then set_pc w1 t (WEnqStore1 dl) else set_pc w1 t (WEnqStore2 dl)).
Proof.
  intros I Hpc Hm w1. pre I t Hpc L Tt. destruct Tt as (TW & Tf). subst w1.
  destruct (counter_enqueue_store1_guard (value w)) eqn:G; fr I t L; routine2 I Hpc.
  - split; [wt w t dl TW|]. split; [exact Tf|]. apply enq_guard1; exact G.
  - split; [wt w t dl TW|]. split; [exact Tf|]. apply enq_guard1f; exact G.
Qed.

Lemma case_WEnqStore1 w t dl : Inv w -> pc (get w t) = WEnqStore1 dl ->
  Inv (set_pc (set_mu (set_waiting (set_waiters w (waiters w ++ [t])) t counter_enqueue_store1_new) None) t (WLoopStore dl)).
Proof.
  intros I Hpc. pre I t Hpc L Tt. destruct Tt as (TW & Tf & Tv).
  pose proof (holder w t I) as Hm. rewrite Hpc in Hm. specialize (Hm eq_refl).
  fr I t L; routine2 I Hpc.
  - intros u Hu Hin. left. apply in_or_app. left. exact Hin.
  - split; [wt w t dl TW|]. split; [exact Tf|]. left. cbn. apply in_or_app. right. left. reflexivity.
Qed.

Lemma case_WEnqStore2 w t dl : Inv w -> pc (get w t) = WEnqStore2 dl ->
  Inv (set_pc (set_mu (set_waiting w t counter_enqueue_store2_new) None) t (WLoopStore dl)).
Proof.
  intros I Hpc. pre I t Hpc L Tt. destruct Tt as (TW & Tf & Tv).
  pose proof (holder w t I) as Hm. rewrite Hpc in Hm. specialize (Hm eq_refl).
  fr I t L; routine2 I Hpc.
  split; [wt w t dl TW|]. split; [exact Tf|]. right. left. exact Tv.
Qed.

Lemma case_WLoopStore w t dl : Inv w -> pc (get w t) = WLoopStore dl ->
  Inv (set_pc (set_waited w counter_ready_time_store1_new) t (WLoopLoad dl)).
Proof.
  intros I Hpc. pre I t Hpc L Tt. destruct Tt as (TW & Tf & TB).
  fr I t L; routine2 I Hpc.
  split; [wt w t dl TW|]. split; [exact Tf|exact TB].
Qed.

Lemma case_WLoopLoad w t dl : Inv w -> pc (get w t) = WLoopLoad dl ->
  Inv (if (value w =? 0) || negb (after_zero dl) then set_pc w t (WDeq dl) else set_pc w t (WP dl)).
Proof.
  intros I Hpc. pre I t Hpc L Tt. destruct Tt as (TW & (Tf & Tz) & TB).
  rewrite Tz, orb_false_r.
  destruct (value w =? 0) eqn:E; fr I t L; routine2 I Hpc.
  - apply Z.eqb_eq in E. split; [wt w t dl TW|]. split; [exact Tf|]. intros _. left. exact E.
  - apply Z.eqb_neq in E. split; [wt w t dl TW|]. split; [split; [exact Tf|exact Tz]|]. split; [exact TB|].
    destruct TB as [A|[A|A]]; [left; exact A | contradiction | right; right; right; exact A].
Qed.

Lemma case_WP w t dl : Inv w -> pc (get w t) = WP dl -> 0 < sem w t ->
  let x := gh w t in
  Inv (set_pc (set_g (set_sem w t (sem w t - 1)) t (mk_g (g_op x) (g_start x) (g_lin x) (S (g_np x)) (g_first x) (g_exp x)))
              t (WLoopStore dl)).
Proof.
  intros I Hpc Hs x. pre I t Hpc L Tt. destruct Tt as (TW & Tf & TB & TC). subst x.
  pose proof (i_sem _ I) as S0.
  fr I t L; routine2 I Hpc.
  - intros u. destruct (u =? t)%nat; [lia | apply S0].
  - intros u Hu H. apply Nat.eqb_neq in Hu. rewrite Hu. exact H.
  - split; [wt w t dl TW|]. split; [exact Tf|exact TB].
Qed.

Lemma case_WDeq w t dl : Inv w -> pc (get w t) = WDeq dl -> mu w = None ->
  Inv (set_pc (set_mu w (Some t)) t (WDeqLoad dl (value w))).
Proof.
  intros I Hpc Hm. pre I t Hpc L Tt. destruct Tt as (TW & Tf & TJ).
  fr I t L; routine2 I Hpc.
Qed.

(* the record of a wait that returns 0 because dequeue saw the value 0 *)
Lemma log_deq_zero w t dl :
  Inv w -> Wt w (gh w t) dl -> Wf (gh w t) -> value w = 0 ->
  LogOK w (mk_c t (g_op (gh w t)) (g_start (gh w t)) (idx w) (g_lin (gh w t)) 0 (g_np (gh w t)) (g_first (gh w t)) (g_exp (gh w t))).
Proof.
  intros I (To & Ts & _) (v' & Tf & Tn) Hv. rewrite To. apply logok_mk; auto.
  - exists (idx w). split; [lia|]. rewrite <- Hv. apply cur_held; exact I.
  - intros d' [H _]. discriminate.
  - intros dl' _ H. congruence.
Qed.
Lemma fq_deq w x dl v : Wt w x dl -> Jq w x -> value w = v -> v <> 0 -> Fq w x dl.
Proof.
  intros (_ & _ & _ & TE) TJ Hv Hn. unfold Fq. destruct (g_exp x) as [k|] eqn:E.
  - destruct (TE k eq_refl) as (d & D1 & D2 & D3). right. exists d. split; auto. right. exists k. auto.
  - destruct (TJ E) as [A|A]; [congruence | left; exact A].
Qed.

Lemma case_WDeqLoad w t dl v : Inv w -> pc (get w t) = WDeqLoad dl v ->
  Inv (if negb (waiting w t =? 0) then set_pc w t (WDeqStore dl v) else after_deq w t dl v).
Proof.
  intros I Hpc. pre I t Hpc L Tt. destruct Tt as (TW & Tf & TJ & Tv).
  pose proof (holder w t I) as Hm. rewrite Hpc in Hm. specialize (Hm eq_refl).
  destruct (negb (waiting w t =? 0)); [|unfold after_deq; destruct (v =? 0) eqn:E]; fr I t L; routine2 I Hpc.
  - apply Z.eqb_eq in E. change (idx (set_mu w None)) with (idx w). newlog w.
    apply (log_deq_zero w t dl); auto. congruence.
  - apply Z.eqb_neq in E. split; [wt w t dl TW|]. split; [exact Tf|]. eapply (fq_deq w); eauto.
Qed.

Lemma unlink_nil t l : unlink t l <> [] -> l <> [].
Proof. destruct l; cbn; congruence. Qed.

Lemma case_WDeqStore w t dl v : Inv w -> pc (get w t) = WDeqStore dl v ->
  Inv (after_deq (set_waiting (set_waiters w (unlink t (waiters w))) t counter_dequeue_store1_new) t dl v).
Proof.
  intros I Hpc. pre I t Hpc L Tt. destruct Tt as (TW & Tf & TJ & Tv).
  pose proof (holder w t I) as Hm. rewrite Hpc in Hm. specialize (Hm eq_refl).
  assert (R : unlink t (waiters w) <> [] -> value w <> 0).
  { intros H. apply (rel_holder w t I); [rewrite Hpc; reflexivity | rewrite Hpc; reflexivity | eapply unlink_nil; eauto]. }
  unfold after_deq; destruct (v =? 0) eqn:E; fr I t L; routine2 I Hpc.
  - intros u Hu Hin. left. apply unlink_other; auto.
  - apply Z.eqb_eq in E.
    match goal with |- context [idx ?W] => change (idx W) with (idx w) end. newlog w.
    apply (log_deq_zero w t dl); auto. congruence.
  - intros u Hu Hin. left. apply unlink_other; auto.
  - apply Z.eqb_neq in E. split; [wt w t dl TW|]. split; [exact Tf|]. eapply (fq_deq w); eauto.
Qed.

Lemma case_WFinal w t dl : Inv w -> pc (get w t) = WFinal dl -> Inv (ret w t (value w)).
Proof.
  intros I Hpc. pre I t Hpc L Tt. destruct Tt as (TW & Tf & TF).
  fr I t L; routine2 I Hpc.
  newlog w. destruct TW as (To & Ts & Twd & TE). destruct Tf as (v' & Tf & Tn). rewrite To. apply logok_mk; auto.
  - exists (idx w). split; [lia|]. apply cur_held; exact I.
  - intros d' [H _]. discriminate.
  - intros dl' H _. injection H as <-. destruct TF as [A|(d & D1 & [D2|(k & D2 & D3)])]; auto.
    + right. exists d. auto.
    + right. exists d. split; auto. right. exists k. destruct (TE k D2) as (d' & E1 & E2 & E3). auto.
  - intros dl' _ H. congruence.
Qed.

Lemma case_AddCas w t d v : Inv w -> pc (get w t) = AddCas d v -> value w = v ->
  let new := nsync_counter_add_cas1_new v d in
  let doomed := (v =? 0) && (d >? 0) && negb (waited w =? 0) in
  let w1 := set_broken (set_value w new) (broken w || doomed) in
  let x := gh w t in
  let w2 := set_g w1 t (mk_g (g_op x) (g_start x) (idx w1) (g_np x) (g_first x) (g_exp x)) in
  Inv (after_cas w2 t d new).
Proof.
  intros I Hpc Hv new doomed w1 x w2. pre I t Hpc L Tt. destruct Tt as (Ta & Ts & _).
  assert (Hh : holds (pc (get w t)) = true) by (rewrite Hpc; reflexivity).
  assert (Hgt : gh w2 t = mk_g (g_op x) (g_start x) (idx w1) (g_np x) (g_first x) (g_exp x)).
  { cbn. unfold fupd. rewrite Nat.eqb_refl. reflexivity. }
  assert (Hgo : forall u, u <> t -> gh w2 u = gh w u).
  { intros u Hu. cbn. unfold fupd. apply Nat.eqb_neq in Hu. rewrite Hu. reflexivity. }
  assert (HLq : Lq w2 (gh w2 t) d new).
  { rewrite Hgt. subst new. rewrite <- Hv. apply lq_cas; [exact I | cbn; rewrite Hv; reflexivity | cbn; rewrite Hv; reflexivity | exact Ta | reflexivity | exact Ts]. }
  unfold after_cas. destruct (nsync_counter_add_load3_guard d new) eqn:G3.
  - (* the ASSERT on `waited' comes next *)
    pose proof (load3_pos _ _ G3) as Hd.
    eapply (inv_frame w _ t); [exact I | cbn; reflexivity | left; exact L | .. ]; routine I Hpc.
    + right. exists new. repeat split; auto. intros Hz Hw. subst w2 w1 doomed. cbn.
      rewrite <- Hv, Hz. cbn. replace (d >? 0) with true by (symmetry; apply Z.gtb_lt; lia).
      apply Z.eqb_neq in Hw. rewrite Hw. cbn. apply orb_true_r.
    + intros B. rewrite B. reflexivity.
    + intros B. apply orb_prop in B. destruct B as [B|B]; auto. right. right. split; [eauto|].
      subst doomed. apply andb_prop in B as [_ B]. apply negb_true_iff, Z.eqb_neq in B. exact B.
  - destruct (Z.eq_dec v 0) as [Hz|Hnz].
    + (* a decrement of zero: the overflow ASSERT fails *)
      assert (d <= 0) as Hd.
      { destruct (Z_le_gt_dec d 0); auto. subst new. rewrite Hz in G3. rewrite load3_from_zero in G3 by lia. discriminate. }
      unfold after_chk. subst new. rewrite Hz. rewrite (overflow_from_zero d Hd).
      unfold crash.
      eapply (inv_frame w _ t); [exact I | cbn; reflexivity | left; exact L | .. ]; routine I Hpc.
      right. eexists. repeat split; auto.
    + apply (after_chk_inv w w2 t d new); sect I L Hpc.
      * right. exists new. repeat split; auto. intros. congruence.
      * cbn. subst doomed. apply Z.eqb_neq in Hnz. rewrite Hnz. cbn. rewrite orb_false_r. tauto.
Qed.

(* ================================================================== *)
(* Part 4: step and run preserve the invariant                         *)
(* ================================================================== *)
Lemma first_pc_free o : holds (first_pc o) = false /\ postcas (first_pc o) = false.
Proof. destruct o; cbn; try destruct (nsync_counter_add_load1_guard delta); auto. Qed.

Lemma begin_inv w t : Inv w -> Inv (begin_call w t).
Proof.
  intros I. unfold begin_call. destruct (pc (get w t)) eqn:Hpc; auto.
  destruct (prog (get w t)) as [|o rest] eqn:Hp; auto.
  assert (L : live w t).
  { destruct (lt_dec t (length (thr w))) as [A|A]; [exact A|]. rewrite get_dead in Hp by exact A. discriminate. }
  destruct (first_pc_free (norm_op o)) as [F1 F2].
  fr I t L; routine2 I Hpc.
  - unfold tinv. cbn [gh set_g set_thr pc]. unfold fupd. rewrite Nat.eqb_refl.
    destruct o as [d| |dl]; cbn; auto.
    destruct (nsync_counter_add_load1_guard (wrap_s 32 d)) eqn:G; cbn.
    + repeat split; auto. apply cas_guard_of_load1_true; exact G.
    + repeat split; auto. apply cas_guard_of_load1; exact G.
  - rewrite F1. rewrite <- (i_lock _ I), Hpc. cbn. tauto.
Qed.

Lemma timeout_inv w t d : Inv w -> pc (get w t) = WP (Some d) -> d <= clock w ->
  let x := gh w t in
  Inv (set_pc (set_g w t (mk_g (g_op x) (g_start x) (g_lin x) (g_np x) (g_first x) (Some (clock w)))) t (WDeq (Some d))).
Proof.
  intros I Hpc Hd x. pre I t Hpc L Tt. destruct Tt as (TW & (Tf & Tz) & TB & TC). subst x.
  fr I t L; routine2 I Hpc.
  destruct TW as (To & Ts & Twd & TE). repeat split; auto.
  - intros k Hk. injection Hk as <-. exists d. cbn. repeat split; auto; lia.
  - intros H. discriminate.
Qed.

Lemma tick_inv w d : Inv w -> Inv (set_clock w (clock w + Z.abs d)).
Proof.
  intros I.
  eapply (inv_frame w _ (length (thr w)) dflt);
    [exact I | cbn; rewrite lupd_beyond by lia; reflexivity | right; reflexivity | .. ]; cbn; auto; try tauto.
  - left. split; reflexivity.
  - lia.
  - apply (i_sem _ I).
  - intros u d0 v0 E. rewrite get_dead in E by (unfold live; lia). discriminate.
  - rewrite <- (i_lock _ I). rewrite get_dead by (unfold live; lia). cbn. tauto.
  - right. apply rel_keep; [exact I|]. rewrite get_dead by (unfold live; lia). reflexivity.
  - rewrite get_dead by (unfold live; lia). intros [A|[(d0 & v0 & A) _]]; discriminate.
Qed.

Lemma exec_inv w t : Inv w -> enabled_pc w t (pc (get w t)) = true -> Inv (fst (exec w t)).
Proof.
  intros I En. unfold exec. destruct (pc (get w t)) eqn:Hpc; cbn [fst]; cbn in En; try discriminate.
  - apply case_AddLoad0 with (d := d); auto.
  - destruct (mu w) eqn:Hm; [discriminate|]. apply case_AddLock; auto.
  - apply case_AddReload; auto.
  - destruct (value w =? nsync_counter_add_cas1_old v) eqn:E; cbn [fst].
    + apply Z.eqb_eq in E. unfold nsync_counter_add_cas1_old in E. apply (case_AddCas w t d v I Hpc E).
    + eapply case_AddCas_fail; eauto.
  - pose proof (case_AddChk w t d v I Hpc) as H. destruct (waited w =? 0); exact H.
  - pose proof (case_AddStore w t d v I Hpc) as H. destruct (waiters w); exact H.
  - apply case_AddV; auto.
  - apply case_ValLoad; auto.
  - apply case_WRdyStore; auto.
  - pose proof (case_WRdyLoad w t dl I Hpc) as H. cbv zeta in H.
    destruct (value w =? 0); [exact H|]. destruct (after_zero dl); exact H.
  - destruct (mu w) eqn:Hm; [discriminate|]. pose proof (case_WEnq w t dl I Hpc Hm) as H. cbv zeta in H.
    destruct (counter_enqueue_store1_guard (value w)); exact H.
  - apply case_WEnqStore1; auto.
  - apply case_WEnqStore2; auto.
  - apply case_WLoopStore; auto.
  - pose proof (case_WLoopLoad w t dl I Hpc) as H. destruct ((value w =? 0) || negb (after_zero dl)); exact H.
  - apply Z.ltb_lt in En. apply (case_WP w t dl I Hpc En).
  - destruct (mu w) eqn:Hm; [discriminate|]. apply case_WDeq; auto.
  - pose proof (case_WDeqLoad w t dl v I Hpc) as H. destruct (negb (waiting w t =? 0)); exact H.
  - apply case_WDeqStore; auto.
  - apply case_WFinal with (dl := dl); auto.
Qed.

Lemma step_inv w l : Inv w -> Inv (fst (step w l)).
Proof.
  intros I. destruct l as [t|t|d]; cbn [step].
  - pose proof (begin_inv w t I) as I1.
    destruct (enabled_pc (begin_call w t) t (pc (get (begin_call w t) t))) eqn:En; [|exact I].
    apply exec_inv; assumption.
  - destruct (pc (get w t)) eqn:Hpc; try exact I. destruct dl as [d|]; [|exact I].
    destruct (d <=? clock w) eqn:E; [|exact I]. apply Z.leb_le in E. apply (timeout_inv w t d I Hpc E).
  - apply tick_inv. exact I.
Qed.

Lemma init_inv v0 c0 progs : Inv (init v0 c0 progs).
Proof.
  assert (G : forall u, pc (get (init v0 c0 progs) u) = Idle).
  { intros u. unfold get, init; cbn [thr]. destruct (nth_in_or_default u (map (fun p => mk_t Idle p) progs) dflt) as [H|H].
    - apply in_map_iff in H. destruct H as (p & <- & _). reflexivity.
    - rewrite H. reflexivity. }
  constructor.
  - cbn. split; [discriminate|reflexivity].
  - intros u. rewrite G. cbn. split; discriminate.
  - right. cbn. congruence.
  - intros u. cbn. lia.
  - intros u. unfold tinv. rewrite G. exact Logic.I.
  - cbn. intros r [].
  - cbn. discriminate.
Qed.

Lemma run_inv w sched : Inv w -> Inv (run w sched).
Proof. revert w. induction sched as [|l s IH]; intros w I; cbn; auto. apply IH. apply step_inv. exact I. Qed.

Lemma reach_inv v0 c0 progs sched : Inv (run (init v0 c0 progs) sched).
Proof. apply run_inv, init_inv. Qed.

(* ================================================================== *)
(* Part 5: what a step does to the shared state (no invariant needed)   *)
(* ================================================================== *)
Ltac brk := repeat match goal with
  | |- context [if ?b then _ else _] => destruct b eqn:?
  | |- context [match waiters ?w with [] => _ | _ :: _ => _ end] => destruct (waiters w) eqn:?
  end.

Lemma begin_shared w t : hist (begin_call w t) = hist w /\ value (begin_call w t) = value w /\
  clock (begin_call w t) = clock w /\ waiters (begin_call w t) = waiters w /\ mu (begin_call w t) = mu w /\
  sem (begin_call w t) = sem w /\ waiting (begin_call w t) = waiting w.
Proof. unfold begin_call. destruct (pc (get w t)); try destruct (prog (get w t)); cbn; auto 10. Qed.

Lemma begin_idle w t : pc (get w t) <> Idle -> begin_call w t = w.
Proof. unfold begin_call. destruct (pc (get w t)); congruence. Qed.

Definition tail_same (w w' : world) : Prop := hist w' = hist w /\ value w' = value w /\ clock w' = clock w.
Lemma after_chk_same w t d v : tail_same w (after_chk w t d v).
Proof. unfold after_chk, drain, finish_add, crash, ret, tail_same. brk; cbn; auto. Qed.

(* the abstract value changes only at the successful CAS of nsync_counter_add *)
Lemma step_hist w l :
  let w' := fst (step w l) in
  (hist w' = hist w /\ value w' = value w) \/
  (exists t d, l = LStep t /\ next_pc w t = AddCas d (value w) /\
               value w' = nsync_counter_add_cas1_new (value w) d /\ hist w' = value w' :: hist w).
Proof.
  destruct l as [t|t|d]; cbn [step].
  - destruct (begin_shared w t) as (B1 & B2 & _).
    destruct (enabled_pc (begin_call w t) t (pc (get (begin_call w t) t))) eqn:En; [|left; auto].
    unfold exec. destruct (pc (get (begin_call w t) t)) eqn:Hpc; cbn [fst]; rewrite <- ?B1, <- ?B2;
      try (left; unfold after_deq, ret; brk; cbn; auto; fail).
    + (* AddCas *)
      destruct (value (begin_call w t) =? nsync_counter_add_cas1_old v) eqn:E; cbn [fst]; [|left; auto].
      apply Z.eqb_eq in E. unfold nsync_counter_add_cas1_old in E. right. exists t, d.
      unfold next_pc. rewrite Hpc, B2 in *. subst v. split; [reflexivity|]. split; [reflexivity|].
      unfold after_cas. destruct (nsync_counter_add_load3_guard _ _); [cbn; rewrite B1; auto|].
      match goal with |- context [after_chk ?W t d ?N] => destruct (after_chk_same W t d N) as (A1 & A2 & _) end.
      rewrite A1, A2. cbn. rewrite B1. auto.
    + (* AddChk *) left. destruct (waited (begin_call w t) =? 0); cbn [fst]; [|cbn; auto].
      destruct (after_chk_same (begin_call w t) t d v) as (A1 & A2 & _). auto.
    + (* AddV *) left. unfold drain, finish_add, ret. brk; cbn; auto.
  - left. destruct (pc (get w t)); auto. destruct dl; auto. destruct (z <=? clock w); cbn; auto.
  - left. cbn. auto.
Qed.

Lemma step_clock w l : clock w <= clock (fst (step w l)).
Proof.
  destruct l as [t|t|d]; cbn [step].
  - destruct (begin_shared w t) as (_ & _ & B3 & _).
    destruct (enabled_pc (begin_call w t) t (pc (get (begin_call w t) t))) eqn:En; [|cbn; lia].
    rewrite <- B3. unfold exec. destruct (pc (get (begin_call w t) t)) eqn:Hpc; cbn [fst];
      try (unfold after_deq, ret, finish_add, drain; brk; cbn; lia).
    + destruct (value (begin_call w t) =? nsync_counter_add_cas1_old v); cbn [fst]; [|cbn; lia].
      unfold after_cas. destruct (nsync_counter_add_load3_guard _ _); [cbn; lia|].
      match goal with |- context [after_chk ?W t d ?N] => destruct (after_chk_same W t d N) as (_ & _ & A3) end.
      rewrite A3. cbn. lia.
    + destruct (waited (begin_call w t) =? 0); cbn [fst]; [|cbn; lia].
      destruct (after_chk_same (begin_call w t) t d v) as (_ & _ & A3). rewrite A3. lia.
  - destruct (pc (get w t)); cbn [fst]; try lia. destruct dl; cbn [fst]; try lia. destruct (z <=? clock w); cbn; lia.
  - cbn. lia.
Qed.
Lemma run_cons w l s : run w (l :: s) = run (fst (step w l)) s.
Proof. reflexivity. Qed.
Lemma run_clock w sched : clock w <= clock (run w sched).
Proof.
  revert w. induction sched as [|l s IH]; intros w; [cbn; lia|]. rewrite run_cons.
  pose proof (step_clock w l). specialize (IH (fst (step w l))). lia.
Qed.

Lemma get_set_pc w t p : live w t -> pc (get (set_pc w t p) t) = p.
Proof. intros L. unfold get, set_pc, set_thr. cbn [thr]. rewrite nth_lupd_same by exact L. reflexivity. Qed.

(* c->waiters changes in three ways only: enqueue appends the caller, dequeue unlinks the caller, and
   nsync_counter_add pops the head, clears its `waiting' and goes on to V its semaphore *)
Lemma step_waiters w l :
  let w' := fst (step w l) in
  waiters w' = waiters w \/
  (exists t dl, l = LStep t /\ next_pc w t = WEnqStore1 dl /\ waiters w' = waiters w ++ [t]) \/
  (exists t dl v, l = LStep t /\ next_pc w t = WDeqStore dl v /\ waiters w' = unlink t (waiters w)) \/
  (exists t d v u, l = LStep t /\ next_pc w t = AddStore d v /\ waiters w = u :: waiters w' /\
        waiting w' u = nsync_counter_add_store1_new /\ pc (get w' t) = AddV d v u).
Proof.
  destruct l as [t|t|d]; cbn [step].
  - destruct (begin_shared w t) as (_ & _ & _ & B4 & _). unfold next_pc.
    destruct (enabled_pc (begin_call w t) t (pc (get (begin_call w t) t))) eqn:En; [|left; auto].
    rewrite <- B4. unfold exec. destruct (pc (get (begin_call w t) t)) eqn:Hpc; cbn [fst];
      try (left; unfold after_deq, ret, finish_add, drain; brk; cbn; auto; fail).
    + (* AddCas *) left.
      destruct (value (begin_call w t) =? nsync_counter_add_cas1_old v); cbn [fst]; [|cbn; auto].
      unfold after_cas, after_chk, drain, finish_add, crash, ret. brk; cbn; auto.
    + (* AddChk *) left. destruct (waited (begin_call w t) =? 0); cbn [fst]; [|cbn; auto].
      unfold after_chk, drain, finish_add, crash, ret. brk; cbn; auto.
    + (* AddStore *)
      destruct (waiters (begin_call w t)) as [|u rest] eqn:E; cbn [fst].
      * left. unfold finish_add, ret. cbn. auto.
      * right. right. right. exists t, d, v, u. repeat split; auto.
        -- cbn. unfold fupd. rewrite Nat.eqb_refl. reflexivity.
        -- apply get_set_pc. apply (live_of_pc (begin_call w t) t). rewrite Hpc. discriminate.
    + (* WEnqStore1 *) right. left. exists t, dl. auto.
    + (* WDeqStore *) right. right. left. exists t, dl, v. repeat split; auto.
      unfold after_deq, ret. brk; cbn; auto.
  - left. destruct (pc (get w t)); auto. destruct dl; auto. destruct (z <=? clock w); cbn; auto.
  - left. cbn. auto.
Qed.

Lemma next_pc_held w t p : next_pc w t = p -> holds p = true -> pc (get w t) = p.
Proof.
  intros Hp Hh. unfold next_pc in Hp. destruct (pc (get w t)) eqn:P; try (rewrite begin_idle in Hp by congruence; congruence).
  exfalso. unfold begin_call in Hp. rewrite P in Hp. destruct (prog (get w t)) eqn:Q; [rewrite P in Hp; subst p; discriminate|].
  assert (L : live w t). { destruct (lt_dec t (length (thr w))) as [X|X]; auto. rewrite get_dead in Q by exact X. discriminate. }
  unfold get, set_g, set_thr in Hp. cbn [thr] in Hp. rewrite nth_lupd_same in Hp by exact L. cbn in Hp.
  destruct (first_pc_free (norm_op o)) as [F _]. rewrite Hp in F. congruence.
Qed.

(* ================================================================== *)
(* Part 6: the lemmas used by Props/Properties_C10.v                   *)
(* ================================================================== *)
Section Reach.
  Variables (v0 c0 : Z) (progs : list (list op)) (sched : list label).
  Let w := run (init v0 c0 progs) sched.
  Let I : Inv w := reach_inv v0 c0 progs sched.

  (* the model's counter IS the head of the abstract history *)
  Lemma r_abs : hist w <> [] /\ value w = hd 0 (hist w) /\ held_at w (idx w) = Some (value w).
  Proof. destruct (i_hist _ I) as [A B]. repeat split; auto. apply cur_held; exact I. Qed.

  (* every returned add (delta <> 0) took effect at one index inside its interval and returned the value installed there *)
  Lemma r_add r d : In r (log w) -> is_add (c_op r) d ->
    (c_start r < c_lin r <= c_stop r)%nat /\ (c_stop r <= idx w)%nat /\ held_at w (c_lin r) = Some (c_res r) /\
    exists old, held_at w (pred (c_lin r)) = Some old /\ c_res r = (old + d) mod 2 ^ 32.
  Proof.
    intros Hr Ha. destruct (i_log _ I r Hr) as (_ & B & _ & D & _). destruct (D d Ha) as (D1 & D2 & old & D3 & D4).
    repeat split; auto; try lia. exists old. split; auto. rewrite D4. apply cas_new_spec.
  Qed.

  (* every returned call (add, value, wait) returned a value the counter held during the call *)
  Lemma r_value r : In r (log w) ->
    (c_start r <= c_stop r <= idx w)%nat /\ exists i, (c_start r <= i <= c_stop r)%nat /\ held_at w i = Some (c_res r).
  Proof. intros Hr. destruct (i_log _ I r Hr) as (A & B & C & _). split; [lia|exact C]. Qed.

  Lemma r_wait_nonzero r dl : broken w = false -> In r (log w) -> c_op r = Wait dl -> c_res r <> 0 ->
    exists d, dl = Some d /\ (d <= 0 \/ exists k, c_exp r = Some k /\ d <= k /\ k <= clock w).
  Proof.
    intros Hb Hr Ho Hn. destruct (i_log _ I r Hr) as (_ & _ & _ & _ & E & _).
    destruct (E dl Ho Hn) as [A|A]; [congruence|exact A].
  Qed.
  Lemma r_wait_nonzero_clock r dl : 0 <= c0 -> broken w = false -> In r (log w) -> c_op r = Wait dl -> c_res r <> 0 ->
    exists d, dl = Some d /\ d <= clock w.
  Proof.
    intros H0 Hb Hr Ho Hn. destruct (r_wait_nonzero r dl Hb Hr Ho Hn) as (d & D1 & D2). exists d. split; auto.
    pose proof (run_clock (init v0 c0 progs) sched) as Hc. cbn [clock init] in Hc. fold w in Hc.
    destruct D2 as [D2|(k & _ & D2 & D3)]; lia.
  Qed.

  Lemma r_late r dl : In r (log w) -> c_op r = Wait dl -> c_first r = Some 0 -> c_np r = 0%nat /\ c_res r = 0.
  Proof. intros Hr Ho Hf. destruct (i_log _ I r Hr) as (_ & _ & _ & _ & _ & F). exact (F dl Ho Hf). Qed.

  Lemma r_release : mu w = None -> waiters w <> [] -> value w <> 0.
  Proof.
    intros Hm Hw. destruct (i_rel _ I) as [(u & A)|A]; auto.
    assert (holds (pc (get w u)) = true) as Hu by (destruct (pc (get w u)); cbn in *; congruence).
    apply (i_lock _ I) in Hu. congruence.
  Qed.

  (* a record leaves the list only by its owner's dequeue or by the wake-up loop of an add that made the value 0 *)
  Lemma r_removed l u : In u (waiters w) -> ~ In u (waiters (fst (step w l))) ->
    (exists dl v, l = LStep u /\ pc (get w u) = WDeqStore dl v) \/
    (exists t d, l = LStep t /\ pc (get w t) = AddStore d 0 /\ value w = 0 /\
                 waiting (fst (step w l)) u = 0 /\ pc (get (fst (step w l)) t) = AddV d 0 u).
  Proof.
    intros Hin Hout. destruct (step_waiters w l) as [A|[(t & dl & _ & _ & A)|[(t & dl & v & Hl & Hp & A)|(t & d & v & u' & Hl & Hp & A & B & C)]]].
    - rewrite A in Hout. contradiction.
    - rewrite A in Hout. destruct Hout. apply in_or_app. auto.
    - left. exists dl, v. apply next_pc_held in Hp; [|reflexivity].
      destruct (Nat.eq_dec u t) as [->|Hne]; [auto|]. destruct Hout. rewrite A. apply unlink_other; auto.
    - right. apply next_pc_held in Hp; [|reflexivity].
      pose proof (i_thr _ I t) as Tt. unfold tinv in Tt. rewrite Hp in Tt. destruct Tt as ((_ & Tv & _) & Tz). rewrite Tz in *. clear Tz.
      rewrite A in Hin. destruct Hin as [<-|Hin]; [|contradiction].
      exists t, d. rewrite B, C. repeat split; auto.
  Qed.

  (* the V that follows makes the owner's P enabled *)
  Lemma r_v_enables t d v u : pc (get w t) = AddV d v u ->
    sem (fst (step w (LStep t))) u = sem w u + 1 /\ 0 < sem (fst (step w (LStep t))) u.
  Proof.
    intros Hp. cbn [step]. rewrite begin_idle by congruence. rewrite Hp. cbn [enabled_pc]. unfold exec. rewrite Hp. cbn [fst].
    pose proof (i_sem _ I u) as S0.
    assert (forall w1, sem (drain w1 t d v) = sem w1) as Hd by (intros; unfold drain, finish_add, ret; brk; reflexivity).
    rewrite Hd. cbn. unfold fupd. rewrite Nat.eqb_refl. lia.
  Qed.

  Lemma r_broken : broken w = true ->
    exists t, pc (get w t) = Crash \/ ((exists d v, pc (get w t) = AddChk d v) /\ waited w <> 0).
  Proof. exact (i_brk _ I). Qed.
  Lemma r_crash t : pc (get w t) = Crash -> broken w = true.
  Proof. intros H. pose proof (i_thr _ I t) as Tt. unfold tinv in Tt. rewrite H in Tt. exact Tt. Qed.
  (* the CAS of add never fails: the value is only written under counter_mu *)
  Lemma r_cas t d v : pc (get w t) = AddCas d v -> value w = v.
  Proof. intros H. pose proof (i_thr _ I t) as Tt. unfold tinv in Tt. rewrite H in Tt. apply Tt. Qed.
  Lemma r_lock u : mu w = Some u <-> holds (pc (get w u)) = true.
  Proof. symmetry. apply (i_lock _ I). Qed.

  Lemma enabled_nonidle t : pc (get w t) <> Idle -> enabled w t = enabled_pc w t (pc (get w t)).
  Proof. intros H. unfold enabled, next_pc. rewrite begin_idle by exact H. reflexivity. Qed.

  (* the holder of counter_mu is never blocked *)
  Lemma r_holder_enabled h : broken w = false -> mu w = Some h -> enabled w h = true.
  Proof.
    intros Hb Hm. apply (i_lock _ I) in Hm. pose proof (i_thr _ I h) as Tt. unfold tinv in Tt.
    rewrite enabled_nonidle by (intros E; rewrite E in Hm; discriminate).
    destruct (pc (get w h)); cbn in Hm; try discriminate; try reflexivity. congruence.
  Qed.

  Lemma lock_case t : broken w = false -> holds (pc (get w t)) = false ->
    mu w = None \/ exists h, h <> t /\ mu w = Some h /\ enabled w h = true.
  Proof.
    intros Hb Hh. destruct (mu w) as [h|] eqn:Hm; [right|left; reflexivity].
    exists h. repeat split; auto.
    - intros ->. apply (i_lock _ I) in Hm. congruence.
    - apply r_holder_enabled; auto.
  Qed.

  (* an unfinished thread can run, or waits for counter_mu whose holder can run, or sleeps in P with its record queued
     while the counter is not zero (and nobody is inside the counter's critical section) *)
  Lemma r_no_stuck t : broken w = false -> unfinished w t ->
    enabled w t = true \/
    (exists h, h <> t /\ mu w = Some h /\ enabled w h = true) \/
    (exists dl, pc (get w t) = WP dl /\ sem w t <= 0 /\ In t (waiters w) /\ mu w = None /\ value w <> 0).
  Proof.
    intros Hb Hu. destruct (pc (get w t)) eqn:P;
      try (left; rewrite enabled_nonidle by (rewrite P; discriminate); rewrite P; reflexivity).
    - (* Idle with a program *)
      destruct Hu as [Hu|Hu]; [congruence|]. destruct (prog (get w t)) as [|o rest] eqn:Q; [congruence|].
      assert (L : live w t). { destruct (lt_dec t (length (thr w))) as [X|X]; auto. rewrite get_dead in Q by exact X. discriminate. }
      assert (E : enabled w t = enabled_pc w t (first_pc (norm_op o))).
      { unfold enabled, next_pc, begin_call. rewrite P, Q. unfold get, set_g, set_thr. cbn [thr]. rewrite nth_lupd_same by exact L.
        cbn [pc]. destruct (first_pc (norm_op o)); reflexivity. }
      rewrite E. destruct o as [d| |dl]; cbn; auto.
      destruct (nsync_counter_add_load1_guard (wrap_s 32 d)); cbn; auto.
      destruct (lock_case t Hb) as [A|A]; [rewrite P; reflexivity | rewrite A; auto | auto].
    - (* AddLock *) rewrite enabled_nonidle by (rewrite P; discriminate). rewrite P. cbn.
      destruct (lock_case t Hb) as [A|A]; [rewrite P; reflexivity | rewrite A; auto | auto].
    - (* WEnq *) rewrite enabled_nonidle by (rewrite P; discriminate). rewrite P. cbn.
      destruct (lock_case t Hb) as [A|A]; [rewrite P; reflexivity | rewrite A; auto | auto].
    - (* WP *) rewrite enabled_nonidle by (rewrite P; discriminate). rewrite P. cbn.
      destruct (0 <? sem w t) eqn:S; [left; reflexivity|]. apply Z.ltb_ge in S.
      pose proof (i_thr _ I t) as Tt. unfold tinv in Tt. rewrite P in Tt. destruct Tt as (_ & _ & _ & TC).
      destruct (lock_case t Hb) as [A|A]; [rewrite P; reflexivity | | auto].
      destruct TC as [C|[C|[(h & d & v & C)|C]]]; try lia; try congruence.
      + right. right. exists dl. repeat split; auto. apply r_release; auto. intros E. rewrite E in C. destruct C.
      + assert (mu w = Some h) by (apply (i_lock _ I); rewrite C; reflexivity). congruence.
    - (* WDeq *) rewrite enabled_nonidle by (rewrite P; discriminate). rewrite P. cbn.
      destruct (lock_case t Hb) as [A|A]; [rewrite P; reflexivity | rewrite A; auto | auto].
    - (* Crash *) rewrite (r_crash t P) in Hb. discriminate.
  Qed.

  (* once the counter is zero and its critical section is empty nobody is blocked *)
  Lemma r_zero_unblocks t : broken w = false -> unfinished w t -> value w = 0 -> mu w = None -> enabled w t = true.
  Proof.
    intros Hb Hu Hv Hm. destruct (r_no_stuck t Hb Hu) as [A|[(h & _ & A & _)|(dl & _ & _ & _ & _ & A)]]; auto; congruence.
  Qed.
End Reach.

(* ---------- a concrete run (non-vacuity) and the refutation of the naive no-stuck statement ---------- *)
Definition ex_progs : list (list op) := [[Wait None]; [Add (-1); Value]; [Wait (Some 5)]; [Wait None]].
Definition ex_sched : list label :=
  [LStep 0; LStep 0; LStep 0; LStep 0; LStep 0; LStep 0;        (* thread 0: ready_time, enqueue, ready_time: asleep in P *)
   LStep 2; LStep 2; LStep 2; LStep 2; LStep 2; LStep 2;        (* thread 2 likewise, with deadline 5 *)
   LStep 0;                                                      (* blocked: semaphore 0 *)
   LTimeout 2;                                                   (* too early: clock 0 *)
   LTick 7; LTimeout 2; LStep 2; LStep 2; LStep 2; LStep 2;     (* thread 2 times out, dequeues itself, returns the value 1 *)
   LStep 1; LStep 0; LStep 1;                                    (* add -1 takes the lock, (thread 0 still blocked), CAS 1 -> 0 *)
   LStep 3; LStep 3;                                             (* a late wait: sees 0, returns 0 without P *)
   LStep 1; LStep 1;                                             (* wake-up loop: unlink thread 0, waiting := 0; V *)
   LStep 1;                                                      (* nsync_counter_value = 0 *)
   LStep 0; LStep 0; LStep 0; LStep 0; LStep 0].                 (* thread 0: P, ready_time sees 0, dequeue, returns 0 *)
Lemma example_run :
  let w := run (init 1 0 ex_progs) ex_sched in
  map pc (thr w) = [Idle; Idle; Idle; Idle] /\ map prog (thr w) = [[]; []; []; []] /\
  (* (thread, result, number of P operations), newest first *)
  map (fun r => (c_tid r, c_res r, c_np r)) (log w) =
    [(0%nat, 0, 1%nat); (1%nat, 0, 0%nat); (1%nat, 0, 0%nat); (3%nat, 0, 0%nat); (2%nat, 1, 0%nat)] /\
  hist w = [0; 1] /\ broken w = false /\ mu w = None /\ waiters w = [] /\ clock w = 7.
Proof. vm_compute. repeat split; reflexivity. Qed.

(* the naive statement "some thread can always run (or a timed sleeper exists)" is false: a lone wait without deadline on
   a counter that nobody decrements sleeps forever -- a deadlock of the client program, not of the counter *)
Lemma no_stuck_full_false :
  ~ (forall v0 c0 progs sched, let w := run (init v0 c0 progs) sched in
     broken w = false -> (exists t, unfinished w t) ->
     exists t, enabled w t = true \/ exists d, pc (get w t) = WP (Some d)).
Proof.
  intros H. specialize (H 1 0 [[Wait None]] (repeat (LStep 0) 6)). cbv zeta in H.
  destruct H as (t & [A|(d & A)]).
  - vm_compute. reflexivity.
  - exists 0%nat. left. vm_compute. discriminate.
  - destruct t as [|[|t]]; vm_compute in A; discriminate.
  - destruct t as [|[|t]]; vm_compute in A; discriminate.
Qed.

(* The ASSERT "no increment from zero after a wait" (counter.c:66) reads `waited' AFTER the CAS has published the new
   value: a client whose waiter starts only after it has SEEN the incremented value (nsync_counter_value returned 1)
   still makes the adder crash.  Reproduced on the real code (see the report): the check is racy, the crash spurious. *)
Definition race_progs : list (list op) := [[Add 1]; [Value; Wait None]].
Definition race_sched : list label := [LStep 0; LStep 0; LStep 1; LStep 1; LStep 0].
Lemma assert_race_run :
  let w := run (init 0 0 race_progs) race_sched in
  pc (get w 0) = Crash /\ broken w = true /\ hist w = [1; 0] /\
  map (fun r => (c_tid r, c_op r, c_res r)) (log w) = [(1%nat, Value, 1)] /\
  pc (get w 1) = WRdyLoad None.
Proof. vm_compute. repeat split; reflexivity. Qed.
