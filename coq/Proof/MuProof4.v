(* MuProof4: panic-freedom of Model/MuModel.v and what follows from it.

   Part A  the mutex word never carries MU_CONDITION (bit 4) in the condition-free model
   Part B  the sanity checks of nsync_mu_unlock / nsync_mu_runlock cannot fire when the ghost holder agrees with the word
   Part C  where a Crash pc can come from (one step), classification of the Crash codes
   Part D  the client contract on op lists (well_bracketed, balanced) as a per-thread invariant
   Part E  no_panic, panic_only_by_client_error, examples
   Part F  balanced programs: a quiescent world has everybody done
   Part G  site ids of the releasing steps (tie to Gen/Sites.v ordinals)
   Part H  examples: LONG_WAIT escalation run (C14), early release with a non-empty queue (C13)

   Builds on MuProof (Inv), MuProof2 (QInv, frames), MuProof3 (HInv, no_lost_handoff). *)
From NsyncBase Require Import CSem.
From NsyncGen Require Import Consts Sites.
From NsyncModel Require Import MuModel MuSpec.
From NsyncProof Require Import WordView MuProof MuProof2 MuProof3.
From Coq Require Import List ZArith Bool Lia PeanoNat Permutation.
Import ListNotations.
Local Open Scope Z_scope.

Ltac Zify.zify_post_hook ::= Z.div_mod_to_equations.

(* ================================================================== *)
(* Part A: MU_CONDITION is never set                                   *)
(* ================================================================== *)

Lemma has_condition x : has x MU_CONDITION = Z.testbit x 4.
Proof. exact (has_bit x 4 ltac:(lia)). Qed.

(* thread-local: the set_on_release mask computed by the scan has no MU_CONDITION *)
Definition pcC (p : pc) : Prop :=
  match p with
  | UsRelLoad _ u | UsRelCas _ u _ => Z.testbit (set_on u) 4 = false
  | _ => True
  end.

Definition CInv (w : world) : Prop :=
  Z.testbit (word w) 4 = false /\ forall t, pcC (t_pc (get w t)).

Lemma us_after_scan_C w u keep : us_after_scan w = (u, keep) -> Z.testbit (set_on u) 4 = false.
Proof.
  unfold us_after_scan.
  pose proof (scan_pres (fun s => Z.testbit s 4 = false) (wtype w) (queue w)) as Hs.
  specialize (Hs ltac:(intros s A; unfold band; rewrite Z.land_spec, A; reflexivity)).
  specialize (Hs ltac:(intros s A; unfold band, bor; rewrite Z.land_spec, Z.lor_spec, A; reflexivity)).
  specialize (Hs None [] [] MU_ALL_FALSE eq_refl).
  destruct (scan (wtype w) (queue w) None [] [] MU_ALL_FALSE) as [[wk kp] so].
  cbn [fst snd] in *. cbv beta iota zeta. intros E. injection E as <- _. exact Hs.
Qed.

Lemma begin_op_pc_cases w t :
  t_pc (get (begin_op w t) t) = t_pc (get w t) \/
  (t_pc (get w t) = Idle /\ (t < length (thr w))%nat /\
   match t_pc (get (begin_op w t) t) with
   | LkFast _ | TryFast _ | UlFast _ | Crash _ => True
   | _ => False
   end).
Proof.
  unfold begin_op. cbv zeta.
  destruct (t_pc (get w t)) eqn:Ep; try (left; rewrite Ep; reflexivity).
  destruct (t_ops (get w t)) as [|o rest]; [left; rewrite Ep; reflexivity|].
  destruct (Nat.lt_ge_cases t (length (thr w))) as [L|G].
  - right. split; [reflexivity|]. split; [exact L|].
    rewrite get_set_t_same by exact L. cbn [t_pc]. destruct o, (held (get w t)); exact I.
  - left. unfold get, set_t; cbn [thr]. rewrite !nth_overflow by (rewrite ?length_lupd; exact G). reflexivity.
Qed.

Lemma begin_op_cinv w t : CInv w -> CInv (begin_op w t).
Proof.
  intros [H4 HC]. split; [now rewrite begin_op_word|].
  intros x. destruct (Nat.eq_dec x t) as [->|N].
  - destruct (begin_op_pc_cases w t) as [E | (_ & _ & E)]; [rewrite E; apply HC|].
    destruct (t_pc (get (begin_op w t) t)); try (elim E; fail); exact I.
  - rewrite begin_op_frame by exact N. apply HC.
Qed.

Section CondInvariant.
Variable n : nat.
Hypothesis Hn : Z.of_nat n < 16777215.

Lemma step_cinv w0 t : Inv n w0 -> CInv w0 -> CInv (fst (step w0 t)).
Proof.
  intros H0 HC.
  assert (forall x, x <> t -> pcC (t_pc (get (fst (step w0 t)) x))) as Others.
  { intros x N. rewrite step_frame by exact N. apply HC. }
  cut (Z.testbit (word (fst (step w0 t))) 4 = false /\ pcC (t_pc (get (fst (step w0 t)) t))).
  { intros [A B]. split; [exact A|]. intros x. destruct (Nat.eq_dec x t) as [->|N]; auto. }
  clear Others.
  apply (begin_op_cinv _ t) in HC. apply (begin_op_inv _ _ t) in H0.
  unfold step. revert H0 HC. generalize (begin_op w0 t). intros w H0 [H4 HC]. cbv zeta.
  destruct (Nat.lt_ge_cases t (length (thr w))) as [Ht|Ht].
  2:{ rewrite get_oob by exact Ht. cbn [t_pc fst]. rewrite get_oob by exact Ht. split; [exact H4 | exact I]. }
  pose proof H0 as (Hlen & (Rw & _ & _ & HX) & Hok). specialize (Hok t).
  pose proof (Inv_held n w t) as Hheld. specialize (fun m => Hheld m H0).
  specialize (HC t).
  destruct (get w t) as [p ops h sl lt] eqn:Hs.
  pose proof Hs as Hs'. unfold get in Hs'. rewrite Hs' in Hok.
  unfold pc_ok in Hok. cbn [t_pc t_ops held sleeps last_try] in *.
  assert (4 = 4) as K4 by reflexivity.
  destruct p as [ | m | m | m old | m | m | m old | m l | m l old | m l old | m l | m l | m l old | m l | m l
                | m | m | m old | m | m old | m old | m u | m u old | m u | m q u | why ].
  - (* Idle *) cbn [fst]. rewrite Hs. split; [exact H4 | exact I].
  - (* LkFast *) cas_split w; normt Hs' Ht; cbn [word]; (split; [|exact I]); [|exact H4].
    rewrite fb_fast_new by lia. reflexivity.
  - (* LkLoad *) destruct (fast_guard2 m (word w)); cbn [fst]; normt Hs' Ht; cbn [word]; (split; [exact H4 | exact I]).
  - (* LkCas2 *) destruct Hok as [_ G]. cas_split w; normt Hs' Ht; cbn [word]; (split; [|exact I]); [|exact H4].
    subst old. rewrite fb_fast_new2 by (first [exact G | lia]). rewrite H4. reflexivity.
  - (* TryFast *) cas_split w; normt Hs' Ht; cbn [word]; (split; [|exact I]); [|exact H4].
    rewrite fb_try_new by lia. reflexivity.
  - (* TryLoad *) destruct (try_guard2 m (word w)); cbn [fst]; normt Hs' Ht; cbn [word]; (split; [exact H4 | exact I]).
  - (* TryCas2 *) destruct Hok as [_ G]. cas_split w; normt Hs' Ht; cbn [word]; (split; [|exact I]); [|exact H4].
    subst old. rewrite fb_try_new2 by (first [exact G | lia]). rewrite H4. reflexivity.
  - (* LsLoad *)
    destruct (nsync_mu_lock_slow_cas1_guard (word w) (zta l)); cbn [fst];
      [| destruct (nsync_mu_lock_slow_cas2_guard (word w) (zta l)); cbn [fst]];
      try (rewrite Hs; split; [exact H4 | exact I]);
      normt Hs' Ht; cbn [word]; (split; [exact H4 | exact I]).
  - (* LsCasAcq *) destruct Hok as (_ & Hl & G). cas_split w; normt Hs' Ht; cbn [word]; (split; [|exact I]); [|exact H4].
    subst old. rewrite fb_lock_slow_cas1 by (first [assumption | lia]). rewrite H4. reflexivity.
  - (* LsCasEnq *) destruct Hok as (_ & Hl). cas_split w; normt Hs' Ht; cbn [word]; (split; [|exact I]); [|exact H4].
    subst old. rewrite fb_lock_slow_cas2 by lia. rewrite H4.
    destruct Hl as (_ & _ & [-> | ->]); destruct m; reflexivity.
  - (* LsStoreWaiting *) cbn [fst]. normt Hs' Ht. cbn [word]. split; [exact H4 | exact I].
  - (* LsRelLoad *) cbn [fst]. normt Hs' Ht. cbn [word]. split; [exact H4 | exact I].
  - (* LsRelCas *) cas_split w; normt Hs' Ht; cbn [word]; (split; [|exact I]); [|exact H4].
    subst old. rewrite fb_release_spinlock by lia. rewrite H4. reflexivity.
  - (* LsWaitLoad *) destruct (waiting w t); cbn [fst]; normt Hs' Ht; cbn [word]; (split; [exact H4 | exact I]).
  - (* LsSemP *) destruct (0 <? sem w t); cbn [fst].
    + normt Hs' Ht. cbn [word]. split; [exact H4 | exact I].
    + rewrite Hs. split; [exact H4 | exact I].
  - (* UlFast *) cas_split w; normt Hs' Ht; cbn [word]; (split; [|exact I]); [|exact H4].
    apply fb_ufast_new.
  - (* UlLoad *)
    destruct (unlock_try_cas2 m (word w)); [| destruct (unlock_bad m (word w))]; cbn [fst];
      normt Hs' Ht; cbn [word]; (split; [exact H4 | exact I]).
  - (* UlCas2 *) subst h. specialize (Hheld m eq_refl). cas_split w; normt Hs' Ht; cbn [word]; (split; [|exact I]); [|exact H4].
    subst old. rewrite fb_unlock_new2 by (first [assumption | lia]). rewrite H4. reflexivity.
  - (* UsLoad *)
    destruct (has (word w) MU_CONDITION);
      [| destruct (nsync_mu_unlock_slow_cas1_guard (word w));
         [| destruct (nsync_mu_unlock_slow_cas2_guard (word w))]]; cbn [fst];
      try (rewrite Hs; split; [exact H4 | exact I]);
      normt Hs' Ht; cbn [word]; (split; [exact H4 | exact I]).
  - (* UsCasRel *) subst h. specialize (Hheld m eq_refl). cas_split w; normt Hs' Ht; cbn [word]; (split; [|exact I]); [|exact H4].
    subst old. rewrite fb_unlock_slow_cas1 by (first [assumption | lia]). rewrite H4. reflexivity.
  - (* UsCasSpin *) subst h. specialize (Hheld m eq_refl). cas_split w.
    + destruct (us_after_scan _) as [u keep] eqn:E. apply us_after_scan_C in E.
      cbn [fst]. normt Hs' Ht. cbn [word pcC]. split; [|exact E].
      subst old. rewrite fb_unlock_slow_cas2 by (first [assumption | lia]). rewrite H4. reflexivity.
    + normt Hs' Ht. cbn [word]. split; [exact H4 | exact I].
  - (* UsRelLoad *) cbn [fst]. normt Hs' Ht. cbn [word pcC]. split; [exact H4 | exact HC].
  - (* UsRelCas *) destruct Hok as (_ & (Hlate & _)). cas_split w; normt Hs' Ht; cbn [word pcC].
    + split; [| destruct (wake u); exact I].
      subst old. rewrite fb_unlock_slow_cas3 by (first [assumption | lia]). cbn [pcC] in HC. rewrite H4, HC. reflexivity.
    + split; [exact H4 | exact HC].
  - (* UsWakeStore *) destruct (wake u) as [|p rest]; cbn [fst]; normt Hs' Ht; cbn [word]; (split; [exact H4 | exact I]).
  - (* UsWakeV *) cbn [fst]. normt Hs' Ht. cbn [word]. split; [exact H4 | destruct (wake u); exact I].
  - (* Crash *) cbn [fst]. rewrite Hs. split; [exact H4 | exact I].
Qed.

End CondInvariant.

Lemma init_cinv progs : CInv (init progs).
Proof.
  split; [reflexivity|]. intros t. fold (P (init progs) t). rewrite init_P. exact I.
Qed.

Lemma run_cinv n (Hn : Z.of_nat n < 16777215) sched : forall w, Inv n w -> CInv w -> CInv (run w sched).
Proof.
  unfold run. induction sched as [|t rest IH]; intros w H HC; cbn [fold_left]; [exact HC|].
  apply IH; [apply step_inv; assumption | eapply step_cinv; eassumption].
Qed.

Lemma reachable_cinv progs sched : Z.of_nat (length progs) < 2 ^ 24 - 1 -> CInv (run (init progs) sched).
Proof. intros H. apply (run_cinv (length progs) H); [apply init_inv | apply init_cinv]. Qed.

(* ================================================================== *)
(* Part B: the sanity checks of nsync_mu_unlock / nsync_mu_runlock     *)
(* ================================================================== *)

(* nsync_mu_unlock: ((old - MU_WLOCK) & ~MU_ALL_FALSE) & (MU_RLOCK_FIELD | MU_WLOCK) == 0 for a word that says
   "write-held, no readers" *)
Lemma unlock_bad_W x : rng x -> x mod 2 = 1 -> x / 256 = 0 -> unlock_bad W x = false.
Proof.
  intros R E D. unfold unlock_bad, has, band, bor, bnot32, MU_WLOCK, MU_ALL_FALSE, MU_RLOCK_FIELD.
  apply negb_false_iff, Z.eqb_eq. unfold rng in R.
  assert (rng (x - 1)) as R1 by (unfold rng; lia).
  assert ((x - 1) / 256 = 0) as D1 by lia.
  assert (Z.testbit (x - 1) 0 = false) as B0 by (rewrite bit0_mod2; apply Z.eqb_neq; lia).
  apply Z.bits_inj'. intros k Hk. rewrite !Z.land_spec, Z.bits_0.
  destruct (Z_lt_ge_dec k 8) as [L|G].
  - rewrite Z.lor_spec. bits8 k Hk; rewrite ?B0; try reflexivity; tbc; rewrite ?andb_false_r; reflexivity.
  - rewrite (free_high_bits (x - 1) k R1 D1) by lia. reflexivity.
Qed.

(* nsync_mu_runlock: ((old ^ MU_WLOCK) & (MU_WLOCK | MU_RLOCK_FIELD)) != 0 for a word that is not write-held *)
Lemma unlock_bad_R x : x mod 2 = 0 -> unlock_bad R x = false.
Proof.
  intros E. unfold unlock_bad, band, bor. apply Z.eqb_neq. intros Z0.
  assert (Z.testbit (Z.land (Z.lxor x MU_WLOCK) (Z.lor MU_WLOCK MU_RLOCK_FIELD)) 0 = true) as B.
  { rewrite Z.land_spec, Z.lxor_spec, Z.lor_spec, bit0_mod2.
    destruct (Z.eqb_spec (x mod 2) 1) as [X|_]; [lia | reflexivity]. }
  rewrite Z0, Z.bits_0 in B. discriminate B.
Qed.

Lemma unlock_bad_held n w t m : Inv n w -> held (get w t) = Some m -> unlock_bad m (word w) = false.
Proof.
  intros H0 Hh. pose proof (Inv_held n w t m H0 Hh) as V.
  destruct H0 as (_ & (Rx & HW & HR & HX) & _). unfold rng in Rx.
  destruct m.
  - apply unlock_bad_W; auto.
  - apply unlock_bad_R. destruct (Z.eq_dec (word w mod 2) 1) as [E|NE]; [specialize (HX E); lia | lia].
Qed.

(* ================================================================== *)
(* Part C: where a Crash pc comes from                                 *)
(* ================================================================== *)

(* the Crash codes of Model/MuModel.v:
     1  begin_op: OUnlock by a thread that holds nothing                      -- CLIENT error
     4  begin_op: OLock / OTry by a thread that already holds the mutex       -- CLIENT error (nsync_mu is not reentrant)
     2  nsync_mu_unlock / nsync_mu_runlock: the sanity check on the loaded word fails (the four nsync_panic_
        calls "attempt to nsync_mu_[r]unlock() an nsync_mu [not] held in ... mode")  -- INTERNAL in the model: the
        unlocking thread is a ghost holder in that mode, so the check fires only if the word lies
     3  nsync_mu_unlock_slow_: MU_CONDITION set in the word (conditional waiters; the nsync_panic_ of the
        condition-testing branch lives there)                                  -- INTERNAL: nothing sets it here
   any other code is produced nowhere. *)
Definition client_crash (k : Z) : Prop := k = 1 \/ k = 4.
Definition internal_crash (k : Z) : Prop := ~ client_crash k.

(* the thread is about to start an operation that breaks the client contract *)
Definition client_error (s : tstate) (k : Z) : Prop :=
  t_pc s = Idle /\ exists o rest, t_ops s = o :: rest /\
  ((k = 1 /\ o = OUnlock /\ held s = None) \/
   (k = 4 /\ (exists m, o = OLock m \/ o = OTry m) /\ held s <> None)).

Lemma begin_op_crash w t k : t_pc (get (begin_op w t) t) = Crash k ->
  t_pc (get w t) = Crash k \/ client_error (get w t) k.
Proof.
  unfold begin_op. cbv zeta.
  destruct (t_pc (get w t)) eqn:Ep; try (intros E; rewrite Ep in E; discriminate E).
  2:{ intros E. rewrite Ep in E. left. exact E. }
  destruct (t_ops (get w t)) as [|o rest] eqn:Eo; [intros E; rewrite Ep in E; discriminate E|].
  destruct (Nat.lt_ge_cases t (length (thr w))) as [L|G].
  - rewrite get_set_t_same by exact L. cbn [t_pc]. intros E. right. split; [exact Ep|].
    exists o, rest. split; [exact Eo|].
    destruct o as [m|m|], (held (get w t)) as [m'|] eqn:Eh; try discriminate E; injection E as <-.
    + right. split; [reflexivity|]. split; [exists m; now left | discriminate].
    + right. split; [reflexivity|]. split; [exists m; now right | discriminate].
    + left. auto.
  - unfold get, set_t; cbn [thr]. rewrite nth_overflow by (rewrite length_lupd; exact G). intros E; discriminate E.
Qed.

(* one step: a thread at a Crash pc afterwards was there before, or has just committed a client error *)
Lemma step_crash_begin n w t k : Inv n w -> CInv w ->
  t_pc (get (fst (step w t)) t) = Crash k -> t_pc (get (begin_op w t) t) = Crash k.
Proof.
  intros H0 HC E.
  apply (begin_op_cinv _ t) in HC. apply (begin_op_inv _ _ t) in H0.
  revert E. unfold step. revert H0 HC. generalize (begin_op w t). clear w. intros w H0 [H4 _]. cbv zeta.
  destruct (Nat.lt_ge_cases t (length (thr w))) as [Ht|Ht].
  2:{ rewrite (get_oob w t Ht). change (t_pc dflt_t) with Idle. cbv iota. cbn [fst].
      rewrite (get_oob w t Ht). intros E; discriminate E. }
  pose proof H0 as (_ & _ & Hok). specialize (Hok t).
  pose proof (unlock_bad_held n w t) as UB. specialize (fun m => UB m H0).
  destruct (get w t) as [p ops h sl lt] eqn:Hs.
  pose proof Hs as Hs'. unfold get in Hs'. rewrite Hs' in Hok.
  unfold pc_ok in Hok. cbn [t_pc t_ops held sleeps last_try] in *.
  destruct p as [ | m | m | m old | m | m | m old | m l | m l old | m l old | m l | m l | m l old | m l | m l
                | m | m | m old | m | m old | m old | m u | m u old | m u | m q u | why ];
    try (unfold cas; brk; cbn [fst]; try rewrite Hs; normt Hs' Ht; intros E; first [discriminate E | exact E]; fail).
  - (* UlLoad *) subst h. rewrite (UB m eq_refl).
    destruct (unlock_try_cas2 m (word w)); cbn [fst]; normt Hs' Ht; intros E; discriminate E.
  - (* UsLoad *) rewrite has_condition, H4. brk; cbn [fst]; try rewrite Hs; normt Hs' Ht; intros E; discriminate E.
Qed.

Lemma step_crash_origin n w t k : Inv n w -> CInv w ->
  t_pc (get (fst (step w t)) t) = Crash k ->
  t_pc (get w t) = Crash k \/ client_error (get w t) k.
Proof. intros H0 HC E. apply begin_op_crash. eapply step_crash_begin; eassumption. Qed.

(* a thread at a Crash pc does not move any more, and entering one does not change what it holds *)
Lemma step_at_crash w t k : t_pc (get (begin_op w t) t) = Crash k -> fst (step w t) = begin_op w t.
Proof. intros E. unfold step. cbv zeta. rewrite E. reflexivity. Qed.

Lemma step_crash_held n w t k : Inv n w -> CInv w ->
  t_pc (get (fst (step w t)) t) = Crash k -> held (get (fst (step w t)) t) = held (get w t).
Proof.
  intros H0 HC E. pose proof (step_crash_begin n w t k H0 HC E) as Eb.
  rewrite (step_at_crash w t k Eb). apply begin_op_held.
Qed.

(* ================================================================== *)
(* Part D: the client contract on op lists                             *)
(* ================================================================== *)

(* [wb h ops]: a thread whose ghost holder state is h can run ops without ever unlocking what it does not hold or
   acquiring what it already holds.  (OUnlock releases in the mode held: the model has one unlock operation whose
   mode is the holder's, so "in the mode it holds" is built in.)  Programs are straight-line, so the outcome of a
   trylock cannot be tested: an OTry may only be the last operation of a contract-respecting program. *)
Fixpoint wb (h : option mode) (ops : list op) : bool :=
  match ops with
  | [] => true
  | OLock m :: r => match h with None => wb (Some m) r | Some _ => false end
  | OTry _ :: r => match h, r with None, [] => true | _, _ => false end
  | OUnlock :: r => match h with Some _ => wb None r | None => false end
  end.

(* [bal h ops]: moreover every acquisition is followed by its release (no trylock, nothing held at the end) *)
Fixpoint bal (h : option mode) (ops : list op) : bool :=
  match ops with
  | [] => match h with None => true | Some _ => false end
  | OLock m :: r => match h with None => bal (Some m) r | Some _ => false end
  | OTry _ :: _ => false
  | OUnlock :: r => match h with Some _ => bal None r | None => false end
  end.

Lemma bal_wb ops : forall h, bal h ops = true -> wb h ops = true.
Proof.
  induction ops as [|o r IH]; intros h H; [reflexivity|].
  destruct o as [m|m|], h as [m'|]; cbn [bal wb] in *; try discriminate H; auto.
Qed.

Section Contract.
Variable f : option mode -> list op -> bool.
Hypothesis f_lock : forall h m r, f h (OLock m :: r) = true -> h = None /\ f (Some m) r = true.
Hypothesis f_try : forall h m r, f h (OTry m :: r) = true -> h = None /\ r = [] /\ forall h', f h' [] = true.
Hypothesis f_unlock : forall h r, f h (OUnlock :: r) = true -> h <> None /\ f None r = true.

(* what the rest of the program must satisfy, given where the thread is inside its current operation *)
Definition ct_state (s : tstate) : Prop :=
  match t_pc s with
  | Idle => f (held s) (t_ops s) = true
  | LkFast m | LkLoad m | LkCas2 m _ | LsLoad m _ | LsCasAcq m _ _ | LsCasEnq m _ _ | LsStoreWaiting m _
  | LsRelLoad m _ | LsRelCas m _ _ | LsWaitLoad m _ | LsSemP m _ => f (Some m) (t_ops s) = true
  | TryFast _ | TryLoad _ | TryCas2 _ _ => t_ops s = [] /\ forall h', f h' [] = true
  | UlFast _ | UlLoad _ | UlCas2 _ _ | UsLoad _ | UsCasRel _ _ | UsCasSpin _ _
  | UsRelLoad _ _ | UsRelCas _ _ _ | UsWakeStore _ _ | UsWakeV _ _ _ => f None (t_ops s) = true
  | Crash _ => False
  end.

Lemma ct_no_client_error s k : ct_state s -> client_error s k -> False.
Proof.
  unfold ct_state. intros H (Ep & o & rest & Eo & D). rewrite Ep, Eo in H.
  destruct D as [(_ & -> & Eh) | (_ & (m & [-> | ->]) & Eh)].
  - apply f_unlock in H. tauto.
  - apply f_lock in H. tauto.
  - apply f_try in H. tauto.
Qed.

Lemma begin_op_ct w t : ct_state (get w t) -> ct_state (get (begin_op w t) t).
Proof.
  intros H. unfold begin_op. cbv zeta.
  destruct (t_pc (get w t)) eqn:Ep; try exact H.
  destruct (t_ops (get w t)) as [|o rest] eqn:Eo; [exact H|].
  destruct (Nat.lt_ge_cases t (length (thr w))) as [L|G].
  2:{ exfalso. unfold get in Eo. rewrite nth_overflow in Eo by exact G. discriminate Eo. }
  rewrite get_set_t_same by exact L. unfold ct_state in *. rewrite Ep, Eo in H. cbn [t_pc t_ops held].
  destruct o as [m|m|].
  - apply f_lock in H. destruct H as [-> H]. exact H.
  - apply f_try in H. destruct H as (-> & -> & H). split; [reflexivity | exact H].
  - apply f_unlock in H. destruct H as [Nh H]. destruct (held (get w t)); [exact H | now elim Nh].
Qed.

Lemma pc_ok_held s : pc_ok s ->
  match t_pc s with
  | Idle | Crash _ => True
  | UlFast m | UlLoad m | UlCas2 m _ | UsLoad m | UsCasRel m _ | UsCasSpin m _ => held s = Some m
  | _ => held s = None
  end.
Proof. unfold pc_ok. destruct (t_pc s); tauto. Qed.

Lemma step_ct n w0 t : Inv n w0 -> CInv w0 -> ct_state (get w0 t) -> ct_state (get (fst (step w0 t)) t).
Proof.
  intros H0 HC HT.
  apply (begin_op_ct _ t) in HT. apply (begin_op_cinv _ t) in HC. apply (begin_op_inv _ _ t) in H0.
  unfold step. revert H0 HC HT. generalize (begin_op w0 t). clear w0. intros w H0 [H4 _] HT. cbv zeta.
  destruct (Nat.lt_ge_cases t (length (thr w))) as [Ht|Ht].
  2:{ rewrite (get_oob w t Ht) in *. change (t_pc dflt_t) with Idle. cbv iota. cbn [fst].
      rewrite (get_oob w t Ht). exact HT. }
  pose proof H0 as (_ & _ & Hok). specialize (Hok t). apply pc_ok_held in Hok.
  pose proof (unlock_bad_held n w t) as UB. specialize (fun m => UB m H0).
  destruct (get w t) as [p ops h sl lt] eqn:Hs.
  pose proof Hs as Hs'. unfold get in Hs'. rewrite Hs' in Hok.
  unfold ct_state in HT. cbn [t_pc t_ops held sleeps last_try] in *.
  destruct p as [ | m | m | m old | m | m | m old | m l | m l old | m l old | m l | m l | m l old | m l | m l
                | m | m | m old | m | m old | m old | m u | m u old | m u | m q u | why ];
    try subst h;
    try (unfold cas; brk; cbn [fst]; try rewrite Hs; normt Hs' Ht; unfold ct_state; cbn [t_pc t_ops held];
         lazymatch type of HT with
         | _ /\ _ => destruct HT as [-> HF]; first [apply HF | split; [reflexivity | exact HF]]
         | _ => exact HT
         end; fail).
  - (* UlLoad *) rewrite (UB m eq_refl).
    destruct (unlock_try_cas2 m (word w)); cbn [fst]; normt Hs' Ht; unfold ct_state; cbn [t_pc t_ops held]; exact HT.
  - (* UsLoad *) rewrite has_condition, H4. brk; cbn [fst]; try rewrite Hs; normt Hs' Ht;
      unfold ct_state; cbn [t_pc t_ops held]; exact HT.
Qed.

Lemma run_ct n (Hn : Z.of_nat n < 16777215) t sched : forall w,
  Inv n w -> CInv w -> ct_state (get w t) -> ct_state (get (run w sched) t).
Proof.
  unfold run. induction sched as [|t' rest IH]; intros w H HC HT; cbn [fold_left]; [exact HT|].
  apply IH; [apply step_inv; assumption | eapply step_cinv; eassumption |].
  destruct (Nat.eq_dec t t') as [<-|N]; [eapply step_ct; eassumption | rewrite step_frame by exact N; exact HT].
Qed.

Lemma init_get progs t : get (init progs) t = mk_t Idle (nth t progs []) None 0 None.
Proof.
  unfold get, init; cbn [thr].
  change dflt_t with ((fun p => mk_t Idle p None 0 None) []). rewrite map_nth. reflexivity.
Qed.

Lemma reachable_ct progs sched t : Z.of_nat (length progs) < 2 ^ 24 - 1 ->
  f None (nth t progs []) = true -> ct_state (get (run (init progs) sched) t).
Proof.
  intros Hn Hf. apply (run_ct (length progs) Hn); [apply init_inv | apply init_cinv |].
  rewrite init_get. exact Hf.
Qed.

End Contract.

Lemma wb_lock h m r : wb h (OLock m :: r) = true -> h = None /\ wb (Some m) r = true.
Proof. cbn [wb]. destruct h; [discriminate | auto]. Qed.
Lemma wb_try h m r : wb h (OTry m :: r) = true -> h = None /\ r = [] /\ forall h', wb h' [] = true.
Proof. cbn [wb]. destruct h, r; try discriminate; auto. Qed.
Lemma wb_unlock h r : wb h (OUnlock :: r) = true -> h <> None /\ wb None r = true.
Proof. cbn [wb]. destruct h; [intros H; split; [discriminate | exact H] | discriminate]. Qed.

Lemma bal_lock h m r : bal h (OLock m :: r) = true -> h = None /\ bal (Some m) r = true.
Proof. cbn [bal]. destruct h; [discriminate | auto]. Qed.
Lemma bal_try h m r : bal h (OTry m :: r) = true -> h = None /\ r = [] /\ forall h', bal h' [] = true.
Proof. cbn [bal]. discriminate. Qed.
Lemma bal_unlock h r : bal h (OUnlock :: r) = true -> h <> None /\ bal None r = true.
Proof. cbn [bal]. destruct h; [intros H; split; [discriminate | exact H] | discriminate]. Qed.

(* ================================================================== *)
(* Part E: no panic                                                    *)
(* ================================================================== *)

Lemma run_app w a b : run w (a ++ b) = run (run w a) b.
Proof. unfold run. apply fold_left_app. Qed.

Lemma run_snoc w a t : run w (a ++ [t]) = fst (step (run w a) t).
Proof. rewrite run_app. reflexivity. Qed.

Lemma reachable_all progs sched : Z.of_nat (length progs) < 2 ^ 24 - 1 ->
  let w := run (init progs) sched in Inv (length progs) w /\ CInv w.
Proof. intros H. split; [apply reachable_inv, H | apply reachable_cinv, H]. Qed.

(* every Crash pc of a reachable world was entered by a step that began an operation breaking the client contract *)
Lemma crash_history : forall progs sched t k,
  Z.of_nat (length progs) < 2 ^ 24 - 1 ->
  t_pc (get (run (init progs) sched) t) = Crash k ->
  exists s1 s2, sched = s1 ++ t :: s2 /\ client_error (get (run (init progs) s1) t) k.
Proof.
  intros progs sched t k Hn. induction sched as [|x l IH] using rev_ind; intros E.
  - change (run (init progs) []) with (init progs) in E. rewrite init_get in E. discriminate E.
  - rewrite run_snoc in E. destruct (Nat.eq_dec t x) as [<-|N].
    + destruct (reachable_all progs l Hn) as [H0 HC].
      destruct (step_crash_origin _ _ t k H0 HC E) as [E' | CE].
      * destruct (IH E') as (s1 & s2 & -> & CE). exists s1, (s2 ++ [t]). split; [|exact CE].
        rewrite <- app_assoc. reflexivity.
      * exists l, []. split; [reflexivity | exact CE].
    + rewrite step_frame in E by exact N. destruct (IH E) as (s1 & s2 & -> & CE).
      exists s1, (s2 ++ [x]). split; [|exact CE]. rewrite <- app_assoc. reflexivity.
Qed.

Lemma client_error_code s k : client_error s k -> client_crash k.
Proof. intros (_ & o & rest & _ & [(-> & _) | (-> & _)]); [left | right]; reflexivity. Qed.

(* the internal checks never fire: ANY programs, contract-respecting or not *)
Lemma no_internal_panic : forall progs sched t k,
  Z.of_nat (length progs) < 2 ^ 24 - 1 ->
  t_pc (get (run (init progs) sched) t) = Crash k -> client_crash k.
Proof.
  intros progs sched t k Hn E. destruct (crash_history progs sched t k Hn E) as (s1 & s2 & _ & CE).
  exact (client_error_code _ _ CE).
Qed.

Definition well_bracketed (progs : list (list op)) : Prop := Forall (fun p => wb None p = true) progs.
Definition balanced (progs : list (list op)) : Prop := Forall (fun p => bal None p = true) progs.

Lemma Forall_nth_nil (Q : list op -> Prop) progs t : Q [] -> Forall Q progs -> Q (nth t progs []).
Proof.
  intros Q0 H. destruct (Nat.lt_ge_cases t (length progs)) as [L|G].
  - rewrite Forall_forall in H. apply H, nth_In, L.
  - rewrite nth_overflow by exact G. exact Q0.
Qed.

Lemma balanced_well_bracketed progs : balanced progs -> well_bracketed progs.
Proof. unfold balanced, well_bracketed. apply Forall_impl. intros p. apply bal_wb. Qed.

(* a thread whose own program respects the contract never panics, whatever the other threads do *)
Lemma no_panic_thread : forall progs sched t k,
  Z.of_nat (length progs) < 2 ^ 24 - 1 ->
  wb None (nth t progs []) = true ->
  t_pc (get (run (init progs) sched) t) <> Crash k.
Proof.
  intros progs sched t k Hn Hw E.
  pose proof (reachable_ct wb wb_lock wb_try wb_unlock progs sched t Hn Hw) as C.
  unfold ct_state in C. rewrite E in C. exact C.
Qed.

Lemma no_panic : forall progs sched t k,
  Z.of_nat (length progs) < 2 ^ 24 - 1 -> well_bracketed progs ->
  t_pc (get (run (init progs) sched) t) <> Crash k.
Proof.
  intros progs sched t k Hn Hw. apply no_panic_thread; [exact Hn|].
  apply (Forall_nth_nil (fun p => wb None p = true)); [reflexivity | exact Hw].
Qed.

Lemma panic_only_by_client_error : forall progs sched t k,
  Z.of_nat (length progs) < 2 ^ 24 - 1 ->
  let w := run (init progs) sched in
  t_pc (get w t) = Crash k ->
  client_crash k /\ wb None (nth t progs []) = false /\
  ((k = 1 /\ held (get w t) = None) \/ (k = 4 /\ held (get w t) <> None)) /\
  exists s1 s2, sched = s1 ++ t :: s2 /\ client_error (get (run (init progs) s1) t) k.
Proof.
  intros progs sched t k Hn w E.
  pose proof (crash_history progs sched t k Hn E) as Hist.
  split; [exact (no_internal_panic progs sched t k Hn E)|]. split.
  { destruct (wb None (nth t progs [])) eqn:Hw; [|reflexivity].
    elim (no_panic_thread progs sched t k Hn Hw E). }
  split; [|exact Hist]. clear Hist. subst w. revert E.
  induction sched as [|x l IH] using rev_ind; intros E.
  - change (run (init progs) []) with (init progs) in E. rewrite init_get in E. discriminate E.
  - rewrite run_snoc in *. destruct (Nat.eq_dec t x) as [<-|N].
    + destruct (reachable_all progs l Hn) as [H0 HC].
      rewrite (step_crash_held _ _ t k H0 HC E).
      destruct (step_crash_origin _ _ t k H0 HC E) as [E' | (_ & o & rest & _ & D)]; [exact (IH E')|].
      destruct D as [(-> & _ & Eh) | (-> & _ & Eh)]; [left | right]; auto.
    + rewrite step_frame in * by exact N. exact (IH E).
Qed.

(* the client errors do panic: unlocking a mutex one does not hold, re-acquiring a mutex one holds, and a trylock
   whose result is ignored *)
Lemma panic_unlock_not_held : t_pc (get (run (init [[OUnlock]]) [0%nat]) 0) = Crash 1.
Proof. vm_compute. reflexivity. Qed.
Lemma panic_relock : t_pc (get (run (init [[OLock W; OLock W]]) [0; 0]%nat) 0) = Crash 4.
Proof. vm_compute. reflexivity. Qed.
Lemma panic_try_ignored :
  t_pc (get (run (init [[OTry W; OUnlock]; [OLock W]]) [1; 0; 0; 0]%nat) 0) = Crash 1.
Proof. vm_compute. reflexivity. Qed.

(* ================================================================== *)
(* Part F: balanced programs                                           *)
(* ================================================================== *)

Definition h_crashed (w : world) (t : nat) : Prop := exists k, t_pc (get w t) = Crash k.
(* every thread is asleep in a semaphore P with count 0, finished, or dead: no thread executes instructions *)
Definition h_stuck (w : world) : Prop :=
  forall t, (t < nthreads w)%nat -> h_asleep w t \/ h_done w t \/ h_crashed w t.

(* such threads indeed do not move *)
Lemma stuck_no_move w t : h_asleep w t \/ h_done w t \/ h_crashed w t -> fst (step w t) = w.
Proof.
  intros [A | [[Ep Eo] | [k Ek]]].
  - destruct (asleep_pc w t A) as (m & l & Pt & St). unfold P in Pt.
    unfold step. rewrite begin_op_nonidle by (rewrite Pt; discriminate). cbv zeta. rewrite Pt, St. reflexivity.
  - assert (begin_op w t = w) as Eb by (unfold begin_op; cbv zeta; rewrite Ep, Eo; reflexivity).
    unfold step. rewrite Eb. cbv zeta. rewrite Ep. reflexivity.
  - unfold step. rewrite begin_op_nonidle by (rewrite Ek; discriminate). cbv zeta. rewrite Ek. reflexivity.
Qed.

(* a finished thread of a balanced program holds nothing *)
Lemma balanced_done_holds_nothing : forall progs sched t,
  Z.of_nat (length progs) < 2 ^ 24 - 1 -> bal None (nth t progs []) = true ->
  let w := run (init progs) sched in
  h_done w t -> held (get w t) = None.
Proof.
  intros progs sched t Hn Hb w [Ep Eo].
  pose proof (reachable_ct bal bal_lock bal_try bal_unlock progs sched t Hn Hb) as C. fold w in C.
  unfold ct_state in C. rewrite Ep, Eo in C. destruct (held (get w t)); [discriminate C | reflexivity].
Qed.

(* a sleeping thread holds nothing (the model stops a thread that re-acquires: Crash 4) *)
Lemma asleep_holds_nothing n w t : Inv n w -> h_asleep w t -> held (get w t) = None.
Proof.
  intros (_ & _ & Hok) A. destruct (asleep_pc w t A) as (m & l & Pt & _). unfold P in Pt.
  specialize (Hok t). fold (get w t) in Hok. unfold pc_ok in Hok. rewrite Pt in Hok. tauto.
Qed.

Lemma balanced_quiescent_done : forall progs sched,
  Z.of_nat (length progs) < 2 ^ 24 - 1 -> balanced progs ->
  let w := run (init progs) sched in
  h_stuck w -> forall t, (t < nthreads w)%nat -> h_done w t.
Proof.
  intros progs sched Hn Hb w S.
  assert (h_quiescent w) as Q.
  { intros t Ht. destruct (S t Ht) as [A | [D | [k Ek]]]; [now left | now right | exfalso].
    exact (no_panic progs sched t k Hn (balanced_well_bracketed _ Hb) Ek). }
  intros t Ht. destruct (Q t Ht) as [A | D]; [exfalso | exact D].
  destruct (no_lost_handoff progs sched Hn Q t A) as ([t' Hh] & _). fold w in Hh.
  assert (held (get w t') <> None) as NH by (destruct Hh as [Hh | Hh]; unfold holds in Hh; rewrite Hh; discriminate).
  assert (t' < nthreads w)%nat as Ht'.
  { destruct (Nat.lt_ge_cases t' (nthreads w)) as [L|G]; [exact L | exfalso].
    apply NH. unfold get. rewrite nth_overflow by exact G. reflexivity. }
  apply NH. destruct (Q t' Ht') as [A' | D'].
  - exact (asleep_holds_nothing _ w t' (reachable_inv progs sched Hn) A').
  - apply (balanced_done_holds_nothing progs sched t' Hn); [|exact D'].
    apply (Forall_nth_nil (fun p => bal None p = true)); [reflexivity | exact Hb].
Qed.

(* ================================================================== *)
(* Part G: the releasing steps and their site ordinals                 *)
(* ================================================================== *)

(* event site id = 100 * function + ordinal of the atomic site inside the function (Gen/Sites.v numbering);
   7 = nsync_mu_unlock, 8 = nsync_mu_runlock, 9 = nsync_mu_unlock_slow_ *)
Lemma release_step_sites w t :
  match t_pc (get w t) with
  | UlFast m => exists ok, snd (step w t) = EvCas (fid_unlock m + 1) (ufast_old m) (ufast_new m) ok
  | UlCas2 m old => exists ok, snd (step w t) = EvCas (fid_unlock m + 3) old (unlock_new2 m old) ok
  | UsCasRel m old => exists ok, snd (step w t) = EvCas 902 old (nsync_mu_unlock_slow_cas1_new old (lt_of m)) ok
  | UsCasSpin m old =>
      exists ok, snd (step w t) = EvCas 903 old (nsync_mu_unlock_slow_cas2_new old (lt_add_to_acquire (lt_of m))) ok
  | UsRelLoad _ _ => snd (step w t) = EvLoad 904 (word w)
  | UsRelCas m u old =>
      exists ok, snd (step w t) =
                 EvCas 905 old (nsync_mu_unlock_slow_cas3_new old (late u) (set_on u) (clear_on u)) ok
  | UsWakeStore _ u => match wake u with [] => True | p :: _ => snd (step w t) = EvStoreWaiting p 0 end
  | UsWakeV _ p _ => snd (step w t) = EvV p
  | _ => True
  end.
Proof.
  destruct (t_pc (get w t)) eqn:Ep; try exact I;
    unfold step; rewrite begin_op_nonidle by (rewrite Ep; discriminate); cbv zeta; rewrite Ep; unfold cas;
    brk; cbn [snd]; eauto.
Qed.

(* ================================================================== *)
(* Part H: examples                                                    *)
(* ================================================================== *)

(* --- C02c: a balanced 3-thread program; both waiters sleep, are woken in turn, everybody finishes --- *)
Definition bq_progs : list (list op) := [[OLock W; OUnlock]; [OLock W; OUnlock]; [OLock R; OUnlock]].
Definition bq_sched : list nat :=
  (0 :: repeat 1 8 ++ repeat 2 8 ++ repeat 0 8 ++ repeat 1 12 ++ repeat 2 5)%nat.

Lemma balanced_example :
  Z.of_nat (length bq_progs) < 2 ^ 24 - 1 /\ balanced bq_progs /\
  (* after the first 17 steps threads 1 and 2 are asleep behind holder 0 ... *)
  (let w := run (init bq_progs) (firstn 17 bq_sched) in
   holds w 0%nat W /\ h_asleep w 1%nat /\ h_asleep w 2%nat /\ queue w = [1; 2]%nat) /\
  (* ... and at the end nothing can move and everybody is done *)
  (let w := run (init bq_progs) bq_sched in
   h_stuck w /\ (forall t, (t < nthreads w)%nat -> h_done w t) /\ word w = 0 /\ queue w = []).
Proof.
  split; [vm_compute; reflexivity|]. split; [repeat constructor|]. split.
  - cbv zeta. repeat split; vm_compute; reflexivity.
  - cbv zeta.
    assert (forall t, (t < nthreads (run (init bq_progs) bq_sched))%nat -> h_done (run (init bq_progs) bq_sched) t) as D.
    { intros t Ht. vm_compute in Ht. destruct t as [|[|[|t]]]; [| | | lia]; vm_compute; auto. }
    split; [intros t Ht; right; left; exact (D t Ht)|]. split; [exact D|]. split; vm_compute; reflexivity.
Qed.

(* --- C14: LONG_WAIT_THRESHOLD = 30 failed wake-ups of a victim, then the barrier --- *)
Definition lw_pairs (k : nat) : list op := concat (repeat [OLock W; OUnlock] k).
(* thread 0 = adversary (31 lock/unlock pairs), thread 1 = victim, thread 2 = a locker that arrives later *)
Definition lw_progs : list (list op) := [lw_pairs 31; [OLock W; OUnlock]; [OLock W; OUnlock]].
(* one adversarial round: the adversary releases (8 steps: the slow path wakes the victim), immediately re-acquires
   through the fast path (3 steps), and only then the victim runs: wakes up, fails, re-queues in front, sleeps (8) *)
Definition lw_round : list nat := (repeat 0 11 ++ repeat 1 8)%nat.
(* the adversary acquires, the victim queues and sleeps, then 30 rounds *)
Definition lw_sched30 : list nat := (0 :: repeat 1 8 ++ concat (repeat lw_round 30))%nat.
(* ... then the adversary releases once more (and does not come back) *)
Definition lw_sched : list nat := (lw_sched30 ++ repeat 0 8)%nat.

Lemma long_wait_example :
  Z.of_nat (length lw_progs) < 2 ^ 24 - 1 /\
  (* after 30 rounds: the word is WLOCK | WAITING | WRITER_WAITING | LONG_WAIT = 101, the victim sleeps with
     wait count 30 *)
  (let w := run (init lw_progs) lw_sched30 in
   word w = 101 /\ has (word w) MU_LONG_WAIT = true /\ holds w 0%nat W /\ h_asleep w 1%nat /\
   exists l, t_pc (get w 1%nat) = LsSemP W l /\ wcount l = LONG_WAIT_THRESHOLD /\ longw l = MU_LONG_WAIT) /\
  (* after the release: the lock is FREE, MU_LONG_WAIT is still set, thread 2 is fresh ... *)
  (let w := run (init lw_progs) lw_sched in
   word w = 72 /\ has (word w) MU_LONG_WAIT = true /\ (forall t, held (get w t) = None) /\
   fresh w 2%nat /\
   (* ... its whole nsync_mu_lock attempt (8 steps, up to its sleep) never acquires: it queues ... *)
   (forall k, (k <= 8)%nat -> held (get (run w (repeat 2%nat k)) 2%nat) = None) /\
   (let w1 := run w (repeat 2%nat 8) in
    h_asleep w1 2%nat /\ queue w1 = [2%nat] /\ has (word w1) MU_LONG_WAIT = true /\
    (* ... while the victim, running after it, acquires *)
    let w2 := run w1 (repeat 1%nat 4) in
    holds w2 1%nat W /\ h_asleep w2 2%nat /\ queue w2 = [2%nat] /\ has (word w2) MU_LONG_WAIT = false)).
Proof.
  split; [vm_compute; reflexivity|]. split.
  - cbv zeta. split; [vm_compute; reflexivity|]. split; [vm_compute; reflexivity|].
    split; [vm_compute; reflexivity|]. split; [vm_compute; reflexivity|].
    eexists. split; [vm_compute; reflexivity|]. split; vm_compute; reflexivity.
  - cbv zeta. split; [vm_compute; reflexivity|]. split; [vm_compute; reflexivity|]. split.
    { intros t. destruct t as [|[|[|t]]]; try (vm_compute; reflexivity).
      unfold get. rewrite nth_overflow; [reflexivity|]. vm_compute. lia. }
    split; [vm_compute; exact I|]. split.
    { intros k Hk. do 9 (destruct k as [|k]; [vm_compute; reflexivity|]). lia. }
    split; [vm_compute; reflexivity|]. split; [vm_compute; reflexivity|]. split; [vm_compute; reflexivity|].
    split; [vm_compute; reflexivity|]. split; [vm_compute; reflexivity|]. split; vm_compute; reflexivity.
Qed.

(* --- C13: a release that takes the early-release path (spinlock-taking CAS 903) with waiters left on the queue --- *)
Definition er_progs : list (list op) := bq_progs.
Definition er_sched : list nat := (0 :: repeat 1 8 ++ repeat 2 8 ++ repeat 0 4)%nat.

Lemma early_release_example :
  Z.of_nat (length er_progs) < 2 ^ 24 - 1 /\
  let w := run (init er_progs) er_sched in
  exists u, t_pc (get w 0%nat) = UsRelLoad W u /\ wake u = [1%nat] /\ queue w = [2%nat] /\
            held (get w 0%nat) = None /\ has (word w) MU_SPINLOCK = true /\
            word w mod 2 = 0 /\ word w / 256 = 0.
Proof.
  split; [vm_compute; reflexivity|]. cbv zeta. eexists. split; [vm_compute; reflexivity|].
  repeat split; vm_compute; reflexivity.
Qed.
