(* NoteDesc2: the invariant that ties the ghost creation path (cpath) to the live tree across adoptions, and
   C08_descendants_full (Props/Properties_C08b.v).

   KInv: for every note m that is "in scope" (its word is 0 and its expiry positive, or it still has children), fully
   compared with its parent (comp), and not past the unlink of its own nsync_note_free (gone), and every strict
   creation-time ancestor a of m:  either a is dead (freed, or its nsync_note_free is past the wait for disconnecting == 0)
   AND a's word is still 0, or m is currently linked (parent m = Some r) under a note r that has a on ITS creation path.
   The escape "dead" is not available for a notified ancestor: a note is never notified after its nsync_note_free has
   passed the wait (dead_no_fc), so at the moment a's word is stored every in-scope creation descendant hangs below a.
   Continues Proof/NoteDesc.v. *)
From Coq Require Import String.
From NsyncBase Require Import CSem.
From NsyncGen Require Import Consts Sites.
From NsyncModel Require Import NoteModel.
From NsyncProof Require Import NoteProof NoteProof2 NoteProof3 NoteProof4 NoteProof5 NoteProof6 NoteProof7 NoteDesc.
From Coq Require Import List ZArith Bool Lia Arith.
Import ListNotations.
Local Open Scope Z_scope.

(* ------------------------------------------------------------------------------------------------ *)
Definition fdone (P : fstg -> bool) (w : world) (n : nat) : Prop :=
  In n (freed (gh w)) \/ exists t s par, In (FF n s par) (stk w t) /\ P s = true.
Definition dead := fdone late.       (* freed, or nsync_note_free (n) is past its nsync_mu_wait (not_disconnecting) *)
Definition gone := fdone post.       (* freed, or nsync_note_free (n) has unlinked n from its parent *)
(* nsync_note_new has made its comparison with the parent (or the note is complete) *)
Definition comp (w : world) (m : nat) : Prop :=
  forall t par dl s, In (ANew par dl s) (stk w t) -> uc_of (ANew par dl s) = Some m -> exists p, s = W4 m p.
Definition unn (w : world) (m : nat) : Prop := flag (nt w m) = 0 /\ tpos (expiry (nt w m)) = true.
Definition scope (w : world) (m : nat) : Prop := unn w m \/ children (nt w m) <> [].
Definition esc (w : world) (a : nat) : Prop := dead w a /\ flag (nt w a) = 0.
Definition linked (w : world) (m a : nat) : Prop := exists r, parent (nt w m) = Some r /\ cpath w r a.
Definition KInv (w : world) : Prop :=
  forall m a, (m < nnext w)%nat -> scope w m -> comp w m -> ~ gone w m -> cpath w m a -> a <> m -> esc w a \/ linked w m a.
Definition EInv (w : world) : Prop := forall t f, In f (stk w t) -> fokE w f.
(* a note with waiters has a positive expiry time and is past its comparison *)
Definition WInv (w : world) : Prop :=
  forall m, (m < nnext w)%nat -> waiters (nt w m) <> [] -> tpos (expiry (nt w m)) = true /\ comp w m.

(* ---------- small facts ---------- *)
Lemma tpos_tmin a b : tpos (tmin a b) = true -> tpos a = true /\ tpos b = true.
Proof.
  unfold tmin. destruct a as [x|], b as [y|]; cbn; auto.
  destruct (Z.ltb_spec x y); cbn; intros Hp; apply Z.ltb_lt in Hp; split; apply Z.ltb_lt; lia.
Qed.
Lemma cpath_same w w' : (forall n, cpar (nt w' n) = cpar (nt w n)) -> forall m a, cpath w m a -> cpath w' m a.
Proof. intros E m a H. induction H; [constructor|]. econstructor; eauto. rewrite E. exact H. Qed.
Lemma cpath_back t w w' m a : ext t w w' -> cpar_lt w -> (m < nnext w)%nat -> cpath w' m a -> cpath w m a.
Proof.
  intros E L Hm H. induction H; [constructor|].
  destruct (x_imm _ _ _ E n Hm) as [_ E2]. rewrite E2 in H. pose proof (L _ _ Hm H).
  econstructor; [exact H|]. apply IHcpath. lia.
Qed.
Lemma cpath_inv w m a : cpath w m a -> a = m \/ exists p, cpar (nt w m) = Some p /\ cpath w p a.
Proof. intros H. destruct H; [left; reflexivity|right; eauto]. Qed.
Lemma shape_suffix l1 l : shape (l1 ++ l) -> shape l.
Proof. induction l1 as [|f r IH]; [auto|]. intros Sh. apply IH. eapply shape_tail. exact Sh. Qed.
Lemma top_stk w t f : shape (stk w t) -> top w t = Some f -> bottom_ok f -> stk w t = [f].
Proof.
  unfold top. intros Sh Ht Hb. destruct (stk w t) as [|g r]; [discriminate|]. cbn in Ht. inversion Ht; subst.
  rewrite (shape_bottom _ _ Sh Hb). reflexivity.
Qed.
Lemma new_unique st par dl s par' dl' s' :
  shape st -> In (ANew par dl s) st -> In (ANew par' dl' s') st -> par' = par /\ dl' = dl /\ s' = s.
Proof.
  intros Sh H1 H2. pose proof (bottom_of _ _ Sh H1 Logic.I) as B1. pose proof (bottom_of _ _ Sh H2 Logic.I) as B2.
  rewrite B1 in B2. inversion B2. auto.
Qed.

(* ---------- dead / gone are stable ---------- *)
Lemma fdone_step1 P w t c n :
  P = late \/ P = post -> InvA w -> fdone P w n -> fdone P (fst (step1 w t c)) n.
Proof.
  intros HP I [Hf|(t0 & s & par & Hin & Hs)]; pose proof (step1_ext w t c) as E.
  - left. eapply x_freed; eauto.
  - destruct (Nat.eq_dec t0 t) as [->|Ht0].
    + destruct (step1_ff_forward w t c n s par (ia_shape _ I t) Hin) as [Hfr|(s' & par' & Hin' & L1 & L2)]; [left; exact Hfr|].
      right. exists t, s', par'. split; [exact Hin'|]. destruct HP; subst P; auto.
    + right. exists t0, s, par. rewrite (stk_other _ _ _ _ E Ht0). auto.
Qed.

(* a note is not notified after its nsync_note_free has passed the wait for disconnecting == 0 *)
Lemma dead_no_fc w a t par s :
  InvA w -> InvU w -> dead w a -> In (FC a par s) (stk w t) -> False.
Proof.
  intros I U Hd Hin. pose proof (iu_priv _ U) as P.
  assert (lref_of w t a) as Hl by (exists (FC a par s); split; [exact Hin|cbn; auto]).
  destruct Hd as [Hf|(t0 & s0 & par0 & Hin0 & Hs0)].
  - destruct (p_dead _ P a Hf) as [_ Hun]. exact (Hun t Hl).
  - destruct (Nat.eq_dec t0 t) as [->|Ht0].
    + (* same thread: the FF frame is below the FC frame, which works on a proper descendant *)
      pose proof (ia_shape _ I t) as Sh.
      destruct (in_split _ _ Hin) as (l1 & l2 & Hst).
      assert (In (FF a s0 par0) l2) as Hin2.
      { rewrite Hst in Hin0. apply in_app_or in Hin0. destruct Hin0 as [Hx|[Hx|Hx]]; [|discriminate Hx|exact Hx].
        exfalso. destruct (in_split _ _ Hx) as (k1 & k2 & Hk). rewrite Hst, Hk, <- app_assoc in Sh. apply shape_suffix in Sh.
        cbn [app] in Sh. pose proof (shape_bottom _ _ Sh Logic.I) as Hn. destruct k2; discriminate Hn. }
      rewrite Hst in Sh. apply shape_suffix in Sh.
      assert (forall f, In f (FC a par s :: l2) -> In f (stk w t)) as Sub.
      { intros f Hf. rewrite Hst. apply in_or_app. right. exact Hf. }
      assert (a < a)%nat; [|lia].
      apply (chain_below w (iu_tree _ U) l2 a par s Sh).
      * intros f Hf. apply (iu_fr _ U t). auto.
      * intros f Hf. pose proof (ia_fok _ I t f (Sub f Hf)) as F. destruct f; cbn [fok] in F; tauto.
      * apply in_flat_map. exists (FF a s0 par0). split; [exact Hin2|].
        pose proof (shape_incall _ _ Sh _ Hin2) as Hc. destruct s0; cbn in Hc; try contradiction. cbn. auto.
    + destruct (in_disc s0) eqn:Ed.
      * pose proof (tcount_ge w t0 _ a Hin0) as C0. cbn [ncontrib] in C0. rewrite Ed, Nat.eqb_refl in C0. cbn in C0.
        specialize (C0 ltac:(lia)).
        pose proof (fc_contrib w (stk w t) a par s (ia_shape _ I t) (iu_fr _ U t) Hin) as C1.
        destruct (iu_disc _ U t0 a ltac:(lia)) as [_ Ho]. specialize (Ho t ltac:(congruence)). unfold tcount in Ho. lia.
      * destruct s0; try discriminate Ed; try discriminate Hs0.
        destruct (p_ret _ P t0 par0 a Hin0) as [_ Hun]. exact (Hun t ltac:(congruence) Hl).
Qed.

(* ---------- what is known when nsync_note_free (r) looks at its child m ---------- *)
Lemma free_child_facts w t r s par m nx :
  InvA w -> InvU w -> InvD w -> top w t = Some (FF r s par) -> s = F6 m nx \/ s = F7 m nx ->
  stk w t = [FF r s par] /\ (r < nnext w)%nat /\ parent (nt w m) = Some r /\ (r < m)%nat /\
  (forall p, par = Some p -> parent (nt w r) = Some p /\ (p < r)%nat) /\ (par = None -> parent (nt w r) = None) /\
  scope w r /\ comp w r /\ ~ gone w r /\ esc w r.
Proof.
  intros I U D Ht Hs. pose proof (iu_priv _ U) as P. destruct (iu_tree _ U) as (T1 & T2 & T3 & T0).
  pose proof (top_stk w t _ (ia_shape _ I t) Ht Logic.I) as Hst.
  pose proof (top_In _ _ _ Ht) as Hin.
  pose proof (ia_fok _ I _ _ Hin) as FA. pose proof (iu_fr _ U _ _ Hin) as FU.
  assert ((r < nnext w)%nat /\ In m (children (nt w r)) /\
          (forall p, par = Some p -> parent (nt w r) = Some p) /\ (par = None -> parent (nt w r) = None)) as (Hr & Hc & Fp & Fn).
  { destruct Hs as [-> | ->]; cbn [fok fokU] in FA, FU; destruct FA as (Hr & _); destruct FU as ((Fp & Fn) & (Hc & _) & _); auto. }
  pose proof (T2 r m Hr Hc) as Hpm.
  assert (m < nnext w)%nat as Hm by (destruct (ia_chl _ I r m Hr Hc); auto).
  pose proof (T0 m r Hm Hpm) as Hlt.
  assert (lref_of w t r) as Hl by (exists (FF r s par); split; [exact Hin|cbn; auto]).
  assert (dead w r) as Hd.
  { right. exists t, s, par. split; [exact Hin|]. destruct Hs as [-> | ->]; reflexivity. }
  split; [exact Hst|]. split; [exact Hr|]. split; [exact Hpm|]. split; [exact Hlt|].
  split; [intros p Hp; split; [auto|apply (T0 r p Hr); auto]|]. split; [exact Fn|].
  split; [right; intros E; rewrite E in Hc; destruct Hc|].
  split; [|split].
  - intros t0 par0 dl0 s0 Hin0 Hu0. exfalso.
    destruct (Nat.eq_dec t0 t) as [->|Ht0].
    + rewrite Hst in Hin0. destruct Hin0 as [Hx|[]]. discriminate Hx.
    + eapply (p_uc _ P t0 _ r Hin0 Hu0 t (FF r s par)); auto. cbn. auto.
  - intros [Hf|(t0 & s0 & par0 & Hin0 & Hs0)].
    + destruct (p_dead _ P r Hf) as [_ Hun]. exact (Hun t Hl).
    + destruct (Nat.eq_dec t0 t) as [->|Ht0].
      * rewrite Hst in Hin0. destruct Hin0 as [Hx|[]]. inversion Hx; subst. destruct Hs as [-> | ->]; discriminate Hs0.
      * apply (p_k1 _ P t0 t r s0 par0 Ht0 Hin0). rewrite Hst. reflexivity.
  - split; [exact Hd|]. destruct (Z.eq_dec (flag (nt w r)) 0) as [E|E]; [exact E|]. exfalso.
    destruct (d_ch _ D r Hr E) as (t' & par' & s' & Hin' & _); [intros E0; rewrite E0 in Hc; destruct Hc|].
    eapply dead_no_fc; eauto.
Qed.

(* ---------- comp is stable ---------- *)
Lemma comp_step1 w t c m : InvA w -> (m < nnext w)%nat -> comp w m -> comp (fst (step1 w t c)) m.
Proof.
  intros I Hm C t0 par dl s Hin Hu. pose proof (step1_ext w t c) as E.
  destruct (Nat.eq_dec t0 t) as [->|Ht0]; [|rewrite (stk_other _ _ _ _ E Ht0) in Hin; eauto].
  destruct (step1_new_frame w t c par dl s m (ia_shape _ I t) Hin Hu) as [(-> & _)|(s0 & Hin0 & Hu0 & _ & Hun & _)]; [lia|].
  destruct (C t par dl s0 Hin0 Hu0) as (p & ->).
  destruct s; cbn in Hu; inversion Hu; subst; eauto; exfalso.
  - destruct (Hun (or_introl eq_refl)) as [X|(q & e & [X|X])]; discriminate X.
  - destruct (Hun (or_intror (ex_intro _ p0 (ex_intro _ e (or_introl eq_refl))))) as [X|(q & e' & [X|X])]; discriminate X.
  - destruct (Hun (or_intror (ex_intro _ p0 (ex_intro _ e (or_intror eq_refl))))) as [X|(q & e' & [X|X])]; discriminate X.
Qed.

(* ------------------------------------------------------------------------------------------------ *)
(* KInv is preserved by the step proper *)
Lemma KInv_step1 w t c :
  InvC w -> InvD w -> broken (gh w) = false -> KInv w -> EInv w -> KInv (fst (step1 w t c)).
Proof.
  intros C D B K FE. pose proof C as (I & H & N & U0). pose proof (U0 B) as U.
  pose proof (step1_ext w t c) as E.
  pose proof (InvC_step1 w t c C) as (I' & H' & N' & U0').
  assert (broken (gh (fst (step1 w t c))) = false) as B' by (destruct (step1_ghost w t c) as (Eb & _); rewrite Eb; exact B).
  pose proof (U0' B') as U'.
  pose proof (ia_shape _ I t) as Sh. pose proof (ia_lt _ I) as Hlt.
  destruct (iu_tree _ U) as (T1 & T2 & T3 & T0).
  intros m a Hm' Sc' Cp' Ng' Pa' Hne.
  (* m is not the note allocated in this step *)
  assert (m < nnext w)%nat as Hm.
  { destruct (step1_nnext w t c) as [Eq|(par & dl & rest & Hst & Eq & _)]; [lia|].
    destruct (Nat.eq_dec m (nnext w)) as [->|]; [|lia]. exfalso.
    assert (In (ANew par dl (WD (nnext w))) (stk (fst (step1 w t c)) t)) as Hin.
    { revert Eq. unfold step1, get. unfold stk in Hst. rewrite Hst. unfold step_New. destruct c; cbn [fst].
      - rewrite nnext_finish. lia.
      - intros _. change (stack (thr ?W t)) with (stk W t). rewrite stk_setst. right; left; reflexivity. }
    destruct (Cp' t par dl _ Hin eq_refl) as (p & Hp). discriminate Hp. }
  assert (cpath w m a) as Pa by (eapply cpath_back; eauto).
  pose proof (cpath_le _ _ _ Hlt Hm Pa) as Ham.
  assert (~ gone w m) as Ng by (intros G; apply Ng'; apply fdone_step1; auto).
  assert (forall x, (x < nnext w)%nat -> esc w x -> esc (fst (step1 w t c)) x) as EscKeep.
  { intros x Hx [Hd Hf]. split; [apply fdone_step1; auto|].
    destruct (Z.eq_dec (flag (nt (fst (step1 w t c)) x)) 0) as [E0|E0]; [exact E0|]. exfalso.
    destruct (step1_flag w t c x E0) as [F|[(par & Ht)|F]]; [congruence| |lia].
    apply (dead_no_fc w x t par C2 I U Hd). apply top_In. exact Ht. }
  (* where m's nsync_note_new stands *)
  assert (comp w m \/ (exists par dl p e, stk w t = [ANew par dl (W3 m p e)]) \/ cpar (nt w m) = None) as [Cp|[(par & dl & p & e & Hst)|Triv]].
  { destruct (uc_in_dec (stk w t) m) as [(f & Hf & Huf)|Hmine].
    - destruct f as [| | | |? | |par dl s| |]; try discriminate Huf.
      pose proof (ia_fok _ I t _ Hf) as Fk. cbn [fok] in Fk. destruct Fk as (_ & _ & Fk).
      assert ((exists p, s = W4 m p) \/ (exists p e, s = W3 m p e) \/ cpar (nt w m) = None) as [(p & ->)|[(p & e & ->)|X]]; [| | |auto].
      { destruct (step1_new_persist w t c par dl s m Sh Hf Huf) as [(s' & Hin' & Hu')|(_ & [[-> ->]|(p & ->)])].
        - destruct (Cp' t par dl s' Hin' Hu') as (p & ->).
          destruct (step1_new_frame w t c par dl (W4 m p) m Sh Hin' eq_refl) as [(_ & X & _)|(s0 & Hin0 & _ & _ & _ & Hs0)]; [discriminate X|].
          destruct (new_unique _ _ _ _ _ _ _ Sh Hf Hin0) as (_ & _ & ->).
          destruct (Hs0 p eq_refl) as [->|(e & ->)]; eauto.
        - right; right. destruct Fk as (_ & _ & _ & Fc). exact Fc.
        - eauto. }
      + left. intros t0 par0 dl0 s0 Hin0 Hu0.
        assert (t0 = t) as -> by (eapply (ia_uc _ I t0 t); eauto; reflexivity).
        destruct (new_unique _ _ _ _ _ _ _ Sh Hf Hin0) as (_ & _ & ->). eauto.
      + right; left. exists par, dl, p, e. eapply new_top; eauto. intros x; discriminate.
    - left. intros t0 par0 dl0 s0 Hin0 Hu0.
      destruct (Nat.eq_dec t0 t) as [->|Ht0]; [exfalso; apply Hmine; eauto|].
      apply (Cp' t0 par0 dl0 s0); [rewrite (stk_other _ _ _ _ E Ht0); exact Hin0|exact Hu0]. }
  - (* ===== m was already in the scope of the invariant ===== *)
    assert (forall par dl p e rest, stk w t <> ANew par dl (W3 m p e) :: rest) as NoW3.
    { intros par dl p e rest Hst. destruct (Cp t par dl (W3 m p e)) as (q & X); [rewrite Hst; left; reflexivity|reflexivity|discriminate X]. }
    assert (expiry (nt (fst (step1 w t c)) m) = expiry (nt w m)) as Eexp.
    { destruct (x_exp _ _ _ E m Hm) as [X|(par & dl & p & e & rest & Hst & _)]; [exact X|exfalso; eapply NoW3; eauto]. }
    assert (scope w m) as Sc.
    { destruct Sc' as [[F0 X0]|Hc'].
      - left. split; [|rewrite <- Eexp; exact X0].
        destruct (Z.eq_dec (flag (nt w m)) 0) as [E0|E0]; [exact E0|]. exfalso. apply (x_flag _ _ _ E m Hm E0). exact F0.
      - destruct (children (nt w m)) as [|y l] eqn:Ec; [|right; rewrite Ec; discriminate].
        destruct (children (nt (fst (step1 w t c)) m)) as [|x l'] eqn:Ec'; [congruence|].
        destruct (step1_children w t c m x) as [Hx|[(par & dl & e & Ht)|(n & nx & Ht)]]; [rewrite Ec'; left; reflexivity| | |].
        + rewrite Ec in Hx. destruct Hx.
        + left. pose proof (top_In _ _ _ Ht) as Hin. pose proof (ia_fok _ I _ _ Hin) as Fk. cbn [fok] in Fk.
          destruct Fk as (_ & _ & Hx & _ & _ & Fc & Fp). rewrite Fp in Fc. pose proof (Hlt x m Hx Fc) as Hmx.
          pose proof (top_stk w t _ Sh Ht Logic.I) as Hst.
          destruct (step1_w3c w t c par dl x m e [] Hst ltac:(lia)) as (_ & _ & Hch & _).
          assert (tpos (notified_time w m (flag (nt w m))) = true) as Hpt by (apply Hch; rewrite Ec, Ec'; discriminate).
          unfold notified_time in Hpt. destruct (Z.eqb_spec (flag (nt w m)) 0) as [E0|E0]; [split; auto|discriminate Hpt].
        + exfalso. pose proof (top_In _ _ _ Ht) as Hin. pose proof (iu_fr _ U _ _ Hin) as FU. pose proof (ia_fok _ I _ _ Hin) as FA.
          cbn [fok fokU] in FU, FA. destruct FU as ((Fp & _) & _). destruct FA as (Hn & _).
          pose proof (T1 n m Hn (Fp m eq_refl)) as X. rewrite Ec in X. destruct X. }
    destruct (K m a Hm Sc Cp Ng Pa Hne) as [Es|(r & Hr & Hra)]; [left; apply EscKeep; [lia|exact Es]|].
    destruct (ia_par _ I m r Hm Hr) as [Hrl _].
    assert ({parent (nt (fst (step1 w t c)) m) = Some r} + {parent (nt (fst (step1 w t c)) m) <> Some r}) as [Hr'|Hx]
      by (decide equality; apply Nat.eq_dec).
    { right. exists r. split; [exact Hr'|eapply cpath_ext; eauto]. }
    (* m's parent pointer changes in this step *)
    assert (forall r0 s par nx, top w t = Some (FF r0 s par) -> s = F6 m nx \/ s = F7 m nx ->
              esc (fst (step1 w t c)) a \/ linked (fst (step1 w t c)) m a) as Adopt.
    { intros r0 s par nx Ht Hs.
      destruct (free_child_facts w t r0 s par m nx I U D Ht Hs) as (Hst & Hr0 & Hpm & Hr0m & Fp & Fn & Scr & Cpr & Ngr & Esr).
      assert (r0 = r) as -> by congruence.
      assert (parent (nt (fst (step1 w t c)) m) = par) as Hnew.
      { eapply (step1_adopt w t c r m nx par s r); eauto; [lia|]. intros p Hp. destruct (Fp p Hp). lia. }
      destruct (Nat.eq_dec a r) as [->|Har]; [left; apply EscKeep; auto|].
      destruct (K r a Hr0 Scr Cpr Ngr Hra Har) as [Es|(r' & Hr' & Hr'a)].
      - left. apply EscKeep; [lia|exact Es].
      - destruct par as [p|].
        + destruct (Fp p eq_refl) as [Hp _]. assert (r' = p) as -> by congruence.
          right. exists p. split; [exact Hnew|]. eapply cpath_ext; eauto. destruct (ia_par _ I r p Hr0 Hp); auto.
        + rewrite (Fn eq_refl) in Hr'. discriminate Hr'. }
    destruct (step1_unlink2 w t c m r Hr Hx) as [(par & s & Ht)|[(s & par & Ht & _)|[(r0 & nx & par & Ht & _)|[(r0 & nx & par & Ht)|[Hf|(par & dl & p' & e & Ht)]]]]].
    + (* the end of note_notify_child (m): m is notified and has no children *)
      exfalso. pose proof (ia_fok _ I _ _ (top_In _ _ _ Ht)) as Fk. cbn [fok] in Fk. destruct Fk as (_ & _ & Fk & _).
      destruct (step1_fc_unlink w t c m par s r Ht Fk Hr Hx) as [F1 F2].
      destruct Sc' as [[F0 _]|Hc']; congruence.
    + (* nsync_note_free (m) unlinks m *)
      exfalso. apply Ng'. right. exists t, F11, par. split; [|reflexivity].
      eapply step1_ff_unlink; eauto.
      pose proof (top_In _ _ _ Ht) as Hin. pose proof (iu_fr _ U _ _ Hin) as FU. pose proof (ia_fok _ I _ _ Hin) as FA.
      destruct s; try exact Logic.I; cbn [fok fokU] in FU, FA; destruct FA as (Hn & _ & (Hc & _)); destruct FU as (_ & (Hcin & _) & _);
        pose proof (T0 c0 m Hc (T2 m c0 Hn Hcin)); lia.
    + eapply Adopt; eauto.
    + eapply Adopt; eauto.
    + lia.
    + exfalso. apply top_In in Ht. destruct (Cp t par dl (W3 m p' e) Ht eq_refl) as (q & X). discriminate X.
  - (* ===== nsync_note_new (m)'s comparison with the parent ===== *)
    assert (In (ANew par dl (W3 m p e)) (stk w t)) as Hin by (rewrite Hst; left; reflexivity).
    pose proof (ia_fok _ I _ _ Hin) as Fk. cbn [fok] in Fk. destruct Fk as (Fpl & _ & _ & Fe & Fd & Fc & Fp).
    rewrite Fp in Fc. pose proof (Hlt m p Hm Fc) as Hpm. pose proof (Fpl p Fp) as Hp.
    destruct (step1_w3b w t c par dl m p e [] Hst ltac:(lia) Fe) as (Hexp & Hfl).
    destruct (step1_w3c w t c par dl m p e [] Hst ltac:(lia)) as (Hpar & Hch & _).
    destruct (p_ucf _ (iu_priv _ U) t par dl (W3 m p e) m Hin eq_refl) as (Hc0 & _).
    destruct Sc' as [[F0 X0]|Hc']; [|rewrite Hch, Hc0 in Hc'; congruence].
    rewrite Hexp in X0. apply tpos_tmin in X0. destruct X0 as [Xp Xd]. rewrite Hfl in F0.
    assert (e = false) as ->.
    { destruct e; [|reflexivity]. exfalso. destruct (FE t _ Hin eq_refl) as [X|X]; [congruence|]. rewrite Fe in X. congruence. }
    rewrite Xp in Hpar. cbn in Hpar.
    right. exists p. split; [exact Hpar|]. eapply cpath_ext; eauto.
    destruct (cpath_inv _ _ _ Pa) as [X|(q & Hq & Hqa)]; [congruence|]. congruence.
  - exfalso. destruct (cpath_inv _ _ _ Pa) as [X|(q & Hq & _)]; congruence.
Qed.

Lemma EInv_step1 w t c : InvA w -> EInv w -> EInv (fst (step1 w t c)).
Proof.
  intros I FE t0 f Hin. pose proof (step1_ext w t c) as E.
  destruct (Nat.eq_dec t0 t) as [->|Ht0].
  - eapply step1_framesE; eauto.
  - rewrite (stk_other _ _ _ _ E Ht0) in Hin. eapply (fokE_ext t w _ t0); eauto using ia_fok.
Qed.

Lemma WInv_step1 w t c : InvC w -> broken (gh w) = false -> WInv w -> WInv (fst (step1 w t c)).
Proof.
  intros (I & H & N & U0) B W. pose proof (U0 B) as U. pose proof (step1_ext w t c) as E. pose proof (ia_shape _ I t) as Sh.
  intros m Hm' Hw'.
  assert (m < nnext w)%nat as Hm.
  { destruct (step1_nnext w t c) as [Eq|(par & dl & rest & Hst & Eq & Hnt & _)]; [lia|].
    destruct (Nat.eq_dec m (nnext w)) as [->|]; [|lia]. exfalso. rewrite Hnt in Hw'. cbn in Hw'. congruence. }
  destruct (waiters (nt w m)) as [|y l] eqn:Ew.
  - destruct (waiters (nt (fst (step1 w t c)) m)) as [|x l'] eqn:Ew'; [congruence|].
    destruct (step1_enq w t c m x) as [Hx|(F0 & X0 & dl & Ht)]; [rewrite Ew'; left; reflexivity|rewrite Ew in Hx; destruct Hx|].
    pose proof (top_stk w t _ Sh Ht Logic.I) as Hst.
    split.
    + destruct (x_exp _ _ _ E m Hm) as [X|(par & dl0 & p & e & rest & Hst' & _)]; [congruence|]. rewrite Hst in Hst'. discriminate Hst'.
    + intros t0 par dl0 s Hin Hu. exfalso.
      destruct (Nat.eq_dec t0 t) as [->|Ht0].
      * destruct (step1_new_frame w t c par dl0 s m Sh Hin Hu) as [(-> & _)|(s0 & Hin0 & _)]; [lia|].
        rewrite Hst in Hin0. destruct Hin0 as [X|[]]. discriminate X.
      * rewrite (stk_other _ _ _ _ E Ht0) in Hin.
        eapply (p_uc _ (iu_priv _ U) t0 _ m Hin Hu t (AWait m dl E2)); auto; [apply top_In; exact Ht|cbn; auto].
  - destruct (W m Hm ltac:(rewrite Ew; discriminate)) as [X0 Cp]. split; [|apply comp_step1; auto].
    destruct (x_exp _ _ _ E m Hm) as [X|(par & dl0 & p & e & rest & Hst' & _)]; [congruence|]. exfalso.
    destruct (Cp t par dl0 (W3 m p e)) as (q & X); [rewrite Hst'; left; reflexivity|reflexivity|discriminate X].
Qed.

(* ---------- begin_call ---------- *)
Lemma cpath_begin w t m a : cpath (begin_call w t) m a <-> cpath w m a.
Proof. split; apply cpath_same; intros n; rewrite nt_begin; reflexivity. Qed.
Lemma fdone_begin P w t n : fdone P w n -> fdone P (begin_call w t) n.
Proof.
  intros [Hf|(t0 & s & par & Hin & Hs)]; [left; rewrite begin_freed; exact Hf|].
  right. exists t0, s, par. split; [apply begin_keeps; exact Hin|exact Hs].
Qed.
Lemma comp_begin w t m : comp (begin_call w t) m <-> comp w m.
Proof.
  split; intros C t0 par dl s Hin Hu.
  - apply (C t0 par dl s); [apply begin_keeps; exact Hin|exact Hu].
  - destruct (begin_new_frames _ _ _ _ _ _ Hin) as [Hin0| ->]; [eauto|discriminate Hu].
Qed.
Lemma KInv_begin w t : KInv w -> KInv (begin_call w t).
Proof.
  intros K m a Hm Sc Cp Ng Pa Hne. rewrite nnext_begin in Hm.
  assert (scope w m) as Sc0 by (unfold scope, unn in *; rewrite !nt_begin in Sc; exact Sc).
  destruct (K m a Hm Sc0 (proj1 (comp_begin w t m) Cp) (fun G => Ng (fdone_begin _ w t m G)) (proj1 (cpath_begin w t m a) Pa) Hne) as [[Hd Hf]|(r & Hr & Hra)].
  - left. split; [apply fdone_begin; exact Hd|rewrite nt_begin; exact Hf].
  - right. exists r. rewrite nt_begin. split; [exact Hr|apply cpath_begin; exact Hra].
Qed.
Lemma fokE_notes w w' f : notes w' = notes w -> fokE w f -> fokE w' f.
Proof. intros E. destruct f; try exact (fun x => x). destruct s; try exact (fun x => x); cbn; unfold obs_notified, nt; rewrite E; auto. Qed.
Lemma EInv_begin w t : EInv w -> EInv (begin_call w t).
Proof.
  intros FE t0 f Hin. destruct f as [| | | |? | |par dl s| |]; try exact Logic.I.
  destruct (begin_new_frames _ _ _ _ _ _ Hin) as [Hin0| ->]; [|exact Logic.I].
  eapply fokE_notes; [apply notes_begin|eauto].
Qed.
Lemma WInv_begin w t : WInv w -> WInv (begin_call w t).
Proof.
  intros W m Hm Hw. rewrite nnext_begin in Hm. rewrite nt_begin in *. destruct (W m Hm Hw) as [X C].
  split; [exact X|apply comp_begin; exact C].
Qed.

(* ---------- tick ---------- *)
Lemma KInv_tick w d : KInv w -> KInv (tick w d).
Proof.
  intros K m a Hm Sc Cp Ng Pa Hne.
  assert (cpath w m a) as Pa0 by (eapply cpath_same; [|exact Pa]; reflexivity).
  destruct (K m a Hm Sc Cp Ng Pa0 Hne) as [Es|(r & Hr & Hra)]; [left; exact Es|].
  right. exists r. split; [exact Hr|]. eapply cpath_same; [|exact Hra]. reflexivity.
Qed.

(* ------------------------------------------------------------------------------------------------ *)
Definition InvK (w : world) : Prop := broken (gh w) = false -> KInv w /\ EInv w /\ WInv w.
Lemma InvK_exec w a : InvC w -> InvD w -> InvK w -> InvK (exec w a).
Proof.
  intros C D X. destruct a as [t c|d]; cbn [exec].
  - rewrite step_step1. intros B. destruct (step1_ghost (begin_call w t) t c) as (Eb & _). rewrite Eb in B.
    destruct (X (proj1 (begin_broken w t B))) as (K & FE & W).
    pose proof (InvC_begin w t C) as C1. pose proof (InvD_begin w t D) as D1.
    split; [|split].
    + apply KInv_step1; auto using KInv_begin, EInv_begin.
    + apply EInv_step1; [apply C1|apply EInv_begin; exact FE].
    + apply WInv_step1; auto using WInv_begin.
  - intros B. destruct (X B) as (K & FE & W). split; [apply KInv_tick; exact K|]. split; [exact FE|exact W].
Qed.
Lemma InvD_exec w a : InvA w -> InvD w -> InvD (exec w a).
Proof.
  intros I D. destruct a as [t c|d]; cbn [exec]; [rewrite step_step1; apply InvD_step1; [apply InvA_begin, I|apply InvD_begin, D]|apply InvD_tick, D].
Qed.
Lemma InvK_run sched : forall w, InvC w -> InvD w -> InvK w -> InvK (run w sched).
Proof.
  induction sched as [|a r IH]; intros w C D X; cbn; auto.
  apply IH; [apply InvC_exec, C|apply InvD_exec; [apply C|exact D]|apply InvK_exec; auto].
Qed.
Lemma InvK_init c0 progs : InvK (init c0 progs).
Proof.
  assert (forall t, stk (init c0 progs) t = []) as S.
  { intros t. unfold stk, init. cbn. destruct (nth_in_or_default t (map (fun p => mk_t [] p [] 0 O false) progs) dflt) as [H|H].
    - apply in_map_iff in H. destruct H as (p & <- & _). reflexivity.
    - rewrite H. reflexivity. }
  intros _. split; [|split].
  - intros m a Hm. cbn in Hm. lia.
  - intros t f. rewrite S. intros [].
  - intros m Hm. cbn in Hm. lia.
Qed.
Theorem InvK_reachable w : reachable w -> broken (gh w) = false -> KInv w /\ EInv w /\ WInv w.
Proof.
  intros (c0 & progs & sched & H0 & ->). apply InvK_run; [apply InvC_init, H0|apply InvD_init|apply InvK_init].
Qed.

(* ------------------------------------------------------------------------------------------------ *)
(* ================= C08: descendants, over the creation path ================= *)
(* in a quiet world nothing that is in scope hangs (through the creation path) below a notified note *)
Lemma quiet_climb w : reachable w -> broken (gh w) = false -> quiet w ->
  forall m, (m < nnext w)%nat -> scope w m -> comp w m -> ~ In m (freed (gh w)) -> flag (nt w m) = 0 ->
  forall a, cpath w m a -> flag (nt w a) <> 0 -> False.
Proof.
  intros R B Q. destruct (InvK_reachable w R B) as (K & _ & _).
  destruct (InvC_reachable w R) as (I & H & N & U0). pose proof (U0 B) as U. pose proof (InvD_reachable w R) as D.
  destruct (iu_tree _ U) as (T1 & T2 & T3 & T0).
  induction m as [m IH] using lt_wf_ind. intros Hm Sc Cp Hnf F0 a Pa Fa.
  assert (a <> m) as Hne by congruence.
  assert (~ gone w m) as Ng.
  { intros [X|(t & s & par & Hin & _)]; [auto|exact (Q t _ Hin)]. }
  destruct (K m a Hm Sc Cp Ng Pa Hne) as [[_ X]|(r & Hr & Hra)]; [congruence|].
  destruct (ia_par _ I m r Hm Hr) as [Hrl _]. pose proof (T0 m r Hm Hr) as Hrm. pose proof (T1 m r Hm Hr) as Hin.
  assert (children (nt w r) <> []) as Hc by (intros E; rewrite E in Hin; destruct Hin).
  assert (flag (nt w r) = 0) as Fr.
  { destruct (Z.eq_dec (flag (nt w r)) 0) as [E|E]; [exact E|]. exfalso.
    destruct (d_ch _ D r Hrl E Hc) as (t & par & s & Hf & _). exact (Q t _ Hf). }
  apply (IH r Hrm Hrl) with (a := a); auto.
  - right. exact Hc.
  - intros t par dl s Hf Hu. exfalso. destruct (p_ucf _ (iu_priv _ U) t par dl s r Hf Hu) as (E & _). auto.
  - intros Hf. destruct (p_dead _ (iu_priv _ U) r Hf) as [(_ & _ & E) _]. auto.
Qed.

Theorem descendants_full w a m :
  reachable w -> broken (gh w) = false -> quiet w -> (m < nnext w)%nat -> ~ uc w m -> ~ In m (freed (gh w)) ->
  cpath w m a -> flag (nt w a) <> 0 -> obs_notified w m /\ waiters (nt w m) = [].
Proof.
  intros R B Q Hm Hu Hnf Pa Fa.
  assert (obs_notified w m) as Ho.
  { unfold obs_notified. destruct (Z.eq_dec (flag (nt w m)) 0) as [F0|F0]; [|left; exact F0].
    destruct (tpos (expiry (nt w m))) eqn:X0; [|right; reflexivity]. exfalso.
    apply (quiet_climb w R B Q m Hm) with (a := a); auto.
    - left. split; auto.
    - intros t par dl s Hf Hus. exfalso. apply Hu. exists t. eauto. }
  split; [exact Ho|].
  destruct Ho as [F|X].
  - apply (descendants_local w m R Hm F). apply quiet_not_notifying. exact Q.
  - destruct (InvK_reachable w R B) as (_ & _ & W).
    destruct (waiters (nt w m)) as [|y l] eqn:Ew; [reflexivity|]. exfalso.
    destruct (W m Hm) as [X1 _]; [rewrite Ew; discriminate|]. congruence.
Qed.

(* ---------- the invariants, for reachable worlds ---------- *)
Theorem creation_path_linked w m a : reachable w -> broken (gh w) = false ->
  (m < nnext w)%nat -> scope w m -> comp w m -> ~ gone w m -> cpath w m a -> a <> m -> esc w a \/ linked w m a.
Proof. intros R B. destruct (InvK_reachable w R B) as (K & _ & _). apply K. Qed.
Theorem waiters_positive w m : reachable w -> broken (gh w) = false -> (m < nnext w)%nat -> waiters (nt w m) <> [] ->
  tpos (expiry (nt w m)) = true /\ comp w m.
Proof. intros R B. destruct (InvK_reachable w R B) as (_ & _ & W). apply W. Qed.
Theorem no_notify_after_free_wait w a t par s : reachable w -> broken (gh w) = false -> dead w a -> ~ In (FC a par s) (stk w t).
Proof. intros R B Hd Hin. destruct (InvC_reachable w R) as (I & _ & _ & U). exact (dead_no_fc w a t par s I (U B) Hd Hin). Qed.
Theorem unnotified_below_notified_linked w m a : reachable w -> broken (gh w) = false ->
  (m < nnext w)%nat -> flag (nt w m) = 0 -> tpos (expiry (nt w m)) = true -> comp w m -> ~ gone w m ->
  cpath w m a -> flag (nt w a) <> 0 -> linked w m a.
Proof.
  intros R B Hm F0 X0 Cp Ng Pa Fa.
  destruct (creation_path_linked w m a R B Hm (or_introl (conj F0 X0)) Cp Ng Pa) as [[_ E]|L]; [congruence|congruence|exact L].
Qed.
