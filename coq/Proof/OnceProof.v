(* OnceProof: proofs about Model/OnceModel.v (nsync_run_once and friends), used by Props/Properties_C07.v.
   One inductive invariant [Inv] over [run], for ANY environment (map once -> slot, termination of the functions,
   obtainability of the locks):
     per object   once=0: no CAS won, f not begun;  once=1: exactly one thread won the CAS and is between the CAS and
                  its store, and the ghosts fbeg / completed agree with where that thread is (f not entered / inside f /
                  f returned);  once=2: CAS won once, f begun once, f completed;
     per thread   what it returned from is done (once=2); a thread in the wait loop has seen a non-zero word; a
                  thread at a pc inside the once_mu critical section holds the once_mu of its object's slot; the
                  call being executed is the one the pc belongs to (lock / cv pcs: a blocking call);
     per slot     the holder of once_mu is at such a pc of an object of that slot (mutual exclusion);
     early = 0.
   Then the progress measure [rank] (Model/OnceModel.v): in every reachable world that is not finished some thread has
   a step that decreases it, provided the functions terminate and the locks are obtainable ([env_ok]).
   No axioms, nothing admitted. *)
From NsyncBase Require Import CSem.
From NsyncGen Require Import Consts Sites.
From NsyncModel Require Import OnceModel.
From Coq Require Import List ZArith Bool Lia Arith.
Import ListNotations.
Local Open Scope Z_scope.

(* ---------- the generated constants and guards, evaluated ---------- *)
Lemma cas1_new_eq : nsync_run_once_impl_cas1_new = 1. Proof. reflexivity. Qed.
Lemma cas1_old_eq : nsync_run_once_impl_cas1_old = 0. Proof. reflexivity. Qed.
Lemma store1_new_eq : nsync_run_once_impl_store1_new = 2. Proof. reflexivity. Qed.
Lemma load2_guard_eq v : nsync_run_once_impl_load2_guard v = negb (v =? 2). Proof. reflexivity. Qed.
Lemma cas1_guard_eq v : nsync_run_once_impl_cas1_guard v = negb (v =? 2) && (v =? 0). Proof. reflexivity. Qed.

(* the step after begin_call, with the generated terms replaced by their values *)
Definition step_core (w : world) (t : nat) : world * ev :=
  match pc (get w t) with
  | OIdle => (w, EvNone)
  | OEntry o sp =>
      let v := once w o in
      if v =? 2 then (ret w t o, EvLoad 1 v) else (set_pc w t (OImplLoad o sp), EvLoad 1 v)
  | OImplLoad o sp =>
      let v := once w o in
      if negb (v =? 2)
      then (let z := negb (v =? 2) && (v =? 0) in
            if sp then (set_pc w t (if z then OCas o sp else OWaitLoad o sp), EvLoad 11 v)
            else (set_pc w t (OLock o z), EvLoad 11 v))
      else (ret w t o, EvLoad 11 v)
  | OLock o z => do_lock w t o (if z then OCas o false else OWaitLoad o false)
  | OCas o sp =>
      if once w o =? 0
      then (mk_w (cfg w) (fupd (once w) o 1) (mu w) (fupd (wins w) o (t :: wins w o)) (fbeg w)
                 (completed w) (early w)
                 (lupd (thr w) t (with_pc (get w t) (if sp then OFBegin o sp else OWinUnlock o))), EvCas 12 true)
      else (set_pc w t (OReload o sp), EvCas 12 false)
  | OReload o sp =>
      let v := once w o in
      if v =? 0 then (set_pc w t (OCas o sp), EvLoad 13 v) else (set_pc w t (OWaitLoad o sp), EvLoad 13 v)
  | OWinUnlock o => do_unlock w t o (OFBegin o false)
  | OFBegin o sp =>
      (mk_w (cfg w) (once w) (mu w) (wins w) (fupd (fbeg w) o (t :: fbeg w o)) (completed w) (early w)
            (lupd (thr w) t (with_pc (get w t) (OFRun o sp))), EvFBegin o)
  | OFRun o sp =>
      if fterm (cfg w) o
      then (mk_w (cfg w) (once w) (mu w) (wins w) (fbeg w) (fupd (completed w) o true) (early w)
                 (lupd (thr w) t (with_pc (get w t) (if sp then OStore o sp else OWinLock o))), EvFEnd o)
      else (w, EvFStuck o)
  | OWinLock o => do_lock w t o (OBroadcast o)
  | OBroadcast o => (set_pc w t (OStore o false), EvBroadcast (slot_of w o))
  | OStore o sp =>
      (mk_w (cfg w) (fupd (once w) o 2) (mu w) (wins w) (fbeg w) (completed w) (early w)
            (lupd (thr w) t (with_pc (get w t) (OWaitLoad o sp))), EvStore 14 2)
  | OWaitLoad o sp =>
      let v := once w o in
      if v =? 2 then (if sp then ret w t o else set_pc w t (OFinalUnlock o), EvLoad 15 v)
      else (set_pc w t (if sp then OSpin o else OCvEnter o), EvLoad 15 v)
  | OCvEnter o => let s := slot_of w o in (set_pc (set_mu w s None) t (OCvWait o), EvCvRelease s)
  | OCvWait o => (set_pc w t (OCvReacq o), EvCvEnd (slot_of w o))
  | OCvReacq o => do_lock w t o (OWaitLoad o false)
  | OSpin o => (set_pc w t (OWaitLoad o true), EvSpin)
  | OFinalUnlock o =>
      let s := slot_of w o in (ret (set_mu w s None) t o, EvUnlock s)
  end.

Lemma step_pc_eq w t : step_pc w t = step_core w t.
Proof. unfold step_pc, step_core. destruct (pc (get w t)); reflexivity. Qed.
Lemma step_eq w t : step w t = step_core (begin_call w t) t.
Proof. unfold step. apply step_pc_eq. Qed.

(* ---------- lists and maps ---------- *)
Lemma length_lupd {A} (l : list A) k v : length (lupd l k v) = length l.
Proof. revert k; induction l as [|x l IH]; intros [|k]; cbn; auto. Qed.

Lemma nth_lupd_same {A} (l : list A) k v d : (k < length l)%nat -> nth k (lupd l k v) d = v.
Proof.
  revert k; induction l as [|x l IH]; intros [|k] H; cbn in *; try lia; auto.
  apply IH; lia.
Qed.

Lemma nth_lupd_other {A} (l : list A) k k' v d : k' <> k -> nth k' (lupd l k v) d = nth k' l d.
Proof.
  revert k k'; induction l as [|x l IH]; intros [|k] [|k'] H; cbn; auto; try congruence.
Qed.

Lemma fupd_same {A} (f : nat -> A) k v : fupd f k v k = v.
Proof. unfold fupd. now rewrite Nat.eqb_refl. Qed.
Lemma fupd_other {A} (f : nat -> A) k v x : x <> k -> fupd f k v x = f x.
Proof. unfold fupd. intros H. destruct (Nat.eqb_spec x k); congruence. Qed.

Lemma cons_neq {A} (x : A) l : x :: l <> l.
Proof. intros E. apply (f_equal (@length A)) in E. cbn in E. lia. Qed.

Lemma get_oob w t : (length (thr w) <= t)%nat -> get w t = dflt.
Proof. intros. unfold get. now apply nth_overflow. Qed.

Lemma pc_in_range w t : pc (get w t) <> OIdle -> (t < length (thr w))%nat.
Proof.
  intros H. destruct (lt_dec t (length (thr w))) as [|n]; auto.
  rewrite get_oob in H by lia. cbn in H. congruence.
Qed.
Lemma calls_in_range w t : calls (get w t) <> [] -> (t < length (thr w))%nat.
Proof.
  intros H. destruct (lt_dec t (length (thr w))) as [|n]; auto.
  rewrite get_oob in H by lia. cbn in H. congruence.
Qed.

Lemma get_upd_same w t c on m wi fb co ea s :
  (t < length (thr w))%nat -> get (mk_w c on m wi fb co ea (lupd (thr w) t s)) t = s.
Proof. intros. unfold get. cbn [thr]. now apply nth_lupd_same. Qed.
Lemma get_upd_other w t c on m wi fb co ea s t' :
  t' <> t -> get (mk_w c on m wi fb co ea (lupd (thr w) t s)) t' = get w t'.
Proof. intros. unfold get. cbn [thr]. now apply nth_lupd_other. Qed.

Lemma get_ret_same w t o : (t < length (thr w))%nat ->
  get (ret w t o) t = mk_t OIdle (cur (get w t)) (calls (get w t)) (o :: returned (get w t)).
Proof. intros. unfold ret. now apply get_upd_same. Qed.
Lemma get_set_pc_same w t p : (t < length (thr w))%nat ->
  get (set_pc w t p) t = with_pc (get w t) p.
Proof. intros. unfold set_pc, set_thr. now apply get_upd_same. Qed.
Lemma get_set_mu w s h t : get (set_mu w s h) t = get w t.
Proof. reflexivity. Qed.

Lemma begin_call_cases w t :
  (begin_call w t = w /\ (pc (get w t) <> OIdle \/ calls (get w t) = [])) \/
  (exists o sp rest, pc (get w t) = OIdle /\ calls (get w t) = (o, sp) :: rest /\
     begin_call w t = set_thr w (lupd (thr w) t (mk_t (OEntry o sp) (Some (o, sp)) rest (returned (get w t))))).
Proof.
  unfold begin_call.
  destruct (pc (get w t)) eqn:Hpc; try (left; split; [reflexivity | left; discriminate]).
  destruct (calls (get w t)) as [|[o sp] rest] eqn:Hc.
  - left; split; auto.
  - right. exists o, sp, rest. auto.
Qed.

(* ---------- the invariant ---------- *)
(* the call a pc belongs to *)
Definition pc_call (p : opc) : option (nat * bool) :=
  match p with
  | OIdle => None
  | OEntry o sp | OImplLoad o sp | OCas o sp | OReload o sp | OFBegin o sp | OFRun o sp | OStore o sp | OWaitLoad o sp => Some (o, sp)
  | OLock o _ | OWinUnlock o | OWinLock o | OBroadcast o | OCvEnter o | OCvWait o | OCvReacq o | OFinalUnlock o => Some (o, false)
  | OSpin o => Some (o, true)
  end.
(* pcs reached only after the word was seen non-zero *)
Definition loser_pc (p : opc) : option nat :=
  match p with
  | OLock o false | OReload o _ | OWaitLoad o _ | OCvEnter o | OCvWait o | OCvReacq o | OSpin o | OFinalUnlock o => Some o
  | _ => None
  end.
(* the winner's pcs: object, f begun, f completed *)
Definition win_info (p : opc) : option (nat * bool * bool) :=
  match p with
  | OWinUnlock o | OFBegin o _ => Some (o, false, false)
  | OFRun o _ => Some (o, true, false)
  | OWinLock o | OBroadcast o | OStore o _ => Some (o, true, true)
  | _ => None
  end.

Lemma win_pc_info o p : win_pc o p <-> exists b c, win_info p = Some (o, b, c).
Proof.
  unfold win_pc. split.
  - intros [->|[[sp ->]|[[sp ->]|[->|[->|[sp ->]]]]]]; cbn; eauto.
  - intros (b & c & H). destruct p; cbn in H; try discriminate; injection H as <- _ _; eauto 10.
Qed.

Record tinv (w : world) (t : nat) (s : tstate) : Prop := {
  ti_cur : pc s <> OIdle -> cur s = pc_call (pc s);
  ti_ret : forall o, In o (returned s) -> once w o = 2;
  ti_lose : forall o, loser_pc (pc s) = Some o -> once w o <> 0;
  ti_fin : forall o, pc s = OFinalUnlock o -> once w o = 2;
  ti_hold : forall o, holds_pc (pc s) = Some o -> mu w (slot_of w o) = Some t;
  ti_win : forall o b c, win_info (pc s) = Some (o, b, c) ->
             wins w o = [t] /\ once w o = 1 /\ fbeg w o = (if b then [t] else []) /\ completed w o = c }.

Definition objst (w : world) (o : nat) : Prop :=
  (once w o = 0 /\ wins w o = [] /\ fbeg w o = [] /\ completed w o = false) \/
  (once w o = 1 /\ exists tw, wins w o = [tw] /\ (tw < length (thr w))%nat /\
                              exists b c, win_info (pc (get w tw)) = Some (o, b, c)) \/
  (once w o = 2 /\ exists tw, wins w o = [tw] /\ fbeg w o = [tw] /\ completed w o = true).

Record Inv (w : world) : Prop := {
  inv_thr : forall t, tinv w t (get w t);
  inv_mu : forall s h, mu w s = Some h ->
             (h < length (thr w))%nat /\ exists o, holds_pc (pc (get w h)) = Some o /\ slot_of w o = s;
  inv_obj : forall o, objst w o;
  inv_early : early w = 0 }.

Lemma tinv_dflt w t : tinv w t dflt.
Proof. split; cbn; try discriminate; try contradiction; congruence. Qed.

Lemma done_completed w o : Inv w -> once w o = 2 -> completed w o = true.
Proof.
  intros I H. destruct (inv_obj w I o) as [(a&_)|[(a&_)|(_&tw&_&_&c)]]; auto; lia.
Qed.

(* no winner on a word that is not 1 *)
Lemma win_once1 w t o b c : Inv w -> win_info (pc (get w t)) = Some (o, b, c) -> once w o = 1.
Proof. intros I H. destruct (ti_win _ _ _ (inv_thr w I t) o b c H) as (_ & H1 & _). exact H1. Qed.

(* the general update: thread t (in range) replaces its record, and the shared fields change in a way that the other
   threads do not notice *)
Lemma inv_update w t on' mu' wi' fb' co' ea' s' :
  Inv w -> (t < length (thr w))%nat ->
  let w' := mk_w (cfg w) on' mu' wi' fb' co' ea' (lupd (thr w) t s') in
  (forall o, once w o = 2 -> on' o = 2) ->
  (forall o, once w o <> 0 -> on' o <> 0) ->
  (forall t' o, t' <> t -> holds_pc (pc (get w t')) = Some o -> mu' (slot_of w o) = Some t') ->
  (forall t' o b c, t' <> t -> win_info (pc (get w t')) = Some (o, b, c) ->
     wi' o = wins w o /\ on' o = once w o /\ fb' o = fbeg w o /\ co' o = completed w o) ->
  tinv w' t s' ->
  (forall s h, mu' s = Some h ->
     (h = t /\ exists o, holds_pc (pc s') = Some o /\ slot_of w o = s) \/ (h <> t /\ mu w s = Some h)) ->
  (forall o, objst w' o) ->
  ea' = 0 ->
  Inv w'.
Proof.
  intros I Hlt w' H2 H0 Hmu Hwin Hs Hm Hobj He.
  assert (Gs : get w' t = s') by (apply get_upd_same; auto).
  assert (Go : forall t', t' <> t -> get w' t' = get w t') by (intros; apply get_upd_other; auto).
  split.
  - intros t'. destruct (Nat.eq_dec t' t) as [->|n].
    + rewrite Gs. exact Hs.
    + rewrite Go by auto. destruct (inv_thr w I t') as [T1 T2 T3 T4 T5 T6]. split.
      * exact T1.
      * intros o Hin. apply H2. auto.
      * intros o Hl. apply H0. auto.
      * intros o Hf. apply H2. auto.
      * intros o Hh. exact (Hmu t' o n Hh).
      * intros o b c Hw. unfold w'. cbn [once wins fbeg completed]. destruct (Hwin t' o b c n Hw) as (-> & -> & -> & ->). auto.
  - intros s h Hh. assert (Hlen : length (thr w') = length (thr w)) by (unfold w'; cbn [thr]; apply length_lupd).
    rewrite Hlen.
    destruct (Hm s h Hh) as [[-> (o & Ho & Hsl)]|[n Hold]].
    + split; auto. exists o. rewrite Gs. auto.
    + destruct (inv_mu w I s h Hold) as [Hr (o & Ho & Hsl)]. split; auto.
      exists o. rewrite Go by auto. auto.
  - exact Hobj.
  - exact He.
Qed.

(* an object none of whose fields changes stays in its state, provided that t, if it was its winner, still is *)
Lemma objst_keep w t on' mu' wi' fb' co' ea' s' o :
  Inv w -> (t < length (thr w))%nat ->
  on' o = once w o -> wi' o = wins w o -> fb' o = fbeg w o -> co' o = completed w o ->
  (forall b c, win_info (pc (get w t)) = Some (o, b, c) -> exists b' c', win_info (pc s') = Some (o, b', c')) ->
  objst (mk_w (cfg w) on' mu' wi' fb' co' ea' (lupd (thr w) t s')) o.
Proof.
  intros I Hlt E1 E2 E3 E4 Hw. unfold objst. cbn [once wins fbeg completed thr]. rewrite E1, E2, E3, E4, length_lupd.
  destruct (inv_obj w I o) as [A|[(a & tw & b & c & bb & cc & Hi)|C]]; [left; exact A| |right; right; exact C].
  right; left. split; [exact a|]. exists tw. split; [exact b|]. split; [exact c|].
  destruct (Nat.eq_dec tw t) as [->|n].
  - rewrite get_upd_same by auto. eapply Hw; eauto.
  - rewrite get_upd_other by auto. eauto.
Qed.

(* the same for an object whose word is 1 and stays 1: the ghosts fbeg / completed may change *)
Lemma objst_keep1 w t on' mu' wi' fb' co' ea' s' o :
  Inv w -> (t < length (thr w))%nat ->
  once w o = 1 -> on' o = 1 -> wi' o = wins w o ->
  (forall b c, win_info (pc (get w t)) = Some (o, b, c) -> exists b' c', win_info (pc s') = Some (o, b', c')) ->
  objst (mk_w (cfg w) on' mu' wi' fb' co' ea' (lupd (thr w) t s')) o.
Proof.
  intros I Hlt O1 E1 E2 Hw. unfold objst. cbn [once wins fbeg completed thr]. rewrite E1, E2, length_lupd.
  destruct (inv_obj w I o) as [(a&_)|[(a & tw & b & c & bb & cc & Hi)|(a&_)]]; try lia.
  right; left. split; [reflexivity|]. exists tw. split; [exact b|]. split; [exact c|].
  destruct (Nat.eq_dec tw t) as [->|n].
  - rewrite get_upd_same by auto. eapply Hw; eauto.
  - rewrite get_upd_other by auto. eauto.
Qed.

(* --- the kinds of steps --- *)

(* only the pc of t changes; t keeps what it holds and what it has won *)
Lemma inv_set_pc w t p :
  Inv w -> (t < length (thr w))%nat ->
  p <> OIdle -> pc_call p = pc_call (pc (get w t)) -> pc (get w t) <> OIdle ->
  (forall o, loser_pc p = Some o -> once w o <> 0) ->
  (forall o, p = OFinalUnlock o -> once w o = 2) ->
  holds_pc p = holds_pc (pc (get w t)) ->
  win_info p = win_info (pc (get w t)) ->
  Inv (set_pc w t p).
Proof.
  intros I Hlt Hp Hc Hni Hl Hf Hh Hw. unfold set_pc, set_thr.
  destruct (inv_thr w I t) as [T1 T2 T3 T4 T5 T6].
  apply inv_update; auto.
  - intros t' o _ H. exact (ti_hold _ _ _ (inv_thr w I t') o H).
  - split; cbn [pc cur returned with_pc once mu wins fbeg completed slot_of cfg]; auto.
    + intros _. rewrite Hc. auto.
    + intros o. rewrite Hh. apply T5.
    + intros o b c. rewrite Hw. apply T6.
  - intros s h Hs. destruct (Nat.eq_dec h t) as [->|n]; [left|right; auto].
    split; auto. destruct (inv_mu w I s t Hs) as [_ (o & Ho & Hsl)]. exists o. cbn [pc with_pc]. rewrite Hh. auto.
  - intros o. apply objst_keep; auto. intros b c H. cbn [pc with_pc]. rewrite Hw. eauto.
  - apply (inv_early w I).
Qed.

(* a call on o returns from a pc that holds nothing and has won nothing; the word is 2 *)
Lemma inv_do_ret w t o :
  Inv w -> (t < length (thr w))%nat ->
  holds_pc (pc (get w t)) = None -> win_info (pc (get w t)) = None ->
  once w o = 2 ->
  Inv (ret w t o).
Proof.
  intros I Hlt Hh Hw H2. unfold ret. rewrite (done_completed w o I H2).
  destruct (inv_thr w I t) as [T1 T2 T3 T4 T5 T6].
  apply inv_update; auto.
  - intros t' o' _ H. exact (ti_hold _ _ _ (inv_thr w I t') o' H).
  - split; cbn [pc cur returned once mu wins fbeg completed slot_of cfg]; try discriminate; try congruence.
    intros o' [<-|Hin]; auto.
  - intros s h Hs. right. split; auto. intros ->.
    destruct (inv_mu w I s t Hs) as [_ (o' & Ho & _)]. congruence.
  - intros o'. apply objst_keep; auto. intros b c H. congruence.
  - apply (inv_early w I).
Qed.

(* nsync_mu_lock succeeds *)
Lemma inv_lock w t o p :
  Inv w -> (t < length (thr w))%nat ->
  mu w (slot_of w o) = None -> holds_pc (pc (get w t)) = None ->
  p <> OIdle -> pc_call p = pc_call (pc (get w t)) -> pc (get w t) <> OIdle ->
  (forall o', loser_pc p = Some o' -> once w o' <> 0) ->
  (forall o', p <> OFinalUnlock o') ->
  holds_pc p = Some o ->
  win_info p = win_info (pc (get w t)) ->
  Inv (set_pc (set_mu w (slot_of w o) (Some t)) t p).
Proof.
  intros I Hlt Hfree Hnh Hp Hc Hni Hl Hf Hh Hw. unfold set_pc, set_thr. rewrite get_set_mu. unfold set_mu. cbn [cfg once mu wins fbeg completed early thr].
  destruct (inv_thr w I t) as [T1 T2 T3 T4 T5 T6].
  apply inv_update; auto.
  - intros t' o' n H. pose proof (ti_hold _ _ _ (inv_thr w I t') o' H) as Hm.
    rewrite fupd_other; auto. intros E. rewrite E in Hm. congruence.
  - split; cbn [pc cur returned with_pc once mu wins fbeg completed slot_of cfg]; auto.
    + intros _. rewrite Hc. auto.
    + intros o' E. exfalso. eapply Hf; eauto.
    + intros o'. rewrite Hh. intros E. injection E as <-. apply fupd_same.
    + intros o' b c. rewrite Hw. apply T6.
  - intros s h. unfold fupd. destruct (Nat.eqb_spec s (slot_of w o)) as [->|ns].
    + intros E. injection E as <-. left. split; auto. exists o. auto.
    + intros Hs. right. split; auto. intros ->.
      destruct (inv_mu w I s t Hs) as [_ (o' & Ho & Hsl)].
      congruence.
  - intros o'. apply objst_keep; auto. intros b c H. cbn [pc with_pc]. rewrite Hw. eauto.
  - apply (inv_early w I).
Qed.

(* nsync_mu_unlock (also the release at the beginning of the cv wait) *)
Lemma inv_unlock w t o p :
  Inv w -> (t < length (thr w))%nat ->
  holds_pc (pc (get w t)) = Some o ->
  p <> OIdle -> pc_call p = pc_call (pc (get w t)) ->
  (forall o', loser_pc p = Some o' -> once w o' <> 0) ->
  (forall o', p <> OFinalUnlock o') ->
  holds_pc p = None ->
  win_info p = win_info (pc (get w t)) ->
  Inv (set_pc (set_mu w (slot_of w o) None) t p).
Proof.
  intros I Hlt Hold Hp Hc Hl Hf Hh Hw. unfold set_pc, set_thr. rewrite get_set_mu. unfold set_mu. cbn [cfg once mu wins fbeg completed early thr].
  destruct (inv_thr w I t) as [T1 T2 T3 T4 T5 T6].
  assert (Hni : pc (get w t) <> OIdle) by (intros E; rewrite E in Hold; discriminate).
  apply inv_update; auto.
  - intros t' o' n H. pose proof (ti_hold _ _ _ (inv_thr w I t') o' H) as Hm.
    rewrite fupd_other; auto. intros E. rewrite E in Hm. rewrite (T5 o Hold) in Hm. congruence.
  - split; cbn [pc cur returned with_pc once mu wins fbeg completed slot_of cfg]; auto.
    + intros _. rewrite Hc. auto.
    + intros o' E. exfalso. eapply Hf; eauto.
    + intros o'. rewrite Hh. discriminate.
    + intros o' b c. rewrite Hw. apply T6.
  - intros s h. unfold fupd. destruct (Nat.eqb_spec s (slot_of w o)) as [->|ns]; [discriminate|].
    intros Hs. right. split; auto. intros ->.
    destruct (inv_mu w I s t Hs) as [_ (o' & Ho & Hsl)].
    rewrite Hold in Ho. injection Ho as <-. congruence.
  - intros o'. apply objst_keep; auto. intros b c H. cbn [pc with_pc]. rewrite Hw. eauto.
  - apply (inv_early w I).
Qed.

(* the final unlock and the return *)
Lemma inv_final w t o :
  Inv w -> (t < length (thr w))%nat -> pc (get w t) = OFinalUnlock o ->
  Inv (ret (set_mu w (slot_of w o) None) t o).
Proof.
  intros I Hlt Hpc. unfold ret. rewrite get_set_mu. unfold set_mu. cbn [cfg once mu wins fbeg completed early thr].
  destruct (inv_thr w I t) as [T1 T2 T3 T4 T5 T6].
  pose proof (T4 o Hpc) as H2. rewrite (done_completed w o I H2).
  assert (Hold : holds_pc (pc (get w t)) = Some o) by (rewrite Hpc; reflexivity).
  apply inv_update; auto.
  - intros t' o' n H. pose proof (ti_hold _ _ _ (inv_thr w I t') o' H) as Hm.
    rewrite fupd_other; auto. intros E. rewrite E in Hm. rewrite (T5 o Hold) in Hm. congruence.
  - split; cbn [pc cur returned once mu wins fbeg completed slot_of cfg]; try discriminate; try congruence.
    intros o' [<-|Hin]; auto.
  - intros s h. unfold fupd. destruct (Nat.eqb_spec s (slot_of w o)) as [->|ns]; [discriminate|].
    intros Hs. right. split; auto. intros ->.
    destruct (inv_mu w I s t Hs) as [_ (o' & Ho & Hsl)].
    rewrite Hold in Ho. injection Ho as <-. congruence.
  - intros o'. apply objst_keep; auto. intros b c H. rewrite Hpc in H. discriminate.
  - apply (inv_early w I).
Qed.

(* the successful CAS *)
Lemma inv_cas w t o sp :
  Inv w -> (t < length (thr w))%nat -> pc (get w t) = OCas o sp -> once w o = 0 ->
  Inv (mk_w (cfg w) (fupd (once w) o 1) (mu w) (fupd (wins w) o (t :: wins w o)) (fbeg w) (completed w) (early w)
            (lupd (thr w) t (with_pc (get w t) (if sp then OFBegin o sp else OWinUnlock o)))).
Proof.
  intros I Hlt Hpc H0.
  destruct (inv_thr w I t) as [T1 T2 T3 T4 T5 T6].
  assert (HA : wins w o = [] /\ fbeg w o = [] /\ completed w o = false).
  { destruct (inv_obj w I o) as [(_&a&b&c)|[(a&_)|(a&_)]]; auto; lia. }
  destruct HA as (Wi & Fb & Co).
  apply inv_update; auto.
  - intros o' H. destruct (Nat.eq_dec o' o) as [->|n]; [lia|]. rewrite fupd_other; auto.
  - intros o' H. destruct (Nat.eq_dec o' o) as [->|n]; [rewrite fupd_same; lia|]. rewrite fupd_other; auto.
  - intros t' o' _ H. exact (ti_hold _ _ _ (inv_thr w I t') o' H).
  - intros t' o' b c _ H. pose proof (win_once1 w t' o' b c I H).
    assert (o' <> o) by (intros ->; lia). rewrite !fupd_other; auto.
  - rewrite Hpc in *. split; cbn [pc cur returned with_pc once mu wins fbeg completed slot_of cfg].
    + intros _. rewrite T1 by discriminate. destruct sp; reflexivity.
    + intros o' Hin. pose proof (T2 o' Hin). assert (o' <> o) by (intros ->; lia). rewrite fupd_other; auto.
    + intros o'. destruct sp; discriminate.
    + intros o'. destruct sp; discriminate.
    + intros o'. destruct sp; cbn; [discriminate|]. intros E. injection E as <-. apply T5. reflexivity.
    + intros o' b c E.
      assert (E' : (o', b, c) = (o, false, false)) by (destruct sp; cbn in E; congruence).
      injection E' as -> -> ->. rewrite !fupd_same, Wi, Fb, Co. auto.
  - intros s h Hs. destruct (Nat.eq_dec h t) as [->|n]; [left|right; auto].
    split; auto. destruct (inv_mu w I s t Hs) as [_ (o' & Ho & Hsl)]. rewrite Hpc in Ho.
    destruct sp; cbn in Ho; [discriminate|]. injection Ho as <-. exists o. auto.
  - intros o'. destruct (Nat.eq_dec o' o) as [->|n].
    + right; left. cbn [once wins thr]. rewrite !fupd_same, Wi, length_lupd.
      split; auto. exists t. split; auto. split; auto. rewrite get_upd_same by auto. cbn [pc with_pc].
      destruct sp; cbn; eauto.
    + apply objst_keep; auto; try (rewrite fupd_other; auto).
      intros b c H. rewrite Hpc in H. discriminate.
  - apply (inv_early w I).
Qed.

(* the winner enters f *)
Lemma inv_fbegin w t o sp :
  Inv w -> (t < length (thr w))%nat -> pc (get w t) = OFBegin o sp ->
  Inv (mk_w (cfg w) (once w) (mu w) (wins w) (fupd (fbeg w) o (t :: fbeg w o)) (completed w) (early w)
            (lupd (thr w) t (with_pc (get w t) (OFRun o sp)))).
Proof.
  intros I Hlt Hpc.
  destruct (inv_thr w I t) as [T1 T2 T3 T4 T5 T6].
  destruct (T6 o false false) as (Wi & O1 & Fb & Co); [rewrite Hpc; reflexivity|].
  apply inv_update; auto.
  - intros t' o' _ H. exact (ti_hold _ _ _ (inv_thr w I t') o' H).
  - intros t' o' b c n H. destruct (ti_win _ _ _ (inv_thr w I t') o' b c H) as (Wi' & _).
    assert (o' <> o) by (intros ->; congruence). rewrite fupd_other; auto.
  - rewrite Hpc in *. split; cbn [pc cur returned with_pc once mu wins fbeg completed slot_of cfg]; try discriminate; auto.
    + intros _. rewrite T1 by discriminate. reflexivity.
    + intros o' b c E. injection E as <- <- <-. rewrite fupd_same, Fb. auto.
  - intros s h Hs. destruct (Nat.eq_dec h t) as [->|n]; [left|right; auto].
    destruct (inv_mu w I s t Hs) as [_ (o' & Ho & Hsl)]. rewrite Hpc in Ho. discriminate.
  - intros o'. destruct (Nat.eq_dec o' o) as [->|n].
    + apply objst_keep1; auto. intros b c _. cbn. eauto.
    + apply objst_keep; auto; try (rewrite fupd_other; auto).
      intros b c H. rewrite Hpc in H. cbn in H. congruence.
  - apply (inv_early w I).
Qed.

(* f returns *)
Lemma inv_fend w t o sp :
  Inv w -> (t < length (thr w))%nat -> pc (get w t) = OFRun o sp ->
  Inv (mk_w (cfg w) (once w) (mu w) (wins w) (fbeg w) (fupd (completed w) o true) (early w)
            (lupd (thr w) t (with_pc (get w t) (if sp then OStore o sp else OWinLock o)))).
Proof.
  intros I Hlt Hpc.
  destruct (inv_thr w I t) as [T1 T2 T3 T4 T5 T6].
  destruct (T6 o true false) as (Wi & O1 & Fb & Co); [rewrite Hpc; reflexivity|].
  apply inv_update; auto.
  - intros t' o' _ H. exact (ti_hold _ _ _ (inv_thr w I t') o' H).
  - intros t' o' b c n H. destruct (ti_win _ _ _ (inv_thr w I t') o' b c H) as (Wi' & _).
    assert (o' <> o) by (intros ->; congruence). rewrite fupd_other; auto.
  - rewrite Hpc in *. split; cbn [pc cur returned with_pc once mu wins fbeg completed slot_of cfg]; auto.
    + intros _. rewrite T1 by discriminate. destruct sp; reflexivity.
    + intros o'. destruct sp; discriminate.
    + intros o'. destruct sp; discriminate.
    + intros o'. destruct sp; discriminate.
    + intros o' b c E.
      assert (E' : (o', b, c) = (o, true, true)) by (destruct sp; cbn in E; congruence).
      injection E' as -> -> ->. rewrite fupd_same, Fb. auto.
  - intros s h Hs. destruct (Nat.eq_dec h t) as [->|n]; [left|right; auto].
    destruct (inv_mu w I s t Hs) as [_ (o' & Ho & Hsl)]. rewrite Hpc in Ho. discriminate.
  - intros o'. destruct (Nat.eq_dec o' o) as [->|n].
    + apply objst_keep1; auto. intros b c _. destruct sp; cbn; eauto.
    + apply objst_keep; auto; try (rewrite fupd_other; auto).
      intros b c H. rewrite Hpc in H. cbn in H. congruence.
  - apply (inv_early w I).
Qed.

(* the winner's store of 2 *)
Lemma inv_store w t o sp :
  Inv w -> (t < length (thr w))%nat -> pc (get w t) = OStore o sp ->
  Inv (mk_w (cfg w) (fupd (once w) o 2) (mu w) (wins w) (fbeg w) (completed w) (early w)
            (lupd (thr w) t (with_pc (get w t) (OWaitLoad o sp)))).
Proof.
  intros I Hlt Hpc.
  destruct (inv_thr w I t) as [T1 T2 T3 T4 T5 T6].
  destruct (T6 o true true) as (Wi & O1 & Fb & Co); [rewrite Hpc; reflexivity|].
  apply inv_update; auto.
  - intros o' H. destruct (Nat.eq_dec o' o) as [->|n]; [apply fupd_same|]. rewrite fupd_other; auto.
  - intros o' H. destruct (Nat.eq_dec o' o) as [->|n]; [rewrite fupd_same; lia|]. rewrite fupd_other; auto.
  - intros t' o' _ H. exact (ti_hold _ _ _ (inv_thr w I t') o' H).
  - intros t' o' b c n H. destruct (ti_win _ _ _ (inv_thr w I t') o' b c H) as (Wi' & _).
    assert (o' <> o) by (intros ->; congruence). rewrite fupd_other; auto.
  - rewrite Hpc in *. split; cbn [pc cur returned with_pc once mu wins fbeg completed slot_of cfg].
    + intros _. rewrite T1 by discriminate. reflexivity.
    + intros o' Hin. pose proof (T2 o' Hin). destruct (Nat.eq_dec o' o) as [->|n]; [apply fupd_same|]. rewrite fupd_other; auto.
    + intros o' E. injection E as <-. rewrite fupd_same. lia.
    + discriminate.
    + intros o'. destruct sp; cbn; [discriminate|]. intros E. injection E as <-. apply T5. reflexivity.
    + discriminate.
  - intros s h Hs. destruct (Nat.eq_dec h t) as [->|n]; [left|right; auto].
    split; auto. destruct (inv_mu w I s t Hs) as [_ (o' & Ho & Hsl)]. rewrite Hpc in Ho.
    destruct sp; cbn in Ho; [discriminate|]. injection Ho as <-. exists o. auto.
  - intros o'. destruct (Nat.eq_dec o' o) as [->|n].
    + right; right. cbn [once wins fbeg completed]. rewrite fupd_same. split; auto. exists t. auto.
    + apply objst_keep; auto; try (rewrite fupd_other; auto).
      intros b c H. rewrite Hpc in H. cbn in H. congruence.
  - apply (inv_early w I).
Qed.

(* --- the step --- *)

Lemma inv_begin_call w t : Inv w -> Inv (begin_call w t).
Proof.
  intros I. destruct (begin_call_cases w t) as [[-> _]|(o&sp&rest&Hpc&Hc&->)]; auto.
  assert (Hlt : (t < length (thr w))%nat) by (apply calls_in_range; rewrite Hc; discriminate).
  destruct (inv_thr w I t) as [T1 T2 T3 T4 T5 T6]. unfold set_thr.
  apply inv_update; auto.
  - intros t' o' _ H. exact (ti_hold _ _ _ (inv_thr w I t') o' H).
  - split; cbn [pc cur returned]; try discriminate; auto.
  - intros s h Hs. right. split; auto. intros ->.
    destruct (inv_mu w I s t Hs) as [_ (o' & Ho & _)]. rewrite Hpc in Ho. discriminate.
  - intros o'. apply objst_keep; auto. intros b c H. rewrite Hpc in H. discriminate.
  - apply (inv_early w I).
Qed.

Lemma step_core_oob w t : (length (thr w) <= t)%nat -> step_core w t = (w, EvNone).
Proof. intros H. unfold step_core. rewrite get_oob by auto. reflexivity. Qed.

Ltac zb := repeat match goal with
  | H : (_ =? _) = true |- _ => apply Z.eqb_eq in H
  | H : (_ =? _) = false |- _ => apply Z.eqb_neq in H
  end.

Lemma inv_do_lock w t o p :
  Inv w -> (t < length (thr w))%nat ->
  holds_pc (pc (get w t)) = None ->
  p <> OIdle -> pc_call p = pc_call (pc (get w t)) -> pc (get w t) <> OIdle ->
  (forall o', loser_pc p = Some o' -> once w o' <> 0) ->
  (forall o', p <> OFinalUnlock o') ->
  holds_pc p = Some o ->
  win_info p = win_info (pc (get w t)) ->
  Inv (fst (do_lock w t o p)).
Proof.
  intros I Hlt Hnh Hp Hc Hni Hl Hf Hh Hw. unfold do_lock.
  destruct (mu w (slot_of w o)) eqn:Hm; [exact I|].
  destruct (lockable (cfg w) (slot_of w o)); [|exact I].
  cbn [fst]. apply inv_lock; auto.
Qed.

Ltac fin := try (let o' := fresh "o" in let H := fresh "H" in
                 intros o' H; injection H as <-; first [assumption | lia]).
Ltac setpc Hpc := apply inv_set_pc; auto; rewrite ?Hpc; try discriminate; try reflexivity; fin.

Lemma inv_step_core w t : Inv w -> Inv (fst (step_core w t)).
Proof.
  intros I. destruct (lt_dec t (length (thr w))) as [Hlt|Hge].
  2:{ rewrite step_core_oob by lia. exact I. }
  destruct (inv_thr w I t) as [T1 T2 T3 T4 T5 T6].
  unfold step_core.
  destruct (pc (get w t)) as [|o sp|o sp|o z|o sp|o sp|o|o sp|o sp|o|o|o sp|o sp|o|o|o|o|o] eqn:Hpc; cbv zeta.
  - (* OIdle *) exact I.
  - (* OEntry *) destruct (once w o =? 2) eqn:E; cbn [fst]; zb.
    + apply inv_do_ret; auto; rewrite Hpc; reflexivity.
    + setpc Hpc.
  - (* OImplLoad *) destruct (once w o =? 2) eqn:E; cbn [negb andb]; zb.
    + cbn [fst]. apply inv_do_ret; auto; rewrite Hpc; reflexivity.
    + destruct (once w o =? 0) eqn:E0; zb; destruct sp; cbn [fst]; setpc Hpc.
  - (* OLock *) apply inv_do_lock; auto; rewrite ?Hpc; try (destruct z; discriminate); try (destruct z; reflexivity).
    intros o' H. apply T3. destruct z; cbn in H |- *; [discriminate|exact H].
  - (* OCas *) destruct (once w o =? 0) eqn:E0; cbn [fst]; zb.
    + apply inv_cas; auto.
    + setpc Hpc.
  - (* OReload *) pose proof (T3 o eq_refl) as L. destruct (once w o =? 0) eqn:E0; cbn [fst]; zb; setpc Hpc.
  - (* OWinUnlock *) unfold do_unlock. cbn [fst]. apply inv_unlock; auto; rewrite ?Hpc; try discriminate; try reflexivity.
  - (* OFBegin *) cbn [fst]. apply inv_fbegin; auto.
  - (* OFRun *) destruct (fterm (cfg w) o); cbn [fst]; [apply inv_fend; auto | exact I].
  - (* OWinLock *) apply inv_do_lock; auto; rewrite ?Hpc; try discriminate; try reflexivity.
  - (* OBroadcast *) cbn [fst]. setpc Hpc.
  - (* OStore *) cbn [fst]. apply inv_store; auto.
  - (* OWaitLoad *) pose proof (T3 o eq_refl) as L.
    destruct (once w o =? 2) eqn:E; cbn [fst]; zb; destruct sp.
    + apply inv_do_ret; auto; rewrite Hpc; reflexivity.
    + setpc Hpc.
    + setpc Hpc.
    + setpc Hpc.
  - (* OCvEnter *) pose proof (T3 o eq_refl) as L.
    cbn [fst]. apply inv_unlock; auto; rewrite ?Hpc; try discriminate; try reflexivity; fin.
  - (* OCvWait *) pose proof (T3 o eq_refl) as L. cbn [fst]. setpc Hpc.
  - (* OCvReacq *) pose proof (T3 o eq_refl) as L.
    apply inv_do_lock; auto; rewrite ?Hpc; try discriminate; try reflexivity; fin.
  - (* OSpin *) pose proof (T3 o eq_refl) as L. cbn [fst]. setpc Hpc.
  - (* OFinalUnlock *) cbn [fst]. apply inv_final; auto.
Qed.

Lemma length_begin_call w t : length (thr (begin_call w t)) = length (thr w).
Proof.
  destruct (begin_call_cases w t) as [[-> _]|(o&sp&rest&_&_&->)]; auto.
  cbn [thr set_thr]. apply length_lupd.
Qed.

Lemma inv_step w t : Inv w -> Inv (fst (step w t)).
Proof. intros I. rewrite step_eq. apply inv_step_core. apply inv_begin_call. exact I. Qed.

Lemma get_init e progs t : get (init e progs) t = mk_t OIdle None (nth t progs []) [].
Proof.
  unfold get, init. cbn [thr].
  change dflt with ((fun p => mk_t OIdle None p []) []).
  apply map_nth.
Qed.

Lemma inv_init e progs : Inv (init e progs).
Proof.
  split.
  - intros t. rewrite get_init. split; cbn; try discriminate; try contradiction; congruence.
  - intros s h H. discriminate.
  - intros o. left. repeat split; reflexivity.
  - reflexivity.
Qed.

Lemma inv_run sched : forall w, Inv w -> Inv (run w sched).
Proof.
  unfold run. induction sched as [|t sched IH]; intros w I; cbn [fold_left]; auto.
  apply IH. apply inv_step. exact I.
Qed.

Lemma inv_reach e progs sched : Inv (run (init e progs) sched).
Proof. apply inv_run, inv_init. Qed.

(* ---------- the theorems of C07: safety ---------- *)
Section Reach.
  Variables (e : env) (progs : list (list (nat * bool))) (sched : list nat).
  Let w := run (init e progs) sched.
  Let I : Inv w := inv_reach e progs sched.

  (* who won the CAS, who entered f: at most one thread each, and the same one *)
  Lemma winners_unique : forall o,
    (length (wins w o) <= 1)%nat /\ (length (fbeg w o) <= 1)%nat /\ (fbeg w o = [] \/ fbeg w o = wins w o) /\
    (completed w o = true -> fbeg w o = wins w o /\ length (fbeg w o) = 1%nat).
  Proof.
    intros o. destruct (inv_obj w I o) as [(_&a&b&c)|[(_&tw&a&_&bb&cc&Hi)|(_&tw&a&b&c)]].
    - rewrite a, b, c. cbn. repeat split; auto; discriminate.
    - destruct (ti_win _ _ _ (inv_thr w I tw) o bb cc Hi) as (_ & _ & Fb & Co).
      rewrite a, Fb, Co. destruct bb, cc; cbn; repeat split; auto; try discriminate.
      all: exfalso; destruct (pc (get w tw)); discriminate.
    - rewrite a, b. cbn. repeat split; auto.
  Qed.

  Lemma at_most_once : forall o, runs w o <= 1.
  Proof. intros o. unfold runs. destruct (winners_unique o) as (_ & H & _). lia. Qed.

  Lemma not_early :
    early w = 0 /\ forall t o, In o (returned (get w t)) -> completed w o = true /\ once w o = 2.
  Proof.
    split; [apply (inv_early w I)|]. intros t o Hin.
    pose proof (ti_ret _ _ _ (inv_thr w I t) o Hin) as H2. split; auto. apply done_completed; auto.
  Qed.

  (* the order of the events on one object, as the states they leave behind: the word is 2 only after f has returned,
     f has returned only after it was entered, it was entered only by the thread that won the CAS *)
  Lemma order_of_events : forall o,
    (once w o = 2 -> completed w o = true) /\
    (completed w o = true -> exists tw, fbeg w o = [tw] /\ wins w o = [tw]) /\
    (fbeg w o <> [] -> exists tw, fbeg w o = [tw] /\ wins w o = [tw] /\ once w o <> 0).
  Proof.
    intros o. split; [apply done_completed; auto|].
    destruct (inv_obj w I o) as [(z&a&b&c)|[(z&tw&a&_&bb&cc&Hi)|(z&tw&a&b&c)]].
    - rewrite b, c. split; [discriminate | congruence].
    - destruct (ti_win _ _ _ (inv_thr w I tw) o bb cc Hi) as (_ & _ & Fb & Co).
      rewrite a, Fb, Co. split.
      + intros ->. destruct bb; [eauto|]. destruct (pc (get w tw)); discriminate.
      + destruct bb; [|congruence]. intros _. exists tw. repeat split; auto. lia.
    - rewrite a, b. split; intros _; exists tw; repeat split; auto. lia.
  Qed.

  Lemma exactly_once : forall t o, In o (returned (get w t)) -> runs w o = 1.
  Proof.
    intros t o Hin. destruct not_early as [_ H]. destruct (H t o Hin) as [Hc _].
    destruct (order_of_events o) as (_ & H2 & _). destruct (H2 Hc) as (tw & Fb & _).
    unfold runs. rewrite Fb. reflexivity.
  Qed.

  Lemma winner_is_unique : forall o t1 t2, winner_of w o t1 -> winner_of w o t2 -> t1 = t2.
  Proof.
    intros o t1 t2 W1 W2. apply win_pc_info in W1, W2.
    destruct W1 as (b1 & c1 & W1), W2 as (b2 & c2 & W2).
    destruct (ti_win _ _ _ (inv_thr w I t1) o b1 c1 W1) as (A1 & _).
    destruct (ti_win _ _ _ (inv_thr w I t2) o b2 c2 W2) as (A2 & _). congruence.
  Qed.

  Lemma word_states : forall o,
    (once w o = 0 /\ wins w o = [] /\ fbeg w o = [] /\ completed w o = false /\ forall t, ~ winner_of w o t) \/
    (once w o = 1 /\ exists tw, wins w o = [tw] /\ winner_of w o tw /\ (forall t, winner_of w o t -> t = tw) /\
                     (fbeg w o = [] \/ fbeg w o = [tw])) \/
    (once w o = 2 /\ (exists tw, wins w o = [tw] /\ fbeg w o = [tw]) /\ completed w o = true /\ forall t, ~ winner_of w o t).
  Proof.
    intros o.
    assert (NW : once w o <> 1 -> forall t, ~ winner_of w o t).
    { intros H t W. apply win_pc_info in W. destruct W as (b & c & W). apply H. eapply win_once1; eauto. }
    destruct (inv_obj w I o) as [(z&a&b&c)|[(z&tw&a&r&bb&cc&Hi)|(z&tw&a&b&c)]].
    - left. repeat split; auto. apply NW. lia.
    - right; left. split; auto. exists tw.
      assert (W : winner_of w o tw) by (apply win_pc_info; eauto).
      repeat split; auto.
      + intros t Wt. eapply winner_is_unique; eauto.
      + destruct (ti_win _ _ _ (inv_thr w I tw) o bb cc Hi) as (_ & _ & Fb & _). destruct bb; auto.
    - right; right. repeat split; eauto. apply NW. lia.
  Qed.

  (* mutual exclusion on the shared internal lock, whatever the map once -> slot *)
  Lemma once_mu_exclusive : forall t1 t2 o1 o2,
    holds_pc (pc (get w t1)) = Some o1 -> holds_pc (pc (get w t2)) = Some o2 ->
    slot_of w o1 = slot_of w o2 -> t1 = t2.
  Proof.
    intros t1 t2 o1 o2 H1 H2 E.
    pose proof (ti_hold _ _ _ (inv_thr w I t1) o1 H1) as M1.
    pose proof (ti_hold _ _ _ (inv_thr w I t2) o2 H2) as M2. rewrite E in M1. congruence.
  Qed.

  Lemma holder_is_inside : forall s h, mu w s = Some h ->
    exists o, holds_pc (pc (get w h)) = Some o /\ slot_of w o = s /\ cur (get w h) = Some (o, false).
  Proof.
    intros s h H. destruct (inv_mu w I s h H) as [_ (o & Ho & Hs)]. exists o. repeat split; auto.
    assert (Hn : pc (get w h) <> OIdle) by (intros E; rewrite E in Ho; discriminate).
    rewrite (ti_cur _ _ _ (inv_thr w I h) Hn).
    destruct (pc (get w h)) as [|? []|? []|? []|? []|? []|?|? []|? []|?|?|? []|? []|?|?|?|?|?];
      cbn in Ho |- *; try discriminate; injection Ho as <-; reflexivity.
  Qed.

  (* the lock and the condition variable are touched only by a blocking call *)
  Lemma lock_events_blocking : forall t, lock_ev (snd (step w t)) = true ->
    exists o, lock_pc (pc (get w t)) = Some o /\ cur (get w t) = Some (o, false).
  Proof.
    intros t. rewrite step_eq.
    destruct (begin_call_cases w t) as [[-> _]|(o&sp&rest&Hpc&Hc&->)].
    - unfold step_core.
      assert (Hcur := ti_cur _ _ _ (inv_thr w I t)).
      destruct (pc (get w t)) as [|o sp|o sp|o z|o sp|o sp|o|o sp|o sp|o|o|o sp|o sp|o|o|o|o|o] eqn:Hpc; cbv zeta;
        unfold do_lock, do_unlock;
        repeat match goal with |- context [if ?c then _ else _] => destruct c
                          | |- context [match mu ?a ?b with _ => _ end] => destruct (mu a b) end;
        cbn [snd lock_ev]; try discriminate; intros _; exists o; (split; [reflexivity|]);
        rewrite Hcur by discriminate; reflexivity.
    - assert (Hlt : (t < length (thr w))%nat) by (apply calls_in_range; rewrite Hc; discriminate).
      unfold step_core, set_thr. rewrite get_upd_same by auto. cbn [pc]. cbv zeta.
      destruct (_ =? 2); cbn; discriminate.
  Qed.

  (* a call on a once that is done: one load of the word, then the return -- no lock, no wait, nothing else changes *)
  Lemma done_nonblocking : forall t o sp rest,
    pc (get w t) = OIdle -> calls (get w t) = (o, sp) :: rest -> once w o = 2 ->
    snd (step w t) = EvLoad 1 2 /\
    pc (get (fst (step w t)) t) = OIdle /\ calls (get (fst (step w t)) t) = rest /\
    returned (get (fst (step w t)) t) = o :: returned (get w t) /\
    mu (fst (step w t)) = mu w /\ once (fst (step w t)) = once w /\
    forall t', t' <> t -> get (fst (step w t)) t' = get w t'.
  Proof.
    intros t o sp rest Hpc Hc H2.
    assert (Hlt : (t < length (thr w))%nat) by (apply calls_in_range; rewrite Hc; discriminate).
    rewrite step_eq.
    destruct (begin_call_cases w t) as [[_ [H|H]]|(o'&sp'&rest'&_&Hc'&Hb)]; try congruence.
    rewrite Hc in Hc'. injection Hc' as <- <- <-. rewrite Hb. unfold set_thr.
    set (w1 := mk_w _ _ _ _ _ _ _ _).
    assert (G1 : get w1 t = mk_t (OEntry o sp) (Some (o, sp)) rest (returned (get w t))) by (apply get_upd_same; auto).
    assert (L1 : (t < length (thr w1))%nat) by (unfold w1; cbn [thr]; rewrite length_lupd; auto).
    unfold step_core. rewrite G1. cbn [pc]. cbv zeta.
    change (once w1 o) with (once w o). rewrite H2. cbn [Z.eqb Pos.eqb fst snd].
    rewrite get_ret_same by auto. rewrite G1. cbn [pc calls returned].
    repeat split; auto.
    intros t' n. unfold ret. rewrite get_upd_other by auto. unfold w1. rewrite get_upd_other by auto. reflexivity.
  Qed.

  (* the timed wait of a blocking loser ends by the loser's own step, whatever the others do or have done
     (in particular when the winner was a SPINNING call, which does not broadcast) *)
  Lemma cvwait_times_out : forall t o, pc (get w t) = OCvWait o ->
    pc (get (fst (step w t)) t) = OCvReacq o /\ snd (step w t) = EvCvEnd (slot_of w o).
  Proof.
    intros t o Hpc.
    assert (Hlt : (t < length (thr w))%nat) by (apply pc_in_range; rewrite Hpc; discriminate).
    rewrite step_eq. destruct (begin_call_cases w t) as [[-> _]|(o'&sp'&rest'&Hi&_)]; [|congruence].
    unfold step_core. rewrite Hpc. cbn [fst snd]. rewrite get_set_pc_same by auto. auto.
  Qed.
End Reach.

(* ---------- progress ---------- *)
Fixpoint lsum (f : tstate -> nat) (l : list tstate) : nat :=
  match l with [] => O | x :: l => (f x + lsum f l)%nat end.

Lemma rank_lsum w : rank w = lsum (trank w) (thr w).
Proof. unfold rank. induction (thr w) as [|x l IH]; cbn [fold_right lsum]; congruence. Qed.

Lemma lsum_lt f g : forall l l' t,
  length l' = length l -> (t < length l)%nat ->
  (forall i, i <> t -> (i < length l)%nat -> (g (nth i l' dflt) <= f (nth i l dflt))%nat) ->
  (g (nth t l' dflt) < f (nth t l dflt))%nat ->
  (lsum g l' < lsum f l)%nat.
Proof.
  assert (LE : forall l l', length l' = length l ->
            (forall i, (i < length l)%nat -> (g (nth i l' dflt) <= f (nth i l dflt))%nat) -> (lsum g l' <= lsum f l)%nat).
  { induction l as [|x l IH]; intros [|x' l'] Hl H; cbn in *; try lia.
    pose proof (H O ltac:(lia)) as H0. cbn in H0.
    assert (lsum g l' <= lsum f l)%nat; [|lia].
    apply IH; [lia|]. intros i Hi. apply (H (S i)). lia. }
  induction l as [|x l IH]; intros [|x' l'] t Hl Ht H Hs; cbn in *; try lia.
  destruct t as [|t].
  - assert (lsum g l' <= lsum f l)%nat; [|lia].
    apply LE; [lia|]. intros i Hi. apply (H (S i)); lia.
  - pose proof (H O ltac:(lia) ltac:(lia)) as H0. cbn in H0.
    assert (lsum g l' < lsum f l)%nat; [|lia].
    apply (IH l' t); try lia; auto.
    intros i Hn Hi. apply (H (S i)); lia.
Qed.

Lemma stage_mono p : (stage true p <= stage false p)%nat.
Proof. destruct p as [|? ?|? ?|? ?|? ?|? ?|?|? ?|? ?|?|?|? ?|? []|?|?|?|?|?]; cbn; lia. Qed.

Lemma stage_is2_mono w w' p :
  (forall o, once w o = 2 -> once w' o = 2) -> (stage (is2 w' p) p <= stage (is2 w p) p)%nat.
Proof.
  intros H. unfold is2. destruct (pc_obj p) as [o|]; [|lia].
  destruct (once w o =? 2) eqn:E.
  - apply Z.eqb_eq in E. rewrite (H o E). cbn. lia.
  - destruct (once w' o =? 2); [apply stage_mono | lia].
Qed.

(* thread t replaces its record by one of smaller rank, and no word leaves the value 2: the rank decreases *)
Lemma rank_update w t on' mu' wi' fb' co' ea' s' :
  (t < length (thr w))%nat ->
  (forall o, once w o = 2 -> on' o = 2) ->
  (trank (mk_w (cfg w) on' mu' wi' fb' co' ea' (lupd (thr w) t s')) s' < trank w (get w t))%nat ->
  (rank (mk_w (cfg w) on' mu' wi' fb' co' ea' (lupd (thr w) t s')) < rank w)%nat.
Proof.
  intros Hlt H2 Hs. rewrite !rank_lsum. cbn [thr].
  apply (lsum_lt _ _ (thr w) (lupd (thr w) t s') t); auto.
  - apply length_lupd.
  - intros i n Hi. rewrite nth_lupd_other by auto. unfold trank.
    pose proof (stage_is2_mono w (mk_w (cfg w) on' mu' wi' fb' co' ea' (lupd (thr w) t s')) (pc (nth i (thr w) dflt)) H2). lia.
  - rewrite nth_lupd_same by auto. exact Hs.
Qed.

Lemma rank_le_update w t on' mu' wi' fb' co' ea' s' :
  (t < length (thr w))%nat ->
  (forall o, once w o = 2 -> on' o = 2) ->
  (trank (mk_w (cfg w) on' mu' wi' fb' co' ea' (lupd (thr w) t s')) s' < trank w (get w t))%nat ->
  (rank (mk_w (cfg w) on' mu' wi' fb' co' ea' (lupd (thr w) t s')) <= rank w)%nat.
Proof. intros. apply Nat.lt_le_incl. apply rank_update; auto. Qed.

(* a thread whose next step is certain to make progress *)
Definition goodb (w : world) (t : nat) : bool :=
  match pc (get w t) with
  | OIdle => match calls (get w t) with [] => false | _ => true end
  | OLock o _ | OWinLock o => match mu w (slot_of w o) with None => true | Some _ => false end
  | OCvReacq o => match mu w (slot_of w o) with None => once w o =? 2 | Some _ => false end
  | OWaitLoad o true | OCvWait o | OSpin o => once w o =? 2
  | _ => true
  end.

Local Arguments Nat.mul : simpl never.
Ltac rk Hlt := apply rank_update; [exact Hlt | auto | unfold trank; cbn [pc calls with_pc stage is2 pc_obj once]; rewrite ?fupd_same].

Lemma core_decreases w t :
  Inv w -> env_ok (cfg w) -> (t < length (thr w))%nat -> pc (get w t) <> OIdle -> goodb w t = true ->
  (rank (fst (step_core w t)) < rank w)%nat.
Proof.
  intros I [Hft Hlk] Hlt Hni Hg.
  destruct (inv_thr w I t) as [T1 T2 T3 T4 T5 T6].
  unfold goodb in Hg. unfold step_core.
  destruct (pc (get w t)) as [|o sp|o sp|o z|o sp|o sp|o|o sp|o sp|o|o|o sp|o sp|o|o|o|o|o] eqn:Hpc; cbv zeta.
  - congruence.
  - (* OEntry *) destruct (once w o =? 2) eqn:E; cbn [fst]; unfold ret, set_pc, set_thr; rk Hlt.
    + rewrite Hpc. cbn. lia.
    + rewrite Hpc. cbn. rewrite ?E. lia.
  - (* OImplLoad *) destruct (once w o =? 2) eqn:E; cbn [negb andb fst]; unfold ret, set_pc, set_thr.
    + rk Hlt. rewrite Hpc. cbn. lia.
    + destruct (once w o =? 0) eqn:E0; destruct sp; cbn [fst]; rk Hlt; rewrite Hpc; cbn; rewrite ?E; lia.
  - (* OLock *) unfold do_lock. destruct (mu w (slot_of w o)); [discriminate|]. rewrite Hlk. cbn [fst].
    unfold set_pc, set_thr. rewrite get_set_mu. unfold set_mu. cbn [thr cfg once mu wins fbeg completed early].
    rk Hlt. rewrite Hpc. destruct z; cbn; destruct (once w o =? 2); lia.
  - (* OCas *) destruct (once w o =? 0) eqn:E0; cbn [fst]; unfold set_pc, set_thr.
    + apply rank_update; [exact Hlt| |].
      * intros o' H. apply Z.eqb_eq in E0. assert (o' <> o) by (intros ->; lia). rewrite fupd_other; auto.
      * unfold trank. rewrite Hpc. destruct sp; cbn; lia.
    + rk Hlt. rewrite Hpc. cbn. lia.
  - (* OReload *) pose proof (T3 o eq_refl) as L. destruct (once w o =? 0) eqn:E0; [apply Z.eqb_eq in E0; lia|].
    cbn [fst]. unfold set_pc, set_thr. rk Hlt. rewrite Hpc. cbn. destruct (once w o =? 2); destruct sp; lia.
  - (* OWinUnlock *) unfold do_unlock. cbn [fst]. unfold set_pc, set_thr. rewrite get_set_mu. unfold set_mu. cbn [thr cfg once mu wins fbeg completed early]. rk Hlt. rewrite Hpc. cbn. lia.
  - (* OFBegin *) cbn [fst]. rk Hlt. rewrite Hpc. cbn. lia.
  - (* OFRun *) rewrite Hft. cbn [fst]. rk Hlt. rewrite Hpc. destruct sp; cbn; lia.
  - (* OWinLock *) unfold do_lock. destruct (mu w (slot_of w o)); [discriminate|]. rewrite Hlk. cbn [fst].
    unfold set_pc, set_thr. rewrite get_set_mu. unfold set_mu. cbn [thr cfg once mu wins fbeg completed early].
    rk Hlt. rewrite Hpc. cbn. lia.
  - (* OBroadcast *) cbn [fst]. unfold set_pc, set_thr. rk Hlt. rewrite Hpc. cbn. lia.
  - (* OStore *) cbn [fst]. apply rank_update; [exact Hlt| |].
    + intros o' H. destruct (Nat.eq_dec o' o) as [->|n]; [apply fupd_same|rewrite fupd_other; auto].
    + unfold trank. rewrite Hpc. cbn [pc calls with_pc stage is2 pc_obj once]. rewrite fupd_same. cbn. lia.
  - (* OWaitLoad *) destruct (once w o =? 2) eqn:E; cbn [fst]; destruct sp; try discriminate;
      unfold ret, set_pc, set_thr; rk Hlt; rewrite Hpc; cbn; rewrite ?E; lia.
  - (* OCvEnter *) cbn [fst]. unfold set_pc, set_thr. rewrite get_set_mu. unfold set_mu. cbn [thr cfg once mu wins fbeg completed early]. rk Hlt. rewrite Hpc. cbn.
    destruct (once w o =? 2); lia.
  - (* OCvWait *) cbn [fst]. unfold set_pc, set_thr. rk Hlt. rewrite Hpc. cbn. rewrite Hg. lia.
  - (* OCvReacq *) unfold do_lock. destruct (mu w (slot_of w o)); [discriminate|]. rewrite Hlk. cbn [fst].
    unfold set_pc, set_thr. rewrite get_set_mu. unfold set_mu. cbn [thr cfg once mu wins fbeg completed early].
    rk Hlt. rewrite Hpc. cbn. rewrite Hg. lia.
  - (* OSpin *) cbn [fst]. unfold set_pc, set_thr. rk Hlt. rewrite Hpc. cbn. rewrite Hg. lia.
  - (* OFinalUnlock *) cbn [fst]. unfold ret. rewrite get_set_mu. unfold set_mu. cbn [thr cfg once mu wins fbeg completed early].
    rk Hlt. rewrite Hpc. cbn. lia.
Qed.

Lemma step_decreases w t :
  Inv w -> env_ok (cfg w) -> goodb w t = true -> (rank (fst (step w t)) < rank w)%nat.
Proof.
  intros I He Hg. rewrite step_eq.
  destruct (begin_call_cases w t) as [[-> Hc]|(o&sp&rest&Hpc&Hc&Hb)].
  - assert (Hni : pc (get w t) <> OIdle).
    { intros E. unfold goodb in Hg. rewrite E in Hg. destruct Hc as [Hc|Hc]; [congruence|]. rewrite Hc in Hg. discriminate. }
    apply core_decreases; auto. apply pc_in_range; auto.
  - assert (Hlt : (t < length (thr w))%nat) by (apply calls_in_range; rewrite Hc; discriminate).
    assert (I1 : Inv (begin_call w t)) by (apply inv_begin_call; auto).
    rewrite Hb in *. unfold set_thr in *.
    set (w1 := mk_w _ _ _ _ _ _ _ _) in *.
    assert (G1 : get w1 t = mk_t (OEntry o sp) (Some (o, sp)) rest (returned (get w t))) by (apply get_upd_same; auto).
    assert (R1 : (rank w1 <= rank w)%nat).
    { apply rank_le_update; auto. unfold trank. rewrite Hpc, Hc. cbn. lia. }
    assert (R2 : (rank (fst (step_core w1 t)) < rank w1)%nat).
    { apply core_decreases; auto.
      - unfold w1; cbn [thr]; rewrite length_lupd; auto.
      - rewrite G1. discriminate.
      - unfold goodb. rewrite G1. reflexivity. }
    lia.
Qed.

Lemma goodb_in_range w t : goodb w t = true -> (t < length (thr w))%nat.
Proof.
  intros H. destruct (lt_dec t (length (thr w))) as [|n]; auto.
  unfold goodb in H. rewrite get_oob in H by lia. discriminate.
Qed.

(* in every world satisfying the invariant, either everybody has finished or some thread is certain to make progress *)
Lemma good_or_done w : Inv w -> all_done w \/ exists t, goodb w t = true.
Proof.
  intros I.
  destruct (existsb (goodb w) (seq 0 (length (thr w)))) eqn:Ex.
  { right. apply existsb_exists in Ex. destruct Ex as (t & _ & H). eauto. }
  left.
  assert (NG : forall t, goodb w t = false).
  { intros t. destruct (goodb w t) eqn:G; auto.
    assert (existsb (goodb w) (seq 0 (length (thr w))) = true); [|congruence].
    apply existsb_exists. exists t. split; auto. apply in_seq. pose proof (goodb_in_range w t G). lia. }
  (* no lock is held: a holder would be certain to make progress *)
  assert (Free : forall s, mu w s = None).
  { intros s. destruct (mu w s) as [h|] eqn:M; auto. exfalso.
    destruct (inv_mu w I s h M) as [_ (o & Ho & _)]. pose proof (NG h) as G. unfold goodb in G.
    destruct (pc (get w h)) as [|? []|? []|? []|? []|? []|?|? []|? []|?|?|? []|? []|?|?|?|?|?]; cbn in Ho; discriminate. }
  (* nobody is a winner: a winner would be certain to make progress *)
  assert (NoWin : forall t o b c, win_info (pc (get w t)) = Some (o, b, c) -> False).
  { intros t o b c H. pose proof (NG t) as G. unfold goodb in G.
    destruct (pc (get w t)) as [|? []|? []|? []|? []|? []|?|? []|? []|?|?|? []|? []|?|?|?|?|?] eqn:Hpc; cbn in H; try discriminate.
    rewrite Free in G. discriminate. }
  (* a waiting loser has a winner *)
  assert (Lose : forall t o, loser_pc (pc (get w t)) = Some o -> once w o = 2).
  { intros t o H. pose proof (ti_lose _ _ _ (inv_thr w I t) o H) as H0.
    destruct (inv_obj w I o) as [(a&_)|[(_&tw&_&_&b&c&Hi)|(a&_)]]; auto; [contradiction|].
    exfalso. eapply NoWin; eauto. }
  intros t. pose proof (NG t) as G. unfold goodb in G.
  destruct (pc (get w t)) as [|o sp|o sp|o z|o sp|o sp|o|o sp|o sp|o|o|o sp|o sp|o|o|o|o|o] eqn:Hpc; try discriminate.
  - destruct (calls (get w t)); [auto | discriminate].
  - rewrite Free in G. discriminate.
  - rewrite Free in G. discriminate.
  - destruct sp; [|discriminate]. pose proof (Lose t o) as L. rewrite Hpc in L. rewrite (L eq_refl) in G. discriminate.
  - pose proof (Lose t o) as L. rewrite Hpc in L. rewrite (L eq_refl) in G. discriminate.
  - pose proof (Lose t o) as L. rewrite Hpc in L. rewrite (L eq_refl), Free in G. discriminate.
  - pose proof (Lose t o) as L. rewrite Hpc in L. rewrite (L eq_refl) in G. discriminate.
Qed.

Lemma cfg_step_core w t : cfg (fst (step_core w t)) = cfg w.
Proof.
  unfold step_core, do_lock, do_unlock.
  destruct (pc (get w t)); cbv zeta;
    repeat match goal with |- context [if ?c then _ else _] => destruct c
                      | |- context [match mu ?a ?b with _ => _ end] => destruct (mu a b) end; reflexivity.
Qed.
Lemma cfg_step w t : cfg (fst (step w t)) = cfg w.
Proof.
  rewrite step_eq, cfg_step_core. unfold begin_call.
  destruct (pc (get w t)); try reflexivity. destruct (calls (get w t)) as [|[? ?] ?]; reflexivity.
Qed.
Lemma cfg_run sched : forall w, cfg (run w sched) = cfg w.
Proof.
  unfold run. induction sched as [|t sched IH]; intros w; cbn [fold_left]; auto.
  rewrite IH. apply cfg_step.
Qed.

Lemma run_app w s1 s2 : run w (s1 ++ s2) = run (run w s1) s2.
Proof. unfold run. apply fold_left_app. Qed.

(* from every world satisfying the invariant the system can run to completion, in at most [rank w] steps *)
Lemma can_finish : forall n w, (rank w <= n)%nat -> Inv w -> env_ok (cfg w) ->
  exists sched', (length sched' <= n)%nat /\ all_done (run w sched').
Proof.
  induction n as [|n IH]; intros w Hr I He.
  - destruct (good_or_done w I) as [D|(t & G)].
    + exists []. split; auto.
    + pose proof (step_decreases w t I He G). lia.
  - destruct (good_or_done w I) as [D|(t & G)].
    + exists []. split; [cbn; lia | auto].
    + pose proof (step_decreases w t I He G) as Hd.
      destruct (IH (fst (step w t))) as (s' & Hl & Hd'); [lia | apply inv_step; auto | rewrite cfg_step; auto |].
      exists (t :: s'). split; [cbn; lia | exact Hd'].
Qed.

Lemma no_stuck e progs sched : env_ok e ->
  exists sched', (length sched' <= rank (run (init e progs) sched))%nat /\ all_done (run (init e progs) (sched ++ sched')).
Proof.
  intros He.
  destruct (can_finish (rank (run (init e progs) sched)) (run (init e progs) sched)) as (s' & Hl & Hd); auto.
  - apply inv_reach.
  - rewrite cfg_run. exact He.
  - exists s'. rewrite run_app. auto.
Qed.

Lemma progress e progs sched : env_ok e ->
  all_done (run (init e progs) sched) \/
  exists t, (rank (fst (step (run (init e progs) sched) t)) < rank (run (init e progs) sched))%nat.
Proof.
  intros He. destruct (good_or_done _ (inv_reach e progs sched)) as [D|(t & G)]; [left; auto|right].
  exists t. apply step_decreases; auto; [apply inv_reach | rewrite cfg_run; exact He].
Qed.

(* ---------- the hypotheses of no_stuck are necessary ---------- *)
Lemma step_core_other w t t' : t' <> t -> get (fst (step_core w t)) t' = get w t'.
Proof.
  intros n. unfold step_core, do_lock, do_unlock, ret, set_pc, set_thr, set_mu.
  destruct (pc (get w t)); cbv zeta;
    repeat match goal with |- context [if ?c then _ else _] => destruct c
                      | |- context [match mu ?a ?b with _ => _ end] => destruct (mu a b) end;
    cbn [fst]; try reflexivity; unfold get; cbn [thr]; apply nth_lupd_other; auto.
Qed.

Lemma step_other w t t' : t' <> t -> get (fst (step w t)) t' = get w t'.
Proof.
  intros n. rewrite step_eq, step_core_other by auto.
  destruct (begin_call_cases w t) as [[-> _]|(o&sp&rest&_&_&->)]; auto.
  unfold set_thr, get; cbn [thr]. apply nth_lupd_other; auto.
Qed.

(* a once-function that does not return keeps its caller inside it for ever *)
Lemma f_stuck_forever w t o sp : fterm (cfg w) o = false -> pc (get w t) = OFRun o sp ->
  forall sched', get (run w sched') t = get w t.
Proof.
  intros Hf Hpc sched'. revert w Hf Hpc. unfold run.
  induction sched' as [|t' s IH]; intros w Hf Hpc; cbn [fold_left]; auto.
  assert (E : get (fst (step w t')) t = get w t).
  { destruct (Nat.eq_dec t t') as [<-|n]; [|apply step_other; auto].
    rewrite step_eq. destruct (begin_call_cases w t) as [[-> _]|(o'&sp'&rest&Hi&_)]; [|congruence].
    unfold step_core. rewrite Hpc, Hf. reflexivity. }
  rewrite IH; auto; [rewrite cfg_step; auto | rewrite E; auto].
Qed.

(* a once_mu that cannot be obtained keeps a blocking caller in front of it for ever *)
Lemma lock_stuck_forever w t o z : lockable (cfg w) (slot_of w o) = false -> pc (get w t) = OLock o z ->
  forall sched', get (run w sched') t = get w t.
Proof.
  intros Hf Hpc sched'. revert w Hf Hpc. unfold run.
  induction sched' as [|t' s IH]; intros w Hf Hpc; cbn [fold_left]; auto.
  assert (E : get (fst (step w t')) t = get w t).
  { destruct (Nat.eq_dec t t') as [<-|n]; [|apply step_other; auto].
    rewrite step_eq. destruct (begin_call_cases w t) as [[-> _]|(o'&sp'&rest&Hi&_)]; [|congruence].
    unfold step_core, do_lock. rewrite Hpc, Hf. destruct (mu w (slot_of w o)); reflexivity. }
  rewrite IH; auto; [unfold slot_of in *; rewrite cfg_step; auto | rewrite E; auto].
Qed.

(* ---------- concrete runs ---------- *)
Definition idle_b (s : tstate) : bool :=
  match pc s, calls s with OIdle, [] => true | _, _ => false end.
Lemma all_done_of_b w : forallb idle_b (thr w) = true -> all_done w.
Proof.
  intros H t. destruct (lt_dec t (length (thr w))) as [Hlt|Hge].
  - rewrite forallb_forall in H. specialize (H (get w t) (nth_In _ _ Hlt)).
    unfold idle_b in H. destruct (pc (get w t)); try discriminate. destruct (calls (get w t)); try discriminate. auto.
  - rewrite get_oob by lia. auto.
Qed.
Definition env_mod64 : env := mk_env (fun o => Nat.modulo o 64) (fun _ => true) (fun _ => true).
Definition events (w : world) (sched : list nat) : list ev :=
  snd (fold_left (fun a t => (fst (step (fst a) t), snd a ++ [snd (step (fst a) t)])) sched (w, [])).

(* two callers on one word, racing: thread 0 (blocking) wins the CAS, thread 1 (spinning) loses it, spins once in vain,
   and both return after the store *)
Lemma example_two_callers : exists progs sched,
  let w := run (init env_mod64 progs) sched in
  runs w 0%nat = 1 /\ wins w 0%nat = [0%nat] /\ returned (get w 0%nat) = [0%nat] /\ returned (get w 1%nat) = [0%nat] /\
  early w = 0 /\ all_done w.
Proof.
  exists [[(0%nat, false)]; [(0%nat, true)]], [0;1;0;1;0;0;1;1;1;0;0;0;0;0;0;0;0;1;1]%nat.
  repeat split; try (vm_compute; reflexivity); apply all_done_of_b; vm_compute; reflexivity.
Qed.

(* the mix the broadcast does not cover: a SPINNING winner (thread 0; it takes no lock and does not broadcast) beside a
   BLOCKING loser (thread 1) that goes to sleep on once_cv before the store; the loser's wait ends by its own step
   (its deadline), it re-acquires once_mu, reads 2, unlocks and returns *)
Definition mix_progs : list (list (nat * bool)) := [[(0%nat, true)]; [(0%nat, false)]].
Definition mix_sched : list nat := [0; 0; 0; 1; 1; 1; 1; 1; 0; 0; 0; 0; 1; 1; 1; 1]%nat.
Lemma example_spin_winner_blocking_loser :
  let w := run (init env_mod64 mix_progs) mix_sched in
  events (init env_mod64 mix_progs) mix_sched =
    [ EvLoad 1 0; EvLoad 11 0; EvCas 12 true;                        (* 0: the spinning call wins *)
      EvLoad 1 1; EvLoad 11 1; EvLock 0; EvLoad 15 1; EvCvRelease 0; (* 1: the blocking call loses, waits on once_cv *)
      EvFBegin 0; EvFEnd 0; EvStore 14 2; EvLoad 15 2;               (* 0: f, store of 2 -- no broadcast -- return *)
      EvCvEnd 0; EvLock 0; EvLoad 15 2; EvUnlock 0 ] /\              (* 1: the timed wait ends, 2 is read, return *)
  all_done w /\ returned (get w 1%nat) = [0%nat] /\ early w = 0.
Proof.
  repeat split; try (vm_compute; reflexivity); apply all_done_of_b; vm_compute; reflexivity.
Qed.

(* two once objects (indices 0 and 64) that share a once_sync slot: while thread 0, a blocking caller on object 0, is
   inside the critical section, thread 1's nsync_mu_lock for object 64 does not return; it does once thread 0 has
   released the lock to run its function; both functions run, both calls return *)
Definition share_progs : list (list (nat * bool)) := [[(0%nat, false)]; [(64%nat, false)]].
Definition share_sched : list nat := [0; 0; 0; 1; 1; 1; 0; 0; 1; 1; 1; 1; 1; 0; 1; 1; 1; 1; 1; 0; 0; 0; 0; 0; 0]%nat.
Lemma example_shared_slot :
  let w := run (init env_mod64 share_progs) share_sched in
  firstn 13 (events (init env_mod64 share_progs) share_sched) =
    [ EvLoad 1 0; EvLoad 11 0; EvLock 0;       (* 0: takes once_mu of slot 0 *)
      EvLoad 1 0; EvLoad 11 0; EvBlocked 0;    (* 1: object 64, same slot: blocked *)
      EvCas 12 true; EvUnlock 0;               (* 0: wins, releases the lock for the call of f *)
      EvLock 0; EvCas 12 true; EvUnlock 0;     (* 1: now obtains it, wins on its own word *)
      EvFBegin 64; EvFEnd 64 ] /\
  all_done w /\ runs w 0%nat = 1 /\ runs w 64%nat = 1 /\ early w = 0.
Proof.
  repeat split; try (vm_compute; reflexivity); apply all_done_of_b; vm_compute; reflexivity.
Qed.

(* the once-function of object 0 does not return: its caller stays inside it whatever is scheduled *)
Lemma example_f_never_returns : forall sched',
  let e := mk_env (fun o => o) (fun _ => false) (fun _ => true) in
  pc (get (run (run (init e [[(0%nat, true)]]) [0; 0; 0; 0]%nat) sched') 0%nat) = OFRun 0 true.
Proof.
  intros sched' e. rewrite (f_stuck_forever _ 0%nat 0%nat true); reflexivity.
Qed.
