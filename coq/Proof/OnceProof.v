(* OnceProof: proofs about Model/OnceModel.v (nsync_run_once and friends), used by Props/Properties_C07.v.
   One inductive invariant over [run]: every once word is in one of three states
     A  once=0, runs=0, not completed, nobody between CAS and store
     B  once=1, runs=1, not completed, exactly one thread between its CAS and its store (the winner)
     C  once=2, runs=1, completed,     nobody between CAS and store
   plus: early = 0; every returned call's object is completed; a thread in the wait loop has seen a non-zero word.
   No axioms, nothing admitted. *)
From NsyncBase Require Import CSem.
From NsyncGen Require Import Consts Sites.
From NsyncModel Require Import OnceModel.
From Coq Require Import List ZArith Bool Lia Arith.
Import ListNotations.
Local Open Scope Z_scope.

(* ---------- the generated constants and guards, evaluated ---------- *)
Lemma cas1_new_eq : nsync_run_once_impl_cas1_new = 1. Proof. reflexivity. Qed.
Lemma cas1_old_eq : nsync_run_once_impl_cas1_old = 0. Proof. reflexivity. Qed.
Lemma store1_new_eq : nsync_run_once_impl_store1_new = 2. Proof. reflexivity. Qed.
Lemma load2_guard_eq v : nsync_run_once_impl_load2_guard v = negb (v =? 2). Proof. reflexivity. Qed.
Lemma cas1_guard_eq v : nsync_run_once_impl_cas1_guard v = negb (v =? 2) && (v =? 0). Proof. reflexivity. Qed.

(* the step after begin_call, with the generated terms replaced by their values *)
Definition step_core (w : world) (t : nat) : world * ev :=
  match pc (get w t) with
  | OIdle => (w, EvNone)
  | OEntry o sp =>
      let v := once w o in
      if v =? 2 then (ret w t o, EvLoad 1 v) else (set_pc w t (OImplLoad o sp), EvLoad 1 v)
  | OImplLoad o sp =>
      let v := once w o in
      if negb (v =? 2)
      then (if negb (v =? 2) && (v =? 0) then (set_pc w t (OCas o sp), EvLoad 11 v)
            else (set_pc w t (OWaitLoad o sp), EvLoad 11 v))
      else (ret w t o, EvLoad 11 v)
  | OCas o sp =>
      if once w o =? 0
      then (mk_w (fupd (once w) o 1) (fupd (runs w) o (runs w o + 1)) (completed w) (early w)
                 (lupd (thr w) t (mk_t (ORunning o sp) (calls (get w t)) (returned (get w t)))), EvCas 12 true)
      else (set_pc w t (OReload o sp), EvCas 12 false)
  | OReload o sp =>
      let v := once w o in
      if v =? 0 then (set_pc w t (OCas o sp), EvLoad 13 v) else (set_pc w t (OWaitLoad o sp), EvLoad 13 v)
  | ORunning o sp =>
      (mk_w (fupd (once w) o 2) (runs w) (fupd (completed w) o true) (early w)
            (lupd (thr w) t (mk_t (OWaitLoad o sp) (calls (get w t)) (returned (get w t)))), EvStore 14 2)
  | OWaitLoad o sp =>
      let v := once w o in
      if v =? 2 then (ret w t o, EvLoad 15 v) else (w, EvLoad 15 v)
  end.

Lemma step_eq w t : step w t = step_core (begin_call w t) t.
Proof. reflexivity. Qed.

(* ---------- lists and maps ---------- *)
Lemma length_lupd {A} (l : list A) k v : length (lupd l k v) = length l.
Proof. revert k; induction l as [|x l IH]; intros [|k]; cbn; auto. Qed.

Lemma nth_lupd_same {A} (l : list A) k v d : (k < length l)%nat -> nth k (lupd l k v) d = v.
Proof.
  revert k; induction l as [|x l IH]; intros [|k] H; cbn in *; try lia; auto.
  apply IH; lia.
Qed.

Lemma nth_lupd_other {A} (l : list A) k k' v d : k' <> k -> nth k' (lupd l k v) d = nth k' l d.
Proof.
  revert k k'; induction l as [|x l IH]; intros [|k] [|k'] H; cbn; auto; try congruence.
Qed.

Lemma fupd_same {A} (f : nat -> A) k v : fupd f k v k = v.
Proof. unfold fupd. now rewrite Nat.eqb_refl. Qed.
Lemma fupd_other {A} (f : nat -> A) k v x : x <> k -> fupd f k v x = f x.
Proof. unfold fupd. intros H. destruct (Nat.eqb_spec x k); congruence. Qed.

Lemma cons_neq {A} (x : A) l : x :: l <> l.
Proof. intros E. apply (f_equal (@length A)) in E. cbn in E. lia. Qed.

Lemma get_oob w t : (length (thr w) <= t)%nat -> get w t = dflt.
Proof. intros. unfold get. now apply nth_overflow. Qed.

Lemma pc_in_range w t : pc (get w t) <> OIdle -> (t < length (thr w))%nat.
Proof.
  intros H. destruct (lt_dec t (length (thr w))) as [|n]; auto.
  rewrite get_oob in H by lia. cbn in H. congruence.
Qed.
Lemma calls_in_range w t : calls (get w t) <> [] -> (t < length (thr w))%nat.
Proof.
  intros H. destruct (lt_dec t (length (thr w))) as [|n]; auto.
  rewrite get_oob in H by lia. cbn in H. congruence.
Qed.

Lemma get_upd_same w t on ru co ea s :
  (t < length (thr w))%nat -> get (mk_w on ru co ea (lupd (thr w) t s)) t = s.
Proof. intros. unfold get. cbn [thr]. now apply nth_lupd_same. Qed.
Lemma get_upd_other w t on ru co ea s t' :
  t' <> t -> get (mk_w on ru co ea (lupd (thr w) t s)) t' = get w t'.
Proof. intros. unfold get. cbn [thr]. now apply nth_lupd_other. Qed.

Lemma get_ret_same w t o : (t < length (thr w))%nat ->
  get (ret w t o) t = mk_t OIdle (calls (get w t)) (o :: returned (get w t)).
Proof. intros. unfold ret. now apply get_upd_same. Qed.
Lemma get_set_pc_same w t p : (t < length (thr w))%nat ->
  get (set_pc w t p) t = mk_t p (calls (get w t)) (returned (get w t)).
Proof. intros. unfold set_pc. now apply get_upd_same. Qed.

Lemma begin_call_cases w t :
  (begin_call w t = w /\ (pc (get w t) <> OIdle \/ calls (get w t) = [])) \/
  (exists o sp rest, pc (get w t) = OIdle /\ calls (get w t) = (o, sp) :: rest /\
     begin_call w t = mk_w (once w) (runs w) (completed w) (early w)
                           (lupd (thr w) t (mk_t (OEntry o sp) rest (returned (get w t))))).
Proof.
  unfold begin_call.
  destruct (pc (get w t)) eqn:Hpc; try (left; split; [reflexivity | left; discriminate]).
  destruct (calls (get w t)) as [|[o sp] rest] eqn:Hc.
  - left; split; auto.
  - right. exists o, sp, rest. auto.
Qed.

(* ---------- the invariant ---------- *)
Definition norun (w : world) (o : nat) : Prop := forall t sp, pc (get w t) <> ORunning o sp.
Definition objst (w : world) (o : nat) : Prop :=
  (once w o = 0 /\ runs w o = 0 /\ completed w o = false /\ norun w o) \/
  (once w o = 1 /\ runs w o = 1 /\ completed w o = false /\
     exists t, winner_of w o t /\ forall t', winner_of w o t' -> t' = t) \/
  (once w o = 2 /\ runs w o = 1 /\ completed w o = true /\ norun w o).

Record Inv (w : world) : Prop := {
  inv_obj : forall o, objst w o;
  inv_early : early w = 0;
  inv_ret : forall t o, In o (returned (get w t)) -> completed w o = true;
  inv_wait : forall t o sp, pc (get w t) = OWaitLoad o sp -> once w o <> 0 }.

Lemma done_completed w o : Inv w -> once w o = 2 -> completed w o = true.
Proof.
  intros I H. destruct (inv_obj w I o) as [(a&_)|[(a&_)|(_&_&c&_)]]; auto; lia.
Qed.

(* a step that only touches thread t's own record; t neither was nor becomes a winner *)
Lemma inv_local w t s' :
  Inv w -> (t < length (thr w))%nat ->
  (forall o sp, pc (get w t) <> ORunning o sp) ->
  (forall o sp, pc s' <> ORunning o sp) ->
  (forall o sp, pc s' = OWaitLoad o sp -> once w o <> 0) ->
  (forall o, In o (returned s') -> completed w o = true) ->
  Inv (mk_w (once w) (runs w) (completed w) (early w) (lupd (thr w) t s')).
Proof.
  intros [Ho He Hr Hw] Hlt Hnr Hnr' Hwt Hrt.
  set (w' := mk_w (once w) (runs w) (completed w) (early w) (lupd (thr w) t s')).
  assert (Gs : get w' t = s') by (apply get_upd_same; auto).
  assert (Go : forall t', t' <> t -> get w' t' = get w t') by (intros; apply get_upd_other; auto).
  assert (NR : forall o, norun w o -> norun w' o).
  { intros o d t' sp'. destruct (Nat.eq_dec t' t) as [->|n].
    - rewrite Gs. apply Hnr'.
    - rewrite Go by auto. apply d. }
  split.
  - intro o. destruct (Ho o) as [(a&b&c&d)|[(a&b&c&(t1&[sp W]&U))|(a&b&c&d)]].
    + left. repeat split; auto.
    + right; left. repeat split; auto. exists t1.
      assert (t1 <> t) by (intros ->; eapply Hnr; eauto).
      split.
      * exists sp. rewrite Go; auto.
      * intros t' [sp' W']. apply U. destruct (Nat.eq_dec t' t) as [->|n].
        -- rewrite Gs in W'. exfalso; eapply Hnr'; eauto.
        -- rewrite Go in W' by auto. exists sp'; auto.
    + right; right. repeat split; auto.
  - exact He.
  - intros t' o. destruct (Nat.eq_dec t' t) as [->|n].
    + rewrite Gs. apply Hrt.
    + rewrite Go by auto. apply Hr.
  - intros t' o sp. destruct (Nat.eq_dec t' t) as [->|n].
    + rewrite Gs. apply Hwt.
    + rewrite Go by auto. apply Hw.
Qed.

Lemma inv_set_pc w t p :
  Inv w -> (t < length (thr w))%nat ->
  (forall o sp, pc (get w t) <> ORunning o sp) ->
  (forall o sp, p <> ORunning o sp) ->
  (forall o sp, p = OWaitLoad o sp -> once w o <> 0) ->
  Inv (set_pc w t p).
Proof.
  intros I Hlt Hnr Hp Hwt. unfold set_pc. apply inv_local; auto.
  cbn [returned]. intros o. apply (inv_ret w I).
Qed.

Lemma inv_do_ret w t o :
  Inv w -> (t < length (thr w))%nat ->
  (forall o sp, pc (get w t) <> ORunning o sp) ->
  once w o = 2 ->
  Inv (ret w t o).
Proof.
  intros I Hlt Hnr H2. unfold ret. rewrite (done_completed w o I H2).
  apply inv_local; auto; cbn [pc returned]; try discriminate.
  intros o' [<-|Hin].
  - apply done_completed; auto.
  - eapply (inv_ret w I); eauto.
Qed.

(* the successful CAS *)
Lemma inv_cas w t o sp c :
  Inv w -> (t < length (thr w))%nat ->
  (forall o sp, pc (get w t) <> ORunning o sp) ->
  once w o = 0 ->
  Inv (mk_w (fupd (once w) o 1) (fupd (runs w) o (runs w o + 1)) (completed w) (early w)
            (lupd (thr w) t (mk_t (ORunning o sp) c (returned (get w t))))).
Proof.
  intros I Hlt Hnr H0. destruct I as [Ho He Hr Hw].
  set (w' := mk_w _ _ _ _ _).
  assert (Gs : get w' t = mk_t (ORunning o sp) c (returned (get w t))) by (apply get_upd_same; auto).
  assert (Go : forall t', t' <> t -> get w' t' = get w t') by (intros; apply get_upd_other; auto).
  split.
  - intro o'. destruct (Nat.eq_dec o' o) as [->|no].
    + destruct (Ho o) as [(a&b&c0&d)|[(a&_)|(a&_)]]; try lia.
      right; left. cbn [once runs completed w']. rewrite !fupd_same.
      repeat split; auto; try lia.
      exists t. split.
      * exists sp. rewrite Gs. reflexivity.
      * intros t' [sp' W']. destruct (Nat.eq_dec t' t) as [|n]; auto.
        rewrite Go in W' by auto. exfalso; eapply d; eauto.
    + assert (NR : norun w o' -> norun w' o').
      { intros d t' sp'. destruct (Nat.eq_dec t' t) as [->|n].
        - rewrite Gs. cbn [pc]. congruence.
        - rewrite Go by auto. apply d. }
      unfold objst. cbn [once runs completed w']. rewrite !fupd_other by auto.
      destruct (Ho o') as [(a&b&c0&d)|[(a&b&c0&(t1&[sp1 W]&U))|(a&b&c0&d)]].
      * left. repeat split; auto.
      * right; left. repeat split; auto. exists t1.
        assert (t1 <> t) by (intros ->; eapply Hnr; eauto).
        split.
        -- exists sp1. rewrite Go; auto.
        -- intros t' [sp' W']. apply U. destruct (Nat.eq_dec t' t) as [->|n].
           ++ rewrite Gs in W'. cbn [pc] in W'. congruence.
           ++ rewrite Go in W' by auto. exists sp'; auto.
      * right; right. repeat split; auto.
  - exact He.
  - intros t' o'. destruct (Nat.eq_dec t' t) as [->|n].
    + rewrite Gs. cbn [returned completed w']. apply Hr.
    + rewrite Go by auto. apply Hr.
  - intros t' o' sp'. destruct (Nat.eq_dec t' t) as [->|n].
    + rewrite Gs. cbn [pc]. discriminate.
    + rewrite Go by auto. intros W. cbn [once w'].
      destruct (Nat.eq_dec o' o) as [->|no].
      * rewrite fupd_same. lia.
      * rewrite fupd_other by auto. eapply Hw; eauto.
Qed.

(* the winner's store *)
Lemma inv_store w t o sp c :
  Inv w -> (t < length (thr w))%nat ->
  pc (get w t) = ORunning o sp ->
  Inv (mk_w (fupd (once w) o 2) (runs w) (fupd (completed w) o true) (early w)
            (lupd (thr w) t (mk_t (OWaitLoad o sp) c (returned (get w t))))).
Proof.
  intros I Hlt Hpc. destruct I as [Ho He Hr Hw].
  set (w' := mk_w _ _ _ _ _).
  assert (Gs : get w' t = mk_t (OWaitLoad o sp) c (returned (get w t))) by (apply get_upd_same; auto).
  assert (Go : forall t', t' <> t -> get w' t' = get w t') by (intros; apply get_upd_other; auto).
  assert (NR : forall o', norun w o' -> norun w' o').
  { intros o' d t' sp'. destruct (Nat.eq_dec t' t) as [->|n].
    - rewrite Gs. cbn [pc]. discriminate.
    - rewrite Go by auto. apply d. }
  assert (Cm : forall o', completed w o' = true -> completed w' o' = true).
  { intros o' H. cbn [completed w']. destruct (Nat.eq_dec o' o) as [->|no].
    - apply fupd_same.
    - rewrite fupd_other; auto. }
  split.
  - intro o'. destruct (Nat.eq_dec o' o) as [->|no].
    + destruct (Ho o) as [(a&b&c0&d)|[(a&b&c0&(t1&W&U))|(a&b&c0&d)]].
      * exfalso; eapply d; eauto.
      * right; right. cbn [once runs completed w']. rewrite !fupd_same.
        repeat split; auto.
        intros t' sp'. destruct (Nat.eq_dec t' t) as [->|n].
        -- rewrite Gs. cbn [pc]. discriminate.
        -- rewrite Go by auto. intros W'.
           assert (t' = t1) by (apply U; exists sp'; auto).
           assert (t = t1) by (apply U; exists sp; auto).
           congruence.
      * exfalso; eapply d; eauto.
    + unfold objst. cbn [once runs completed w']. rewrite !fupd_other by auto.
      destruct (Ho o') as [(a&b&c0&d)|[(a&b&c0&(t1&[sp1 W]&U))|(a&b&c0&d)]].
      * left. repeat split; auto.
      * right; left. repeat split; auto. exists t1.
        assert (t1 <> t) by (intros ->; congruence).
        split.
        -- exists sp1. rewrite Go; auto.
        -- intros t' [sp' W']. apply U. destruct (Nat.eq_dec t' t) as [->|n].
           ++ rewrite Gs in W'. cbn [pc] in W'. discriminate.
           ++ rewrite Go in W' by auto. exists sp'; auto.
      * right; right. repeat split; auto.
  - exact He.
  - intros t' o' Hin. apply Cm. destruct (Nat.eq_dec t' t) as [->|n].
    + rewrite Gs in Hin. cbn [returned] in Hin. eapply Hr; eauto.
    + rewrite Go in Hin by auto. eapply Hr; eauto.
  - intros t' o' sp' W. cbn [once w'].
    destruct (Nat.eq_dec o' o) as [->|no].
    + rewrite fupd_same. lia.
    + rewrite fupd_other by auto.
      destruct (Nat.eq_dec t' t) as [->|n].
      * rewrite Gs in W. cbn [pc] in W. congruence.
      * rewrite Go in W by auto. eapply Hw; eauto.
Qed.

Lemma inv_begin_call w t : Inv w -> Inv (begin_call w t).
Proof.
  intros I. destruct (begin_call_cases w t) as [[-> _]|(o&sp&rest&Hpc&Hc&->)]; auto.
  assert (Hlt : (t < length (thr w))%nat) by (apply calls_in_range; rewrite Hc; discriminate).
  apply inv_local; auto; cbn [pc returned]; try discriminate.
  - intros; rewrite Hpc; discriminate.
  - intros o'. apply (inv_ret w I).
Qed.

Lemma step_core_oob w t : (length (thr w) <= t)%nat -> step_core w t = (w, EvNone).
Proof. intros H. unfold step_core. rewrite get_oob by auto. reflexivity. Qed.

Lemma inv_step_core w t : Inv w -> Inv (fst (step_core w t)).
Proof.
  intros I. destruct (lt_dec t (length (thr w))) as [Hlt|Hge].
  2:{ rewrite step_core_oob by lia. exact I. }
  unfold step_core.
  destruct (pc (get w t)) as [|o sp|o sp|o sp|o sp|o sp|o sp] eqn:Hpc; cbv zeta.
  - exact I.
  - destruct (once w o =? 2) eqn:E; cbn [fst].
    + apply Z.eqb_eq in E. apply inv_do_ret; auto. intros; rewrite Hpc; discriminate.
    + apply inv_set_pc; auto; try discriminate. intros; rewrite Hpc; discriminate.
  - destruct (once w o =? 2) eqn:E; cbn [negb andb].
    + cbn [fst]. apply Z.eqb_eq in E. apply inv_do_ret; auto. intros; rewrite Hpc; discriminate.
    + destruct (once w o =? 0) eqn:E0; cbn [fst].
      * apply inv_set_pc; auto; try discriminate. intros; rewrite Hpc; discriminate.
      * apply Z.eqb_neq in E0. apply inv_set_pc; auto; try discriminate.
        -- intros; rewrite Hpc; discriminate.
        -- intros o' sp' H. injection H as <- _. exact E0.
  - destruct (once w o =? 0) eqn:E0; cbn [fst].
    + apply Z.eqb_eq in E0. apply inv_cas; auto. intros; rewrite Hpc; discriminate.
    + apply inv_set_pc; auto; try discriminate. intros; rewrite Hpc; discriminate.
  - destruct (once w o =? 0) eqn:E0; cbn [fst].
    + apply inv_set_pc; auto; try discriminate. intros; rewrite Hpc; discriminate.
    + apply Z.eqb_neq in E0. apply inv_set_pc; auto; try discriminate.
      * intros; rewrite Hpc; discriminate.
      * intros o' sp' H. injection H as <- _. exact E0.
  - cbn [fst]. eapply inv_store; eauto.
  - destruct (once w o =? 2) eqn:E; cbn [fst].
    + apply Z.eqb_eq in E. apply inv_do_ret; auto. intros; rewrite Hpc; discriminate.
    + exact I.
Qed.

Lemma length_begin_call w t : length (thr (begin_call w t)) = length (thr w).
Proof.
  destruct (begin_call_cases w t) as [[-> _]|(o&sp&rest&_&_&->)]; auto.
  cbn [thr]. apply length_lupd.
Qed.

Lemma inv_step w t : Inv w -> Inv (fst (step w t)).
Proof. intros I. rewrite step_eq. apply inv_step_core. apply inv_begin_call. exact I. Qed.

Lemma get_init progs t : get (init progs) t = mk_t OIdle (nth t progs []) [].
Proof.
  unfold get, init. cbn [thr].
  change dflt with ((fun p => mk_t OIdle p []) []).
  apply map_nth.
Qed.

Lemma inv_init progs : Inv (init progs).
Proof.
  split.
  - intros o. left. repeat split; try reflexivity.
    intros t sp. rewrite get_init. discriminate.
  - reflexivity.
  - intros t o. rewrite get_init. cbn. contradiction.
  - intros t o sp. rewrite get_init. discriminate.
Qed.

Lemma inv_run sched : forall w, Inv w -> Inv (run w sched).
Proof.
  unfold run. induction sched as [|t sched IH]; intros w I; cbn [fold_left]; auto.
  apply IH. apply inv_step. exact I.
Qed.

Lemma inv_reach progs sched : Inv (run (init progs) sched).
Proof. apply inv_run, inv_init. Qed.

(* ---------- the theorems of C07 ---------- *)
Lemma at_most_once progs sched : forall o, runs (run (init progs) sched) o <= 1.
Proof.
  intros o. destruct (inv_obj _ (inv_reach progs sched) o) as [(_&b&_)|[(_&b&_)|(_&b&_)]]; lia.
Qed.

Lemma not_early progs sched :
  early (run (init progs) sched) = 0 /\
  forall t o, In o (returned (get (run (init progs) sched) t)) -> completed (run (init progs) sched) o = true.
Proof.
  pose proof (inv_reach progs sched) as I. split.
  - apply (inv_early _ I).
  - apply (inv_ret _ I).
Qed.

Lemma exactly_once progs sched :
  forall t o, In o (returned (get (run (init progs) sched) t)) -> runs (run (init progs) sched) o = 1.
Proof.
  pose proof (inv_reach progs sched) as I. intros t o Hin.
  pose proof (inv_ret _ I t o Hin) as Hc.
  destruct (inv_obj _ I o) as [(_&_&c&_)|[(_&_&c&_)|(_&b&_)]]; congruence.
Qed.

Lemma word_states progs sched : forall o,
  (once (run (init progs) sched) o = 0 /\ runs (run (init progs) sched) o = 0 /\
   completed (run (init progs) sched) o = false) \/
  (once (run (init progs) sched) o = 1 /\ runs (run (init progs) sched) o = 1 /\
   completed (run (init progs) sched) o = false /\ exists t, winner_of (run (init progs) sched) o t) \/
  (once (run (init progs) sched) o = 2 /\ runs (run (init progs) sched) o = 1 /\
   completed (run (init progs) sched) o = true).
Proof.
  intros o. destruct (inv_obj _ (inv_reach progs sched) o) as [(a&b&c&_)|[(a&b&c&(t&W&_))|(a&b&c&_)]].
  - left; auto.
  - right; left. repeat split; auto. exists t; auto.
  - right; right; auto.
Qed.

(* extra: the winner is unique, and nobody is between CAS and store unless the word is 1 *)
Lemma winner_unique progs sched : forall o t1 t2,
  winner_of (run (init progs) sched) o t1 -> winner_of (run (init progs) sched) o t2 -> t1 = t2.
Proof.
  intros o t1 t2 [sp1 W1] [sp2 W2].
  destruct (inv_obj _ (inv_reach progs sched) o) as [(_&_&_&d)|[(_&_&_&(t&_&U))|(_&_&_&d)]].
  - exfalso; eapply d; eauto.
  - rewrite (U t1), (U t2); auto; eexists; eauto.
  - exfalso; eapply d; eauto.
Qed.

Lemma winner_word progs sched : forall o t,
  winner_of (run (init progs) sched) o t -> once (run (init progs) sched) o = 1.
Proof.
  intros o t [sp W].
  destruct (inv_obj _ (inv_reach progs sched) o) as [(_&_&_&d)|[(a&_)|(_&_&_&d)]]; auto;
    exfalso; eapply d; eauto.
Qed.

Lemma done_nonblocking_gen w t o sp rest :
  pc (get w t) = OIdle -> calls (get w t) = (o, sp) :: rest -> once w o = 2 ->
  pc (get (fst (step w t)) t) = OIdle /\ In o (returned (get (fst (step w t)) t)) /\ snd (step w t) = EvLoad 1 2.
Proof.
  intros Hpc Hc H2.
  assert (Hlt : (t < length (thr w))%nat) by (apply calls_in_range; rewrite Hc; discriminate).
  rewrite step_eq.
  destruct (begin_call_cases w t) as [[_ [H|H]]|(o'&sp'&rest'&_&Hc'&Hb)]; try congruence.
  rewrite Hc in Hc'. injection Hc' as <- <- <-. rewrite Hb.
  set (w1 := mk_w _ _ _ _ _).
  assert (G1 : get w1 t = mk_t (OEntry o sp) rest (returned (get w t))) by (apply get_upd_same; auto).
  assert (L1 : (t < length (thr w1))%nat) by (unfold w1; cbn [thr]; rewrite length_lupd; auto).
  unfold step_core. rewrite G1. cbn [pc]. cbv zeta.
  change (once w1 o) with (once w o). rewrite H2. cbn [Z.eqb Pos.eqb fst snd].
  rewrite get_ret_same by auto. cbn [pc returned].
  repeat split; auto. left; auto.
Qed.

Lemma done_nonblocking progs sched : forall t o sp rest,
  pc (get (run (init progs) sched) t) = OIdle -> calls (get (run (init progs) sched) t) = (o, sp) :: rest ->
  once (run (init progs) sched) o = 2 ->
  pc (get (fst (step (run (init progs) sched) t)) t) = OIdle /\
  In o (returned (get (fst (step (run (init progs) sched) t)) t)) /\
  snd (step (run (init progs) sched) t) = EvLoad 1 2.
Proof. intros. eapply done_nonblocking_gen; eauto. Qed.

(* every step of an in-range thread that is not a fruitless re-read changes the thread's own record *)
Lemma core_changes w t :
  (t < length (thr w))%nat -> pc (get w t) <> OIdle ->
  (forall o sp, pc (get w t) = OWaitLoad o sp -> once w o = 2) ->
  get (fst (step_core w t)) t <> get w t.
Proof.
  intros Hlt Hni Hwl G. apply (f_equal pc) in G. revert G.
  unfold step_core.
  destruct (pc (get w t)) as [|o sp|o sp|o sp|o sp|o sp|o sp] eqn:Hpc; cbv zeta.
  - congruence.
  - destruct (once w o =? 2); cbn [fst];
      rewrite ?get_ret_same, ?get_set_pc_same by auto; cbn [pc]; discriminate.
  - destruct (once w o =? 2); cbn [negb andb]; [|destruct (once w o =? 0)]; cbn [fst];
      rewrite ?get_ret_same, ?get_set_pc_same by auto; cbn [pc]; discriminate.
  - destruct (once w o =? 0); cbn [fst];
      rewrite ?get_upd_same, ?get_set_pc_same by auto; cbn [pc]; discriminate.
  - destruct (once w o =? 0); cbn [fst];
      rewrite ?get_set_pc_same by auto; cbn [pc]; discriminate.
  - cbn [fst]. rewrite get_upd_same by auto. cbn [pc]. discriminate.
  - rewrite (Hwl o sp eq_refl). cbn [Z.eqb Pos.eqb fst].
    rewrite get_ret_same by auto. cbn [pc]. discriminate.
Qed.

Lemma step_changes w t :
  (t < length (thr w))%nat -> unfinished w t ->
  (forall o sp, pc (get w t) = OWaitLoad o sp -> once w o = 2) ->
  productive w t.
Proof.
  intros Hlt Hu Hwl E.
  assert (G : get (fst (step w t)) t = get w t) by (rewrite E; reflexivity).
  clear E. rewrite step_eq in G.
  destruct (begin_call_cases w t) as [[Hb Hc]|(o&sp&rest&Hpc&Hc&Hb)].
  - rewrite Hb in G. revert G. apply core_changes; auto.
    destruct Hu as [|Hu]; auto. destruct Hc as [|Hc]; auto; congruence.
  - rewrite Hb in G. revert G.
    set (w1 := mk_w _ _ _ _ _).
    assert (G1 : get w1 t = mk_t (OEntry o sp) rest (returned (get w t))) by (apply get_upd_same; auto).
    assert (L1 : (t < length (thr w1))%nat) by (unfold w1; cbn [thr]; rewrite length_lupd; auto).
    unfold step_core. rewrite G1. cbn [pc]. cbv zeta.
    destruct (once w1 o =? 2); cbn [fst]; intros G.
    + rewrite get_ret_same in G by auto. rewrite G1 in G. cbn [calls returned] in G.
      apply (f_equal calls) in G. cbn [calls] in G. rewrite Hc in G.
      symmetry in G. revert G. apply cons_neq.
    + rewrite get_set_pc_same in G by auto. apply (f_equal pc) in G. cbn [pc] in G. congruence.
Qed.

Lemma no_stuck_gen w t :
  Inv w -> (t < length (thr w))%nat -> unfinished w t -> exists t', productive w t'.
Proof.
  intros I Hlt Hu.
  destruct (pc (get w t)) as [|o sp|o sp|o sp|o sp|o sp|o sp] eqn:Hpc;
    try (exists t; apply step_changes; auto; intros ? ? H; rewrite Hpc in H; discriminate).
  destruct (Z.eq_dec (once w o) 2) as [H2|H2].
  - exists t. apply step_changes; auto. intros o' sp' H. rewrite Hpc in H. injection H as <- _. exact H2.
  - pose proof (inv_wait w I t o sp Hpc) as H0.
    destruct (inv_obj w I o) as [(a&_)|[(_&_&_&(t1&[sp1 W]&_))|(a&_)]]; try contradiction.
    exists t1. apply step_changes.
    + apply pc_in_range. rewrite W. discriminate.
    + left. rewrite W. discriminate.
    + intros o' sp' H. rewrite W in H. discriminate.
Qed.

Lemma no_stuck progs sched : forall t,
  (t < length (thr (run (init progs) sched)))%nat -> unfinished (run (init progs) sched) t ->
  exists t', productive (run (init progs) sched) t'.
Proof. intros t. apply no_stuck_gen. apply inv_reach. Qed.

(* two callers on one word, racing: thread 0 wins the CAS, thread 1 loses it, re-reads 1, waits once in vain,
   and both return after the store *)
Lemma example_two_callers : exists progs sched,
  let w := run (init progs) sched in
  runs w 0%nat = 1 /\ returned (get w 0%nat) = [0%nat] /\ returned (get w 1%nat) = [0%nat] /\ early w = 0.
Proof.
  exists [[(0%nat, false)]; [(0%nat, true)]], [0;1;0;1;0;1;1;1;0;0;1]%nat.
  vm_compute. repeat split; reflexivity.
Qed.
