(* MuWaitWorld10: layer HC of the hand-off invariant of Model/MuWaitModel.v (definitions in MuWaitWorld7.v) is preserved
   by every step: "who wakes whom".
     c_dw   MU_DESIG_WAKER set  =>  an agent exists (the scanner / a waker with work left / a woken thread on its way)
     c_resp free mutex + a runnable waiter on mu->waiters (or a thread about to queue itself)  =>  an agent exists, or a
            timed-out waiter spins in mu_try_acquire_after_timeout_or_cancel
     c_rel  nsync_mu_wait_with_deadline: had_waiters == 0  =>  the caller is alone on the queue
   Part 1: consequences of the lower layers HA / HB (who carries MU_LONG_WAIT / MU_WRITER_WAITING);
   Part 2: generic preservation lemmas; Part 3: the pass over step_thr. *)
From NsyncBase Require Import CSem.
From NsyncGen Require Import Consts Sites.
From NsyncModel Require Import MuWaitModel MuWaitSpec.
From NsyncProof Require Import WordView MuWaitProof MuWaitRings MuWaitBits MuWaitFlags MuWaitWorld1 MuWaitWorld2 MuWaitWorld3 MuWaitWorld4 MuWaitWorld5 MuWaitWorld6 MuWaitWorld7.
From Coq Require Import List ZArith Bool Lia PeanoNat.
Import ListNotations.
Local Open Scope Z_scope.
Ltac Zify.zify_post_hook ::= Z.div_mod_to_equations.

(* ================= Part 1 ================= *)

Definition agent (w : world) (a : nat) : Prop := dag w a = true \/ mts (P w a) = true.

(* a thread that has somebody on a private list is an agent *)
Lemma ipl_dag p mx wt x : In x (ipl (info_of p mx)) -> dagb p mx wt = true.
Proof.
  unfold ipl, irl, iwk, info_of; cbn [i_sk i_wk]. intros H.
  destruct (sk_of p) as [[k u]|] eqn:Es.
  - apply scl_dag. unfold scl. rewrite Es. reflexivity.
  - cbn [app] in H. destruct p; cbn [wk_of] in H; try (destruct H; fail).
    + apply scl_dag. reflexivity.
    + apply scl_dag. reflexivity.
    + apply wkne_dag. cbn [wkne]. destruct (wake u); [destruct H | reflexivity].
    + apply wkne_dag. cbn [wkne]. destruct (wake u); [destruct H | reflexivity].
Qed.

Lemma member_cases w x : member (queue w) (winfo w) x -> In x (queue w) \/ exists t', dag w t' = true.
Proof.
  intros [H | [t' H]]; [left; exact H | right]. exists t'. unfold dag, P, MX. apply (ipl_dag _ _ _ x). exact H.
Qed.

Section Derived.
Variable n : nat.
Hypothesis Hn : Z.of_nat n < 16777215.

(* a thread inside nsync_mu_lock_slow_ that has not yet queued itself in this call *)
Definition lfresh (p : pc) : bool :=
  match p with LsLoad _ l | LsCasAcq _ l _ | LsCasEnq _ l _ => negb (clr l =? MU_DESIG_WAKER) | _ => false end.

(* a thread inside nsync_mu_lock_slow_ that has queued itself at least once, while nobody owns the spinlock: it is an agent,
   or it is asleep on mu->waiters (unconditional, hence runnable), or in the hands of an agent *)
Lemma ls_waiter_cases w T m l : Inv n w -> HA w -> b1 (word w) = 0 ->
  lsl_of (P w T) = Some (m, l) -> lfresh (P w T) = false ->
  runq w \/ exists t', dag w t' = true.
Proof.
  intros HI HAw Hsp El Hc.
  pose proof (pc_ok_get n w T HI) as Hok. unfold pc_ok in Hok.
  assert (NS : spin (get w T) = true -> False).
  { intros S. pose proof (Inv_spin n w T HI S). lia. }
  assert (SL : forall m0 l0, (P w T = LsWaitLoad m0 l0 \/ P w T = LsSemP m0 l0) -> mw_m (get w T) m0 -> runq w \/ exists t', dag w t' = true).
  { intros m0 l0 Ep Hm.
    assert (Hhv : hv (MX w T) = false).
    { unfold hv, MX. destruct (mw (get w T)) as [x|] eqn:Ex; [apply (Hm x Ex) | reflexivity]. }
    assert (Hmq : mq_of (P w T) (MX w T) = true) by (destruct Ep as [-> | ->]; cbn [mq_of]; apply orb_true_r).
    destruct (waiting w T) eqn:Ew.
    - destruct (member_cases w T (a_mem w HAw T Hmq Ew)) as [Hq | Hd]; [| right; exact Hd].
      left. exists T. split; [exact Hq|].
      destruct (a_t1 w HAw T m0 l0) as [_ Ec]; [destruct Ep as [-> | ->]; reflexivity|]. unfold wtrue. rewrite Ec. reflexivity.
    - right. exists T. unfold dag. rewrite Ew. apply mq_dag; assumption. }
  unfold P in *.
  destruct (t_pc (get w T)) eqn:Ep; cbn [lsl_of] in El; try discriminate El; try (destruct k; try discriminate El).
  - right. exists T. unfold dag, P. rewrite Ep. apply lsd_dag. cbn [lsd lfresh] in *. destruct (clr l0 =? MU_DESIG_WAKER); [reflexivity | discriminate Hc].
  - right. exists T. unfold dag, P. rewrite Ep. apply lsd_dag. cbn [lsd lfresh] in *. destruct (clr l0 =? MU_DESIG_WAKER); [reflexivity | discriminate Hc].
  - right. exists T. unfold dag, P. rewrite Ep. apply lsd_dag. cbn [lsd lfresh] in *. destruct (clr l0 =? MU_DESIG_WAKER); [reflexivity | discriminate Hc].
  - exfalso. apply NS. destruct Hok as ((_ & S & _) & _). exact S.
  - apply (SL m0 l0); [left; reflexivity | apply Hok].
  - apply (SL m0 l0); [right; reflexivity | apply Hok].
  - exfalso. apply NS. destruct Hok as ((_ & S & _) & _). exact S.
  - exfalso. apply NS. destruct Hok as ((_ & S & _) & _). exact S.
Qed.

(* with the mutex word free of the spinlock: MU_LONG_WAIT has a carrier that is an agent or a runnable queued waiter ... *)
Lemma lw_cases w : Inv n w -> HA w -> HB w -> b1 (word w) = 0 -> tb 6 (word w) = true ->
  runq w \/ exists t', dag w t' = true.
Proof.
  intros HI HAw HBw Hsp H6. destruct (b_lw w HBw H6) as [T HT]. unfold lwo in HT.
  destruct (lsl_of (P w T)) as [[m l]|] eqn:El; [| discriminate HT]. apply Z.eqb_eq in HT.
  apply (ls_waiter_cases w T m l HI HAw Hsp El).
  destruct (b_lsl w HBw T m l El) as [B1 _]. specialize (B1 HT).
  destruct (P w T); cbn [lsl_of] in El; try discriminate El; try reflexivity; injection El as <- <-; cbn [lfresh]; rewrite B1; reflexivity.
Qed.

(* ... and so has MU_WRITER_WAITING (or its claimant spins in mu_try_acquire_after_timeout_or_cancel) *)
Lemma ww_cases w : Inv n w -> HA w -> HB w -> b1 (word w) = 0 -> tb 5 (word w) = true ->
  runq w \/ exists t', dag w t' = true \/ mts (P w t') = true.
Proof.
  intros HI HAw HBw Hsp H5. destruct (b_ww w HBw H5) as [c [Hc | [Hc | Hc]]].
  - right. exists c. right. exact Hc.
  - assert (exists m l, lsl_of (P w c) = Some (m, l) /\ lfresh (P w c) = false) as (m & l & El & Hf).
    { destruct (P w c); cbn [c2] in Hc; try discriminate Hc; try (destruct m; try discriminate Hc); try (destruct k; try discriminate Hc; destruct m; try discriminate Hc);
        eexists _, _; (split; [reflexivity|]); cbn [lfresh]; try reflexivity; rewrite Hc; reflexivity. }
    destruct (ls_waiter_cases w c m l HI HAw Hsp El Hf) as [A | [t' A]]; [left; exact A | right; exists t'; left; exact A].
  - destruct Hc as (x & Ex & Em & Hmq & Hh & Hw).
    assert (Hhv : hv (MX w c) = false) by (rewrite Ex; exact Hh).
    destruct Hw as [Hw | [_ Hw]].
    + right. exists c. left. unfold dag. rewrite Hw. apply mq_dag; [rewrite Ex; exact Hmq | exact Hhv].
    + destruct (waiting w c) eqn:Ew.
      * rewrite <- Ex in Hmq. destruct (member_cases w c (a_mem w HAw c Hmq Ew)) as [Hq | [t' Hd]]; [| right; exists t'; left; exact Hd].
        left. exists c. split; assumption.
      * right. exists c. left. unfold dag. rewrite Ew. apply mq_dag; [rewrite Ex; exact Hmq | exact Hhv].
Qed.
End Derived.

(* ================= generic preservation ================= *)
Section Intro.
Variables (w W : world) (t : nat).
Hypothesis Hoth : forall y, y <> t -> get W y = get w y.
Hypothesis Hwait : forall y, y <> t -> waiting W y = waiting w y \/ waiting W y = false.

Lemma P_other y : y <> t -> P W y = P w y.
Proof. intros N. unfold P. rewrite (Hoth y N). reflexivity. Qed.
Lemma MX_other y : y <> t -> MX W y = MX w y.
Proof. intros N. unfold MX. rewrite (Hoth y N). reflexivity. Qed.
Lemma dag_other a : a <> t -> dag w a = true -> dag W a = true.
Proof.
  intros N H. unfold dag in *. rewrite (P_other a N), (MX_other a N).
  destruct (Hwait a N) as [-> | ->]; [exact H|]. destruct (waiting w a); [apply dagb_wt_mono; exact H | exact H].
Qed.
Lemma agent_other a : a <> t -> agent w a -> agent W a.
Proof. intros N [H | H]; [left; apply dag_other; assumption | right; rewrite (P_other a N); exact H]. Qed.

Lemma c_dw_intro :
  (tb 3 (word w) = true -> exists a, dag w a = true) ->
  (tb 3 (word W) = true -> (exists a, dag W a = true) \/ (exists a, a <> t /\ dag w a = true) \/
                           (tb 3 (word w) = true /\ (dag w t = true -> dag W t = true))) ->
  tb 3 (word W) = true -> exists a, dag W a = true.
Proof.
  intros H0 H1 B. destruct (H1 B) as [A | [(a & N & A) | (B0 & M)]].
  - exact A.
  - exists a. apply dag_other; assumption.
  - destruct (H0 B0) as [a A]. destruct (Nat.eq_dec a t) as [->|N]; [exists t; auto | exists a; apply dag_other; assumption].
Qed.

Lemma c_resp_intro :
  (etp w -> free (word w) -> (runq w \/ anyls w) -> exists a, agent w a) ->
  (etp W -> free (word W) -> (runq W \/ anyls W) ->
     (exists a, agent W a) \/ (exists a, a <> t /\ agent w a) \/
     (etp w /\ free (word w) /\ (runq w \/ anyls w) /\ (agent w t -> agent W t))) ->
  etp W -> free (word W) -> (runq W \/ anyls W) -> exists a, agent W a.
Proof.
  intros H0 H1 E F R. destruct (H1 E F R) as [A | [(a & N & A) | (E0 & F0 & R0 & M)]].
  - exact A.
  - exists a. apply agent_other; assumption.
  - destruct (H0 E0 F0 R0) as [a A]. destruct (Nat.eq_dec a t) as [->|N]; [exists t; auto | exists a; apply agent_other; assumption].
Qed.

Lemma anyls_cases : anyls W -> lssw (P W t) = true \/ anyls w.
Proof.
  intros [y Hy]. destruct (Nat.eq_dec y t) as [->|N]; [left; exact Hy | right]. exists y. rewrite <- (P_other y N). exact Hy.
Qed.

Lemma runq_mono : pst W = pst w -> (forall p, In p (queue W) -> In p (queue w) /\ wcond W p = wcond w p) -> runq W -> runq w.
Proof.
  intros Ep Hq (p & Hp & Ht). destruct (Hq p Hp) as [Q1 Q2]. exists p. split; [exact Q1|]. unfold wtrue in *. rewrite <- Q2, <- Ep. exact Ht.
Qed.

Lemma HC_intro :
  HC w ->
  (* MU_DESIG_WAKER *)
  (tb 3 (word W) = true -> (exists a, dag W a = true) \/ (exists a, a <> t /\ dag w a = true) \/
                           (tb 3 (word w) = true /\ (dag w t = true -> dag W t = true))) ->
  (* responsibility *)
  (etp W -> free (word W) -> (runq W \/ anyls W) ->
     (exists a, agent W a) \/ (exists a, a <> t /\ agent w a) \/
     (etp w /\ free (word w) /\ (runq w \/ anyls w) /\ (agent w t -> agent W t))) ->
  (* had_waiters *)
  (forall y, y <> t -> mwrel (P w y) = true -> queue W = queue w) ->
  (forall x, MX W t = Some x -> mwrel (P W t) = true -> mw_hadw x = false -> queue W = [t]) ->
  (* remembered words *)
  pcC W t ->
  HC W.
Proof.
  intros [H1 H2 H3 H4] D R Q1 Q2 PC. constructor.
  - apply c_dw_intro; assumption.
  - apply c_resp_intro; assumption.
  - intros y x. destruct (Nat.eq_dec y t) as [->|N]; [apply Q2|].
    rewrite (MX_other y N), (P_other y N). intros A B C. rewrite (Q1 y N B). apply (H3 y x A B C).
  - intros y. destruct (Nat.eq_dec y t) as [->|N]; [exact PC|].
    specialize (H4 y). unfold pcC in *. rewrite (P_other y N), (MX_other y N). exact H4.
Qed.
End Intro.

(* ================= Part 2 ================= *)

(* a step that keeps MU_DESIG_WAKER and the lock field as they are (or only lowers them), and the queue, waiting flags and
   protected state untouched *)
Lemma HC_local w W t s' :
  HC w -> (forall y, y <> t -> get W y = get w y) -> get W t = s' ->
  (tb 3 (word W) = true -> tb 3 (word w) = true) -> (free (word W) -> free (word w)) ->
  queue W = queue w -> waiting W = waiting w -> pst W = pst w -> cls W = cls w ->
  (forall p, In p (queue w) -> wcond W p = wcond w p) ->
  (dagb (P w t) (MX w t) (waiting w t) = true -> dagb (t_pc s') (mw s') (waiting w t) = true) ->
  (mts (P w t) = true -> mts (t_pc s') = true \/ dagb (t_pc s') (mw s') (waiting w t) = true) ->
  (lssw (t_pc s') = true -> lssw (P w t) = true) ->
  (forall x, mw s' = Some x -> mwrel (t_pc s') = true -> MX w t = Some x /\ mwrel (P w t) = true) ->
  pcC W t ->
  HC W.
Proof.
  intros HCw Hoth Eg Ew Ef Eq Ewt Ep Ecl Hwc Hd Hm Hl Hr Hpc.
  assert (Dt : dag W t = dagb (t_pc s') (mw s') (waiting w t)) by (unfold dag, P, MX; rewrite Eg, Ewt; reflexivity).
  assert (At : agent w t -> agent W t).
  { intros [A | A]; unfold agent; [left; rewrite Dt; apply Hd; exact A|].
    destruct (Hm A) as [B | B]; [right; unfold P; rewrite Eg; exact B | left; rewrite Dt; exact B]. }
  apply (HC_intro w W t Hoth); [intros y _; left; rewrite Ewt; reflexivity | exact HCw | | | | |exact Hpc].
  - intros B. right; right. split; [apply Ew; exact B|]. intros A. rewrite Dt. apply Hd. exact A.
  - intros E F R. right; right. split; [unfold etp in *; rewrite <- Ep, <- Ecl; exact E|]. split; [apply Ef; exact F|].
    split; [| exact At]. destruct R as [R | R].
    + left. apply (runq_mono w W Ep); [| exact R]. intros p Hp. rewrite Eq in Hp. split; [exact Hp | apply Hwc; exact Hp].
    + destruct (anyls_cases w W t Hoth R) as [A | A]; [right; exists t; apply Hl; unfold P in A; rewrite Eg in A; exact A | right; exact A].
  - intros y _ _. exact Eq.
  - intros x Ex Hr' Hh. rewrite Eq. unfold MX, P in Ex, Hr'. rewrite Eg in Ex, Hr'. destruct (Hr x Ex Hr') as [A B].
    apply (c_rel w HCw t x A B Hh).
Qed.

Section Gen.
Variable n : nat.
Hypothesis Hn : Z.of_nat n < 16777215.

Lemma held_not_free w t : Inv n w -> held (get w t) <> None -> free (word w) -> False.
Proof.
  intros HI Hh [F1 F2]. destruct (held (get w t)) as [m|] eqn:E; [| congruence].
  pose proof (Inv_held n w t m HI E) as K. destruct m; lia.
Qed.

(* nobody is releasing the mutex inside nsync_mu_wait_with_deadline (spinlock + lock owned) beside a scanner / spinlock owner *)
Lemma mwrel_owner w y : Inv n w -> mwrel (P w y) = true -> spin (get w y) = true /\ held (get w y) <> None.
Proof.
  intros HI H. pose proof (pc_ok_get n w y HI) as Hok. unfold pc_ok, P in *.
  destruct (t_pc (get w y)); try discriminate H.
  - destruct Hok as (x & _ & (A & B & _) & _). rewrite A, B. split; [reflexivity | discriminate].
  - destruct Hok as (x & _ & (A & B & _) & _). rewrite A, B. split; [reflexivity | discriminate].
Qed.
Lemma no_rel_beside_spin w t y : Inv n w -> spin (get w t) = true -> y <> t -> mwrel (P w y) = true -> False.
Proof. intros HI S N H. destruct (mwrel_owner w y HI H) as [S' _]. apply N. apply (spin_unique n w y t HI S' S). Qed.
Lemma no_rel_beside_scanner w t y : Inv n w -> scl (P w t) = true -> y <> t -> mwrel (P w y) = true -> False.
Proof.
  intros HI S N H. destruct (mwrel_owner w y HI H) as [S' Hh].
  destruct (scl_own n w t HI S) as [A | A]; [apply N; apply (spin_unique n w y t HI S' A)|].
  apply (other_holders n w y HI Hh t (not_eq_sym N)). exact A.
Qed.

(* the step ends with t inside the scan (or at its final CAS, or with somebody still to wake) *)
Lemma HC_agent_after w W t :
  HC w -> Inv n W -> (forall y, y <> t -> get W y = get w y) -> (forall y, y <> t -> waiting W y = waiting w y \/ waiting W y = false) ->
  dag W t = true -> (spin (get W t) = true \/ scl (P W t) = true \/ (forall y, y <> t -> mwrel (P w y) = true -> queue W = queue w)) ->
  (forall x, MX W t = Some x -> mwrel (P W t) = true -> mw_hadw x = false -> queue W = [t]) -> pcC W t -> HC W.
Proof.
  intros HCw HI' Hoth Hw D Hs Hr Hpc. apply (HC_intro w W t Hoth Hw HCw); [| | | exact Hr | exact Hpc].
  - intros _. left. exists t. exact D.
  - intros _ _ _. left. exists t. left. exact D.
  - intros y N H. assert (H' : mwrel (P W y) = true) by (rewrite (P_other w W t Hoth y N); exact H).
    destruct Hs as [S | [S | S]]; [exfalso; apply (no_rel_beside_spin W t y HI' S N H') | exfalso; apply (no_rel_beside_scanner W t y HI' S N H') | apply (S y N H)].
Qed.

(* the step ends with t owning lock bits *)
Lemma HC_holder_after w W t :
  HC w -> Inv n W -> (forall y, y <> t -> get W y = get w y) -> (forall y, y <> t -> waiting W y = waiting w y \/ waiting W y = false) ->
  held (get W t) <> None ->
  (tb 3 (word W) = true -> (exists a, dag W a = true) \/ (exists a, a <> t /\ dag w a = true) \/
                           (tb 3 (word w) = true /\ (dag w t = true -> dag W t = true))) ->
  (spin (get W t) = true \/ (forall y, y <> t -> mwrel (P w y) = true -> queue W = queue w)) ->
  (forall x, MX W t = Some x -> mwrel (P W t) = true -> mw_hadw x = false -> queue W = [t]) -> pcC W t -> HC W.
Proof.
  intros HCw HI' Hoth Hw Hh Hd Hs Hr Hpc. apply (HC_intro w W t Hoth Hw HCw); [exact Hd | | | exact Hr | exact Hpc].
  - intros _ F _. exfalso. apply (held_not_free W t HI' Hh F).
  - intros y N H. assert (H' : mwrel (P W y) = true) by (rewrite (P_other w W t Hoth y N); exact H).
    destruct Hs as [S | S]; [exfalso; apply (no_rel_beside_spin W t y HI' S N H') | apply (S y N H)].
Qed.

(* the step ends with t owning lock bits; MU_DESIG_WAKER is kept or lowered *)
Lemma HC_holder_local w W t :
  HC w -> Inv n W -> (forall y, y <> t -> get W y = get w y) -> (forall y, y <> t -> waiting W y = waiting w y) ->
  held (get W t) <> None -> (tb 3 (word W) = true -> tb 3 (word w) = true) -> (dag w t = true -> dag W t = true) ->
  (spin (get W t) = true \/ queue W = queue w) ->
  (forall x, MX W t = Some x -> mwrel (P W t) = true -> mw_hadw x = false -> queue W = [t]) -> pcC W t -> HC W.
Proof.
  intros HCw HI' Hoth Hw Hh Hb Hd Hs Hr Hpc.
  apply (HC_holder_after w W t HCw HI' Hoth); [intros y N; left; apply Hw; exact N | exact Hh | | | exact Hr | exact Hpc].
  - intros B. right; right. split; [apply Hb; exact B | exact Hd].
  - destruct Hs as [S | S]; [left; exact S | right; intros; exact S].
Qed.

(* no runnable waiter and nobody about to queue itself when MU_WAITING is clear *)
Lemma no_waiting_no_need w : HB w -> tb 2 (word w) = false -> queue w = [] /\ ~ anyls w.
Proof.
  intros HBw B. split.
  - destruct (queue w) as [|q0 qr] eqn:E; [reflexivity|]. rewrite (b_wt w HBw) in B; [discriminate B | left; rewrite E; discriminate].
  - intros A. rewrite (b_wt w HBw) in B; [discriminate B | right; exact A].
Qed.
(* ... nor when MU_ALL_FALSE is set and nobody can have changed the protected state *)
Lemma allfalse_no_need w t : Inv n w -> L3 w -> etp w -> tb 7 (word w) = true -> held (get w t) = Some R -> ~ runq w /\ ~ anyls w.
Proof.
  intros HI H3 E B Hh. assert (Ha : hA (word w) = true) by (unfold hA; rewrite hasA; exact B). split.
  - intros (p & Hp & Hr). destruct (c_g w H3 Ha) as [[y Hy] | Hf].
    + unfold mutb in Hy. destruct (held (get w y)) as [[|]|] eqn:Ey; try discriminate Hy.
      destruct (Nat.eq_dec y t) as [->|N]; [congruence|].
      apply (other_holders n w t HI ltac:(rewrite Hh; discriminate) y N Ey).
    + rewrite (Hf E p Hp) in Hr. discriminate Hr.
  - intros [y Hy]. destruct (c_t w H3 y) as (_ & _ & _ & Haf & _). unfold P in Hy.
    destruct (t_pc (get w y)); try discriminate Hy. rewrite (Haf eq_refl) in Ha. discriminate Ha.
Qed.

(* a step that releases lock bits through a path that does not scan the queue *)
Lemma HC_release w W t :
  HC w -> Inv n w -> L3 w -> HB w -> (forall y, y <> t -> get W y = get w y) ->
  waiting W = waiting w -> queue W = queue w -> pst W = pst w -> cls W = cls w -> (forall p, In p (queue w) -> wcond W p = wcond w p) ->
  (tb 3 (word W) = true -> tb 3 (word w) = true) ->
  (dag w t = true -> dag W t = true) -> mts (P w t) = false -> lssw (P W t) = false -> mwrel (P W t) = false -> pcC W t ->
  (free (word W) -> tb 2 (word w) = false \/ tb 3 (word w) = true \/ (tb 7 (word w) = true /\ held (get w t) = Some R)) ->
  HC W.
Proof.
  intros HCw HI H3 HBw Hoth Ewt Eq Ep Ecl Hwc Hb Hd Hm Hl Hr Hpc Hj.
  assert (Rq : runq W -> runq w).
  { apply (runq_mono w W Ep). intros p Hp. rewrite Eq in Hp. split; [exact Hp | apply Hwc; exact Hp]. }
  assert (Al : anyls W -> anyls w).
  { intros A. destruct (anyls_cases w W t Hoth A) as [B | B]; [rewrite Hl in B; discriminate B | exact B]. }
  assert (Et : etp W -> etp w) by (unfold etp; rewrite Ep, Ecl; auto).
  apply (HC_intro w W t Hoth); [intros y _; left; rewrite Ewt; reflexivity | exact HCw | | | | |exact Hpc].
  - intros B. right; right. split; [apply Hb; exact B | exact Hd].
  - intros E F R. destruct (Hj F) as [B | [B | [B Hh]]].
    + exfalso. destruct (no_waiting_no_need w HBw B) as [Q A]. destruct R as [(p & Hp & _) | R]; [rewrite Eq, Q in Hp; destruct Hp | apply A, Al, R].
    + destruct (c_dw w HCw B) as [a Ha]. destruct (Nat.eq_dec a t) as [->|N].
      * left. exists t. left. apply Hd. exact Ha.
      * right; left. exists a. split; [exact N | left; exact Ha].
    + exfalso. destruct (allfalse_no_need w t HI H3 (Et E) B Hh) as [Q A]. destruct R as [R | R]; [apply Q, Rq, R | apply A, Al, R].
  - intros y _ _. exact Eq.
  - intros x _ Hr'. rewrite Hr in Hr'. discriminate Hr'.
Qed.

(* the step leaves t inside the scan *)
Lemma scan_after w W t p' :
  HC w -> Inv n W -> NC W -> (forall y, y <> t -> get W y = get w y) -> (forall y, waiting W y = waiting w y) ->
  P W t = p' -> scanres p' -> (forall k, p' = Crash k -> k = 5 \/ k = 6) -> HC W.
Proof.
  intros HCw HI' HN' Hoth Hw Ep Hs Hk.
  assert (Hc : forall k, p' <> Crash k).
  { intros k E. destruct (HN' t k) as (A & _); [unfold P in Ep; rewrite Ep; exact E|].
    destruct (Hk k E) as [-> | ->]; destruct A as [A | [A | [A | A]]]; discriminate A. }
  assert (Hscl : scl p' = true).
  { destruct p'; cbn [scanres] in Hs; try contradiction; try (destruct k; try contradiction); try reflexivity. exfalso; apply (Hc why); reflexivity. }
  apply (HC_agent_after w W t HCw HI' Hoth); [intros y _; left; apply Hw | | | |].
  - unfold dag. rewrite Ep. apply scl_dag. exact Hscl.
  - right; left. rewrite Ep. exact Hscl.
  - intros x _ Hr. rewrite Ep in Hr. destruct p'; cbn [scanres] in Hs; try contradiction; try (destruct k; try contradiction); discriminate Hr.
  - unfold pcC. rewrite Ep. destruct p'; cbn [scanres] in Hs; try contradiction; try (destruct k; try contradiction); exact I.
Qed.
End Gen.

(* ================= Part 3 ================= *)

Section StepC.
Variable n : nat.
Hypothesis Hn : Z.of_nat n < 16777215.

Ltac cas_split w :=
  unfold cas;
  match goal with |- context [word w =? ?e] => destruct (Z.eqb_spec (word w) e) as [Hcas|Hcas] end;
  cbv beta iota; cbn [fst snd].
Ltac fldr :=
  rewrite ?acq_queue, ?acq_rings, ?acq_wcond, ?acq_cls, ?acq_waiting, ?acq_rcount, ?acq_wtype, ?acq_pst, ?acq_word,
          ?ru_queue, ?ru_rings, ?ru_wcond, ?ru_cls, ?ru_waiting, ?ru_rcount, ?ru_wtype, ?ru_pst, ?ru_word.
Ltac fld := intros; fldr; reflexivity.
Ltac wrd := fldr; cbn [word set_pc set_t set_thr set_own set_held set_spin set_mw upd_mw released mw_return set_queue set_rings set_rcount set_waiting set_winfo set_sem w_merge add_ev log_eval set_pst]; let H := fresh in intros H; exact H.
Ltac mwsome Hok mx :=
  unfold try_frozen, mt_pre, in_mw in Hok; cbn [mw] in Hok;
  let x := fresh "x" in let Hx := fresh "Hx" in
  first [ destruct Hok as ((x & Hx & _) & _) | destruct Hok as (x & Hx & _) ]; subst mx.

Ltac attr_simpl := unfold dagb, scl; cbn [sk_of fin_of wkne lsd mq_of us_pc mwb hv mts lssw mwrel t_pc mw nilb wake clr mw_have orb andb negb]; rewrite ?Z.eqb_refl; change (0 =? MU_DESIG_WAKER) with false; cbn [orb andb negb].
Ltac attr_fin :=
  intros;
  repeat match goal with E : wake ?u = _ |- _ => rewrite E in * end;
  repeat match goal with E : waiting ?w ?t = _ |- _ => rewrite E in * end;
  repeat match goal with
  | |- context [clr ?l =? ?c] => destruct (clr l =? c)
  | H : context [clr ?l =? ?c] |- _ => destruct (clr l =? c)
  | |- context [mw_have ?x] => destruct (mw_have x)
  | H : context [mw_have ?x] |- _ => destruct (mw_have x)
  | |- context [wake ?u] => destruct (wake u)
  | H : context [wake ?u] |- _ => destruct (wake u)
  | |- context [waiting ?w ?t] => destruct (waiting w t)
  | H : context [waiting ?w ?t] |- _ => destruct (waiting w t)
  end;
  cbn [negb andb orb nilb] in *; try tauto; try discriminate; try reflexivity; auto.

Ltac setters := cbn [waiting queue word set_pc set_t set_thr set_winfo set_waiting set_queue set_rings set_rcount set_sem set_word set_own set_held set_spin set_mw upd_mw released
                     mw_return add_ev log_eval set_pst w_merge].
Ltac nomemq w t HL Hs :=
  let p := fresh "p" in let Hp := fresh "Hp" in let Nx := fresh "Nx" in
  intros p Hp; fldr;
  first [ reflexivity
        | (destruct (Nat.eq_dec p t) as [->|Nx];
           [ exfalso; let Wt := fresh "Wt" in let Mq := fresh "Mq" in
             destruct (a_m _ _ _ _ _ _ _ HL t (or_introl Hp)) as [Wt Mq]; unfold winfo, get in Mq; rewrite Hs in Mq; cbn in Mq;
             first [discriminate Mq | congruence]
           | cbn [wcond set_pc set_t set_thr set_winfo set_waiting set_queue set_rings set_rcount set_sem set_word set_own set_held set_spin set_mw upd_mw released
                  mw_return add_ev log_eval set_pst w_merge]; rewrite ?fupd_neq by exact Nx; reflexivity ]) ].

Ltac boringCw w t HL HCw Hs Hlen Ht w3tac frtac :=
  try (match goal with mx : option mwl |- _ => destruct mx end);
  let HI' := fresh "HI'" in let HN' := fresh "HN'" in let Hoth := fresh "Hoth" in
  intros HI' HN' Hoth; cbn [fst] in *;
  lazymatch goal with |- HC ?W =>
    let HT := fresh "HT" in let Eg := fresh "Eg" in
    eassert (HT : TS t w W _ _) by (ts_solve; rewrite Hlen; exact Ht);
    pose proof (TS_get _ _ _ _ _ HT) as Eg;
    eapply (HC_local w W t _ HCw Hoth Eg);
    [ fldr; setters; w3tac | fldr; setters; frtac | fld | fld | fld | fld
    | nomemq w t HL Hs
    | unfold P, MX, get; rewrite ?Hs; unfold mw_of; attr_simpl; attr_fin
    | unfold P, MX, get; rewrite ?Hs; unfold mw_of; attr_simpl; attr_fin
    | unfold P, MX, get; rewrite ?Hs; unfold mw_of; attr_simpl; attr_fin
    | unfold P, MX, get; rewrite ?Hs; unfold mw_of; attr_simpl; intros; first [discriminate | (split; [assumption | reflexivity]) | attr_fin]
    | unfold pcC, P, MX; rewrite Eg; unfold mw_of, get; rewrite ?Hs; cbn [t_pc mw]; first [exact I | assumption | idtac] ]
  end.
Ltac boringC w t HL HCw Hs Hlen Ht := boringCw w t HL HCw Hs Hlen Ht ltac:(let H := fresh in intros H; exact H) ltac:(let H := fresh in intros H; exact H).
Ltac BC :=
  match goal with
  | HL : L1 ?w, HCw : HC ?w, Hlen : length (thr ?w) = _, Ht : (?t < _)%nat, Hs : nth ?t (thr ?w) dflt_t = _ |- _ => boringC w t HL HCw Hs Hlen Ht
  end.
Lemma fl_keep3 old C new : fl old 0 C new -> tb 3 new = true -> tb 3 old = true.
Proof. intros F B. rewrite (F 3 ltac:(lia)) in B. change (tb 3 0) with false in B. rewrite orb_false_r in B. apply andb_true_iff in B. apply B. Qed.
Lemma fl_keep3' old S C new : fl old S C new -> tb 3 S = false -> tb 3 new = true -> tb 3 old = true.
Proof. intros F E B. rewrite (F 3 ltac:(lia)), E in B. rewrite orb_false_r in B. apply andb_true_iff in B. apply B. Qed.
Lemma fl_clear3 old S C new : fl old S C new -> tb 3 C = true -> tb 3 new = true -> False.
Proof. intros F E B. rewrite (F 3 ltac:(lia)), E in B. rewrite andb_false_r in B. discriminate B. Qed.

Ltac holderCw w t HCw Hs Hlen Ht wtac :=
  try (match goal with mx : option mwl |- _ => destruct mx end);
  let HI' := fresh "HI'" in let HN' := fresh "HN'" in let Hoth := fresh "Hoth" in
  intros HI' HN' Hoth; cbn [fst] in *;
  lazymatch goal with |- HC ?W =>
    let HT := fresh "HT" in let Eg := fresh "Eg" in
    eassert (HT : TS t w W _ _) by (ts_solve; rewrite Hlen; exact Ht);
    pose proof (TS_get _ _ _ _ _ HT) as Eg;
    eapply (HC_holder_local n w W t HCw HI' Hoth);
    [ let y := fresh "y" in let Ny := fresh "Ny" in intros y Ny; fldr; setters; rewrite ?fupd_neq by exact Ny; reflexivity
    | rewrite Eg; unfold get; rewrite ?Hs; cbn [held]; discriminate
    | fldr; setters; wtac
    | unfold dag, P, MX; rewrite Eg; fldr; setters; rewrite ?fupd_eq; unfold get; rewrite ?Hs; unfold mw_of; attr_simpl; attr_fin
    | first [ right; fld | left; rewrite Eg; unfold get; rewrite ?Hs; reflexivity ]
    | unfold MX, P; rewrite Eg; unfold mw_of, get; rewrite ?Hs; cbn [t_pc mw]; intros; discriminate
    | unfold pcC, P, MX; rewrite Eg; unfold mw_of, get; rewrite ?Hs; cbn [t_pc mw]; first [exact I | assumption | idtac] ]
  end.
Ltac holderCd w t HCw Hs Hlen Ht dtac :=
  try (match goal with mx : option mwl |- _ => destruct mx end);
  let HI' := fresh "HI'" in let HN' := fresh "HN'" in let Hoth := fresh "Hoth" in
  intros HI' HN' Hoth; cbn [fst] in *;
  lazymatch goal with |- HC ?W =>
    let HT := fresh "HT" in let Eg := fresh "Eg" in
    eassert (HT : TS t w W _ _) by (ts_solve; rewrite Hlen; exact Ht);
    pose proof (TS_get _ _ _ _ _ HT) as Eg;
    eapply (HC_holder_after n w W t HCw HI' Hoth);
    [ let y := fresh "y" in let Ny := fresh "Ny" in intros y Ny; left; fldr; setters; rewrite ?fupd_neq by exact Ny; reflexivity
    | rewrite Eg; unfold get; rewrite ?Hs; cbn [held]; discriminate
    | fldr; setters; dtac
    | first [ right; intros; fld | left; rewrite Eg; unfold get; rewrite ?Hs; reflexivity ]
    | unfold MX, P; rewrite Eg; unfold mw_of, get; rewrite ?Hs; cbn [t_pc mw]; intros; discriminate
    | unfold pcC, P, MX; rewrite Eg; unfold mw_of, get; rewrite ?Hs; cbn [t_pc mw]; first [exact I | assumption | idtac] ]
  end.
Ltac BHd dtac :=
  match goal with
  | HCw : HC ?w, Hlen : length (thr ?w) = _, Ht : (?t < _)%nat, Hs : nth ?t (thr ?w) dflt_t = _ |- _ => holderCd w t HCw Hs Hlen Ht dtac
  end.
Ltac BHw wtac :=
  match goal with
  | HCw : HC ?w, Hlen : length (thr ?w) = _, Ht : (?t < _)%nat, Hs : nth ?t (thr ?w) dflt_t = _ |- _ => holderCw w t HCw Hs Hlen Ht wtac
  end.
Ltac holderC w t HCw Hs Hlen Ht :=
  try (match goal with mx : option mwl |- _ => destruct mx end);
  let HI' := fresh "HI'" in let HN' := fresh "HN'" in let Hoth := fresh "Hoth" in
  intros HI' HN' Hoth; cbn [fst] in *;
  lazymatch goal with |- HC ?W =>
    let HT := fresh "HT" in let Eg := fresh "Eg" in
    eassert (HT : TS t w W _ _) by (ts_solve; rewrite Hlen; exact Ht);
    pose proof (TS_get _ _ _ _ _ HT) as Eg;
    eapply (HC_holder_local n w W t HCw HI' Hoth);
    [ let y := fresh "y" in let Ny := fresh "Ny" in intros y Ny; fldr; setters; rewrite ?fupd_neq by exact Ny; reflexivity
    | rewrite Eg; unfold get; rewrite ?Hs; cbn [held]; discriminate
    | wrd
    | unfold dag, P, MX; rewrite Eg; fldr; setters; rewrite ?fupd_eq; unfold get; rewrite ?Hs; unfold mw_of; attr_simpl; attr_fin
    | first [ right; fld | left; rewrite Eg; unfold get; rewrite ?Hs; reflexivity ]
    | unfold MX, P; rewrite Eg; unfold mw_of, get; rewrite ?Hs; cbn [t_pc mw]; intros; discriminate
    | unfold pcC, P, MX; rewrite Eg; unfold mw_of, get; rewrite ?Hs; cbn [t_pc mw]; first [exact I | assumption | idtac] ]
  end.
Ltac BH :=
  match goal with
  | HCw : HC ?w, Hlen : length (thr ?w) = _, Ht : (?t < _)%nat, Hs : nth ?t (thr ?w) dflt_t = _ |- _ => holderC w t HCw Hs Hlen Ht
  end.
Ltac destr_own H := unfold own in H; cbn [held spin conv] in H; destruct H as (-> & -> & ->).
Ltac crashC w t Hs Hlen Ht k :=
  let HI' := fresh "HI'" in let HN' := fresh "HN'" in let Hoth := fresh "Hoth" in
  intros HI' HN' Hoth; cbn [fst] in *; exfalso;
  lazymatch type of HN' with NC ?W =>
    let HT := fresh "HT" in let Eg := fresh "Eg" in
    eassert (HT : TS t w W _ _) by (ts_solve; rewrite Hlen; exact Ht);
    pose proof (TS_get _ _ _ _ _ HT) as Eg;
    let A := fresh "A" in
    destruct (HN' t k) as (A & _); [rewrite Eg; reflexivity | destruct A as [A | [A | [A | A]]]; discriminate A]
  end.
Ltac BCw w3tac frtac :=
  match goal with
  | HL : L1 ?w, HCw : HC ?w, Hlen : length (thr ?w) = _, Ht : (?t < _)%nat, Hs : nth ?t (thr ?w) dflt_t = _ |- _ => boringCw w t HL HCw Hs Hlen Ht w3tac frtac
  end.
Ltac releaseC w t HL HCw Hs Hlen Ht w3tac jtac :=
  try (match goal with mx : option mwl |- _ => destruct mx end);
  let HI' := fresh "HI'" in let HN' := fresh "HN'" in let Hoth := fresh "Hoth" in
  intros HI' HN' Hoth; cbn [fst] in *;
  lazymatch goal with |- HC ?W =>
    let HT := fresh "HT" in let Eg := fresh "Eg" in
    eassert (HT : TS t w W _ _) by (ts_solve; rewrite Hlen; exact Ht);
    pose proof (TS_get _ _ _ _ _ HT) as Eg;
    match goal with H0 : Inv _ w, H3 : L3 w, HBw : HB w |- _ =>
    eapply (HC_release n w W t HCw H0 H3 HBw Hoth);
    [ fld | fld | fld | fld
    | nomemq w t HL Hs
    | fldr; setters; w3tac
    | unfold dag, P, MX; rewrite Eg; fldr; setters; unfold get; rewrite ?Hs; unfold mw_of; attr_simpl; attr_fin
    | unfold P, get; rewrite ?Hs; reflexivity
    | unfold P; rewrite Eg; unfold get; rewrite ?Hs; cbn [t_pc mw]; reflexivity
    | unfold P; rewrite Eg; unfold get; rewrite ?Hs; cbn [t_pc mw]; reflexivity
    | unfold pcC, P, MX; rewrite Eg; unfold mw_of, get; rewrite ?Hs; cbn [t_pc mw]; first [exact I | assumption | idtac]
    | fldr; setters; unfold get; rewrite ?Hs; cbn [held]; jtac ] end
  end.
Ltac RC w3tac jtac :=
  match goal with
  | HL : L1 ?w, HCw : HC ?w, Hlen : length (thr ?w) = _, Ht : (?t < _)%nat, Hs : nth ?t (thr ?w) dflt_t = _ |- _ => releaseC w t HL HCw Hs Hlen Ht w3tac jtac
  end.
Ltac noopC := cbn [fst]; intros _ _ _; assumption.

Lemma begin_op_HC w t : Inv n w -> HC w -> HC (begin_op w t).
Proof.
  intros HI HCw. destruct (begin_op_fields w t) as (Eq & _ & Ewc & Ecl & Ewt & _).
  pose proof (begin_op_word w t) as Ew. pose proof (begin_op_pst w t) as Ep.
  assert (Ho : forall y, y <> t -> get (begin_op w t) y = get w y) by (intros y N; apply begin_op_get_other; exact N).
  destruct (MuWaitWorld4.begin_op_cases w t) as [E | (o & rest & p & x & E1 & E2 & E3 & E4 & _)].
  - apply (HC_local w (begin_op w t) t (get w t) HCw Ho E); try assumption.
    + rewrite Ew; auto.
    + rewrite Ew; auto.
    + intros; rewrite Ewc; reflexivity.
    + auto.
    + auto.
    + auto.
    + intros x Ex Hr. split; [exact Ex | exact Hr].
    + unfold pcC, P, MX. rewrite E. apply (c_pc w HCw t).
  - apply (HC_local w (begin_op w t) t _ HCw Ho E3); try assumption.
    + rewrite Ew; auto.
    + rewrite Ew; auto.
    + intros; rewrite Ewc; reflexivity.
    + unfold P. rewrite E1. cbn. intros A; discriminate A.
    + unfold P. rewrite E1. cbn. intros A; discriminate A.
    + cbn [t_pc]. destruct p; try contradiction; intros A; discriminate A.
    + cbn [t_pc]. destruct p; try contradiction; intros ? ? A; discriminate A.
    + unfold pcC, P, MX. rewrite E3. cbn [t_pc]. destruct p; try contradiction; exact I.
Qed.

(* HA and HB are needed of the world after begin_op (they are preserved by it: MuWaitWorld8 / MuWaitWorld9) *)
Lemma HC_step_thr w0 t c : Inv n w0 -> frozen_word w0 -> L1 w0 -> U1 w0 -> L2 w0 -> L3 w0 -> NC w0 ->
  HA (begin_op w0 t) -> HB (begin_op w0 t) -> HC w0 ->
  HC (fst (step_thr w0 t c)).
Proof.
  intros H0 HFr HL HU H2 H3 HN HAw HBw HCw.
  pose proof (step_thr_ok n Hn w0 t c H0) as (HI' & _ & _ & Hoth).
  pose proof (NC_step_thr n Hn w0 t c H0 HL HU H2 HN) as HN'.
  apply (begin_op_HC _ t H0) in HCw.
  apply (begin_op_L3 n w0 t H0) in H3. apply (begin_op_frozen w0 t) in HFr.
  revert HI' HN' Hoth. unfold step_thr. set (w := begin_op w0 t) in *.
  assert (H0' : Inv n w) by (apply (begin_op_inv n w0 t); exact H0).
  assert (HL' : L1 w) by (apply (begin_op_L1 n); assumption).
  clearbody w. clear w0 H0 HL HU H2 HN. rename H0' into H0. rename HL' into HL. cbv zeta.
  destruct (Nat.lt_ge_cases t n) as [Ht|Ht].
  2:{ assert (Eg : get w t = dflt_t) by (apply get_oob'; destruct H0 as (-> & _); exact Ht).
      rewrite Eg. cbn. intros; assumption. }
  pose proof H0 as (Hlen & _ & Hok). specialize (Hok t).
  destruct (get w t) as [p ops h cv sp mx lr] eqn:Hs. unfold get in Hs. rewrite Hs in Hok.
  unfold pc_ok in Hok. cbn [t_pc t_ops held conv spin mw last_ret] in *.
  destruct p.
  - (* Idle *) noopC.
  - (* LkFast *) destruct Hok as (Ho & ->). cas_split w; [| BC]. BHw ltac:(rewrite Hcas; apply (fl_keep3 _ _ _ (fl_fast_new m))).
  - (* LkLoad *) destruct Hok as (Ho & ->). destruct (fast_guard2 m (word w)) eqn:G; BC.
  - (* LkCas2 *) destruct Hok as (Ho & -> & G). pose proof (Inv_rng n w H0) as Rw. cas_split w; [| BC]. subst old. BHw ltac:(apply (fl_keep3 _ _ _ (fl_fast_new2 m (word w) Rw G))).
  - (* TryFast *) destruct Hok as (Ho & ->). cas_split w; [| BC]. BHw ltac:(rewrite Hcas; apply (fl_keep3 _ _ _ (fl_try_new m))).
  - (* TryLoad *) destruct Hok as (Ho & ->). destruct (try_guard2 m (word w)) eqn:G; BC.
  - (* TryCas2 *) destruct Hok as (Ho & -> & G). pose proof (Inv_rng n w H0) as Rw. cas_split w; [| BC]. subst old. BHw ltac:(apply (fl_keep3 _ _ _ (fl_try_new2 m (word w) Rw G))).
  - (* LsLoad *) destruct (nsync_mu_lock_slow_cas1_guard (word w) (zta l)) eqn:G1; [BC|].
    destruct (nsync_mu_lock_slow_cas2_guard (word w) (zta l)) eqn:G2; [BC | noopC].
  - (* LsCasAcq *) destruct Hok as (Ho & Hm & Hl & G). pose proof (Inv_rng n w H0) as Rw. cas_split w; [| destruct mx; BC]. subst old.
    pose proof (fl_lock_slow_cas1 m l (word w) Rw Hl G) as F.
    destruct Hl as (_ & [Ec | Ec] & _).
    + destruct l as [z c0 lw wc]; cbn [clr] in Ec; subst c0. BHw ltac:(apply (fl_keep3 _ _ _ F)).
    + BHd ltac:(let B := fresh in intros B; exfalso; apply (fl_clear3 _ _ _ _ F); [rewrite !tb_lor, Ec; reflexivity | exact B]).
  - (* LsCasEnq *) destruct Hok as (Ho & Hm & Hl & G). destr_own Ho. pose proof (Inv_rng n w H0) as Rw. cas_split w; [| BC]. subst old.
    pose proof (fl_lock_slow_cas2 m l (word w) Rw Hl) as F.
    pose proof (free_lock_slow_cas2 m l (word w) Rw Hl) as Ff.
    pose proof (enq_guard_spin _ _ G) as Hb1.
    assert (Hlb : lslB m l) by (apply (b_lsl w HBw t m l); unfold P, get; rewrite Hs; reflexivity).
    intros HI' HN' Hoth. cbn [fst] in *.
    match goal with |- HC ?W0 => set (W := W0) in *; eassert (HT : TS t w W _ _) by (subst W; ts_solve; rewrite Hlen; exact Ht) end.
    pose proof (TS_get _ _ _ _ _ HT) as Eg.
    assert (EW : word W = nsync_mu_lock_slow_cas2_new (word w) (longw l) (lt_of m) (clr l)) by (subst W; reflexivity).
    assert (Sw : spin (get W t) = true) by (rewrite Eg; reflexivity).
    assert (Mw : mts (P w t) = false) by (unfold P, get; rewrite Hs; reflexivity).
    assert (Dw : dag w t = (clr l =? MU_DESIG_WAKER)).
    { unfold dag, P, MX, get. rewrite Hs. unfold dagb. cbn [scl sk_of wkne lsd mq_of us_pc t_pc mw]. cbn. rewrite !orb_false_r. reflexivity. }
    destruct Hl as (Hz & [Ec | Ec] & [Elw | Elw]).
    all: apply (HC_intro w W t Hoth); [intros y Ny; left; subst W; reflexivity | exact HCw | | | | |].
    all: try (intros y Ny Hy; exfalso; apply (no_rel_beside_spin n W t y HI' Sw Ny); rewrite (P_other w W t Hoth y Ny); exact Hy).
    all: try (intros x _ Hr; unfold P in Hr; rewrite Eg in Hr; discriminate Hr).
    all: try (unfold pcC, P; rewrite Eg; exact I).
    all: try (intros B; rewrite EW in B;
              first [ exfalso; apply (fl_clear3 _ _ _ _ F); [rewrite !tb_lor, Ec; reflexivity | exact B]
                    | right; right; split; [apply (fl_keep3' _ _ _ _ F); [rewrite tb_lor, Elw; destruct m; reflexivity | exact B] | rewrite Dw, Ec; intros A; discriminate A] ]).
    all: intros E F0 _; right; left; rewrite EW in F0; apply Ff in F0.
    all: try (exfalso; destruct Hlb as [_ Hlb]; rewrite (Hlb Ec) in G; apply (enq_guard_woken m (word w) Rw F0 G)).
    all: destruct Hz as [Hz | Hz]; [| exfalso; rewrite Hz in G; apply (enq_guard_woken m (word w) Rw F0 G)].
    all: rewrite Hz in G; assert (Et : etp w) by (unfold etp in *; subst W; exact E).
    all: assert (Ag : exists a, agent w a) by
          (destruct (enq_guard_fresh m (word w) Rw F0 G) as [B6 | B5];
           [ destruct (lw_cases n w H0 HAw HBw Hb1 B6) as [Rq | [a Ha]]; [apply (c_resp w HCw Et F0 (or_introl Rq)) | exists a; left; exact Ha]
           | destruct (ww_cases n w H0 HAw HBw Hb1 B5) as [Rq | [a Ha]]; [apply (c_resp w HCw Et F0 (or_introl Rq)) | exists a; exact Ha] ]).
    all: destruct Ag as [a Ha]; exists a; split; [| exact Ha].
    all: intros ->; destruct Ha as [A | A]; [rewrite Dw, Ec in A; discriminate A | rewrite Mw in A; discriminate A].
  - (* LsStoreWaiting *) destruct Hok as (Ho & _). destr_own Ho. intros HI' HN' Hoth. cbn [fst] in *.
    match goal with |- HC ?W0 => set (W := W0) in *; eassert (HT : TS t w W _ _) by (subst W; ts_solve; rewrite Hlen; exact Ht) end.
    pose proof (TS_get _ _ _ _ _ HT) as Eg.
    assert (Sw : spin (get w t) = true) by (unfold get; rewrite Hs; reflexivity).
    assert (Dw : dag w t = false) by (unfold dag, P, MX, get; rewrite Hs; reflexivity).
    assert (Mw : mts (P w t) = false) by (unfold P, get; rewrite Hs; reflexivity).
    apply (HC_intro w W t Hoth); [| exact HCw | | | | |].
    + intros y Ny. left. subst W. setters. rewrite fupd_neq by exact Ny. reflexivity.
    + intros B. right; right. split; [exact B | rewrite Dw; intros A; discriminate A].
    + intros E F _. right; right. split; [exact E|]. split; [exact F|]. split; [right; exists t; unfold P, get; rewrite Hs; reflexivity|].
      intros [A | A]; [rewrite Dw in A; discriminate A | rewrite Mw in A; discriminate A].
    + intros y Ny Hy. exfalso. apply (no_rel_beside_spin n w t y H0 Sw Ny Hy).
    + intros x _ Hr. unfold P in Hr. rewrite Eg in Hr. discriminate Hr.
    + unfold pcC, P. rewrite Eg. exact I.
  - (* LsWaitLoad *) destruct (waiting w t) eqn:Ew; BC.
  - (* LsSemP *) destruct (0 <? sem w t); [BC | noopC].
  - (* RelLoad *) destruct k; try contradiction; BC.
  - (* RelCas *) destruct k; try contradiction.
    + pose proof (Inv_rng n w H0) as Rw. cas_split w; [| BC]. subst old.
      BCw ltac:(apply (fl_keep3 _ _ _ (fl_release_spinlock (word w) Rw))) ltac:(apply (proj1 (free_release_spinlock (word w) Rw))).
    + cas_split w; [| BC]. intros HI' HN' Hoth.
      match goal with |- context [after_inner ?w2 m ?r] =>
        pose proof (after_inner_wt w2 m r) as [Hw1 Hw2];
        destruct (after_inner_fields w2 m r) as (_ & _ & _ & F4 & _);
        pose proof (after_inner_sres w2 m r (inner_scanres _ _ _ _)) as [Hsr _];
        pose proof (after_inner_inner_crash w2 m u (u_rest u)) as Hcr;
        destruct (after_inner w2 m r) as [w3 p'] eqn:Ea; cbn [fst snd] in *;
        eassert (HT : TS t w w2 _ _) by (ts_solve; rewrite Hlen; exact Ht)
      end.
      eassert (HT3 : TS t w (set_pc w3 t p') _ _) by (apply TS_set_pc; eapply TS_eq; [exact HT | exact Hw1 | exact Hw2]).
      pose proof (TS_get _ _ _ _ _ HT3) as Eg.
      eapply (scan_after n w _ t p' HCw HI' HN' Hoth); [| unfold P; rewrite Eg; reflexivity | exact Hsr | intros k0 ->; left; apply (Hcr k0); reflexivity].
      intros y. cbn [waiting set_pc set_t set_thr]. rewrite F4. reflexivity.
  - (* SpinLoad *) destruct k; try contradiction; destruct (nsync_spin_test_and_set_cas1_guard (word w) MU_SPINLOCK) eqn:G; BC.
  - (* SpinCas *) destruct k; try contradiction.
    + unfold spin_set. cbv beta iota. cas_split w; [| BC]. intros HI' HN' Hoth.
      match goal with |- context [round_end ?w2 u] =>
        eassert (HT : TS t w w2 _ _) by (ts_solve; rewrite Hlen; exact Ht);
        pose proof (round_end_scan_crash5 m 3 w2 u) as Hcr;
        destruct (round_end_fields w2 u) as (_ & _ & _ & _ & R5 & _ & _ & _ & _ & R10 & R11 & _);
        destruct (round_end w2 u) as [w3 u3] eqn:Ere; cbn [fst snd] in *
      end.
      pose proof (scan_from_wt m 3 w3 u3) as [Hw1 Hw2]. destruct (scan_from_fields m 3 w3 u3) as (_ & _ & _ & F4 & _).
      pose proof (scan_from_sres m 3 w3 u3) as [Hsr _].
      destruct (scan_from 3 w3 m u3) as [w4 p'] eqn:Esf. cbn [fst snd] in *.
      rewrite R10 in Hw1. rewrite R11 in Hw2.
      eassert (HT3 : TS t w (set_pc w4 t p') _ _) by (apply TS_set_pc; eapply TS_eq; [exact HT | exact Hw1 | exact Hw2]).
      pose proof (TS_get _ _ _ _ _ HT3) as Eg.
      eapply (scan_after n w _ t p' HCw HI' HN' Hoth); [| unfold P; rewrite Eg; reflexivity | exact Hsr | intros k0 ->; left; apply (Hcr k0); [lia | reflexivity]].
      intros y. cbn [waiting set_pc set_t set_thr]. rewrite F4, R5. reflexivity.
    + unfold in_mw in Hok; cbn [mw] in Hok. destruct Hok as ((x & Hx & Ho & Hhv) & G). subst mx. destr_own Ho. pose proof (Inv_rng n w H0) as Rw.
      unfold spin_set. cbv beta iota. cas_split w; [subst old | BC].
      match goal with |- context [mw_first (get_mw ?ww t)] =>
        assert (get_mw ww t = x) as Eg0 by (erewrite (TS_get_mw t w); [| ts_solve; rewrite Hlen; exact Ht]; unfold get; rewrite Hs; reflexivity);
        rewrite Eg0 end.
      assert (Egm : get_mw w t = x) by (unfold get_mw, get; rewrite Hs; reflexivity). rewrite Egm.
      pose proof (fl_spin_wait (word w) (mw_cond x) Rw) as F.
      assert (Hq0 : tb 2 (word w) = false -> queue w = []).
      { intros B. destruct (queue w) as [|q0 qr] eqn:Eq0; [reflexivity|]. rewrite (b_wt w HBw) in B; [discriminate B|]. left. rewrite Eq0. discriminate. }
      destruct (mw_first x); intros HI' HN' Hoth; cbn [fst] in *.
      all: match goal with |- HC ?W0 => set (W := W0) in *; eassert (HT : TS t w W _ _) by (subst W; ts_solve; rewrite Hlen; exact Ht) end.
      all: pose proof (TS_get _ _ _ _ _ HT) as Eg.
      all: apply (HC_holder_after n w W t HCw HI' Hoth);
        [ intros y Ny; left; subst W; fldr; setters; reflexivity
        | rewrite Eg; unfold get; rewrite ?Hs; cbn [held]; discriminate
        | intros B; right; right; split;
          [ apply (fl_keep3' _ _ _ _ F); [destruct (mw_cond x); reflexivity | subst W; fldr; setters; exact B]
          | unfold dag, P, MX, get; rewrite Hs; intros A; discriminate A ]
        | left; rewrite Eg; reflexivity
        | | unfold pcC, P; rewrite Eg; cbn [t_pc]; exact I ].
      all: unfold MX, P; rewrite Eg; cbn [t_pc mw]; intros x0 E0 _ Hh; injection E0 as <-; cbn [mw_hadw] in Hh.
      all: rewrite has_waiting in Hh; subst W; fldr; setters; rewrite (Hq0 Hh); reflexivity.
  - (* RmLoad *) destruct k; try contradiction; BC.
  - (* RmCas *) destruct k; try contradiction.
    + destruct (rcount w (List.hd t (u_rest u)) =? oldv) eqn:Erc; [| BC].
      destruct (remove_from _ _ _ _ (u_new u) _) as [nl rg] eqn:Erm. intros HI' HN' Hoth.
      match goal with |- context [after_inner ?w2 m (inner ?w2 m ?u' ?rr)] =>
        pose proof (after_inner_wt w2 m (inner w2 m u' rr)) as [Hw1 Hw2];
        destruct (after_inner_fields w2 m (inner w2 m u' rr)) as (_ & _ & _ & F4 & _);
        pose proof (after_inner_sres w2 m (inner w2 m u' rr) (inner_scanres _ _ _ _)) as [Hsr _];
        pose proof (after_inner_inner_crash w2 m u' rr) as Hcr;
        destruct (after_inner w2 m (inner w2 m u' rr)) as [w3 p'] eqn:Ea; cbn [fst snd] in *;
        eassert (HT : TS t w w2 _ _) by (ts_solve; rewrite Hlen; exact Ht)
      end.
      eassert (HT3 : TS t w (set_pc w3 t p') _ _) by (apply TS_set_pc; eapply TS_eq; [exact HT | exact Hw1 | exact Hw2]).
      pose proof (TS_get _ _ _ _ _ HT3) as Eg.
      eapply (scan_after n w _ t p' HCw HI' HN' Hoth); [| unfold P; rewrite Eg; reflexivity | exact Hsr | intros k0 ->; left; apply (Hcr k0); reflexivity].
      intros y. cbn [waiting set_pc set_t set_thr]. rewrite F4. reflexivity.
    + unfold try_frozen, in_mw in Hok; cbn [mw] in Hok. destruct Hok as ((x & Hx & Ho & _) & Hto). subst mx. destr_own Ho.
      destruct (rcount w t =? oldv) eqn:Erc; [| BC]. destruct (remove_from _ _ _ _ (queue _) t) as [nl rg] eqn:Erm.
      assert (Dw : dag w t = false).
      { assert (Hq : In t (queue w)) by (apply (a_kt _ _ _ _ _ _ _ HL t); unfold winfo, get; rewrite Hs; reflexivity).
        destruct (a_m _ _ _ _ _ _ _ HL t (or_introl Hq)) as [Wt _]. unfold dag, P, MX, get. rewrite Hs, Wt. reflexivity. }
      BHd ltac:(let B := fresh in intros B; right; right; split; [exact B | rewrite Dw; intros A; discriminate A]).
  - (* UlFast *) destruct Hok as (Ho & ->). destr_own Ho. cas_split w; [| BC].
    RC ltac:(rewrite Hcas; apply (fl_keep3 _ _ _ (fl_ufast m))) ltac:(intros _; left; rewrite Hcas; destruct m; reflexivity).
  - (* UlLoad *) destruct Hok as (Ho & ->). destruct (unlock_try_cas2 m (word w)) eqn:G; [| destruct (unlock_bad m (word w))]; BC.
  - (* UlCas2 *) destruct Hok as (Ho & ->). destr_own Ho. pose proof (Inv_rng n w H0) as Rw.
    assert (G : unlock_try_cas2 m old = true) by (pose proof (c_pc w HCw t) as K; unfold pcC, P, get in K; rewrite Hs in K; exact K).
    assert (Hv : match m with W => word w mod 2 = 1 /\ word w / 256 = 0 | R => 1 <= word w / 256 /\ word w mod 2 = 0 end)
      by (apply (Inv_held n w t m H0); unfold get; rewrite Hs; reflexivity).
    cas_split w; [| BC]. subst old.
    assert (Hv' : match m with W => word w mod 2 = 1 | R => 1 <= word w / 256 end) by (destruct m; tauto).
    RC ltac:(apply (fl_keep3 _ _ _ (fl_unlock_new2 m (word w) Rw Hv')))
       ltac:(let F := fresh "F" in intros F; destruct m;
             [ destruct (unlock_cas2_guard_W (word w) G) as [B | B]; [left; exact B | right; left; exact B]
             | destruct (unlock_cas2_guard_R (word w) Rw G) as [B | [B | [B | B]]];
               [ left; exact B | right; left; exact B
               | exfalso; apply B; apply (proj1 (free_unlock_new2_R (word w) Rw (proj1 Hv) (proj2 Hv))); exact F
               | right; right; split; [exact B | reflexivity] ] ]).
  - (* UwFast *) exfalso. destruct (c_t w H3 t) as (_ & _ & _ & _ & _ & K). unfold get in K. rewrite Hs in K. discriminate K.
  - (* UwLoad *) exfalso. destruct (c_t w H3 t) as (_ & _ & _ & _ & _ & K). unfold get in K. rewrite Hs in K. discriminate K.
  - (* UwCas2 *) exfalso. destruct (c_t w H3 t) as (_ & _ & _ & _ & _ & K). unfold get in K. rewrite Hs in K. discriminate K.
  - (* UsLoad *) destruct (nsync_mu_unlock_slow_cas1_guard (word w)) eqn:G1; [BC|].
    destruct (nsync_mu_unlock_slow_cas2_guard (word w)) eqn:G2; [BC | noopC].
  - (* UsCasRel *) destruct Hok as (Ho & Hnh). destr_own Ho. pose proof (Inv_rng n w H0) as Rw.
    assert (G : nsync_mu_unlock_slow_cas1_guard old = true) by (pose proof (c_pc w HCw t) as K; unfold pcC, P, get in K; rewrite Hs in K; exact K).
    assert (Hv : match m with W => word w mod 2 = 1 /\ word w / 256 = 0 | R => 1 <= word w / 256 /\ word w mod 2 = 0 end)
      by (apply (Inv_held n w t m H0); unfold get; rewrite Hs; reflexivity).
    cas_split w; [| destruct mx; BC]. subst old.
    assert (Hv' : match m with W => word w mod 2 = 1 | R => 1 <= word w / 256 end) by (destruct m; tauto).
    RC ltac:(apply (fl_keep3 _ _ _ (fl_unlock_slow_cas1 m (word w) Rw Hv')))
       ltac:(let F := fresh "F" in intros F;
             destruct (unlock_slow_cas1_guard_flags (word w) Rw G) as [B | [B | [B | [B B']]]];
             [ left; exact B | right; left; exact B
             | exfalso; destruct m; [lia | pose proof (proj1 (free_unlock_slow_cas1_R (word w) Rw (proj1 Hv) (proj2 Hv)) F); lia]
             | destruct m; [exfalso; lia | right; right; split; [exact B | reflexivity]] ]).
  - (* UsCasSpin *) cas_split w; [| BC].
    destruct (has old MU_CONDITION) eqn:Etest; intros HI' HN' Hoth;
    (match goal with |- context [scan_from 3 (set_queue ?w2 []) m ?u] =>
      eassert (HT : TS t w (set_queue w2 []) _ _) by (ts_solve; rewrite Hlen; exact Ht);
      pose proof (scan_from_wt m 3 (set_queue w2 []) u) as [Hw1 Hw2];
      destruct (scan_from_fields m 3 (set_queue w2 []) u) as (_ & _ & _ & F4 & _);
      pose proof (scan_from_sres m 3 (set_queue w2 []) u) as [Hsr _];
      pose proof (scan_from_crash5 m 3 (set_queue w2 []) u) as Hcr;
      destruct (scan_from 3 (set_queue w2 []) m u) as [w4 p'] eqn:Esf; cbn [fst snd] in *
    end);
    (eassert (HT3 : TS t w (set_pc w4 t p') _ _) by (apply TS_set_pc; eapply TS_eq; [exact HT | exact Hw1 | exact Hw2]));
    pose proof (TS_get _ _ _ _ _ HT3) as Eg;
    (eapply (scan_after n w _ t p' HCw HI' HN' Hoth); [| unfold P; rewrite Eg; reflexivity | exact Hsr | intros k0 ->; left; apply (Hcr k0); [lia | reflexivity | reflexivity]]);
    intros y; cbn [waiting set_pc set_t set_thr]; rewrite F4; reflexivity.
  - (* UsEval *)
    destruct (u_rest u) as [|p tl0] eqn:Er; [crashC w t Hs Hlen Ht 7|]. destruct (wcond w p) as [[f a]|] eqn:Ec; [| crashC w t Hs Hlen Ht 7].
    intros HI' HN' Hoth.
    match goal with |- context [after_inner ?w2 m ?r0] => remember r0 as r eqn:Er0;
      assert (Hr : r = InPc (RmLoad (KScan m u)) \/ exists u' rr, r = inner w2 m u' rr)
        by (rewrite Er0; destruct (pst w f a); [destruct (wakeable _ u p)|]; [left; reflexivity | right; eexists _, _; reflexivity | right; eexists _, _; reflexivity]);
      clear Er0 end.
    match goal with |- context [after_inner ?w2 m r] =>
      pose proof (after_inner_wt w2 m r) as [Hw1 Hw2];
      destruct (after_inner_fields w2 m r) as (_ & _ & _ & F4 & _);
      assert (Hsr : scanres (snd (after_inner w2 m r)) /\ (forall k0, snd (after_inner w2 m r) = Crash k0 -> k0 = 5 \/ k0 = 6))
        by (destruct Hr as [-> | (u' & rr & ->)];
            [cbn [after_inner snd]; split; [exact I | intros k0 E0; discriminate E0]
            | split; [apply (after_inner_sres w2 m _ (inner_scanres _ _ _ _)) | intros k0 E0; left; apply (after_inner_inner_crash w2 m u' rr k0 E0)]]);
      destruct (after_inner w2 m r) as [w3 p'] eqn:Ea; cbn [fst snd] in *;
      eassert (HT : TS t w w2 _ _) by (ts_solve; rewrite Hlen; exact Ht)
    end.
    eassert (HT3 : TS t w (set_pc w3 t p') _ _) by (apply TS_set_pc; eapply TS_eq; [exact HT | exact Hw1 | exact Hw2]).
    pose proof (TS_get _ _ _ _ _ HT3) as Eg. destruct Hsr as [Hsr Hcr].
    eapply (scan_after n w _ t p' HCw HI' HN' Hoth); [| unfold P; rewrite Eg; reflexivity | exact Hsr | exact Hcr].
    intros y. cbn [waiting set_pc set_t set_thr]. rewrite F4. reflexivity.
  - (* UsRelLoad *) BC.
  - (* UsRelCas *) pose proof (Inv_rng n w H0) as Rw. cas_split w; [| BC].
    destruct Hok as (Hnh & lt & Hown & Hsc). cbn [scan_pc_ok spin] in Hsc. destruct Hsc as (-> & Hu & Hl).
    assert (HW : late u = MU_WLOCK -> old mod 2 = 1).
    { subst old. destruct Hown as [(E1 & E2 & E3) | (E1 & E2 & E3)]; cbn [held] in E2; rewrite Hl, E1; subst h;
        [intros _; apply (Inv_held n w t W H0); unfold get; rewrite Hs; reflexivity | discriminate]. }
    subst old. pose proof (fl_cas3 u (word w) Rw Hu HW) as F.
    assert (Sw : spin (get w t) = true) by (unfold get; rewrite Hs; reflexivity).
    assert (HfB : finB w u) by (apply (b_fin w HBw t); unfold P, get; rewrite Hs; reflexivity).
    intros HI' HN' Hoth.
    destruct (wake u) as [|q rest] eqn:Ewk; cbn [fst] in *.
    + (* nobody to wake: the scan found every queued waiter's condition false *)
      match goal with |- HC ?W0 => set (W := W0) in *; eassert (HT : TS t w W _ _) by (subst W; destruct mx; ts_solve; rewrite Hlen; exact Ht) end.
      pose proof (TS_get _ _ _ _ _ HT) as Eg.
      destruct HfB as (_ & _ & _ & _ & Hwk & Hq2 & _ & H77 & _). destruct (Hwk Ewk) as [S7 C3].
      assert (EWw : word W = nsync_mu_unlock_slow_cas3_new (word w) (late u) (set_on u) (clear_on u)) by (subst W; destruct mx; fldr; reflexivity).
      assert (EWq : queue W = queue w) by (subst W; destruct mx; fldr; reflexivity).
      assert (EWp : pst W = pst w /\ cls W = cls w /\ wcond W = wcond w /\ waiting W = waiting w) by (subst W; destruct mx; fldr; repeat split; reflexivity).
      destruct EWp as (EWp & EWc & EWwc & EWwt).
      assert (HPt : P W t = Idle \/ P W t = MwLoadW1) by (unfold P; rewrite Eg; unfold get; rewrite Hs; cbn [t_pc mw]; destruct mx; auto).
      apply (HC_intro w W t Hoth); [intros y _; left; rewrite EWwt; reflexivity | exact HCw | | | | |].
      * intros B. exfalso. rewrite EWw in B. apply (fl_clear3 _ _ _ _ F C3 B).
      * intros E _ R. exfalso. destruct R as [R | R].
        -- assert (Rw0 : runq w).
           { apply (runq_mono w W EWp); [| exact R]. intros p Hp. rewrite EWq in Hp. split; [exact Hp | rewrite EWwc; reflexivity]. }
           assert (Ew0 : etp w) by (unfold etp in *; rewrite <- EWp, <- EWc; exact E).
           destruct Rw0 as (p & Hp & Hr).
           destruct (c_t w H3 t) as ((_ & Hfin) & _). unfold get in Hfin. rewrite Hs in Hfin. cbn [t_pc] in Hfin.
           destruct (Hfin u eq_refl) as [Hf1 _]. unfold hA in Hf1. rewrite !hasA in Hf1.
           destruct (tb 7 (clear_on u)) eqn:C7.
           ++ rewrite (Hq2 (H77 S7 eq_refl)) in Hp. destruct Hp.
           ++ destruct (Hf1 S7 eq_refl) as (_ & Haf & _). rewrite (Haf Ew0 p Hp) in Hr. discriminate Hr.
        -- destruct (anyls_cases w W t Hoth R) as [A | [y Hy]]; [destruct HPt as [E0 | E0]; rewrite E0 in A; discriminate A|].
           assert (Sy : spin (get w y) = true).
           { pose proof (pc_ok_get n w y H0) as Hoky. unfold pc_ok, P in *. destruct (t_pc (get w y)); try discriminate Hy. destruct Hoky as ((_ & S & _) & _). exact S. }
           pose proof (spin_unique n w y t H0 Sy Sw) as ->. unfold P, get in Hy. rewrite Hs in Hy. discriminate Hy.
      * intros y Ny Hy. exfalso. apply (no_rel_beside_spin n w t y H0 Sw Ny Hy).
      * intros x _ Hr. destruct HPt as [E | E]; rewrite E in Hr; discriminate Hr.
      * unfold pcC. destruct HPt as [E0 | E0]; rewrite E0; exact I.
    + (* somebody to wake: t stays an agent *)
      match goal with |- HC ?W0 => set (W := W0) in *; eassert (HT : TS t w W _ _) by (subst W; ts_solve; rewrite Hlen; exact Ht) end.
      pose proof (TS_get _ _ _ _ _ HT) as Eg.
      apply (HC_agent_after n w W t HCw HI' Hoth); [intros y _; left; subst W; reflexivity | | | |].
      * unfold dag, P. rewrite Eg. apply wkne_dag. cbn [t_pc wkne]. rewrite Ewk. reflexivity.
      * right; right. intros y _ _. subst W. reflexivity.
      * intros x _ Hr. unfold P in Hr. rewrite Eg in Hr. discriminate Hr.
      * unfold pcC, P. rewrite Eg. exact I.
  - (* UsWakeStore *) destruct (wake u) as [|q rest] eqn:Ewk; [destruct mx; BC|].
    destruct Hok as (Ho & Hnh). destr_own Ho. intros HI' HN' Hoth. cbn [fst] in *.
    match goal with |- HC ?W0 => set (W := W0) in *; eassert (HT : TS t w W _ _) by (subst W; ts_solve; rewrite Hlen; exact Ht) end.
    pose proof (TS_get _ _ _ _ _ HT) as Eg.
    assert (Hwq : forall y, waiting W y = if Nat.eqb y q then false else waiting w y).
    { intros y. subst W. setters. unfold fupd. reflexivity. }
    (* the waiter just released from the wake list is an agent now *)
    assert (Dq : dag W q = true).
    { assert (Hm : member (queue w) (winfo w) q).
      { right. exists t. unfold winfo, get. rewrite Hs. unfold ipl, irl, iwk, info_of; cbn [i_sk i_wk sk_of wk_of t_pc]. rewrite Ewk. left; reflexivity. }
      destruct (a_m _ _ _ _ _ _ _ HL q Hm) as [Wq Mq]. unfold winfo, info_of in Mq; cbn [i_mq] in Mq.
      assert (Hvq : hv (MX w q) = false).
      { unfold hv, MX. destruct (mw (get w q)) as [y|] eqn:Ey; [| reflexivity]. destruct (mw_have y) eqn:Ehy; [| reflexivity].
        exfalso. pose proof (a_hv w HAw q y Ey Ehy) as K. unfold P, MX in K. rewrite Ey in K. rewrite (K Mq) in Wq. discriminate Wq. }
      unfold dag. rewrite (Hwq q), Nat.eqb_refl.
      destruct (Nat.eq_dec q t) as [->|Nq].
      - unfold P, MX. rewrite Eg. cbn [t_pc mw]. unfold get in Mq. unfold MX, get in Hvq. rewrite Hs in Mq, Hvq. cbn [t_pc mw] in Mq, Hvq.
        unfold get. rewrite Hs. cbn [mw]. apply mq_dag; [| exact Hvq]. destruct mx; [reflexivity | discriminate Mq].
      - rewrite (P_other w W t Hoth q Nq), (MX_other w W t Hoth q Nq). apply mq_dag; assumption. }
    apply (HC_intro w W t Hoth); [| exact HCw | | | | |].
    + intros y Ny. rewrite (Hwq y). destruct (Nat.eqb y q); [right | left]; reflexivity.
    + intros _. left. exists q. exact Dq.
    + intros _ _ _. left. exists q. left. exact Dq.
    + intros y _ _. subst W. reflexivity.
    + intros x _ Hr. unfold P in Hr. rewrite Eg in Hr. discriminate Hr.
    + unfold pcC, P. rewrite Eg. exact I.
  - (* UsWakeV *) destruct (wake u) as [|q rest] eqn:Ewk; destruct mx; BC.
  - (* SetC *) destruct Hok as (Ho & ->). destr_own Ho. BH.
  - (* MwLoad *) destruct Hok as (-> & -> & Hh & Hm). destruct h as [h|]; [| congruence]. destruct mx as [x|]; [| congruence].
    destruct (band (word w) MU_ANY_LOCK =? 0); [BH|].
    match goal with |- context [mw_cond (get_mw ?ww t)] =>
      assert (get_mw ww t = mk_mw (if negb (band (word w) MU_RHELD_IF_NON_ZERO =? 0) then R else W) (mw_cond x) (mw_eq x) (mw_dl x) (mw_canc x) (mw_first x) (mw_rc x) (mw_hadw x)
                                  (mw_semout x) (mw_have x) (mw_outcome x) (mw_tmo x) (mw_ent x)) as Eg0
        by (erewrite (TS_get_mw t w); [| ts_solve; rewrite Hlen; exact Ht]; unfold get; rewrite Hs; reflexivity);
      rewrite Eg0 end.
    cbn [mw_cond]. destruct (mw_cond x) eqn:Emc; [BH|].
    unfold mw_after_eval. rewrite Eg0. cbn [mw_outcome mw_mode mw_cond mw_eq]. destruct (nsync_mu_wait_with_deadline_store1_guard _ _); BH.
  - (* MwEval *) unfold in_mw in Hok; cbn [mw] in Hok; destruct Hok as (x & -> & Ho); destr_own Ho. unfold get_mw, get. rewrite Hs. cbn [mw].
    destruct (mw_cond x) as [[f a]|] eqn:Emc; unfold mw_after_eval;
      (match goal with |- context [get_mw ?ww t] =>
         assert (get_mw ww t = x) as Eg0 by (unfold get_mw, get; cbn [thr log_eval add_ev]; rewrite Hs; reflexivity); rewrite Eg0 end);
      destruct (nsync_mu_wait_with_deadline_store1_guard _ _); BH.
  - (* MwStoreWaiting *) unfold in_mw in Hok; cbn [mw] in Hok; destruct Hok as (x & -> & Ho); destr_own Ho. BH.
  - (* MwRcLoad *) mwsome Hok mx. BC.
  - (* MwRelLoad *) mwsome Hok mx. unfold get_mw, get. rewrite Hs. cbn [mw]. BC.
    intros x0 E0; injection E0 as <-; reflexivity.
  - (* MwRelCas *) unfold in_mw in Hok; cbn [mw] in Hok. destruct Hok as (x & Hx & Ho & Hhv & Hadd). subst mx. destr_own Ho.
    pose proof (Inv_rng n w H0) as Rw.
    assert (Hv : match mw_mode x with W => word w mod 2 = 1 /\ word w / 256 = 0 | R => 1 <= word w / 256 /\ word w mod 2 = 0 end)
      by (apply (Inv_held n w t (mw_mode x) H0); unfold get; rewrite Hs; reflexivity).
    assert (Hv' : match mw_mode x with W => word w mod 2 = 1 | R => 1 <= word w / 256 end) by (destruct (mw_mode x); tauto).
    assert (Hpc : add = (if (band (wrap_u 32 (old - lt_add_to_acquire (lt_of (mw_mode x)))) MU_ANY_LOCK =? 0) && mw_hadw x &&
                            (band old MU_DESIG_WAKER =? 0) then 0 else lt_add_to_acquire (lt_of (mw_mode x))))
      by (pose proof (c_pc w HCw t) as K; unfold pcC, P, MX, get in K; rewrite Hs in K; apply (K x eq_refl)).
    assert (Sw : spin (get w t) = true) by (unfold get; rewrite Hs; reflexivity).
    cas_split w; [| BC]. subst old. pose proof (fl_mw_cas1 (mw_mode x) (word w) add Rw Hv' Hadd) as F.
    destruct (add =? 0) eqn:Ea0.
    + match goal with |- context [mw_mode (get_mw ?ww t)] =>
        assert (get_mw ww t = x) as Eg0 by (erewrite (TS_get_mw t w); [| ts_solve; rewrite Hlen; exact Ht]; unfold get; rewrite Hs; reflexivity);
        rewrite Eg0 end.
      BHw ltac:(apply (fl_keep3 _ _ _ F)).
    + (* the mutex is released without a scan: the caller is alone on the queue, or a designated waker exists *)
      assert (Ea : add = lt_add_to_acquire (lt_of (mw_mode x))) by (destruct Hadd as [-> | ->]; [discriminate Ea0 | reflexivity]).
      intros HI' HN' Hoth. cbn [fst] in *.
      match goal with |- HC ?W0 => set (W := W0) in *; eassert (HT : TS t w W _ _) by (subst W; ts_solve; rewrite Hlen; exact Ht) end.
      pose proof (TS_get _ _ _ _ _ HT) as Eg.
      assert (EWw : word W = nsync_mu_wait_with_deadline_cas1_new (word w) add) by (subst W; reflexivity).
      assert (Dm : dag w t = true -> dag W t = true).
      { unfold dag, P, MX. rewrite Eg. unfold get. rewrite Hs. subst W. cbn [t_pc mw waiting set_pc set_t set_thr released set_held set_own set_spin set_word].
        unfold dagb. cbn. intros A; exact A. }
      apply (HC_intro w W t Hoth); [intros y _; left; subst W; reflexivity | exact HCw | | | | |].
      * intros B. right; right. split; [rewrite EWw in B; apply (fl_keep3 _ _ _ F B) | exact Dm].
      * intros E Fr R. rewrite EWw, Ea in Fr.
        assert (Tst : (band (wrap_u 32 (word w - lt_add_to_acquire (lt_of (mw_mode x)))) MU_ANY_LOCK =? 0) = true).
        { apply mw_free_after; [exact Rw | exact Hv|]. destruct (mw_mode x).
          - destruct Hv as [Hv1 Hv2]. change (lt_add_to_acquire (lt_of MuWaitModel.W)) with 1. destruct (sub1_v (word w) Rw Hv1) as (_ & A & _ & B). split; lia.
          - destruct Hv as [Hv1 Hv2]. apply (free_mw_cas1_R (word w) Rw Hv1 Hv2) in Fr.
            change (lt_add_to_acquire (lt_of MuWaitModel.R)) with 256. destruct (sub256_v (word w) Rw Hv1) as (_ & A & _ & B). split; lia. }
        rewrite Tst in Hpc. cbn [andb] in Hpc. rewrite desig_clear in Hpc.
        destruct (mw_hadw x) eqn:Ehw.
        -- destruct (tb 3 (word w)) eqn:B3; [| cbn in Hpc; rewrite Hpc in Ea0; discriminate Ea0].
           destruct (c_dw w HCw B3) as [a Ha]. destruct (Nat.eq_dec a t) as [->|Na].
           ++ left. exists t. left. apply Dm. exact Ha.
           ++ right; left. exists a. split; [exact Na | left; exact Ha].
        -- exfalso. pose proof (c_rel w HCw t x ltac:(unfold MX, get; rewrite Hs; reflexivity) ltac:(unfold P, get; rewrite Hs; reflexivity) Ehw) as Hq.
           destruct R as [(p & Hp & Hr) | R].
           ++ assert (EWq : queue W = queue w) by (subst W; reflexivity). rewrite EWq, Hq in Hp. destruct Hp as [<- | []].
              assert (Ho' : wtrue (wcond w) (pst w) t = false) by (apply (a_own w HAw t); unfold P, get; rewrite Hs; reflexivity).
              subst W. cbn [wcond pst set_pc set_t set_thr released set_held set_own set_spin set_word] in Hr. congruence.
           ++ destruct (anyls_cases w W t Hoth R) as [A | [y Hy]]; [unfold P in A; rewrite Eg in A; discriminate A|].
              assert (Sy : spin (get w y) = true).
              { pose proof (pc_ok_get n w y H0) as Hoky. unfold pc_ok, P in *. destruct (t_pc (get w y)); try discriminate Hy. destruct Hoky as ((_ & S & _) & _). exact S. }
              pose proof (spin_unique n w y t H0 Sy Sw) as ->. unfold P, get in Hy. rewrite Hs in Hy. discriminate Hy.
      * intros y Ny Hy. exfalso. apply (no_rel_beside_spin n w t y H0 Sw Ny Hy).
      * intros x0 _ Hr. unfold P in Hr. rewrite Eg in Hr. discriminate Hr.
      * unfold pcC, P. rewrite Eg. exact I.
  - (* MwLoadW1 *) mwsome Hok mx. unfold get_mw, get. rewrite Hs. cbn [mw].
    destruct (waiting w t) eqn:Ew.
    + destruct (mw_semout x =? 0); BC.
    + destruct (mw_have x) eqn:Eh; BC.
  - (* MwSemP *) mwsome Hok mx. unfold get_mw, get. rewrite Hs. cbn [mw]. destruct c.
    + destruct (0 <? sem w t); [BC | noopC].
    + destruct (mw_dl x) as [d|]; [| noopC]. destruct (d <=? clock w); [BC | noopC].
    + destruct (mw_canc x && note w); [BC | noopC].
  - (* MwLoadW2 *) mwsome Hok mx. destruct (waiting w t); BC.
  - (* MwLoadW3 *) mwsome Hok mx. BC.
  - (* MtLoad *) mwsome Hok mx. destruct (mu_try_acquire_after_timeout_or_cancel_cas1_guard (word w)) eqn:G1;
      [| destruct (mu_try_acquire_after_timeout_or_cancel_cas2_guard (word w)) eqn:G2]; BC.
  - (* MtCas1 *) unfold mt_pre, in_mw in Hok; cbn [mw] in Hok. destruct Hok as ((x & Hx & Ho & _) & G). subst mx. destr_own Ho.
    pose proof (Inv_rng n w H0) as Rw. cas_split w; [| destruct (mu_try_acquire_after_timeout_or_cancel_cas2_guard old) eqn:G2; BC]. subst old.
    BHw ltac:(apply (fl_keep3 _ _ _ (fl_mt_cas1 (word w) (mt_cas1_guard_facts _ Rw G)))).
  - (* MtCas2 *) mwsome Hok mx. pose proof (Inv_rng n w H0) as Rw. cas_split w; [| BC]. subst old.
    BCw ltac:(apply (fl_keep3' _ _ _ _ (fl_mt_cas2 (word w) Rw)); reflexivity) ltac:(apply (proj1 (free_mt_cas2 (word w) Rw))).
  - (* MtLoadW *) mwsome Hok mx. destruct (waiting w t); BC.
  - (* MtLoadRc *) mwsome Hok mx. unfold get_mw, get. rewrite Hs. cbn [mw]. destruct (mw_rc x =? rcount w t); BC.
  - (* MtStoreW *) unfold try_frozen, in_mw in Hok; cbn [mw] in Hok; destruct Hok as ((x & -> & Ho & _) & _); destr_own Ho. BH.
  - (* MtStore2 *) unfold try_frozen, in_mw in Hok; cbn [mw] in Hok. destruct Hok as ((x & Hx & Ho & _) & Hto). subst mx. destr_own Ho.
    assert (Ewf : word w = mu_try_acquire_after_timeout_or_cancel_cas1_new old) by (apply (HFr t old); unfold get; rewrite Hs; reflexivity).
    unfold get_mw, get. rewrite Hs. cbn [mw].
    BHw ltac:(rewrite Ewf; apply (fl_keep3 _ _ _ (fl_mt_store2 old (mw_mode x) Hto))).
  - (* MtStore3 *) unfold try_frozen, in_mw in Hok; cbn [mw] in Hok. destruct Hok as ((x & Hx & Ho & Hhv & _) & Hto). subst mx. destr_own Ho.
    assert (Ewf : word w = mu_try_acquire_after_timeout_or_cancel_cas1_new old) by (apply (HFr t old); unfold get; rewrite Hs; reflexivity).
    assert (Sw : spin (get w t) = true) by (unfold get; rewrite Hs; reflexivity).
    pose proof (fl_mt_store3 old Hto) as F. rewrite <- Ewf in F.
    intros HI' HN' Hoth. cbn [fst] in *.
    match goal with |- HC ?W0 => set (W0' := W0) in *; eassert (HT : TS t w W0' _ _) by (subst W0'; ts_solve; rewrite Hlen; exact Ht) end.
    pose proof (TS_get _ _ _ _ _ HT) as Eg.
    assert (EWw : word W0' = mu_try_acquire_after_timeout_or_cancel_store3_new old) by (subst W0'; reflexivity).
    assert (EWwt : waiting W0' = waiting w) by (subst W0'; reflexivity).
    assert (Dt : dag W0' t = negb (waiting w t)).
    { unfold dag, P, MX. rewrite Eg, EWwt. unfold get. rewrite Hs. cbn [t_pc mw]. unfold dagb. cbn [scl sk_of wkne lsd mq_of us_pc mwb hv]. rewrite Hhv. cbn. destruct (waiting w t); reflexivity. }
    assert (Dw : dag w t = negb (waiting w t)).
    { unfold dag, P, MX, get. rewrite Hs. cbn [t_pc mw]. unfold dagb. cbn [scl sk_of wkne lsd mq_of us_pc mwb hv]. rewrite Hhv. cbn. destruct (waiting w t); reflexivity. }
    apply (HC_intro w W0' t Hoth); [intros y _; left; rewrite EWwt; reflexivity | exact HCw | | | | |].
    + intros B. right; right. split; [rewrite EWw in B; apply (fl_keep3 _ _ _ F B) | rewrite Dt, Dw; auto].
    + intros _ _ _. destruct (waiting w t) eqn:Ewt.
      * (* the remove_count changed under t: somebody has t on a wake list *)
        right; left.
        assert (Hrc : rcount w t <> mw_rc x) by (apply (a_f1 w HAw t x old); [unfold P, get; rewrite Hs; reflexivity | unfold MX, get; rewrite Hs; reflexivity | exact Ewt]).
        assert (Hnr : ~ inring (queue w) (winfo w) t).
        { intros Hr. apply Hrc. apply (a_i3 _ _ _ _ _ _ _ HL t (mw_rc x)); [unfold winfo, get; rewrite Hs; reflexivity | exact Hr]. }
        assert (Hm : member (queue w) (winfo w) t) by (apply (a_mem w HAw t); [unfold P, MX, get; rewrite Hs; reflexivity | exact Ewt]).
        destruct Hm as [Hq | [t' Ht']]; [exfalso; apply Hnr; left; exact Hq|].
        unfold ipl in Ht'. apply in_app_or in Ht'. destruct Ht' as [Ht' | Ht']; [exfalso; apply Hnr; right; exists t'; exact Ht'|].
        exists t'. split.
        -- intros ->. unfold winfo, get in Ht'. rewrite Hs in Ht'. destruct Ht'.
        -- left. unfold dag, P, MX. apply (ipl_dag _ _ _ t). unfold ipl. apply in_or_app. right. exact Ht'.
      * left. exists t. left. rewrite Dt. reflexivity.
    + intros y Ny Hy. exfalso. apply (no_rel_beside_spin n w t y H0 Sw Ny Hy).
    + intros x0 _ Hr. unfold P in Hr. rewrite Eg in Hr. discriminate Hr.
    + unfold pcC, P. rewrite Eg. exact I.
  - (* Crash *) noopC.
Qed.
End StepC.

Print Assumptions HC_step_thr.
