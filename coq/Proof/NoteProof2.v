(* NoteProof2: the locking discipline of NoteModel (ownership of note_mu's, tree consistency, the disconnecting counts, the
   client contract) and the lemmas behind Properties_C09.v.  Continues Proof/NoteProof.v. *)
From Coq Require Import String.
From NsyncBase Require Import CSem.
From NsyncGen Require Import Consts Sites.
From NsyncModel Require Import NoteModel.
From NsyncProof Require Import NoteProof.
From Coq Require Import List ZArith Bool Lia Arith.
Import ListNotations.
Local Open Scope Z_scope.

(* ------------------------------------------------------------------------------------------------ *)
(* Lock ownership: which note_mu's a frame holds at each program point *)
Definition opt_list (p : option nat) : list nat := match p with Some x => [x] | None => [] end.
Definition owns (f : frame) : list nat :=
  match f with
  | FD n s => match s with D3 | D4 _ => [n] | _ => [] end
  | FN n s par _ => match s with
                    | N2 | N4 | N5 | N6 | N11 => [n]
                    | N8 | N9 => opt_list par
                    | N10 => n :: opt_list par
                    | N1 | N3 | N7 => []
                    end
  | FC n par s => match s with C8 => [] | C6 c _ _ => [n; c] | _ => [n] end
  | FF n s par => match s with
                  | F1 | Fw2 | F4 | F13 => []
                  | Fw1 | F2 | F3 | F12 => [n]
                  | F5 | F10 _ => opt_list par
                  | F6 _ _ | FR _ _ | F9 | F11 => n :: opt_list par
                  | F7 c _ | F8 c _ _ => n :: c :: opt_list par
                  end
  | ANew _ _ s => match s with W3 _ p _ | W4 _ p => [p] | _ => [] end
  | AWait n _ s => match s with E2 | E3 | E4 | E5 | Q2 | Q3 | Q4 _ => [n] | _ => [] end
  | _ => []
  end.
Definition owned (w : world) (t : nat) : list nat := flat_map owns (stk w t).
Record InvH (w : world) : Prop := mk_InvH {
  ih_own : forall t x, In x (owned w t) <-> lock (nt w x) = Some t;
  ih_nodup : forall t, NoDup (owned w t);
  ih_bound : forall t x, In x (owned w t) -> (x < nnext w)%nat }.

Lemma lock_free_none w n : lock_free w n = true -> lock (nt w n) = None.
Proof. unfold lock_free. destruct (lock (nt w n)); [discriminate|reflexivity]. Qed.
Ltac lf_tac :=
  repeat match goal with H : _ && _ = true |- _ => apply andb_prop in H; destruct H end;
  match goal with H : lock_free ?w ?n = true |- _ => exact (lock_free_none w n H) end.
(* how a step changes the locks *)
Lemma step1_lock w t c x :
  lock (nt (fst (step1 w t c)) x) = lock (nt w x) \/
  (lock (nt w x) = None /\ lock (nt (fst (step1 w t c)) x) = Some t) \/
  (lock (nt (fst (step1 w t c)) x) = None).
Proof.
  leaves.
  all: nsimpl.
  all: auto.
  all: right; left; split; [lf_tac | reflexivity].
Qed.
Lemma step1_unlock w t c x :
  lock (nt (fst (step1 w t c)) x) = lock (nt w x) \/ (x = nnext w /\ lock (nt (fst (step1 w t c)) x) = None) \/
  (lock (nt w x) = None /\ lock (nt (fst (step1 w t c)) x) = Some t) \/
  (In x (owned w t) /\ lock (nt (fst (step1 w t c)) x) = None).
Proof.
  unfold owned, stk. leaves.
  all: nsimpl.
  all: auto.
  all: try solve [right; right; left; split; [lf_tac | reflexivity]].
  all: try solve [right; right; right; split; [cbn [flat_map owns opt_list app In]; auto 6|reflexivity]].
Qed.

Ltac nodup_norm :=
  repeat match goal with
         | H : NoDup (_ :: _) |- _ => apply NoDup_cons_iff in H; destruct H
         | |- NoDup (_ :: _) => apply NoDup_cons_iff; split
         end.

Lemma step1_nnext_le w t c : (nnext w <= nnext (fst (step1 w t c)))%nat.
Proof. apply (x_next _ _ _ (step1_ext w t c)). Qed.

Lemma step1_owned w t c :
  InvA w ->
  (forall x, In x (owned w t) <-> lock (nt w x) = Some t) -> NoDup (owned w t) ->
  (forall x, In x (owned w t) -> (x < nnext w)%nat) ->
  (forall x, In x (owned (fst (step1 w t c)) t) <-> lock (nt (fst (step1 w t c)) x) = Some t) /\
  NoDup (owned (fst (step1 w t c)) t) /\
  (forall x, In x (owned (fst (step1 w t c)) t) -> (x < nnext (fst (step1 w t c)))%nat).
Proof.
  intros I. pose proof (ia_shape w I t) as Sh. pose proof (ia_fok w I t) as Fk.
  pose proof (step1_nnext_le w t c) as Hnx.
  remember (fst (step1 w t c)) as w' eqn:Hw'. revert Hw'. unfold owned in *. unfold stk in Sh, Fk |- * at 1 2 3.
  leaves.
  all: intros ->; cbn [fst] in *.
  all: try (intros Ho Hd Hb; unfold stk; rewrite Hst; auto).
  all: bottom_nil Sh.
  all: rets Sh.
  all: rewrite ?stk_setst, ?stk_finish.
  all: try (pose proof (Fk _ (or_introl eq_refl)) as F0; cbn [fok] in F0).
  all: try (pose proof (Fk _ (or_intror (or_introl eq_refl))) as F1; cbn [fok] in F1).
  all: cbn [flat_map owns opt_list app] in *.
  all: intros Ho Hd Hb.
  all: repeat match goal with H : _ && _ = true |- _ => apply andb_prop in H; destruct H end.
  all: repeat match goal with H : lock_free ?w ?n = true |- _ => apply lock_free_none in H end.
  all: unfold nt in *.
  all: split; [|split].
  (* ownership is exact *)
  all: try (let y := fresh "y" in let Hy := fresh "Hy" in intros y; pose proof (Ho y) as Hy; nodup_norm; nsimpl; cbn [In] in *;
            solve [intuition (subst; try congruence; auto)]).
  (* no lock is held twice *)
  all: try exact Hd.
  all: try solve [nodup_norm; cbn [In] in *; repeat split; auto; try tauto;
                  try (let Hin := fresh in intros Hin;
                       match goal with |- False => idtac end;
                       repeat match goal with Hq : _ \/ _ |- _ => destruct Hq end; subst; try tauto; try congruence;
                       match goal with Hn : lock (notes _ ?c) = None |- _ =>
                         assert (lock (notes w c) = Some t) by (apply Ho; cbn [In]; tauto); congruence end)].
  (* owned notes are allocated *)
  all: try solve [let y := fresh "y" in let Hy := fresh "Hy" in intros y Hy; cbn [In] in *;
                  destr_ex; repeat match goal with F : child_ok _ _ _ _ |- _ => destruct F as (? & ? & ?) end; destr_ex;
                  repeat match goal with Hq : _ \/ _ |- _ => destruct Hq end; subst; try contradiction;
                  try (match goal with F : forall q, Some ?p = Some q -> _ /\ _ |- _ => destruct (F p eq_refl) end);
                  try (match goal with F : forall q, Some ?p = Some q -> (_ < _)%nat |- _ => pose proof (F p eq_refl) end);
                  first [ lia | (assert (y < nnext w)%nat by (apply Hb; cbn [In]; tauto); lia) ] ].
Qed.

Lemma InvH_step1 w t c : InvA w -> InvH w -> InvH (fst (step1 w t c)).
Proof.
  intros I [Ho Hd Hb]. set (w' := fst (step1 w t c)).
  pose proof (step1_ext w t c) as E. fold w' in E.
  destruct (step1_owned w t c I (Ho t) (Hd t) (Hb t)) as (Ho' & Hd' & Hb'). fold w' in Ho', Hd', Hb'.
  pose proof (x_next _ _ _ E) as Hnx.
  split.
  - intros t' x. destruct (Nat.eq_dec t' t) as [->|Ht]; [apply Ho'|].
    unfold owned. rewrite (stk_other _ _ _ _ E Ht). fold (owned w t'). rewrite Ho.
    destruct (step1_unlock w t c x) as [Eq|[[H1 H2]|[[H1 H2]|[H1 H2]]]]; try fold w' in Eq; try fold w' in H2.
    + rewrite Eq. tauto.
    + rewrite H2. split; [|discriminate]. intros H. apply Ho, Hb in H. lia.
    + rewrite H1, H2. split; intros H; inversion H; congruence.
    + apply Ho in H1. rewrite H1, H2. split; intros H; inversion H; congruence.
  - intros t'. destruct (Nat.eq_dec t' t) as [->|Ht]; [apply Hd'|].
    unfold owned. rewrite (stk_other _ _ _ _ E Ht). apply Hd.
  - intros t' x. destruct (Nat.eq_dec t' t) as [->|Ht]; [apply Hb'|].
    unfold owned. rewrite (stk_other _ _ _ _ E Ht). intros H. apply Hb in H. lia.
Qed.

(* what begin_call does to the thread's stack *)
Definition init_stack (o : op) : list frame :=
  match o with
  | ONew p dl => [ANew p dl W1] | ONotify m => [FD m D1; ANotify m] | OIsNotified m => [FD m D1; AIs m]
  | OWait m dl => [FD m D1; AWait m dl WReady] | OExpiry m => [AExp m] | OFree m => [FF m F1 None]
  end.
Lemma begin_stack w t :
  stk (begin_call w t) t = stk w t \/ (stk w t = [] /\ stk (begin_call w t) t = []) \/
  (stk w t = [] /\ exists o rest, prog (thr w t) = o :: rest /\ stk (begin_call w t) t = init_stack o /\
                    (forall n, op_note o = Some n -> (n < nnext w)%nat)).
Proof.
  unfold begin_call, get, stk.
  destruct (stack (thr w t)) eqn:Hs; [|left; now rewrite Hs].
  destruct (prog (thr w t)) as [|o rest] eqn:Hp; [left; now rewrite Hs|].
  destruct (op_note o) as [n|] eqn:Hop.
  - destruct (Nat.ltb_spec n (nnext w)).
    + right; right. split; auto. exists o, rest. cbn. rewrite fupd_same. cbn. split; [reflexivity|]. split.
      * destruct o; reflexivity.
      * intros n' E. rewrite Hop in E. inversion E; subst; auto.
    + right; left. cbn. rewrite fupd_same. auto.
  - destruct o; try discriminate Hop. destruct par; try discriminate Hop.
    right; right. split; auto. do 2 eexists. cbn. rewrite fupd_same. cbn. split; [reflexivity|]. split; [reflexivity|]. intros; discriminate.
Qed.
Lemma owns_init o : flat_map owns (init_stack o) = [].
Proof. destruct o; reflexivity. Qed.
Lemma InvH_begin w t : InvH w -> InvH (begin_call w t).
Proof.
  intros [Ho Hd Hb]. pose proof (tonly_begin t w) as T.
  assert (forall x, nt (begin_call w t) x = nt w x) as N by (intros; unfold nt; now rewrite (to_notes _ _ _ T)).
  assert (forall t', owned (begin_call w t) t' = owned w t') as O.
  { intros t'. unfold owned. destruct (Nat.eq_dec t' t) as [->|Ht].
    - destruct (begin_stack w t) as [E|[[E1 E2]|(E1 & o & rest & _ & E2 & _)]]; rewrite ?E, ?E1, ?E2; auto.
      rewrite owns_init. reflexivity.
    - destruct (to_thr _ _ _ T t' Ht) as (E & _). unfold stk. rewrite E. reflexivity. }
  split.
  - intros t' x. rewrite O, N. apply Ho.
  - intros t'. rewrite O. apply Hd.
  - intros t' x. rewrite O, (to_next _ _ _ T). apply Hb.
Qed.
Lemma InvH_tick w d : InvH w -> InvH (tick w d).
Proof. intros [Ho Hd Hb]. split; auto. Qed.
Lemma InvH_init c0 progs : InvH (init c0 progs).
Proof.
  assert (forall t, owned (init c0 progs) t = []) as S.
  { intros t. unfold owned, stk, init. cbn. destruct (nth_in_or_default t (map (fun p => mk_t [] p [] 0 O false) progs) dflt) as [H|H].
    - apply in_map_iff in H. destruct H as (p & <- & _). reflexivity.
    - rewrite H. reflexivity. }
  split.
  - intros t x. rewrite S. cbn. split; [tauto|discriminate].
  - intros t. rewrite S. constructor.
  - intros t x. rewrite S. intros [].
Qed.
(* InvA and InvH together *)
Definition InvAH (w : world) : Prop := InvA w /\ InvH w.
Lemma InvAH_exec w a : InvAH w -> InvAH (exec w a).
Proof.
  intros [I H]. split; [apply InvA_exec, I|].
  destruct a as [t c|d]; cbn [exec]; [|apply InvH_tick, H].
  rewrite step_step1. apply InvH_step1; [apply InvA_begin, I|apply InvH_begin, H].
Qed.
Lemma InvAH_run sched : forall w, InvAH w -> InvAH (run w sched).
Proof. induction sched as [|a r IH]; intros w I; cbn; auto. apply IH, InvAH_exec, I. Qed.
Theorem InvAH_reachable w : reachable w -> InvAH w.
Proof. intros (c0 & progs & sched & H0 & ->). apply InvAH_run. split; [apply InvA_init, H0|apply InvH_init]. Qed.

(* ------------------------------------------------------------------------------------------------ *)
(* Guard: the lock-protected fields of a note change only under its lock (or in nsync_note_new's link step, for the note
   under construction, or for a fresh note) *)
Definition prot_same (x y : note) : Prop :=
  parent x = parent y /\ children x = children y /\ disc x = disc y /\ waiters x = waiters y /\ adoptions x = adoptions y.
Lemma step1_guard w t c x :
  shape (stk w t) ->
  prot_same (nt (fst (step1 w t c)) x) (nt w x) \/ In x (owned w t) \/
  lock (nt w x) = None /\ lock (nt (fst (step1 w t c)) x) = Some t
  \/ (exists par dl p e, top w t = Some (ANew par dl (W3 x p e))) \/ x = nnext w.
Proof.
  intros Sh. unfold top, owned, prot_same. unfold stk in *.
  remember (fst (step1 w t c)) as w' eqn:Hw'. revert Hw'.
  leaves.
  all: intros ->; cbn [fst] in *.
  all: try solve [left; repeat split; reflexivity].
  all: bottom_nil Sh.
  all: rets Sh.
  all: repeat match goal with H : Some _ = Some _ |- _ => injection H as H; try subst end.
  all: repeat match goal with H : _ && _ = true |- _ => apply andb_prop in H; destruct H end.
  all: repeat match goal with H : lock_free ?w ?n = true |- _ => apply lock_free_none in H end.
  all: unfold nt in *.
  all: nsimpl.
  all: try solve [left; repeat split; reflexivity].
  all: try solve [right; left; cbn [flat_map owns opt_list app In]; auto 8].
  all: try solve [right; right; left; split; [assumption | reflexivity]].
  all: try solve [do 3 right; left; cbn [hd_error]; eauto].
  all: do 4 right; reflexivity.
Qed.

(* who can change a parent pointer that is set *)
Lemma step1_unlink w t c n p :
  parent (nt w n) = Some p -> parent (nt (fst (step1 w t c)) n) <> Some p ->
  (exists par s, top w t = Some (FC n par s)) \/ (exists s par, top w t = Some (FF n s par)) \/
  (exists m nx par, top w t = Some (FF m (F6 n nx) par) /\ disc (nt w n) = 0%nat) \/
  (exists m nx par, top w t = Some (FF m (F7 n nx) par)) \/ n = nnext w \/
  (exists par dl p' e, top w t = Some (ANew par dl (W3 n p' e))).
Proof.
  unfold top, stk.
  leaves.
  all: nsimpl.
  all: try solve [intros H1 H2; exfalso; apply H2; exact H1].
  all: intros _ _; cbn [hd_error].
  all: try solve [left; eauto].
  all: try solve [right; left; eauto].
  all: try solve [do 3 right; left; eauto].
  all: try solve [do 4 right; left; reflexivity].
  all: try solve [do 5 right; eauto].
  all: try solve [do 2 right; left; do 3 eexists; split; [reflexivity|];
                  match goal with H : (disc _ =? 0)%nat = true |- _ => apply Nat.eqb_eq in H; revert H; nsimpl; auto end].
Qed.

Lemma remove_nat_other n m l : n <> m -> In n l -> In n (remove_nat m l).
Proof.
  intros Hne. induction l as [|a r IH]; cbn; [tauto|].
  destruct (Nat.eqb_spec a m); intros [H|H]; subst; cbn; auto; try congruence.
Qed.
(* who can remove a child from a children list *)
Lemma step1_child_removed w t c n p :
  In n (children (nt w p)) -> ~ In n (children (nt (fst (step1 w t c)) p)) ->
  (exists par s, top w t = Some (FC n par s)) \/ (exists s par, top w t = Some (FF n s par)) \/
  (exists nx par, top w t = Some (FF p (F6 n nx) par) /\ disc (nt w n) = 0%nat) \/
  (exists nx par, top w t = Some (FF p (F7 n nx) par)) \/ p = nnext w.
Proof.
  unfold top, stk.
  leaves.
  all: nsimpl.
  all: try solve [intros H1 H2; exfalso; apply H2; exact H1].
  all: try solve [intros H1 H2; exfalso; apply H2; apply in_or_app; left; exact H1].
  all: try solve [intros H1 H2; exfalso; exact H1].
  all: try solve [intros H1 H2; exfalso; apply H2; apply in_or_app;
                  match goal with |- In ?a (remove_nat ?b _) \/ _ => destruct (Nat.eq_dec a b); [right; subst; left; reflexivity | left; apply remove_nat_other; auto] end].
  all: try (intros H1 H2;
            match type of H2 with ~ In ?a (remove_nat ?b _) =>
              assert (a = b) by (destruct (Nat.eq_dec a b); auto; exfalso; apply H2; apply remove_nat_other; auto); subst end;
            cbn [hd_error]).
  all: try solve [left; eauto].
  all: try solve [right; left; eauto].
  all: try solve [do 3 right; left; eauto].
  all: try solve [do 4 right; reflexivity].
  all: try solve [do 2 right; left; do 2 eexists; split; [reflexivity|];
                  match goal with H : (disc _ =? 0)%nat = true |- _ => apply Nat.eqb_eq in H; revert H; nsimpl; auto end].
Qed.

(* ------------------------------------------------------------------------------------------------ *)
(* The disconnecting counts: which frames have incremented note x's count and not yet decremented it *)
Definition in_disc (s : fstg) : bool := match s with F1 | Fw1 | Fw2 | F13 => false | _ => true end.
Definition b2n (b : bool) : nat := if b then 1%nat else 0%nat.
Definition ncontrib (f : frame) (x : nat) : nat :=
  match f with
  | FN n _ _ inc => b2n (inc && Nat.eqb n x)
  | FC _ _ s => match s with CR c _ | C6 c _ true => b2n (Nat.eqb c x) | _ => 0%nat end
  | FF n s _ => (b2n (in_disc s && Nat.eqb n x) + match s with FR c _ | F8 c _ true => b2n (Nat.eqb c x) | _ => 0%nat end)%nat
  | _ => 0%nat
  end.
Definition scount (st : list frame) (x : nat) : nat := list_sum (map (fun f => ncontrib f x) st).
Definition tcount (w : world) (t x : nat) : nat := scount (stk w t) x.

Definition dfact (w : world) (f : frame) : Prop :=
  match f with
  | FN n s _ inc => (inc = true -> s <> N1 /\ s <> N2 /\ s <> N3 /\ s <> N4) /\ (s = N4 -> disc (nt w n) = 0%nat)
  | FF _ (F7 c _) _ => disc (nt w c) = 0%nat
  | _ => True
  end.
Lemma step1_disc w t c x :
  shape (stk w t) -> (tcount w t x <= disc (nt w x))%nat -> (x < nnext w)%nat ->
  (forall f, In f (stk w t) -> dfact w f) ->
  (disc (nt (fst (step1 w t c)) x) + tcount w t x = disc (nt w x) + tcount (fst (step1 w t c)) t x)%nat /\
  ((tcount w t x < tcount (fst (step1 w t c)) t x)%nat -> disc (nt w x) = 0%nat).
Proof.
  intros Sh. unfold tcount, scount. unfold stk in Sh.
  remember (fst (step1 w t c)) as w' eqn:Hw'. revert Hw'.
  leaves.
  all: intros ->; cbn [fst] in *.
  all: change (stk w t) with (stack (thr w t)); rewrite Hst.
  all: try (intros; split; [reflexivity | lia]).
  all: bottom_nil Sh.
  all: rets Sh.
  all: repeat match goal with H : Some _ = Some _ |- _ => injection H as H; try subst end.
  all: rewrite ?stk_setst, ?stk_finish.
  all: cbn [map list_sum fold_right ncontrib in_disc b2n andb].
  all: intros Hle Hx Hinc.
  all: try (specialize (Hinc _ (or_introl eq_refl)); cbn [dfact] in Hinc).
  all: try match goal with inc : bool |- _ => destruct inc; [exfalso; destruct Hinc as [Hi ?]; destruct (Hi eq_refl) as (? & ? & ? & ?); congruence|] end.
  all: try match goal with H : _ /\ (N4 = N4 -> _) |- _ => destruct H as [_ H]; specialize (H eq_refl) end.
  all: repeat match goal with H : _ && _ = true |- _ => apply andb_prop in H; destruct H end.
  all: repeat match goal with H : (disc _ =? 0)%nat = true |- _ => apply Nat.eqb_eq in H end.
  all: repeat match goal with H : not_disconnecting _ _ = true |- _ => unfold not_disconnecting in H; apply Nat.eqb_eq in H end.
  all: unfold nt in *.
  all: repeat match goal with H : disc _ = 0%nat |- _ => revert H end.
  all: nsimpl; intros.
  all: repeat match goal with H : context [Nat.eqb ?a ?b] |- _ => destruct (Nat.eqb_spec a b); subst; try congruence end.
  all: cbn [list_sum fold_right b2n andb] in *.
  all: try solve [split; [lia | intros; lia]].
Qed.

(* Guard, refined: whose fields change *)
Lemma step1_guard2 w t c x :
  prot_same (nt (fst (step1 w t c)) x) (nt w x) \/
  (exists f, top w t = Some f /\ (In x (owns f) \/ exists n s, f = FC n (Some x) s)) \/
  lock (nt w x) = None /\ lock (nt (fst (step1 w t c)) x) = Some t
  \/ (exists par dl p e, top w t = Some (ANew par dl (W3 x p e))) \/ x = nnext w.
Proof.
  unfold top, prot_same. unfold stk.
  leaves.
  all: repeat match goal with H : _ && _ = true |- _ => apply andb_prop in H; destruct H end.
  all: repeat match goal with H : lock_free ?w ?n = true |- _ => apply lock_free_none in H end.
  all: unfold nt in *.
  all: nsimpl.
  all: try solve [left; repeat split; reflexivity].
  all: try solve [right; left; eexists; split; [reflexivity|]; left; cbn [owns opt_list In]; auto 8].
  all: try solve [right; left; eexists; split; [reflexivity|]; right; eauto].
  all: try solve [right; right; left; split; [assumption | reflexivity]].
  all: try solve [do 3 right; left; cbn [hd_error]; eauto].
  all: try solve [do 4 right; reflexivity].
Qed.
