(* MuWaitWorld7: DEFINITIONS for the hand-off ("who wakes whom") invariant of Model/MuWaitModel.v -- the extension of
   Proof/MuProof3.v's HInv to conditional critical sections (nsync_mu_wait_with_deadline, the multi-round scan of
   nsync_mu_unlock_slow_, timed-out waiters).  No model stepping in this file.

   The invariant is split into three layers, each preserved by every step (MuWaitWorld8/9/10):
     HA  plumbing: semaphore accounting, "waiting flag set => on a list", waiter fields, own condition false while queueing
     HB  ownership of the flag bits MU_LONG_WAIT, MU_WRITER_WAITING, MU_WAITING; what the scan knows
     HC  responsibility: MU_DESIG_WAKER => an agent exists; free mutex + runnable queued waiter => somebody responsible
   MuWaitWorld11 derives: in a quiescent world nobody sleeps on a free mutex with a true (or no) condition. *)
From NsyncBase Require Import CSem.
From NsyncGen Require Import Consts Sites.
From NsyncModel Require Import MuWaitModel MuWaitSpec.
From NsyncProof Require Import WordView MuWaitProof MuWaitRings MuWaitBits MuWaitWorld1 MuWaitWorld2 MuWaitWorld3 MuWaitWorld4.
From Coq Require Import List ZArith Bool Lia PeanoNat.
Import ListNotations.
Local Open Scope Z_scope.

(* ================= attributes of a thread state ================= *)
Definition P (w : world) (t : nat) : pc := t_pc (get w t).
Definition MX (w : world) (t : nat) : option mwl := mw (get w t).

Definition hv (mx : option mwl) : bool := match mx with Some x => mw_have x | None => false end.
Definition nilb {A} (l : list A) : bool := match l with [] => true | _ => false end.
(* a waker that still has somebody to wake *)
Definition wkne (p : pc) : bool :=
  match p with UsWakeStore _ u | UsWakeV _ _ u => negb (nilb (wake u)) | _ => false end.
(* a woken thread inside nsync_mu_lock_slow_ (clear == MU_DESIG_WAKER) before its next CAS *)
Definition lsd (p : pc) : bool :=
  match p with LsLoad _ l | LsCasAcq _ l _ | LsCasEnq _ l _ => clr l =? MU_DESIG_WAKER | _ => false end.
(* "designated-waker-type agent": a thread that is on its way to take the mutex (or to scan the queue / wake somebody)
   and will not go to sleep before it has done so:
   the scanner and its final CAS (scl), a waker with a non-empty wake list, a woken thread in lock_slow, and a thread
   that may be on a list (mq_of) whose waiting flag has been cleared and that has not re-acquired through the timeout path *)
Definition dagb (p : pc) (mx : option mwl) (wt : bool) : bool :=
  scl p || wkne p || lsd p || (mq_of p mx && negb wt && negb (hv mx)).
Definition dag (w : world) (t : nat) : bool := dagb (P w t) (MX w t) (waiting w t).
(* the spin loop of mu_try_acquire_after_timeout_or_cancel *)
Definition mts (p : pc) : bool := match p with MtLoad _ | MtCas1 _ | MtCas2 _ => true | _ => false end.
(* about to queue itself in nsync_mu_lock_slow_ (owns the spinlock, MU_WAITING already set) *)
Definition lssw (p : pc) : bool := match p with LsStoreWaiting _ _ => true | _ => false end.
(* the two semaphore waits *)
Definition psite (p : pc) : bool := match p with LsSemP _ _ | MwSemP => true | _ => false end.
(* locals of nsync_mu_lock_slow_ *)
Definition lsl_of (p : pc) : option (mode * lsl) :=
  match p with
  | LsLoad m l | LsCasAcq m l _ | LsCasEnq m l _ | LsStoreWaiting m l | RelLoad (KLs m l) _ | RelCas (KLs m l) _
  | LsWaitLoad m l | LsSemP m l => Some (m, l)
  | _ => None
  end.
(* carries MU_LONG_WAIT *)
Definition lwo (p : pc) : bool := match lsl_of p with Some (_, l) => longw l =? MU_LONG_WAIT | None => false end.
(* own condition known false: between the evaluation in nsync_mu_wait_with_deadline and the release of the mutex *)
Definition ownf (p : pc) : bool :=
  match p with MwStoreWaiting | MwRcLoad | SpinLoad KWait _ | SpinCas KWait _ | MwRelLoad | MwRelCas _ _ => true | _ => false end.
Definition mwrel (p : pc) : bool := match p with MwRelLoad | MwRelCas _ _ => true | _ => false end.

(* MU_WRITER_WAITING claimants *)
(* a writer inside nsync_mu_lock_slow_ that has queued itself at least once *)
Definition c2 (p : pc) : bool :=
  match p with
  | LsStoreWaiting W _ | RelLoad (KLs W _) _ | RelCas (KLs W _) _ | LsWaitLoad W _ | LsSemP W _ => true
  | LsLoad W l | LsCasAcq W l _ | LsCasEnq W l _ => clr l =? MU_DESIG_WAKER
  | _ => false
  end.
(* a client inside a write critical section (may change the protected state) *)
Definition wclient (s : tstate) : bool :=
  match held s with
  | Some W => negb (conv s) && match frozen_old (t_pc s) with None => true | Some _ => false end
  | _ => false
  end.
Definition nowc (w : world) : Prop := forall t, wclient (get w t) = false.
(* a writer-mode nsync_mu_wait caller that is (or was) queued: woken, or its condition is true and nobody can change that *)
Definition c3 (w : world) (t : nat) : Prop :=
  exists x, MX w t = Some x /\ mw_mode x = W /\ mq_of (P w t) (Some x) = true /\ mw_have x = false /\
            (waiting w t = false \/ (nowc w /\ wtrue (wcond w) (pst w) t = true)).
Definition claim (w : world) (t : nat) : Prop := mts (P w t) = true \/ c2 (P w t) = true \/ c3 w t.

(* ================= word-level notions ================= *)
Definition free (x : Z) : Prop := x mod 2 = 0 /\ x / 256 = 0.
Definition zred (m : mode) : Z := band (lt_zero_to_acquire (lt_of m)) clr_mask.
Definition lslB (m : mode) (l : lsl) : Prop :=
  (longw l = MU_LONG_WAIT -> clr l = MU_DESIG_WAKER) /\ (clr l = MU_DESIG_WAKER -> zta l = zred m).
Definition runq (w : world) : Prop := exists p, In p (queue w) /\ wtrue (wcond w) (pst w) p = true.
Definition anyls (w : world) : Prop := exists t, lssw (P w t) = true.

(* ================= layer A ================= *)
Record HA (w : world) : Prop := mk_HA {
  (* a woken sleeper has its post, or its waker is about to post *)
  a_sem : forall x, psite (P w x) = true -> waiting w x = false ->
            1 <= sem w x \/ exists t' m u, P w t' = UsWakeV m x u;
  a_sem0 : forall x, 0 <= sem w x;
  (* a waiter whose waiting flag is set is on mu->waiters or on a private list of the scanner / a waker *)
  a_mem : forall x, mq_of (P w x) (MX w x) = true -> waiting w x = true -> member (queue w) (winfo w) x;
  (* a timed-out waiter that has re-acquired cleared its waiting flag before *)
  a_hv : forall x y, MX w x = Some y -> mw_have y = true -> mq_of (P w x) (MX w x) = true -> waiting w x = false;
  a_st2 : forall x old, P w x = MtStore2 old -> waiting w x = false;
  (* mu_try_acquire_after_timeout_or_cancel found the remove_count changed: the waiter is on no ring any more *)
  a_f1 : forall x y old, P w x = MtStore3 old -> MX w x = Some y -> waiting w x = true -> rcount w x <> mw_rc y;
  (* the waiter's l_type / cond fields *)
  a_t1 : forall x m l, lsl_of (P w x) = Some (m, l) -> wtype w x = m /\ wcond w x = None;
  a_t2 : forall x y, MX w x = Some y -> (pe_pc (P w x) || mcq (P w x)) = true -> wtype w x = mw_mode y;
  (* the caller's own condition is false while it queues itself and releases *)
  a_own : forall x, ownf (P w x) = true -> wtrue (wcond w) (pst w) x = false }.

(* ================= layer B ================= *)
Definition uset_ok (s : Z) : Prop := tb 2 s = false /\ tb 3 s = false /\ tb 4 s = false /\ tb 6 s = false.
(* what the scan of nsync_mu_unlock_slow_ knows *)
Definition scanB (w : world) (u : uscan) : Prop :=
  uset_ok (u_set u) /\
  (u_wake u = [] <-> u_wty u = None) /\
  (u_wty u = None -> tb 7 (u_set u) = true) /\
  (tb 5 (u_set u) = true -> exists p, In p (u_done u ++ u_new u) /\ wtype w p = W /\ wtrue (wcond w) (pst w) p = true).
Definition finB (w : world) (f : usl) : Prop :=
  tb 2 (set_on f) = false /\ tb 3 (set_on f) = false /\ tb 6 (set_on f) = false /\ tb 6 (clear_on f) = false /\
  (wake f = [] -> tb 7 (set_on f) = true /\ tb 3 (clear_on f) = true) /\
  (tb 2 (clear_on f) = true -> queue w = []) /\
  tb 5 (clear_on f) = tb 2 (clear_on f) /\
  (tb 7 (set_on f) = true -> tb 7 (clear_on f) = true -> tb 2 (clear_on f) = true) /\
  (tb 5 (set_on f) = true -> tb 5 (clear_on f) = false ->
     exists p, In p (queue w) /\ wtype w p = W /\ wtrue (wcond w) (pst w) p = true).
Record HB (w : world) : Prop := mk_HB {
  b_lsl : forall x m l, lsl_of (P w x) = Some (m, l) -> lslB m l;
  b_lw : tb 6 (word w) = true -> exists T, lwo (P w T) = true;
  b_ww : tb 5 (word w) = true -> exists c, claim w c;
  b_wt : (queue w <> [] \/ anyls w) -> tb 2 (word w) = true;
  (* while somebody scans (or is at the scan's final CAS) MU_WAITING stays set *)
  b_swt : forall t, scl (P w t) = true -> tb 2 (word w) = true;
  b_scan : forall t k u, sk_of (P w t) = Some (k, u) -> scanB w u;
  b_fin : forall t f, fin_of (P w t) = Some f -> finB w f }.

(* ================= layer C ================= *)
(* what the pcs that carry a word read earlier remember about it *)
Definition pcC (w : world) (t : nat) : Prop :=
  match P w t with
  | UlCas2 m old => unlock_try_cas2 m old = true
  | UsCasRel _ old => nsync_mu_unlock_slow_cas1_guard old = true
  | MwRelCas old add =>
      forall x, MX w t = Some x ->
        add = (if (band (wrap_u 32 (old - lt_add_to_acquire (lt_of (mw_mode x)))) MU_ANY_LOCK =? 0) && mw_hadw x &&
                  (band old MU_DESIG_WAKER =? 0) then 0 else lt_add_to_acquire (lt_of (mw_mode x)))
  | _ => True
  end.
Record HC (w : world) : Prop := mk_HC {
  (* MU_DESIG_WAKER: somebody is on the way *)
  c_dw : tb 3 (word w) = true -> exists a, dag w a = true;
  (* a free mutex with a runnable queued waiter (or a thread about to queue itself): somebody is responsible *)
  c_resp : etp w -> free (word w) -> (runq w \/ anyls w) -> exists a, dag w a = true \/ mts (P w a) = true;
  (* nsync_mu_wait_with_deadline: had_waiters == 0 means the caller is alone on the queue *)
  c_rel : forall t x, MX w t = Some x -> mwrel (P w t) = true -> mw_hadw x = false -> queue w = [t];
  c_pc : forall t, pcC w t }.

(* ================= small facts ================= *)
Lemma dag_eq w w' t : get w' t = get w t -> waiting w' t = waiting w t -> dag w' t = dag w t.
Proof. intros E1 E2. unfold dag, P, MX. rewrite E1, E2. reflexivity. Qed.

Lemma dagb_wt_mono p mx : dagb p mx true = true -> dagb p mx false = true.
Proof. unfold dagb. rewrite !orb_true_iff. intros [[[A|A]|A]|A]; auto. rewrite andb_false_r in A. discriminate A. Qed.

Lemma scl_dag p mx wt : scl p = true -> dagb p mx wt = true.
Proof. intros H. unfold dagb. rewrite H. reflexivity. Qed.
Lemma wkne_dag p mx wt : wkne p = true -> dagb p mx wt = true.
Proof. intros H. unfold dagb. rewrite H, orb_true_r. reflexivity. Qed.
Lemma lsd_dag p mx wt : lsd p = true -> dagb p mx wt = true.
Proof. intros H. unfold dagb. rewrite H, !orb_true_r. reflexivity. Qed.
Lemma mq_dag p mx : mq_of p mx = true -> hv mx = false -> dagb p mx false = true.
Proof. intros H1 H2. unfold dagb. rewrite H1, H2. cbn. apply orb_true_r. Qed.

Lemma free_dec x : {free x} + {~ free x}.
Proof.
  unfold free. destruct (Z.eq_dec (x mod 2) 0), (Z.eq_dec (x / 256) 0); [left; auto | right; tauto | right; tauto | right; tauto].
Qed.
