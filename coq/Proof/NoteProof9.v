(* NoteProof9: C09, progress of the condition waits -- the stage facts InvS1 (NoteProof8.v) are inductive. *)
From Coq Require Import String.
From NsyncBase Require Import CSem.
From NsyncGen Require Import Consts Sites.
From NsyncModel Require Import NoteModel.
From NsyncProof Require Import NoteProof NoteProof2 NoteProof3 NoteProof4 NoteProof7 NoteProof8.
From Coq Require Import List ZArith Bool Lia Arith.
Import ListNotations.
Local Open Scope Z_scope.

(* ---------- small facts ---------- *)
Lemma ntime_pos w x : tpos (notified_time w x (flag (nt w x))) = true -> flag (nt w x) = 0 /\ tpos (expiry (nt w x)) = true.
Proof. unfold notified_time. destruct (Z.eqb_spec (flag (nt w x)) 0); [auto|]. cbn. discriminate. Qed.
Lemma pos_ntime w x : flag (nt w x) = 0 -> tpos (expiry (nt w x)) = true -> tpos (notified_time w x (flag (nt w x))) = true.
Proof. unfold notified_time. intros -> H. exact H. Qed.

Lemma step1_fresh w t c m :
  (m < nnext (fst (step1 w t c)))%nat -> (m < nnext w)%nat \/
  (m = nnext w /\ exists dl par, nt (fst (step1 w t c)) m = mk_note true dl 0 None [] [] O None O dl par false false).
Proof.
  intros Hm. destruct (step1_nnext w t c) as [Eq|(par & dl & rest & Hst & Eq & Hn & _)].
  - left. lia.
  - destruct (Nat.eq_dec m (nnext w)); [right; subst; eauto|left; lia].
Qed.

Lemma preflag_lrefs f x : preflag f = Some x -> In x (lrefs f).
Proof. destruct f; cbn; try discriminate; destruct s; intros E; inversion E; subst; left; reflexivity. Qed.
Lemma incall_preflag f x : incall f -> preflag f = Some x -> False.
Proof. destruct f; cbn; try discriminate; destruct s; try contradiction; discriminate. Qed.

(* a thread that has a frame between the increment of x->disconnecting and the store to x->notified holds D(x) *)
Lemma preflag_contrib w st f x :
  shape st -> (forall g, In g st -> fokU w g) -> In f st -> preflag f = Some x -> (scount st x >= 1)%nat.
Proof.
  intros Sh Fk Hin Hp. destruct f as [|n s par inc|n par s| | | | | |]; cbn in Hp; try discriminate.
  - assert (n = x /\ inc = true) as [-> ->].
    { pose proof (Fk _ Hin) as F. cbn in F. destruct F as (_ & _ & Fi & _).
      destruct s; inversion Hp; subst; split; auto; apply Fi; tauto. }
    pose proof (scount_in st _ x Hin) as Hle. cbn in Hle. rewrite Nat.eqb_refl in Hle. cbn in Hle. lia.
  - assert (n = x) as -> by (destruct s; inversion Hp; reflexivity). eapply fc_contrib; eauto.
Qed.

(* NoteProof3.pinned_orphan, for any live reference of the holder *)
Lemma pinned_orphan_l w t c t' n :
  InvA w -> (forall t0 f, In f (stk w t0) -> fokU w f) -> disc_ok w -> uc_priv w ->
  t' <> t -> (tcount w t' n >= 1)%nat -> (exists g, In g (stk w t') /\ In n (lrefs g)) ->
  parent (nt w n) = None -> parent (nt (fst (step1 w t c)) n) = None.
Proof.
  intros I Fk D U Ht Hc (g & Hg & Hgt) Hp.
  destruct (D t' n ltac:(lia)) as [Hd Ho].
  destruct (parent (nt (fst (step1 w t c)) n)) as [q|] eqn:E; [|reflexivity]. exfalso.
  destruct (step1_parent w t c n q E) as [H|[(par & dl & e & Hf)|(m & nx & Hf)]].
  - congruence.
  - apply top_In in Hf. eapply (U t _ n Hf eq_refl t' g); eauto.
  - apply top_In in Hf. pose proof (Fk t _ Hf) as F. cbn in F. destruct F as (_ & _ & F). lia.
Qed.

(* ---------- what the other threads cannot do ---------- *)
Lemma flag_kept_other w t c t0 x :
  InvA w -> InvU w -> t0 <> t -> (tcount w t0 x >= 1)%nat -> flag (nt (fst (step1 w t c)) x) = flag (nt w x).
Proof.
  intros I U Ht Hc. destruct (Z.eq_dec (flag (nt (fst (step1 w t c)) x)) (flag (nt w x))) as [E|E]; [exact E|]. exfalso.
  destruct (step1_flag_change w t c x E) as [(par & Htop)| ->].
  - apply top_In in Htop. pose proof (fc_contrib w (stk w t) x par C2 (ia_shape _ I t) (iu_fr _ U t) Htop) as Hs.
    destruct (iu_disc _ U t0 x ltac:(lia)) as [_ Ho]. specialize (Ho t ltac:(congruence)). unfold tcount in Ho. lia.
  - pose proof (tcount_lt w t0 _ I Hc). lia.
Qed.
Lemma flag_kept_uc w t c t0 f x :
  InvA w -> InvU w -> t0 <> t -> In f (stk w t0) -> uc_of f = Some x -> flag (nt (fst (step1 w t c)) x) = flag (nt w x).
Proof.
  intros I U Ht Hf Hu. destruct (Z.eq_dec (flag (nt (fst (step1 w t c)) x)) (flag (nt w x))) as [E|E]; [exact E|]. exfalso.
  destruct (step1_flag_change w t c x E) as [(par & Htop)| ->].
  - apply top_In in Htop. apply (p_uc _ (iu_priv _ U) t0 f x Hf Hu t (FC x par C2)); [congruence|exact Htop|cbn; auto].
  - pose proof (uc_lt _ _ _ _ I Hf Hu). lia.
Qed.
Lemma expiry_kept_other w t c t0 g x :
  InvA w -> InvU w -> t0 <> t -> In g (stk w t0) -> In x (lrefs g) -> (x < nnext w)%nat ->
  expiry (nt (fst (step1 w t c)) x) = expiry (nt w x).
Proof.
  intros I U Ht Hg Hx Hlt.
  destruct (x_exp _ _ _ (step1_ext w t c) x Hlt) as [E|(par & dl & p & e & rest & Hst & _)]; [exact E|]. exfalso.
  apply (p_uc _ (iu_priv _ U) t (ANew par dl (W3 x p e)) x) with (t' := t0) (g := g); auto.
  rewrite Hst. left; reflexivity.
Qed.

(* ---------- s_exact ---------- *)
Lemma s_exact_step1 w t c :
  InvA w -> InvU w -> InvS1 w ->
  forall x, (x < nnext (fst (step1 w t c)))%nat -> (0 < disc (nt (fst (step1 w t c)) x))%nat ->
  exists t0, (tcount (fst (step1 w t c)) t0 x >= 1)%nat.
Proof.
  intros I U S x Hx Hd. pose proof (step1_ext w t c) as E.
  destruct (step1_fresh w t c x Hx) as [Hx0|(-> & dl & par & Hn)].
  2:{ rewrite Hn in Hd. cbn in Hd. lia. }
  destruct (step1_disc w t c x (ia_shape _ I t)) as [M1 M2]; auto.
  { destruct (Nat.eq_dec (tcount w t x) 0) as [->|Hne]; [lia|]. destruct (iu_disc _ U t x ltac:(lia)) as [Hd0 _]. lia. }
  { intros f Hf. apply fokU_dfact. apply (iu_fr _ U t f Hf). }
  destruct (Nat.eq_dec (tcount (fst (step1 w t c)) t x) 0) as [Hz|Hnz]; [|exists t; lia].
  assert (0 < disc (nt w x))%nat as Hd1 by lia.
  destruct (s_exact _ S x Hx0 Hd1) as (t0 & Ht0).
  destruct (Nat.eq_dec t0 t) as [->|Hne].
  - destruct (iu_disc _ U t x ltac:(lia)) as [Hd0 _]. lia.
  - exists t0. unfold tcount. rewrite (stk_other _ _ _ _ E Hne). exact Ht0.
Qed.

(* ---------- the frames of the other threads ---------- *)
Lemma s_pre_other w t c t0 f x :
  InvA w -> InvU w -> InvS1 w -> t0 <> t -> In f (stk w t0) -> preflag f = Some x ->
  flag (nt (fst (step1 w t c)) x) = 0 /\ tpos (expiry (nt (fst (step1 w t c)) x)) = true.
Proof.
  intros I U S Ht Hf Hp.
  assert (tcount w t0 x >= 1)%nat as Hc by (eapply preflag_contrib; eauto using ia_shape, iu_fr).
  pose proof (tcount_lt w t0 x I Hc) as Hx.
  rewrite (flag_kept_other w t c t0 x I U Ht Hc).
  rewrite (expiry_kept_other w t c t0 f x I U Ht Hf (preflag_lrefs _ _ Hp) Hx).
  eapply (s_pre _ S); eauto.
Qed.

Lemma s_rel_other w t c t0 f :
  InvA w -> InvU w -> InvS1 w -> t0 <> t -> In f (stk w t0) -> relfact (fst (step1 w t c)) f.
Proof.
  intros I U S Ht Hf. pose proof (s_rel _ S t0 f Hf) as R.
  assert (forall x, (ncontrib f x >= 1)%nat -> In x (lrefs f) -> parent (nt w x) = None -> parent (nt (fst (step1 w t c)) x) = None) as Pin.
  { intros x Hc Hl Hp. apply (pinned_orphan_l w t c t0 x I (iu_fr _ U) (iu_disc _ U) (p_uc _ (iu_priv _ U)) Ht); eauto.
    eapply tcount_ge; eauto. }
  destruct f as [| x s par inc | m par s | m s par | | | | |]; try exact Logic.I.
  - cbn [relfact] in *. intros -> Hc. apply Pin; auto.
    + cbn. rewrite Nat.eqb_refl. cbn. lia.
    + cbn. auto.
  - cbn [relfact] in *. destruct R as [R1 R2]. split.
    + intros ->. apply (pinned_orphan_l w t c t0 m I (iu_fr _ U) (iu_disc _ U) (p_uc _ (iu_priv _ U)) Ht); auto.
      * pose proof (fc_contrib w (stk w t0) m None s (ia_shape _ I t0) (iu_fr _ U t0) Hf). unfold tcount. lia.
      * eexists. split; [exact Hf|cbn; auto].
    + destruct s; try exact Logic.I. destruct dec; [|exact Logic.I]. apply Pin; auto.
      * cbn. rewrite Nat.eqb_refl. cbn. lia.
      * cbn. right. apply in_or_app. right. left. reflexivity.
  - cbn [relfact] in *. destruct s; try exact Logic.I. destruct dec; [|exact Logic.I]. apply Pin; auto.
    + cbn. rewrite Nat.eqb_refl. cbn. lia.
    + cbn. right. apply in_or_app. right. left. reflexivity.
Qed.

Lemma s_new_other w t c t0 par dl n p :
  InvA w -> InvU w -> InvS1 w -> t0 <> t ->
  In (ANew par dl (W2 n p false)) (stk w t0) \/ In (ANew par dl (W3 n p false)) (stk w t0) ->
  flag (nt (fst (step1 w t c)) n) = 0 /\ tpos dl = true.
Proof.
  intros I U S Ht Hf. destruct (s_new _ S t0 par dl n p Hf) as [F1 F2]. split; [|exact F2].
  destruct Hf as [Hf|Hf]; rewrite (flag_kept_uc w t c t0 _ n I U Ht Hf eq_refl); exact F1.
Qed.
Lemma s_newd_other w t c t0 n s par dl :
  InvA w -> InvU w -> InvS1 w -> t0 <> t -> stk w t0 = [FD n s; ANew par dl (WD n)] ->
  match s with D4 x | D5 x => tpos x = true -> flag (nt (fst (step1 w t c)) n) = 0 /\ tpos dl = true | _ => True end.
Proof.
  intros I U S Ht Hst. pose proof (s_newd _ S t0 n s par dl Hst) as F.
  assert (flag (nt (fst (step1 w t c)) n) = flag (nt w n)) as E.
  { apply (flag_kept_uc w t c t0 (ANew par dl (WD n)) n I U Ht); [rewrite Hst; right; left; reflexivity|reflexivity]. }
  destruct s; auto; rewrite E; exact F.
Qed.

(* ---------- the stepping thread: where a frame before the store to x->notified comes from ---------- *)
Ltac deep_incall Sh Hi :=
  eapply shape_incall; [|exact Hi]; first [exact Sh | eapply shape_tail; exact Sh | eapply shape_tail; eapply shape_tail; exact Sh].

Lemma step1_preflag w t c f x :
  shape (stk w t) -> In f (stk (fst (step1 w t c)) t) -> preflag f = Some x ->
  (exists f0, top w t = Some f0 /\ preflag f0 = Some x /\ (forall par, f0 <> FC x par C2)) \/
  (exists par inc, top w t = Some (FN x N4 par inc) /\ tpos (notified_time w x (flag (nt w x))) = true) \/
  (exists n par nx, top w t = Some (FC n par (C5 x nx)) /\ disc (nt w x) = 0%nat) \/
  (exists n nx par, top w t = Some (FF n (F7 x nx) par)).
Proof.
  intros Sh. remember (fst (step1 w t c)) as w' eqn:Hw'. revert Hw'. unfold top. unfold stk in Sh.
  leaves.
  all: intros ->; cbn [fst] in *.
  all: change (stk w t) with (stack (thr w t)); rewrite ?Hst.
  all: try (intros Hin; exfalso; exact Hin).
  all: try (unfold stk; rewrite Hst; intros Hin Hp; destruct Hin as [<-|Hin];
            [left; eexists; split; [reflexivity|split; [exact Hp|intros; discriminate]]
            |exfalso; eapply incall_preflag; [eapply shape_incall; [exact Sh|exact Hin]|exact Hp]]).
  all: bottom_nil Sh.
  all: rets Sh.
  all: repeat match goal with H : Some _ = Some _ |- _ => injection H as H; try subst end.
  all: rewrite ?stk_setst, ?stk_finish.
  all: intros Hin Hp; cbn [In] in Hin.
  all: try contradiction.
  all: repeat match goal with H : _ \/ _ |- _ => destruct H as [H|H] end; try contradiction.
  all: try (subst f; cbn [preflag] in Hp; try discriminate Hp).
  all: try solve [exfalso; eapply incall_preflag; [|exact Hp];
                  match goal with Hi : In _ _ |- _ => deep_incall Sh Hi end].
  all: inversion Hp; subst; cbn [hd_error].
  all: try solve [left; eexists; split; [reflexivity|split; [reflexivity|intros; discriminate]]].
  all: try solve [right; left; do 2 eexists; split; [reflexivity|assumption]].
  all: try solve [do 3 right; eauto].
  all: try solve [right; right; left; do 3 eexists; split; [reflexivity|];
                  match goal with H : (disc _ =? 0)%nat = true |- _ => apply Nat.eqb_eq in H; revert H; unfold nt; nsimpl; auto end].
Qed.

Lemma s_pre_own w t c f x :
  InvA w -> InvU w -> InvS1 w -> In f (stk (fst (step1 w t c)) t) -> preflag f = Some x ->
  flag (nt (fst (step1 w t c)) x) = 0 /\ tpos (expiry (nt (fst (step1 w t c)) x)) = true.
Proof.
  intros I U S Hin Hp.
  assert (forall f0, top w t = Some f0 -> In x (lrefs f0) -> (forall par, f0 <> FC x par C2) ->
            (forall par dl p e, f0 <> ANew par dl (W3 x p e)) ->
            flag (nt (fst (step1 w t c)) x) = flag (nt w x) /\ expiry (nt (fst (step1 w t c)) x) = expiry (nt w x) /\ (x < nnext w)%nat) as Keep.
  { intros f0 Ht Hl Hne Hnw. pose proof (top_In _ _ _ Ht) as Hin0.
    assert (x < nnext w)%nat as Hx by (eapply lrefs_lt; eauto using ia_fok, iu_fr, par_lt).
    split; [|split; [|exact Hx]].
    - destruct (Z.eq_dec (flag (nt (fst (step1 w t c)) x)) (flag (nt w x))) as [E|E]; [exact E|]. exfalso.
      destruct (step1_flag_change w t c x E) as [(par & Htop)| ->]; [|lia].
      rewrite Ht in Htop. inversion Htop. eapply Hne; eauto.
    - destruct (x_exp _ _ _ (step1_ext w t c) x Hx) as [E|(par & dl & p & e & rest & Hst & _)]; [exact E|]. exfalso.
      unfold top in Ht. rewrite Hst in Ht. inversion Ht. eapply Hnw; eauto. }
  destruct (iu_tree _ U) as (_ & T2 & _).
  assert (forall n, (n < nnext w)%nat -> In x (children (nt w n)) -> (x < nnext w)%nat -> disc (nt w x) = 0%nat ->
            flag (nt w x) = 0 /\ tpos (expiry (nt w x)) = true) as Child.
  { intros n Hn Hc Hx Hd. destruct (s_link _ S x n Hx (T2 n x Hn Hc)) as [L1 L2]. split; [|exact L1].
    destruct (Z.eq_dec (flag (nt w x)) 0) as [E|E]; [exact E|]. specialize (L2 E). lia. }
  destruct (step1_preflag w t c f x (ia_shape _ I t) Hin Hp) as [(f0 & Ht & Hp0 & Hne)|[(par & inc & Ht & Hpos)|[(n & par & nx & Ht & Hd)|(n & nx & par & Ht)]]].
  - destruct (Keep f0 Ht (preflag_lrefs _ _ Hp0) Hne) as (E1 & E2 & _).
    { intros par dl p e ->. discriminate Hp0. }
    rewrite E1, E2. apply (s_pre _ S t f0 x (top_In _ _ _ Ht) Hp0).
  - destruct (Keep _ Ht) as (E1 & E2 & _); [cbn; auto|intros; discriminate|intros; discriminate|].
    rewrite E1, E2. apply ntime_pos. exact Hpos.
  - destruct (Keep _ Ht) as (E1 & E2 & Hx); [cbn; right; apply in_or_app; right; left; reflexivity|intros; discriminate|intros; discriminate|].
    rewrite E1, E2. pose proof (top_In _ _ _ Ht) as Hin0.
    pose proof (iu_fr _ U t _ Hin0) as F. cbn in F. destruct F as (_ & Hc & _).
    pose proof (ia_fok _ I t _ Hin0) as FA. cbn in FA. destruct FA as (Hn & _).
    eapply Child; eauto.
  - destruct (Keep _ Ht) as (E1 & E2 & Hx); [cbn; right; apply in_or_app; right; left; reflexivity|intros; discriminate|intros; discriminate|].
    rewrite E1, E2. pose proof (top_In _ _ _ Ht) as Hin0.
    pose proof (iu_fr _ U t _ Hin0) as F. cbn in F. destruct F as (_ & (Hc & _) & Hd).
    pose proof (ia_fok _ I t _ Hin0) as FA. cbn in FA. destruct FA as (Hn & _).
    eapply Child; eauto.
Qed.

(* ---------- the stepping thread: s_rel ---------- *)
Lemma relfact_dep w w' f :
  incall f -> (forall x, ftarget f = Some x -> parent (nt w x) = None -> parent (nt w' x) = None) -> relfact w f -> relfact w' f.
Proof.
  intros Hi Hp R. destruct f as [| n s par inc | n par s | n s par | | | | |]; try exact Logic.I; cbn in Hi.
  - destruct s; try contradiction. cbn [relfact] in *. intros Hinc Hc. apply Hp; [reflexivity|auto].
  - destruct s; try contradiction. cbn [relfact] in *. destruct R as [R _]. split; [|exact Logic.I]. intros Hn. apply Hp; [reflexivity|auto].
  - destruct s; try contradiction. exact Logic.I.
Qed.

Lemma s_rel_own w t c :
  InvA w -> (forall f, In f (stk w t) -> fokU w f) -> (forall f, In f (stk w t) -> relfact w f) ->
  (forall f x, In f (stk w t) -> preflag f = Some x -> tpos (notified_time w x (flag (nt w x))) = true) ->
  forall f, In f (stk (fst (step1 w t c)) t) -> relfact (fst (step1 w t c)) f.
Proof.
  intros I Fk Rk Pk.
  pose proof (ia_shape w I t) as Sh.
  remember (fst (step1 w t c)) as w' eqn:Hw'. revert Hw'. unfold stk in Sh, Fk, Rk, Pk.
  leaves.
  all: intros ->; cbn [fst] in *.
  all: try (unfold stk; rewrite Hst; exact Rk).
  all: bottom_nil Sh.
  all: rets Sh.
  all: repeat match goal with H : Some _ = Some _ |- _ => injection H as H; try subst end.
  all: rewrite ?stk_setst, ?stk_finish.
  all: intros f Hin; cbn [In] in Hin.
  all: try contradiction.
  all: repeat match goal with H : _ \/ _ |- _ => destruct H as [H|H] end; try contradiction.
  all: try (subst f).
  (* frames deeper in the stack: their notes can only lose a parent *)
  all: try solve [
    match goal with Hi : In ?f ?l |- relfact _ ?f =>
      apply (relfact_dep w); [ deep_incall Sh Hi | | apply Rk; cbn [In]; tauto ];
      let y := fresh "y" in intros y _; unfold nt; nsimpl; auto
    end ].
  (* the early return of note_notify_child does not happen: s_pre *)
  all: try (pose proof (Pk _ _ (or_introl eq_refl) eq_refl) as P0).
  all: try solve [exfalso; congruence].
  all: try (pose proof (Fk _ (or_introl eq_refl)) as F0; cbn [fokU] in F0).
  all: try (pose proof (Rk _ (or_introl eq_refl)) as R0; cbn [relfact] in R0).
  all: try (pose proof (Fk _ (or_intror (or_introl eq_refl))) as F1; cbn [fokU] in F1).
  all: try (pose proof (Rk _ (or_intror (or_introl eq_refl))) as R1; cbn [relfact] in R1).
  all: cbn [relfact].
  all: try exact Logic.I.
  all: destr_ex.
  all: repeat match goal with |- _ /\ _ => split end.
  all: try exact Logic.I.
  all: try solve [intros; discriminate].
  all: try solve [intros ? [?|[?|?]]; discriminate].
  all: intros.
  all: unfold nt in *.
  all: nsimpl.
  all: try reflexivity.
  all: try solve [exfalso; match goal with F : ?i = true -> _ /\ _ /\ _ /\ _, Hi : ?i = true |- _ => destruct (F Hi) as (? & ? & ? & ?); congruence end].
  all: try solve [match goal with R : _ -> _ -> parent _ = None |- _ => apply R; auto end].
  all: try solve [match goal with R : _ -> parent _ = None |- _ => apply R; auto end].
  all: try assumption.
  all: try solve [exfalso; match goal with F : true = true -> _ /\ _ /\ _ /\ _ |- _ => destruct (F eq_refl) as (? & ? & ? & ?); congruence end].
  all: try solve [match goal with Hc : _ = None \/ _ \/ _ |- _ => destruct Hc as [Hc|[Hc|Hc]]; try discriminate Hc; subst end;
                  match goal with R : _ -> _ -> parent _ = None |- _ => apply R; auto end].
  all: match goal with R : ?i = true -> _ -> parent _ = None, F : _ -> ?i = true |- _ => apply R; [apply F; tauto|auto] end.
Qed.

(* ---------- the stepping thread: s_new, s_newd ---------- *)
Lemma incall_w23 par dl n p e : incall (ANew par dl (W2 n p e)) \/ incall (ANew par dl (W3 n p e)) -> False.
Proof. cbn. tauto. Qed.

Lemma s_new_own w t c :
  InvA w ->
  (forall par dl n p, In (ANew par dl (W2 n p false)) (stk w t) \/ In (ANew par dl (W3 n p false)) (stk w t) ->
                      flag (nt w n) = 0 /\ tpos dl = true) ->
  (forall n s par dl, stk w t = [FD n s; ANew par dl (WD n)] ->
                      match s with D4 x | D5 x => tpos x = true -> flag (nt w n) = 0 /\ tpos dl = true | _ => True end) ->
  (forall par dl n p, In (ANew par dl (W2 n p false)) (stk (fst (step1 w t c)) t) \/ In (ANew par dl (W3 n p false)) (stk (fst (step1 w t c)) t) ->
                      flag (nt (fst (step1 w t c)) n) = 0 /\ tpos dl = true) /\
  (forall n s par dl, stk (fst (step1 w t c)) t = [FD n s; ANew par dl (WD n)] ->
                      match s with D4 x | D5 x => tpos x = true -> flag (nt (fst (step1 w t c)) n) = 0 /\ tpos dl = true | _ => True end).
Proof.
  intros I Nw Nd.
  pose proof (ia_shape w I t) as Sh. pose proof (ia_fok w I t) as FkA.
  remember (fst (step1 w t c)) as w' eqn:Hw'. revert Hw'. unfold stk in Sh, FkA, Nw, Nd.
  leaves.
  all: intros ->; cbn [fst] in *.
  all: try (unfold stk; rewrite Hst; split; [exact Nw|exact Nd]).
  all: bottom_nil Sh.
  all: try match goal with Hs : stack _ = FD _ _ :: ?l |- _ => is_var l; below_d Sh end.
  all: rets Sh.
  all: repeat match goal with H : Some _ = Some _ |- _ => injection H as H; try subst end.
  all: rewrite ?stk_setst, ?stk_finish.
  all: split.
  (* s_newd: the shape of the stack decides *)
  all: try solve [let n1 := fresh in let s1 := fresh in let par1 := fresh in let dl1 := fresh in let Heq := fresh in
                  intros n1 s1 par1 dl1 Heq; discriminate Heq].
  (* s_new: the nsync_note_new frame is the bottom frame *)
  all: try solve [let par1 := fresh in let dl1 := fresh in let n1 := fresh in let p1 := fresh in let Hin := fresh "Hin" in
                  intros par1 dl1 n1 p1 Hin; cbn [In] in Hin;
                  repeat match goal with H : _ \/ _ |- _ => destruct H as [H|H] end; try contradiction; try discriminate Hin;
                  exfalso; eapply incall_w23; first [left; deep_incall Sh Hin | right; deep_incall Sh Hin]].
  all: try (pose proof (FkA _ (or_introl eq_refl)) as A0; cbn [fok] in A0).
  all: try (pose proof (FkA _ (or_intror (or_introl eq_refl))) as A1; cbn [fok] in A1).
  all: try (pose proof (FkA _ (or_intror (or_intror (or_introl eq_refl)))) as A2; cbn [fok] in A2).
  all: try (pose proof (Nd _ _ _ _ eq_refl) as Nd0; cbn beta iota in Nd0).
  all: try (pose proof (Nw _ _ _ _ (or_introl (or_introl eq_refl))) as Nw0).
  all: destr_ex.
  all: try (let Hin := fresh "Hin" in intros ? ? ? ? Hin; cbn [In] in Hin;
            repeat match goal with H : _ \/ _ |- _ => destruct H as [H|H] end; try contradiction; try discriminate Hin; inversion Hin; subst).
  all: try exact Logic.I.
  all: try (let Hpos := fresh "Hpos" in intros Hpos).
  all: try match goal with Hp : tpos (notified_time _ _ _) = true |- _ => apply ntime_pos in Hp; destruct Hp end.
  all: unfold nt in *; nsimpl.
  all: try solve [exfalso; match goal with A : tpos ?x = false, B : negb (tpos ?x) = false |- _ => rewrite A in B; discriminate B end].
  all: try solve [match goal with N0 : tpos ?x = true -> _ /\ _, A : tpos ?x = true |- _ => exact (N0 A) end].
  all: try solve [eapply Nw; left; left; reflexivity].
  all: try solve [split; [assumption|congruence]].
Qed.

(* ---------- s_link ---------- *)
(* the link step of nsync_note_new *)
Lemma step1_w3_link w t c par dl x p e rest :
  stk w t = ANew par dl (W3 x p e) :: rest -> x <> p -> parent (nt w x) = None ->
  parent (nt (fst (step1 w t c)) x) = Some p ->
  e = false /\ tpos (notified_time w p (flag (nt w p))) = true /\ flag (nt (fst (step1 w t c)) x) = flag (nt w x) /\
  (expiry (nt (fst (step1 w t c)) x) = notified_time w p (flag (nt w p)) \/ expiry (nt (fst (step1 w t c)) x) = expiry (nt w x)).
Proof.
  intros Hst Hne Hpn. unfold step1, get. unfold stk in Hst. rewrite Hst. unfold step_New. cbv zeta.
  split_match; cbn [fst]; unfold nt in *; nsimpl; intros Hp; try congruence.
  all: repeat match goal with H : _ && _ = true |- _ => apply andb_prop in H; destruct H end.
  all: match goal with H : negb _ = true |- _ => apply negb_true_iff in H end.
  all: repeat split; auto.
Qed.

Lemma s_link_step1 w t c x p :
  InvA w -> InvU w -> InvS1 w ->
  (x < nnext (fst (step1 w t c)))%nat -> parent (nt (fst (step1 w t c)) x) = Some p ->
  tpos (expiry (nt (fst (step1 w t c)) x)) = true /\ (flag (nt (fst (step1 w t c)) x) <> 0 -> (0 < disc (nt (fst (step1 w t c)) x))%nat).
Proof.
  intros I U S Hx Hp. pose proof (step1_ext w t c) as E.
  destruct (step1_fresh w t c x Hx) as [Hx0|(-> & dl & par & Hn)].
  2:{ rewrite Hn in Hp. discriminate Hp. }
  destruct (iu_tree _ U) as (_ & T2 & _).
  destruct (step1_parent w t c x p Hp) as [Hold|[(par & dl & e & Ht)|(n & nx & Ht)]].
  - (* x had this parent *)
    destruct (s_link _ S x p Hx0 Hold) as [L1 L2].
    assert (disc (nt w x) <= disc (nt (fst (step1 w t c)) x))%nat as Hd.
    { destruct (Nat.le_gt_cases (disc (nt w x)) (disc (nt (fst (step1 w t c)) x))) as [Hle|Hgt]; [exact Hle|]. exfalso.
      destruct (step1_release w t c x Hx0 Hgt) as (f & Ht & Hr). pose proof (top_In _ _ _ Ht) as Hin.
      pose proof (relstage_orphan w f x (iu_fr _ U t f Hin) (s_rel _ S t f Hin) Hr). congruence. }
    split.
    + destruct (x_exp _ _ _ E x Hx0) as [Eq|(par & dl & p' & e & rest & Hst & _)]; [rewrite Eq; exact L1|]. exfalso.
      destruct (p_ucf _ (iu_priv _ U) t par dl (W3 x p' e) x) as (_ & Hun & _); [rewrite Hst; left; reflexivity|reflexivity|].
      rewrite Hun in Hold; [discriminate Hold|]. right. exists p', e. auto.
    + intros Hf. destruct (step1_flag w t c x Hf) as [Hf0|[(par & Ht)|Hge]]; [specialize (L2 Hf0); lia| |lia].
      apply top_In in Ht. pose proof (fc_contrib w (stk w t) x par C2 (ia_shape _ I t) (iu_fr _ U t) Ht) as Hc.
      destruct (iu_disc _ U t x) as [Hd0 _]; [unfold tcount; lia|]. unfold tcount in Hd0. lia.
  - (* linked by nsync_note_new *)
    pose proof (top_In _ _ _ Ht) as Hin.
    pose proof (ia_fok _ I t _ Hin) as F. cbn in F. destruct F as (_ & _ & Hxl & Hex & _ & Hcp & Hpar).
    assert (p < x)%nat as Hlt by (eapply (ia_lt _ I); [exact Hxl|congruence]).
    destruct (p_ucf _ (iu_priv _ U) t par dl (W3 x p e) x Hin eq_refl) as (_ & Hun & _).
    assert (parent (nt w x) = None) as Hpn by (apply Hun; right; exists p, e; auto).
    unfold top in Ht. destruct (stk w t) as [|f0 rest] eqn:Hst; [discriminate Ht|]. cbn in Ht. inversion Ht; subst f0.
    destruct (step1_w3_link w t c par dl x p e rest Hst ltac:(lia) Hpn Hp) as (-> & Hpos & Ef & Ee).
    destruct (s_new _ S t par dl x p) as [N1 N2]; [right; rewrite Hst; left; reflexivity|].
    split.
    + destruct Ee as [Ee|Ee]; rewrite Ee; [exact Hpos|]. rewrite Hex. exact N2.
    + intros Hf. exfalso. apply Hf. rewrite Ef. exact N1.
  - (* adopted by the grandparent *)
    pose proof (top_In _ _ _ Ht) as Hin.
    pose proof (iu_fr _ U t _ Hin) as F. cbn in F. destruct F as (_ & (Hc & _) & Hd).
    pose proof (ia_fok _ I t _ Hin) as FA. cbn in FA. destruct FA as (Hn & _).
    destruct (s_link _ S x n Hx0 (T2 n x Hn Hc)) as [L1 L2].
    assert (flag (nt w x) = 0) as Hf0.
    { destruct (Z.eq_dec (flag (nt w x)) 0) as [E0|E0]; [exact E0|]. specialize (L2 E0). lia. }
    split.
    + destruct (x_exp _ _ _ E x Hx0) as [Eq|(par & dl & p' & e & rest & Hst & _)]; [rewrite Eq; exact L1|]. exfalso.
      unfold top in Ht. rewrite Hst in Ht. discriminate Ht.
    + intros Hf. exfalso. destruct (step1_flag w t c x Hf) as [Hf1|[(par & Ht')|Hge]]; [congruence| |lia].
      rewrite Ht in Ht'. discriminate Ht'.
Qed.

(* ================= InvS1 is inductive ================= *)
Lemma InvS1_step1 w t c : InvC w -> broken (gh w) = false -> InvS1 w -> InvS1 (fst (step1 w t c)).
Proof.
  intros (I & H & N & U) B S. specialize (U B). pose proof (step1_ext w t c) as E.
  assert (forall t0, t0 <> t -> stk (fst (step1 w t c)) t0 = stk w t0) as So by (intros; eapply stk_other; eauto).
  destruct (s_new_own w t c I (s_new _ S t) (s_newd _ S t)) as [Nw Nd].
  split.
  - apply s_exact_step1; auto.
  - intros t0 f x Hin Hp. destruct (Nat.eq_dec t0 t) as [->|Ht0].
    + eapply s_pre_own; eauto.
    + rewrite (So t0 Ht0) in Hin. eapply s_pre_other; eauto.
  - intros x p. apply s_link_step1; auto.
  - intros t0 f Hin. destruct (Nat.eq_dec t0 t) as [->|Ht0].
    + apply s_rel_own; auto.
      * apply (iu_fr _ U t).
      * apply (s_rel _ S t).
      * intros f0 x Hf0 Hp0. destruct (s_pre _ S t f0 x Hf0 Hp0). apply pos_ntime; auto.
    + rewrite (So t0 Ht0) in Hin. eapply s_rel_other; eauto.
  - intros t0 par dl n p Hin. destruct (Nat.eq_dec t0 t) as [->|Ht0].
    + apply (Nw par dl n p Hin).
    + rewrite (So t0 Ht0) in Hin. eapply s_new_other; eauto.
  - intros t0 n s par dl Hst. destruct (Nat.eq_dec t0 t) as [->|Ht0].
    + apply (Nd n s par dl Hst).
    + rewrite (So t0 Ht0) in Hst. eapply s_newd_other; eauto.
Qed.

(* begin_call only pushes the first frames of a call on an idle thread *)
Lemma InvS1_transfer w w' :
  notes w' = notes w -> nnext w' = nnext w ->
  (forall t0, stk w' t0 = stk w t0 \/ (stk w t0 = [] /\ exists o, stk w' t0 = init_stack o)) ->
  InvS1 w -> InvS1 w'.
Proof.
  intros En Ex St S.
  assert (forall x, nt w' x = nt w x) as N by (intros; unfold nt; now rewrite En).
  assert (forall t0 f, In f (stk w' t0) -> In f (stk w t0) \/ exists o, In f (init_stack o)) as Fr.
  { intros t0 f Hin. destruct (St t0) as [Eq|(_ & o & Eq)]; rewrite Eq in Hin; eauto. }
  split.
  - intros x. rewrite Ex, N. intros Hx Hd. destruct (s_exact _ S x Hx Hd) as (t0 & Ht0). exists t0.
    destruct (St t0) as [Eq|(Eq & _)]; unfold tcount in *; [rewrite Eq; exact Ht0|]. rewrite Eq in Ht0. cbn in Ht0. lia.
  - intros t0 f x Hin Hp. rewrite N. destruct (Fr t0 f Hin) as [Hin0|(o & Hin0)]; [eapply (s_pre _ S); eauto|].
    exfalso. destruct o; cbn in Hin0; repeat match goal with Hq : _ \/ _ |- _ => destruct Hq as [Hq|Hq] end; try contradiction; subst f; discriminate Hp.
  - intros x p. rewrite Ex, N. apply (s_link _ S).
  - intros t0 f Hin. destruct (Fr t0 f Hin) as [Hin0|(o & Hin0)].
    + pose proof (s_rel _ S t0 f Hin0) as R. destruct f; cbn [relfact] in *; rewrite ?N; auto.
      * destruct s; auto; destruct dec; auto; rewrite N; auto.
      * destruct s; auto; destruct dec; auto; rewrite N; auto.
    + destruct o; cbn in Hin0; repeat match goal with Hq : _ \/ _ |- _ => destruct Hq as [Hq|Hq] end; try contradiction; subst f; exact Logic.I.
  - intros t0 par dl n p Hin. rewrite N.
    assert (In (ANew par dl (W2 n p false)) (stk w t0) \/ In (ANew par dl (W3 n p false)) (stk w t0)) as Hin0.
    { destruct (St t0) as [Eq|(_ & o & Eq)]; rewrite Eq in Hin; [exact Hin|]. exfalso.
      destruct o; cbn in Hin; repeat match goal with Hq : _ \/ _ |- _ => destruct Hq as [Hq|Hq] end; try contradiction; discriminate. }
    apply (s_new _ S t0 par dl n p Hin0).
  - intros t0 n s par dl Hst.
    assert (stk w t0 = [FD n s; ANew par dl (WD n)]) as Hst0.
    { destruct (St t0) as [Eq|(_ & o & Eq)]; rewrite Eq in Hst; [exact Hst|]. exfalso. destruct o; discriminate Hst. }
    pose proof (s_newd _ S t0 n s par dl Hst0) as F. destruct s; auto; rewrite N; exact F.
Qed.

Lemma InvS1_begin0 w t : InvS1 w -> InvS1 (begin_call w t).
Proof.
  intros S. pose proof (tonly_begin t w) as T.
  apply (InvS1_transfer w); [apply notes_begin|apply nnext_begin| |exact S].
  intros t0. destruct (Nat.eq_dec t0 t) as [->|Ht0].
  - destruct (begin_stack w t) as [Eq|[[E1 E2]|(E1 & o & rest & _ & E2 & _)]]; [left; exact Eq|left; congruence|right; eauto].
  - left. destruct (to_thr _ _ _ T t0 Ht0) as (Eq & _). exact Eq.
Qed.
Lemma InvS1_begin w t : InvC w -> broken (gh (begin_call w t)) = false -> InvS1 w -> InvS1 (begin_call w t).
Proof. intros _ _. apply InvS1_begin0. Qed.

Lemma InvS1_tick w d : InvS1 w -> InvS1 (tick w d).
Proof. intros S. apply (InvS1_transfer w); [reflexivity|reflexivity|intros t0; left; reflexivity|exact S]. Qed.

Lemma InvS1_init c0 progs : InvS1 (init c0 progs).
Proof.
  assert (forall t, stk (init c0 progs) t = []) as St.
  { intros t. unfold stk, init. cbn. destruct (nth_in_or_default t (map (fun p => mk_t [] p [] 0 O false) progs) dflt) as [H|H].
    - apply in_map_iff in H. destruct H as (p & <- & _). reflexivity.
    - rewrite H. reflexivity. }
  split.
  - intros x Hx. cbn in Hx. lia.
  - intros t f x. rewrite St. intros [].
  - intros x p Hx. cbn in Hx. lia.
  - intros t f. rewrite St. intros [].
  - intros t par dl n p. rewrite St. intros [[]|[]].
  - intros t n s par dl. rewrite St. discriminate.
Qed.

(* the stage facts along a run (InvK is proved jointly in NoteProof10) *)
Lemma InvS1_exec w a : InvC w -> broken (gh (exec w a)) = false -> InvS1 w -> InvS1 (exec w a).
Proof.
  intros C B S. destruct a as [t c|d]; cbn [exec] in *; [|apply InvS1_tick; exact S].
  rewrite step_step1 in *. destruct (step1_ghost (begin_call w t) t c) as (Eb & _). rewrite Eb in B.
  apply InvS1_step1; [apply InvC_begin; exact C|exact B|apply InvS1_begin; auto].
Qed.

Print Assumptions InvS1_step1.
Print Assumptions InvS1_begin.
Print Assumptions InvS1_tick.
Print Assumptions InvS1_init.
Print Assumptions InvS1_exec.
