(* NoteProof7: C09, absence of lock-only deadlock.  Note locks are acquired in the order of the tree (a thread blocked in
   nsync_mu_lock (&y->note_mu) holds only locks of notes with smaller ids = proper tree ancestors' side, wait_order), every
   held lock has a live owner frame (lock_has_owner), hence a state in which every thread that is inside a call is blocked
   on a note lock is unreachable (no_lock_deadlock). *)
From Coq Require Import String.
From NsyncBase Require Import CSem.
From NsyncGen Require Import Consts Sites.
From NsyncModel Require Import NoteModel.
From NsyncProof Require Import NoteProof NoteProof2 NoteProof3 NoteProof4.
From Coq Require Import List ZArith Bool Lia Arith.
Import ListNotations.
Local Open Scope Z_scope.

(* ================= C09: locks are taken in the order of the tree ================= *)
(* the note lock the frame is about to acquire with a blocking nsync_mu_lock *)
Definition waits_lock (f : frame) : option nat :=
  match f with
  | FD n D2 => Some n
  | FN n N1 _ _ | FN n N8 _ _ => Some n
  | FN _ N7 (Some p) _ => Some p
  | FC _ _ (C5 c _) => Some c
  | FF n F1 _ | FF n F5 _ => Some n
  | FF _ F4 (Some p) => Some p
  | FF _ (F6 c _) _ => Some c
  | ANew _ _ (W2 _ p _) => Some p
  | AWait n _ E1 | AWait n _ Q1 => Some n
  | _ => None
  end.
Definition lock_blocked (w : world) (t y : nat) : Prop :=
  exists f rest, stk w t = f :: rest /\ waits_lock f = Some y /\ lock_free w y = false.
(* such a thread cannot move *)
Lemma lock_blocked_step w t y c : lock_blocked w t y -> step1 w t c = (w, EvBlocked).
Proof.
  intros (f & rest & Hst & Hw & Hl). unfold step1, get. unfold stk in Hst. rewrite Hst.
  destruct f as [n s|n s par inc|n par s|n s par| | |par dl s|n dl s|]; try discriminate Hw;
    destruct s; try discriminate Hw; try (destruct par; try discriminate Hw); inversion Hw; subst;
    cbn [step_D step_N step_C step_F step_New step_Wait]; rewrite Hl; reflexivity.
Qed.

Lemma owns_below_D n l : below_D n l -> flat_map owns l = [].
Proof. unfold below_D. intros B. repeat (destruct B as [B|B]); destr_ex; subst; reflexivity. Qed.
Lemma owns_below_N n l : below_N n l -> flat_map owns l = [].
Proof. intros [(x & l' & -> & B)| ->]; [cbn; apply (owns_below_D _ _ B)|reflexivity]. Qed.

(* everything the callers of a note_notify_child (n, par) frame hold lies above n in the tree *)
Lemma chain_below w : tree_ok w -> forall st n par s,
  shape (FC n par s :: st) -> (forall f, In f (FC n par s :: st) -> fokU w f) -> (forall f, In f (FC n par s :: st) -> match f with FC m _ _ | FF m _ _ | FN m _ _ _ => (m < nnext w)%nat | _ => True end) ->
  forall x, In x (flat_map owns st) -> (x < n)%nat.
Proof.
  intros (T1 & T2 & T3 & T0). induction st as [|g r IH]; intros n par s Sh Fk Lt x Hx; [destruct Hx|].
  pose proof (shape_FC _ _ _ _ Sh) as B. pose proof (shape_tail _ _ Sh) as Sh2.
  pose proof (Fk _ (or_introl eq_refl)) as F0. cbn [fokU] in F0. destruct F0 as [Fp _].
  pose proof (Lt _ (or_introl eq_refl)) as Hn. cbn in Hn.
  destruct B as [(inc & l' & E)|[(m & par' & nx & l' & E & ->)|(m & par' & nx & l' & E & ->)]]; inversion E; subst; clear E.
  - cbn [flat_map owns] in Hx. rewrite (owns_below_N _ _ (shape_FN _ _ _ _ _ Sh2)), app_nil_r in Hx.
    destruct par as [p|]; [|destruct Hx]. destruct Hx as [<-|[]]. apply (T0 n p Hn (Fp p eq_refl)).
  - pose proof (T0 n m Hn (Fp m eq_refl)) as Hm.
    cbn [flat_map owns] in Hx. destruct Hx as [<-|Hx]; [exact Hm|]. cbn [app] in Hx.
    assert (x < m)%nat; [|lia].
    eapply (IH m par' (CR n nx)); eauto; intros f Hf; [apply Fk|apply Lt]; right; exact Hf.
  - pose proof (T0 n m Hn (Fp m eq_refl)) as Hm.
    rewrite (shape_bottom _ _ Sh2 I) in Hx. cbn [flat_map owns app] in Hx. rewrite app_nil_r in Hx.
    destruct Hx as [<-|Hx]; [exact Hm|].
    destruct par' as [q|]; [|destruct Hx]. destruct Hx as [<-|[]].
    pose proof (Fk _ (or_intror (or_introl eq_refl))) as F1. cbn [fokU] in F1. destruct F1 as ((Fq & _) & _).
    pose proof (Lt _ (or_intror (or_introl eq_refl))) as Hml. cbn in Hml.
    pose proof (T0 m q Hml (Fq q eq_refl)). lia.
Qed.

Lemma wait_order w t y : InvC w -> broken (gh w) = false -> lock_blocked w t y -> forall x, In x (owned w t) -> (x < y)%nat.
Proof.
  intros (I & H & N & U) B (f & rest & Hst & Hw & Hl) x Hx. specialize (U B).
  pose proof (iu_tree _ U) as T. pose proof T as (T1 & T2 & T3 & T0).
  pose proof (ia_shape _ I t) as Sh. rewrite Hst in Sh.
  assert (forall g, In g (f :: rest) -> fokU w g) as Fk by (intros g Hg; apply (iu_fr _ U t); rewrite Hst; exact Hg).
  assert (forall g, In g (f :: rest) -> fok w t g) as FA by (intros g Hg; apply (ia_fok _ I t); rewrite Hst; exact Hg).
  assert (forall g, In g (f :: rest) -> match g with FC m _ _ | FF m _ _ | FN m _ _ _ => (m < nnext w)%nat | _ => True end) as Lt.
  { intros g Hg. specialize (FA g Hg). destruct g; cbn [fok] in FA; tauto. }
  unfold owned in Hx. rewrite Hst in Hx. cbn [flat_map] in Hx.
  pose proof (Fk _ (or_introl eq_refl)) as F0. pose proof (FA _ (or_introl eq_refl)) as A0.
  destruct f as [n s|n s par inc|n par s|n s par| | |par dl s|n dl s|]; try discriminate Hw;
    destruct s; try discriminate Hw; try (destruct par as [p|]; try discriminate Hw); inversion Hw; subst; clear Hw;
    cbn [owns app opt_list] in Hx; cbn [fokU] in F0; cbn [fok] in A0.
  all: try (rewrite (owns_below_D _ _ (shape_FD _ _ _ Sh)) in Hx; destruct Hx).
  all: try (rewrite (owns_below_N _ _ (shape_FN _ _ _ _ _ Sh)) in Hx; cbn [app] in Hx).
  all: try (rewrite (shape_bottom _ _ Sh Logic.I) in Hx; cbn [flat_map app] in Hx; try rewrite app_nil_r in Hx).
  all: try contradiction.
  - (* N8 *) destruct Hx as [<-|[]]. destruct F0 as (_ & _ & _ & Fp). apply (T0 y p); [tauto|apply Fp; auto].
  - (* C5, par *) destruct F0 as (Fp & Hc & _). destruct A0 as (Hn & _ & _ & (Hy & _)).
    pose proof (T0 y n Hy (T2 n y Hn Hc)) as Hny.
    destruct Hx as [<-|Hx]; [exact Hny|]. pose proof (chain_below w T rest n _ _ Sh Fk Lt x Hx). lia.
  - destruct F0 as (Fp & Hc & _). destruct A0 as (Hn & _ & _ & (Hy & _)).
    pose proof (T0 y n Hy (T2 n y Hn Hc)) as Hny.
    destruct Hx as [<-|Hx]; [exact Hny|]. pose proof (chain_below w T rest n _ _ Sh Fk Lt x Hx). lia.
  - (* F5 *) destruct Hx as [<-|[]]. destruct F0 as ((Fp & _) & _). apply (T0 y p); [tauto|apply Fp; auto].
  - (* F6 *) destruct F0 as ((Fp & _) & (Hc & _) & _). destruct A0 as (Hn & _ & (Hy & _)).
    pose proof (T0 y n Hy (T2 n y Hn Hc)) as Hny.
    destruct Hx as [<-|[<-|[]]]; [exact Hny|]. pose proof (T0 n p Hn (Fp p eq_refl)). lia.
  - destruct F0 as ((Fp & _) & (Hc & _) & _). destruct A0 as (Hn & _ & (Hy & _)).
    pose proof (T0 y n Hy (T2 n y Hn Hc)) as Hny.
    destruct Hx as [<-|[]]. exact Hny.
Qed.

Lemma lock_blocked_dec w t : (exists y, lock_blocked w t y) \/ (forall y, ~ lock_blocked w t y).
Proof.
  destruct (stk w t) as [|f rest] eqn:Hst.
  - right. intros y (f & rest & E & _). rewrite Hst in E. discriminate E.
  - destruct (waits_lock f) as [y|] eqn:Hw.
    + destruct (lock_free w y) eqn:Hl.
      * right. intros y' (f' & rest' & E & Hw' & Hl'). rewrite Hst in E. inversion E; subst. rewrite Hw in Hw'. inversion Hw'; subst. congruence.
      * left. exists y, f, rest. auto.
    + right. intros y' (f' & rest' & E & Hw' & _). rewrite Hst in E. inversion E; subst. congruence.
Qed.
Lemma held_by w y : lock_free w y = false -> exists h, lock (nt w y) = Some h.
Proof. unfold lock_free. destruct (lock (nt w y)) as [h|]; [eauto|discriminate]. Qed.

Theorem no_lock_deadlock w : reachable w -> broken (gh w) = false ->
  forall t y, lock_blocked w t y -> exists t', stk w t' <> [] /\ forall y', ~ lock_blocked w t' y'.
Proof.
  intros R B. pose proof (InvC_reachable w R) as C. pose proof C as (I & H & N & U).
  assert (forall k t y, (nnext w - y <= k)%nat -> lock_blocked w t y -> exists t', stk w t' <> [] /\ forall y', ~ lock_blocked w t' y') as X.
  { induction k as [|k IH]; intros t y Hk Hb.
    - destruct Hb as (f & rest & Hst & Hw & Hl). destruct (held_by w y Hl) as (h & Hh).
      apply (ih_own _ H) in Hh. pose proof (ih_bound _ H h y Hh). lia.
    - pose proof Hb as (f & rest & Hst & Hw & Hl). destruct (held_by w y Hl) as (h & Hh).
      apply (ih_own _ H) in Hh.
      assert (stk w h <> []) as Hne by (intros E; unfold owned in Hh; rewrite E in Hh; destruct Hh).
      destruct (lock_blocked_dec w h) as [(y' & Hb')|Hnb]; [|exists h; auto].
      pose proof (wait_order w h y' C B Hb' y Hh) as Hlt.
      apply (IH h y'); [lia|exact Hb']. }
  intros t y Hb. apply (X (nnext w - y)%nat t y); auto.
Qed.

(* no lock is leaked *)
Theorem lock_has_owner w t x : reachable w -> lock (nt w x) = Some t -> exists f, In f (stk w t) /\ In x (owns f).
Proof.
  intros R Hl. destruct (InvC_reachable w R) as (_ & H & _). apply (ih_own _ H) in Hl. unfold owned in Hl.
  apply in_flat_map in Hl. exact Hl.
Qed.
Theorem idle_unlocked w x : reachable w -> (forall t, stk w t = []) -> lock (nt w x) = None.
Proof.
  intros R Hi. destruct (lock (nt w x)) as [t|] eqn:E; [|reflexivity].
  destruct (lock_has_owner w t x R E) as (f & Hf & _). rewrite Hi in Hf. destruct Hf.
Qed.

(* the waits that are not lock acquisitions: nsync_mu_wait on disconnecting == 0 (notify, free), on "no children"
   (note_notify_child) and on children_changed (free), and the semaphore wait of nsync_note_wait *)
Definition cond_wait (f : frame) : Prop :=
  match f with
  | FN _ N3 _ _ | FC _ _ C8 | FF _ Fw2 _ | FF _ (F10 _) _ | AWait _ _ (S1 _) => True
  | _ => False
  end.
Lemma blocked_cases w t c : snd (step1 w t c) = EvBlocked ->
  (exists y, lock_blocked w t y) \/ (exists f rest, stk w t = f :: rest /\ cond_wait f).
Proof.
  unfold lock_blocked, stk. leaves.
  all: cbn [snd]; try discriminate.
  all: intros _.
  all: try solve [right; do 2 eexists; split; [reflexivity|exact Logic.I]].
  all: try solve [left; eexists; do 2 eexists; split; [reflexivity|split; [reflexivity|assumption]]].
Qed.

Theorem no_stuck_locks w : reachable w -> broken (gh w) = false ->
  forall t y, lock_blocked w t y ->
  exists t', stk w t' <> [] /\ forall c, snd (step1 w t' c) = EvBlocked -> exists f rest, stk w t' = f :: rest /\ cond_wait f.
Proof.
  intros R B t y Hb. destruct (no_lock_deadlock w R B t y Hb) as (t' & Hne & Hnb).
  exists t'. split; [exact Hne|]. intros c Hc. destruct (blocked_cases w t' c Hc) as [(y' & Hy)|Hcw]; [exfalso; eapply Hnb; eauto|exact Hcw].
Qed.
