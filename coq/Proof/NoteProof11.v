(* NoteProof11: C09, the ranking argument.  In a world satisfying InvC and InvS (NoteProof8) every thread that is inside a
   call and blocked -- on a note lock or in one of the four condition waits -- has a responsible thread that can take a
   step or is blocked at a strictly higher rank:
     rank 0        nsync_mu_wait (not_disconnecting) in notify / nsync_note_free (the thread holds nothing);
     rank 2n+1     "no children" of note n in note_notify_child, children_changed of n in nsync_note_free;
     rank 2y+2     a blocking nsync_mu_lock of y->note_mu.
   A lock is waited for its holder; disconnecting > 0 for the thread counted in it; a child c that stays in n's list for
   the thread counted in c->disconnecting (kfact).  Note ids grow from parent to child, so the ranks are bounded. *)
From Coq Require Import String.
From NsyncBase Require Import CSem.
From NsyncGen Require Import Consts Sites.
From NsyncModel Require Import NoteModel.
From NsyncProof Require Import NoteProof NoteProof2 NoteProof3 NoteProof4 NoteProof7 NoteProof8.
From Coq Require Import List ZArith Bool Lia Arith.
Import ListNotations.
Local Open Scope Z_scope.

Definition progress (w : world) : Prop := exists t c, stk w t <> [] /\ snd (step1 w t c) <> EvBlocked.

Definition wrank (f : frame) : option nat :=
  match f with
  | FN _ N3 _ _ => Some 0%nat
  | FF _ Fw2 _ => Some 0%nat
  | FC n _ C8 => Some (2 * n + 1)%nat
  | FF n (F10 _) _ => Some (2 * n + 1)%nat
  | _ => match waits_lock f with Some y => Some (2 * y + 2)%nat | None => None end
  end.

(* what the top frame of a thread can be doing *)
Lemma top_cases w t f rest : stk w t = f :: rest ->
  (exists c, snd (step1 w t c) <> EvBlocked) \/
  (exists y, waits_lock f = Some y /\ lock_free w y = false) \/
  (exists n par inc, f = FN n N3 par inc /\ (lock_free w n && not_disconnecting w n) = false) \/
  (exists n par, f = FF n Fw2 par /\ (lock_free w n && not_disconnecting w n) = false) \/
  (exists n par, f = FC n par C8 /\ (lock_free w n && no_children w n) = false) \/
  (exists n seen par, f = FF n (F10 seen) par /\ (lock_free w n && children_changed w n seen) = false) \/
  (exists n dl d, f = AWait n dl (S1 d)).
Proof.
  intros Hst. unfold step1, get. unfold stk in Hst. rewrite Hst.
  destruct f as [n s|n s par inc|n par s|n s par|n|n|par dl s|n dl s|n]; try destruct s;
    cbn [step_D step_N step_C step_F step_New step_Wait waits_lock].
  all: try solve [left; exists false; split_match; cbn [snd]; discriminate].
  all: try solve [do 6 right; eauto].
  all: try match goal with |- context [lock_free ?w0 ?y && ?b] => destruct (lock_free w0 y && b) eqn:E end.
  all: try solve [left; exists false; split_match; cbn [snd]; discriminate].
  all: try solve [right; right; left; eauto].
  all: try solve [right; right; right; left; eauto].
  all: try solve [right; right; right; right; left; eauto].
  all: try solve [right; right; right; right; right; left; eauto].
  all: try (destruct par as [p|]).
  all: try solve [left; exists false; split_match; cbn [snd]; discriminate].
  all: match goal with |- context [lock_free ?w0 ?y] => destruct (lock_free w0 y) eqn:E end.
  all: try solve [left; exists false; split_match; cbn [snd]; discriminate].
  all: right; left; eexists; split; [reflexivity|exact E].
Qed.

(* ---------- the thread counted in x->disconnecting: what its top frame can be ---------- *)
Definition good (x : nat) (f : frame) : Prop :=
  match f with
  | FN m _ _ inc => m = x /\ inc = true
  | FC d _ s => (x <= d)%nat \/ match s with CR c _ | C6 c _ true => c = x | _ => False end
  | FF m s _ => (m = x /\ in_disc s = true) \/ match s with FR c _ | F8 c _ true => c = x | _ => False end
  | _ => False
  end.
Lemma ncontrib_good f x : (ncontrib f x >= 1)%nat -> good x f.
Proof.
  destruct f as [| m s par inc | m par s | m s par | | | | |]; cbn; try lia.
  - destruct inc; cbn; [|lia]. destruct (Nat.eqb_spec m x); cbn; [auto|lia].
  - destruct s; try lia; try (destruct dec; try lia); destruct (Nat.eqb_spec c x); cbn; try lia; auto.
  - intros H. destruct (in_disc s) eqn:Es, (Nat.eqb_spec m x); cbn in H; auto.
    all: right; destruct s; try lia; try (destruct dec; try lia); destruct (Nat.eqb_spec c x); cbn in H; try lia; auto.
Qed.
Lemma good_top w t st x :
  tree_ok w -> shape st -> (forall f, In f st -> fokU w f) -> (forall f, In f st -> fok w t f) ->
  (scount st x >= 1)%nat -> exists f rest, st = f :: rest /\ good x f.
Proof.
  intros (T1 & T2 & T3 & T0). induction st as [|f r IH]; intros Sh Fk FA Hc; [cbn in Hc; lia|].
  exists f, r. split; [reflexivity|]. rewrite scount_cons in Hc.
  destruct (Nat.eq_dec (ncontrib f x) 0) as [Hz|Hnz]; [|apply ncontrib_good; lia].
  destruct (IH (shape_tail _ _ Sh)) as (g & r' & -> & Hg); [intros; apply Fk; right; auto|intros; apply FA; right; auto|lia|].
  pose proof (Fk f (or_introl eq_refl)) as Ff. pose proof (FA f (or_introl eq_refl)) as Af.
  cbn in Sh. destruct Sh as [L _].
  destruct g as [| m s par inc | m par s | m s par | | | | |]; cbn in Hg; try contradiction.
  - (* caller notify at N9 *) destruct Hg as [-> _].
    destruct f; cbn in L; try contradiction. destruct s; try contradiction. destruct L as [-> _]. cbn. left. lia.
  - (* caller note_notify_child at CR *)
    destruct f as [| | d pard sd | | | | | |]; cbn in L; try contradiction. destruct s; try contradiction. destruct L as [-> ->].
    cbn in Ff, Af. destruct Ff as [Fp _]. destruct Af as (Hd & _).
    pose proof (T0 c m Hd (Fp m eq_refl)). cbn. left. destruct Hg as [Hg|Hg]; [lia|subst; lia].
  - (* caller nsync_note_free at FR *)
    destruct f as [| | d pard sd | | | | | |]; cbn in L; try contradiction. destruct s; try contradiction. destruct L as [-> ->].
    cbn in Ff, Af. destruct Ff as [Fp _]. destruct Af as (Hd & _).
    pose proof (T0 c m Hd (Fp m eq_refl)). cbn. left. destruct Hg as [[-> _]|Hg]; [lia|subst; lia].
Qed.

Definition rank_bound (w : world) : nat := (2 * nnext w + 3)%nat.

Section Chase.
Variable w : world.
Hypothesis C : InvC w.
Hypothesis B : broken (gh w) = false.
Hypothesis S : InvS w.

Let I : InvA w := proj1 C.
Let H : InvH w := proj1 (proj2 C).
Let U : InvU w := proj2 (proj2 (proj2 C)) B.

Lemma held_lt y h : lock (nt w y) = Some h -> (y < nnext w)%nat.
Proof. intros Hl. apply (ih_bound _ H h). apply (ih_own _ H). exact Hl. Qed.

(* the holder of y's lock can step, or waits at a rank above 2y+2 *)
Lemma holder_next y h : lock (nt w y) = Some h ->
  progress w \/ exists f rest v, stk w h = f :: rest /\ wrank f = Some v /\ (2 * y + 2 < v)%nat /\ (v < rank_bound w)%nat.
Proof.
  intros Hl. pose proof Hl as Ho. apply (ih_own _ H) in Ho.
  destruct (stk w h) as [|f rest] eqn:Hst; [unfold owned in Ho; rewrite Hst in Ho; destruct Ho|].
  pose proof (iu_tree _ U) as T. pose proof T as (T1 & T2 & T3 & T0).
  pose proof (ia_shape _ I h) as Sh. rewrite Hst in Sh.
  assert (forall g, In g (f :: rest) -> fokU w g) as Fk by (intros g Hg; apply (iu_fr _ U h); rewrite Hst; exact Hg).
  assert (forall g, In g (f :: rest) -> fok w h g) as FA by (intros g Hg; apply (ia_fok _ I h); rewrite Hst; exact Hg).
  assert (forall g, In g (f :: rest) -> match g with FC m _ _ | FF m _ _ | FN m _ _ _ => (m < nnext w)%nat | _ => True end) as Lt.
  { intros g Hg. specialize (FA g Hg). destruct g; cbn [fok] in FA; tauto. }
  unfold rank_bound.
  destruct (top_cases w h f rest Hst) as [(c & Hc)|[(y' & Hw & Hf)|[(n & par & inc & -> & _)|[(n & par & -> & _)|[(n & par & -> & _)|[(n & seen & par & -> & _)|(n & dl & d & ->)]]]]]].
  - left. exists h, c. split; [rewrite Hst; discriminate|exact Hc].
  - right. assert (lock_blocked w h y') as Hb by (exists f, rest; auto).
    pose proof (wait_order w h y' C B Hb y Ho) as Hlt.
    destruct (held_by w y' Hf) as (h' & Hh'). pose proof (held_lt _ _ Hh').
    exists f, rest, (2 * y' + 2)%nat. split; [reflexivity|]. split; [|lia].
    destruct f as [n s|n s par inc|n par s|n s par|n|n|par dl s|n dl s|n]; try discriminate Hw; destruct s; try discriminate Hw; cbn [wrank]; rewrite Hw; reflexivity.
  - exfalso. unfold owned in Ho. rewrite Hst in Ho. cbn [flat_map owns app] in Ho.
    rewrite (owns_below_N _ _ (shape_FN _ _ _ _ _ Sh)) in Ho. destruct Ho.
  - exfalso. unfold owned in Ho. rewrite Hst in Ho. rewrite (shape_bottom _ _ Sh Logic.I) in Ho. destruct Ho.
  - right. unfold owned in Ho. rewrite Hst in Ho. cbn [flat_map owns app] in Ho.
    pose proof (chain_below w T rest n par C8 Sh Fk Lt y Ho) as Hlt.
    pose proof (Lt _ (or_introl eq_refl)) as Hn. cbn in Hn.
    exists (FC n par C8), rest, (2 * n + 1)%nat. split; [reflexivity|]. split; [reflexivity|lia].
  - right. unfold owned in Ho. rewrite Hst in Ho. rewrite (shape_bottom _ _ Sh Logic.I) in Ho. cbn [flat_map owns app opt_list] in Ho.
    destruct par as [p|]; [|destruct Ho]. destruct Ho as [<-|[]].
    pose proof (Fk _ (or_introl eq_refl)) as F0. cbn in F0. destruct F0 as ((Fp & _) & _).
    pose proof (Lt _ (or_introl eq_refl)) as Hn. cbn in Hn.
    pose proof (T0 n p Hn (Fp p eq_refl)) as Hlt.
    exists (FF n (F10 seen) (Some p)), rest, (2 * n + 1)%nat. split; [reflexivity|]. split; [reflexivity|lia].
  - exfalso. unfold owned in Ho. rewrite Hst in Ho. rewrite (shape_bottom _ _ Sh Logic.I) in Ho. destruct Ho.
Qed.

(* the thread counted in x->disconnecting can step, or waits at a rank >= 1 that is above 2p+1 for x's parent p *)
Lemma dholder_next x r : (tcount w r x >= 1)%nat ->
  progress w \/ exists f rest v, stk w r = f :: rest /\ wrank f = Some v /\ (1 <= v)%nat /\ (v < rank_bound w)%nat /\
                                 forall p, parent (nt w x) = Some p -> (2 * p + 1 < v)%nat.
Proof.
  intros Hc. pose proof (iu_tree _ U) as T. pose proof T as (T1 & T2 & T3 & T0).
  pose proof (tcount_lt w r x I Hc) as Hx.
  destruct (good_top w r (stk w r) x T (ia_shape _ I r) (iu_fr _ U r) (ia_fok _ I r) Hc) as (f & rest & Hst & Hg).
  pose proof (iu_fr _ U r f ltac:(rewrite Hst; left; reflexivity)) as Ff.
  pose proof (ia_fok _ I r f ltac:(rewrite Hst; left; reflexivity)) as Af.
  assert (forall p, parent (nt w x) = Some p -> (p < x)%nat) as Px by (intros p Hp; apply (T0 x p Hx Hp)).
  unfold rank_bound.
  destruct (top_cases w r f rest Hst) as [(c & Hcs)|[(y' & Hw & Hf)|[(n & par & inc & -> & _)|[(n & par & -> & _)|[(n & par & -> & _)|[(n & seen & par & -> & _)|(n & dl & d & ->)]]]]]].
  - left. exists r, c. split; [rewrite Hst; discriminate|exact Hcs].
  - right. destruct (held_by w y' Hf) as (h' & Hh'). pose proof (held_lt _ _ Hh') as Hy'.
    exists f, rest, (2 * y' + 2)%nat. split; [exact Hst|].
    assert (wrank f = Some (2 * y' + 2)%nat) as Hr.
    { destruct f as [n s|n s par inc|n par s|n s par|n|n|par dl s|n dl s|n]; try discriminate Hw; destruct s; try discriminate Hw; cbn [wrank]; rewrite Hw; reflexivity. }
    split; [exact Hr|]. split; [lia|]. split; [lia|]. intros p Hp. specialize (Px p Hp).
    destruct f as [n s|n s par inc|n par s|n s par|n|n|par dl s|n dl s|n]; cbn [good] in Hg; try contradiction.
    + (* notify *) destruct Hg as [-> ->]. cbn [fokU] in Ff. destruct Ff as (F1 & _ & _ & F4).
      destruct s; try discriminate Hw; try (exfalso; destruct (F1 eq_refl) as (? & ? & ? & ?); congruence).
      * destruct par as [q|]; [|discriminate Hw]. inversion Hw; subst. rewrite (F4 y' eq_refl ltac:(tauto)) in Hp. inversion Hp; subst. lia.
      * inversion Hw; subst. lia.
    + (* note_notify_child at C5 *) destruct s; try discriminate Hw. inversion Hw; subst.
      cbn [fokU fok] in Ff, Af. destruct Ff as (_ & Hin & _). destruct Af as (Hn & _).
      pose proof (T0 y' n Hy' (T2 n y' Hn Hin)). destruct Hg as [Hg|[]]. lia.
    + (* nsync_note_free *) cbn [fokU fok] in Ff, Af. destruct Af as (Hn & _).
      destruct s; try discriminate Hw; cbn [in_disc] in Hg.
      * destruct Hg as [[_ Hg]|[]]. discriminate Hg.
      * destruct par as [q|]; [|discriminate Hw]. inversion Hw; subst. destruct Hg as [[-> _]|[]].
        destruct Ff as ((Fp & _) & _). rewrite (Fp y' eq_refl) in Hp. inversion Hp; subst. lia.
      * inversion Hw; subst. destruct Hg as [[-> _]|[]]. lia.
      * inversion Hw; subst. destruct Hg as [[-> _]|[]]. destruct Ff as (_ & (Hin & _) & _).
        pose proof (T0 y' x Hy' (T2 x y' Hn Hin)). lia.
  - exfalso. cbn in Hg, Ff. destruct Hg as [_ ->]. destruct Ff as (F1 & _). destruct (F1 eq_refl) as (_ & _ & F3 & _). congruence.
  - exfalso. cbn in Hg. destruct Hg as [[_ Hg]|[]]. discriminate Hg.
  - right. cbn in Hg. destruct Hg as [Hg|[]]. cbn in Af. destruct Af as (Hn & _).
    exists (FC n par C8), rest, (2 * n + 1)%nat. split; [exact Hst|]. split; [reflexivity|]. split; [lia|]. split; [lia|].
    intros p Hp. specialize (Px p Hp). lia.
  - right. cbn in Hg. destruct Hg as [[-> _]|[]]. cbn in Af. destruct Af as (Hn & _).
    exists (FF x (F10 seen) par), rest, (2 * x + 1)%nat. split; [exact Hst|]. split; [reflexivity|]. split; [lia|]. split; [lia|].
    intros p Hp. specialize (Px p Hp). lia.
  - exfalso. exact Hg.
Qed.

Lemma disc_holder x : (x < nnext w)%nat -> (0 < disc (nt w x))%nat -> exists r, (tcount w r x >= 1)%nat.
Proof. apply (s_exact _ (proj1 S)). Qed.

Lemma chase : forall k t f rest v, stk w t = f :: rest -> wrank f = Some v -> (v < rank_bound w)%nat -> (rank_bound w - v <= k)%nat -> progress w.
Proof.
  pose proof (iu_tree _ U) as T. pose proof T as (T1 & T2 & T3 & T0).
  induction k as [|k IH]; intros t f rest v Hst Hr Hv Hk; [lia|].
  assert (forall t' f' rest' v', stk w t' = f' :: rest' -> wrank f' = Some v' -> (v < v')%nat -> (v' < rank_bound w)%nat -> progress w) as Next.
  { intros t' f' rest' v' Hst' Hr' Hlt Hb'. apply (IH t' f' rest' v' Hst' Hr' Hb'). lia. }
  assert (forall y h, lock (nt w y) = Some h -> (v <= 2 * y + 2)%nat -> progress w) as ViaLock.
  { intros y h Hl Hle. destruct (holder_next y h Hl) as [P|(f' & rest' & v' & Hst' & Hr' & Hlt & Hb')]; [exact P|].
    eapply Next; eauto. lia. }
  assert (forall x p, (x < nnext w)%nat -> (0 < disc (nt w x))%nat -> (v = 0%nat \/ (parent (nt w x) = Some p /\ v <= 2 * p + 1)%nat) -> progress w) as ViaDisc.
  { intros x p Hx Hd Hle. destruct (disc_holder x Hx Hd) as (r & Hc).
    destruct (dholder_next x r Hc) as [P|(f' & rest' & v' & Hst' & Hr' & H1 & Hb' & Hp)]; [exact P|].
    eapply Next; eauto. destruct Hle as [->|[Hpar Hle]]; [lia|]. specialize (Hp p Hpar). lia. }
  pose proof (ia_fok _ I t f ltac:(rewrite Hst; left; reflexivity)) as Af.
  destruct (top_cases w t f rest Hst) as [(c & Hc)|[(y & Hw & Hf)|[(n & par & inc & -> & Hcond)|[(n & par & -> & Hcond)|[(n & par & -> & Hcond)|[(n & seen & par & -> & Hcond)|(n & dl & d & ->)]]]]]].
  - exists t, c. split; [rewrite Hst; discriminate|exact Hc].
  - destruct (held_by w y Hf) as (h & Hl). apply (ViaLock y h Hl).
    destruct f as [n s|n s par inc|n par s|n s par|n|n|par dl s|n dl s|n]; try discriminate Hw; destruct s; try discriminate Hw; cbn [wrank] in Hr; rewrite Hw in Hr; inversion Hr; lia.
  - cbn in Hr. inversion Hr; subst v. cbn in Af. destruct Af as (Hn & _).
    destruct (lock_free w n) eqn:El.
    + cbn in Hcond. unfold not_disconnecting in Hcond. apply Nat.eqb_neq in Hcond. apply (ViaDisc n 0%nat Hn); [lia|auto].
    + destruct (held_by w n El) as (h & Hl). apply (ViaLock n h Hl). lia.
  - cbn in Hr. inversion Hr; subst v. cbn in Af. destruct Af as (Hn & _).
    destruct (lock_free w n) eqn:El.
    + cbn in Hcond. unfold not_disconnecting in Hcond. apply Nat.eqb_neq in Hcond. apply (ViaDisc n 0%nat Hn); [lia|auto].
    + destruct (held_by w n El) as (h & Hl). apply (ViaLock n h Hl). lia.
  - cbn in Hr. inversion Hr; subst v. cbn in Af. destruct Af as (Hn & _).
    destruct (lock_free w n) eqn:El.
    + cbn in Hcond. unfold no_children in Hcond. destruct (children (nt w n)) as [|c0 l] eqn:Ec; [discriminate|].
      pose proof (proj2 S t (FC n par C8) ltac:(rewrite Hst; left; reflexivity)) as K. cbn in K.
      destruct (K c0 ltac:(rewrite Ec; left; reflexivity)) as [Hd|[]].
      assert (In c0 (children (nt w n))) as Hin by (rewrite Ec; left; reflexivity).
      destruct (ia_chl _ I n c0 Hn Hin) as [Hc0 _].
      apply (ViaDisc c0 n Hc0 Hd). right. split; [apply T2; auto|lia].
    + destruct (held_by w n El) as (h & Hl). apply (ViaLock n h Hl). lia.
  - cbn in Hr. inversion Hr; subst v. cbn in Af. destruct Af as (Hn & _).
    destruct (lock_free w n) eqn:El.
    + cbn in Hcond. unfold children_changed in Hcond. apply orb_false_iff in Hcond. destruct Hcond as [Hnc Had].
      apply negb_false_iff, Nat.eqb_eq in Had.
      unfold no_children in Hnc. destruct (children (nt w n)) as [|c0 l] eqn:Ec; [discriminate|].
      pose proof (proj2 S t (FF n (F10 seen) par) ltac:(rewrite Hst; left; reflexivity)) as K. cbn in K.
      destruct K as [_ [K|K]]; [|lia].
      destruct (K c0 ltac:(rewrite Ec; left; reflexivity)) as [Hd|[]].
      assert (In c0 (children (nt w n))) as Hin by (rewrite Ec; left; reflexivity).
      destruct (ia_chl _ I n c0 Hn Hin) as [Hc0 _].
      apply (ViaDisc c0 n Hc0 Hd). right. split; [apply T2; auto|lia].
    + destruct (held_by w n El) as (h & Hl). apply (ViaLock n h Hl). lia.
  - cbn in Hr. discriminate Hr.
Qed.

(* a thread inside a call and not in the semaphore wait: somebody can step *)
Lemma incall_progress t f rest : stk w t = f :: rest -> (forall n dl d, f <> AWait n dl (S1 d)) -> progress w.
Proof.
  intros Hst Hns.
  pose proof (ia_fok _ I t f ltac:(rewrite Hst; left; reflexivity)) as Af.
  destruct (top_cases w t f rest Hst) as [(c & Hc)|[(y & Hw & Hf)|[(n & par & inc & -> & Hcond)|[(n & par & -> & Hcond)|[(n & par & -> & Hcond)|[(n & seen & par & -> & Hcond)|(n & dl & d & ->)]]]]]].
  - exists t, c. split; [rewrite Hst; discriminate|exact Hc].
  - destruct (held_by w y Hf) as (h & Hl). pose proof (held_lt _ _ Hl).
    apply (chase (rank_bound w) t f rest (2 * y + 2)%nat Hst); unfold rank_bound; try lia.
    destruct f as [n s|n s par inc|n par s|n s par|n|n|par dl s|n dl s|n]; try discriminate Hw; destruct s; try discriminate Hw; cbn [wrank]; rewrite Hw; reflexivity.
  - apply (chase (rank_bound w) t _ rest 0%nat Hst eq_refl); unfold rank_bound; lia.
  - apply (chase (rank_bound w) t _ rest 0%nat Hst eq_refl); unfold rank_bound; lia.
  - cbn in Af. destruct Af as (Hn & _). apply (chase (rank_bound w) t _ rest (2 * n + 1)%nat Hst eq_refl); unfold rank_bound; lia.
  - cbn in Af. destruct Af as (Hn & _). apply (chase (rank_bound w) t _ rest (2 * n + 1)%nat Hst eq_refl); unfold rank_bound; lia.
  - exfalso. eapply Hns; reflexivity.
Qed.
(* the holder of a lock is inside a call and not in the semaphore wait *)
Lemma held_progress y h : lock (nt w y) = Some h -> progress w.
Proof.
  intros Hl. destruct (holder_next y h Hl) as [P|(f & rest & v & Hst & Hr & _)]; [exact P|].
  apply (incall_progress h f rest Hst). intros n dl d ->. discriminate Hr.
Qed.
End Chase.

Lemma progress_step w : progress w -> exists t c, snd (step w t c) <> EvBlocked.
Proof.
  intros (t & c & Hne & Hs). exists t, c. rewrite step_step1.
  assert (begin_call w t = w) as ->; [|exact Hs].
  unfold begin_call, get. unfold stk in Hne. destruct (stack (thr w t)); [congruence|reflexivity].
Qed.

(* the first step of a call that begins *)
Lemma first_step w t c : stk w t = [] -> snd (step w t c) = EvBlocked -> exists y h, lock (nt w y) = Some h.
Proof.
  intros Hst. rewrite step_step1.
  assert (forall x, nt (begin_call w t) x = nt w x) as N by (intros; unfold nt; now rewrite notes_begin).
  destruct (begin_stack w t) as [E|[[_ E]|(_ & o & rest & _ & E & _)]].
  - rewrite Hst in E. unfold step1, get. unfold stk in E. rewrite E. cbn. discriminate.
  - unfold step1, get. unfold stk in E. rewrite E. cbn. discriminate.
  - unfold step1, get. unfold stk in E. rewrite E. destruct o; cbn [init_stack step_D step_New step_F snd]; try discriminate.
    + destruct c; cbn; discriminate.
    + destruct (flag (nt (begin_call w t) n) =? 0); cbn; discriminate.
    + destruct (flag (nt (begin_call w t) n) =? 0); cbn; discriminate.
    + destruct (flag (nt (begin_call w t) n) =? 0); cbn; discriminate.
    + destruct (lock_free (begin_call w t) n) eqn:El.
      * destruct (not_disconnecting (acquire (begin_call w t) t n) n); cbn; discriminate.
      * intros _. unfold lock_free in El. rewrite N in El. destruct (lock (nt w n)) as [h|] eqn:Eh; [eauto|discriminate].
Qed.

Lemma ev_blocked_dec (e : ev) : e = EvBlocked \/ e <> EvBlocked.
Proof. destruct e; auto; right; discriminate. Qed.

Theorem no_stuck_cond w : InvC w -> broken (gh w) = false -> InvS w ->
  (exists t, unfinished w t /\ ~ (exists n dl d rest, stk w t = AWait n dl (S1 d) :: rest)) ->
  exists t c, snd (step w t c) <> EvBlocked.
Proof.
  intros C B S (t & Hu & Hns).
  destruct (stk w t) as [|f rest] eqn:Hst.
  - (* the thread is about to begin a call *)
    destruct (ev_blocked_dec (snd (step w t false))) as [Eb|Eb]; [|eauto].
    destruct (first_step w t false Hst Eb) as (y & h & Hl).
    apply progress_step. eapply held_progress; eauto.
  - apply progress_step. apply (incall_progress w C B S t f rest Hst).
    intros n dl d ->. apply Hns. eauto.
Qed.
Print Assumptions no_stuck_cond.
