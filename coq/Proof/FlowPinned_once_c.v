(* The control structure of once.c between its atomic sites, regenerated from /repo on this run, is the pinned one. *)
From Coq Require Import String List.
From NsyncGen Require Import Flow.
From NsyncModel Require Import FlowExpected.

Lemma flow_current_once_c : flow_once_c = expected_flow_once_c.
Proof. vm_compute. reflexivity. Qed.
