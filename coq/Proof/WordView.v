(* WordView: the "lock view" of the 32-bit mutex word.
   For 0 <= x < 2^32 the lock-relevant content of the word is the pair
     (x mod 2, x / 256) = (write bit, reader count);
   bits 1..7 are flags.  This file proves, once, how the C operators used in
   mu.c (|, & ~c, +1, -1, +256, -256, all wrapped to 32 bits) act on that view.
   No model, no generated definitions here. *)
From NsyncBase Require Import CSem.
From Coq Require Import ZArith Bool List Lia.
Local Open Scope Z_scope.

Ltac Zify.zify_post_hook ::= Z.div_mod_to_equations.

Definition rng (x : Z) : Prop := 0 <= x < 4294967296.

Lemma wrap32 x : rng x -> wrap_u 32 x = x.
Proof. unfold rng, wrap_u. change (2 ^ 32) with 4294967296. intros. apply Z.mod_small. assumption. Qed.

Lemma wrap32_rng x : rng (wrap_u 32 x).
Proof. unfold rng, wrap_u. change (2 ^ 32) with 4294967296. apply Z.mod_pos_bound. reflexivity. Qed.

(* ---- bit 0 ---- *)
Lemma bit0_mod2 x : Z.testbit x 0 = (x mod 2 =? 1).
Proof.
  pose proof (Z.bit0_mod x) as H. pose proof (Z.mod_pos_bound x 2 ltac:(reflexivity)) as B.
  destruct (Z.testbit x 0); simpl in H; rewrite <- H; reflexivity.
Qed.

Lemma land_mod2 x m : Z.land x m mod 2 = (x mod 2) * (m mod 2).
Proof. rewrite <- !Z.bit0_mod, Z.land_spec. destruct (Z.testbit x 0), (Z.testbit m 0); reflexivity. Qed.

Lemma lor_mod2_even x s : s mod 2 = 0 -> Z.lor x s mod 2 = x mod 2.
Proof.
  intros H. rewrite <- (Z.bit0_mod (Z.lor x s)), <- (Z.bit0_mod x), Z.lor_spec.
  rewrite <- Z.bit0_mod in H. destruct (Z.testbit s 0); [discriminate|]. now rewrite orb_false_r.
Qed.

(* ---- division by 256 commutes with & and | ---- *)
Lemma land_div256 x m : Z.land x m / 256 = Z.land (x / 256) (m / 256).
Proof. change 256 with (2 ^ 8). rewrite <- !Z.shiftr_div_pow2 by lia. apply Z.shiftr_land. Qed.

Lemma lor_div256 x m : Z.lor x m / 256 = Z.lor (x / 256) (m / 256).
Proof. change 256 with (2 ^ 8). rewrite <- !Z.shiftr_div_pow2 by lia. apply Z.shiftr_lor. Qed.

Lemma land_ones24 r : 0 <= r < 16777216 -> Z.land r 16777215 = r.
Proof. intros. change 16777215 with (Z.ones 24). rewrite Z.land_ones by lia. apply Z.mod_small. exact H. Qed.

(* ---- small = a flag mask below the reader field, bit 0 clear ---- *)
Definition small (c : Z) : Prop := 0 <= c < 256 /\ c mod 2 = 0.

Lemma small_lor a b : small a -> small b -> small (Z.lor a b).
Proof.
  intros [Ra Ea] [Rb Eb]. split.
  - assert (0 <= Z.lor a b) by (apply Z.lor_nonneg; lia).
    assert (Z.lor a b / 256 = 0) as D.
    { rewrite lor_div256. replace (a / 256) with 0 by lia. replace (b / 256) with 0 by lia. reflexivity. }
    lia.
  - rewrite lor_mod2_even by assumption. assumption.
Qed.

Lemma small_land_l a b : small a -> small (Z.land a b).
Proof.
  intros [Ra Ea]. split.
  - assert (0 <= Z.land a b) by (apply Z.land_nonneg; lia).
    assert (Z.land a b / 256 = 0) as D.
    { rewrite land_div256. replace (a / 256) with 0 by lia. reflexivity. }
    lia.
  - rewrite land_mod2, Ea. reflexivity.
Qed.

Lemma small_rng c : small c -> rng c.
Proof. unfold small, rng. lia. Qed.

Lemma small_wrap c : small c -> small (wrap_u 32 c).
Proof. intros H. rewrite wrap32; [assumption | now apply small_rng]. Qed.

(* ---- SL x y : y is a 32-bit word with the same lock view as x ---- *)
Definition SL (x y : Z) : Prop := rng y /\ y mod 2 = x mod 2 /\ y / 256 = x / 256.

Lemma SL_refl x : rng x -> SL x x.
Proof. unfold SL; auto. Qed.

Lemma SL_trans x y z : SL x y -> SL y z -> SL x z.
Proof. unfold SL; intuition congruence. Qed.

Lemma SL_wrap x y : SL x y -> SL x (wrap_u 32 y).
Proof. intros H. rewrite wrap32; [assumption | apply H]. Qed.

Lemma SL_land_clear x y c : SL x y -> small c -> SL x (Z.land y (4294967295 - c)).
Proof.
  intros (Ry & My & Dy) [Rc Ec]. unfold rng in Ry.
  assert (Z.land y (4294967295 - c) / 256 = y / 256) as D.
  { rewrite land_div256. replace ((4294967295 - c) / 256) with 16777215 by lia. apply land_ones24. lia. }
  assert (0 <= Z.land y (4294967295 - c)) as N by (apply Z.land_nonneg; lia).
  repeat split.
  - exact N.
  - lia.
  - rewrite land_mod2. replace ((4294967295 - c) mod 2) with 1 by lia. lia.
  - lia.
Qed.

Lemma SL_lor_set x y s : SL x y -> small s -> SL x (Z.lor y s).
Proof.
  intros (Ry & My & Dy) [Rs Es]. unfold rng in Ry.
  assert (Z.lor y s / 256 = y / 256) as D.
  { rewrite lor_div256. replace (s / 256) with 0 by lia. apply Z.lor_0_r. }
  assert (0 <= Z.lor y s) as N by (apply Z.lor_nonneg; lia).
  repeat split.
  - exact N.
  - lia.
  - rewrite lor_mod2_even by assumption. assumption.
  - lia.
Qed.

(* the two composite shapes that occur in mu.c *)
Lemma SL_wland x y c : SL x y -> small c -> SL x (wrap_u 32 (Z.land y (4294967295 - c))).
Proof. intros. now apply SL_wrap, SL_land_clear. Qed.

Lemma SL_wlor x y s : SL x y -> small s -> SL x (wrap_u 32 (Z.lor y s)).
Proof. intros. now apply SL_wrap, SL_lor_set. Qed.

(* ---- arithmetic on the lock fields ---- *)
Lemma add1_view x : rng x -> x mod 2 = 0 ->
  let y := wrap_u 32 (x + 1) in rng y /\ y mod 2 = 1 /\ y / 256 = x / 256.
Proof. intros R E. cbv zeta. rewrite wrap32 by (unfold rng in *; lia). unfold rng in *. lia. Qed.

Lemma sub1_view x : rng x -> x mod 2 = 1 ->
  let y := wrap_u 32 (x - 1) in rng y /\ y mod 2 = 0 /\ y / 256 = x / 256.
Proof. intros R E. cbv zeta. rewrite wrap32 by (unfold rng in *; lia). unfold rng in *. lia. Qed.

Lemma add256_view x : rng x -> x / 256 + 1 < 16777216 ->
  let y := wrap_u 32 (x + 256) in rng y /\ y mod 2 = x mod 2 /\ y / 256 = x / 256 + 1.
Proof. intros R E. cbv zeta. rewrite wrap32 by (unfold rng in *; lia). unfold rng in *. lia. Qed.

Lemma sub256_view x : rng x -> 1 <= x / 256 ->
  let y := wrap_u 32 (x - 256) in rng y /\ y mod 2 = x mod 2 /\ y / 256 = x / 256 - 1.
Proof. intros R E. cbv zeta. rewrite wrap32 by (unfold rng in *; lia). unfold rng in *. lia. Qed.

(* ---- what a zero test (old & M) == 0 says about the lock fields ---- *)
Lemma zero_test_even old M : M mod 2 = 1 -> wrap_u 32 (Z.land old M) = 0 -> old mod 2 = 0.
Proof.
  intros HM H. unfold wrap_u in H. change (2 ^ 32) with 4294967296 in H.
  pose proof (land_mod2 old M) as L. rewrite HM in L.
  assert (Z.land old M mod 2 = 0) by lia. lia.
Qed.

Lemma zero_test_noreaders old M : rng old -> M / 256 = 16777215 -> wrap_u 32 (Z.land old M) = 0 -> old / 256 = 0.
Proof.
  intros R HM H. unfold wrap_u in H. change (2 ^ 32) with 4294967296 in H. unfold rng in R.
  pose proof (land_div256 old M) as L. rewrite HM, land_ones24 in L by lia. lia.
Qed.
