(* MuXferProof11: the regression behind finding F16, as theorems.
   [xstep_thr_o16] is MuXferModel.xstep_thr with wake_waiters' transfer loop as it was BEFORE commit f28c99f: it tests `p_w == NULL`
   only, so a generic-interface waiter (cv_mu == NULL, l_type == NULL) behind a native first waiter is MOVED onto the mutex queue;
   such a waiter, once woken, re-acquires through its caller's lock routine (`cv_mu != NULL && w->cv_mu == NULL` is false for it)
   and therefore never clears MU_DESIG_WAKER.  The variant is defined HERE, not in the model: the model follows the repaired code. *)
From NsyncBase Require Import CSem.
From NsyncGen Require Import Consts Sites.
From NsyncModel Require Import MuModel MuSpec MuXferModel.
From NsyncProof Require Import MuXferProof2 MuXferProof6 MuXferProof10.
From Coq Require Import List ZArith Bool Lia.
Import ListNotations.
Local Open Scope Z_scope.

(* `if (p_w == NULL)`: only nsync_wait_n records are spared *)
Definition nrec_old (xw : xworld) (p : nat) : bool := xn_rec (x_pc (xget xw p)).
Definition xstep_thr_o16 (x0 : xworld) (t : nat) (c : choice) : xworld * xev :=
  let xw := xbegin x0 t in
  let w := mw xw in
  match x_pc (xget xw t) with
  | XvCas1 k old =>
      let new := wake_waiters_cas1_new old in
      let '(w1, ok) := cas w (wake_waiters_cas1_old old) new in
      if ok then
        let '(moved, stay, set_on) := xfer (nrec_old xw) (wtype w) (first_cant_acquire (wtype w) old (k_wake k)) (k_wake k) in
        let q' := queue w1 ++ moved in
        let clr := match q' with [] => bor MU_SPINLOCK MU_WAITING | _ => MU_SPINLOCK end in
        let xw1 := set_xferred (set_mw xw (set_queue w1 q')) (set_all (xferred xw) moved true) in
        (set_xpc xw1 t (XvLoad3 (mk_kl stay (k_allr k) set_on clr)), XMu (EvCas 1002 old new true))
      else xstep_thr x0 t c
  | XwLoop l =>
      (* cv_mu == NULL: `if (cv_mu != NULL && w->cv_mu == NULL)` is false for a generic waiter even if it was moved *)
      if w_gen l && negb (waiting w t) then
        (set_xpc (set_mw xw (set_pc (set_wtype w t (w_lm l)) t (LkFast (w_lm l)))) t (XwReacq l), XMu (EvLoad 1105 0))
      else xstep_thr x0 t c
  | _ => xstep_thr x0 t c
  end.
Definition xstep_o16 (x : xworld) (a : actor) : xworld * xev :=
  match a with Thr t c => xstep_thr_o16 x t c | EnvV p => xstep x (EnvV p) end.
Definition xrun_o16 (x : xworld) (sched : list actor) : xworld := fold_left (fun w a => fst (xstep_o16 w a)) sched x.

(* the old step differs only at wake_waiters' acquiring CAS and at the re-acquisition of a generic waiter *)
Lemma o16_step_elsewhere x t c :
  (forall k old, x_pc (xget (xbegin x t) t) <> XvCas1 k old) -> (forall l, x_pc (xget (xbegin x t) t) <> XwLoop l) ->
  xstep_thr_o16 x t c = xstep_thr x t c.
Proof.
  intros H1 H2. unfold xstep_thr_o16. cbv zeta. destruct (x_pc (xget (xbegin x t) t)) eqn:E; try reflexivity;
    [now elim (H2 l) | now elim (H1 k old)].
Qed.
(* ... and, without generic waiters on wake_waiters' list and in the thread's own wait, not at all: for native waiters and
   nsync_wait_n records the two transfer tests agree *)
Lemma o16_step_native_loop x t c l : x_pc (xget (xbegin x t) t) = XwLoop l -> w_gen l = false -> xstep_thr_o16 x t c = xstep_thr x t c.
Proof. intros E G. unfold xstep_thr_o16. cbv zeta. rewrite E, G. reflexivity. Qed.

(* threads: 0 native waiter (write mode), 1 GENERIC waiter (its own lock routines around the same mutex), 2 broadcasts inside its
   critical section, 4 a later holder, 3 a later locker.  All balanced. *)
Definition f16_progs : list (list xop) :=
  [ [XOp (OLock W); XWait W; XOp OUnlock]; [XOp (OLock W); XWaitG W; XOp OUnlock]; [XOp (OLock W); XBroadcast; XOp OUnlock];
    [XOp (OLock W); XOp OUnlock]; [XOp (OLock W); XOp OUnlock] ].
(* 0 and 1 wait; 2 locks, broadcasts: first_cant_acquire, so the OLD loop moves 0 AND 1 to the mutex queue; 2 unlocks (wakes 0,
   MU_DESIG_WAKER set); 0 re-acquires as designated waker (clears the bit), unlocks (wakes 1, MU_DESIG_WAKER set again);
   1 re-acquires through nsync_mu_lock -- the bit stays -- and unlocks; 4 locks; 3 has to queue and sleeps; 4 unlocks: a designated
   waker seems to be pending, so it wakes nobody. *)
Definition f16_sched : list actor :=
  map go (repeat 0 7 ++ repeat 1 6 ++ repeat 2 7 ++ repeat 2 9 ++ repeat 0 13 ++ repeat 1 12 ++ repeat 4 3 ++ repeat 3 9 ++ repeat 4 6)%nat.

Lemma f16_balanced : balanced f16_progs.
Proof. intros p [<-|[<-|[<-|[<-|[<-|[]]]]]]; reflexivity. Qed.

(* the old code: both waiters are moved by the one acquiring CAS *)
Lemma f16_old_moves_generic :
  let xw := xrun_o16 (xinit f16_progs) (firstn 20 f16_sched) in
  queue (mw xw) = [0; 1]%nat /\ xferred xw 1%nat = true /\ xg_rec (x_pc (xget xw 1%nat)) = true.
Proof. cbv zeta. split; [vm_compute; reflexivity|]. split; vm_compute; reflexivity. Qed.

(* the old code: a quiescent world in which thread 3 sleeps on the queue of a FREE mutex, MU_DESIG_WAKER set, nobody left to wake it *)
Lemma f16_old_stranded :
  let xw := xrun_o16 (xinit f16_progs) f16_sched in
  x_quiescent xw /\ x_mu_sleeper xw 3%nat /\ (forall t m, held (get (mw xw) t) <> Some m) /\
  queue (mw xw) = [3%nat] /\ waiting (mw xw) 3%nat = true /\
  has (word (mw xw)) MU_DESIG_WAKER = true /\ has (word (mw xw)) MU_WAITING = true /\ has (word (mw xw)) MU_SPINLOCK = false /\
  (forall t, t <> 3%nat -> (t < 5)%nat -> x_done xw t).
Proof.
  cbv zeta. split; [|split; [|split; [|split; [|split; [|split; [|split; [|split]]]]]]].
  - intros t Ht. vm_compute in Ht. destruct t as [|[|[|[|[|t]]]]]; [right | right | right | left | right | lia]; vm_compute; auto.
  - left. eexists; eexists. vm_compute. reflexivity.
  - intros t m. destruct t as [|[|[|[|[|t]]]]]; try (vm_compute; discriminate). vm_compute. destruct t; discriminate.
  - vm_compute. reflexivity.
  - vm_compute. reflexivity.
  - vm_compute. reflexivity.
  - vm_compute. reflexivity.
  - vm_compute. reflexivity.
  - intros t N Ht. destruct t as [|[|[|[|[|t]]]]]; [| | |now elim N| |lia]; vm_compute; auto.
Qed.

(* so the hand-off theorems are FALSE of the old code (for a balanced program) *)
Lemma f16_old_code_refuted : exists progs sched,
  Z.of_nat (length progs) < 2 ^ 24 - 1 /\ balanced progs /\
  let xw := xrun_o16 (xinit progs) sched in
  x_quiescent xw /\ (exists p, x_mu_sleeper xw p) /\ ~ x_holder xw.
Proof.
  exists f16_progs, f16_sched. split; [reflexivity|]. split; [exact f16_balanced|].
  destruct f16_old_stranded as (Q & S & NH & _). cbv zeta. split; [exact Q|]. split; [exists 3%nat; exact S|].
  intros (t & m & H). exact (NH t m H).
Qed.

(* the SAME schedule under the repaired step: the generic waiter is woken directly, never moved; at the end of the schedule the
   world is not quiescent (thread 2 is about to post the designated waker 0); run on, everybody finishes *)
Lemma f16_schedule_repaired :
  let x1 := xrun (xinit f16_progs) f16_sched in
  let x2 := xrun x1 (map go (repeat 2 5 ++ repeat 0 30 ++ repeat 3 20 ++ repeat 1 10 ++ repeat 4 5)%nat) in
  (xferred x1 1%nat = false /\ (exists m u, t_pc (get (mw x1) 2%nat) = UsWakeV m 0%nat u) /\ ~ x_quiescent x1) /\
  (forall t, (t < 5)%nat -> x_done x2 t) /\ word (mw x2) = 0 /\ queue (mw x2) = [].
Proof.
  cbv zeta. split; [split; [vm_compute; reflexivity | split; [eexists; eexists; vm_compute; reflexivity|]]|].
  - intros Q. destruct (Q 2%nat ltac:(vm_compute; lia)) as [A | (_ & _ & D)]; [vm_compute in A; discriminate A | vm_compute in D; discriminate D].
  - split; [|split; vm_compute; reflexivity].
    intros t Ht. destruct t as [|[|[|[|[|t]]]]]; [| | | | |lia]; vm_compute; auto.
Qed.
