(* The control structure of common.c between its atomic sites, regenerated from /repo on this run, is the pinned one. *)
From Coq Require Import String List.
From NsyncGen Require Import Flow.
From NsyncModel Require Import FlowExpected.

Lemma flow_current_common_c : flow_common_c = expected_flow_common_c.
Proof. vm_compute. reflexivity. Qed.
