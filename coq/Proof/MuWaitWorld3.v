(* MuWaitWorld3: the scan of nsync_mu_unlock_slow_ never reaches nsync_panic_ ("checking a waiter condition while
   unlocked", Crash 5 of the model): MU_CONDITION is set whenever a queued waiter has a condition.  With it the
   world invariant of MuWaitWorld2 holds of every reachable world. *)
From NsyncBase Require Import CSem.
From NsyncGen Require Import Consts Sites.
From NsyncModel Require Import MuWaitModel MuWaitSpec.
From NsyncProof Require Import WordView MuWaitProof MuWaitRings MuWaitBits MuWaitWorld1 MuWaitWorld2.
From Coq Require Import List ZArith Bool Lia PeanoNat.
Import ListNotations.
Local Open Scope Z_scope.

(* ================= pure part: when the scan does not evaluate conditions, it meets none ================= *)
Definition uncond (w : world) (l : list nat) : Prop := Forall (fun p => wcond w p = None) l.
Definition nt_ok (w : world) (u : uscan) : Prop :=
  u_test u = false -> match u_rest u with e :: tl => wtype w e = W \/ uncond w tl | [] => False end.
Definition pc_nt (w : world) (p : pc) : Prop := p <> Crash 5 /\ forall u, sk_of p = Some (SRm, u) -> nt_ok w u.

Lemma uncond_app w a b : uncond w (a ++ b) -> uncond w a /\ uncond w b.
Proof. apply Forall_app. Qed.

Lemma inner_nt w m rest u :
  (u_test u = true \/ u_wty u = Some W \/ uncond w rest \/
   (u_wty u = None /\ exists p tl, rest = p :: tl /\ wcond w p = None /\ wtype w p = W)) ->
  match inner w m u rest with InPc p => pc_nt w p | InEnd _ => True end.
Proof.
  intros H. destruct H as [H | [H | [H | (Hw & p & tl & -> & Hc & Ht)]]].
  - pose proof (inner_spec w m rest u) as S. destruct (inner w m u rest) as [p0|]; [| exact I].
    destruct S as [(_ & T & _) | (u' & sk & x & tl & (_ & _ & _ & T' & _) & _ & _ & _ & [(-> & _) | (-> & _)])]; [congruence | |].
    + split; [discriminate | intros ? E; discriminate E].
    + split; [discriminate|]. intros u0 E. injection E as <-. intros T. congruence.
  - destruct rest as [|p tl]; cbn [inner]; [exact I | rewrite H; exact I].
  - pose proof (inner_spec w m rest u) as S. destruct (inner w m u rest) as [p0|]; [| exact I].
    destruct S as [(_ & _ & _ & x & Hx & Hc) | (u' & sk & x & tl & (_ & _ & _ & T' & _) & Er & Eu & _ & [(-> & Hc & _) | (-> & _)])].
    + exfalso. unfold uncond in H. rewrite Forall_forall in H. exact (Hc (H x Hx)).
    + exfalso. subst rest. apply uncond_app in H. destruct H as [_ H]. inversion H; subst. congruence.
    + split; [discriminate|]. intros u0 E. injection E as <-. intros _. rewrite Eu. right.
      subst rest. apply uncond_app in H. destruct H as [_ H]. inversion H; assumption.
  - cbn [inner]. rewrite Hw, Hc. unfold wakeable. rewrite Hw.
    split; [discriminate|]. intros u0 E. injection E as <-. intros _. cbn [u_rest set_rest]. left; exact Ht.
Qed.

Lemma finalize_nt w m u : pc_nt w (snd (finalize w m u)).
Proof. unfold finalize; cbn [snd]. split; [discriminate | intros ? E; discriminate E]. Qed.

Lemma adjust_test_false w u p : u_test u = true -> adjust_test w u p = false ->
  u_wty u = Some W \/ (u_wty u = None /\ wcond w p = None /\ wtype w p = W).
Proof.
  unfold adjust_test. intros -> H. cbn [andb] in H. destruct (u_wty u) as [[|]|]; [left; reflexivity | discriminate H | right].
  apply negb_false_iff, andb_true_iff in H. destruct H as [A B]. split; [reflexivity|].
  destruct (wcond w p); [discriminate B|]. split; [reflexivity|]. destruct (wtype w p); [reflexivity | discriminate A].
Qed.

(* the round structure: a second look at mu->waiters with the spinlock held finds nothing *)
Lemma round_then_scan_nt w m u f : queue w = [] ->
  let '(w2, u3) := round_end w u in pc_nt w2 (snd (scan_from (S f) w2 m u3)).
Proof.
  intros Hq. destruct (round_end_fields w u) as (_ & _ & _ & _ & _ & _ & _ & _ & _ & _ & _ & E7).
  destruct (round_end w u) as [w2 u3]. cbn [snd] in E7.
  rewrite scan_from_nil by (rewrite E7, Hq; reflexivity). apply finalize_nt.
Qed.

Lemma round_end_wc w u : wcond (fst (round_end w u)) = wcond w /\ wtype (fst (round_end w u)) = wtype w.
Proof. destruct (round_end_fields w u) as (_ & _ & A & _ & _ & _ & B & _). auto. Qed.

Lemma pc_nt_ext w w' p : wcond w' = wcond w -> wtype w' = wtype w -> pc_nt w p -> pc_nt w' p.
Proof. intros E1 E2 [A B]. split; [exact A|]. intros u E T. specialize (B u E T). unfold uncond in *. rewrite E1, E2. exact B. Qed.

Lemma scan_from_fields m : forall fuel w u,
  wcond (fst (scan_from fuel w m u)) = wcond w /\ wtype (fst (scan_from fuel w m u)) = wtype w /\
  rcount (fst (scan_from fuel w m u)) = rcount w /\ waiting (fst (scan_from fuel w m u)) = waiting w /\
  cls (fst (scan_from fuel w m u)) = cls w /\ pst (fst (scan_from fuel w m u)) = pst w.
Proof.
  induction fuel as [|f IH]; intros w u; cbn [scan_from]; [repeat split|].
  destruct (u_new u); [unfold finalize; cbn [fst]; repeat split|].
  destruct (adjust_test w u n); [repeat split|].
  destruct (inner w m _ _); [repeat split|].
  destruct (round_end_fields w (end_inner_set u0)) as (_ & _ & A & B & C & D & E & _ & F & _).
  destruct (round_end w (end_inner_set u0)) as [w2 u3]. cbn [fst] in *.
  destruct (IH w2 u3) as (I1 & I2 & I3 & I4 & I5 & I6). rewrite I1, I2, I3, I4, I5, I6. repeat split; assumption.
Qed.
Lemma after_inner_fields w m r :
  wcond (fst (after_inner w m r)) = wcond w /\ wtype (fst (after_inner w m r)) = wtype w /\
  rcount (fst (after_inner w m r)) = rcount w /\ waiting (fst (after_inner w m r)) = waiting w /\
  cls (fst (after_inner w m r)) = cls w /\ pst (fst (after_inner w m r)) = pst w.
Proof.
  destruct r; cbn [after_inner]; [repeat split|].
  destruct (u_test (end_inner_set u)); [repeat split|].
  destruct (round_end_fields w (end_inner_set u)) as (_ & _ & A & B & C & D & E & _ & F & _).
  destruct (round_end w (end_inner_set u)) as [w2 u3]. cbn [fst] in *.
  destruct (scan_from_fields m 3 w2 u3) as (I1 & I2 & I3 & I4 & I5 & I6). rewrite I1, I2, I3, I4, I5, I6. repeat split; assumption.
Qed.

Lemma scan_from_nt w m u f : queue w = [] ->
  (u_test u = true \/ u_wty u = Some W \/ uncond w (u_new u)) ->
  pc_nt w (snd (scan_from (S (S f)) w m u)).
Proof.
  intros Hq H. destruct (u_new u) as [|p rest] eqn:En.
  - rewrite scan_from_nil by exact En. apply finalize_nt.
  - cbn [scan_from]. rewrite En.
    set (t' := adjust_test w u p).
    set (u1 := mk_us t' (u_late u) (u_done u) (p :: rest) (p :: rest) (u_wake u) (u_wty u) (u_set u)).
    destruct t' eqn:Et.
    + cbn [snd]. split; [discriminate | intros ? E; discriminate E].
    + assert (Hin : match inner w m u1 (p :: rest) with InPc p0 => pc_nt w p0 | InEnd _ => True end).
      { apply inner_nt. cbn [u_test u_wty u1]. destruct H as [H | [H | H]].
        - destruct (adjust_test_false w u p H Et) as [A | (A & B & C)]; [right; left; exact A|].
          right; right; right. split; [exact A|]. exists p, rest. auto.
        - right; left; exact H.
        - right; right; left; exact H. }
      destruct (inner w m u1 (p :: rest)) as [p0|u2]; [exact Hin|].
      pose proof (round_then_scan_nt w m (end_inner_set u2) f Hq) as K.
      destruct (round_end_wc w (end_inner_set u2)) as [E1 E2].
      destruct (round_end w (end_inner_set u2)) as [w2 u3]. cbn [fst] in *.
      eapply pc_nt_ext; [symmetry; exact E1 | symmetry; exact E2 | exact K].
Qed.

Lemma after_inner_nt w m r :
  match r with InPc p => pc_nt w p | InEnd u => u_test u = false -> queue w = [] end ->
  pc_nt w (snd (after_inner w m r)).
Proof.
  destruct r as [p|u]; cbn [after_inner]; [auto|]. intros Hq.
  destruct (end_inner_set_lists u) as [(_ & _ & _ & T & _) _].
  destruct (u_test (end_inner_set u)) eqn:E.
  - cbn [snd]. split; [discriminate | intros ? E0; discriminate E0].
  - symmetry in T. pose proof (round_then_scan_nt w m (end_inner_set u) 2 (Hq T)) as K.
    destruct (round_end_wc w (end_inner_set u)) as [E1 E2].
    destruct (round_end w (end_inner_set u)) as [w2 u3]. cbn [fst] in *.
    eapply pc_nt_ext; [symmetry; exact E1 | symmetry; exact E2 | exact K].
Qed.

(* ================= the invariant ================= *)
Definition hC (x : Z) : bool := has x MU_CONDITION.
Definition lsq (p : pc) : bool :=
  match p with
  | LsLoad _ _ | LsCasAcq _ _ _ | LsCasEnq _ _ _ | LsStoreWaiting _ _ | RelLoad (KLs _ _) _ | RelCas (KLs _ _) _
  | LsWaitLoad _ _ | LsSemP _ _ => true
  | _ => false
  end.
Definition mcq (p : pc) : bool :=
  match p with MwStoreWaiting | MwRcLoad | SpinLoad KWait _ | SpinCas KWait _ => true | _ => false end.
Definition fin_of (p : pc) : option usl := match p with UsRelLoad _ u _ | UsRelCas _ u _ => Some u | _ => None end.

Definition L2t (w : world) (s : tstate) (t : nat) : Prop :=
  (forall x, mw s = Some x -> pe_pc (t_pc s) = true -> rcount w t = mw_rc x -> wcond w t <> None -> hC (word w) = true) /\
  (lsq (t_pc s) = true -> wcond w t = None) /\
  (forall x, mw s = Some x -> mcq (t_pc s) = true -> wcond w t = mw_cond x) /\
  (forall u, sk_of (t_pc s) = Some (SRm, u) -> nt_ok w u) /\
  (forall u, fin_of (t_pc s) = Some u -> hC (clear_on u) = true -> queue w = []).
Definition L2 (w : world) : Prop := forall t, L2t w (get w t) t.

(* every queued waiter that has a condition makes MU_CONDITION set *)
Section L2facts.
Variable n : nat.
Hypothesis Hn : Z.of_nat n < 16777215.

Lemma mq_cases p mx : mq_of p mx = true -> lsq p = true \/ (pe_pc p = true /\ (us_pc p = true -> mx <> None)).
Proof.
  unfold mq_of, pe_pc. destruct (us_pc p) eqn:U; cbn [andb orb].
  - destruct mx; cbn [mwb orb].
    + intros _. right. split; [reflexivity | discriminate].
    + destruct p; cbn in U; try discriminate U; try (destruct k; try discriminate U); cbn; intros E; try discriminate E; auto.
  - intros E. destruct p; try discriminate E; try (destruct k; try discriminate E); cbn; auto; right; split; auto; discriminate.
Qed.

Lemma cond_member_C w p : Inv n w -> L1 w -> L2 w -> inring (queue w) (winfo w) p -> wcond w p <> None -> hC (word w) = true.
Proof.
  intros HI HL H2 Hr Hc.
  destruct (a_m _ _ _ _ _ _ _ HL p (member_of_inring _ _ _ Hr)) as [_ Hm].
  unfold winfo, info_of in Hm; cbn [i_mq] in Hm.
  destruct (H2 p) as (A & B & _).
  destruct (mq_cases _ _ Hm) as [Hl | [Hpe Hus]]; [exfalso; exact (Hc (B Hl))|].
  pose proof (pc_ok_get n w p HI) as Hok.
  destruct (mw (get w p)) as [x|] eqn:Ex.
  - apply (A x eq_refl Hpe); [| exact Hc].
    apply (a_i3 _ _ _ _ _ _ _ HL p (mw_rc x)); [unfold winfo, info_of, peb; cbn [i_pe]; rewrite Ex, Hpe; reflexivity | exact Hr].
  - exfalso. unfold pe_pc in Hpe. destruct (us_pc (t_pc (get w p))) eqn:U; [exact (Hus eq_refl eq_refl)|].
    cbn [orb] in Hpe. apply (pc_ok_mw _ Hok); [| exact Ex].
    destruct (t_pc (get w p)); try discriminate Hpe; try (destruct k; try discriminate Hpe); reflexivity.
Qed.
End L2facts.

Lemma nt_ok_ext w W u : (forall p, In p (u_rest u) -> wcond W p = wcond w p /\ wtype W p = wtype w p) -> nt_ok w u -> nt_ok W u.
Proof.
  intros H N T. specialize (N T). destruct (u_rest u) as [|e tl]; [exact N|].
  destruct N as [N|N]; [left; rewrite (proj2 (H e (or_introl eq_refl))); exact N | right].
  unfold uncond in *. rewrite Forall_forall in *. intros p Hp. rewrite (proj1 (H p (or_intror Hp))). apply N; exact Hp.
Qed.

Lemma L2_frame' w W t : L1 w -> L2 w -> (forall y, y <> t -> get W y = get w y) ->
  (forall y x, mw (get w y) = Some x -> pe_pc (t_pc (get w y)) = true -> rcount w y = mw_rc x -> wcond w y <> None -> hC (word W) = true) ->
  (forall p, p <> t -> wcond W p = wcond w p) -> (forall p, p <> t -> wtype W p = wtype w p) ->
  (member (queue w) (winfo w) t -> wcond W t = wcond w t /\ wtype W t = wtype w t) ->
  (forall y x, y <> t -> mw (get w y) = Some x -> pe_pc (t_pc (get w y)) = true -> rcount W y = mw_rc x -> rcount w y = mw_rc x) ->
  (forall y u, y <> t -> fin_of (t_pc (get w y)) = Some u -> queue w = [] -> queue W = []) ->
  forall y, y <> t -> L2t W (get W y) y.
Proof.
  intros HL H2 Ho HC Hwc Hwt Hmt Hrc Hq y Ny. rewrite (Ho y Ny). destruct (H2 y) as (A & B & C & D & E).
  split; [|split; [|split; [|split]]].
  - intros x Ex Hpe Er Hc. apply (HC y x Ex Hpe); [apply (Hrc y x Ny Ex Hpe Er) | rewrite <- (Hwc y Ny); exact Hc].
  - intros Hl. rewrite (Hwc y Ny). apply B; exact Hl.
  - intros x Ex Hm. rewrite (Hwc y Ny). apply C; assumption.
  - intros u Eu. apply (nt_ok_ext w W u); [| apply D; exact Eu].
    intros p Hp. destruct (Nat.eq_dec p t) as [->|Np]; [| split; [apply Hwc | apply Hwt]; exact Np].
    apply Hmt. right. exists y. destruct (a_r2 _ _ _ _ _ _ _ HL y SRm u) as (_ & _ & [pre Epre] & _).
    { unfold winfo, info_of; cbn [i_sk]. exact Eu. }
    unfold ipl, irl, winfo, info_of; cbn [i_sk]. rewrite Eu. apply in_or_app; left. apply in_or_app; right.
    rewrite Epre. apply in_or_app; right; exact Hp.
  - intros u Eu Hcl. apply (Hq y u Ny Eu). apply (E u Eu Hcl).
Qed.

Lemma L2_frame w W t : L1 w -> L2 w -> (forall y, y <> t -> get W y = get w y) ->
  (hC (word w) = true -> hC (word W) = true) ->
  (forall p, p <> t -> wcond W p = wcond w p) -> (forall p, p <> t -> wtype W p = wtype w p) ->
  (member (queue w) (winfo w) t -> wcond W t = wcond w t /\ wtype W t = wtype w t) ->
  (forall y x, y <> t -> mw (get w y) = Some x -> pe_pc (t_pc (get w y)) = true -> rcount W y = mw_rc x -> rcount w y = mw_rc x) ->
  (forall y u, y <> t -> fin_of (t_pc (get w y)) = Some u -> queue w = [] -> queue W = []) ->
  forall y, y <> t -> L2t W (get W y) y.
Proof.
  intros HL H2 Ho HC. apply (L2_frame' w W t HL H2 Ho).
  intros y x Ex Hpe Er Hc. apply HC. destruct (H2 y) as (A & _). exact (A x Ex Hpe Er Hc).
Qed.

Lemma L2_frame_s w W t : L1 w -> L2 w -> (forall y, y <> t -> get W y = get w y) ->
  (hC (word w) = true -> hC (word W) = true) ->
  (forall p, p <> t -> wcond W p = wcond w p) -> (forall p, p <> t -> wtype W p = wtype w p) ->
  (member (queue w) (winfo w) t -> wcond W t = wcond w t /\ wtype W t = wtype w t) ->
  (forall p, p <> t -> rcount W p = rcount w p) -> queue W = queue w ->
  forall y, y <> t -> L2t W (get W y) y.
Proof.
  intros HL H2 Ho HC Hwc Hwt Hmt Hrc Hq. apply (L2_frame w W t HL H2 Ho HC Hwc Hwt Hmt).
  - intros y x Ny _ _ E. rewrite <- (Hrc y Ny). exact E.
  - intros y u _ _ E. rewrite Hq. exact E.
Qed.

(* ================= what the scan returns ================= *)
Definition scanres (p : pc) : Prop :=
  match p with
  | Crash _ | UsEval _ _ | RmLoad (KScan _ _) | RelLoad (KScan _ _) _ | SpinLoad (KScan _ _) _ | UsRelLoad _ _ _ => True
  | _ => False
  end.
Definition fn_ok (w : world) (p : pc) : Prop :=
  forall u, fin_of p = Some u -> hC (clear_on u) = true -> queue w = [].
Definition sres (w : world) (p : pc) : Prop := scanres p /\ fn_ok w p.

Lemma finalize_sres w m u : sres (fst (finalize w m u)) (snd (finalize w m u)).
Proof.
  pose proof (bits_finalize_clear w m u) as H. unfold finalize in *. cbn [fst snd] in *.
  destruct H as (H & _). split; [exact I|]. intros f E Hc. injection E as <-. unfold hC in Hc. cbn [queue set_queue].
  apply H. exact Hc.
Qed.

Lemma inner_scanres w m : forall rest u, match inner w m u rest with InPc p => scanres p /\ fin_of p = None | InEnd _ => True end.
Proof.
  intros rest u. pose proof (inner_spec w m rest u) as S. destruct (inner w m u rest) as [p|]; [| exact I].
  destruct S as [(-> & _) | (u' & sk & x & tl & _ & _ & _ & _ & [(-> & _) | (-> & _)])]; split; try exact I; reflexivity.
Qed.

Lemma scan_from_sres m : forall fuel w u, sres (fst (scan_from fuel w m u)) (snd (scan_from fuel w m u)).
Proof.
  induction fuel as [|f IH]; intros w u; cbn [scan_from].
  - split; [exact I | intros ? E; discriminate E].
  - destruct (u_new u) as [|p rest]; [apply finalize_sres|].
    destruct (adjust_test w u p); [split; [exact I | intros ? E; discriminate E]|].
    match goal with |- context [inner w m ?u1 ?r] => pose proof (inner_scanres w m r u1) as K; destruct (inner w m u1 r) as [p0|u2] end.
    + cbn [fst snd]. destruct K as [K1 K2]. split; [exact K1 | intros ? E; rewrite K2 in E; discriminate E].
    + destruct (round_end w (end_inner_set u2)) as [w2 u3]. apply IH.
Qed.

Lemma after_inner_sres w m r : match r with InPc p => scanres p /\ fin_of p = None | InEnd _ => True end ->
  sres (fst (after_inner w m r)) (snd (after_inner w m r)).
Proof.
  destruct r as [p|u]; cbn [after_inner].
  - intros [K1 K2]. split; [exact K1 | intros ? E; cbn [snd] in E; rewrite K2 in E; discriminate E].
  - intros _. destruct (u_test (end_inner_set u)); [split; [exact I | intros ? E; discriminate E]|].
    destruct (round_end w (end_inner_set u)) as [w2 u3]. apply scan_from_sres.
Qed.

Lemma scanres_flags p : scanres p -> lsq p = false /\ mcq p = false /\ ((exists y, p = Crash y) \/ pe_pc p = true).
Proof.
  destruct p; cbn [scanres]; try contradiction; try (destruct k; try contradiction); intros _;
    (split; [reflexivity | split; [reflexivity | first [right; reflexivity | left; eexists; reflexivity]]]).
Qed.

Lemma inner_after_nt w m u rest :
  (u_test u = true \/ u_wty u = Some W \/ uncond w rest \/
   (u_wty u = None /\ exists p tl, rest = p :: tl /\ wcond w p = None /\ wtype w p = W)) ->
  (u_test u = false -> queue w = []) ->
  pc_nt w (snd (after_inner w m (inner w m u rest))) /\
  sres (fst (after_inner w m (inner w m u rest))) (snd (after_inner w m (inner w m u rest))).
Proof.
  intros H Hq. pose proof (inner_nt w m rest u H) as N. pose proof (inner_spec w m rest u) as S.
  pose proof (inner_scanres w m rest u) as R. split; [| apply after_inner_sres; exact R].
  apply after_inner_nt. destruct (inner w m u rest) as [p|u']; [exact N|].
  destruct S as (sk & (_ & _ & _ & T & _) & _). rewrite T. exact Hq.
Qed.

Section L2scan.
Variable n : nat.
Hypothesis Hn : Z.of_nat n < 16777215.

Lemma L2_scan_finish w W t s' :
  L1 w -> L2 w -> (forall y, y <> t -> get W y = get w y) -> get W t = s' -> mw s' = mw (get w t) ->
  (hC (word w) = true -> hC (word W) = true) -> wcond W = wcond w -> wtype W = wtype w ->
  (forall y x, mw (get w y) = Some x -> pe_pc (t_pc (get w y)) = true -> rcount W y = mw_rc x -> rcount w y = mw_rc x) ->
  (forall y u, y <> t -> fin_of (t_pc (get w y)) = Some u -> False) ->
  us_pc (t_pc (get w t)) = true ->
  pc_nt W (t_pc s') -> sres W (t_pc s') ->
  L2 W.
Proof.
  intros HL H2 Ho Eg Em HC Ewc Ewt Hrc Hnf Hus [_ Hnt] [Hsr Hfn] y.
  destruct (Nat.eq_dec y t) as [->|Ny].
  - rewrite Eg. destruct (H2 t) as (A & _). destruct (scanres_flags _ Hsr) as (F1 & F2 & F3).
    split; [|split; [|split; [|split]]].
    + intros x Ex Hpe Er Hc. apply HC. rewrite Em in Ex. apply (A x Ex).
      * unfold pe_pc. rewrite Hus. reflexivity.
      * apply (Hrc t x Ex); [unfold pe_pc; rewrite Hus; reflexivity | exact Er].
      * rewrite <- Ewc. exact Hc.
    + rewrite F1. discriminate.
    + intros x _ E. rewrite F2 in E. discriminate E.
    + exact Hnt.
    + exact Hfn.
  - apply (L2_frame w W t HL H2 Ho HC).
    + intros; rewrite Ewc; reflexivity.
    + intros; rewrite Ewt; reflexivity.
    + intros _; rewrite Ewc, Ewt; auto.
    + intros y0 x0 _ Ex Hpe Er. apply (Hrc y0 x0 Ex Hpe Er).
    + intros y0 u0 Ny0 Ef _. destruct (Hnf y0 u0 Ny0 Ef).
    + exact Ny.
Qed.
End L2scan.


Section Step2.
Variable n : nat.
Hypothesis Hn : Z.of_nat n < 16777215.

Lemma L2t_idle w t s : match t_pc s with Idle | LkFast _ | TryFast _ | Crash _ | UlFast _ | UwFast | SetC _ _ _ | MwLoad => True | _ => False end ->
  L2t w s t.
Proof.
  intros H. unfold L2t. destruct (t_pc s); try contradiction; cbn; repeat split; intros; discriminate.
Qed.

Definition idle_class (p : pc) : Prop :=
  match p with Idle | LkFast _ | TryFast _ | UlFast _ | UwFast | SetC _ _ _ | MwLoad => True | Crash y => y <> 5 | _ => False end.
Lemma begin_op_state w t : get (begin_op w t) t = get w t \/ idle_class (t_pc (get (begin_op w t) t)).
Proof.
  unfold begin_op. destruct (t_pc (get w t)) eqn:Ep; try (left; reflexivity).
  destruct (t_ops (get w t)) as [|o rest] eqn:Eo; [left; reflexivity|].
  destruct (Nat.lt_ge_cases t (length (thr w))) as [L|L].
  2:{ rewrite (get_oob' w t L) in Eo. discriminate Eo. }
  destruct (match o with OLock m => _ | _ => _ end) as [p x] eqn:Eq0. right.
  unfold get at 1, set_t, set_thr; cbn [thr]. rewrite nth_lupd_same by exact L. cbn [t_pc].
  destruct o as [m|m| | |f a b|c e d k], (held (get w t)) as [[|]|]; injection Eq0 as <- <-; first [exact I | discriminate].
Qed.

Lemma begin_op_L2 w t : Inv n w -> L2 w -> L2 (begin_op w t).
Proof.
  intros HI H y. destruct (begin_op_fields w t) as (Eq & _ & Ewc & _ & _ & Erc).
  assert (Ew : word (begin_op w t) = word w) by apply begin_op_word.
  assert (Et : wtype (begin_op w t) = wtype w).
  { unfold begin_op. destruct (t_pc (get w t)); try reflexivity. destruct (t_ops (get w t)); try reflexivity.
    destruct (match o with OLock m => _ | _ => _ end) as [p x]. reflexivity. }
  assert (K : forall s, L2t w s y -> L2t (begin_op w t) s y).
  { intros s (A & B & C & D & E). unfold L2t, nt_ok, uncond. rewrite Eq, Ewc, Erc, Ew, Et. auto. }
  destruct (Nat.eq_dec y t) as [->|N]; [| rewrite begin_op_get_other by exact N; apply K, H].
  destruct (begin_op_state w t) as [E | E]; [rewrite E; apply K, H | apply L2t_idle; destruct (t_pc (get (begin_op w t) t)); try contradiction; exact I].
Qed.

Ltac cas_split w :=
  unfold cas;
  match goal with |- context [word w =? ?e] => destruct (Z.eqb_spec (word w) e) as [Hcas|Hcas] end;
  cbv beta iota; cbn [fst snd].
Ltac fldr :=
  rewrite ?acq_queue, ?acq_rings, ?acq_wcond, ?acq_cls, ?acq_waiting, ?acq_rcount, ?acq_wtype, ?acq_pst, ?acq_word,
          ?ru_queue, ?ru_rings, ?ru_wcond, ?ru_cls, ?ru_waiting, ?ru_rcount, ?ru_wtype, ?ru_pst, ?ru_word.
Ltac fldp2 :=
  intros; fldr;
  first [ reflexivity | assumption
        | cbn [wcond waiting rcount wtype queue word set_pc set_t set_thr set_winfo set_waiting set_queue set_rings set_rcount set_sem set_word
               set_own set_held set_spin set_mw upd_mw released mw_return add_ev log_eval set_pst];
          rewrite ?fupd_neq by assumption; first [reflexivity | assumption] ].

Ltac l2simpl :=
  cbn [t_pc mw pe_pc us_pc lsq mcq sk_of fin_of orb andb mw_rc mw_cond mw_mode mw_eq mw_dl mw_canc mw_first mw_hadw mw_semout mw_have mw_outcome mw_tmo mw_ent].

Ltac l2simpl_in H :=
  cbn [t_pc mw pe_pc us_pc lsq mcq sk_of fin_of orb andb mw_rc mw_cond mw_mode mw_eq mw_dl mw_canc mw_first mw_hadw mw_semout mw_have mw_outcome mw_tmo mw_ent] in H.
Ltac own_clauses w t H2 Hs HC :=
  let A := fresh "A" in let B := fresh "B" in let C := fresh "C" in let D := fresh "D" in let E := fresh "E" in
  let Hold := fresh "Hold" in
  pose proof (H2 t) as Hold; unfold get in Hold; rewrite Hs in Hold; unfold L2t in Hold; l2simpl_in Hold;
  destruct Hold as (A & B & C & D & E);
  unfold L2t, get; rewrite ?Hs; unfold mw_of; l2simpl;
  (split; [|split; [|split; [|split]]]);
  [ try (let x0 := fresh "x0" in let Ex := fresh "Ex" in let Hpe := fresh "Hpe" in let Er := fresh "Er" in let Hc := fresh "Hc" in
         intros x0 Ex Hpe Er Hc; first [discriminate Hpe | discriminate Ex | (apply HC; injection Ex as <-; cbn [mw_rc] in Er; rewrite ?ru_rcount, ?acq_rcount in Er; rewrite ?ru_wcond, ?acq_wcond in Hc; eapply A; first [reflexivity | exact Er | exact Hc]; fail)])
  | try (let Hl0 := fresh "Hl0" in intros Hl0; first [discriminate Hl0 | (fldr; apply B; reflexivity) | (cbn [wcond set_pc set_t set_thr set_winfo]; apply fupd_eq)])
  | try (let x0 := fresh "x0" in let Ex := fresh "Ex" in let Hm0 := fresh "Hm0" in
         intros x0 Ex Hm0; first [discriminate Hm0 | discriminate Ex | (injection Ex as <-; cbn [mw_cond]; fldr; eapply C; reflexivity) | (injection Ex as <-; cbn [wcond set_pc set_t set_thr set_winfo upd_mw set_mw mw_cond]; first [apply fupd_eq | (rewrite fupd_eq; congruence)])])
  | try (let u0 := fresh "u0" in let Eu := fresh "Eu" in
         intros u0 Eu; first [discriminate Eu | (injection Eu as <-; eapply (nt_ok_ext w); [intros; split; fldp2 | eapply D; reflexivity])])
  | try (let u0 := fresh "u0" in let Eu := fresh "Eu" in let Hcl := fresh "Hcl" in
         intros u0 Eu Hcl; first [discriminate Eu | (injection Eu as <-; fldr; eapply E; [reflexivity | exact Hcl])]) ].

Ltac nomem w t HL Hs :=
  let Hm := fresh "Hm" in let Wt := fresh "Wt" in let Mq := fresh "Mq" in
  intros Hm; exfalso; destruct (a_m _ _ _ _ _ _ _ HL t Hm) as [Wt Mq]; unfold winfo, get in Mq; rewrite Hs in Mq;
  cbn in Mq; first [discriminate Mq | congruence].
Ltac frame_side :=
  [> fldp2 | fldp2 | try (intros _; split; fldp2)
   | try (let y0 := fresh "y0" in let x0 := fresh "x0" in let Ny0 := fresh "Ny0" in let Er := fresh "Er" in
          intros y0 x0 Ny0 _ _ Er; rewrite <- Er; symmetry; fldp2)
   | try (let y0 := fresh "y0" in let u0 := fresh "u0" in let Ny0 := fresh "Ny0" in let Ef := fresh "Ef" in let Eq0 := fresh "Eq0" in
          intros y0 u0 Ny0 Ef Eq0; rewrite <- Eq0; fldp2)
   | assumption ];
  try (match goal with HL : L1 ?w, Hs : nth ?t (thr ?w) dflt_t = _ |- member _ _ _ -> _ => nomem w t HL Hs end).

Ltac boring2 w t HL H2 Hs Hlen Ht hc :=
  try (match goal with mx : option mwl |- _ => destruct mx end);
  let HI' := fresh "HI'" in let Hoth := fresh "Hoth" in
  intros HI' Hoth; cbn [fst] in *;
  lazymatch goal with |- L2 ?W /\ _ =>
    let HT := fresh "HT" in
    eassert (HT : TS t w W _ _) by (ts_solve; rewrite Hlen; exact Ht);
    assert (HC : hC (word w) = true -> hC (word W) = true) by hc;
    split;
    [ let y := fresh "y" in let Ny := fresh "Ny" in
      intros y; destruct (Nat.eq_dec y t) as [->|Ny];
      [ first [ rewrite (TS_get _ _ _ _ _ HT)
              | let Eg := fresh "Eg" in pose proof (TS_get _ _ _ _ _ HT) as Eg; unfold get in Eg; rewrite Eg; clear Eg ];
        own_clauses w t H2 Hs HC
      | apply (L2_frame w W t HL H2 Hoth HC); frame_side ]
    | first [ rewrite (TS_get _ _ _ _ _ HT)
            | let Eg := fresh "Eg" in pose proof (TS_get _ _ _ _ _ HT) as Eg; unfold get in Eg; rewrite Eg; clear Eg ];
      unfold get; rewrite ?Hs; unfold mw_of; cbn [t_pc mw];
      try (match goal with |- context [if ?b then _ else _] => destruct b end); cbn [t_pc];
      intros Ecr; first [discriminate Ecr | exact Ecr] ]
  end.

Ltac noop :=
  cbn [fst]; intros _ _; split; [assumption | unfold get; match goal with Hs : nth _ _ _ = _ |- _ => rewrite Hs end; cbn [t_pc]; auto].
Ltac hc0 := first [ (intros Hc; exact Hc) | (fldr; intros Hc; exact Hc) ].
Ltac mwsome Hok mx :=
  unfold try_frozen, mt_pre, in_mw in Hok; cbn [mw] in Hok;
  let x := fresh "x" in let Hx := fresh "Hx" in
  first [ destruct Hok as ((x & Hx & _) & _) | destruct Hok as (x & Hx & _) ]; subst mx.
Lemma fin_spin w y u : Inv n w -> fin_of (t_pc (get w y)) = Some u -> spin (get w y) = true.
Proof.
  intros HI E. pose proof (pc_ok_get n w y HI) as Hok. unfold pc_ok, scanning in Hok.
  destruct (t_pc (get w y)); try discriminate E; destruct Hok as (_ & lt & _ & Hsc); cbn [scan_pc_ok] in Hsc; destruct Hsc as (-> & _); reflexivity.
Qed.
(* a step of t that owns the spinlock (before or after): no other thread is at the final CAS of a scan *)
Lemma no_other_fin w W t y u : Inv n W -> spin (get W t) = true -> (forall x, x <> t -> get W x = get w x) ->
  y <> t -> fin_of (t_pc (get w y)) = Some u -> False.
Proof.
  intros HI Hs Ho Ny E. rewrite <- (Ho y Ny) in E. apply Ny. apply (spin_unique n W y t HI); [exact (fin_spin W y u HI E) | exact Hs].
Qed.
Lemma no_other_fin_U w t y u : U1 w -> scl (t_pc (get w t)) = true -> y <> t -> fin_of (t_pc (get w y)) = Some u -> False.
Proof.
  intros HU Ht Ny E. apply Ny. apply HU; [| exact Ht]. unfold scl. destruct (t_pc (get w y)); try discriminate E; reflexivity.
Qed.
Ltac fld :=
  intros; fldr; reflexivity.
Ltac B2h hc :=
  match goal with
  | HL : L1 ?w, H2 : L2 ?w, Hlen : length (thr ?w) = _, Ht : (?t < _)%nat, Hs : nth ?t (thr ?w) dflt_t = _ |- _ =>
      boring2 w t HL H2 Hs Hlen Ht hc
  end.
Ltac B2 := B2h hc0.
(* a CAS that keeps MU_CONDITION *)
Ltac wsimp := fldr; cbn [word set_pc set_t set_thr set_word set_own set_held set_spin set_mw upd_mw released mw_return set_queue set_rings set_rcount set_waiting set_winfo set_sem w_merge].
Ltac hcb lem := unfold hC; intros Hc; wsimp; rewrite (proj1 lem); first [exact Hc | (rewrite <- Hc; f_equal; congruence)].
Ltac hck lem := intros Hc; first [rewrite (proj1 lem) | rewrite (proj1 lem) in Hc]; first [exact Hc | assumption | (subst; assumption) | (subst; exact Hc)].

Lemma L2_step_thr w0 t c : Inv n w0 -> frozen_word w0 -> L1 w0 -> U1 w0 -> L2 w0 ->
  L2 (fst (step_thr w0 t c)) /\ (t_pc (get (fst (step_thr w0 t c)) t) = Crash 5 -> t_pc (get (begin_op w0 t) t) = Crash 5).
Proof.
  intros H0 HF HL HU H2.
  pose proof (step_thr_ok n Hn w0 t c H0) as (HI' & _ & _ & Hoth).
  apply (begin_op_L1 n _ t H0) in HL. apply (begin_op_U1 n _ t H0) in HU. apply (begin_op_L2 _ t H0) in H2.
  apply (begin_op_frozen _ t) in HF. apply (begin_op_inv n w0 t) in H0.
  revert HI' Hoth. unfold step_thr. set (w := begin_op w0 t) in *. clearbody w. clear w0. cbv zeta.
  destruct (Nat.lt_ge_cases t n) as [Ht|Ht].
  2:{ assert (Eg : get w t = dflt_t) by (apply get_oob'; destruct H0 as (-> & _); exact Ht).
      rewrite Eg. cbn. intros; split; [assumption | rewrite Eg; cbn; auto]. }
  pose proof H0 as (Hlen & _ & Hok). specialize (Hok t).
  pose proof (Inv_rng n _ H0) as Rw.
  pose proof (Inv_held n w t) as Hheld. specialize (fun m => Hheld m H0).
  destruct (get w t) as [p ops h cv sp mx lr] eqn:Hs. unfold get in Hs. rewrite Hs in Hok.
  unfold pc_ok in Hok. cbn [t_pc t_ops held conv spin mw last_ret] in *.
  destruct p.
  - (* Idle *) noop.
  - (* LkFast *) destruct Hok as (Ho & ->). cas_split w; [B2h ltac:(hcb (bits_fast_new m)) | B2].
  - (* LkLoad *) destruct Hok as (Ho & ->). destruct (fast_guard2 m (word w)) eqn:G; B2.
  - (* LkCas2 *) destruct Hok as (Ho & -> & G). cas_split w; [subst old; B2h ltac:(hcb (bits_fast_new2 m (word w) Rw G)) | B2].
  - (* TryFast *) destruct Hok as (Ho & ->). cas_split w; [B2h ltac:(hcb (bits_try_new m)) | B2].
  - (* TryLoad *) destruct Hok as (Ho & ->). destruct (try_guard2 m (word w)) eqn:G; B2.
  - (* TryCas2 *) destruct Hok as (Ho & -> & G). cas_split w; [subst old; B2h ltac:(hcb (bits_try_new2 m (word w) Rw G)) | B2].
  - (* LsLoad *) destruct (nsync_mu_lock_slow_cas1_guard (word w) (zta l)) eqn:G1; [B2|].
    destruct (nsync_mu_lock_slow_cas2_guard (word w) (zta l)) eqn:G2; [B2 | noop].
  - (* LsCasAcq *) destruct Hok as (Ho & Hm & Hl & G). cas_split w; [subst old; destruct mx; B2h ltac:(hcb (bits_lock_slow_cas1 m l (word w) Rw Hl G)) | B2].
  - (* LsCasEnq *) destruct Hok as (Ho & Hm & Hl & G). cas_split w; [subst old; B2h ltac:(hcb (bits_lock_slow_cas2 m l (word w) Rw Hl)) | B2].
  - (* LsStoreWaiting *) destruct Hok as (Ho & _). unfold own in Ho. cbn [held spin conv] in Ho. destruct Ho as (-> & -> & ->).
    B2.
    all: intros y0 u0 Ny0 Ef _; exfalso; apply (no_other_fin w w t y0 u0 H0); auto; unfold get; rewrite Hs; reflexivity.
  - (* LsWaitLoad *) destruct (waiting w t) eqn:Ew; B2.
  - (* LsSemP *) destruct (0 <? sem w t); [B2 | noop].
  - (* RelLoad *) destruct k; try contradiction; B2.
  - (* RelCas *) destruct k; try contradiction.
    + cas_split w; [subst old; B2h ltac:(hcb (bits_release_spinlock (word w) Rw)) | B2].
    + cas_split w; [| B2].
      destruct Hok as (Hnh & lt & Hown & Hsc). cbn [scan_pc_ok spin] in Hsc. destruct Hsc as (-> & Hte & Hu).
      subst old. intros HI' Hoth.
      match goal with |- context [after_inner ?w2 m ?r] =>
        destruct (inner_after_nt w2 m u (u_rest u) (or_introl Hte) ltac:(intros T; congruence)) as [Hnt Hsr];
        pose proof (after_inner_wt w2 m r) as [Hw1 Hw2];
        destruct (after_inner_fields w2 m r) as (F1 & F2 & F3 & _);
        destruct (after_inner w2 m r) as [w3 p'] eqn:Ea; cbn [fst snd] in *;
        eassert (HT : TS t w w2 _ _) by (ts_solve; rewrite Hlen; exact Ht)
      end.
      eassert (HT3 : TS t w (set_pc w3 t p') _ _) by (apply TS_set_pc; eapply TS_eq; [exact HT | exact Hw1 | exact Hw2]).
      pose proof (TS_get _ _ _ _ _ HT3) as Eg.
      split; [| rewrite Eg; cbn [t_pc]; intros E; destruct Hnt as [Hn5 _]; contradiction].
      eapply (L2_scan_finish w (set_pc w3 t p') t _ HL H2 Hoth Eg).
      * unfold get; rewrite Hs; reflexivity.
      * unfold hC. intros Hc. change (word (set_pc w3 t p')) with (word w3). rewrite Hw1. wsimp.
        rewrite (proj1 (bits_release_spinlock (word w) Rw)). exact Hc.
      * change (wcond w3 = wcond w). rewrite F1. reflexivity.
      * change (wtype w3 = wtype w). rewrite F2. reflexivity.
      * intros y x _ _ Er. change (rcount w3 y = mw_rc x) in Er. rewrite F3 in Er. exact Er.
      * intros y u0 Ny Ef. apply (no_other_fin w w t y u0 H0); auto. unfold get; rewrite Hs; reflexivity.
      * unfold get; rewrite Hs; reflexivity.
      * cbn [t_pc]. eapply pc_nt_ext; [exact F1 | exact F2 | exact Hnt].
      * cbn [t_pc]. exact Hsr.
  - (* SpinLoad *) destruct k; try contradiction; destruct (nsync_spin_test_and_set_cas1_guard (word w) MU_SPINLOCK) eqn:G; B2.
  - (* SpinCas *) destruct k; try contradiction.
    + unfold spin_set. cbv beta iota. cas_split w; [| B2].
      destruct Hok as (Hnh & lt & Hown & Hsc). cbn [scan_pc_ok spin] in Hsc. destruct Hsc as (-> & Hte & Hu & G).
      subst old. intros HI' Hoth.
      match goal with |- context [round_end ?w2 u] =>
        eassert (HT : TS t w w2 _ _) by (ts_solve; rewrite Hlen; exact Ht);
        destruct (round_end_fields w2 u) as (R1 & _ & R3 & _ & _ & R6 & R7 & _ & _ & R10 & R11 & R12);
        destruct (round_end w2 u) as [w3 u3] eqn:Ere; cbn [fst snd] in *
      end.
      assert (Hnt : pc_nt w3 (snd (scan_from 3 w3 m u3))) by (apply scan_from_nt; [exact R1 | left; rewrite R12; exact Hte]).
      pose proof (scan_from_sres m 3 w3 u3) as Hsr.
      pose proof (scan_from_wt m 3 w3 u3) as [Hw1 Hw2].
      destruct (scan_from_fields m 3 w3 u3) as (F1 & F2 & F3 & _).
      destruct (scan_from 3 w3 m u3) as [w4 p'] eqn:Esf. cbn [fst snd] in *.
      rewrite R10 in Hw1. rewrite R11 in Hw2. rewrite R3 in F1. rewrite R7 in F2. rewrite R6 in F3.
      eassert (HT3 : TS t w (set_pc w4 t p') _ _) by (apply TS_set_pc; eapply TS_eq; [exact HT | exact Hw1 | exact Hw2]).
      pose proof (TS_get _ _ _ _ _ HT3) as Eg.
      split; [| rewrite Eg; cbn [t_pc]; intros E; destruct Hnt as [Hn5 _]; contradiction].
      eapply (L2_scan_finish w (set_pc w4 t p') t _ HL H2 Hoth Eg).
      * unfold get; rewrite Hs; reflexivity.
      * unfold hC. intros Hc. change (word (set_pc w4 t p')) with (word w4). rewrite Hw1. wsimp.
        rewrite (proj1 (bits_spin_scan (word w) Rw)). exact Hc.
      * change (wcond w4 = wcond w). rewrite F1. reflexivity.
      * change (wtype w4 = wtype w). rewrite F2. reflexivity.
      * intros y x _ _ Er0. change (rcount w4 y = mw_rc x) in Er0. rewrite F3 in Er0. exact Er0.
      * intros y u0 Ny Ef. apply (no_other_fin_U w t y u0 HU); auto; unfold get; rewrite Hs; reflexivity.
      * unfold get; rewrite Hs; reflexivity.
      * cbn [t_pc]. eapply pc_nt_ext; [| | exact Hnt]; [change (wcond w4 = wcond w3); rewrite F1, R3; reflexivity | change (wtype w4 = wtype w3); rewrite F2, R7; reflexivity].
      * cbn [t_pc]. exact Hsr.
    + pose proof (H2 t) as Hmc. unfold get in Hmc. rewrite Hs in Hmc. destruct Hmc as (_ & _ & Hmc & _).
      mwsome Hok mx. specialize (Hmc x eq_refl eq_refl).
      unfold spin_set. cbv beta iota. cas_split w; [subst old | B2].
      match goal with |- context [mw_first (get_mw ?ww t)] =>
        assert (get_mw ww t = x) as Eg by (erewrite (TS_get_mw t w); [| ts_solve; rewrite Hlen; exact Ht]; unfold get; rewrite Hs; reflexivity);
        rewrite Eg end.
      assert (Egm : get_mw w t = x) by (unfold get_mw, get; rewrite Hs; reflexivity). rewrite Egm.
      destruct (bits_spin_wait (word w) (mw_cond x) Rw) as [Bc _]. cbv zeta in Bc.
      destruct (mw_first x);
        B2h ltac:(unfold hC; intros Hc; wsimp; rewrite Bc, Hc; reflexivity).
      all: try (intros x0 Ex0 _ _ Hc0; unfold hC; wsimp; rewrite Bc;
                cbn [wcond set_pc set_t set_thr upd_mw set_mw set_queue w_merge set_rings set_spin set_own set_word] in Hc0; rewrite Hmc in Hc0;
                destruct (mw_cond x); [apply orb_true_r | congruence]).
      all: intros y0 u0 Ny0 Ef _; exfalso;
        match goal with HT : TS ?t0 ?w0 ?W _ _ |- _ => apply (no_other_fin w0 W t0 y0 u0 HI'); auto; rewrite (TS_get _ _ _ _ _ HT); reflexivity end.
  - (* RmLoad *) destruct k; try contradiction; B2.
  - (* RmCas *) destruct k; try contradiction.
    + destruct (Z.eqb_spec (rcount w (List.hd t (u_rest u))) oldv) as [Erc|Erc]; [| B2].
      destruct Hok as (Hnh & lt & Hown & Hsc). cbn [scan_pc_ok spin] in Hsc. destruct Hsc as (-> & Hu).
      assert (Ew : winfo w t = sinfo mx SRm u) by (rewrite (winfo_scan w t SRm u); unfold get; rewrite Hs; reflexivity).
      destruct (a_r2 _ _ _ _ _ _ _ HL t SRm u) as (_ & _ & [pre Hsuf] & (Hne & Hqe)); [rewrite Ew; reflexivity|].
      pose proof (H2 t) as Hold. unfold get in Hold. rewrite Hs in Hold. destruct Hold as (_ & _ & _ & Dnt & _).
      specialize (Dnt u eq_refl). unfold nt_ok in Dnt.
      destruct (u_rest u) as [|e tl0] eqn:Er; [congruence|]. cbn [List.hd List.tl] in *.
      destruct (remove_from _ _ _ _ (u_new u) e) as [nl rg] eqn:Erm.
      intros HI' Hoth.
      match goal with |- context [after_inner ?w2 m (inner ?w2 m ?u' tl0)] =>
        destruct (inner_after_nt w2 m u' tl0) as [Hnt Hsr];
        [ cbn [u_test u_wty]; destruct (u_test u) eqn:Tu; [left; reflexivity|];
          destruct (Dnt eq_refl) as [Dw|Dw]; [right; left; f_equal; exact Dw | right; right; left; exact Dw]
        | cbn [u_test]; exact Hqe
        | pose proof (after_inner_wt w2 m (inner w2 m u' tl0)) as [Hw1 Hw2];
          destruct (after_inner_fields w2 m (inner w2 m u' tl0)) as (F1 & F2 & F3 & _);
          destruct (after_inner w2 m (inner w2 m u' tl0)) as [w3 p'] eqn:Ea; cbn [fst snd] in *;
          eassert (HT : TS t w w2 _ _) by (ts_solve; rewrite Hlen; exact Ht) ]
      end.
      eassert (HT3 : TS t w (set_pc w3 t p') _ _) by (apply TS_set_pc; eapply TS_eq; [exact HT | exact Hw1 | exact Hw2]).
      pose proof (TS_get _ _ _ _ _ HT3) as Eg.
      split; [| rewrite Eg; cbn [t_pc]; intros E; destruct Hnt as [Hn5 _]; contradiction].
      eapply (L2_scan_finish w (set_pc w3 t p') t _ HL H2 Hoth Eg).
      * unfold get; rewrite Hs; reflexivity.
      * unfold hC. intros Hc. change (word (set_pc w3 t p')) with (word w3). rewrite Hw1. exact Hc.
      * change (wcond w3 = wcond w). rewrite F1. reflexivity.
      * change (wtype w3 = wtype w). rewrite F2. reflexivity.
      * intros y x Ex Hpe Er0. change (rcount w3 y = mw_rc x) in Er0. rewrite F3 in Er0.
        cbn [rcount set_rings set_rcount] in Er0. destruct (Nat.eq_dec y e) as [->|Nye]; [| rewrite fupd_neq in Er0 by exact Nye; exact Er0].
        exfalso. rewrite fupd_eq in Er0.
        assert (rcount w e = mw_rc x) as Ere.
        { apply (a_i3 _ _ _ _ _ _ _ HL e (mw_rc x)); [unfold winfo, info_of, peb; cbn [i_pe]; rewrite Ex, Hpe; reflexivity|].
          right. exists t. rewrite Ew. unfold irl; cbn [i_sk sinfo]. apply in_or_app; right. rewrite Hsuf. apply in_elt. }
        rewrite <- Erc in Er0. rewrite Ere in Er0. exact (rc_new_neq 0 _ Er0).
      * intros y u0 Ny Ef. apply (no_other_fin_U w t y u0 HU); auto; unfold get; rewrite Hs; reflexivity.
      * unfold get; rewrite Hs; reflexivity.
      * cbn [t_pc]. eapply pc_nt_ext; [exact F1 | exact F2 | exact Hnt].
      * cbn [t_pc]. exact Hsr.
    + destruct (Z.eqb_spec (rcount w t) oldv) as [Erc|Erc]; [| B2].
      pose proof (a_kt _ _ _ _ _ _ _ HL t) as Hin. unfold winfo, get in Hin. rewrite Hs in Hin. specialize (Hin eq_refl).
      pose proof Hok as Hok'. mwsome Hok mx.
      destruct (remove_from _ _ _ _ (queue _) t) as [nl rg] eqn:Erm.
      B2.
      * intros x0 Ex0 _ Er0 _. exfalso. injection Ex0 as <-. cbn [rcount set_pc set_t set_thr set_queue set_rings set_rcount] in Er0.
        rewrite fupd_eq in Er0.
        assert (rcount w t = mw_rc x) as Ere.
        { apply (a_i3 _ _ _ _ _ _ _ HL t (mw_rc x)); [unfold winfo, get; rewrite Hs; reflexivity | left; exact Hin]. }
        rewrite <- Erc, Ere in Er0. exact (rc_new_neq 0 _ Er0).
      * intros y0 u0 Ny0 Ef Eq0. rewrite Eq0 in Hin. destruct Hin.
  - (* UlFast *) destruct Hok as (Ho & ->). cas_split w; [B2h ltac:(hcb (bits_ufast m)) | B2].
  - (* UlLoad *) destruct Hok as (Ho & ->). destruct (unlock_try_cas2 m (word w)); [| destruct (unlock_bad m (word w))]; B2.
  - (* UlCas2 *) destruct Hok as (Ho & ->). unfold own in Ho; cbn [held] in Ho; destruct Ho as (-> & _).
    pose proof (Hheld m eq_refl) as Hp. cas_split w; [subst old | B2].
    destruct m; [B2h ltac:(hcb (bits_unlock_new2_W (word w) Rw (proj1 Hp))) | B2h ltac:(hcb (bits_unlock_new2_R (word w) Rw (proj1 Hp)))].
  - (* UwFast *) destruct Hok as (Ho & ->). cas_split w; [B2h ltac:(hcb bits_uwfast) | B2].
  - (* UwLoad *) destruct Hok as (Ho & ->). destruct (nsync_mu_unlock_without_wakeup_cas2_guard (word w)); [| destruct (uw_bad (word w))]; B2.
  - (* UwCas2 *) destruct Hok as (Ho & ->). unfold own in Ho; cbn [held] in Ho; destruct Ho as (-> & _).
    pose proof (Hheld W eq_refl) as Hp. cas_split w; [subst old; B2h ltac:(hcb (bits_uw_new2 (word w) Rw (proj1 Hp))) | B2].
  - (* UsLoad *) destruct (nsync_mu_unlock_slow_cas1_guard (word w)); [B2|].
    destruct (nsync_mu_unlock_slow_cas2_guard (word w)) eqn:G2; [B2 | noop].
  - (* UsCasRel *) destruct Hok as (Ho & Hnh). unfold own in Ho; cbn [held] in Ho; destruct Ho as (-> & _).
    pose proof (Hheld m eq_refl) as Hp. cas_split w; [subst old | B2].
    destruct m; destruct mx; [B2h ltac:(hcb (bits_unlock_slow_cas1_W (word w) Rw (proj1 Hp))) | B2h ltac:(hcb (bits_unlock_slow_cas1_W (word w) Rw (proj1 Hp)))
                             | B2h ltac:(hcb (bits_unlock_slow_cas1_R (word w) Rw (proj1 Hp))) | B2h ltac:(hcb (bits_unlock_slow_cas1_R (word w) Rw (proj1 Hp)))].
  - (* UsCasSpin *) cas_split w; [| B2].
    destruct Hok as (Ho & Hnh & G). unfold own in Ho. cbn [held spin conv] in Ho. destruct Ho as (-> & -> & ->).
    subst old. pose proof (held_rel_pre2 _ _ (Hheld m eq_refl)) as Hp.
    destruct (has (word w) MU_CONDITION) eqn:Etest; intros HI' Hoth;
    (match goal with |- context [scan_from 3 (set_queue ?w2 []) m ?u] =>
      eassert (HT : TS t w (set_queue w2 []) _ _) by (ts_solve; rewrite Hlen; exact Ht);
      assert (Hnt : pc_nt (set_queue w2 []) (snd (scan_from 3 (set_queue w2 []) m u)));
      [ apply scan_from_nt; [reflexivity |];
        first [ left; reflexivity
              | right; right; cbn [u_new]; unfold uncond; apply Forall_forall; intros p Hp0;
                change (In p (queue w)) in Hp0; change (wcond w p = None);
                destruct (wcond w p) eqn:Ecp; [exfalso | reflexivity];
                assert (hC (word w) = true) as Hcc by (apply (cond_member_C n w p H0 HL H2); [left; exact Hp0 | congruence]);
                unfold hC in Hcc; congruence ]
      | pose proof (scan_from_sres m 3 (set_queue w2 []) u) as Hsr;
        pose proof (scan_from_wt m 3 (set_queue w2 []) u) as [Hw1 Hw2];
        destruct (scan_from_fields m 3 (set_queue w2 []) u) as (F1 & F2 & F3 & _);
        destruct (scan_from 3 (set_queue w2 []) m u) as [w4 p'] eqn:Esf; cbn [fst snd] in * ]
    end);
    (eassert (HT3 : TS t w (set_pc w4 t p') _ _) by (apply TS_set_pc; eapply TS_eq; [exact HT | exact Hw1 | exact Hw2]));
    pose proof (TS_get _ _ _ _ _ HT3) as Eg;
    (split; [| rewrite Eg; cbn [t_pc]; intros E; destruct Hnt as [Hn5 _]; contradiction]);
    eapply (L2_scan_finish w (set_pc w4 t p') t _ HL H2 Hoth Eg).
    all: try (unfold get; rewrite Hs; reflexivity).
    all: try (cbn [t_pc]; exact Hsr).
    all: try (intros y u0 Ny Ef; apply (no_other_fin w (set_pc w4 t p') t y u0 HI'); auto; rewrite Eg; reflexivity).
    all: try (change (wcond w4 = wcond w); rewrite F1; reflexivity).
    all: try (change (wtype w4 = wtype w); rewrite F2; reflexivity).
    all: try (intros y x _ _ Er0; change (rcount w4 y = mw_rc x) in Er0; rewrite F3 in Er0; exact Er0).
    all: try (cbn [t_pc]; eapply pc_nt_ext; [exact F1 | exact F2 | exact Hnt]).
    all: unfold hC; intros Hc; change (word (set_pc w4 t p')) with (word w4); rewrite Hw1; wsimp.
    + rewrite (proj1 (bits_unlock_slow_cas2' m true (word w) Rw Hp)). exact Hc.
    + rewrite (proj1 (bits_unlock_slow_cas2' m false (word w) Rw Hp)). exact Hc.
  - (* UsEval *)
    destruct Hok as (Hnh & lt & Hown & Hsc). cbn [scan_pc_ok spin] in Hsc. destruct Hsc as (-> & Hte & Hu).
    destruct (u_rest u) as [|p tl0] eqn:Er; [B2|]. destruct (wcond w p) as [[f a]|] eqn:Ec; [| B2].
    intros HI' Hoth.
    match goal with |- context [after_inner ?w2 m ?r] =>
      assert (Hns : pc_nt w2 (snd (after_inner w2 m r)) /\ sres (fst (after_inner w2 m r)) (snd (after_inner w2 m r)));
      [ destruct (pst w f a);
        [ match goal with |- context [wakeable ?ww u p] => destruct (wakeable ww u p) end;
          [ cbn [after_inner fst snd]; split; [split; [discriminate | intros u0 E; injection E as <-; intros T; congruence]
                                            | split; [exact I | intros ? E; discriminate E]]
          | apply inner_after_nt; [left; exact Hte | cbn [u_test set_uset]; intros T; congruence] ]
        | apply inner_after_nt; [left; exact Hte | intros T; congruence] ]
      | destruct Hns as [Hnt Hsr];
        pose proof (after_inner_wt w2 m r) as [Hw1 Hw2];
        destruct (after_inner_fields w2 m r) as (F1 & F2 & F3 & _);
        destruct (after_inner w2 m r) as [w3 p'] eqn:Ea; cbn [fst snd] in *;
        eassert (HT : TS t w w2 _ _) by (ts_solve; rewrite Hlen; exact Ht) ]
    end.
    {
      eassert (HT3 : TS t w (set_pc w3 t p') _ _) by (apply TS_set_pc; eapply TS_eq; [exact HT | exact Hw1 | exact Hw2]).
      pose proof (TS_get _ _ _ _ _ HT3) as Eg.
      split; [| rewrite Eg; cbn [t_pc]; intros E; destruct Hnt as [Hn5 _]; contradiction].
      eapply (L2_scan_finish w (set_pc w3 t p') t _ HL H2 Hoth Eg).
      * unfold get; rewrite Hs; reflexivity.
      * unfold hC. intros Hc. change (word (set_pc w3 t p')) with (word w3). rewrite Hw1. wsimp. exact Hc.
      * change (wcond w3 = wcond w). rewrite F1. reflexivity.
      * change (wtype w3 = wtype w). rewrite F2. reflexivity.
      * intros y x _ _ Er0. change (rcount w3 y = mw_rc x) in Er0. rewrite F3 in Er0. exact Er0.
      * intros y u0 Ny Ef. apply (no_other_fin_U w t y u0 HU); auto; unfold get; rewrite Hs; reflexivity.
      * unfold get; rewrite Hs; reflexivity.
      * cbn [t_pc]. eapply pc_nt_ext; [exact F1 | exact F2 | exact Hnt].
      * cbn [t_pc]. exact Hsr.
    }
  - (* UsRelLoad *) B2.
  - (* UsRelCas *) cas_split w; [| B2].
    destruct Hok as (Hnh & lt & Hown & Hsc). cbn [scan_pc_ok spin] in Hsc. destruct Hsc as (-> & Hu & Hl).
    assert (HW : late u = MU_WLOCK -> old mod 2 = 1).
    { subst old. destruct Hown as [(E1 & E2 & E3) | (E1 & E2 & E3)]; cbn [held] in E2; rewrite Hl, E1; subst h;
        [intros _; apply (Hheld W eq_refl) | discriminate]. }
    subst old. destruct (bits_cas3_gen u (word w) Rw Hu HW) as [Bc _].
    pose proof (H2 t) as Hfn. unfold get in Hfn. rewrite Hs in Hfn. destruct Hfn as (_ & _ & _ & _ & Hfn). specialize (Hfn u eq_refl).
    intros HI' Hoth.
    assert (HC' : forall y x, mw (get w y) = Some x -> pe_pc (t_pc (get w y)) = true -> rcount w y = mw_rc x -> wcond w y <> None ->
                  has (nsync_mu_unlock_slow_cas3_new (word w) (late u) (set_on u) (clear_on u)) MU_CONDITION = true).
    { intros y x Ex Hpe Er Hc. destruct (H2 y) as (A & _). pose proof (A x Ex Hpe Er Hc) as Hcw. unfold hC in Hcw.
      rewrite Bc, Hcw. cbn [orb andb]. destruct (has (clear_on u) MU_CONDITION) eqn:Ecl; [exfalso | reflexivity].
      specialize (Hfn Ecl).
      assert (Hr : inring (queue w) (winfo w) y).
      { apply (a_i3 _ _ _ _ _ _ _ HL y (mw_rc x)); [unfold winfo, info_of, peb; cbn [i_pe]; rewrite Ex, Hpe; reflexivity | exact Er]. }
      destruct Hr as [Hr | [t' Hr]]; [rewrite Hfn in Hr; destruct Hr|].
      unfold winfo, info_of, irl in Hr; cbn [i_sk] in Hr. destruct (sk_of (t_pc (get w t'))) as [[k0 u0]|] eqn:Esk; [| destruct Hr].
      assert (t' = t) as -> by (apply HU; [unfold scl; rewrite Esk; reflexivity | unfold get; rewrite Hs; reflexivity]).
      unfold get in Esk. rewrite Hs in Esk. discriminate Esk. }
    assert (Gen : forall W s', TS t w W (nsync_mu_unlock_slow_cas3_new (word w) (late u) (set_on u) (clear_on u)) s' ->
              (forall y, y <> t -> get W y = get w y) ->
              wcond W = wcond w -> wtype W = wtype w -> rcount W = rcount w -> queue W = queue w ->
              mw s' = mx -> lsq (t_pc s') = false -> mcq (t_pc s') = false -> sk_of (t_pc s') = None -> fin_of (t_pc s') = None ->
              pe_pc (t_pc s') = true \/ mw s' = None -> t_pc s' <> Crash 5 ->
              L2 W /\ (t_pc (get W t) = Crash 5 -> UsRelCas m u (word w) = Crash 5)).
    { intros W s' HTW HoW Ewc Ewt Erc Eq Em F1 F2 F3 F4 F5 F6. pose proof (TS_get _ _ _ _ _ HTW) as Eg.
      assert (Eword : word W = nsync_mu_unlock_slow_cas3_new (word w) (late u) (set_on u) (clear_on u)) by apply HTW.
      split; [| rewrite Eg; intros E; contradiction].
      intros y. destruct (Nat.eq_dec y t) as [->|Ny].
      - rewrite Eg. split; [|split; [|split; [|split]]].
        + intros x Ex _ Er Hc. unfold hC. rewrite Eword. rewrite Em in Ex. apply (HC' t x).
          * unfold get; rewrite Hs; exact Ex.
          * unfold get; rewrite Hs; reflexivity.
          * rewrite <- Erc. exact Er.
          * rewrite <- Ewc. exact Hc.
        + rewrite F1. discriminate.
        + intros x _ E. rewrite F2 in E. discriminate E.
        + intros u0 E. rewrite F3 in E. discriminate E.
        + intros u0 E. rewrite F4 in E. discriminate E.
      - apply (L2_frame' w W t HL H2 HoW).
        + intros y0 x0 Ex Hpe Er Hc. unfold hC. rewrite Eword. exact (HC' y0 x0 Ex Hpe Er Hc).
        + intros; rewrite Ewc; reflexivity.
        + intros; rewrite Ewt; reflexivity.
        + intros _; rewrite Ewc, Ewt; auto.
        + intros y0 x0 _ _ _ Er. rewrite <- Erc. exact Er.
        + intros y0 u0 _ _ E. rewrite Eq. exact E.
        + exact Ny. }
    destruct (wake u) as [|q rest] eqn:Ewk; [destruct mx as [x|]|]; cbn [fst] in *;
      (match goal with |- L2 ?W /\ _ => eapply (Gen W); [ts_solve; rewrite Hlen; exact Ht | exact Hoth | ..] end);
      try fld; try (unfold get; rewrite Hs; cbn; reflexivity); try reflexivity; try discriminate; try (left; reflexivity); try (right; reflexivity).
    all: unfold get; rewrite ?Hs; cbn [t_pc mw t_ops held conv spin last_ret pe_pc us_pc orb lsq mcq sk_of fin_of];
      first [discriminate | reflexivity | (left; reflexivity) | (right; reflexivity)].
  - (* UsWakeStore *) destruct (wake u) as [|q rest] eqn:Ewk; destruct mx; B2.
  - (* UsWakeV *) destruct (wake u) as [|q rest] eqn:Ewk; destruct mx; B2.
  - (* SetC *) destruct Hok as (Ho & ->). B2.
  - (* MwLoad *) destruct Hok as (-> & -> & Hh & Hm). destruct h as [h|]; [| congruence]. destruct mx as [x|]; [| congruence].
    destruct (band (word w) MU_ANY_LOCK =? 0); [B2|].
    match goal with |- context [mw_cond (get_mw ?ww t)] =>
      assert (get_mw ww t = mk_mw (if negb (band (word w) MU_RHELD_IF_NON_ZERO =? 0) then R else W) (mw_cond x) (mw_eq x) (mw_dl x) (mw_canc x) (mw_first x) (mw_rc x) (mw_hadw x)
                                  (mw_semout x) (mw_have x) (mw_outcome x) (mw_tmo x) (mw_ent x)) as Eg
        by (erewrite (TS_get_mw t w); [| ts_solve; rewrite Hlen; exact Ht]; unfold get; rewrite Hs; reflexivity);
      rewrite Eg end.
    cbn [mw_cond]. destruct (mw_cond x) eqn:Emc; [B2|].
    unfold mw_after_eval. rewrite Eg. cbn [mw_outcome mw_mode mw_cond mw_eq]. destruct (nsync_mu_wait_with_deadline_store1_guard _ _); B2.

  - (* MwEval *) mwsome Hok mx. unfold get_mw, get. rewrite Hs. cbn [mw].
    destruct (mw_cond x) as [[f a]|] eqn:Emc; unfold mw_after_eval;
      (match goal with |- context [get_mw ?ww t] =>
         assert (get_mw ww t = x) as Eg by (unfold get_mw, get; cbn [thr log_eval add_ev]; rewrite Hs; reflexivity); rewrite Eg end);
      destruct (nsync_mu_wait_with_deadline_store1_guard _ _); B2.

  - (* MwStoreWaiting *) mwsome Hok mx. B2.
  - (* MwRcLoad *) mwsome Hok mx. B2.
  - (* MwRelLoad *) mwsome Hok mx. B2.
  - (* MwRelCas *) unfold in_mw in Hok; cbn [mw] in Hok. destruct Hok as (x & Hx & Ho & Hh & Hadd). subst mx.
    unfold own in Ho; cbn [held] in Ho; destruct Ho as (-> & _).
    pose proof (held_rel_pre _ _ (Hheld (mw_mode x) eq_refl)) as Hp. cas_split w; [subst old | B2].
    destruct (add =? 0).
    + match goal with |- context [mw_mode (get_mw ?ww t)] =>
        assert (get_mw ww t = x) as Eg by (erewrite (TS_get_mw t w); [| ts_solve; rewrite Hlen; exact Ht]; unfold get; rewrite Hs; reflexivity);
        rewrite Eg end.
      B2h ltac:(hcb (bits_mw_cas1 (mw_mode x) (word w) add Rw Hp Hadd)).
    + B2h ltac:(hcb (bits_mw_cas1 (mw_mode x) (word w) add Rw Hp Hadd)).
  - (* MwLoadW1 *) mwsome Hok mx. unfold get_mw, get. rewrite Hs. cbn [mw].
    destruct (waiting w t) eqn:Ew.
    + destruct (mw_semout x =? 0); B2.
    + destruct (mw_have x) eqn:Eh; B2.
    all: unfold get; rewrite ?Hs; cbn [t_pc mw t_ops held conv spin last_ret pe_pc us_pc orb lsq mcq sk_of fin_of];
      first [discriminate | reflexivity | (left; reflexivity) | (right; reflexivity)].
  - (* MwSemP *) mwsome Hok mx. unfold get_mw, get. rewrite Hs. cbn [mw]. destruct c.
    + destruct (0 <? sem w t); [B2 | noop].
    + destruct (mw_dl x) as [d|]; [| noop]. destruct (d <=? clock w); [B2 | noop].
    + destruct (mw_canc x && note w); [B2 | noop].
  - (* MwLoadW2 *) mwsome Hok mx. destruct (waiting w t); B2.
  - (* MwLoadW3 *) mwsome Hok mx. B2.
  - (* MtLoad *) mwsome Hok mx. destruct (mu_try_acquire_after_timeout_or_cancel_cas1_guard (word w)) eqn:G1;
      [| destruct (mu_try_acquire_after_timeout_or_cancel_cas2_guard (word w)) eqn:G2]; B2.
  - (* MtCas1 *) unfold mt_pre, in_mw in Hok; cbn [mw] in Hok. destruct Hok as ((x & Hx & _) & G). subst mx. cas_split w.
    + subst old. B2h ltac:(hcb (bits_mt_cas1 (word w) (mt_cas1_guard_facts _ Rw G))).
    + destruct (mu_try_acquire_after_timeout_or_cancel_cas2_guard old) eqn:G2; B2.
  - (* MtCas2 *) mwsome Hok mx. cas_split w; [subst old; B2h ltac:(hcb (bits_mt_cas2 (word w) Rw)) | B2].
  - (* MtLoadW *) mwsome Hok mx. destruct (waiting w t); B2.
  - (* MtLoadRc *) mwsome Hok mx. unfold get_mw, get. rewrite Hs. cbn [mw]. destruct (mw_rc x =? rcount w t); B2.
  - (* MtStoreW *) mwsome Hok mx. B2.
  - (* MtStore2 *) unfold try_frozen, in_mw in Hok; cbn [mw] in Hok. destruct Hok as ((x & Hx & _) & Hto). subst mx.
    assert (Ewf : word w = mu_try_acquire_after_timeout_or_cancel_cas1_new old) by (apply (HF t old); unfold get; rewrite Hs; reflexivity).
    unfold get_mw, get. rewrite Hs. cbn [mw].
    B2h ltac:(unfold hC; intros Hc; wsimp; rewrite (proj1 (bits_mt_store2 old (mw_mode x) Hto)); rewrite Ewf, (proj1 (bits_mt_cas1 old Hto)) in Hc; exact Hc).
  - (* MtStore3 *) unfold try_frozen, in_mw in Hok; cbn [mw] in Hok. destruct Hok as ((x & Hx & _) & Hto). subst mx.
    assert (Ewf : word w = mu_try_acquire_after_timeout_or_cancel_cas1_new old) by (apply (HF t old); unfold get; rewrite Hs; reflexivity).
    B2h ltac:(unfold hC; intros Hc; wsimp; rewrite (proj1 (bits_mt_store3 old Hto)); rewrite Ewf, (proj1 (bits_mt_cas1 old Hto)) in Hc; exact Hc).
  - (* Crash *) noop.
Qed.
End Step2.

(* ================= reachable worlds ================= *)
Definition LInv (n : nat) (w : world) : Prop := FInv n w /\ L1 w /\ U1 w /\ L2 w.

Lemma LInv_step_thr n (Hn : Z.of_nat n < 16777215) w t c : LInv n w -> LInv n (fst (step_thr w t c)).
Proof.
  intros (HF & HL & HU & H2). destruct HF as [HI HFr].
  destruct (L2_step_thr n Hn w t c HI HFr HL HU H2) as [H2' Hnc].
  destruct (L1_step_thr n Hn w t c HI HL HU Hnc) as [HL' HU'].
  split; [apply (step_thr_finv n Hn); split; assumption | auto].
Qed.

Lemma LInv_step n (Hn : Z.of_nat n < 16777215) w a : LInv n w -> LInv n (fst (step w a)).
Proof.
  intros H. destruct a as [t c|dt| |p]; cbn [step].
  - now apply LInv_step_thr.
  - destruct (0 <=? dt); [| exact H]. destruct H as ((HI & HFr) & HL & HU & H2). split; [split|split; [|split]]; assumption.
  - destruct H as ((HI & HFr) & HL & HU & H2). split; [split|split; [|split]]; assumption.
  - destruct (note w); [| exact H]. destruct H as ((HI & HFr) & HL & HU & H2). split; [split|split; [|split]]; assumption.
Qed.

Lemma LInv_run n (Hn : Z.of_nat n < 16777215) sched : forall w, LInv n w -> LInv n (run w sched).
Proof.
  unfold run. induction sched as [|a rest IH]; intros w H; cbn [fold_left]; [exact H|]. apply IH, LInv_step; assumption.
Qed.

Lemma init_get progs cl c0 t : t_pc (get (init progs cl c0) t) = Idle /\ mw (get (init progs cl c0) t) = None.
Proof.
  unfold init, get; cbn [thr].
  change dflt_t with ((fun ops => mk_t Idle ops None false false None None) []). rewrite map_nth. split; reflexivity.
Qed.

Lemma init_LInv progs cl c0 : LInv (length progs) (init progs cl c0).
Proof.
  split; [apply init_finv|]. split; [|split].
  - unfold L1, L1v.
    assert (E : forall t, winfo (init progs cl c0) t = info_of Idle None).
    { intros t. unfold winfo. destruct (init_get progs cl c0 t) as [-> ->]. reflexivity. }
    eapply L1a_ext; [exact E|]. cbn [init queue wcond cls waiting rcount]. unfold rings_of; cbn [scp scn].
    constructor; cbn.
    + intros t. constructor.
    + intros t1 t2 p [].
    + intros t p [].
    + intros p [[] | [t []]].
    + intros t v E0. discriminate E0.
    + intros t o E0. discriminate E0.
    + intros t E0. discriminate E0.
    + apply RingInv_nil.
    + intros t k u E0. discriminate E0.
    + intros p _. split; reflexivity.
  - intros t1 t2 A. destruct (init_get progs cl c0 t1) as [E _]. rewrite E in A. discriminate A.
  - intros t. apply L2t_idle. destruct (init_get progs cl c0 t) as [-> _]. exact I.
Qed.

Lemma LInv_reachable progs cl c0 sched :
  Z.of_nat (length progs) < 2 ^ 24 - 1 -> LInv (length progs) (run (init progs cl c0) sched).
Proof. intros H. apply LInv_run; [exact H | apply init_LInv]. Qed.

(* the scan never panics *)
Lemma no_crash5_reachable progs cl c0 sched t :
  Z.of_nat (length progs) < 2 ^ 24 - 1 -> t_pc (get (run (init progs cl c0) sched) t) <> Crash 5.
Proof.
  intros H. revert t. unfold run.
  assert (G : forall sched w, LInv (length progs) w -> (forall t, t_pc (get w t) <> Crash 5) ->
              forall t, t_pc (get (fold_left (fun w a => fst (step w a)) sched w) t) <> Crash 5).
  { induction sched0 as [|a rest IH]; intros w HL Hn t; cbn [fold_left]; [apply Hn|].
    apply IH; [apply LInv_step; assumption|]. clear t. intros t.
    destruct a as [t0 c|dt| |p]; cbn [step].
    - destruct HL as ((HI & HFr) & HL1 & HU & H2).
      destruct (L2_step_thr _ H w t0 c HI HFr HL1 HU H2) as [_ Hnc].
      pose proof (step_thr_ok _ H w t0 c HI) as (_ & _ & _ & Ho).
      destruct (Nat.eq_dec t t0) as [->|N].
      + intros E. specialize (Hnc E). destruct (begin_op_state w t0) as [B|B].
        * rewrite B in Hnc. exact (Hn t0 Hnc).
        * rewrite Hnc in B. apply B; reflexivity.
      + rewrite (Ho t N), begin_op_get_other by exact N. apply Hn.
    - destruct (0 <=? dt); apply Hn.
    - apply Hn.
    - destruct (note w); apply Hn. }
  intros t. apply G; [apply init_LInv|]. intros t0. destruct (init_get progs cl c0 t0) as [-> _]. discriminate.
Qed.

(* ================= RingInv of every reachable world ================= *)
Lemma RingInv_reachable progs cl c0 sched :
  Z.of_nat (length progs) < 2 ^ 24 - 1 ->
  let w := run (init progs cl c0) sched in
  RingInv (wcond w) (cls w) (rings_of w) (queue w) /\
  (forall t k u, sk_of (t_pc (get w t)) = Some (k, u) ->
     RingInv (wcond w) (cls w) (rings_of w) (u_done u) /\ RingInv (wcond w) (cls w) (rings_of w) (u_new u) /\
     (exists pre, u_new u = pre ++ u_rest u)) /\
  (forall p, ~ In p (queue w) -> (forall t k u, sk_of (t_pc (get w t)) = Some (k, u) -> ~ In p (u_done u ++ u_new u)) ->
     single (rings_of w) p).
Proof.
  intros H w. destruct (LInv_reachable progs cl c0 sched H) as (_ & HL & _). fold w in HL.
  split; [exact (a_r1 _ _ _ _ _ _ _ HL)|]. split.
  - intros t k u E. destruct (a_r2 _ _ _ _ _ _ _ HL t k u) as (A & B & C & _); [exact E | auto].
  - intros p Hq Hs. apply (a_r3 _ _ _ _ _ _ _ HL). intros [A | [t A]]; [exact (Hq A)|].
    unfold winfo, info_of, irl in A; cbn [i_sk] in A. destruct (sk_of (t_pc (get w t))) as [[k u]|] eqn:E; [| exact A].
    exact (Hs t k u E A).
Qed.
