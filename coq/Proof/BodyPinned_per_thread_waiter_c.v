(* The code of every function of per_thread_waiter.c, regenerated from /repo on this run (digest of its AST), is the code the models were validated against. *)
From Coq Require Import String List.
From NsyncGen Require Import Body.
From NsyncModel Require Import BodyExpected.

Lemma body_current_per_thread_waiter_c : body_per_thread_waiter_c = expected_body_per_thread_waiter_c.
Proof. vm_compute. reflexivity. Qed.
