(* CvDbgProof: the cv debug-state functions as participants of the condition-variable model (C16, first sentence,
   cv half).  Proofs about Model/CvDbgModel.v = Model/CvModel.v + debugger threads (emit_cv_state of internal/debug.c).

   emit_cv_state releases CV_SPINLOCK with a PLAIN STORE of the word nsync_spin_test_and_set_ returned.  The theorem
   that makes this harmless: every write of cv->word by cv.c happens under CV_SPINLOCK (the acquiring CAS fails while the
   bit is set; the five releasing stores are made only from inside a spinlock section), so while a debugger owns the
   spinlock the word stays exactly what its CAS wrote (invariant cpc_ok) and the store clears CV_SPINLOCK and nothing else.

   Part 1  cv.c's own spinlock discipline per step (step_core_AW = CvProof.step_core_A from a hypothesis that does not
           assume the owner is a model thread)
   Part 2  what one debugger step does (cdbg_step_facts)
   Part 3  the invariant CDInv of the combined system (CvProof.AInv's first three conjuncts + ownership) and its
           preservation by every actor of CvModel.step and by debugger steps
   Part 4  the lemmas used by Props/Properties_C16c.v; Part 5 an example.
   NOT proved here: the upper layers of the cv development (CvProof2..7: no lost wake-up, C04 / C05) over the combined
   system; cd_base_AInv gives CvProof.AInv of the base world whenever no debugger owns the spinlock. *)
From NsyncBase Require Import CSem.
From NsyncGen Require Import Consts Sites.
From NsyncModel Require Import CvModel CvDbgModel.
From NsyncProof Require Import CvProof.
From Coq Require Import List ZArith Bool Lia PeanoNat.
Import ListNotations.
Local Open Scope Z_scope.

(* ================================================================== *)
(* Part 1: the cv spinlock discipline of cv.c, per step, without assuming that the owner is a model thread *)
(* ================================================================== *)
(* CvProof.AInv without its last conjunct ("some thread is inside a spinlock section, or the spinlock bit is clear"),
   which is false while a debugger owns the spinlock; the range of the word is what the per-step lemma needs of it *)
Definition AW (w : world) : Prop :=
  (forall t1 t2, pc_spin (t_pc (get w t1)) = true -> pc_spin (t_pc (get w t2)) = true -> t1 = t2) /\
  (forall t, pc_spin (t_pc (get w t)) = true -> cvw w = 1 \/ cvw w = 3) /\
  (forall t old, pc_old (t_pc (get w t)) = Some old -> lowbits old) /\
  0 <= cvw w < 4.

(* CvProof.step_core_A, same proof, from AW *)
Lemma step_core_AW w t c : AW w -> (t < length (thr w))%nat ->
  let w' := fst (step_core w t c) in
  let p := t_pc (get w t) in let p' := t_pc (get w' t) in
  (forall old, pc_old p' = Some old -> lowbits old) /\
  ((pc_spin p = pc_spin p' /\ cvw w' = cvw w) \/
   (pc_spin p = false /\ pc_spin p' = true /\ lowbits (cvw w) /\ (cvw w' = 1 \/ cvw w' = 3)) \/
   (pc_spin p = true /\ pc_spin p' = false /\ lowbits (cvw w'))).
Proof.
  intros (A1 & A2 & A3 & Hrng) Hlt.
  pose proof (A3 t) as Hold.
  step_cases w t; try rewrite Hpc in *; simpl in Hold; simpl fst; pc_nf; rewrite ?Hpc; simpl.
  all: try (split; [exact Hold | left; split; reflexivity]).
  all: try (split; [intros ? [=] | left; split; reflexivity]).
  all: rewrite ?(proj1 (pc_old_after_todo _)), ?(proj2 (pc_old_after_todo _)),
               ?(proj1 (pc_old_enter_wake_loop _)), ?(proj2 (pc_old_enter_wake_loop _)); simpl.
  all: try (split; [exact Hold | left; split; reflexivity]).
  all: try (split; [intros ? [=] | left; split; reflexivity]).
  all: autorewrite with getdb; rewrite ?Hpc; simpl.
  all: try (split; [exact Hold | left; split; reflexivity]).
  all: try (subst; eapply spin_guard_low; eassumption).
  all: zbool; unfold nsync_spin_test_and_set_cas1_old in *.
  all: try match goal with H : forall o : Z, Some ?x = Some o -> lowbits o |- _ =>
         assert (Hlow : lowbits x) by (apply H; reflexivity) end.
  all: try (split; [intros ? [= <-]; auto using lowbits_clear, lowbits_0 |]).
  (* acquisitions *)
  all: try (right; left; repeat split; [congruence | first [apply spin_new_1 | apply spin_new_3]; assumption]).
  (* releases *)
  all: try (right; right; repeat split;
            first [ apply (proj1 (lowbits_set _ Hlow)) | apply (proj2 (lowbits_set _ Hlow)) | exact Hlow | exact lowbits_0 ]).
  all: subst; now apply lowbits_clear.
Qed.

(* ================================================================== *)
(* Part 2: what one debugger step does                                 *)
(* ================================================================== *)
Definition cowner (w : cdworld) (d : nat) : bool := c_owner (cdget w d).
Definition cpcof (w : cdworld) (d : nat) : cdpc := c_pc (cdget w d).
(* between the acquiring CAS of nsync_spin_test_and_set_ and the releasing store of emit_cv_state *)
Definition cowner_pc (p : cdpc) : bool :=
  match p with CWalkW _ _ _ | CWalkR _ _ _ | CRelStore _ => true | _ => false end.
Definition cspin_pc (p : cdpc) : bool := match p with CSpinLoad _ _ | CSpinCas _ _ => true | _ => false end.
(* x = the current cv word.  The CAS is attempted only on a value with the spinlock bit clear; an owner carries the value
   nsync_spin_test_and_set_ returned, and the word is STILL what its CAS made of that value *)
Definition cpc_ok (x : Z) (p : cdpc) : Prop :=
  match p with
  | CSpinCas _ old => lowbits old
  | CWalkW word _ _ | CWalkR word _ _ | CRelStore word =>
      lowbits word /\ x = nsync_spin_test_and_set_cas1_new word CV_SPINLOCK 0
  | _ => True
  end.

Lemma cdget_oob w d : (length (cdbg w) <= d)%nat -> cdget w d = dflt_cd.
Proof. intros. unfold cdget. now apply nth_overflow. Qed.
Lemma cdget_cdset_same w d s : (d < length (cdbg w))%nat -> cdget (cdset w d s) d = s.
Proof. intros H. unfold cdget, cdset; cbn [cdbg]. now apply nth_lupd_same. Qed.
Lemma cdget_cdset_other w d d' s : d' <> d -> cdget (cdset w d s) d' = cdget w d'.
Proof. intros H. unfold cdget, cdset; cbn [cdbg]. apply nth_lupd_other. congruence. Qed.

Lemma cafter_walk_1 word : cafter_walk 1 word = CRelStore word. Proof. reflexivity. Qed.
Lemma cafter_walk_0 word : cafter_walk 0 word = CIdle.          Proof. reflexivity. Qed.
Lemma cwalk_pc_owner word rest : cowner_pc (cwalk_pc word rest) = true.
Proof. destruct rest; reflexivity. Qed.
Lemma cwalku_pc_owner k : cowner_pc (cwalku_pc k) = false.
Proof. destruct k; reflexivity. Qed.
Lemma cwalk_pc_ok x word rest : lowbits word -> x = nsync_spin_test_and_set_cas1_new word CV_SPINLOCK 0 ->
  cpc_ok x (cwalk_pc word rest).
Proof. intros. destruct rest; cbn [cwalk_pc]; rewrite ?cafter_walk_1; cbn [cpc_ok]; auto. Qed.
Lemma cwalku_pc_ok x k : cpc_ok x (cwalku_pc k).
Proof. destruct k; exact I. Qed.

Lemma store_new_low word : lowbits word -> emit_cv_state_store1_new word = word.
Proof. intros [-> | ->]; reflexivity. Qed.

(* the three kinds of debugger step: b, o, p = base world, ownership, pc before; b', o' after *)
Inductive ckind (b : world) (o : bool) (p : cdpc) (b' : world) (o' : bool) : Prop :=
| CK_local : b' = b -> o' = o -> ckind b o p b' o'
| CK_acquire : o = false -> o' = true -> lowbits (cvw b) ->
               b' = set_cvw b (nsync_spin_test_and_set_cas1_new (cvw b) CV_SPINLOCK 0) -> ckind b o p b' o'
| CK_release : forall word, o = true -> o' = false -> p = CRelStore word ->
               b' = set_cvw b (emit_cv_state_store1_new word) -> ckind b o p b' o'.

Ltac cdnorm Hs Hd :=
  unfold cowner, cpcof, cdset_pc, cdset_owner, cdnote_read, cdnote_unsafe, cdset_base, cdset, cdget;
  cbn [cbase cdbg];
  repeat first [ rewrite Hs | rewrite nth_lupd_same by exact Hd | rewrite lupd_lupd ];
  cbn [c_pc c_ops c_owner c_read c_unsafe].

Definition CFacts (w w' : cdworld) (d : nat) : Prop :=
  length (cdbg w') = length (cdbg w) /\
  (forall d', d' <> d -> cdget w' d' = cdget w d') /\
  cowner w' d = cowner_pc (cpcof w' d) /\ cpc_ok (cvw (cbase w')) (cpcof w' d) /\
  ckind (cbase w) (cowner w d) (cpcof w d) (cbase w') (cowner w' d).

Lemma cdbegin_local w d : cbase (cdbegin w d) = cbase w /\ cowner (cdbegin w d) d = cowner w d.
Proof.
  unfold cdbegin. cbv zeta. destruct (c_pc (cdget w d)) eqn:Ep; try (split; reflexivity).
  destruct (c_ops (cdget w d)) eqn:Eo; [split; reflexivity|]. split; [reflexivity|].
  unfold cowner. destruct (Nat.lt_ge_cases d (length (cdbg w))) as [Hd|Hd].
  - rewrite cdget_cdset_same by exact Hd. reflexivity.
  - rewrite cdget_oob in Eo by exact Hd. discriminate Eo.
Qed.

Lemma cdbegin_nonidle w d : cpcof w d <> CIdle -> cdbegin w d = w.
Proof. unfold cpcof, cdbegin. cbv zeta. intros H. destruct (c_pc (cdget w d)); try reflexivity. now elim H. Qed.

Lemma cdget_inb w d : cpcof w d <> CIdle -> (d < length (cdbg w))%nat.
Proof.
  intros H. destruct (Nat.lt_ge_cases d (length (cdbg w))) as [|G]; [assumption|].
  exfalso. apply H. unfold cpcof. now rewrite cdget_oob.
Qed.

(* cdbg_step after its [cdbegin] *)
Definition cdcore (w : cdworld) (d : nat) : cdworld * cdev :=
  let b := cbase w in
  match c_pc (cdget w d) with
  | CIdle => (w, CEvNone)
  | CLoad c =>
      let v := cvw b in
      let p := if cwants_spinlock c v then CSpinLoad c true
               else if cc_print c then cwalku_pc (cc_loads c) else CIdle in
      (cdset_pc w d p, CEvLoad 1301 v)
  | CSpinLoad c first =>
      let v := cvw b in
      let site := if first then 1001 else 1003 in
      if nsync_spin_test_and_set_cas1_guard v CV_SPINLOCK
      then (cdset_pc w d (CSpinCas c v), CEvLoad site v)
      else (cdset_pc w d (CSpinLoad c false), CEvLoad site v)
  | CSpinCas c old =>
      let new := nsync_spin_test_and_set_cas1_new old CV_SPINLOCK 0 in
      if cvw b =? nsync_spin_test_and_set_cas1_old old
      then (cdset_pc (cdset_owner (cdset_base w (set_cvw b new)) d true) d
                     (cwalk_pc old (natives (recs b) (firstn (cc_recs c) (cvq b)))),
            CEvCas 1002 old new true)
      else (cdset_pc w d (CSpinLoad c false), CEvCas 1002 old new false)
  | CWalkW word p rest =>
      (cdset_pc (cdnote_read w d p) d (CWalkR word p rest), CEvReadWaiting p (waiting (recs b p)))
  | CWalkR word p rest => (cdset_pc w d (cwalk_pc word rest), CEvReadRemove p (rcount (recs b p)))
  | CRelStore word =>
      let v := emit_cv_state_store1_new word in
      (cdset_pc (cdset_owner (cdset_base w (set_cvw b v)) d false) d CIdle, CEvStore 1302 (cvw b) v)
  | CWalkU n => (cdset_pc (cdnote_unsafe w d) d (cwalku_pc (pred n)), CEvReadUnsafe)
  end.

Lemma cdbg_step_eq w d : cdbg_step w d = cdcore (cdbegin w d) d.
Proof. reflexivity. Qed.

Lemma cdbegin_facts w d :
  cpc_ok (cvw (cbase w)) (cpcof w d) -> cowner w d = cowner_pc (cpcof w d) ->
  length (cdbg (cdbegin w d)) = length (cdbg w) /\
  (forall d', d' <> d -> cdget (cdbegin w d) d' = cdget w d') /\
  cowner (cdbegin w d) d = cowner_pc (cpcof (cdbegin w d) d) /\ cpc_ok (cvw (cbase (cdbegin w d))) (cpcof (cdbegin w d) d) /\
  (cpcof w d <> CIdle -> cdbegin w d = w).
Proof.
  intros Hok Hag. unfold cdbegin. cbv zeta.
  destruct (Nat.lt_ge_cases d (length (cdbg w))) as [Hd|Hd].
  2:{ unfold cpcof, cowner in *. rewrite cdget_oob in * by exact Hd. cbn [c_pc c_ops dflt_cd].
      rewrite !cdget_oob by exact Hd. auto 10. }
  destruct (cdget w d) as [p ops o rd us] eqn:Hs.
  unfold cpcof, cowner in *. rewrite Hs in *. cbn [c_pc c_ops c_owner c_read c_unsafe] in *.
  destruct p; try (rewrite Hs; auto 10; fail).
  destruct ops as [|op rest]; [rewrite Hs; auto 10|].
  split; [unfold cdset; cbn [cdbg]; apply length_lupd|].
  split; [intros d' N; now apply cdget_cdset_other|].
  rewrite cdget_cdset_same by exact Hd. cbn [c_pc c_owner cowner_pc cpc_ok cbase cdset].
  split; [exact Hag|]. split; [exact I|]. intros X; now elim X.
Qed.

Lemma cdcore_facts w d : 0 <= cvw (cbase w) < 4 ->
  cpc_ok (cvw (cbase w)) (cpcof w d) -> cowner w d = cowner_pc (cpcof w d) -> CFacts w (fst (cdcore w d)) d.
Proof.
  intros Hrng Hok Hag. unfold CFacts, cdcore. cbv zeta.
  assert (forall p, ckind (cbase w) (cowner w d) p (cbase w) (cowner w d)) as KL by (intros; apply CK_local; reflexivity).
  destruct (Nat.lt_ge_cases d (length (cdbg w))) as [Hd|Hd].
  2:{ unfold cpcof, cowner in *. rewrite cdget_oob in * by exact Hd. cbn [c_pc c_ops dflt_cd fst].
      rewrite !cdget_oob by exact Hd. auto 10. }
  destruct (cdget w d) as [p ops o rd us] eqn:Hs. pose proof Hs as Hs'. unfold cdget in Hs'.
  unfold cpcof, cowner in *. rewrite Hs in *. cbn [c_pc c_ops c_owner c_read c_unsafe] in *.
  assert (forall s' d', d' <> d -> nth d' (lupd (cdbg w) d s') dflt_cd = nth d' (cdbg w) dflt_cd) as OT
    by (intros; apply nth_lupd_other; congruence).
  Local Ltac c5 Hs' Hd OT :=
    cbn [fst]; cdnorm Hs' Hd;
    (split; [apply length_lupd|]); (split; [intros; apply OT; assumption|]).
  destruct p.
  - (* CIdle *) cbn [fst]. rewrite Hs. auto 10.
  - (* CLoad *) c5 Hs' Hd OT.
    destruct (cwants_spinlock c (cvw (cbase w))); [|destruct (cc_print c)];
      cbn [cowner_pc cpc_ok]; rewrite ?cwalku_pc_owner; auto using cwalku_pc_ok.
  - (* CSpinLoad *) destruct (nsync_spin_test_and_set_cas1_guard (cvw (cbase w)) CV_SPINLOCK) eqn:G; c5 Hs' Hd OT.
    + cbn [cowner_pc cpc_ok]. split; [exact Hag|]. split; [now apply spin_guard_low | apply KL].
    + cbn [cowner_pc cpc_ok]. auto.
  - (* CSpinCas *) unfold nsync_spin_test_and_set_cas1_old.
    destruct (Z.eqb_spec (cvw (cbase w)) old) as [E|E]; c5 Hs' Hd OT.
    + rewrite cwalk_pc_owner. cbn [cpc_ok] in Hok. cbn [cvw set_cvw].
      split; [reflexivity|]. split; [now apply cwalk_pc_ok|].
      cbn [cowner_pc] in Hag. apply CK_acquire; [exact Hag | reflexivity | now rewrite E | now rewrite E].
    + cbn [cowner_pc cpc_ok]. auto.
  - (* CWalkW *) c5 Hs' Hd OT. cbn [cowner_pc cpc_ok] in *. auto.
  - (* CWalkR *) c5 Hs' Hd OT. rewrite cwalk_pc_owner. cbn [cpc_ok] in Hok. destruct Hok.
    split; [exact Hag|]. split; [now apply cwalk_pc_ok | apply KL].
  - (* CRelStore *) c5 Hs' Hd OT. cbn [cowner_pc cpc_ok]. split; [reflexivity|]. split; [exact I|].
    cbn [cowner_pc] in Hag. apply (CK_release _ _ _ _ _ word); [exact Hag | reflexivity | reflexivity | reflexivity].
  - (* CWalkU *) c5 Hs' Hd OT. rewrite cwalku_pc_owner. auto using cwalku_pc_ok.
Qed.

Lemma cdbg_step_facts w d : 0 <= cvw (cbase w) < 4 ->
  cpc_ok (cvw (cbase w)) (cpcof w d) -> cowner w d = cowner_pc (cpcof w d) -> CFacts w (fst (cdbg_step w d)) d.
Proof.
  intros Hrng Hok Hag. rewrite cdbg_step_eq.
  destruct (cdbegin_facts w d Hok Hag) as (L1 & O1 & A1 & P1 & NI).
  destruct (cdbegin_local w d) as [E1 E2].
  assert (0 <= cvw (cbase (cdbegin w d)) < 4) as Hrng' by (now rewrite E1).
  destruct (cdcore_facts (cdbegin w d) d Hrng' P1 A1) as (L2 & O2 & A2 & P2 & K2).
  rewrite E1, E2 in K2.
  split; [congruence|]. split; [intros d' N; rewrite O2, O1 by exact N; reflexivity|].
  split; [exact A2|]. split; [exact P2|].
  (* the pc in the kind: only the release mentions it, and then the call had begun already *)
  destruct K2 as [Ea Eb | Ea Eb Ec Ed | word Ea Eb Ec Ed].
  - apply CK_local; assumption.
  - apply CK_acquire; assumption.
  - assert (cpcof w d <> CIdle) as N.
    { intros X. unfold cdbegin, cpcof in *. cbv zeta in Ec. rewrite X in Ec.
      destruct (c_ops (cdget w d)) eqn:Eo; [rewrite X in Ec; discriminate Ec|].
      destruct (Nat.lt_ge_cases d (length (cdbg w))) as [Hd|Hd].
      - rewrite cdget_cdset_same in Ec by exact Hd. discriminate Ec.
      - rewrite cdget_oob in Eo by exact Hd. discriminate Eo. }
    rewrite (NI N) in Ec. apply (CK_release _ _ _ _ _ word); assumption.
Qed.

(* ================================================================== *)
(* Part 3: the invariant of the combined system                        *)
(* ================================================================== *)
Definition tspin (b : world) (t : nat) : bool := pc_spin (t_pc (get b t)).

Definition CDInv (w : cdworld) : Prop :=
  let b := cbase w in
  (forall t1 t2, tspin b t1 = true -> tspin b t2 = true -> t1 = t2) /\
  (forall t, tspin b t = true -> cvw b = 1 \/ cvw b = 3) /\
  (forall t old, pc_old (t_pc (get b t)) = Some old -> lowbits old) /\
  (forall d, cowner w d = cowner_pc (cpcof w d)) /\
  (forall d, cpc_ok (cvw b) (cpcof w d)) /\
  (forall d, cowner w d = true -> forall t, tspin b t = false) /\
  (forall d1 d2, cowner w d1 = true -> cowner w d2 = true -> d1 = d2) /\
  ((exists t, tspin b t = true) \/ lowbits (cvw b) \/ exists d, cowner w d = true).

Lemma low_not_13 x : lowbits x -> (x = 1 \/ x = 3) -> False.
Proof. intros [-> | ->] [H | H]; discriminate H. Qed.

Lemma CDInv_owner_word w d : CDInv w -> cowner w d = true -> cvw (cbase w) = 1 \/ cvw (cbase w) = 3.
Proof.
  intros (_ & _ & _ & Ag & Ok & _) O. specialize (Ok d). rewrite Ag in O.
  destruct (cpcof w d); try discriminate O; cbn [cpc_ok] in Ok; destruct Ok as [L ->]; now apply spin_new_1.
Qed.

Lemma CDInv_range w : CDInv w -> 0 <= cvw (cbase w) < 4.
Proof.
  intros H. pose proof H as (_ & A2 & _ & _ & _ & _ & _ & [[t Ht] | [[L | L] | [d O]]]).
  - destruct (A2 t Ht); lia.
  - lia.
  - lia.
  - destruct (CDInv_owner_word w d H O); lia.
Qed.

Lemma CDInv_AW w : CDInv w -> AW (cbase w).
Proof. intros H. pose proof (CDInv_range w H). destruct H as (A1 & A2 & A3 & _). repeat split; auto; lia. Qed.

(* a step of the base that leaves every thread's pc class and the cv word alone *)
Lemma CDInv_frame w b' :
  (forall t, pc_spin (t_pc (get b' t)) = pc_spin (t_pc (get (cbase w) t)) /\
             pc_old (t_pc (get b' t)) = pc_old (t_pc (get (cbase w) t))) ->
  cvw b' = cvw (cbase w) -> CDInv w -> CDInv (cdset_base w b').
Proof.
  intros Hf Hc (A1 & A2 & A3 & Ag & Ok & D1 & D2 & A4).
  unfold CDInv, tspin, cdset_base, cowner, cpcof, cdget in *. cbn [cbase cdbg] in *. rewrite Hc.
  split; [intros t1 t2; rewrite (proj1 (Hf t1)), (proj1 (Hf t2)); apply A1|].
  split; [intros t; rewrite (proj1 (Hf t)); apply A2|].
  split; [intros t old; rewrite (proj2 (Hf t)); apply A3|].
  split; [exact Ag|]. split; [exact Ok|].
  split; [intros d O t; rewrite (proj1 (Hf t)); now apply (D1 d)|]. split; [exact D2|].
  destruct A4 as [[t Ht] | A4]; [left; exists t; now rewrite (proj1 (Hf t)) | right; exact A4].
Qed.

Lemma CDInv_step_core w t c : CDInv w -> (t < length (thr (cbase w)))%nat ->
  CDInv (cdset_base w (fst (step_core (cbase w) t c))).
Proof.
  intros HI Hlt. pose proof (step_core_AW (cbase w) t c (CDInv_AW w HI) Hlt) as (Hold & Hch). cbv zeta in *.
  destruct HI as (A1 & A2 & A3 & Ag & Ok & D1 & D2 & A4).
  set (b := cbase w) in *. set (b' := fst (step_core b t c)) in *.
  assert (Hoth : forall t', t' <> t -> get b' t' = get b t') by (intros; apply step_core_other; congruence).
  assert (Hsp : forall t', t' <> t -> tspin b' t' = tspin b t') by (intros; unfold tspin; now rewrite Hoth).
  assert (NoOwnerIf : forall d, cowner w d = true -> lowbits (cvw b) -> False).
  { intros d O L. specialize (Ok d). rewrite Ag in O.
    destruct (cpcof w d); try discriminate O; cbn [cpc_ok] in Ok; destruct Ok as [Lw E];
      exact (low_not_13 _ L ltac:(rewrite E; now apply spin_new_1)). }
  unfold CDInv, cdset_base, cowner, cpcof, cdget in *. cbn [cbase cdbg] in *. fold b'.
  fold (tspin b t) in Hch. fold (tspin b' t) in Hch.
  destruct Hch as [(Hs & Hw) | [(Hs0 & Hs1 & Hl & Hw) | (Hs0 & Hs1 & Hl)]].
  - (* no change of ownership, word unchanged *)
    assert (Hall : forall t', tspin b' t' = tspin b t').
    { intros t'. destruct (Nat.eq_dec t' t) as [->|Hne]; [congruence | now apply Hsp]. }
    rewrite Hw.
    split; [intros t1 t2; rewrite !Hall; apply A1|]. split; [intros t'; rewrite Hall; apply A2|].
    split; [intros t' old; destruct (Nat.eq_dec t' t) as [->|Hne]; [apply Hold | rewrite Hoth by assumption; apply A3]|].
    split; [exact Ag|]. split; [exact Ok|]. split; [intros d O t'; rewrite Hall; now apply (D1 d)|].
    split; [exact D2|].
    destruct A4 as [[t' Ht'] | A4]; [left; exists t'; now rewrite Hall | right; exact A4].
  - (* a thread acquires: nobody held it *)
    assert (Hnone : forall t', tspin b t' = false).
    { intros t'. destruct (tspin b t') eqn:E; [|reflexivity]. destruct (low_not_13 _ Hl (A2 t' E)). }
    assert (NoD : forall d, nth d (cdbg w) dflt_cd = cdget w d) by reflexivity.
    assert (Hnod : forall d, c_owner (nth d (cdbg w) dflt_cd) = false).
    { intros d. destruct (c_owner (nth d (cdbg w) dflt_cd)) eqn:E; [|reflexivity]. destruct (NoOwnerIf d E Hl). }
    split.
    { intros t1 t2 H1 H2. destruct (Nat.eq_dec t1 t) as [->|Hn1], (Nat.eq_dec t2 t) as [->|Hn2]; auto;
        rewrite ?Hsp, ?Hnone in * by assumption; discriminate. }
    split; [intros _ _; exact Hw|].
    split; [intros t' old; destruct (Nat.eq_dec t' t) as [->|Hne]; [apply Hold | rewrite Hoth by assumption; apply A3]|].
    split; [exact Ag|].
    split.
    { intros d. specialize (Ok d). specialize (Hnod d). rewrite Ag in Hnod.
      destruct (c_pc (nth d (cdbg w) dflt_cd)); try discriminate Hnod; exact Ok. }
    split; [intros d O; rewrite Hnod in O; discriminate O|]. split; [exact D2|].
    left. exists t. exact Hs1.
  - (* a thread releases: no debugger owned *)
    assert (Hnod : forall d, c_owner (nth d (cdbg w) dflt_cd) = false).
    { intros d. destruct (c_owner (nth d (cdbg w) dflt_cd)) eqn:E; [|reflexivity].
      rewrite (D1 d E t) in Hs0. discriminate Hs0. }
    assert (Hnone : forall t', tspin b' t' = false).
    { intros t'. destruct (Nat.eq_dec t' t) as [->|Hne]; [exact Hs1|]. rewrite Hsp by assumption.
      destruct (tspin b t') eqn:E; [|reflexivity]. elim Hne. now apply A1. }
    split; [intros t1 t2 H1; rewrite Hnone in H1; discriminate|].
    split; [intros t' H1; rewrite Hnone in H1; discriminate|].
    split; [intros t' old; destruct (Nat.eq_dec t' t) as [->|Hne]; [apply Hold | rewrite Hoth by assumption; apply A3]|].
    split; [exact Ag|].
    split.
    { intros d. specialize (Ok d). specialize (Hnod d). rewrite Ag in Hnod.
      destruct (c_pc (nth d (cdbg w) dflt_cd)); try discriminate Hnod; exact Ok. }
    split; [intros d O; rewrite Hnod in O; discriminate O|]. split; [exact D2|].
    right. left. exact Hl.
Qed.

Lemma cdstep_base_eq w a c : fst (cdstep w (CBase a c)) = cdset_base w (fst (step (cbase w) a c)).
Proof. cbn [cdstep]. destruct (step (cbase w) a c). reflexivity. Qed.

Lemma cdset_base_same w : cdset_base w (cbase w) = w.
Proof. destruct w. reflexivity. Qed.

Lemma CDInv_base_step w a c : CDInv w -> CDInv (fst (cdstep w (CBase a c))).
Proof.
  intros HI. rewrite cdstep_base_eq. destruct a as [t| | | | | | | |].
  { cbn [step]. destruct (le_lt_dec (length (thr (cbase w))) t) as [Hoob|Hlt].
    - rewrite step_thr_oob by exact Hoob. now rewrite cdset_base_same.
    - unfold step_thr.
      assert (CDInv (cdset_base w (begin_op (cbase w) t))) as HB.
      { apply CDInv_frame; [|apply begin_op_misc|exact HI].
        intros t'. destruct (Nat.eq_dec t' t) as [->|Hne]; [|rewrite begin_op_other by congruence; auto].
        destruct (begin_op_pc (cbase w) t) as [E|(Hpc & _ & o & rest & _ & E)]; [rewrite E; auto|].
        rewrite E, Hpc. destruct o; simpl; try destruct (held (get (cbase w) t)); auto. }
      pose proof (CDInv_step_core _ t c HB) as H2. cbn [cbase cdset_base] in H2.
      apply H2. now rewrite (proj1 (proj2 (proj2 (begin_op_misc (cbase w) t)))). }
  all: match goal with |- CDInv (cdset_base _ (fst (step ?w0 ?a ?c0))) =>
         pose proof (env_frame w0 a c0 ltac:(intros; discriminate)) as (Hg & _ & _ & _ & _ & _ & Hcv & _) end.
  all: apply CDInv_frame; [intros t0; rewrite Hg; auto | exact Hcv | exact HI].
Qed.

Lemma CDInv_dbg_step w d : CDInv w -> CDInv (fst (cdbg_step w d)).
Proof.
  intros HI. pose proof (CDInv_range w HI) as Hrng.
  pose proof HI as (A1 & A2 & A3 & Ag & Ok & D1 & D2 & A4).
  destruct (cdbg_step_facts w d Hrng (Ok d) (Ag d)) as (LL & OT & Ag' & Ok' & K).
  set (w' := fst (cdbg_step w d)) in *.
  assert (forall d', d' <> d -> cowner w' d' = cowner w d') as OTo by (intros d' N; unfold cowner; now rewrite OT).
  assert (forall d', cowner w' d' = cowner_pc (cpcof w' d')) as AG.
  { intros d'. destruct (Nat.eq_dec d' d) as [->|N]; [exact Ag'|]. unfold cowner, cpcof. rewrite OT by exact N. apply Ag. }
  destruct K as [Eb Eo | Fo To Lw Eb | word To Fo Ep Eb].
  - (* local *)
    assert (forall d', cowner w' d' = cowner w d') as SAME.
    { intros d'. destruct (Nat.eq_dec d' d) as [->|N]; [exact Eo | now apply OTo]. }
    unfold CDInv. rewrite Eb. cbv zeta.
    split; [exact A1|]. split; [exact A2|]. split; [exact A3|]. split; [exact AG|].
    split.
    { intros d'. destruct (Nat.eq_dec d' d) as [->|N]; [rewrite <- Eb; exact Ok'|]. unfold cpcof. rewrite OT by exact N. apply Ok. }
    split; [intros d'; rewrite SAME; apply D1|]. split; [intros d1 d2; rewrite !SAME; apply D2|].
    destruct A4 as [L | [L | [d' R]]]; [left; exact L | right; left; exact L | right; right; exists d'; now rewrite SAME].
  - (* acquire: the word had the spinlock bit clear, so nobody owned *)
    assert (Hnone : forall t, tspin (cbase w) t = false).
    { intros t. destruct (tspin (cbase w) t) eqn:E; [|reflexivity]. destruct (low_not_13 _ Lw (A2 t E)). }
    assert (NOD : forall d', d' <> d -> cowner w d' = false).
    { intros d' N. destruct (cowner w d') eqn:E; [|reflexivity]. destruct (low_not_13 _ Lw (CDInv_owner_word w d' HI E)). }
    unfold CDInv. rewrite Eb. cbv zeta. cbn [cvw set_cvw]. unfold tspin in *.
    change (get (set_cvw (cbase w) (nsync_spin_test_and_set_cas1_new (cvw (cbase w)) CV_SPINLOCK 0))) with (get (cbase w)).
    split; [exact A1|]. split; [intros t H; rewrite Hnone in H; discriminate H|]. split; [exact A3|]. split; [exact AG|].
    split.
    { intros d'. destruct (Nat.eq_dec d' d) as [->|N].
      - rewrite Eb in Ok'. exact Ok'.
      - unfold cpcof. rewrite OT by exact N. specialize (Ok d'). specialize (NOD d' N). rewrite Ag in NOD.
        unfold cpcof in *. destruct (c_pc (cdget w d')); try discriminate NOD; exact Ok. }
    split; [intros d' _; exact Hnone|].
    split.
    { intros d1 d2 O1 O2. destruct (Nat.eq_dec d1 d) as [->|N1], (Nat.eq_dec d2 d) as [->|N2]; auto.
      - rewrite OTo, NOD in O2 by exact N2. discriminate O2.
      - rewrite OTo, NOD in O1 by exact N1. discriminate O1.
      - rewrite OTo, NOD in O1 by exact N1. discriminate O1. }
    right. right. exists d. exact To.
  - (* release by the store of the returned word: the word is still what the acquiring CAS wrote *)
    pose proof (Ok d) as Okd. rewrite Ep in Okd. cbn [cpc_ok] in Okd. destruct Okd as [Lw Ew].
    assert (NOD : forall d', cowner w' d' = false).
    { intros d'. destruct (Nat.eq_dec d' d) as [->|N]; [exact Fo|]. rewrite OTo by exact N.
      destruct (cowner w d') eqn:E; [|reflexivity]. elim N. now apply D2. }
    unfold CDInv. rewrite Eb. cbv zeta. cbn [cvw set_cvw]. unfold tspin in *.
    change (get (set_cvw (cbase w) (emit_cv_state_store1_new word))) with (get (cbase w)).
    rewrite (store_new_low _ Lw).
    split; [exact A1|]. split; [intros t H; rewrite (D1 d To t) in H; discriminate H|]. split; [exact A3|].
    split; [exact AG|].
    split.
    { intros d'. specialize (NOD d'). rewrite AG in NOD. destruct (Nat.eq_dec d' d) as [->|N].
      - destruct (cpcof w' d); try discriminate NOD; try exact I.
        rewrite Eb in Ok'. cbn [cpc_ok cvw set_cvw] in Ok'. exact Ok'.
      - unfold cpcof in *. rewrite OT in * by exact N. specialize (Ok d').
        destruct (c_pc (cdget w d')); try discriminate NOD; exact Ok. }
    split; [intros d' O; rewrite NOD in O; discriminate O|].
    split; [intros d1 d2 O; rewrite NOD in O; discriminate O|].
    right. left. exact Lw.
Qed.

Lemma CDInv_step w a : CDInv w -> CDInv (fst (cdstep w a)).
Proof. destruct a as [a c|d]; [apply CDInv_base_step | apply CDInv_dbg_step]. Qed.

Lemma CDInv_run sched : forall w, CDInv w -> CDInv (cdrun w sched).
Proof.
  unfold cdrun. induction sched as [|a rest IH]; intros w H; cbn [fold_left]; [exact H|]. apply IH, CDInv_step, H.
Qed.

Lemma CDInv_init progs clock0 exp dprogs : CDInv (cdinit progs clock0 exp dprogs).
Proof.
  assert (forall d, cowner (cdinit progs clock0 exp dprogs) d = false /\ cpcof (cdinit progs clock0 exp dprogs) d = CIdle) as Z0.
  { intros d. unfold cowner, cpcof, cdget, cdinit; cbn [cdbg].
    change dflt_cd with ((fun p => mk_cd CIdle p false [] 0) []). rewrite map_nth. split; reflexivity. }
  destruct (AInv_init progs clock0 exp) as (A1 & A2 & A3 & A4).
  unfold CDInv. cbv zeta. unfold tspin. cbn [cbase cdinit].
  split; [exact A1|]. split; [exact A2|]. split; [exact A3|].
  split; [intros d; destruct (Z0 d) as [-> ->]; reflexivity|].
  split; [intros d; destruct (Z0 d) as [_ ->]; exact I|].
  split; [intros d O; destruct (Z0 d); congruence|].
  split; [intros d1 d2 O; destruct (Z0 d1); congruence|].
  destruct A4 as [L | L]; [left; exact L | right; left; exact L].
Qed.

Lemma CDInv_reachable progs clock0 exp dprogs sched : CDInv (cdrun (cdinit progs clock0 exp dprogs) sched).
Proof. apply CDInv_run, CDInv_init. Qed.

(* ================================================================== *)
(* Part 4: the lemmas used by Props/Properties_C16c.v                  *)
(* ================================================================== *)
Definition cdreach progs clock0 exp dprogs sched : cdworld := cdrun (cdinit progs clock0 exp dprogs) sched.

Lemma lxor_spin x : lowbits x -> nsync_spin_test_and_set_cas1_new x CV_SPINLOCK 0 = Z.lxor x CV_SPINLOCK.
Proof. intros [-> | ->]; reflexivity. Qed.
Lemma lxor_unspin word : lowbits word -> word = Z.lxor (nsync_spin_test_and_set_cas1_new word CV_SPINLOCK 0) CV_SPINLOCK.
Proof. intros [-> | ->]; reflexivity. Qed.

(* (a) a debugger step changes nothing of the base world but the cv word, and of the word only CV_SPINLOCK *)
Lemma cdbg_only_spin_bit progs clock0 exp dprogs sched d :
  let w := cdreach progs clock0 exp dprogs sched in
  let w' := fst (cdstep w (CDbg d)) in
  cbase w' = cbase w \/ cbase w' = set_cvw (cbase w) (Z.lxor (cvw (cbase w)) CV_SPINLOCK).
Proof.
  intros w w'. pose proof (CDInv_reachable progs clock0 exp dprogs sched) as HI. fold (cdreach progs clock0 exp dprogs sched) in HI. fold w in HI.
  pose proof (CDInv_range w HI) as Hrng. pose proof HI as (_ & _ & _ & Ag & Ok & _).
  destruct (cdbg_step_facts w d Hrng (Ok d) (Ag d)) as (_ & _ & _ & _ & K).
  assert (w' = fst (cdbg_step w d)) as Ew' by reflexivity. clearbody w'. rewrite <- Ew' in K. clear Ew'.
  destruct K as [E _ | _ _ L E | word _ _ Ep E].
  - left. exact E.
  - right. rewrite E, (lxor_spin _ L). reflexivity.
  - right. specialize (Ok d). rewrite Ep in Ok. destruct Ok as [L Ex].
    rewrite E, (store_new_low _ L), Ex. f_equal. now apply lxor_unspin.
Qed.

(* (c) the discipline, and why the plain store is right: while a debugger owns the spinlock the word IS what its CAS wrote *)
Lemma cdbg_spin_discipline progs clock0 exp dprogs sched d :
  let w := cdreach progs clock0 exp dprogs sched in
  let w' := fst (cdstep w (CDbg d)) in
  (cowner w d = false -> cowner w' d = true ->
     has (cvw (cbase w)) CV_SPINLOCK = false /\
     cvw (cbase w') = nsync_spin_test_and_set_cas1_new (cvw (cbase w)) CV_SPINLOCK 0) /\
  (cowner w d = true -> cowner w' d = false ->
     exists word, cpcof w d = CRelStore word /\
       cvw (cbase w) = nsync_spin_test_and_set_cas1_new word CV_SPINLOCK 0 /\
       cvw (cbase w') = emit_cv_state_store1_new word /\ cvw (cbase w') = Z.lxor (cvw (cbase w)) CV_SPINLOCK) /\
  (cowner w' d = cowner w d -> cbase w' = cbase w).
Proof.
  intros w w'. pose proof (CDInv_reachable progs clock0 exp dprogs sched) as HI. fold (cdreach progs clock0 exp dprogs sched) in HI. fold w in HI.
  pose proof (CDInv_range w HI) as Hrng. pose proof HI as (_ & _ & _ & Ag & Ok & _).
  destruct (cdbg_step_facts w d Hrng (Ok d) (Ag d)) as (_ & _ & _ & _ & K).
  assert (w' = fst (cdbg_step w d)) as Ew' by reflexivity. clearbody w'. rewrite <- Ew' in K. clear Ew'.
  destruct K as [E Eo | Fo To L E | word To Fo Ep E].
  - split; [intros; congruence|]. split; [intros; congruence | auto].
  - split; [|split; intros; congruence]. intros _ _. rewrite E. split; [destruct L as [-> | ->]; reflexivity | reflexivity].
  - split; [intros; congruence|]. split; [|intros; congruence]. intros _ _. exists word.
    specialize (Ok d). rewrite Ep in Ok. destruct Ok as [L Ex]. rewrite E. cbn [cvw set_cvw].
    split; [exact Ep|]. split; [exact Ex|]. split; [reflexivity|]. rewrite (store_new_low _ L), Ex. now apply lxor_unspin.
Qed.

Definition cpc_word (p : cdpc) : option Z :=
  match p with CWalkW x _ _ | CWalkR x _ _ | CRelStore x => Some x | _ => None end.

Lemma cdbg_owner_excludes progs clock0 exp dprogs sched d :
  let w := cdreach progs clock0 exp dprogs sched in
  cowner w d = true ->
  (exists word, cpc_word (cpcof w d) = Some word /\ has word CV_SPINLOCK = false /\
                cvw (cbase w) = nsync_spin_test_and_set_cas1_new word CV_SPINLOCK 0) /\
  has (cvw (cbase w)) CV_SPINLOCK = true /\
  (forall t, pc_spin (t_pc (get (cbase w) t)) = false) /\
  (forall d', cowner w d' = true -> d' = d).
Proof.
  intros w O. pose proof (CDInv_reachable progs clock0 exp dprogs sched) as HI. fold (cdreach progs clock0 exp dprogs sched) in HI. fold w in HI.
  pose proof (CDInv_owner_word w d HI O) as W13. destruct HI as (_ & _ & _ & Ag & Ok & D1 & D2 & _).
  split.
  - specialize (Ok d). rewrite Ag in O. destruct (cpcof w d); try discriminate O; cbn [cpc_ok cpc_word] in *;
      destruct Ok as [[-> | ->] E]; eexists; (split; [reflexivity | split; [reflexivity | exact E]]).
  - split; [destruct W13 as [-> | ->]; reflexivity|]. split; [exact (D1 d O)|]. intros d' O'. now apply D2.
Qed.

(* in every reachable world of the combined system in which no debugger owns the spinlock, CvProof's AInv holds as it is *)
Lemma cd_base_AInv progs clock0 exp dprogs sched :
  let w := cdreach progs clock0 exp dprogs sched in
  (forall d, cowner w d = false) -> AInv (cbase w).
Proof.
  intros w NO. pose proof (CDInv_reachable progs clock0 exp dprogs sched) as HI. fold (cdreach progs clock0 exp dprogs sched) in HI. fold w in HI.
  destruct HI as (A1 & A2 & A3 & _ & _ & _ & _ & A4). unfold tspin in *.
  split; [exact A1|]. split; [exact A2|]. split; [exact A3|].
  destruct A4 as [L | [L | [d O]]]; [left; exact L | right; exact L | rewrite NO in O; discriminate O].
Qed.

(* (d) debuggers never block *)
Lemma cdbg_no_base_event w d e : snd (cdstep w (CDbg d)) <> CEvBase e.
Proof.
  cbn [cdstep]. rewrite cdbg_step_eq. unfold cdcore. cbv zeta. generalize (cdbegin w d). intros w1.
  destruct (c_pc (cdget w1 d));
    repeat (match goal with |- context [if ?c then _ else _] => destruct c end; cbv beta iota); cbn [snd]; discriminate.
Qed.

Definition crank (p : cdpc) : nat :=
  match p with
  | CWalkW _ _ rest => 2 * length rest + 3
  | CWalkR _ _ rest => 2 * length rest + 2
  | CRelStore _ => 1
  | _ => 0
  end.

Lemma cowner_progress w d : cowner w d = true -> cowner_pc (cpcof w d) = true ->
  let w' := fst (cdbg_step w d) in
  (cowner w' d = false /\ exists word, cpcof w d = CRelStore word) \/
  (cowner w' d = true /\ cowner_pc (cpcof w' d) = true /\ cbase w' = cbase w /\ (crank (cpcof w' d) < crank (cpcof w d))%nat).
Proof.
  intros O Hp. cbv zeta.
  assert (cpcof w d <> CIdle) as NI by (intros E; rewrite E in Hp; discriminate Hp).
  pose proof (cdget_inb w d NI) as Hd. rewrite cdbg_step_eq, (cdbegin_nonidle w d NI).
  unfold cdcore. cbv zeta. unfold cowner, cpcof in *.
  destruct (cdget w d) as [p ops o rd us] eqn:Hs. pose proof Hs as Hs'. unfold cdget in Hs'.
  cbn [c_pc c_owner] in *. subst o.
  destruct p; try discriminate Hp.
  - right. cbn [fst]. cdnorm Hs' Hd. cbn [cowner_pc crank]. repeat split; lia.
  - right. cbn [fst]. cdnorm Hs' Hd. rewrite cwalk_pc_owner.
    split; [reflexivity|]. split; [reflexivity|]. split; [reflexivity|].
    destruct rest as [|p' r]; cbn [cwalk_pc crank length]; rewrite ?cafter_walk_1; cbn [crank]; lia.
  - left. cbn [fst]. cdnorm Hs' Hd. split; [reflexivity | eexists; reflexivity].
Qed.

Lemma cdbg_alone_S w d k : cdrun w (repeat (CDbg d) (S k)) = cdrun (fst (cdbg_step w d)) (repeat (CDbg d) k).
Proof. reflexivity. Qed.

Lemma cowner_releases_alone : forall r w d, (crank (cpcof w d) <= r)%nat ->
  cowner w d = true -> cowner_pc (cpcof w d) = true ->
  exists k, (k <= r)%nat /\ cowner (cdrun w (repeat (CDbg d) k)) d = false /\
            forall j, (j < k)%nat -> cbase (cdrun w (repeat (CDbg d) j)) = cbase w.
Proof.
  induction r as [|r IH]; intros w d Hr O Hp.
  - exfalso. destruct (cpcof w d); try discriminate Hp; cbn [crank] in Hr; lia.
  - destruct (cowner_progress w d O Hp) as [[F _] | (O' & Hp' & Eb & Lt)].
    + exists 1%nat. split; [lia|]. split; [exact F|]. intros j Hj. replace j with 0%nat by lia. reflexivity.
    + destruct (IH (fst (cdbg_step w d)) d ltac:(lia) O' Hp') as (k & Hk & Fk & Bk).
      exists (S k). split; [lia|]. rewrite cdbg_alone_S. split; [exact Fk|].
      intros [|j] Hj; [reflexivity|]. rewrite cdbg_alone_S, Bk by lia. exact Eb.
Qed.

Definition cwalk_left (p : cdpc) : nat :=
  match p with CWalkW _ _ r | CWalkR _ _ r => S (length r) | _ => O end.

Lemma cdbg_owner_releases progs clock0 exp dprogs sched d :
  let w := cdreach progs clock0 exp dprogs sched in
  cowner w d = true ->
  exists k, (k <= 2 * cwalk_left (cpcof w d) + 1)%nat /\ cowner (cdrun w (repeat (CDbg d) k)) d = false /\
            forall j, (j < k)%nat -> cbase (cdrun w (repeat (CDbg d) j)) = cbase w.
Proof.
  intros w O. pose proof (CDInv_reachable progs clock0 exp dprogs sched) as HI. fold (cdreach progs clock0 exp dprogs sched) in HI. fold w in HI.
  destruct HI as (_ & _ & _ & Ag & _).
  assert (cowner_pc (cpcof w d) = true) as Hp by (now rewrite <- Ag).
  destruct (cowner_releases_alone (crank (cpcof w d)) w d (le_n _) O Hp) as (k & Hk & R).
  exists k. split; [|exact R]. destruct (cpcof w d); cbn [crank cwalk_left] in *; lia.
Qed.

Lemma cdbg_nonowner_inert progs clock0 exp dprogs sched d :
  let w := cdreach progs clock0 exp dprogs sched in
  let w' := fst (cdstep w (CDbg d)) in
  cowner w d = false -> cowner w' d = false -> cbase w' = cbase w.
Proof.
  intros w w' F F'. destruct (cdbg_spin_discipline progs clock0 exp dprogs sched d) as (_ & _ & H).
  apply H. fold w. fold w'. congruence.
Qed.

(* whenever the cv spinlock bit is set somebody owns it: a thread inside a spinlock section of cv.c or a debugger *)
Lemma cspin_has_owner progs clock0 exp dprogs sched :
  let w := cdreach progs clock0 exp dprogs sched in
  has (cvw (cbase w)) CV_SPINLOCK = true ->
  (exists t, pc_spin (t_pc (get (cbase w) t)) = true) \/ (exists d, cowner w d = true /\ cowner_pc (cpcof w d) = true).
Proof.
  intros w B. pose proof (CDInv_reachable progs clock0 exp dprogs sched) as HI. fold (cdreach progs clock0 exp dprogs sched) in HI. fold w in HI.
  destruct HI as (_ & _ & _ & Ag & _ & _ & _ & [L | [[L | L] | [d O]]]).
  - left. exact L.
  - rewrite L in B. discriminate B.
  - rewrite L in B. discriminate B.
  - right. exists d. split; [exact O | now rewrite <- Ag].
Qed.

(* ================================================================== *)
(* Part 5: examples                                                    *)
(* ================================================================== *)
Definition cT (t : nat) : cwho := CBase (Thr t) CNormal.
Definition ctl (t k : nat) : list cwho := repeat (cT t) k.
Definition cdb (d k : nat) : list cwho := repeat (CDbg d) k.
Definition cx_progs : list (list op) := [[OLock W; OWait None false false; OUnlock]; [OLock W; OSignal; OUnlock]].
Definition cx_dprogs : list (list cdop) := [[CStateWaiters 4 8]].

(* thread 0 waits on the cv (queued, asleep); the debugger takes the cv spinlock; the signaller (thread 1) spins; the
   debugger reads the queued record and releases with its plain store; the signaller takes the spinlock and dequeues *)
Lemma cex_dbg_interleaves_signal :
  let w1 := cdrun (cdinit cx_progs 0 None cx_dprogs) (ctl 0 10 ++ cdb 0 3) in
  let w2 := cdrun w1 (ctl 1 4) in
  let w3 := cdrun w2 (cdb 0 3) in
  let w4 := cdrun w3 (ctl 1 4) in
  (cowner w1 0 = true /\ cvw (cbase w1) = 3 /\ cvq (cbase w1) = [0%nat]) /\
  (cvw (cbase w2) = 3 /\ cvq (cbase w2) = [0%nat] /\ t_pc (get (cbase w2) 1) = SpLoad false KSig /\ cowner w2 0 = true) /\
  (cowner w3 0 = false /\ cvw (cbase w3) = 2 /\ c_read (cdget w3 0) = [0%nat] /\ cpcof w3 0 = CIdle /\ cvq (cbase w3) = [0%nat]) /\
  (cvw (cbase w4) = 3 /\ cvq (cbase w4) = [] /\ pc_spin (t_pc (get (cbase w4) 1)) = true).
Proof. cbv zeta. vm_compute. auto 20. Qed.
