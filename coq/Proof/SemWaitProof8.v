(* SemWaitProof8: C05sw_expired_prompt composed with the threads that are in the way: whoever holds the note's note_mu, and whoever is
   between the increment and the decrement of its `disconnecting`, can finish that alone (each is never blocked and its rank decreases);
   after that the expired wait runs alone to a non-zero result. *)
From NsyncBase Require Import CSem.
From NsyncGen Require Import Consts Sites.
From NsyncModel Require Import SemWaitModel.
From NsyncProof Require Import SemWaitProof SemWaitProof2 SemWaitProof3 SemWaitProof4 SemWaitProof5 SemWaitProof6 SemWaitProof7.
From Coq Require Import List ZArith Bool Lia Arith.
Import ListNotations.
Local Open Scope Z_scope.
#[local] Hint Constructors Forall : core.

(* the programs of the threads that do not move *)
Lemma prog_setst w t st u : prog (get (setst w t st) u) = prog (get w u).
Proof. upd; simpl; unfold fupd. destruct (Nat.eqb_spec u t); subst; reflexivity. Qed.
Lemma prog_set_sem w o v u : prog (get (set_sem w o v) u) = prog (get w u).
Proof. upd; simpl; unfold fupd. destruct (Nat.eqb_spec u o); subst; reflexivity. Qed.
Lemma prog_finish w t o r u : prog (get (finish w t o r) u) = prog (get w u).
Proof. upd; simpl; unfold fupd. destruct (Nat.eqb_spec u t); subst; reflexivity. Qed.
Lemma prog_finish_wait w t l b u : prog (get (finish_wait w t l b) u) = prog (get w u).
Proof. unfold finish_wait. rewrite prog_finish. destruct b; reflexivity. Qed.
Lemma prog_set_note w n x u : prog (get (set_note w n x) u) = prog (get w u). Proof. reflexivity. Qed.
Lemma prog_set_rec w n x u : prog (get (set_rec w n x) u) = prog (get w u). Proof. reflexivity. Qed.
Lemma prog_new_rec w x u : prog (get (new_rec w x) u) = prog (get w u). Proof. reflexivity. Qed.
Lemma prog_acquire w t n u : prog (get (acquire w t n) u) = prog (get w u). Proof. reflexivity. Qed.
Lemma prog_release w n u : prog (get (release w n) u) = prog (get w u). Proof. reflexivity. Qed.
Lemma prog_touch w n u : prog (get (touch w n) u) = prog (get w u). Proof. reflexivity. Qed.
Lemma prog_touch_all w n u : prog (get (touch_all w n) u) = prog (get w u). Proof. reflexivity. Qed.
Ltac pst := repeat rewrite ?prog_setst, ?prog_set_sem, ?prog_finish_wait, ?prog_finish, ?prog_set_note, ?prog_set_rec, ?prog_new_rec,
  ?prog_acquire, ?prog_release, ?prog_touch, ?prog_touch_all.
Lemma pr_ret_Notify w t n r u : prog (get (ret_Notify w t n r) u) = prog (get w u).
Proof. unfold ret_Notify; dmatch; pst; reflexivity. Qed.
Lemma pr_ret_D w t r v k u : prog (get (ret_D w t r v k) u) = prog (get w u).
Proof. unfold ret_D; dmatch; rewrite ?pr_ret_Notify; pst; reflexivity. Qed.
Lemma pr_ret_N w t r u : prog (get (ret_N w t r) u) = prog (get w u).
Proof. unfold ret_N; dmatch; rewrite ?pr_ret_D, ?pr_ret_Notify; pst; reflexivity. Qed.
Lemma pr_ret_C w t r u : prog (get (ret_C w t r) u) = prog (get w u).
Proof. unfold ret_C; dmatch; pst; reflexivity. Qed.
Lemma pr_c_tail w t n p r u : prog (get (c_tail w t n p r) u) = prog (get w u).
Proof. unfold c_tail. rewrite pr_ret_C. destruct p; reflexivity. Qed.
Lemma pr_c_wloop w t n p r u : prog (get (c_wloop w t n p r) u) = prog (get w u).
Proof. unfold c_wloop. dmatch; [apply pr_c_tail|]. pst; reflexivity. Qed.
Ltac progprj := let u := fresh "u" in intro u; rewrite ?pr_ret_D, ?pr_ret_N, ?pr_ret_C, ?pr_ret_Notify, ?pr_c_wloop, ?pr_c_tail; pst; try reflexivity;
  upd; simpl; unfold fupd; repeat match goal with |- context [Nat.eqb ?a ?b] => destruct (Nat.eqb_spec a b); subst; simpl end; reflexivity.
(* a step inside a call does not touch anybody's program *)
Lemma step_core_prog w t c : forall u, prog (get (fst (step_core w t c)) u) = prog (get w u).
Proof.
  unfold step_core. destruct (stack (get w t)) as [|f rest] eqn:Est; [intros u; reflexivity|].
  destruct f as [n s|n s par inc|n par s|n s|n|n|l s]; try (intros u; reflexivity).
  - destruct s; simpl; repeat (dif; simpl); try (intros u; reflexivity); progprj.
  - destruct s; simpl; repeat (dif; simpl); try (intros u; reflexivity); progprj.
  - destruct s; simpl; repeat (dif; simpl); try (intros u; reflexivity); progprj.
  - destruct s; simpl; repeat (dif; simpl); try (intros u; reflexivity); progprj.
  - destruct s; simpl; repeat (dif; simpl); try (intros u; reflexivity); try progprj.
    all: destruct (sem (get w t)); simpl; try (intros u; reflexivity); progprj.
Qed.
Lemma clock_step_core w t c : clock (fst (step_core w t c)) = clock w.
Proof.
  unfold step_core. destruct (stack (get w t)) as [|f rest] eqn:Est; [reflexivity|].
  destruct f as [n s|n s par inc|n par s|n s|n|n|l s]; try reflexivity.
  - destruct s; simpl; repeat (dif; simpl); try reflexivity; rewrite ?clock_c_wloop, ?clock_c_tail; prj; reflexivity.
  - destruct s; simpl; repeat (dif; simpl); try reflexivity; rewrite ?clock_c_wloop, ?clock_c_tail; prj; reflexivity.
  - destruct s; simpl; repeat (dif; simpl); try reflexivity; rewrite ?clock_c_wloop, ?clock_c_tail; prj; reflexivity.
  - destruct s; simpl; repeat (dif; simpl); try reflexivity; rewrite ?clock_c_wloop, ?clock_c_tail; prj; reflexivity.
  - destruct s; simpl; repeat (dif; simpl); try reflexivity; try (rewrite ?clock_c_wloop, ?clock_c_tail; prj; reflexivity).
    all: destruct (sem (get w t)); simpl; try reflexivity.
Qed.

(* ------------------------------------------------------------------------------------------------ *)
(* a thread is in the way of note n: it holds n's note_mu, or it has incremented n's disconnecting and not yet decremented it *)
Definition busyb (st : list frame) (n : nat) : bool :=
  (match held_by st with Some m => Nat.eqb m n | None => false end) || incd st n.
Lemma busyb_held st n : held_by st = Some n -> busyb st n = true.
Proof. intro H. unfold busyb. rewrite H, Nat.eqb_refl. reflexivity. Qed.
Lemma busyb_false st n : busyb st n = false -> held_by st <> Some n /\ incd st n = false.
Proof. unfold busyb. intro H. apply orb_false_elim in H as [A B]. split; [|exact B]. intro X. rewrite X, Nat.eqb_refl in A. discriminate. Qed.
Lemma held_tnote st n : held_by st = Some n -> tnote st = Some n.
Proof. destruct st as [|[m []|m [] ? ?|m ? ?|m []|m|m|l []] r]; simpl; intro H; try discriminate; exact H. Qed.
(* a thread that has incremented disconnecting and does not hold note_mu is between the unlock and the re-lock of notify (note.c:141-143) *)
Lemma inc_not_held st n : stack_ok st -> incd st n = true -> held_by st <> Some n ->
  exists s par rest, st = FN n s par true :: rest /\ (s = N7 \/ s = N8).
Proof.
  intros (Hwf & Htop & Hfr) Hi Hh. destruct st as [|f rest]; [discriminate|].
  destruct f as [m s|m s par inc|m par s|m s|m|m|l s].
  - rewrite noinc_FD in Hi by auto. discriminate.
  - apply Forall_inv2 in Hfr as [Hf _]. simpl in Hf. simpl in Hi. rewrite (noinc_below_FN m s par inc rest n Hwf) in Hi. rewrite orb_false_r in Hi.
    destruct inc; [|discriminate]. apply Nat.eqb_eq in Hi. subst m.
    destruct s; simpl in Hf, Htop, Hh; try discriminate; try (exfalso; apply Hh; reflexivity).
    + exists N7, par, rest. auto.
    + exists N8, par, rest. auto.
  - exfalso. simpl in Hi. destruct rest as [|g r]; [contradiction Hwf|]. apply wf_cons in Hwf as [Ha Hwf].
    destruct g as [|k [] par' inc| |k []| | |]; simpl in Ha; try contradiction.
    + destruct Ha as [-> ->]. simpl in Hi. rewrite (noinc_below_FN k N9 par' inc r n Hwf) in Hi. rewrite orb_false_r in Hi. destruct inc; [|discriminate].
      apply Nat.eqb_eq in Hi. subst k. apply Hh. reflexivity.
    + subst. apply wf_FP in Hwf. subst r. simpl in Hi. rewrite orb_false_r in Hi. apply Nat.eqb_eq in Hi. subst k. apply Hh. reflexivity.
  - apply wf_FP in Hwf. subst rest. simpl in Hi. rewrite orb_false_r in Hi. destruct s as [| |[]]; simpl in Htop; try discriminate.
    apply Nat.eqb_eq in Hi. subst m. exfalso. apply Hh. reflexivity.
  - rewrite noinc_FNotify in Hi by auto. discriminate.
  - apply wf_AIs in Hwf. subst rest. discriminate.
  - rewrite noinc_AWait in Hi by auto. discriminate.
Qed.
Lemma busy_tnote st n : stack_ok st -> busyb st n = true -> tnote st = Some n.
Proof.
  intros Hs Hb. destruct (held_by st) as [m|] eqn:Hh.
  - destruct (Nat.eq_dec m n) as [->|Hm]; [apply held_tnote; auto|].
    unfold busyb in Hb. rewrite Hh in Hb. rewrite (proj2 (Nat.eqb_neq m n) Hm) in Hb. simpl in Hb.
    destruct (inc_not_held st n Hs Hb) as (s & par & rest & -> & _); [rewrite Hh; congruence|reflexivity].
  - unfold busyb in Hb. rewrite Hh in Hb. simpl in Hb. destruct (inc_not_held st n Hs Hb) as (s & par & rest & -> & _); [rewrite Hh; discriminate|reflexivity].
Qed.

(* a thread in the way, run alone, gets out of the way; nobody else moves *)
Definition untouched (u : nat) (w w' : world) : Prop :=
  (forall v, v <> u -> stack (get w' v) = stack (get w v) /\ prog (get w' v) = prog (get w v)) /\ clock w' = clock w /\
  (forall m, expiry (notes w' m) = expiry (notes w m)).
Lemma helper_run u n k : forall w, reachable w -> (forall v, v <> u -> held_by (stack (get w v)) <> Some n) -> (rank w (stack (get w u)) <= k)%nat ->
  exists j, (j <= k)%nat /\ let w' := run w (repeat (AStep u true) j) in busyb (stack (get w' u)) n = false /\ untouched u w w'.
Proof.
  induction k as [|k IH]; intros w R Ho Hr.
  - destruct (busyb (stack (get w u)) n) eqn:B; [|exists 0%nat; split; [lia|split; [exact B|repeat split; auto]]]. exfalso.
    pose proof (reachable_W1 w R) as H1. pose proof (busy_tnote _ n (H1 u) B) as Tn.
    assert (Hi : W1 w /\ W2 w /\ W3 w /\ W5 w) by (split; [auto|split; [apply reachable_W2; auto|split; [apply reachable_W3; auto|apply reachable_W5; auto]]]).
    destruct (solo_step_gen True w u n Hi Tn) as [[_ (l & E0)]|(_ & A & _)]; try lia.
    + intros l s _. left. exact I.
    + intros Hh. unfold lock_free, nt. destruct (lock (notes w n)) as [v|] eqn:L; [exfalso|reflexivity]. apply (reachable_W3 w R) in L.
      destruct (Nat.eq_dec v u) as [->|Hv]; [auto|apply (Ho v Hv L)].
    + intros s par inc rest Est Hs. exfalso. pose proof (H1 u) as (Hwf & _ & Hfr). rewrite Est in *. apply Forall_inv2 in Hfr as [Hf _]. simpl in Hf.
      assert (inc = false) by (destruct Hs; subst s; exact Hf). subst inc. unfold busyb in B. simpl in B. rewrite (noinc_below_FN n s par false rest n Hwf) in B.
      destruct Hs; subst s; discriminate.
    + rewrite E0 in B. discriminate.
  - destruct (busyb (stack (get w u)) n) eqn:B; [|exists 0%nat; split; [lia|split; [exact B|repeat split; auto]]].
    pose proof (reachable_W1 w R) as H1. pose proof (busy_tnote _ n (H1 u) B) as Tn.
    assert (Hi : W1 w /\ W2 w /\ W3 w /\ W5 w) by (split; [auto|split; [apply reachable_W2; auto|split; [apply reachable_W3; auto|apply reachable_W5; auto]]]).
    assert (Hne : stack (get w u) <> []) by (intro X; rewrite X in Tn; discriminate).
    assert (Ex : exec w (AStep u true) = fst (step_core w u true)).
    { simpl. destruct (stack (get w u)) as [|f rest] eqn:Est; [congruence|]. rewrite (step_nonempty w u true f rest Est). reflexivity. }
    assert (SG : step_good True w u n (step_core w u true)).
    { apply solo_step_gen; auto.
      - intros l s _. left. exact I.
      - intros Hh. unfold lock_free, nt. destruct (lock (notes w n)) as [v|] eqn:L; [exfalso|reflexivity]. apply (reachable_W3 w R) in L.
        destruct (Nat.eq_dec v u) as [->|Hv]; [auto|apply (Ho v Hv L)].
      - intros s par inc rest Est Hs. exfalso. pose proof (H1 u) as (Hwf & _ & Hfr). rewrite Est in *. apply Forall_inv2 in Hfr as [Hf _]. simpl in Hf.
        assert (inc = false) by (destruct Hs; subst s; exact Hf). subst inc. unfold busyb in B. simpl in B. rewrite (noinc_below_FN n s par false rest n Hwf) in B.
        destruct Hs; subst s; discriminate. }
    destruct SG as [[_ (l & E0)]|(_ & A & _)]; [rewrite E0 in B; discriminate|].
    assert (R1 : reachable (fst (step_core w u true))) by (rewrite <- Ex; apply reachable_exec; auto).
    set (w1 := fst (step_core w u true)) in *.
    assert (O1 : forall v, v <> u -> stack (get w1 v) = stack (get w v)) by (intros v Hv; apply (step_core_others w u true H1 v Hv)).
    destruct (IH w1 R1) as (j & Lj & Bj & (U1 & U2 & U3)).
    + intros v Hv. rewrite O1 by auto. apply Ho; auto.
    + lia.
    + exists (S j). split; [lia|]. change (run w (repeat (AStep u true) (S j))) with (run (exec w (AStep u true)) (repeat (AStep u true) j)). rewrite Ex.
      split; [exact Bj|]. split; [|split].
      * intros v Hv. destruct (U1 v Hv) as [X Y]. rewrite X, Y, O1 by auto. split; [reflexivity|]. apply step_core_prog.
      * rewrite U2. apply clock_step_core.
      * intro m. rewrite U3. apply expiry_step_core.
Qed.

(* ------------------------------------------------------------------------------------------------ *)
Definition helper_sched (t : nat) (sched : list act) : Prop := Forall (fun a => exists u, a = AStep u true /\ u <> t) sched.
Lemma helper_repeat t u j : u <> t -> helper_sched t (repeat (AStep u true) j).
Proof. intro H. induction j; simpl; constructor; auto. exists u. auto. Qed.
Lemma run_app w s1 s2 : run w (s1 ++ s2) = run (run w s1) s2.
Proof. unfold run. apply fold_left_app. Qed.
(* thread t has not moved, the clock and the expiries are what they were *)
Definition kept (t : nat) (w w' : world) : Prop :=
  stack (get w' t) = stack (get w t) /\ prog (get w' t) = prog (get w t) /\ clock w' = clock w /\ (forall m, expiry (notes w' m) = expiry (notes w m)).
Lemma kept_refl t w : kept t w w. Proof. repeat split; auto. Qed.
Lemma kept_trans t a b c : kept t a b -> kept t b c -> kept t a c.
Proof. intros (A1 & A2 & A3 & A4) (B1 & B2 & B3 & B4). repeat split; try congruence. Qed.
Lemma untouched_kept u t w w' : u <> t -> untouched u w w' -> kept t w w'.
Proof. intros H (A & B & C). destruct (A t (not_eq_sym H)) as [X Y]. repeat split; auto. Qed.

(* phase 1: the holder of note_mu (if any) runs until it has left note_mu *)
Lemma phase_holder w t n : reachable w -> stack (get w t) = [] ->
  exists sched, helper_sched t sched /\ let w1 := run w sched in kept t w w1 /\ forall v, held_by (stack (get w1 v)) <> Some n.
Proof.
  intros R Es. destruct (lock (notes w n)) as [h|] eqn:L.
  - pose proof (reachable_W3 w R) as H3. assert (Hh : held_by (stack (get w h)) = Some n) by (apply H3; exact L).
    assert (Hht : h <> t) by (intros ->; rewrite Es in Hh; discriminate).
    assert (Ho : forall v, v <> h -> held_by (stack (get w v)) <> Some n) by (intros v Hv X; apply Hv; apply (W3_excl w n v h H3); auto).
    destruct (helper_run h n _ w R Ho (le_n _)) as (j & _ & B & U). exists (repeat (AStep h true) j). split; [apply helper_repeat; auto|]. cbv zeta in *.
    split; [eapply untouched_kept; eauto|]. intros v. destruct (Nat.eq_dec v h) as [->|Hv]; [apply (busyb_false _ _ B)|].
    destruct U as (U1 & _). destruct (U1 v Hv) as [-> _]. apply Ho; auto.
  - exists []. split; [constructor|]. cbv zeta. split; [apply kept_refl|]. intros v X. apply (reachable_W3 w R) in X. simpl in X. congruence.
Qed.
(* phase 2: nobody holds note_mu; the thread between notify's increment and decrement (if any) runs until it has decremented *)
Lemma phase_disc w t n : reachable w -> stack (get w t) = [] -> (forall v, held_by (stack (get w v)) <> Some n) ->
  exists sched, helper_sched t sched /\ let w1 := run w sched in kept t w w1 /\ lock (nt w1 n) = None /\ disc (nt w1 n) = 0%nat.
Proof.
  intros R Es Hn.
  assert (LK : forall w1, reachable w1 -> (forall v, held_by (stack (get w1 v)) <> Some n) -> lock (nt w1 n) = None).
  { intros w1 R1 H. unfold nt. destruct (lock (notes w1 n)) as [v|] eqn:L; [|reflexivity]. apply (reachable_W3 w1 R1) in L. exfalso. exact (H v L). }
  destruct (Nat.eq_dec (disc (notes w n)) 0) as [D0|D0].
  - exists []. split; [constructor|]. cbv zeta. split; [apply kept_refl|split; [apply LK; auto|exact D0]].
  - pose proof (reachable_W5 w R) as H5. destruct (d_some w H5 n D0) as [i Hi].
    assert (Hit : i <> t) by (intros ->; rewrite Es in Hi; discriminate).
    destruct (helper_run i n _ w R (fun v _ => Hn v) (le_n _)) as (j & _ & B & U). exists (repeat (AStep i true) j). split; [apply helper_repeat; auto|]. cbv zeta in *.
    set (w1 := run w (repeat (AStep i true) j)) in *. assert (R1 : reachable w1) by (apply reachable_run; auto).
    split; [eapply untouched_kept; eauto|]. destruct U as (U1 & _). split.
    + apply LK; auto. intros v. destruct (Nat.eq_dec v i) as [->|Hv]; [apply (busyb_false _ _ B)|]. destruct (U1 v Hv) as [-> _]. apply Hn.
    + unfold nt. destruct (Nat.eq_dec (disc (notes w1 n)) 0) as [E0|E0]; [exact E0|exfalso].
      destruct (d_some w1 (reachable_W5 w1 R1) n E0) as [v Hv]. destruct (Nat.eq_dec v i) as [->|Hvi].
      * destruct (busyb_false _ _ B) as [_ X]. congruence.
      * destruct (U1 v Hvi) as [X _]. rewrite X in Hv. apply Hvi. apply (d_uniq w H5 n v i Hv Hi).
Qed.

(* C05sw_expired_prompt, composed: from ANY reachable world in which thread t is about to call a wait whose deadline or whose note's expiry
   has been reached, there is a schedule of steps of OTHER threads only (the holder of the note's note_mu until it has left it, then the
   thread that is disconnecting the note until it is done; each of them runs alone and is never blocked) after which note_mu is free and
   disconnecting is 0, and from there the wait, run alone, returns a non-zero result within 15 + 2 * (records then queued) own steps *)
Lemma sw_expired_prompt_composed w t no dl rest : reachable w -> stack (get w t) = [] -> prog (get w t) = OWait no dl :: rest -> expired w no dl ->
  exists sched k, helper_sched t sched /\
    let w1 := run w sched in
    (forall n, no = Some n -> lock (nt w1 n) = None /\ disc (nt w1 n) = 0%nat) /\ (1 <= k <= 15 + 2 * nwaiters w1 no)%nat /\
    let w' := run w (sched ++ repeat (AStep t true) k) in
    stack (get w' t) = [] /\ exists r, hd_error (hist (get w' t)) = Some (OWait no dl, RInt r) /\ r <> 0.
Proof.
  intros R Es Ep Hx.
  assert (FINISH : forall sched, helper_sched t sched -> kept t w (run w sched) ->
            (forall n, no = Some n -> lock (nt (run w sched) n) = None /\ disc (nt (run w sched) n) = 0%nat) ->
            exists sched k, helper_sched t sched /\
              let w1 := run w sched in
              (forall n, no = Some n -> lock (nt w1 n) = None /\ disc (nt w1 n) = 0%nat) /\ (1 <= k <= 15 + 2 * nwaiters w1 no)%nat /\
              let w' := run w (sched ++ repeat (AStep t true) k) in
              stack (get w' t) = [] /\ exists r, hd_error (hist (get w' t)) = Some (OWait no dl, RInt r) /\ r <> 0).
  { intros sched Hs (K1 & K2 & K3 & K4) Hc. set (w1 := run w sched) in *. assert (R1 : reachable w1) by (apply reachable_run; auto).
    destruct (sw_expired_prompt w1 t no dl rest R1) as (k & Hk & A); [congruence|congruence| |exact Hc|].
    - destruct Hx as [X|(m & X & Y)]; [left; rewrite K3; exact X|right; exists m; split; [exact X|]]. unfold nt in *. rewrite K3, K4. exact Y.
    - exists sched, k. split; [exact Hs|]. cbv zeta. fold w1. split; [exact Hc|split; [exact Hk|]]. rewrite run_app. fold w1. exact A. }
  destruct no as [n|].
  - destruct (phase_holder w t n R Es) as (s1 & Hs1 & K1 & N1). cbv zeta in *. set (wa := run w s1) in *.
    assert (Ra : reachable wa) by (apply reachable_run; auto).
    destruct (phase_disc wa t n Ra) as (s2 & Hs2 & K2 & L2 & D2); [destruct K1 as (X & _); congruence|exact N1|]. cbv zeta in *.
    apply (FINISH (s1 ++ s2)).
    + apply Forall_app; auto.
    + rewrite run_app. fold wa. eapply kept_trans; eauto.
    + intros m [= <-]. rewrite run_app. fold wa. auto.
  - apply (FINISH []); [constructor|apply kept_refl|intros n X; discriminate].
Qed.
