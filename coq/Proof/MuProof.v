(* MuProof: proofs of the C01 lemmas about Model/MuModel.v.

   Part 1  per-site lemmas: every expression of Gen/Sites.v that MuModel writes to
           the mutex word is first rewritten (by [reflexivity], i.e. by conversion
           against the GENERATED definition and the GENERATED constants) into a
           readable normal form, and then characterised by its effect on the lock
           view (x mod 2, x / 256) of Proof/WordView.v.  If mu.c changes a mask,
           the [_eq] lemma (or the side condition of the characterisation) breaks.
   Part 2  list lemmas about lupd / filter (the ghost holder counts).
   Part 3  the inductive invariant and its preservation by [step].
   Part 4  the three lemmas used by Props/Properties_C01.v. *)
From NsyncBase Require Import CSem.
From NsyncGen Require Import Consts Sites.
From NsyncModel Require Import MuModel MuSpec.
From NsyncProof Require Import WordView.
From Coq Require Import List ZArith Bool Lia PeanoNat.
Import ListNotations.
Local Open Scope Z_scope.

Ltac Zify.zify_post_hook ::= Z.div_mod_to_equations.

(* ================================================================== *)
(* Part 1: the sites                                                   *)
(* ================================================================== *)

Ltac small_const := now vm_compute.

Lemma small_0 : small 0.   Proof. small_const. Qed.
Lemma small_2 : small 2.   Proof. small_const. Qed.
Lemma small_4 : small 4.   Proof. small_const. Qed.
Lemma small_8 : small 8.   Proof. small_const. Qed.
Lemma small_32 : small 32. Proof. small_const. Qed.
Lemma small_36 : small 36. Proof. small_const. Qed.
Lemma small_64 : small 64. Proof. small_const. Qed.
Lemma small_128 : small 128. Proof. small_const. Qed.

(* How one word write relates the lock view before (x, ghost h of the writing
   thread) and after (x', ghost h'). *)
Definition trans (x : Z) (h : option mode) (x' : Z) (h' : option mode) : Prop :=
  rng x' /\
  match h, h' with
  | None, None | Some W, Some W | Some R, Some R => x' mod 2 = x mod 2 /\ x' / 256 = x / 256
  | None, Some W => x mod 2 = 0 /\ x / 256 = 0 /\ x' mod 2 = 1 /\ x' / 256 = 0
  | None, Some R => x mod 2 = 0 /\ x' mod 2 = 0 /\ x' / 256 = x / 256 + 1
  | Some W, None => x' mod 2 = 0 /\ x' / 256 = x / 256
  | Some R, None => x' mod 2 = x mod 2 /\ x' / 256 = x / 256 - 1
  | _, _ => False
  end.

Lemma trans_SL x y h : SL x y -> trans x h y h.
Proof. intros (Ry & My & Dy). split; [assumption|]. destruct h as [[|]|]; auto. Qed.

Lemma trans_refl x h : rng x -> trans x h x h.
Proof. intros. now apply trans_SL, SL_refl. Qed.

(* ----- generic shapes ----- *)
Lemma acqW_gen old c : rng old -> old mod 2 = 0 -> old / 256 = 0 -> small c ->
  trans old None (wrap_u 32 (Z.land (wrap_u 32 (old + 1)) (4294967295 - c))) (Some W).
Proof.
  intros R E D Sc. destruct (add1_view old R E) as (Ry & My & Dy).
  destruct (SL_wland _ _ c (SL_refl _ Ry) Sc) as (R' & M' & D').
  unfold trans. repeat split; try assumption; try apply R'; congruence.
Qed.

Lemma acqR_gen old c : rng old -> old mod 2 = 0 -> old / 256 + 1 < 16777216 -> small c ->
  trans old None (wrap_u 32 (Z.land (wrap_u 32 (old + 256)) (4294967295 - c))) (Some R).
Proof.
  intros R E D Sc. destruct (add256_view old R D) as (Ry & My & Dy).
  destruct (SL_wland _ _ c (SL_refl _ Ry) Sc) as (R' & M' & D').
  unfold trans. repeat split; try assumption; try apply R'; congruence.
Qed.

Lemma relW_gen old c : rng old -> old mod 2 = 1 -> small c ->
  trans old (Some W) (wrap_u 32 (Z.land (wrap_u 32 (old - 1)) (4294967295 - c))) None.
Proof.
  intros R E Sc. destruct (sub1_view old R E) as (Ry & My & Dy).
  destruct (SL_wland _ _ c (SL_refl _ Ry) Sc) as (R' & M' & D').
  unfold trans. repeat split; try assumption; try apply R'; congruence.
Qed.

Lemma relR_gen old c : rng old -> 1 <= old / 256 -> small c ->
  trans old (Some R) (wrap_u 32 (Z.land (wrap_u 32 (old - 256)) (4294967295 - c))) None.
Proof.
  intros R D Sc. destruct (sub256_view old R D) as (Ry & My & Dy).
  destruct (SL_wland _ _ c (SL_refl _ Ry) Sc) as (R' & M' & D').
  unfold trans. repeat split; try assumption; try apply R'; congruence.
Qed.

Lemma relW_spin old : rng old -> old mod 2 = 1 ->
  trans old (Some W) (wrap_u 32 (Z.lor (wrap_u 32 (Z.lor (wrap_u 32 (old - 1)) 2)) 8)) None.
Proof.
  intros R E. destruct (sub1_view old R E) as (Ry & My & Dy).
  destruct (SL_wlor _ _ 8 (SL_wlor _ _ 2 (SL_refl _ Ry) small_2) small_8) as (R' & M' & D').
  unfold trans. repeat split; try assumption; try apply R'; congruence.
Qed.

Lemma relR_spin old : rng old -> 1 <= old / 256 ->
  trans old (Some R) (wrap_u 32 (Z.lor (wrap_u 32 (Z.lor (wrap_u 32 (old - 256)) 2)) 8)) None.
Proof.
  intros R D. destruct (sub256_view old R D) as (Ry & My & Dy).
  destruct (SL_wlor _ _ 8 (SL_wlor _ _ 2 (SL_refl _ Ry) small_2) small_8) as (R' & M' & D').
  unfold trans. repeat split; try assumption; try apply R'; congruence.
Qed.

Lemma zero_test_W old : rng old -> wrap_u 32 (Z.land old 4294967105) = 0 -> old mod 2 = 0 /\ old / 256 = 0.
Proof.
  intros R H. split.
  - apply (zero_test_even old 4294967105); [reflexivity | assumption].
  - apply (zero_test_noreaders old 4294967105); [assumption | reflexivity | assumption].
Qed.

Lemma zero_test_R old : wrap_u 32 (Z.land old 97) = 0 -> old mod 2 = 0.
Proof. apply zero_test_even. reflexivity. Qed.

(* ----- nsync_mu_lock / nsync_mu_rlock / trylock / rtrylock: first CAS ----- *)
Lemma fast_new_W : fast_new W = 1.   Proof. reflexivity. Qed.
Lemma fast_new_R : fast_new R = 256. Proof. reflexivity. Qed.
Lemma try_new_W : try_new W = 1.     Proof. reflexivity. Qed.
Lemma try_new_R : try_new R = 256.   Proof. reflexivity. Qed.

Lemma trans_acq0 m v : v = match m with W => 1 | R => 256 end -> trans 0 None v (Some m).
Proof. intros ->. destruct m; now vm_compute. Qed.

Lemma fast_new_trans m : trans 0 None (fast_new m) (Some m).
Proof. apply trans_acq0. destruct m; reflexivity. Qed.

Lemma try_new_trans m : trans 0 None (try_new m) (Some m).
Proof. apply trans_acq0. destruct m; reflexivity. Qed.

(* ----- second CAS of nsync_mu_lock / nsync_mu_rlock ----- *)
Lemma lock_cas2_new_eq old :
  nsync_mu_lock_cas2_new old = wrap_u 32 (Z.land (wrap_u 32 (old + 1)) (4294967295 - 32)).
Proof. reflexivity. Qed.
Lemma lock_cas2_guard_eq old :
  nsync_mu_lock_cas2_guard old = negb (negb (wrap_u 32 (Z.land old 4294967105) =? 0)).
Proof. reflexivity. Qed.
Lemma rlock_cas2_new_eq old :
  nsync_mu_rlock_cas2_new old = wrap_u 32 (Z.land (wrap_u 32 (old + 256)) (4294967295 - 0)).
Proof. reflexivity. Qed.
Lemma rlock_cas2_guard_eq old :
  nsync_mu_rlock_cas2_guard old = negb (negb (wrap_u 32 (Z.land old 97) =? 0)).
Proof. reflexivity. Qed.

Lemma fast_new2_trans m old : rng old -> old / 256 + 1 < 16777216 -> fast_guard2 m old = true ->
  trans old None (fast_new2 m old) (Some m).
Proof.
  intros R D G. destruct m; unfold fast_guard2 in G; unfold fast_new2.
  - rewrite lock_cas2_guard_eq, negb_involutive in G. apply Z.eqb_eq in G.
    destruct (zero_test_W old R G). rewrite lock_cas2_new_eq. apply acqW_gen; auto using small_32.
  - rewrite rlock_cas2_guard_eq, negb_involutive in G. apply Z.eqb_eq in G.
    rewrite rlock_cas2_new_eq. apply acqR_gen; auto using small_0, zero_test_R.
Qed.

(* ----- second CAS of nsync_mu_trylock / nsync_mu_rtrylock ----- *)
Lemma trylock_cas2_new_eq old :
  nsync_mu_trylock_cas2_new old = wrap_u 32 (Z.land (wrap_u 32 (old + 1)) (4294967295 - 32)).
Proof. reflexivity. Qed.
Lemma trylock_cas2_guard_eq old :
  nsync_mu_trylock_cas2_guard old = (wrap_u 32 (Z.land old 4294967105) =? 0).
Proof. reflexivity. Qed.
Lemma rtrylock_cas2_new_eq old :
  nsync_mu_rtrylock_cas2_new old = wrap_u 32 (Z.land (wrap_u 32 (old + 256)) (4294967295 - 0)).
Proof. reflexivity. Qed.
Lemma rtrylock_cas2_guard_eq old :
  nsync_mu_rtrylock_cas2_guard old = (wrap_u 32 (Z.land old 97) =? 0).
Proof. reflexivity. Qed.

Lemma try_new2_trans m old : rng old -> old / 256 + 1 < 16777216 -> try_guard2 m old = true ->
  trans old None (try_new2 m old) (Some m).
Proof.
  intros R D G. destruct m; unfold try_guard2 in G; unfold try_new2.
  - rewrite trylock_cas2_guard_eq in G. apply Z.eqb_eq in G.
    destruct (zero_test_W old R G). rewrite trylock_cas2_new_eq. apply acqW_gen; auto using small_32.
  - rewrite rtrylock_cas2_guard_eq in G. apply Z.eqb_eq in G.
    rewrite rtrylock_cas2_new_eq. apply acqR_gen; auto using small_0, zero_test_R.
Qed.

(* ----- nsync_mu_lock_slow_ ----- *)
Definition clr_mask : Z := bnot32 (bor MU_WRITER_WAITING MU_LONG_WAIT).
Definition zta_ok (m : mode) (z : Z) : Prop :=
  z = lt_zero_to_acquire (lt_of m) \/ z = band (lt_zero_to_acquire (lt_of m)) clr_mask.
Definition lsl_ok (m : mode) (l : lsl) : Prop :=
  zta_ok m (zta l) /\ (clr l = 0 \/ clr l = MU_DESIG_WAKER) /\ (longw l = 0 \/ longw l = MU_LONG_WAIT).

Lemma zta_ok_facts m z : zta_ok m z -> z mod 2 = 1 /\ (m = W -> z / 256 = 16777215).
Proof.
  intros [-> | ->]; destruct m; (split; [reflexivity | intros E; first [discriminate E | reflexivity]]).
Qed.

Lemma zta_ok_next m z : zta_ok m z -> zta_ok m (band z clr_mask).
Proof. intros [-> | ->]; right; [reflexivity | destruct m; reflexivity]. Qed.

Lemma lsl_ok_init m : lsl_ok m (ls_init m).
Proof. unfold lsl_ok, ls_init; cbn [zta clr longw]. split; [left; reflexivity | auto]. Qed.

Lemma small_clr l m : lsl_ok m l -> small (clr l) /\ small (longw l).
Proof. intros (_ & [-> | ->] & [-> | ->]); split; small_const. Qed.

Lemma lock_slow_cas1_new_eq old m c lw :
  nsync_mu_lock_slow_cas1_new old (lt_of m) c lw =
  wrap_u 32 (Z.land (wrap_u 32 (old + match m with W => 1 | R => 256 end))
                    (4294967295 - wrap_u 32 (Z.lor (wrap_u 32 (Z.lor c lw)) (match m with W => 32 | R => 0 end)))).
Proof. destruct m; reflexivity. Qed.

Lemma lock_slow_cas1_guard_eq old z :
  nsync_mu_lock_slow_cas1_guard old z = (wrap_u 32 (Z.land old z) =? 0).
Proof. reflexivity. Qed.

Lemma lock_slow_cas1_trans m l old : rng old -> old / 256 + 1 < 16777216 -> lsl_ok m l ->
  nsync_mu_lock_slow_cas1_guard old (zta l) = true ->
  trans old None (nsync_mu_lock_slow_cas1_new old (lt_of m) (clr l) (longw l)) (Some m).
Proof.
  intros R D Hl G. destruct (small_clr l m Hl) as [Sc Sl]. destruct Hl as (Hz & _ & _).
  rewrite lock_slow_cas1_guard_eq in G. apply Z.eqb_eq in G.
  destruct (zta_ok_facts m _ Hz) as [Zodd ZW].
  pose proof (zero_test_even old _ Zodd G) as E.
  rewrite lock_slow_cas1_new_eq. destruct m.
  - apply acqW_gen; auto.
    + apply (zero_test_noreaders old (zta l)); auto.
    + apply small_wrap, small_lor; [apply small_wrap, small_lor; assumption | apply small_32].
  - apply acqR_gen; auto.
    apply small_wrap, small_lor; [apply small_wrap, small_lor; assumption | apply small_0].
Qed.

Lemma lock_slow_cas2_new_eq old lw m c :
  nsync_mu_lock_slow_cas2_new old lw (lt_of m) c =
  wrap_u 32 (Z.land (wrap_u 32 (Z.lor (wrap_u 32 (Z.lor (wrap_u 32 (Z.lor old 2)) lw)) (match m with W => 36 | R => 4 end)))
                    (4294967295 - wrap_u 32 (Z.lor c 128))).
Proof. destruct m; reflexivity. Qed.

Lemma lock_slow_cas2_SL m l old : rng old -> lsl_ok m l ->
  SL old (nsync_mu_lock_slow_cas2_new old (longw l) (lt_of m) (clr l)).
Proof.
  intros R Hl. destruct (small_clr l m Hl) as [Sc Sl]. rewrite lock_slow_cas2_new_eq.
  apply SL_wland; [| apply small_wrap, small_lor; [assumption | apply small_128]].
  apply SL_wlor; [| destruct m; [apply small_36 | apply small_4]].
  apply SL_wlor; [| assumption].
  apply SL_wlor; [| apply small_2].
  apply SL_refl; assumption.
Qed.

(* ----- mu_release_spinlock ----- *)
Lemma release_spinlock_new_eq old :
  mu_release_spinlock_cas1_new old = wrap_u 32 (Z.land old (4294967295 - 2)).
Proof. reflexivity. Qed.

Lemma release_spinlock_SL old : rng old -> SL old (mu_release_spinlock_cas1_new old).
Proof. intros R. rewrite release_spinlock_new_eq. apply SL_wland; [now apply SL_refl | apply small_2]. Qed.

(* ----- nsync_mu_unlock / nsync_mu_runlock ----- *)
Lemma ufast_W : ufast_old W = 1 /\ ufast_new W = 0.   Proof. split; reflexivity. Qed.
Lemma ufast_R : ufast_old R = 256 /\ ufast_new R = 0. Proof. split; reflexivity. Qed.

Lemma ufast_trans m : trans (ufast_old m) (Some m) (ufast_new m) None.
Proof.
  destruct m; [destruct ufast_W as [-> ->] | destruct ufast_R as [-> ->]]; now vm_compute.
Qed.

Lemma unlock_cas2_new_eq old :
  nsync_mu_unlock_cas2_new old = wrap_u 32 (Z.land (wrap_u 32 (old - 1)) (4294967295 - 128)).
Proof. reflexivity. Qed.
Lemma runlock_cas2_new_eq old : nsync_mu_runlock_cas2_new old = wrap_u 32 (old - 256).
Proof. reflexivity. Qed.

Lemma unlock_new2_trans m old : rng old ->
  match m with W => old mod 2 = 1 | R => 1 <= old / 256 end ->
  trans old (Some m) (unlock_new2 m old) None.
Proof.
  intros R H. destruct m; unfold unlock_new2.
  - rewrite unlock_cas2_new_eq. apply relW_gen; auto using small_128.
  - rewrite runlock_cas2_new_eq. destruct (sub256_view old R H) as (Ry & My & Dy).
    unfold trans. auto.
Qed.

(* ----- nsync_mu_unlock_slow_ ----- *)
Lemma unlock_slow_cas1_new_eq old m :
  nsync_mu_unlock_slow_cas1_new old (lt_of m) =
  wrap_u 32 (Z.land (wrap_u 32 (old - match m with W => 1 | R => 256 end))
                    (4294967295 - match m with W => 128 | R => 0 end)).
Proof. destruct m; reflexivity. Qed.

Lemma unlock_slow_cas1_trans m old : rng old ->
  match m with W => old mod 2 = 1 | R => 1 <= old / 256 end ->
  trans old (Some m) (nsync_mu_unlock_slow_cas1_new old (lt_of m)) None.
Proof.
  intros R H. rewrite unlock_slow_cas1_new_eq. destruct m.
  - apply relW_gen; auto using small_128.
  - apply relR_gen; auto using small_0.
Qed.

Lemma unlock_slow_cas2_new_eq old m :
  nsync_mu_unlock_slow_cas2_new old (lt_add_to_acquire (lt_of m)) =
  wrap_u 32 (Z.lor (wrap_u 32 (Z.lor (wrap_u 32 (old - match m with W => 1 | R => 256 end)) 2)) 8).
Proof. destruct m; reflexivity. Qed.

Lemma unlock_slow_cas2_trans m old : rng old ->
  match m with W => old mod 2 = 1 | R => 1 <= old / 256 end ->
  trans old (Some m) (nsync_mu_unlock_slow_cas2_new old (lt_add_to_acquire (lt_of m))) None.
Proof.
  intros R H. rewrite unlock_slow_cas2_new_eq. destruct m.
  - apply relW_spin; auto.
  - apply relR_spin; auto.
Qed.

Definition usl_ok (u : usl) : Prop := late u = 0 /\ small (set_on u) /\ small (clear_on u).

Lemma unlock_slow_cas3_new_eq old lt s c :
  nsync_mu_unlock_slow_cas3_new old lt s c =
  wrap_u 32 (Z.land (wrap_u 32 (Z.lor (wrap_u 32 (old - lt)) s)) (4294967295 - c)).
Proof. reflexivity. Qed.

Lemma unlock_slow_cas3_SL u old : rng old -> usl_ok u ->
  SL old (nsync_mu_unlock_slow_cas3_new old (late u) (set_on u) (clear_on u)).
Proof.
  intros R (L & Ss & Sc). rewrite unlock_slow_cas3_new_eq, L, Z.sub_0_r.
  apply SL_wland; [| assumption]. apply SL_wlor; [| assumption]. apply SL_wrap, SL_refl; assumption.
Qed.

(* the scan of the waiter queue only produces flag masks *)
Lemma scan_small ty q : forall wt wk keep s, small s -> small (snd (scan ty q wt wk keep s)).
Proof.
  induction q as [|p rest IH]; intros wt wk keep s Hs; cbn [scan].
  - exact Hs.
  - assert (small (band s (bnot32 MU_ALL_FALSE))) as H1 by (apply small_land_l; assumption).
    assert (small (band (bor s MU_WRITER_WAITING) (bnot32 MU_ALL_FALSE))) as H2
      by (apply small_land_l, small_lor; [assumption | apply small_32]).
    destruct wt as [[|]|].
    + exact H1.
    + destruct (mode_eqb (ty p) R); apply IH; assumption.
    + apply IH; assumption.
Qed.

Lemma us_after_scan_ok w u keep : us_after_scan w = (u, keep) -> usl_ok u.
Proof.
  unfold us_after_scan.
  pose proof (scan_small (wtype w) (queue w) None [] [] MU_ALL_FALSE small_128) as Hs.
  destruct (scan (wtype w) (queue w) None [] [] MU_ALL_FALSE) as [[wk kp] so]. cbn [snd] in Hs.
  cbv beta iota zeta. intros E. injection E as <- _.
  unfold usl_ok; cbn [late set_on clear_on]. split; [reflexivity | split; [assumption|]].
  assert (small MU_SPINLOCK) as S2 by apply small_2.
  assert (small MU_DESIG_WAKER) as S8 by apply small_8.
  assert (small MU_ALL_FALSE) as S128 by apply small_128.
  assert (small (bor (bor (bor MU_WAITING MU_WRITER_WAITING) MU_CONDITION) MU_ALL_FALSE)) as SX by small_const.
  unfold bor in *.
  destruct kp, wk, (band so MU_ALL_FALSE =? 0); repeat apply small_lor; assumption.
Qed.

(* ================================================================== *)
(* Part 2: lists                                                       *)
(* ================================================================== *)
Local Open Scope nat_scope.

Lemma length_lupd {A} (l : list A) k v : length (lupd l k v) = length l.
Proof. revert k; induction l; intros [|k]; simpl; auto. Qed.

Lemma nth_lupd_same {A} (l : list A) k v d : k < length l -> nth k (lupd l k v) d = v.
Proof. revert k; induction l; intros [|k] H; simpl in *; try lia; auto. apply IHl; lia. Qed.

Lemma nth_lupd_other {A} (l : list A) k k' v d : k' <> k -> nth k' (lupd l k v) d = nth k' l d.
Proof. revert k k'; induction l; intros [|k] [|k'] H; simpl; auto; try lia. Qed.

Lemma lupd_lupd {A} (l : list A) k a b : lupd (lupd l k a) k b = lupd l k b.
Proof. revert k; induction l; intros [|k]; simpl; auto. now rewrite IHl. Qed.

Lemma filter_lupd {A} (p : A -> bool) (l : list A) k v d : k < length l ->
  length (filter p (lupd l k v)) + Nat.b2n (p (nth k l d)) = length (filter p l) + Nat.b2n (p v).
Proof.
  revert k; induction l as [|a l IH]; intros [|k] H; simpl in *; try lia.
  - destruct (p a), (p v); simpl; lia.
  - specialize (IH k ltac:(lia)). destruct (p a); simpl; lia.
Qed.

Lemma filter_le {A} (p : A -> bool) (l : list A) : length (filter p l) <= length l.
Proof. induction l; simpl; [lia|]. destruct (p a); simpl; lia. Qed.

Local Open Scope Z_scope.

(* the ghost counts *)
Definition pm (m : mode) (s : tstate) : bool :=
  match held s, m with Some W, W | Some R, R => true | _, _ => false end.
Definition cnt (m : mode) (l : list tstate) : Z := Z.of_nat (length (filter (pm m) l)).

Lemma count_held_cnt w m : count_held w m = cnt m (thr w).
Proof. reflexivity. Qed.

Lemma cnt_lupd m l t s' : (t < length l)%nat ->
  cnt m (lupd l t s') = cnt m l - b2z (pm m (nth t l dflt_t)) + b2z (pm m s').
Proof.
  intros H. unfold cnt. pose proof (filter_lupd (pm m) l t s' dflt_t H) as E.
  destruct (pm m (nth t l dflt_t)), (pm m s'); cbn [Nat.b2n b2z] in *; lia.
Qed.

Lemma cnt_range m l : 0 <= cnt m l <= Z.of_nat (length l).
Proof. unfold cnt. pose proof (filter_le (pm m) l). lia. Qed.

Lemma cnt_pos m l t : (t < length l)%nat -> pm m (nth t l dflt_t) = true -> 1 <= cnt m l.
Proof.
  intros H P. pose proof (cnt_lupd m l t dflt_t H) as E. rewrite P in E.
  change (pm m dflt_t) with false in E. cbn [b2z] in E.
  pose proof (cnt_range m (lupd l t dflt_t)). lia.
Qed.

Lemma cnt_two m l t1 t2 : (t1 < length l)%nat -> (t2 < length l)%nat -> t1 <> t2 ->
  pm m (nth t1 l dflt_t) = true -> pm m (nth t2 l dflt_t) = true -> 2 <= cnt m l.
Proof.
  intros H1 H2 N P1 P2. pose proof (cnt_lupd m l t1 dflt_t H1) as E. rewrite P1 in E.
  change (pm m dflt_t) with false in E. cbn [b2z] in E.
  assert (1 <= cnt m (lupd l t1 dflt_t)).
  { apply (cnt_pos m _ t2); [now rewrite length_lupd | now rewrite nth_lupd_other by auto]. }
  lia.
Qed.

(* ================================================================== *)
(* Part 3: the invariant                                               *)
(* ================================================================== *)

Definition pc_ok (s : tstate) : Prop :=
  match t_pc s with
  | Idle | Crash _ => True
  | LkFast _ | LkLoad _ | TryFast _ | TryLoad _ => held s = None
  | LkCas2 m old => held s = None /\ fast_guard2 m old = true
  | TryCas2 m old => held s = None /\ try_guard2 m old = true
  | LsLoad m l | LsCasEnq m l _ | LsStoreWaiting m l | LsRelLoad m l | LsRelCas m l _
  | LsWaitLoad m l | LsSemP m l => held s = None /\ lsl_ok m l
  | LsCasAcq m l old => held s = None /\ lsl_ok m l /\ nsync_mu_lock_slow_cas1_guard old (zta l) = true
  | UlFast m | UlLoad m | UlCas2 m _ | UsLoad m | UsCasRel m _ | UsCasSpin m _ => held s = Some m
  | UsRelLoad _ u | UsRelCas _ u _ | UsWakeStore _ u | UsWakeV _ _ u => held s = None /\ usl_ok u
  end.

Definition agrees (x : Z) (l : list tstate) : Prop :=
  rng x /\ x mod 2 = cnt W l /\ x / 256 = cnt R l /\ (x mod 2 = 1 -> x / 256 = 0).

Lemma agrees_word_agrees w : agrees (word w) (thr w) -> word_agrees w.
Proof.
  intros (Rx & HW & HR & HX). unfold word_agrees. rewrite !count_held_cnt, bit0_mod2.
  unfold rng in Rx. change (2 ^ 32) with 4294967296.
  repeat split; try lia.
  destruct (Z.eqb_spec (word w mod 2) 1); lia.
Qed.

Section Invariant.
Variable n : nat.
Hypothesis Hn : Z.of_nat n < 16777215.

Definition InvL (x : Z) (l : list tstate) : Prop :=
  length l = n /\ agrees x l /\ forall t, pc_ok (nth t l dflt_t).
Definition Inv (w : world) : Prop := InvL (word w) (thr w).

Lemma InvL_upd x l t s' x' : InvL x l -> (t < n)%nat -> pc_ok s' ->
  trans x (held (nth t l dflt_t)) x' (held s') -> InvL x' (lupd l t s').
Proof.
  intros (Hlen & (Rx & HW & HR & HX) & Hpc) Ht Hs' [Rx' Htr].
  split; [now rewrite length_lupd|]. split.
  - unfold agrees. rewrite !cnt_lupd by lia.
    pose proof (cnt_range W l) as CW. pose proof (cnt_range R l) as CR.
    pose proof (cnt_pos W l t ltac:(lia)) as PW. pose proof (cnt_pos R l t ltac:(lia)) as PR.
    unfold pm in *. unfold rng in *.
    destruct (held (nth t l dflt_t)) as [[|]|], (held s') as [[|]|];
      cbv beta iota delta [b2z] in *; try contradiction;
      try specialize (PW eq_refl); try specialize (PR eq_refl); clear Hpc Hs'; lia.
  - intros t'. destruct (Nat.eq_dec t' t) as [->|N].
    + rewrite nth_lupd_same by lia. assumption.
    + rewrite nth_lupd_other by assumption. apply Hpc.
Qed.

Lemma get_oob w t : (length (thr w) <= t)%nat -> get w t = dflt_t.
Proof. intros. unfold get. now apply nth_overflow. Qed.

Lemma Inv_rng w : Inv w -> rng (word w).
Proof. intros (_ & (R & _) & _). exact R. Qed.

Lemma Inv_readers w : Inv w -> word w / 256 + 1 < 16777216.
Proof. intros (L & (_ & _ & HR & _) & _). pose proof (cnt_range R (thr w)). lia. Qed.

Lemma Inv_held w t m : Inv w -> held (get w t) = Some m ->
  match m with W => word w mod 2 = 1 | R => 1 <= word w / 256 end.
Proof.
  intros (L & (Rx & HW & HR & HX) & _) H. unfold get in H.
  assert (t < length (thr w))%nat as Ht.
  { destruct (Nat.lt_ge_cases t (length (thr w))) as [|G]; [assumption|].
    rewrite nth_overflow in H by assumption. discriminate H. }
  pose proof (cnt_range W (thr w)).
  destruct m.
  - pose proof (cnt_pos W (thr w) t Ht) as P. unfold pm in P. rewrite H in P. specialize (P eq_refl). lia.
  - pose proof (cnt_pos R (thr w) t Ht) as P. unfold pm in P. rewrite H in P. specialize (P eq_refl). lia.
Qed.

(* normalise a world built by the model's update functions *)
Ltac norm Hs Hlen Ht :=
  unfold set_try, acquire, released, set_pc, set_t, set_word, set_queue, set_waiting, set_sem, set_wtype, get;
  unfold Inv; cbn [word thr queue waiting sem wtype];
  repeat first [ rewrite Hs | rewrite nth_lupd_same by (rewrite Hlen; exact Ht) | rewrite lupd_lupd ];
  cbn [t_pc t_ops held sleeps last_try].

Ltac upd H0 Hs Hlen Ht :=
  norm Hs Hlen Ht;
  eapply InvL_upd;
  [ exact H0 | exact Ht | unfold pc_ok; cbn [t_pc held] | rewrite Hs; cbn [held] ].

Lemma begin_op_inv w t : Inv w -> Inv (begin_op w t).
Proof.
  intros H0. unfold begin_op. cbv zeta.
  destruct (Nat.lt_ge_cases t n) as [Ht|Ht].
  2:{ rewrite get_oob by (destruct H0 as (-> & _); exact Ht). exact H0. }
  pose proof H0 as (Hlen & _ & Hok). specialize (Hok t).
  destruct (get w t) as [p ops h sl lt] eqn:Hs. unfold get in Hs. rewrite Hs in Hok.
  cbn [t_pc t_ops held sleeps last_try].
  destruct p; try exact H0. destruct ops as [|o rest]; try exact H0.
  upd H0 Hs Hlen Ht.
  - destruct o as [m|m|], h as [m'|]; cbn [t_pc held]; auto.
  - apply trans_refl, (Inv_rng _ H0).
Qed.

Lemma step_inv w0 t : Inv w0 -> Inv (fst (step w0 t)).
Proof.
  intros H0. apply (begin_op_inv _ t) in H0.
  unfold step. set (w := begin_op w0 t) in *. clearbody w. clear w0. cbv zeta.
  destruct (Nat.lt_ge_cases t n) as [Ht|Ht].
  2:{ rewrite get_oob by (destruct H0 as (-> & _); exact Ht). exact H0. }
  pose proof H0 as (Hlen & _ & Hok). specialize (Hok t).
  pose proof (Inv_rng _ H0) as Rw. pose proof (Inv_readers _ H0) as Dw.
  pose proof (Inv_held w t) as Hheld. specialize (fun m => Hheld m H0).
  destruct (get w t) as [p ops h sl lt] eqn:Hs. unfold get in Hs. rewrite Hs in Hok.
  unfold pc_ok in Hok. cbn [t_pc t_ops held sleeps last_try] in *.
  Local Ltac cas_split w :=
    unfold cas;
    match goal with |- context [word w =? ?e] => destruct (Z.eqb_spec (word w) e) as [Hcas|Hcas] end;
    cbv beta iota; cbn [fst].
  Local Ltac same Rw := first [ apply trans_refl; exact Rw | idtac ].
  destruct p.
  - (* Idle *) exact H0.
  - (* LkFast *) subst h. cas_split w.
    + upd H0 Hs Hlen Ht; [exact I | rewrite Hcas; apply fast_new_trans].
    + upd H0 Hs Hlen Ht; [reflexivity | same Rw].
  - (* LkLoad *) subst h. destruct (fast_guard2 m (word w)) eqn:G; cbn [fst].
    + upd H0 Hs Hlen Ht; [auto | same Rw].
    + upd H0 Hs Hlen Ht; [auto using lsl_ok_init | same Rw].
  - (* LkCas2 *) destruct Hok as [-> G]. cas_split w.
    + upd H0 Hs Hlen Ht; [exact I | subst old; apply fast_new2_trans; assumption].
    + upd H0 Hs Hlen Ht; [auto using lsl_ok_init | same Rw].
  - (* TryFast *) subst h. cas_split w.
    + upd H0 Hs Hlen Ht; [exact I | rewrite Hcas; apply try_new_trans].
    + upd H0 Hs Hlen Ht; [reflexivity | same Rw].
  - (* TryLoad *) subst h. destruct (try_guard2 m (word w)) eqn:G; cbn [fst].
    + upd H0 Hs Hlen Ht; [auto | same Rw].
    + upd H0 Hs Hlen Ht; [exact I | same Rw].
  - (* TryCas2 *) destruct Hok as [-> G]. cas_split w.
    + upd H0 Hs Hlen Ht; [exact I | subst old; apply try_new2_trans; assumption].
    + upd H0 Hs Hlen Ht; [exact I | same Rw].
  - (* LsLoad *) destruct Hok as [-> Hl].
    destruct (nsync_mu_lock_slow_cas1_guard (word w) (zta l)) eqn:G1; cbn [fst].
    + upd H0 Hs Hlen Ht; [auto | same Rw].
    + destruct (nsync_mu_lock_slow_cas2_guard (word w) (zta l)) eqn:G2; cbn [fst].
      * upd H0 Hs Hlen Ht; [auto | same Rw].
      * exact H0.
  - (* LsCasAcq *) destruct Hok as (-> & Hl & G). cas_split w.
    + upd H0 Hs Hlen Ht; [exact I | subst old; apply lock_slow_cas1_trans; assumption].
    + upd H0 Hs Hlen Ht; [auto | same Rw].
  - (* LsCasEnq *) destruct Hok as (-> & Hl). cas_split w.
    + upd H0 Hs Hlen Ht; [auto | subst old; apply trans_SL, lock_slow_cas2_SL; assumption].
    + upd H0 Hs Hlen Ht; [auto | same Rw].
  - (* LsStoreWaiting *) destruct Hok as (-> & Hl). cbn [fst].
    upd H0 Hs Hlen Ht; [auto | same Rw].
  - (* LsRelLoad *) destruct Hok as (-> & Hl). cbn [fst].
    upd H0 Hs Hlen Ht; [auto | same Rw].
  - (* LsRelCas *) destruct Hok as (-> & Hl). cas_split w.
    + upd H0 Hs Hlen Ht; [auto | subst old; apply trans_SL, release_spinlock_SL; assumption].
    + upd H0 Hs Hlen Ht; [auto | same Rw].
  - (* LsWaitLoad *) destruct Hok as (-> & Hl). destruct (waiting w t); cbn [fst].
    + upd H0 Hs Hlen Ht; [auto | same Rw].
    + upd H0 Hs Hlen Ht; [| same Rw].
      split; [reflexivity|]. destruct Hl as (Hz & Hc & Hw).
      unfold lsl_ok; cbn [zta clr longw]. split; [apply zta_ok_next; assumption|].
      split; [right; reflexivity|].
      destruct (wrap_u 32 (wcount l + 1) =? LONG_WAIT_THRESHOLD); auto.
  - (* LsSemP *) destruct Hok as (-> & Hl). destruct (0 <? sem w t); cbn [fst].
    + upd H0 Hs Hlen Ht; [auto | same Rw].
    + exact H0.
  - (* UlFast *) subst h. specialize (Hheld m eq_refl). cas_split w.
    + upd H0 Hs Hlen Ht; [exact I | rewrite Hcas; apply ufast_trans].
    + upd H0 Hs Hlen Ht; [reflexivity | same Rw].
  - (* UlLoad *) subst h.
    destruct (unlock_try_cas2 m (word w)); [| destruct (unlock_bad m (word w))]; cbn [fst];
      (upd H0 Hs Hlen Ht; [first [reflexivity | exact I] | same Rw]).
  - (* UlCas2 *) subst h. specialize (Hheld m eq_refl). cas_split w.
    + upd H0 Hs Hlen Ht; [exact I | subst old; apply unlock_new2_trans; assumption].
    + upd H0 Hs Hlen Ht; [reflexivity | same Rw].
  - (* UsLoad *) subst h.
    destruct (has (word w) MU_CONDITION);
      [| destruct (nsync_mu_unlock_slow_cas1_guard (word w));
         [| destruct (nsync_mu_unlock_slow_cas2_guard (word w))]]; cbn [fst];
      try exact H0;
      (upd H0 Hs Hlen Ht; [first [reflexivity | exact I] | same Rw]).
  - (* UsCasRel *) subst h. specialize (Hheld m eq_refl). cas_split w.
    + upd H0 Hs Hlen Ht; [exact I | subst old; apply unlock_slow_cas1_trans; assumption].
    + upd H0 Hs Hlen Ht; [reflexivity | same Rw].
  - (* UsCasSpin *) subst h. specialize (Hheld m eq_refl). cas_split w.
    + destruct (us_after_scan _) as [u keep] eqn:E. apply us_after_scan_ok in E. cbn [fst].
      upd H0 Hs Hlen Ht; [auto | subst old; apply unlock_slow_cas2_trans; assumption].
    + upd H0 Hs Hlen Ht; [reflexivity | same Rw].
  - (* UsRelLoad *) destruct Hok as (-> & Hu). cbn [fst].
    upd H0 Hs Hlen Ht; [auto | same Rw].
  - (* UsRelCas *) destruct Hok as (-> & Hu). cas_split w.
    + upd H0 Hs Hlen Ht; [destruct (wake u); cbn [t_pc held]; auto
                         | subst old; apply trans_SL, unlock_slow_cas3_SL; assumption].
    + upd H0 Hs Hlen Ht; [auto | same Rw].
  - (* UsWakeStore *) destruct Hok as (-> & Hu). destruct (wake u) as [|p rest]; cbn [fst].
    + upd H0 Hs Hlen Ht; [exact I | same Rw].
    + upd H0 Hs Hlen Ht; [split; [reflexivity | exact Hu] | same Rw].
  - (* UsWakeV *) destruct Hok as (-> & Hu). cbn [fst].
    upd H0 Hs Hlen Ht; [destruct (wake u); cbn [t_pc held]; auto | same Rw].
  - (* Crash *) exact H0.
Qed.

Lemma run_inv sched : forall w, Inv w -> Inv (run w sched).
Proof.
  unfold run. induction sched as [|t rest IH]; intros w H; cbn [fold_left]; [exact H|].
  apply IH, step_inv, H.
Qed.

End Invariant.

(* ================================================================== *)
(* Part 4: the C01 lemmas                                              *)
(* ================================================================== *)

Lemma cnt_init m progs : cnt m (map (fun p => mk_t Idle p None 0 None) progs) = 0.
Proof. unfold cnt. induction progs as [|p l IH]; [reflexivity|]. cbn [map filter pm held]. destruct m; exact IH. Qed.

Lemma init_inv progs : Inv (length progs) (init progs).
Proof.
  unfold Inv, InvL, init; cbn [word thr]. split; [apply map_length|]. split.
  - unfold agrees. rewrite !cnt_init. now vm_compute.
  - intros t. change dflt_t with ((fun p => mk_t Idle p None 0 None) []). rewrite map_nth. exact I.
Qed.

Lemma reachable_inv progs sched :
  Z.of_nat (length progs) < 2 ^ 24 - 1 -> Inv (length progs) (run (init progs) sched).
Proof. intros H. apply run_inv; [exact H | apply init_inv]. Qed.

Lemma word_agrees_reachable : forall progs sched,
  Z.of_nat (length progs) < 2 ^ 24 - 1 -> word_agrees (run (init progs) sched).
Proof. intros progs sched H. apply agrees_word_agrees. apply (reachable_inv progs sched H). Qed.

Lemma excl_of_inv n w : Inv n w -> excl w.
Proof.
  intros (L & (Rx & HW & HR & HX) & _) t1 t2 H1 H2 P1 P2. unfold nthreads, holds, get in *.
  destruct (Nat.eq_dec t1 t2) as [|N]; [assumption | exfalso].
  pose proof (cnt_range W (thr w)). pose proof (cnt_range R (thr w)).
  assert (pm W (nth t1 (thr w) dflt_t) = true) as Q1 by (unfold pm; now rewrite P1).
  destruct P2 as [P2 | P2].
  - assert (pm W (nth t2 (thr w) dflt_t) = true) as Q2 by (unfold pm; now rewrite P2).
    pose proof (cnt_two W (thr w) t1 t2 H1 H2 N Q1 Q2). lia.
  - assert (pm R (nth t2 (thr w) dflt_t) = true) as Q2 by (unfold pm; now rewrite P2).
    pose proof (cnt_pos W (thr w) t1 H1 Q1). pose proof (cnt_pos R (thr w) t2 H2 Q2). lia.
Qed.

Lemma excl_reachable : forall progs sched,
  Z.of_nat (length progs) < 2 ^ 24 - 1 -> excl (run (init progs) sched).
Proof. intros progs sched H. apply (excl_of_inv (length progs)). apply (reachable_inv progs sched H). Qed.

(* two readers inside, a writer queued behind them *)
Definition ex_progs : list (list op) := [[OLock R; OUnlock]; [OLock R; OUnlock]; [OLock W; OUnlock]].
Definition ex_sched : list nat := [0; 1; 1; 1; 2; 2; 2; 2; 2; 2; 2]%nat.

Lemma example_two_readers : exists progs sched,
  let w := run (init progs) sched in
  holds w 0%nat R /\ holds w 1%nat R /\ queue w = [2%nat] /\ excl w.
Proof.
  exists ex_progs, ex_sched. cbv zeta.
  split; [vm_compute; reflexivity|]. split; [vm_compute; reflexivity|]. split; [vm_compute; reflexivity|].
  apply excl_reachable. vm_compute. reflexivity.
Qed.
