(* MuXferProof5: MuProof3's hand-off invariant HInv generalised to worlds in which the mutex is shared with code outside
   mu.c -- here the part of cv.c modelled by Model/MuXferModel.v.  HX is HInv over a MuModel.world with four families of
   flags describing the extra participants:
     xa a   a is a TRANSFERRED cv waiter parked in nsync_cv_wait: once its waiting flag is cleared it is an agent
            (it will enter nsync_mu_lock_slow_ with clear = MU_DESIG_WAKER), exactly like a thread in LsWaitLoad / LsSemP
     xs x   x sits in the semaphore wait of nsync_cv_wait (same semaphore accounting as LsSemP)
     xv t   t is a waker of wake_waiters between its store waiting = 0 and its V on that waiter
     xo o   o owns the mutex spinlock inside wake_waiters
   Part A  definitions, the abstract preservation lemmas (MuProof3 Part C re-run with the generalised agents)
   Part B  preservation by MuModel.step (MuProof3 Part D re-run); the facts MuProof3 takes from MuProof2.QInv are
           hypotheses here (the wrapper establishes them in MuXferProof3 / MuXferProof4)
   Part C  the frame lemma for steps outside mu.c. *)
From NsyncBase Require Import CSem.
From NsyncGen Require Import Consts Sites.
From NsyncModel Require Import MuModel MuSpec.
From NsyncProof Require Import WordView MuProof MuProof2 MuProof3.
From NsyncModel Require Import MuXferModel.
From NsyncProof Require Import MuXferProof MuXferProof2 MuXferProof3 MuXferProof4.
From Coq Require Import List ZArith Bool Lia PeanoNat Permutation.
Import ListNotations.
Local Open Scope Z_scope.

Ltac Zify.zify_post_hook ::= Z.div_mod_to_equations.

(* ================================================================== *)
(* Part A: the generalised hand-off invariant                          *)
(* ================================================================== *)
Definition sp (p : pc) : bool := match p with LsSemP _ _ => true | _ => false end.
(* a releaser with an empty wake list (possible only when MU_WAITING was set over an empty queue) clears MU_WAITING and
   MU_DESIG_WAKER *)
Definition pcX (p : pc) : Prop :=
  match p with
  | UsRelLoad _ u | UsRelCas _ u _ => wake u = [] -> Z.testbit (clear_on u) 3 = true /\ Z.testbit (clear_on u) 2 = true
  | _ => True
  end.

Section Flags.
Variables (xa xs : nat -> bool) (xv : nat -> option nat) (xo : nat -> bool).

Definition agentx (w : world) (a : nat) : Prop :=
  agent_pc (P w a) (waiting w a) = true \/ (xa a = true /\ waiting w a = false).

Definition HX (w : world) : Prop :=
  Z.testbit (word w) 7 = false /\
  (Z.testbit (word w) 5 = true -> Z.testbit (word w) 2 = true) /\
  (Z.testbit (word w) 6 = true -> exists T, lw_pc (P w T) = true) /\
  (Z.testbit (word w) 3 = true -> exists a, agentx w a) /\
  (Z.testbit (word w) 2 = true -> free (word w) -> exists a, agentx w a) /\
  (forall x, isq (kof w x) = true -> waiting w x = true ->
             In x (queue w) \/ exists t', In x (wl (kof w t'))) /\
  (forall x, sp (P w x) = true \/ xs x = true -> waiting w x = false ->
             1 <= sem w x \/ (exists t' m' u, P w t' = UsWakeV m' x u) \/ (exists t', xv t' = Some x)) /\
  (forall x, 0 <= sem w x) /\
  (forall x, pcB (P w x) /\ pcX (P w x)) /\
  (Z.testbit (word w) 1 = true -> (exists o, own (kof w o) = true) \/ (exists o, xo o = true)) /\
  (* MU_WRITER_WAITING is never set over an empty queue unless a thread of mu.c owns the spinlock (an enqueuer about
     to put itself on the queue, a releaser about to clear the bit) *)
  (Z.testbit (word w) 5 = true -> queue w <> [] \/ exists o, own (kof w o) = true).

(* the general step: queue, waiting flags and semaphores unchanged *)
Lemma XG w w' t s s' :
  HX w -> (t < length (thr w))%nat -> get w t = s ->
  thr w' = lupd (thr w) t s' -> queue w' = queue w -> waiting w' = waiting w -> sem w' = sem w ->
  Z.testbit (word w') 7 = false ->
  (Z.testbit (word w') 5 = true -> Z.testbit (word w') 2 = true) ->
  (Z.testbit (word w') 6 = true ->
     lw_pc (t_pc s') = true \/ (lw_pc (t_pc s) = false /\ exists T, lw_pc (P w T) = true)) ->
  (Z.testbit (word w') 3 = true ->
     agent_pc (t_pc s') (waiting w t) = true \/ (agent_pc (t_pc s) (waiting w t) = false /\ exists a, agentx w a)) ->
  (Z.testbit (word w') 2 = true -> free (word w') ->
     agent_pc (t_pc s') (waiting w t) = true \/ (agent_pc (t_pc s) (waiting w t) = false /\ exists a, agentx w a)) ->
  wl (role_of (t_pc s')) = wl (role_of (t_pc s)) ->
  (isq (role_of (t_pc s')) = true -> isq (role_of (t_pc s)) = true) ->
  (sp (t_pc s') = true -> waiting w t = true \/ sp (t_pc s) = true) ->
  (forall m x u, t_pc s <> UsWakeV m x u) ->
  pcB (t_pc s') -> pcX (t_pc s') ->
  (Z.testbit (word w') 1 = true ->
     own (role_of (t_pc s')) = true \/ (own (role_of (t_pc s)) = false /\ Z.testbit (word w) 1 = true)) ->
  (Z.testbit (word w') 5 = true ->
     own (role_of (t_pc s')) = true \/ queue w <> [] \/ (own (role_of (t_pc s)) = false /\ Z.testbit (word w) 5 = true)) ->
  HX w'.
Proof.
  intros (H1 & H2 & H3 & H4 & H5 & H6 & H7 & H8 & H9 & H10 & H11) Ht Hs E Eq Ew Es C1 C2 C3 C4 C5 C6 C6' C7 C7' C9 C9x C10 C11.
  destruct (upd_P w w' t s' Ht E) as [Pt Po].
  assert (P w t = t_pc s) as Ps by (unfold P; now rewrite Hs).
  assert (agent_pc (t_pc s') (waiting w t) = true \/
          (agent_pc (t_pc s) (waiting w t) = false /\ exists a, agentx w a) -> exists a, agentx w' a) as AG.
  { intros [L | [Hf [a Ha]]].
    - exists t. left. rewrite Pt, Ew. exact L.
    - exists a. unfold agentx in *. rewrite Ew. destruct (Nat.eq_dec a t) as [->|N].
      + rewrite Ps in Ha. destruct Ha as [Ha | Ha]; [congruence | right; exact Ha].
      + rewrite Po by exact N. exact Ha. }
  split; [exact C1|]. split; [exact C2|]. split; [|split; [|split; [|split; [|split; [|split]]]]].
  - intros B. destruct (C3 B) as [L | [Hf [T HT]]].
    + exists t. now rewrite Pt.
    + exists T. rewrite Po; [exact HT|]. intros ->. rewrite Ps in HT. congruence.
  - intros B. apply AG, C4, B.
  - intros B F. apply AG, C5; assumption.
  - intros x Ix Wx. rewrite Eq. rewrite Ew in Wx.
    assert (forall y, wl (kof w' y) = wl (kof w y)) as WL.
    { intros y. rewrite !kofP. destruct (Nat.eq_dec y t) as [->|N].
      - rewrite Pt, Ps. exact C6.
      - rewrite Po by exact N. reflexivity. }
    assert (isq (kof w x) = true) as Ix'.
    { rewrite kofP in *. destruct (Nat.eq_dec x t) as [->|N].
      - rewrite Pt in Ix. rewrite Ps. exact (C6' Ix).
      - rewrite Po in Ix by exact N. exact Ix. }
    destruct (H6 x Ix' Wx) as [Hq | [t' Ht']]; [left; exact Hq | right; exists t'; rewrite WL; exact Ht'].
  - intros x Sx Wx. rewrite Es. rewrite Ew in Wx.
    assert (sp (P w x) = true \/ xs x = true) as Sx0.
    { destruct Sx as [Sx | Sx]; [|right; exact Sx]. destruct (Nat.eq_dec x t) as [->|N].
      - rewrite Pt in Sx. destruct (C7 Sx) as [Wt | E0]; [congruence | left; now rewrite Ps].
      - left. now rewrite <- (Po x N). }
    destruct (H7 x Sx0 Wx) as [S | [(t' & m' & u & Pt') | V]]; [left; exact S | right; left | right; right; exact V].
    exists t', m', u. rewrite Po; [exact Pt'|]. intros ->. rewrite Ps in Pt'. exact (C7' _ _ _ Pt').
  - intros x. rewrite Es. apply H8.
  - split; [|split].
    + intros x. destruct (Nat.eq_dec x t) as [->|N]; [rewrite Pt; split; [exact C9 | exact C9x] | rewrite Po by exact N; apply H9].
    + intros B. destruct (C10 B) as [O | [O B']].
      * left. exists t. now rewrite kofP, Pt.
      * destruct (H10 B') as [[o Ho] | X]; [left | right; exact X]. exists o. rewrite kofP in *. rewrite Po; [exact Ho|].
        intros ->. rewrite Ps in Ho. congruence.
    + intros B. destruct (C11 B) as [O | [Q | [O B']]].
      * right. exists t. now rewrite kofP, Pt.
      * left. now rewrite Eq.
      * destruct (H11 B') as [Q | [o Ho]]; [left; now rewrite Eq | right]. exists o. rewrite kofP in *. rewrite Po; [exact Ho|].
        intros ->. rewrite Ps in Ho. congruence.
Qed.

(* a step that does not write the word *)
Lemma XG_local w w' t s s' :
  HX w -> (t < length (thr w))%nat -> get w t = s ->
  thr w' = lupd (thr w) t s' -> word w' = word w -> queue w' = queue w -> waiting w' = waiting w -> sem w' = sem w ->
  (agent_pc (t_pc s) (waiting w t) = true -> agent_pc (t_pc s') (waiting w t) = true) ->
  (lw_pc (t_pc s) = true -> lw_pc (t_pc s') = true) ->
  wl (role_of (t_pc s')) = wl (role_of (t_pc s)) ->
  (isq (role_of (t_pc s')) = true -> isq (role_of (t_pc s)) = true) ->
  (sp (t_pc s') = true -> waiting w t = true \/ sp (t_pc s) = true) ->
  (forall m x u, t_pc s <> UsWakeV m x u) ->
  pcB (t_pc s') -> pcX (t_pc s') -> own (role_of (t_pc s')) = own (role_of (t_pc s)) -> HX w'.
Proof.
  intros HH Ht Hs E Ex Eq Ew Es CA CL C6 C6' C7 C7' C9 C9x CO.
  pose proof HH as (H1 & H2 & H3 & H4 & H5 & _).
  apply (XG w w' t s s'); try assumption; rewrite ?Ex; try assumption.
  - intros B. destruct (H3 B) as [T HT]. destruct (lw_pc (t_pc s)) eqn:L; [left; auto | right; eauto].
  - intros B. destruct (H4 B) as [a Ha]. destruct (agent_pc (t_pc s) (waiting w t)) eqn:L; [left; auto | right; eauto].
  - intros B F. destruct (H5 B F) as [a Ha].
    destruct (agent_pc (t_pc s) (waiting w t)) eqn:L; [left; auto | right; eauto].
  - intros B. destruct (own (role_of (t_pc s))) eqn:O; [left; congruence | right; auto].
  - intros B. destruct (own (role_of (t_pc s))) eqn:O; [left; congruence | right; right; auto].
Qed.

(* the enqueuer puts itself on the queue and sets its waiting flag *)
Lemma X_S2 w w' t s s' m l :
  HX w -> (t < length (thr w))%nat -> get w t = s ->
  thr w' = lupd (thr w) t s' -> word w' = word w ->
  (forall x, In x (queue w) -> In x (queue w')) -> In t (queue w') ->
  waiting w' = fupd (waiting w) t true -> sem w' = sem w ->
  t_pc s = LsStoreWaiting m l -> t_pc s' = LsRelLoad m l -> xa t = false -> HX w'.
Proof.
  intros (H1 & H2 & H3 & H4 & H5 & H6 & H7 & H8 & H9 & H10 & H11) Ht Hs E Ex Eq It Ew Es Ep Ep' Xt.
  destruct (upd_P w w' t s' Ht E) as [Pt Po].
  assert (P w t = t_pc s) as Ps by (unfold P; now rewrite Hs).
  assert ((exists a, agentx w a) -> exists a, agentx w' a) as AG.
  { intros [a Ha]. exists a. unfold agentx in *. destruct (Nat.eq_dec a t) as [->|N].
    - rewrite Ps, Ep in Ha. destruct Ha as [Ha | [Ha _]]; [discriminate Ha | congruence].
    - rewrite Ew, fupd_other, Po by exact N. exact Ha. }
  unfold HX. rewrite Ex. split; [exact H1|]. split; [exact H2|]. split; [|split; [|split; [|split; [|split; [|split]]]]].
  - intros B. destruct (H3 B) as [T HT]. destruct (Nat.eq_dec T t) as [->|N].
    + exists t. rewrite Pt, Ep'. rewrite Ps, Ep in HT. exact HT.
    + exists T. now rewrite Po.
  - intros B. auto.
  - intros B F. auto.
  - intros x Ix Wx. destruct (Nat.eq_dec x t) as [->|N]; [left; exact It|].
    rewrite Ew, fupd_other in Wx by exact N. rewrite kofP, Po in Ix by exact N.
    destruct (H6 x Ix Wx) as [Hq | [t' Ht']]; [left; auto | right].
    exists t'. rewrite kofP in *. destruct (Nat.eq_dec t' t) as [->|N'].
    + rewrite Ps, Ep in Ht'. destruct Ht'.
    + now rewrite Po.
  - intros x Sx Wx. rewrite Es. destruct (Nat.eq_dec x t) as [->|N].
    { rewrite Ew, fupd_same in Wx. discriminate Wx. }
    rewrite Ew, fupd_other in Wx by exact N. rewrite Po in Sx by exact N.
    destruct (H7 x Sx Wx) as [S | [(t' & m' & u & Pt') | V]]; [left; exact S | right; left | right; right; exact V].
    exists t', m', u. rewrite Po; [exact Pt'|]. intros ->. rewrite Ps, Ep in Pt'. discriminate Pt'.
  - intros x. rewrite Es. apply H8.
  - split; [|split].
    + intros x. destruct (Nat.eq_dec x t) as [->|N]; [rewrite Pt, Ep'; split; exact I | rewrite Po by exact N; apply H9].
    + intros B. destruct (H10 B) as [[o Ho] | X]; [left | right; exact X]. exists o. rewrite kofP in *.
      destruct (Nat.eq_dec o t) as [->|N]; [rewrite Pt, Ep'; reflexivity | now rewrite Po].
    + intros _. left. intros Eq0. rewrite Eq0 in It. destruct It.
Qed.

(* a successful semaphore P *)
Lemma X_P w w' t s s' m l :
  HX w -> (t < length (thr w))%nat -> get w t = s ->
  thr w' = lupd (thr w) t s' -> word w' = word w -> queue w' = queue w -> waiting w' = waiting w ->
  sem w' = fupd (sem w) t (sem w t - 1) -> 0 < sem w t ->
  t_pc s = LsSemP m l -> t_pc s' = LsWaitLoad m l -> xs t = false -> HX w'.
Proof.
  intros (H1 & H2 & H3 & H4 & H5 & H6 & H7 & H8 & H9 & H10 & H11) Ht Hs E Ex Eq Ew Es Hp Ep Ep' Xt.
  destruct (upd_P w w' t s' Ht E) as [Pt Po].
  assert (P w t = t_pc s) as Ps by (unfold P; now rewrite Hs).
  assert ((exists a, agentx w a) -> exists a, agentx w' a) as AG.
  { intros [a Ha]. exists a. unfold agentx in *. rewrite Ew. destruct (Nat.eq_dec a t) as [->|N].
    - rewrite Ps, Ep in Ha. rewrite Pt, Ep'. exact Ha.
    - rewrite Po by exact N. exact Ha. }
  unfold HX. rewrite Ex. split; [exact H1|]. split; [exact H2|]. split; [|split; [|split; [|split; [|split; [|split]]]]].
  - intros B. destruct (H3 B) as [T HT]. destruct (Nat.eq_dec T t) as [->|N].
    + exists t. rewrite Pt, Ep'. rewrite Ps, Ep in HT. exact HT.
    + exists T. now rewrite Po.
  - auto.
  - auto.
  - intros x Ix Wx. rewrite Eq. rewrite Ew in Wx.
    assert (forall y, kof w' y = kof w y) as K.
    { intros y. rewrite !kofP. destruct (Nat.eq_dec y t) as [->|N]; [now rewrite Pt, Ps, Ep, Ep' | now rewrite Po]. }
    rewrite K in Ix. destruct (H6 x Ix Wx) as [Hq | [t' Ht']]; [left; auto | right; exists t'; now rewrite K].
  - intros x Sx Wx. destruct (Nat.eq_dec x t) as [->|N].
    { rewrite Pt, Ep' in Sx. destruct Sx as [Sx | Sx]; [discriminate Sx | congruence]. }
    rewrite Ew in Wx. rewrite Po in Sx by exact N. rewrite Es, fupd_other by exact N.
    destruct (H7 x Sx Wx) as [S | [(t' & m' & u & Pt') | V]]; [left; exact S | right; left | right; right; exact V].
    exists t', m', u. rewrite Po; [exact Pt'|]. intros ->. rewrite Ps, Ep in Pt'. discriminate Pt'.
  - intros x. rewrite Es. unfold fupd. destruct (Nat.eqb x t); [lia | apply H8].
  - split; [|split].
    + intros x. destruct (Nat.eq_dec x t) as [->|N]; [rewrite Pt, Ep'; split; exact I | rewrite Po by exact N; apply H9].
    + intros B. destruct (H10 B) as [[o Ho] | X]; [left | right; exact X]. exists o. rewrite kofP in *.
      destruct (Nat.eq_dec o t) as [->|N]; [rewrite Ps, Ep in Ho; discriminate Ho | now rewrite Po].
    + intros B. destruct (H11 B) as [Q | [o Ho]]; [left; now rewrite Eq | right]. exists o. rewrite kofP in *.
      destruct (Nat.eq_dec o t) as [->|N]; [rewrite Ps, Ep in Ho; discriminate Ho | now rewrite Po].
Qed.

(* the releaser takes the spinlock, gives up the lock and scans the queue *)
Lemma X_S5 w w' t s s' m old u :
  HX w -> (t < length (thr w))%nat -> get w t = s ->
  thr w' = lupd (thr w) t s' -> Permutation (wake u ++ queue w') (queue w) ->
  waiting w' = waiting w -> sem w' = sem w ->
  (forall k, k = 2 \/ k = 5 \/ k = 6 \/ k = 7 -> Z.testbit (word w') k = Z.testbit (word w) k) ->
  t_pc s = UsCasSpin m old -> t_pc s' = UsRelLoad m u -> uslB u -> pcX (UsRelLoad m u) -> HX w'.
Proof.
  intros (H1 & H2 & H3 & H4 & H5 & H6 & H7 & H8 & H9 & H10 & H11) Ht Hs E Pq Ew Es Eb Ep Ep' Hu Hux.
  destruct (upd_P w w' t s' Ht E) as [Pt Po].
  assert (P w t = t_pc s) as Ps by (unfold P; now rewrite Hs).
  assert (exists a, agentx w' a) as AG.
  { exists t. left. rewrite Pt, Ep'. reflexivity. }
  unfold HX. rewrite (Eb 7), (Eb 5), (Eb 2), (Eb 6) by tauto.
  split; [exact H1|]. split; [exact H2|]. split; [|split; [|split; [|split; [|split; [|split]]]]].
  - intros B. destruct (H3 B) as [T HT]. exists T. rewrite Po; [exact HT|].
    intros ->. rewrite Ps, Ep in HT. discriminate HT.
  - auto.
  - auto.
  - intros x Ix Wx. rewrite Ew in Wx. destruct (Nat.eq_dec x t) as [->|N].
    { rewrite kofP, Pt, Ep' in Ix. discriminate Ix. }
    rewrite kofP, Po in Ix by exact N.
    destruct (H6 x Ix Wx) as [Hq | [t' Ht']].
    + apply (Permutation_in _ (Permutation_sym Pq)), in_app_or in Hq. destruct Hq as [Hq | Hq]; [right | left; exact Hq].
      exists t. rewrite kofP, Pt, Ep'. exact Hq.
    + right. exists t'. rewrite kofP in *. destruct (Nat.eq_dec t' t) as [->|N'].
      * rewrite Ps, Ep in Ht'. destruct Ht'.
      * now rewrite Po.
  - intros x Sx Wx. rewrite Es. rewrite Ew in Wx.
    assert (sp (P w x) = true \/ xs x = true) as Sx0.
    { destruct Sx as [Sx | Sx]; [|right; exact Sx]. destruct (Nat.eq_dec x t) as [->|N].
      - rewrite Pt, Ep' in Sx. discriminate Sx.
      - left. now rewrite <- (Po x N). }
    destruct (H7 x Sx0 Wx) as [S | [(t' & m' & u' & Pt') | V]]; [left; exact S | right; left | right; right; exact V].
    exists t', m', u'. rewrite Po; [exact Pt'|]. intros ->. rewrite Ps, Ep in Pt'. discriminate Pt'.
  - intros x. rewrite Es. apply H8.
  - split; [|split].
    + intros x. destruct (Nat.eq_dec x t) as [->|N]; [rewrite Pt, Ep'; split; [exact Hu | exact Hux] | rewrite Po by exact N; apply H9].
    + intros _. left. exists t. rewrite kofP, Pt, Ep'. reflexivity.
    + intros _. right. exists t. rewrite kofP, Pt, Ep'. reflexivity.
Qed.

(* the waker clears the waiting flag of the next waiter on its list *)
Lemma X_S7 w w' t s s' m u u' p :
  HX w -> (t < length (thr w))%nat -> get w t = s ->
  thr w' = lupd (thr w) t s' -> word w' = word w -> queue w' = queue w ->
  waiting w' = fupd (waiting w) p false -> sem w' = sem w ->
  t_pc s = UsWakeStore m u -> wake u = p :: wake u' -> t_pc s' = UsWakeV m p u' ->
  (isq (kof w p) = true \/ xa p = true) -> HX w'.
Proof.
  intros (H1 & H2 & H3 & H4 & H5 & H6 & H7 & H8 & H9 & H10 & H11) Ht Hs E Ex Eq Ew Es Ep Eu Ep' Ip.
  destruct (upd_P w w' t s' Ht E) as [Pt Po].
  assert (P w t = t_pc s) as Ps by (unfold P; now rewrite Hs).
  assert (exists a, agentx w' a) as AG.
  { exists p. unfold agentx. rewrite Ew, fupd_same. destruct Ip as [Ip | Ip]; [left | right; auto].
    assert (p <> t) as Npt by (intros ->; rewrite kofP, Ps, Ep in Ip; discriminate Ip).
    rewrite Po by exact Npt. apply isq_agent. exact Ip. }
  unfold HX. rewrite Ex. split; [exact H1|]. split; [exact H2|]. split; [|split; [|split; [|split; [|split; [|split]]]]].
  - intros B. destruct (H3 B) as [T HT]. exists T. rewrite Po; [exact HT|].
    intros ->. rewrite Ps, Ep in HT. discriminate HT.
  - auto.
  - auto.
  - intros x Ix Wx. rewrite Eq. destruct (Nat.eq_dec x p) as [->|Nxp].
    { rewrite Ew, fupd_same in Wx. discriminate Wx. }
    rewrite Ew, fupd_other in Wx by exact Nxp. destruct (Nat.eq_dec x t) as [->|N].
    { rewrite kofP, Pt, Ep' in Ix. discriminate Ix. }
    rewrite kofP, Po in Ix by exact N.
    destruct (H6 x Ix Wx) as [Hq | [t' Ht']]; [left; exact Hq | right].
    exists t'. rewrite kofP in *. destruct (Nat.eq_dec t' t) as [->|N'].
    + rewrite Ps, Ep in Ht'. cbn [role_of wl] in Ht'. rewrite Eu in Ht'. destruct Ht' as [<- | Ht']; [now elim Nxp|].
      rewrite Pt, Ep'. exact Ht'.
    + now rewrite Po.
  - intros x Sx Wx. rewrite Es. destruct (Nat.eq_dec x p) as [->|Nxp].
    { right; left. exists t, m, u'. now rewrite Pt. }
    rewrite Ew, fupd_other in Wx by exact Nxp.
    assert (sp (P w x) = true \/ xs x = true) as Sx0.
    { destruct Sx as [Sx | Sx]; [|right; exact Sx]. destruct (Nat.eq_dec x t) as [->|N].
      - rewrite Pt, Ep' in Sx. discriminate Sx.
      - left. now rewrite <- (Po x N). }
    destruct (H7 x Sx0 Wx) as [S | [(t' & m' & u0 & Pt') | V]]; [left; exact S | right; left | right; right; exact V].
    exists t', m', u0. rewrite Po; [exact Pt'|]. intros ->. rewrite Ps, Ep in Pt'. discriminate Pt'.
  - intros x. rewrite Es. apply H8.
  - split; [|split].
    + intros x. destruct (Nat.eq_dec x t) as [->|N]; [rewrite Pt, Ep'; split; exact I | rewrite Po by exact N; apply H9].
    + intros B. destruct (H10 B) as [[o Ho] | X]; [left | right; exact X]. exists o. rewrite kofP in *.
      destruct (Nat.eq_dec o t) as [->|N]; [rewrite Ps, Ep in Ho; discriminate Ho | now rewrite Po].
    + intros B. destruct (H11 B) as [Q | [o Ho]]; [left; now rewrite Eq | right]. exists o. rewrite kofP in *.
      destruct (Nat.eq_dec o t) as [->|N]; [rewrite Ps, Ep in Ho; discriminate Ho | now rewrite Po].
Qed.

(* the waker posts the semaphore of the waiter whose flag it has cleared *)
Lemma X_S8 w w' t s s' m u p :
  HX w -> (t < length (thr w))%nat -> get w t = s ->
  thr w' = lupd (thr w) t s' -> word w' = word w -> queue w' = queue w ->
  waiting w' = waiting w -> sem w' = fupd (sem w) p (sem w p + 1) ->
  t_pc s = UsWakeV m p u -> t_pc s' = match wake u with [] => Idle | _ => UsWakeStore m u end -> HX w'.
Proof.
  intros (H1 & H2 & H3 & H4 & H5 & H6 & H7 & H8 & H9 & H10 & H11) Ht Hs E Ex Eq Ew Es Ep Ep'.
  destruct (upd_P w w' t s' Ht E) as [Pt Po].
  assert (P w t = t_pc s) as Ps by (unfold P; now rewrite Hs).
  assert (forall y, kof w' y = kof w y) as K.
  { intros y. rewrite !kofP. destruct (Nat.eq_dec y t) as [->|N]; [|now rewrite Po].
    rewrite Pt, Ps, Ep, Ep'. destruct (wake u) eqn:Eu; cbn [role_of]; now rewrite ?Eu. }
  assert ((exists a, agentx w a) -> exists a, agentx w' a) as AG.
  { intros [a Ha]. exists a. unfold agentx in *. rewrite Ew. destruct (Nat.eq_dec a t) as [->|N].
    - destruct Ha as [Ha | Ha]; [left | right; exact Ha].
      rewrite Ps, Ep in Ha. rewrite Pt, Ep'. cbn [agent_pc] in Ha.
      destruct (wake u) eqn:Eu; [discriminate Ha|]. cbn [agent_pc]. now rewrite Eu.
    - rewrite Po by exact N. exact Ha. }
  assert (forall x, sem w x <= sem w' x) as SM.
  { intros x. rewrite Es. unfold fupd. destruct (Nat.eqb_spec x p) as [->|]; lia. }
  unfold HX. rewrite Ex. split; [exact H1|]. split; [exact H2|]. split; [|split; [|split; [|split; [|split; [|split]]]]].
  - intros B. destruct (H3 B) as [T HT]. exists T. rewrite Po; [exact HT|].
    intros ->. rewrite Ps, Ep in HT. discriminate HT.
  - auto.
  - auto.
  - intros x Ix Wx. rewrite Eq. rewrite Ew in Wx. rewrite K in Ix.
    destruct (H6 x Ix Wx) as [Hq | [t' Ht']]; [left; auto | right; exists t'; now rewrite K].
  - intros x Sx Wx. rewrite Ew in Wx.
    assert (sp (P w x) = true \/ xs x = true) as Sx0.
    { destruct Sx as [Sx | Sx]; [|right; exact Sx]. destruct (Nat.eq_dec x t) as [->|N].
      - rewrite Pt, Ep' in Sx. destruct (wake u); discriminate Sx.
      - left. now rewrite <- (Po x N). }
    destruct (H7 x Sx0 Wx) as [S | [(t' & m' & u0 & Pt') | V]].
    + left. specialize (SM x). lia.
    + destruct (Nat.eq_dec t' t) as [->|N'].
      * rewrite Ps, Ep in Pt'. injection Pt' as _ <- _. left. rewrite Es, fupd_same. specialize (H8 p). lia.
      * right; left. exists t', m', u0. now rewrite Po.
    + right; right; exact V.
  - intros x. specialize (SM x). specialize (H8 x). lia.
  - split; [|split].
    + intros x. destruct (Nat.eq_dec x t) as [->|N]; [|rewrite Po by exact N; apply H9].
      rewrite Pt, Ep'. destruct (wake u) eqn:Eu; cbn [pcB pcX]; [split; exact I | rewrite Eu; split; [discriminate | exact I]].
    + intros B. destruct (H10 B) as [[o Ho] | X]; [left | right; exact X]. exists o. rewrite kofP in *.
      destruct (Nat.eq_dec o t) as [->|N]; [rewrite Ps, Ep in Ho; discriminate Ho | now rewrite Po].
    + intros B. destruct (H11 B) as [Q | [o Ho]]; [left; now rewrite Eq | right]. exists o. rewrite kofP in *.
      destruct (Nat.eq_dec o t) as [->|N]; [rewrite Ps, Ep in Ho; discriminate Ho | now rewrite Po].
Qed.

(* a step whose CAS only clears flag bits (mask c) besides changing the lock view *)
Lemma XG_clear w w' t s s' c :
  HX w -> (t < length (thr w))%nat -> get w t = s ->
  thr w' = lupd (thr w) t s' -> queue w' = queue w -> waiting w' = waiting w -> sem w' = sem w ->
  (forall k, 1 <= k < 8 -> Z.testbit (word w') k = Z.testbit (word w) k && negb (Z.testbit c k)) ->
  Z.testbit c 2 = false ->
  (lw_pc (t_pc s) = true -> Z.testbit c 6 = true \/ lw_pc (t_pc s') = true) ->
  (agent_pc (t_pc s) (waiting w t) = true -> Z.testbit c 3 = true \/ agent_pc (t_pc s') (waiting w t) = true) ->
  (Z.testbit (word w) 2 = true -> free (word w') ->
     agent_pc (t_pc s') (waiting w t) = true \/ (agent_pc (t_pc s) (waiting w t) = false /\ exists a, agentx w a)) ->
  wl (role_of (t_pc s')) = wl (role_of (t_pc s)) ->
  (isq (role_of (t_pc s')) = true -> isq (role_of (t_pc s)) = true) ->
  (sp (t_pc s') = true -> waiting w t = true \/ sp (t_pc s) = true) ->
  (forall m x u, t_pc s <> UsWakeV m x u) ->
  pcB (t_pc s') -> pcX (t_pc s') ->
  (own (role_of (t_pc s)) = true -> Z.testbit c 1 = true \/ own (role_of (t_pc s')) = true) ->
  (own (role_of (t_pc s)) = true -> own (role_of (t_pc s')) = true \/ queue w <> []) -> HX w'.
Proof.
  intros HH Ht Hs E Eq Ew Es FB C2 CL CA C5 C6 C6' C7 C7' C9 C9x CO CQ.
  pose proof HH as (H1 & H2 & H3 & H4 & H5 & _).
  apply (XG w w' t s s'); try assumption.
  - rewrite FB, H1 by lia. reflexivity.
  - rewrite !FB by lia. intros B. apply andb_true_iff in B. destruct B as [B _].
    rewrite (H2 B), C2. reflexivity.
  - rewrite FB by lia. intros B. apply andb_true_iff in B. destruct B as [B B'].
    destruct (H3 B) as [T HT]. destruct (lw_pc (t_pc s)) eqn:L; [|right; eauto].
    destruct (CL eq_refl) as [X | X]; [rewrite X in B'; discriminate B' | now left].
  - rewrite FB by lia. intros B. apply andb_true_iff in B. destruct B as [B B'].
    destruct (H4 B) as [a Ha]. destruct (agent_pc (t_pc s) (waiting w t)) eqn:L; [|right; eauto].
    destruct (CA eq_refl) as [X | X]; [rewrite X in B'; discriminate B' | now left].
  - rewrite FB by lia. intros B. apply andb_true_iff in B. destruct B as [B _]. apply C5, B.
  - rewrite FB by lia. intros B. apply andb_true_iff in B. destruct B as [B B'].
    destruct (own (role_of (t_pc s))) eqn:O; [|right; auto].
    destruct (CO eq_refl) as [X | X]; [rewrite X in B'; discriminate B' | now left].
  - rewrite FB by lia. intros B. apply andb_true_iff in B. destruct B as [B _].
    destruct (own (role_of (t_pc s))) eqn:O; [|right; right; auto].
    destruct (CQ eq_refl) as [X | X]; [now left | right; now left].
Qed.

(* with the lock free and the spinlock free, a long waiter is (or is in the hands of) an agent *)
Lemma lw_gives_agentx w T :
  (forall o, own (kof w o) = true -> tb1 (word w) = true) -> (queue w <> [] -> Z.testbit (word w) 2 = true) ->
  HX w -> tb1 (word w) = false -> free (word w) -> lw_pc (P w T) = true -> exists a, agentx w a.
Proof.
  intros B1 Q5a (H1 & H2 & H3 & H4 & H5 & H6 & H7 & H8 & H9 & H10 & H11) S F L.
  assert (own (kof w T) = true -> False) as NO.
  { intros O. apply B1 in O. congruence. }
  specialize (H9 T). destruct H9 as [H9 _]. pose proof (H6 T) as H6T. rewrite kofP in *.
  destruct (P w T) eqn:PT; try discriminate L; unfold lw_pc in L; cbn [lsl_of] in L; apply Z.eqb_eq in L;
    cbn [role_of own isq pcB] in *; try (elim NO; reflexivity).
  - exists T. left. rewrite PT. cbn [agent_pc]. apply Z.eqb_eq. apply H9, L.
  - exists T. left. rewrite PT. cbn [agent_pc]. apply Z.eqb_eq. apply H9, L.
  - exists T. left. rewrite PT. cbn [agent_pc]. apply Z.eqb_eq. apply (proj1 H9), L.
  - destruct (waiting w T) eqn:WT.
    + destruct (H6T eq_refl eq_refl) as [Hq' | [t' Ht']].
      * apply H5; [|exact F]. apply Q5a. intros E. rewrite E in Hq'. destruct Hq'.
      * exists t'. left. eapply wl_agent. exact Ht'.
    + exists T. left. rewrite PT, WT. reflexivity.
  - destruct (waiting w T) eqn:WT.
    + destruct (H6T eq_refl eq_refl) as [Hq' | [t' Ht']].
      * apply H5; [|exact F]. apply Q5a. intros E. rewrite E in Hq'. destruct Hq'.
      * exists t'. left. eapply wl_agent. exact Ht'.
    + exists T. left. rewrite PT, WT. reflexivity.
Qed.
End Flags.

(* ================================================================== *)
(* Part B: preservation by MuModel.step                                *)
(* ================================================================== *)
Lemma us_after_scan_X w u keep m : us_after_scan w = (u, keep) -> pcX (UsRelLoad m u).
Proof.
  intros E. pose proof (us_after_scan_facts _ _ _ E) as (Pm & Nw & _ & _ & _ & Cw).
  cbn [pcX]. intros Ew.
  assert (queue w = []) as Eq by (destruct (queue w) eqn:Q; [reflexivity | elim Nw; [discriminate | exact Ew]]).
  assert (keep = []) as Ek.
  { rewrite Ew, Eq in Pm. cbn [app] in Pm. apply Permutation_sym, Permutation_nil in Pm. exact Pm. }
  split; [|apply Cw, Ek].
  revert E. unfold us_after_scan. destruct (scan (wtype w) (queue w) None [] [] MU_ALL_FALSE) as [[wk kp] so].
  cbv beta iota zeta. intros E. injection E as <- <-. cbn [wake clear_on] in *. subst wk kp.
  destruct (band so MU_ALL_FALSE =? 0); reflexivity.
Qed.

Ltac finx := try solve [intros; first [assumption | reflexivity | exact I | congruence]].

Ltac x_local HH Ht Hs :=
  eapply XG_local;
  [ exact HH | exact Ht | exact Hs | reflexivity | reflexivity | reflexivity | reflexivity | reflexivity
  | cbn [t_pc agent_pc] | cbn [t_pc lw_pc lsl_of] | cbn [t_pc role_of wl] | cbn [t_pc role_of isq]
  | cbn [t_pc sp]; intros EE; try discriminate EE | cbn [t_pc]; intros ? ? ? EE; try discriminate EE
  | cbn [t_pc pcB] | cbn [t_pc pcX] | cbn [t_pc role_of own] ];
  finx.

Ltac x_clear HH Ht Hs c :=
  eapply (XG_clear _ _ _ _ _ _ _ _ _ c);
  [ exact HH | exact Ht | exact Hs | reflexivity | reflexivity | reflexivity | reflexivity
  | cbn [word]; intros k Hk | idtac
  | cbn [t_pc lw_pc lsl_of] | cbn [t_pc agent_pc] | cbn [word t_pc agent_pc]; intros B2 F
  | cbn [t_pc role_of wl] | cbn [t_pc role_of isq]
  | cbn [t_pc sp]; intros EE; try discriminate EE | cbn [t_pc]; intros ? ? ? EE; try discriminate EE
  | cbn [t_pc pcB] | cbn [t_pc pcX] | cbn [t_pc role_of own] | cbn [t_pc role_of own] ]; finx.

Ltac x_gen HH Ht Hs :=
  eapply XG;
  [ exact HH | exact Ht | exact Hs | reflexivity | reflexivity | reflexivity | reflexivity
  | cbn [word] | cbn [word] | cbn [word t_pc lw_pc lsl_of] | cbn [word t_pc agent_pc] | cbn [word t_pc agent_pc]
  | cbn [t_pc role_of wl] | cbn [t_pc role_of isq]
  | cbn [t_pc sp]; intros EE; try discriminate EE | cbn [t_pc]; intros ? ? ? EE; try discriminate EE
  | cbn [t_pc pcB] | cbn [t_pc pcX] | cbn [word t_pc role_of own] | cbn [word t_pc role_of own] ].

Section FlagsStep.
Variables (xa xs : nat -> bool) (xv : nat -> option nat) (xo : nat -> bool).
Notation HXf := (HX xa xs xv xo).

Lemma begin_op_hx w t : HXf w -> HXf (begin_op w t).
Proof.
  intros HH. unfold begin_op. cbv zeta.
  destruct (Nat.lt_ge_cases t (length (thr w))) as [Ht|Ht].
  2:{ rewrite get_oob by exact Ht. exact HH. }
  destruct (get w t) as [p ops h sl lt] eqn:Hs. cbn [t_pc t_ops held sleeps last_try].
  destruct p; try exact HH. destruct ops as [|o rest]; try exact HH.
  unfold set_t. x_local HH Ht Hs; destruct o, h; cbn in *; intros; first [exact I | reflexivity | congruence].
Qed.

Variable n : nat.
Hypothesis Hn : Z.of_nat n < 16777215.

Lemma step_hx_core w t : begin_op w t = w -> (t < length (thr w))%nat -> Inv n w -> HXf w ->
  (forall o, own (kof w o) = true -> tb1 (word w) = true) ->
  (queue w <> [] -> Z.testbit (word w) 2 = true) ->
  (forall cw, rel (kof w t) = Some cw -> (cw = true <-> queue w = [])) ->
  (lsr (kof w t) = true -> In t (queue w)) ->
  (forall p, In p (wl (kof w t)) -> isq (kof w p) = true \/ xa p = true) ->
  pcA' (P w t) ->
  (forall m l, P w t = LsStoreWaiting m l -> xa t = false) ->
  (sp (P w t) = true -> xs t = false) ->
  HXf (fst (step w t)).
Proof.
  intros HB Ht H0 HH HB1 HQ5 HC HEl HW HA HSx HSs. unfold step. rewrite HB. cbv zeta.
  pose proof H0 as (Hlen & (Rw & _ & _ & HXw) & Hok). specialize (Hok t).
  pose proof (Inv_readers n Hn w H0) as Dw.
  pose proof (Inv_held n w t) as Hheld. specialize (fun m => Hheld m H0).
  pose proof HH as (H1 & H2 & H3 & H4 & H5 & H6 & H7 & H8 & H9 & H10 & H11). specialize (H9 t). unfold P in H9.
  destruct H9 as [H9 H9x].
  destruct (get w t) as [p ops h sl lt] eqn:Hs.
  pose proof Hs as Hs'. unfold get in Hs'. rewrite Hs' in Hok.
  unfold pc_ok in Hok. cbn [t_pc t_ops held sleeps last_try] in *.
  assert (P w t = p) as Pp by (unfold P, get; rewrite Hs'; reflexivity).
  assert (kof w t = role_of p) as Kp by (unfold kof, get; rewrite Hs'; reflexivity).
  rewrite Pp in HA, HSx, HSs.
  destruct p as [ | m | m | m old | m | m | m old | m l | m l old | m l old | m l | m l | m l old | m l | m l
                | m | m | m old | m | m old | m old | m u | m u old | m u | m q u | why ].
  - (* Idle *) exact HH.
  - (* LkFast *) cas_split w; normt Hs' Ht.
    + x_clear HH Ht Hs 0.
      * rewrite Hcas. apply fb_fast_new'. exact Hk.
      * rewrite Hcas, Z.bits_0 in B2. discriminate B2.
    + x_local HH Ht Hs.
  - (* LkLoad *) destruct (fast_guard2 m (word w)) eqn:G; cbn [fst]; normt Hs' Ht; x_local HH Ht Hs.
    apply lslB_init.
  - (* LkCas2 *) destruct Hok as [_ G]. cas_split w; normt Hs' Ht.
    + subst old. x_clear HH Ht Hs (coa m).
      * apply fb_fast_new2; assumption.
      * destruct m; reflexivity.
      * exfalso. exact (trans_acq_not_free _ _ m Rw (fast_new2_trans m (word w) Rw Dw G) F).
    + x_local HH Ht Hs. apply lslB_init.
  - (* TryFast *) cas_split w; normt Hs' Ht.
    + x_clear HH Ht Hs 0.
      * rewrite Hcas. apply fb_try_new'. exact Hk.
      * rewrite Hcas, Z.bits_0 in B2. discriminate B2.
    + x_local HH Ht Hs.
  - (* TryLoad *) destruct (try_guard2 m (word w)) eqn:G; cbn [fst]; normt Hs' Ht; x_local HH Ht Hs.
  - (* TryCas2 *) destruct Hok as [_ G]. cas_split w; normt Hs' Ht.
    + subst old. x_clear HH Ht Hs (coa m).
      * apply fb_try_new2; assumption.
      * destruct m; reflexivity.
      * exfalso. exact (trans_acq_not_free _ _ m Rw (try_new2_trans m (word w) Rw Dw G) F).
    + x_local HH Ht Hs.
  - (* LsLoad *)
    destruct (nsync_mu_lock_slow_cas1_guard (word w) (zta l)) eqn:G1; cbn [fst].
    + normt Hs' Ht. x_local HH Ht Hs.
    + destruct (nsync_mu_lock_slow_cas2_guard (word w) (zta l)) eqn:G2; cbn [fst].
      * normt Hs' Ht. x_local HH Ht Hs. split; assumption.
      * exact HH.
  - (* LsCasAcq *) destruct Hok as (_ & Hl & G). cas_split w; normt Hs' Ht.
    + subst old. x_clear HH Ht Hs (Z.lor (Z.lor (clr l) (longw l)) (coa m)).
      * rewrite fb_lock_slow_cas1 by assumption. rewrite !Z.lor_spec. reflexivity.
      * rewrite !Z.lor_spec. destruct Hl as (_ & [-> | ->] & [-> | ->]); destruct m; reflexivity.
      * intros L. left. apply Z.eqb_eq in L. rewrite L, !Z.lor_spec.
        destruct Hl as (_ & [-> | ->] & _); destruct m; reflexivity.
      * intros L. left. apply Z.eqb_eq in L. rewrite L, !Z.lor_spec.
        destruct Hl as (_ & _ & [-> | ->]); destruct m; reflexivity.
      * exfalso. exact (trans_acq_not_free _ _ m Rw (lock_slow_cas1_trans m l (word w) Rw Dw Hl G) F).
    + x_local HH Ht Hs.
  - (* LsCasEnq *) destruct Hok as (_ & Hl). destruct H9 as [[LB1 LB2] G2]. cas_split w; normt Hs' Ht.
    + subst old. pose proof Hl as (Hz & Hc & Hlw). unfold MU_DESIG_WAKER, MU_LONG_WAIT in Hc, Hlw.
      x_gen HH Ht Hs; finx.
      * rewrite fb_lock_slow_cas2 by lia. change (Z.testbit 128 7) with true.
        rewrite orb_true_r. apply andb_false_r.
      * intros _. rewrite fb_lock_slow_cas2 by lia.
        destruct Hc as [-> | ->], m; cbn [sww]; tbc; rewrite ?orb_true_r; reflexivity.
      * rewrite fb_lock_slow_cas2 by lia. destruct Hlw as [Elw | Elw]; rewrite Elw.
        -- intros B. right. split; [reflexivity|]. apply H3.
           destruct (Z.testbit (word w) 6); [reflexivity | exfalso].
           destruct Hc as [Ec | Ec], m; rewrite Ec in B; vm_compute in B; discriminate B.
        -- intros _. left. reflexivity.
      * rewrite fb_lock_slow_cas2 by lia. destruct Hc as [Ec | Ec]; rewrite Ec.
        -- intros B. right. split; [reflexivity|]. apply H4.
           destruct (Z.testbit (word w) 3); [reflexivity | exfalso].
           destruct Hlw as [E | E], m; rewrite E in B; vm_compute in B; discriminate B.
        -- intros B. exfalso. replace (negb (Z.testbit 8 3 || Z.testbit 128 3)) with false in B by reflexivity.
           rewrite andb_false_r in B. discriminate B.
      * intros _ F. right.
        assert (free (word w)) as F0.
        { destruct (lock_slow_cas2_SL m l (word w) Rw Hl) as (_ & M & D). destruct F as [F1 F2]. split; lia. }
        destruct Hc as [Ec | Ec].
        -- split; [rewrite Ec; reflexivity|]. destruct Hz as [Ez | Ez]; rewrite Ez in G2.
           ++ destruct (enq_guard_fresh m (word w) Rw F0 G2) as [B6 | B5].
              ** destruct (H3 B6) as [T HT]. apply (lw_gives_agentx xa xs xv xo w T HB1 HQ5 HH); auto.
              ** apply H5; [apply H2, B5 | exact F0].
           ++ elim (enq_guard_woken m (word w) Rw F0 G2).
        -- exfalso. rewrite (LB2 Ec) in G2. exact (enq_guard_woken m (word w) Rw F0 G2).
      * intros _. left. reflexivity.
      * intros _. left. reflexivity.
    + x_local HH Ht Hs. split; assumption.
  - (* LsStoreWaiting *) cbn [fst]. normt Hs' Ht.
    eapply X_S2 with (m := m) (l := l);
      [ exact HH | exact Ht | exact Hs | reflexivity | reflexivity | cbn [queue] | cbn [queue]
      | reflexivity | reflexivity | reflexivity | reflexivity | exact (HSx m l eq_refl) ].
    + intros x Hx. destruct (wcount l =? 0); [apply in_or_app; now left | now right].
    + destruct (wcount l =? 0); [apply in_or_app; right; now left | now left].
  - (* LsRelLoad *) cbn [fst]. normt Hs' Ht. x_local HH Ht Hs.
  - (* LsRelCas *) destruct Hok as (_ & Hl). cas_split w; normt Hs' Ht.
    + subst old. x_clear HH Ht Hs 2.
      * apply fb_release_spinlock. exact Hk.
      * intros X. right. exact X.
      * intros X. right. exact X.
      * assert (free (word w)) as F0.
        { destruct (release_spinlock_SL (word w) Rw) as (_ & M & D). destruct F as [F1 F2]. split; lia. }
        destruct (negb (waiting w t)); [now left | right; split; [reflexivity | apply H5; assumption]].
      * intros _. left. reflexivity.
      * intros _. right. intros Eq0. rewrite Kp in HEl. specialize (HEl eq_refl). rewrite Eq0 in HEl. destruct HEl.
    + x_local HH Ht Hs.
  - (* LsWaitLoad *) destruct Hok as (_ & Hl). destruct (waiting w t) eqn:Ew; cbn [fst]; normt Hs' Ht.
    + x_local HH Ht Hs. left. exact Ew.
    + x_local HH Ht Hs.
      * intros L. destruct (wrap_u 32 (wcount l + 1) =? LONG_WAIT_THRESHOLD); [reflexivity | exact L].
      * apply lslB_next. apply Hl.
  - (* LsSemP *) destruct (0 <? sem w t) eqn:Es; cbn [fst]; [| exact HH]. normt Hs' Ht.
    apply Z.ltb_lt in Es.
    eapply X_P with (m := m) (l := l);
      [ exact HH | exact Ht | exact Hs | reflexivity | reflexivity | reflexivity | reflexivity | reflexivity
      | exact Es | reflexivity | reflexivity | exact (HSs eq_refl) ].
  - (* UlFast *) subst h. specialize (Hheld m eq_refl). cas_split w; normt Hs' Ht.
    + x_clear HH Ht Hs 0.
      * rewrite Hcas. apply fb_ufast. exact Hk.
      * rewrite Hcas in B2. destruct m; vm_compute in B2; discriminate B2.
    + x_local HH Ht Hs.
  - (* UlLoad *)
    destruct (unlock_try_cas2 m (word w)) eqn:G; [| destruct (unlock_bad m (word w))]; cbn [fst];
      normt Hs' Ht; x_local HH Ht Hs.
  - (* UlCas2 *) subst h. specialize (Hheld m eq_refl). cas_split w; normt Hs' Ht.
    + subst old. x_clear HH Ht Hs (cur m).
      * apply fb_unlock_new2; assumption.
      * destruct m; reflexivity.
      * right. split; [reflexivity|]. destruct m.
        -- destruct (unlock_cas2_guard_flags _ H9) as [X | X]; [congruence | apply H4, X].
        -- destruct (runlock_cas2_guard_flags _ Rw H1 H9) as [X | [X | X]]; [congruence | apply H4, X | exfalso].
           destruct (unlock_new2_trans R (word w) Rw Hheld) as [_ [_ D]]. destruct F as [_ F2]. lia.
    + x_local HH Ht Hs.
  - (* UsLoad *)
    destruct (has (word w) MU_CONDITION);
      [| destruct (nsync_mu_unlock_slow_cas1_guard (word w)) eqn:G1;
         [| destruct (nsync_mu_unlock_slow_cas2_guard (word w)) eqn:G2]]; cbn [fst];
      try exact HH; normt Hs' Ht; x_local HH Ht Hs.
  - (* UsCasRel *) subst h. specialize (Hheld m eq_refl). cas_split w; normt Hs' Ht.
    + subst old. x_clear HH Ht Hs (cur m).
      * apply fb_unlock_slow_cas1; assumption.
      * destruct m; reflexivity.
      * right. split; [reflexivity|].
        destruct (unlock_slow_cas1_guard_flags _ Rw H9) as [X | [X | [X | X]]];
          [congruence | apply H4, X | exfalso | congruence].
        destruct (unlock_slow_cas1_trans m (word w) Rw Hheld) as [_ T]. destruct F as [F1 F2].
        destruct m; lia.
    + x_local HH Ht Hs.
  - (* UsCasSpin *) subst h. specialize (Hheld m eq_refl). cas_split w.
    + destruct (us_after_scan _) as [u keep] eqn:E.
      pose proof (us_after_scan_B _ _ _ E) as HB'. pose proof (us_after_scan_X _ _ _ m E) as HBx.
      apply us_after_scan_facts in E. cbn [queue set_word] in E. destruct E as (Pm & _).
      cbn [fst]. normt Hs' Ht. subst old.
      eapply X_S5 with (m := m) (old := word w) (u := u);
        [ exact HH | exact Ht | exact Hs | reflexivity | cbn [queue]; exact Pm | reflexivity | reflexivity
        | cbn [word]; intros k Hk | reflexivity | reflexivity | exact HB' | exact HBx ].
      destruct Hk as [-> | [-> | [-> | ->]]]; rewrite fb_unlock_slow_cas2 by (first [exact Hheld | lia]);
        tbc; rewrite !orb_false_r; reflexivity.
    + normt Hs' Ht. x_local HH Ht Hs.
  - (* UsRelLoad *) cbn [fst]. normt Hs' Ht. x_local HH Ht Hs. exact H9x.
  - (* UsRelCas *) destruct Hok as (_ & (Hlate & _)). cas_split w; normt Hs' Ht.
    + subst old. destruct HA as (_ & C1 & S1 & S2). destruct H9 as (U7 & U25 & U6). unfold tb2 in S2.
      assert (kof w t = Rrel (wake u) (tb2 (clear_on u))) as Kt by (rewrite Kp; reflexivity).
      cbn [pcX] in H9x.
      destruct (wake u) as [|p0 r0] eqn:Ew.
      * destruct (H9x eq_refl) as [X3 X2].
        x_gen HH Ht Hs; finx.
        -- rewrite fb_unlock_slow_cas3 by (auto; lia). rewrite U7. apply andb_false_r.
        -- rewrite !fb_unlock_slow_cas3 by (auto; lia). rewrite (U25 X2). rewrite andb_false_r. discriminate.
        -- rewrite fb_unlock_slow_cas3 by (auto; lia). rewrite U6, orb_false_r. intros B.
           apply andb_true_iff in B. right. split; [reflexivity | apply H3, (proj1 B)].
        -- rewrite fb_unlock_slow_cas3 by (auto; lia). rewrite X3, andb_false_r. discriminate.
        -- rewrite fb_unlock_slow_cas3 by (auto; lia). rewrite X2, andb_false_r. discriminate.
        -- rewrite fb_unlock_slow_cas3 by (auto; lia). unfold tb1 in C1. rewrite C1, andb_false_r. discriminate.
        -- rewrite fb_unlock_slow_cas3 by (auto; lia). rewrite (U25 X2), andb_false_r. discriminate.
      * x_gen HH Ht Hs; finx.
        -- rewrite fb_unlock_slow_cas3 by (auto; lia). rewrite U7. apply andb_false_r.
        -- rewrite !fb_unlock_slow_cas3 by (auto; lia). intros B. apply andb_true_iff in B. destruct B as [B B'].
           destruct (Z.testbit (clear_on u) 2) eqn:C2.
           { rewrite (U25 eq_refl) in B'. discriminate B'. }
           rewrite S2, orb_false_r, andb_true_r.
           apply HQ5. intros Eq.
           specialize (HC (tb2 (clear_on u))). rewrite Kt in HC. apply (proj2 (HC eq_refl)) in Eq.
           unfold tb2 in Eq. congruence.
        -- rewrite fb_unlock_slow_cas3 by (auto; lia). rewrite U6, orb_false_r. intros B.
           apply andb_true_iff in B. right. split; [reflexivity | apply H3, (proj1 B)].
        -- intros _. left. rewrite Ew. reflexivity.
        -- intros _ _. left. rewrite Ew. reflexivity.
        -- rewrite fb_unlock_slow_cas3 by (auto; lia). unfold tb1 in C1. rewrite C1, andb_false_r. discriminate.
        -- rewrite fb_unlock_slow_cas3 by (auto; lia). intros B. apply andb_true_iff in B. destruct B as [_ B'].
           right; left. intros Eq0. specialize (HC (tb2 (clear_on u))). rewrite Kt in HC.
           apply (proj2 (HC eq_refl)) in Eq0. unfold tb2 in Eq0. rewrite (U25 Eq0) in B'. discriminate B'.
    + x_local HH Ht Hs. exact H9x.
  - (* UsWakeStore *) destruct (wake u) as [|p rest] eqn:Ew; [now elim H9|]. cbn [fst]. normt Hs' Ht.
    eapply X_S7 with (m := m) (u := u) (p := p) (u' := mk_usl rest (set_on u) (clear_on u) (late u));
      [ exact HH | exact Ht | exact Hs | reflexivity | reflexivity | reflexivity | reflexivity | reflexivity
      | reflexivity | exact Ew | reflexivity | ].
    apply HW. rewrite Kp. cbn [role_of wl]. rewrite Ew. now left.
  - (* UsWakeV *) cbn [fst]. normt Hs' Ht.
    eapply X_S8 with (m := m) (u := u) (p := q);
      [ exact HH | exact Ht | exact Hs | reflexivity | reflexivity | reflexivity | reflexivity | reflexivity
      | reflexivity | reflexivity ].
  - (* Crash *) exact HH.
Qed.
End FlagsStep.

Definition started (p : pc) : Prop := match p with LkFast _ | TryFast _ | UlFast _ | Crash _ => True | _ => False end.

Lemma begin_op_cases w t : begin_op w t = w \/ (P w t = Idle /\ started (P (begin_op w t) t)).
Proof.
  unfold begin_op, P. cbv zeta. destruct (t_pc (get w t)) eqn:E; auto.
  destruct (t_ops (get w t)) as [|o rest] eqn:O; auto. right. split; [reflexivity|].
  destruct (Nat.lt_ge_cases t (length (thr w))) as [L|G].
  - rewrite get_set_t_same by exact L. cbn [t_pc]. destruct o, (held (get w t)); exact I.
  - rewrite get_oob in O by exact G. discriminate O.
Qed.

Section FlagsStep2.
Variables (xa xs : nat -> bool) (xv : nat -> option nat) (xo : nat -> bool).
Notation HXf := (HX xa xs xv xo).
Variable n : nat.
Hypothesis Hn : Z.of_nat n < 16777215.

Lemma step_hx w t : Inv n w -> HXf w ->
  (forall o, own (kof w o) = true -> tb1 (word w) = true) ->
  (queue w <> [] -> Z.testbit (word w) 2 = true) ->
  (forall cw, rel (kof w t) = Some cw -> (cw = true <-> queue w = [])) ->
  (lsr (kof w t) = true -> In t (queue w)) ->
  (forall p, In p (wl (kof w t)) -> isq (kof w p) = true \/ xa p = true) ->
  pcA' (P w t) ->
  (forall m l, P w t = LsStoreWaiting m l -> xa t = false) ->
  (sp (P w t) = true -> xs t = false) ->
  HXf (fst (step w t)).
Proof.
  intros H0 HH HB1 HQ5 HC HEl HW HA HSx HSs.
  destruct (Nat.lt_ge_cases t (length (thr w))) as [L|G].
  2:{ assert (step w t = (w, EvNone)) as ->; [|exact HH].
      unfold step, begin_op. cbv zeta. rewrite (get_oob _ _ G). cbn [t_pc t_ops dflt_t]. rewrite (get_oob _ _ G). reflexivity. }
  rewrite step_begin.
  apply (step_hx_core xa xs xv xo n Hn).
  - apply begin_op_idem.
  - rewrite begin_op_length. exact L.
  - apply begin_op_inv, H0.
  - apply begin_op_hx, HH.
  - intros o. rewrite begin_op_kof, begin_op_word. apply HB1.
  - rewrite begin_op_queue, begin_op_word. exact HQ5.
  - intros cw. rewrite begin_op_kof, begin_op_queue. apply HC.
  - rewrite begin_op_kof, begin_op_queue. apply HEl.
  - intros p. rewrite !begin_op_kof. apply HW.
  - destruct (role_begin w t) as [_ X]. apply X, HA.
  - intros m l E. destruct (begin_op_cases w t) as [B | [_ S]]; [rewrite B in E; eauto | rewrite E in S; destruct S].
  - intros E. destruct (begin_op_cases w t) as [B | [_ S]]; [rewrite B in E; eauto|].
    destruct (P (begin_op w t) t); try discriminate E. destruct S.
Qed.
End FlagsStep2.

(* ================================================================== *)
(* Part C: steps outside mu.c                                          *)
(* ================================================================== *)
Definition H7c (xs : nat -> bool) (xv : nat -> option nat) (w : world) : Prop :=
  forall x, sp (P w x) = true \/ xs x = true -> waiting w x = false ->
            1 <= sem w x \/ (exists t' m' u, P w t' = UsWakeV m' x u) \/ (exists t', xv t' = Some x).

Lemma HX_H7 xa xs xv xo w : HX xa xs xv xo w -> H7c xs xv w /\ (forall x, 0 <= sem w x).
Proof. intros (_ & _ & _ & _ & _ & _ & H7 & H8 & _). split; assumption. Qed.

Lemma H7_mono xs xv w xs' xv' w' : H7c xs xv w ->
  (forall x, sp (P w' x) = true \/ xs' x = true -> waiting w' x = false ->
     ((sp (P w x) = true \/ xs x = true) /\ waiting w x = false /\ sem w x <= sem w' x) \/
     1 <= sem w' x \/ (exists t', xv' t' = Some x)) ->
  (forall t' m' x u, P w t' = UsWakeV m' x u -> P w' t' = UsWakeV m' x u) ->
  (forall t' x, xv t' = Some x -> xv' t' = Some x \/ 1 <= sem w' x) ->
  H7c xs' xv' w'.
Proof.
  intros H7 A B C x Sx Wx. destruct (A x Sx Wx) as [(S0 & W0 & Le) | [S | V]]; [|left; exact S | right; right; exact V].
  destruct (H7 x S0 W0) as [S | [(t' & m' & u & Pt') | [t' V]]].
  - left. lia.
  - right; left. exists t', m', u. apply B, Pt'.
  - destruct (C t' x V) as [V' | S]; [right; right; exists t'; exact V' | left; exact S].
Qed.

(* a thread enters mu.c from the wrapper: the pcs the wrapper can set *)
Definition entered (p : pc) : Prop :=
  match p with UlFast _ | LkFast _ => True | LsLoad m l => l = ls_desig m | _ => False end.

Lemma lslB_desig m : lslB m (ls_desig m).
Proof. split; cbn [ls_desig longw clr zta]; intros X; [discriminate X | destruct m; reflexivity]. Qed.

Lemma entered_facts p : entered p -> lw_pc p = false /\ pcB p /\ pcX p /\ role_of p = Rwake [] /\ sp p = false /\
  (forall m y u, p <> UsWakeV m y u).
Proof.
  destruct p; cbn [entered]; intros E; try (exfalso; exact E); try subst l;
    repeat split; try reflexivity; try exact I; try discriminate; try apply lslB_desig.
Qed.

Lemma HX_frame xa xs xv xo w xa' xs' xv' xo' w' :
  HX xa xs xv xo w ->
  (forall x, P w' x = P w x \/ (P w x = Idle /\ entered (P w' x))) ->
  Z.testbit (word w') 7 = false ->
  (Z.testbit (word w') 5 = true -> Z.testbit (word w') 2 = true) ->
  (Z.testbit (word w') 6 = true -> Z.testbit (word w) 6 = true) ->
  (Z.testbit (word w') 3 = true -> Z.testbit (word w) 3 = true) ->
  (Z.testbit (word w') 2 = true -> free (word w') -> Z.testbit (word w) 2 = true /\ free (word w)) ->
  (Z.testbit (word w') 1 = true ->
     (Z.testbit (word w) 1 = true /\ forall o, xo o = true -> xo' o = true) \/ exists o, xo' o = true) ->
  (Z.testbit (word w') 5 = true -> Z.testbit (word w) 5 = true \/ queue w' <> []) ->
  (forall a, agentx xa w a -> agentx xa' w' a) ->
  incl (queue w) (queue w') ->
  (forall x, isq (kof w x) = true -> waiting w' x = true -> waiting w x = true) ->
  H7c xs' xv' w' -> (forall x, 0 <= sem w' x) ->
  HX xa' xs' xv' xo' w'.
Proof.
  intros (H1 & H2 & H3 & H4 & H5 & H6 & H7 & H8 & H9 & H10 & H11) FP C1 C2 C3 C4 C5 C10 C11 CA Cq Cw C7 C8.
  assert (forall x, P w x <> Idle -> P w' x = P w x) as FN.
  { intros x N. destruct (FP x) as [E | [E _]]; [exact E | contradiction]. }
  assert (forall x, kof w' x = kof w x) as FK.
  { intros x. rewrite !kofP. destruct (FP x) as [-> | [E S]]; [reflexivity|].
    rewrite E. destruct (entered_facts _ S) as (_ & _ & _ & -> & _). reflexivity. }
  split; [exact C1|]. split; [exact C2|]. split; [|split; [|split; [|split; [|split; [|split; [|split; [|split]]]]]]].
  - intros B. destruct (H3 (C3 B)) as [T HT]. exists T. rewrite FN; [exact HT|]. intros E. rewrite E in HT. discriminate HT.
  - intros B. destruct (H4 (C4 B)) as [a Ha]. exists a. apply CA, Ha.
  - intros B F. destruct (C5 B F) as [B' F']. destruct (H5 B' F') as [a Ha]. exists a. apply CA, Ha.
  - intros x Ix Wx. rewrite FK in Ix. destruct (H6 x Ix (Cw x Ix Wx)) as [Hq | [t' Ht']]; [left; apply Cq, Hq | right].
    exists t'. now rewrite FK.
  - exact C7.
  - exact C8.
  - intros x. destruct (FP x) as [-> | [_ S]]; [apply H9|]. destruct (entered_facts _ S) as (_ & a & b & _). auto.
  - intros B. destruct (C10 B) as [[B' Xo] | X]; [|right; exact X].
    destruct (H10 B') as [[o Ho] | [o Ho]]; [left; exists o; now rewrite FK | right; exists o; auto].
  - intros B. destruct (C11 B) as [B' | Q]; [|left; exact Q].
    destruct (H11 B') as [Q | [o Ho]]; [left | right; exists o; now rewrite FK].
    intros E. destruct (queue w) as [|x q0]; [now apply Q|]. specialize (Cq x ltac:(now left)). rewrite E in Cq. destruct Cq.
Qed.

(* only the flags change, pointwise equal *)
Lemma HX_ext xa xs xv xo w xa' xs' xv' xo' : HX xa xs xv xo w ->
  (forall a, xa' a = xa a) -> (forall a, xs' a = xs a) -> (forall a, xv' a = xv a) -> (forall a, xo' a = xo a) ->
  HX xa' xs' xv' xo' w.
Proof.
  intros HH Ea Es Ev Eo. pose proof (HX_H7 _ _ _ _ _ HH) as [H7 H8].
  pose proof HH as (H1 & H2 & _).
  apply (HX_frame xa xs xv xo w); [exact HH | intros x; now left | exact H1 | exact H2 | auto | auto | auto | | auto | | apply incl_refl | auto | | exact H8].
  - intros B. left. split; [exact B|]. intros o. now rewrite Eo.
  - intros a [A | [A B]]; [left; exact A | right; split; [now rewrite Ea | exact B]].
  - intros x Sx Wx. destruct Sx as [Sx | Sx]; [|rewrite Es in Sx];
      (destruct (H7 x ltac:(auto) Wx) as [S | [V | [t' V]]]; [left; exact S | right; left; exact V | right; right; exists t'; now rewrite Ev]).
Qed.
