(* SemWaitProof2: the note_mu discipline, the life of the on-stack records (C13), the queue and the semaphore (C05 "no lost cancel"). *)
From NsyncBase Require Import CSem.
From NsyncGen Require Import Consts Sites.
From NsyncModel Require Import SemWaitModel.
From NsyncProof Require Import SemWaitProof.
From Coq Require Import List ZArith Bool Lia Arith.
Import ListNotations.
Local Open Scope Z_scope.
#[local] Hint Constructors Forall : core.

(* ------------------------------------------------------------------------------------------------ *)
(* stacks of the threads that do not move *)
Ltac neqb := repeat match goal with H : ?u <> ?t |- context [Nat.eqb ?u ?t] => rewrite (proj2 (Nat.eqb_neq u t) H) end.
Lemma so_ret_Notify w t n r u : u <> t -> stack (get (ret_Notify w t n r) u) = stack (get w u).
Proof. intro. unfold ret_Notify; dmatch; stk; neqb; reflexivity. Qed.
Lemma so_ret_D w t r v k u : u <> t -> stack (get (ret_D w t r v k) u) = stack (get w u).
Proof. intro. unfold ret_D; dmatch; rewrite ?so_ret_Notify by auto; stk; neqb; reflexivity. Qed.
Lemma so_ret_N w t r u : u <> t -> stack (get (ret_N w t r) u) = stack (get w u).
Proof. intro. unfold ret_N; dmatch; rewrite ?so_ret_D, ?so_ret_Notify by auto; stk; neqb; reflexivity. Qed.
Lemma so_ret_C w t r u : u <> t -> stack (get (ret_C w t r) u) = stack (get w u).
Proof. intro. unfold ret_C; dmatch; stk; neqb; reflexivity. Qed.
Lemma so_c_tail w t n p r u : u <> t -> stack (get (c_tail w t n p r) u) = stack (get w u).
Proof. intro. unfold c_tail. rewrite so_ret_C by auto. destruct p; reflexivity. Qed.
Lemma so_c_wloop w t n p r u : u <> t -> stack (get (c_wloop w t n p r) u) = stack (get w u).
Proof. intro. unfold c_wloop. dmatch; [apply so_c_tail; auto|]. stk; neqb; reflexivity. Qed.

(* ------------------------------------------------------------------------------------------------ *)
(* Layer 3: note_mu is held by exactly the thread whose top frame is inside a critical section of it *)
Definition held_by (st : list frame) : option nat :=
  match st with
  | FD n D3 :: _ | FD n (D4 _) :: _ => Some n
  | FN n s _ _ :: _ => match s with N2 | N4 | N5 | N6 | N10 | N11 => Some n | _ => None end
  | FC n _ _ :: _ => Some n
  | FP n (P3 _) :: _ => Some n
  | AWait _ (WLd1 n) :: _ | AWait _ (WUn1 n) :: _ | AWait _ (WLd2 n) :: _ | AWait _ (WUnl n) :: _ => Some n
  | _ => None
  end.
Definition W3 (w : world) : Prop := forall n u, lock (notes w n) = Some u <-> held_by (stack (get w u)) = Some n.

Definition others_same (t : nat) (w w' : world) : Prop := forall u, u <> t -> stack (get w' u) = stack (get w u).
Lemma W3_same t w w' : (forall n, lock (notes w' n) = lock (notes w n)) -> others_same t w w' ->
  held_by (stack (get w' t)) = held_by (stack (get w t)) -> W3 w -> W3 w'.
Proof.
  intros L O Ht H n u. unfold others_same in O. rewrite L. destruct (Nat.eq_dec u t) as [->|Hu]; [rewrite Ht|rewrite O by auto]; apply H.
Qed.
Lemma W3_acq t n w w' : lock (notes w n) = None -> held_by (stack (get w t)) = None ->
  (forall m, lock (notes w' m) = if Nat.eqb m n then Some t else lock (notes w m)) -> others_same t w w' ->
  held_by (stack (get w' t)) = Some n -> W3 w -> W3 w'.
Proof.
  intros L0 H0 L O Ht H m u. unfold others_same in O. rewrite L. destruct (Nat.eqb_spec m n) as [->|Hm].
  - destruct (Nat.eq_dec u t) as [->|Hu]; [rewrite Ht; tauto|]. rewrite O by auto. split; [intros [=]; congruence|intro K; apply H in K; congruence].
  - destruct (Nat.eq_dec u t) as [->|Hu]; [|rewrite O by auto; apply H]. rewrite Ht. split; [intro K; apply H in K; congruence|intros [=]; congruence].
Qed.
Lemma W3_rel t n w w' : held_by (stack (get w t)) = Some n ->
  (forall m, lock (notes w' m) = if Nat.eqb m n then None else lock (notes w m)) -> others_same t w w' ->
  held_by (stack (get w' t)) = None -> W3 w -> W3 w'.
Proof.
  intros H0 L O Ht H m u. unfold others_same in O. rewrite L. destruct (Nat.eqb_spec m n) as [->|Hm].
  - destruct (Nat.eq_dec u t) as [->|Hu]; [rewrite Ht; split; discriminate|]. rewrite O by auto. split; [discriminate|].
    intro K. apply H in K. apply H in H0. congruence.
  - destruct (Nat.eq_dec u t) as [->|Hu]; [|rewrite O by auto; apply H]. rewrite Ht. split; [intro K; apply H in K; congruence|discriminate].
Qed.

(* the top frame after a return *)
Lemma hb_ret_Notify w t n r : held_by (stack (get (ret_Notify w t n r) t)) = None.
Proof. unfold ret_Notify; dmatch; stk; rewrite Nat.eqb_refl; reflexivity. Qed.
Lemma hb_ret_D w t n s r v k : pre_ok (FD n s :: r) -> held_by (stack (get (ret_D w t r v k) t)) = None.
Proof.
  intros [Hwf _]. unfold ret_D. destruct r as [|g r]; [contradiction Hwf|]. apply wf_cons in Hwf as [Ha _].
  destruct g as [| | | |m|m|l []]; simpl in Ha; try contradiction; dmatch; rewrite ?hb_ret_Notify; stk; rewrite ?Nat.eqb_refl; reflexivity.
Qed.
Lemma hb_ret_N w t n s par inc r : pre_ok (FN n s par inc :: r) -> held_by (stack (get (ret_N w t r) t)) = None.
Proof.
  intros [Hwf Hfr]. unfold ret_N. destruct r as [|g r]; [contradiction Hwf|]. apply wf_cons in Hwf as [Ha Hwf]. fr_split Hfr.
  destruct g as [m []| | | |m|m|]; simpl in Ha; try contradiction; subst.
  - eapply hb_ret_D. split; eauto.
  - apply hb_ret_Notify.
Qed.
Lemma hb_ret_C w t n par s r : pre_ok (FC n par s :: r) -> held_by (stack (get (ret_C w t r) t)) = Some n.
Proof.
  intros [Hwf _]. unfold ret_C. destruct r as [|g r]; [contradiction Hwf|]. apply wf_cons in Hwf as [Ha _].
  destruct g as [|m [] par' inc| |m []| | |]; simpl in Ha; try contradiction.
  - destruct Ha as [-> ->]. stk. rewrite Nat.eqb_refl. destruct par'; reflexivity.
  - subst. stk. rewrite Nat.eqb_refl. reflexivity.
Qed.
Lemma hb_c_tail w t n par s r : pre_ok (FC n par s :: r) -> held_by (stack (get (c_tail w t n par r) t)) = Some n.
Proof. intro. unfold c_tail. eapply hb_ret_C; eauto. Qed.
Lemma hb_c_wloop w t n par s r : pre_ok (FC n par s :: r) -> held_by (stack (get (c_wloop w t n par r) t)) = Some n.
Proof. intro. unfold c_wloop. dmatch; [eapply hb_c_tail; eauto|]. stk. rewrite Nat.eqb_refl. reflexivity. Qed.
Lemma lock_c_tail w t n p r m : lock (notes (c_tail w t n p r) m) = lock (notes w m).
Proof. unfold c_tail. rewrite notes_ret_C. destruct p; simpl; auto. unfold fupd, nt. destruct (Nat.eqb_spec m n); subst; reflexivity. Qed.
Lemma lock_c_wloop w t n p r m : lock (notes (c_wloop w t n p r) m) = lock (notes w m).
Proof. unfold c_wloop. dmatch; [apply lock_c_tail|]. simpl. unfold fupd, nt. destruct (Nat.eqb_spec m n); subst; reflexivity. Qed.

Ltac lockprj := let m := fresh "m" in intro m; rewrite ?lock_c_wloop, ?lock_c_tail; prj; simpl; unfold fupd, nt; simpl;
  repeat match goal with |- context [Nat.eqb ?a ?b] => destruct (Nat.eqb_spec a b); subst; simpl end; try reflexivity; try congruence.
Ltac othprj := let u := fresh "u" in let Hu := fresh "Hu" in intros u Hu; rewrite ?so_ret_D, ?so_ret_N, ?so_ret_C, ?so_ret_Notify, ?so_c_wloop, ?so_c_tail by auto;
  stk; neqb; reflexivity.
Ltac hbprj Hp Est := first [erewrite hb_ret_D by exact Hp | erewrite hb_ret_N by exact Hp | erewrite hb_ret_C by exact Hp | erewrite hb_c_wloop by exact Hp | idtac];
  stk; rewrite ?Nat.eqb_refl; rewrite ?Est; reflexivity.
Ltac same3 t w H3 Hp Est := apply (W3_same t w); [lockprj | othprj | hbprj Hp Est | exact H3].
Ltac acq3 t n w H3 Hp Est Hl := apply (W3_acq t n w); [exact Hl | rewrite Est; reflexivity | lockprj | othprj | hbprj Hp Est | exact H3].
Ltac rel3 t n w H3 Hp Est := apply (W3_rel t n w); [rewrite Est; reflexivity | lockprj | othprj | hbprj Hp Est | exact H3].
Lemma lock_free_None w n : lock_free w n = true -> lock (notes w n) = None.
Proof. unfold lock_free, nt. destruct (lock (notes w n)); [discriminate|reflexivity]. Qed.

Lemma step_core_W3 w t c : W1 w -> W3 w -> W3 (fst (step_core w t c)).
Proof.
  intros H1 H3. pose proof (H1 t) as (Hwf & Htop & Hfr).
  unfold step_core. destruct (stack (get w t)) as [|f rest] eqn:Est; [exact H3|].
  assert (Hp : pre_ok (f :: rest)) by (split; auto).
  destruct f as [n s|n s par inc|n par s|n s|n|n|l s]; try exact H3.
  - destruct s; simpl; try exact H3.
    + dif; simpl; same3 t w H3 Hp Est.
    + destruct (lock_free w n) eqn:Hl; simpl; [|exact H3]. apply lock_free_None in Hl. acq3 t n w H3 Hp Est Hl.
    + same3 t w H3 Hp Est.
    + dif; simpl; rel3 t n w H3 Hp Est.
    + dif; simpl; same3 t w H3 Hp Est.
  - destruct s; simpl; try exact H3.
    + destruct (lock_free w n) eqn:Hl; simpl; [|exact H3]. apply lock_free_None in Hl. dif; simpl; acq3 t n w H3 Hp Est Hl.
    + rel3 t n w H3 Hp Est.
    + destruct (lock_free w n) eqn:Hl; simpl; [|exact H3]. apply lock_free_None in Hl. dif; simpl; [|exact H3]. acq3 t n w H3 Hp Est Hl.
    + dif; simpl; [dif; simpl|]; same3 t w H3 Hp Est.
    + destruct c; simpl; same3 t w H3 Hp Est.
    + rel3 t n w H3 Hp Est.
    + same3 t w H3 Hp Est.
    + destruct (lock_free w n) eqn:Hl; simpl; [|exact H3]. apply lock_free_None in Hl. acq3 t n w H3 Hp Est Hl.
    + same3 t w H3 Hp Est.
    + destruct inc; rel3 t n w H3 Hp Est.
  - destruct s; simpl.
    + dif; simpl; same3 t w H3 Hp Est.
    + same3 t w H3 Hp Est.
    + same3 t w H3 Hp Est.
    + same3 t w H3 Hp Est.
  - destruct s; simpl; try exact H3.
    + destruct (lock_free w n) eqn:Hl; simpl; [|exact H3]. apply lock_free_None in Hl. dif; simpl; acq3 t n w H3 Hp Est Hl.
    + destruct dec; rel3 t n w H3 Hp Est.
  - destruct s; simpl; try exact H3.
    + destruct c; simpl; [dif; simpl; [|exact H3]|destruct (sem (get w t)); simpl; [exact H3|]]; same3 t w H3 Hp Est.
    + same3 t w H3 Hp Est.
    + destruct (lock_free w n) eqn:Hl; simpl; [|exact H3]. apply lock_free_None in Hl. acq3 t n w H3 Hp Est Hl.
    + dif; simpl; same3 t w H3 Hp Est.
    + rel3 t n w H3 Hp Est.
    + destruct c; simpl; [dif; simpl; [dif; simpl|exact H3]|destruct (sem (get w t)); simpl; [exact H3|]]; same3 t w H3 Hp Est.
    + destruct (lock_free w n) eqn:Hl; simpl; [|exact H3]. apply lock_free_None in Hl. acq3 t n w H3 Hp Est Hl.
    + dif; simpl; same3 t w H3 Hp Est.
    + rel3 t n w H3 Hp Est.
Qed.

Lemma begin_call_W3 w t : W3 w -> W3 (begin_call w t).
Proof.
  intros H. unfold begin_call. destruct (stack (get w t)) eqn:Es; [|exact H]. destruct (prog (get w t)) as [|o rest]; [exact H|].
  apply (W3_same t w); [reflexivity| |  |exact H].
  - intros u Hu. unfold set_thr, get; simpl; unfold fupd. neqb. reflexivity.
  - rewrite Es. unfold set_thr, get; simpl; unfold fupd. rewrite Nat.eqb_refl. simpl.
    destruct o as [[m|] dl|m|m|m]; simpl; repeat dif; reflexivity.
Qed.
Lemma exec_W3 w a : W1 w -> W3 w -> W3 (exec w a).
Proof.
  intros H1 H. destruct a as [t c|d|o|t]; simpl.
  - rewrite step_eq. apply step_core_W3; [apply begin_call_W1, H1|apply begin_call_W3, H].
  - exact H.
  - intros n u. unfold env_v. stk. apply H.
  - unfold env_p. destruct (stack (get w t)); [|exact H]. destruct (sem (get w t)); [exact H|]. intros m u. stk. apply H.
Qed.
Lemma init_W3 c0 ns progs : W3 (init c0 ns progs).
Proof.
  intros n u. rewrite init_stack. simpl. split; [|discriminate]. destruct (nth_error ns n) as [[e p]|]; simpl; discriminate.
Qed.
Lemma run_W123 sched : forall w, W1 w -> W3 w -> W3 (run w sched).
Proof.
  unfold run. induction sched as [|a s IH]; intros w H1 H3; simpl; [auto|]. apply IH; [apply exec_W1|apply exec_W3]; auto.
Qed.
Lemma reachable_W3 w : reachable w -> W3 w.
Proof. intros (c0 & ns & progs & sched & _ & ->). apply run_W123; [apply init_W1|apply init_W3]. Qed.
(* two threads never hold the same note_mu *)
Lemma W3_excl w n u v : W3 w -> held_by (stack (get w u)) = Some n -> held_by (stack (get w v)) = Some n -> u = v.
Proof. intros H A B. apply H in A. apply H in B. congruence. Qed.
