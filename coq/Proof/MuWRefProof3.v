(* MuWRefProof3: proofs about Model/MuWRefModel.v (property C13, the reference-count theorem around conditional critical
   sections: nsync_mu_wait_with_deadline, nsync_mu_unlock_without_wakeup, the conditional nsync_mu_unlock_slow_).

   Part 1  the invariant WI of the mutex world (MuWaitWorld3.LInv + MuWaitWorld6.NC + MuWRefProof.K1 + MuWRefProof2.QI): steps,
           the client's rewriting of its own program
   Part 2  facts about MuWaitModel.step_thr used as a black box otherwise: a step with touches_mu = false leaves the word, the
           queue and the protected state alone; a thread that is releasing stays inside the releasing pcs, stays outside
           nsync_mu_wait and never gains the lock; the tail pcs are closed under step
   Part 3  counting the threads that still own a reference
   Part 4  the invariant RInv and its preservation by the kinds of step of MuWRefModel.rwstep
   Part 5  the lemmas used by Props/Properties_C13w.v, the examples *)
From NsyncBase Require Import CSem.
From NsyncGen Require Import Consts Sites.
From NsyncModel Require Import MuWaitModel MuWaitSpec MuWRefModel.
From NsyncProof Require Import WordView MuWaitProof MuWaitRings MuWaitBits MuWaitWorld1 MuWaitWorld2 MuWaitWorld3 MuWaitWorld4
  MuWaitWorld5 MuWaitWorld6 MuWaitFlags MuWRefProof MuWRefProof2.
From Coq Require Import List ZArith Bool Lia PeanoNat.
Import ListNotations.
Local Open Scope Z_scope.

(* ================================================================== *)
(* Part 1: the invariant of the mutex world                            *)
(* ================================================================== *)
Definition WI (n : nat) (w : world) : Prop := LInv n w /\ NC w /\ K1 w /\ QI w.

Lemma WI_step n (Hn : Z.of_nat n < 16777215) w a : WI n w -> WI n (fst (step w a)).
Proof.
  intros (HL & HN & HK & HQ). pose proof HL as ((HI & HF) & H1 & HU & H2).
  split; [apply (LInv_step n Hn); exact HL|]. split; [apply (NC_step_LInv n Hn); assumption|].
  split; [apply (K1_step n Hn); assumption|]. apply (QI_step n Hn); assumption.
Qed.

Lemma WI_init progs cl c0 : WI (length progs) (init progs cl c0).
Proof. split; [apply init_LInv|]. split; [apply NC_init|]. split; [apply K1_init | apply QI_init]. Qed.

(* ----- the client rewrites its own program: every clause of WI reads pc, held, conv, spin, mw of a thread, never t_ops ----- *)
Lemma get_set_t_same w t s : (t < length (thr w))%nat -> get (set_t w t s) t = s.
Proof. intros H. unfold get, set_t, set_thr; cbn [thr]. now apply nth_lupd_same. Qed.
Lemma get_set_t_other w t t' s : t' <> t -> get (set_t w t s) t' = get w t'.
Proof. intros H. unfold get, set_t, set_thr; cbn [thr]. now apply nth_lupd_other. Qed.

Lemma set_ops_same w t o : (t < length (thr w))%nat ->
  get (set_ops w t o) t = mk_t (t_pc (get w t)) o (held (get w t)) (conv (get w t)) (spin (get w t)) (mw (get w t)) (last_ret (get w t)).
Proof. intros H. unfold set_ops. apply get_set_t_same. exact H. Qed.
Lemma set_ops_other w t o y : y <> t -> get (set_ops w t o) y = get w y.
Proof. intros H. unfold set_ops. apply get_set_t_other. exact H. Qed.

Lemma set_ops_fields w t o y : (t < length (thr w))%nat ->
  t_pc (get (set_ops w t o) y) = t_pc (get w y) /\ held (get (set_ops w t o) y) = held (get w y) /\
  conv (get (set_ops w t o) y) = conv (get w y) /\ spin (get (set_ops w t o) y) = spin (get w y) /\
  mw (get (set_ops w t o) y) = mw (get w y).
Proof.
  intros H. destruct (Nat.eq_dec y t) as [->|N]; [rewrite set_ops_same by exact H; repeat split|].
  rewrite set_ops_other by exact N. repeat split.
Qed.

Lemma set_ops_WI n (Hn : Z.of_nat n < 16777215) w t o : WI n w -> (t < length (thr w))%nat -> WI n (set_ops w t o).
Proof.
  intros (((HI & HF) & H1 & HU & H2) & HN & HK & (HQ1 & HQ2)) Lt.
  assert (F : forall y, t_pc (get (set_ops w t o) y) = t_pc (get w y) /\ held (get (set_ops w t o) y) = held (get w y) /\
                        conv (get (set_ops w t o) y) = conv (get w y) /\ spin (get (set_ops w t o) y) = spin (get w y) /\
                        mw (get (set_ops w t o) y) = mw (get w y)) by (intros y; apply set_ops_fields; exact Lt).
  assert (Fp : forall y, t_pc (get (set_ops w t o) y) = t_pc (get w y)) by (intros y; apply F).
  assert (Fm : forall y, mw (get (set_ops w t o) y) = mw (get w y)) by (intros y; apply F).
  assert (Fc : forall y, conv (get (set_ops w t o) y) = conv (get w y)) by (intros y; apply F).
  assert (Fs : forall y, spin (get (set_ops w t o) y) = spin (get w y)) by (intros y; apply F).
  split; [split; [split|split; [|split]]|split; [|split; [|split]]].
  - (* Inv *) pose proof HI as (Ln & _ & Hpc).
    unfold Inv, set_ops, set_t, set_thr; cbn [word thr].
    apply (InvL_upd n (word w) (thr w) t _ (word w) HI); [lia | | apply trans_refl, (Inv_rng n), HI].
    specialize (Hpc t). fold (get w t) in Hpc. unfold pc_ok in *. cbn [t_pc held conv spin mw]. exact Hpc.
  - (* frozen_word *) intros y old E. rewrite Fp in E. exact (HF y old E).
  - (* L1 *) unfold L1, L1v in *. change (L1a (queue w) (rings_of w) (wcond w) (cls w) (waiting w) (rcount w) (winfo (set_ops w t o))).
    eapply L1a_ext; [| exact H1]. intros y. unfold winfo. rewrite Fp, Fm. reflexivity.
  - (* U1 *) intros t1 t2. rewrite !Fp. apply HU.
  - (* L2 *) intros y. specialize (H2 y). unfold L2t in *. rewrite Fp, Fm. exact H2.
  - (* NC *) intros y k. specialize (HN y k). rewrite Fp, Fm, Fc, Fs. exact HN.
  - (* K1 *) intros y x. rewrite Fp, Fm. exact (HK y x).
  - (* K2 *) exact HQ1.
  - (* pcq *) intros y. specialize (HQ2 y). unfold pcq in *. rewrite Fp, Fc. exact HQ2.
Qed.

(* ================================================================== *)
(* Part 2: MuWaitModel.step_thr                                        *)
(* ================================================================== *)
Lemma begin_op_noops w t : t_ops (get w t) = [] -> begin_op w t = w.
Proof. intros H. unfold begin_op. rewrite H. destruct (t_pc (get w t)); reflexivity. Qed.
Lemma begin_op_nonidle w t : t_pc (get w t) <> Idle -> begin_op w t = w.
Proof. intros H. unfold begin_op. destruct (t_pc (get w t)); try reflexivity. now elim H. Qed.
Lemma begin_op_pst w t : pst (begin_op w t) = pst w.
Proof.
  unfold begin_op. destruct (t_pc (get w t)); try reflexivity. destruct (t_ops (get w t)); [reflexivity|].
  destruct (match o with OLock m => _ | _ => _ end) as [p x]. reflexivity.
Qed.

(* [touches_mu] does not miss a write *)
Lemma touches_mu_sound : forall w t c, step_touches w t = false ->
  word (fst (step_thr w t c)) = word w /\ queue (fst (step_thr w t c)) = queue w /\ pst (fst (step_thr w t c)) = pst w.
Proof.
  intros w0 t c. unfold step_touches. destruct (begin_op_fields w0 t) as (Eq & _).
  rewrite <- (begin_op_word w0 t), <- Eq, <- (begin_op_pst w0 t). unfold step_thr. cbv zeta.
  generalize (begin_op w0 t). intros w H.
  destruct (t_pc (get w t)); try discriminate H; cbn [fst].
  - repeat split.
  - destruct (wake u); [unfold ret_unlock; destruct (mw (get w t)); repeat split | repeat split].
  - destruct (wake u); [unfold ret_unlock; destruct (mw (get (set_sem w p (sem w p + 1)) t)); repeat split | repeat split].
  - repeat split.
Qed.

(* the pcs of a thread that is between calls, crashed, or inside nsync_mu_unlock / nsync_mu_unlock_without_wakeup /
   nsync_mu_unlock_slow_ (the scan included) *)
Definition inU (p : pc) : bool :=
  match p with
  | Idle | Crash _ | UlFast _ | UlLoad _ | UlCas2 _ _ | UwFast | UwLoad | UwCas2 _ | UsLoad _ | UsCasRel _ _ | UsCasSpin _ _
  | RelLoad (KScan _ _) _ | RelCas (KScan _ _) _ | SpinLoad (KScan _ _) _ | SpinCas (KScan _ _) _
  | RmLoad (KScan _ _) | RmCas (KScan _ _) _ | UsEval _ _
  | UsRelLoad _ _ _ | UsRelCas _ _ _ | UsWakeStore _ _ | UsWakeV _ _ _ => true
  | _ => false
  end.

Lemma scanres_inU p : scanres p -> inU p = true.
Proof. destruct p; cbn [scanres]; try contradiction; try (destruct k; try contradiction); reflexivity. Qed.
Lemma inU_not_mq p : inU p = true -> mq_of p None = false.
Proof. destruct p; try discriminate; try (destruct k; try discriminate); reflexivity. Qed.

(* a thread that has no call left but (possibly) its release, and is outside nsync_mu_wait_with_deadline *)
Definition rel_mid (s : tstate) : Prop := t_ops s = [] /\ inU (t_pc s) = true /\ mw s = None.
(* what the step of such a thread preserves *)
Definition rel_post (s s' : tstate) : Prop :=
  rel_mid s' /\ (held s = None -> held s' = None) /\ (touches_mu (t_pc s) = false -> touches_mu (t_pc s') = false).

Section Rel.
Variable n : nat.
Hypothesis Hn : Z.of_nat n < 16777215.

Ltac cas_split w :=
  unfold cas;
  match goal with |- context [word w =? ?e] => destruct (Z.eqb_spec (word w) e) as [Hcas|Hcas] end;
  cbv beta iota; cbn [fst snd].
(* leaf: the new state of t, read off the world *)
Ltac leaf w t Hs Hlen Ht :=
  intros _ _; cbn [fst] in *;
  lazymatch goal with |- rel_post _ (get ?W t) =>
    let HT := fresh "HT" in
    eassert (HT : TS t w W _ _) by (ts_solve; rewrite Hlen; exact Ht);
    rewrite (TS_get _ _ _ _ _ HT); unfold rel_post, rel_mid, get; rewrite ?Hs; unfold mw_of;
    cbn [t_pc t_ops held conv spin mw last_ret inU touches_mu];
    repeat split; intros; first [reflexivity | assumption | discriminate | congruence]
  end.
Ltac LF :=
  match goal with
  | Hlen : length (thr ?w) = _, Ht : (?t < _)%nat, Hs : nth ?t (thr ?w) dflt_t = _ |- _ => leaf w t Hs Hlen Ht
  end.
(* leaf after the scan went on: (w3, p') = after_inner / scan_from, word and thread states as in w2 *)
Ltac scanleaf w t Hs HT Hw1 Hw2 Hsr :=
  lazymatch goal with |- rel_post _ (get (set_pc ?w3 t ?p') t) =>
    let HT3 := fresh "HT3" in
    eassert (HT3 : TS t w (set_pc w3 t p') _ _) by (apply TS_set_pc; eapply TS_eq; [exact HT | exact Hw1 | exact Hw2]);
    rewrite (TS_get _ _ _ _ _ HT3); unfold rel_post, rel_mid, get; rewrite ?Hs; unfold mw_of;
    cbn [t_pc t_ops held conv spin mw last_ret];
    repeat split; intros; first [reflexivity | assumption | (apply scanres_inU; exact Hsr) | discriminate | congruence]
  end.

Lemma step_rel_mid w t c : Inv n w -> rel_mid (get w t) -> rel_post (get w t) (get (fst (step_thr w t c)) t).
Proof.
  intros H0 (Ho & Hu & Hm).
  pose proof (step_thr_ok n Hn w t c H0) as (HI' & _ & _ & Hoth). rewrite (begin_op_noops w t Ho) in Hoth.
  revert HI' Hoth. unfold step_thr. rewrite (begin_op_noops w t Ho). cbv zeta.
  destruct (Nat.lt_ge_cases t n) as [Ht|Ht].
  2:{ assert (Eg : get w t = dflt_t) by (apply get_oob'; destruct H0 as (-> & _); exact Ht).
      rewrite Eg. cbn. intros _ _. rewrite Eg. repeat split; auto. }
  pose proof H0 as (Hlen & _ & Hok). specialize (Hok t).
  destruct (get w t) as [p ops h cv sp mx lr] eqn:Hs. unfold get in Hs. rewrite Hs in Hok.
  unfold pc_ok in Hok. cbn [t_pc t_ops held conv spin mw last_ret] in *. subst ops mx.
  destruct p; try discriminate Hu; try (destruct k; try discriminate Hu; try contradiction).
  - (* Idle *) cbn [fst]. intros _ _. unfold get. rewrite Hs. repeat split; auto.
  - (* RelLoad KScan *) LF.
  - (* RelCas KScan *) cas_split w; [| LF]. intros _ _.
    match goal with |- context [after_inner ?w2 m ?r] =>
      pose proof (after_inner_sres w2 m r (inner_scanres w2 m (u_rest u) u)) as [Hsr _];
      pose proof (after_inner_wt w2 m r) as [Hw1 Hw2];
      destruct (after_inner w2 m r) as [w3 p'] eqn:Ea; cbn [fst snd] in *;
      eassert (HT : TS t w w2 _ _) by (ts_solve; rewrite Hlen; exact Ht)
    end.
    scanleaf w t Hs HT Hw1 Hw2 Hsr.
  - (* SpinLoad KScan *) destruct (nsync_spin_test_and_set_cas1_guard (word w) MU_SPINLOCK); LF.
  - (* SpinCas KScan *) unfold spin_set. cbv beta iota. cas_split w; [| LF]. intros _ _.
    match goal with |- context [round_end ?w2 u] =>
      eassert (HT : TS t w w2 _ _) by (ts_solve; rewrite Hlen; exact Ht);
      destruct (round_end_fields w2 u) as (_ & _ & _ & _ & _ & _ & _ & _ & _ & R10 & R11 & _);
      destruct (round_end w2 u) as [w3 u3] eqn:Ere; cbn [fst snd] in *
    end.
    pose proof (scan_from_sres m 3 w3 u3) as [Hsr _]. pose proof (scan_from_wt m 3 w3 u3) as [Hw1 Hw2].
    destruct (scan_from 3 w3 m u3) as [w4 p'] eqn:Esf. cbn [fst snd] in *. rewrite R10 in Hw1. rewrite R11 in Hw2.
    scanleaf w t Hs HT Hw1 Hw2 Hsr.
  - (* RmLoad KScan *) LF.
  - (* RmCas KScan *) destruct (rcount w (List.hd t (u_rest u)) =? oldv) eqn:Erc; [| LF].
    destruct (remove_from _ _ _ _ (u_new u) _) as [nl rg] eqn:Erm. intros _ _.
    match goal with |- context [after_inner ?w2 m (inner ?w2 m ?u' ?tl)] =>
      pose proof (after_inner_sres w2 m (inner w2 m u' tl) (inner_scanres w2 m tl u')) as [Hsr _];
      pose proof (after_inner_wt w2 m (inner w2 m u' tl)) as [Hw1 Hw2];
      destruct (after_inner w2 m (inner w2 m u' tl)) as [w3 p'] eqn:Ea; cbn [fst snd] in *;
      eassert (HT : TS t w w2 _ _) by (ts_solve; rewrite Hlen; exact Ht)
    end.
    scanleaf w t Hs HT Hw1 Hw2 Hsr.
  - (* UlFast *) cas_split w; LF.
  - (* UlLoad *) destruct (unlock_try_cas2 m (word w)); [| destruct (unlock_bad m (word w))]; LF.
  - (* UlCas2 *) cas_split w; LF.
  - (* UwFast *) cas_split w; LF.
  - (* UwLoad *) destruct (nsync_mu_unlock_without_wakeup_cas2_guard (word w)); [| destruct (uw_bad (word w))]; LF.
  - (* UwCas2 *) cas_split w; LF.
  - (* UsLoad *) destruct (nsync_mu_unlock_slow_cas1_guard (word w)); [LF|].
    destruct (nsync_mu_unlock_slow_cas2_guard (word w)); [LF|]. cbn [fst]. intros _ _. unfold get. rewrite Hs. repeat split; auto.
  - (* UsCasRel *) cas_split w; LF.
  - (* UsCasSpin *) destruct Hok as (Ho' & _). unfold own in Ho'; cbn [held] in Ho'. destruct Ho' as (-> & _).
    cas_split w; [| LF].
    destruct (has old MU_CONDITION) eqn:Etest; intros _ _;
    (match goal with |- context [scan_from 3 (set_queue ?w2 []) m ?u] =>
      eassert (HT : TS t w (set_queue w2 []) _ _) by (ts_solve; rewrite Hlen; exact Ht);
      pose proof (scan_from_sres m 3 (set_queue w2 []) u) as [Hsr _];
      pose proof (scan_from_wt m 3 (set_queue w2 []) u) as [Hw1 Hw2];
      destruct (scan_from 3 (set_queue w2 []) m u) as [w4 p'] eqn:Esf; cbn [fst snd] in *
    end); scanleaf w t Hs HT Hw1 Hw2 Hsr.
  - (* UsEval *)
    destruct (u_rest u) as [|p tl0] eqn:Er; [LF|]. destruct (wcond w p) as [[f a]|] eqn:Ec; [| LF].
    intros _ _.
    match goal with |- context [after_inner ?w2 m ?r] =>
      assert (Hr : match r with InPc p0 => scanres p0 /\ fin_of p0 = None | InEnd _ => True end);
      [ destruct (pst w f a);
        [ match goal with |- context [wakeable ?ww u p] => destruct (wakeable ww u p) end; [split; [exact I | reflexivity] | apply inner_scanres]
        | apply inner_scanres ]
      | pose proof (after_inner_sres w2 m r Hr) as [Hsr _];
        pose proof (after_inner_wt w2 m r) as [Hw1 Hw2];
        destruct (after_inner w2 m r) as [w3 p'] eqn:Ea; cbn [fst snd] in *;
        eassert (HT : TS t w w2 _ _) by (ts_solve; rewrite Hlen; exact Ht) ]
    end.
    scanleaf w t Hs HT Hw1 Hw2 Hsr.
  - (* UsRelLoad *) LF.
  - (* UsRelCas *) cas_split w; [destruct (wake u) eqn:Ewk; LF | LF].
  - (* UsWakeStore *) destruct (wake u) as [|q rest] eqn:Ewk; LF.
  - (* UsWakeV *) destruct (wake u) as [|q rest] eqn:Ewk; LF.
  - (* Crash *) cbn [fst]. intros _ _. unfold get. rewrite Hs. repeat split; auto.
Qed.

End Rel.

Section Wrapper.
Variable n : nat.
Hypothesis Hn : Z.of_nat n < 16777215.

Lemma step_thr_other w t c t' : Inv n w -> t' <> t -> get (fst (step_thr w t c)) t' = get w t'.
Proof.
  intros HI N. destruct (step_thr_ok n Hn w t c HI) as (_ & _ & _ & E).
  rewrite (E t' N). now apply begin_op_get_other.
Qed.

(* what is known of a thread that has given its reference back: it is outside nsync_mu_wait_with_deadline; its release has not
   begun (it holds the write lock), or it has no call left and is inside its release / back from it *)
Definition nonpre_ok (s : tstate) : Prop :=
  mw s = None /\
  ((t_pc s = Idle /\ only_release (t_ops s) = true /\ held s = Some W) \/ (t_ops s = [] /\ inU (t_pc s) = true)).

Lemma only_release_cases l : only_release l = true -> l = [OUnlock] \/ l = [OUnlockNW].
Proof. destruct l as [|[| | | | |] [|]]; try discriminate; auto. Qed.

Lemma step_nonpre w t c : Inv n w -> nonpre_ok (get w t) ->
  nonpre_ok (get (fst (step_thr w t c)) t) /\ (held (get w t) = None -> held (get (fst (step_thr w t c)) t) = None).
Proof.
  intros HI (Hm & [(Hp & Ho & Hh) | (Ho & Hu)]).
  - (* the release begins *)
    split; [| rewrite Hh; discriminate].
    assert (Lt : (t < length (thr w))%nat).
    { destruct (Nat.lt_ge_cases t (length (thr w))) as [|G]; [assumption|]. rewrite (get_oob' w t G) in Hh. discriminate Hh. }
    assert (Em : rel_mid (get (begin_op w t) t)).
    { unfold begin_op. rewrite Hp. destruct (only_release_cases _ Ho) as [E|E]; rewrite E, Hh;
        rewrite get_set_t_same by exact Lt; repeat split. }
    assert (Eb : begin_op (begin_op w t) t = begin_op w t) by (apply begin_op_noops, Em).
    assert (Es : step_thr w t c = step_thr (begin_op w t) t c) by (unfold step_thr; rewrite Eb; reflexivity).
    rewrite Es. destruct (step_rel_mid n Hn (begin_op w t) t c (begin_op_inv n w t HI) Em) as ((A & B & C) & _).
    split; [exact C | right; split; assumption].
  - destruct (step_rel_mid n Hn w t c HI (conj Ho (conj Hu Hm))) as ((A & B & C) & D & _).
    split; [split; [exact C | right; split; assumption] | exact D].
Qed.

(* the tail: no call left, outside nsync_mu_wait, and a pc whose step does not touch the mutex *)
Definition safe (s : tstate) : Prop := t_ops s = [] /\ mw s = None /\ touches_mu (t_pc s) = false.

Lemma safe_rel_mid s : safe s -> rel_mid s.
Proof. intros (A & B & C). split; [exact A|]. split; [| exact B]. destruct (t_pc s); try discriminate C; reflexivity. Qed.

Lemma step_safe w t c : Inv n w -> safe (get w t) -> safe (get (fst (step_thr w t c)) t) /\ step_touches w t = false.
Proof.
  intros HI Hs. pose proof Hs as (A & B & C). unfold step_touches. rewrite (begin_op_noops w t A). split; [| exact C].
  destruct (step_rel_mid n Hn w t c HI (safe_rel_mid _ Hs)) as ((A' & _ & C') & _ & D). split; [exact A' | split; [exact C' | exact (D C)]].
Qed.

(* ================================================================== *)
(* Part 3: counting references                                         *)
(* ================================================================== *)
Definition isPre (p : phase) : bool := match p with Pre => true | _ => false end.
Definition cntPre (l : list phase) : Z := Z.of_nat (length (filter isPre l)).

Lemma cntPre_lupd l t v : (t < length l)%nat ->
  cntPre (lupd l t v) = cntPre l - b2z (isPre (nth t l Done)) + b2z (isPre v).
Proof.
  intros H. unfold cntPre. pose proof (filter_lupd isPre l t v Done H) as E.
  destruct (isPre (nth t l Done)), (isPre v); cbn [Nat.b2n b2z] in *; lia.
Qed.
Lemma cntPre_nonneg l : 0 <= cntPre l.
Proof. unfold cntPre. lia. Qed.
Lemma nth_Pre_inb l t : nth t l Done = Pre -> (t < length l)%nat.
Proof.
  intros H. destruct (Nat.lt_ge_cases t (length l)) as [|G]; [assumption|].
  rewrite nth_overflow in H by exact G. discriminate H.
Qed.
Lemma cntPre_pos l t : nth t l Done = Pre -> 1 <= cntPre l.
Proof.
  intros P. pose proof (nth_Pre_inb l t P) as H. pose proof (cntPre_lupd l t Done H) as E. rewrite P in E.
  cbn [isPre b2z] in E. pose proof (cntPre_nonneg (lupd l t Done)). lia.
Qed.
Lemma cntPre_init {A} (progs : list A) : cntPre (map (fun _ => Pre) progs) = Z.of_nat (length progs).
Proof.
  unfold cntPre. f_equal. induction progs as [|p l IH]; [reflexivity|]. cbn [map filter isPre length]. now rewrite IH.
Qed.

(* ================================================================== *)
(* Part 4: the invariant                                               *)
(* ================================================================== *)
Definition RInv (w : rwworld) : Prop :=
  WI n (ww w) /\ length (ph w) = n /\
  refs w = cntPre (ph w) /\
  bad w = false /\
  (forall t, phase_of w t = Dec true -> refs w = 0) /\
  (freed w = true -> refs w = 0) /\
  (forall t1 t2, phase_of w t1 = Dec true -> phase_of w t2 = Dec true -> t1 = t2) /\
  (freed w = true -> forall t, phase_of w t <> Dec true) /\
  (forall t, phase_of w t <> Pre -> nonpre_ok (get (ww w) t)) /\
  (forall F T, phase_of w F = Dec true -> T <> F -> held (get (ww w) T) = None) /\
  (freed w = true -> forall t, safe (get (ww w) t)).

Lemma WI_Inv w : WI n w -> Inv n w.
Proof. intros (((HI & _) & _) & _). exact HI. Qed.

Lemma no_pre w : refs w = cntPre (ph w) -> refs w = 0 -> forall t, phase_of w t <> Pre.
Proof. intros E Z t P. pose proof (cntPre_pos (ph w) t P). lia. Qed.
Lemma pre_refs w t : refs w = cntPre (ph w) -> phase_of w t = Pre -> 1 <= refs w.
Proof. intros E P. pose proof (cntPre_pos (ph w) t P). lia. Qed.
Lemma phase_inb w t : phase_of w t <> Done -> (t < length (ph w))%nat.
Proof.
  intros H. destruct (Nat.lt_ge_cases t (length (ph w))) as [|G]; [assumption|].
  elim H. unfold phase_of. now apply nth_overflow.
Qed.
Lemma is_idle_true p : is_idle p = true -> p = Idle.
Proof. destruct p; try discriminate; reflexivity. Qed.
Lemma no_ops_true l : no_ops l = true -> l = [].
Proof. destruct l; try discriminate; reflexivity. Qed.
Lemma holds_w_true h : holds_w h = true -> h = Some W.
Proof. destruct h as [[|]|]; try discriminate; reflexivity. Qed.

(* a step inside an nsync_mu_* call *)
Lemma rinv_mu w t c : RInv w -> RInv (do_mu w t c).
Proof.
  intros (I1 & I3 & I4 & I5 & I6 & I7 & I8 & I9 & I10 & I11 & I12).
  pose proof (WI_Inv _ I1) as HI.
  unfold RInv, do_mu, phase_of in *. cbn [ww refs freed bad ph].
  split; [exact (WI_step n Hn (ww w) (Thr t c) I1)|].
  split; [exact I3|]. split; [exact I4|]. split.
  { rewrite I5. cbn [orb]. destruct (freed w) eqn:Ef; [|reflexivity]. cbn [andb].
    apply (step_safe (ww w) t c HI). apply (I12 eq_refl). }
  split; [exact I6|]. split; [exact I7|]. split; [exact I8|]. split; [exact I9|]. split; [|split].
  - intros t' P. destruct (Nat.eq_dec t' t) as [->|N].
    + apply (step_nonpre (ww w) t c HI), I10, P.
    + rewrite step_thr_other by assumption. apply I10, P.
  - intros F T PF N. destruct (Nat.eq_dec T t) as [->|N'].
    + pose proof (I6 F PF) as Z0.
      assert (nth t (ph w) Done <> Pre) as NP by (apply (no_pre w I4 Z0)).
      apply (step_nonpre (ww w) t c HI (I10 t NP)). apply (I11 F t PF N).
    + rewrite step_thr_other by assumption. apply (I11 F T PF N).
  - intros Ef t'. destruct (Nat.eq_dec t' t) as [->|N].
    + apply (step_safe (ww w) t c HI), (I12 Ef).
    + rewrite step_thr_other by assumption. apply (I12 Ef).
Qed.

(* the clock, the cancel note and its posts *)
Lemma rinv_env w a : (forall t c, a <> Thr t c) -> RInv w -> RInv (mk_rw (fst (step (ww w) a)) (refs w) (freed w) (bad w) (ph w)).
Proof.
  intros Na (I1 & I3 & I4 & I5 & I6 & I7 & I8 & I9 & I10 & I11 & I12).
  assert (G : forall y, get (fst (step (ww w) a)) y = get (ww w) y).
  { intros y. destruct a as [t c|dt| |p]; cbn [step]; [now elim (Na t c) | destruct (0 <=? dt); reflexivity | reflexivity | destruct (note (ww w)); reflexivity]. }
  unfold RInv, phase_of in *. cbn [ww refs freed bad ph].
  split; [exact (WI_step n Hn (ww w) a I1)|].
  repeat (split; [assumption|]). split; [|split].
  - intros t P. rewrite G. apply I10, P.
  - intros F T PF N. rewrite G. apply (I11 F T PF N).
  - intros Ef t. rewrite G. apply (I12 Ef).
Qed.

Lemma skip_ready_inb s rest : skip_ready s = Some rest -> t_pc s = Idle /\ held s = None /\ t_ops s <> [].
Proof.
  unfold skip_ready. destruct (t_pc s); try discriminate. destruct (held s); try discriminate.
  destruct (t_ops s); [discriminate|]. intros _. repeat split. discriminate.
Qed.

(* the client's change of its own program *)
Lemma rinv_ops w t o rest : RInv w -> phase_of w t = Pre -> skip_ready (get (ww w) t) = Some rest -> RInv (do_ops w t o).
Proof.
  intros (I1 & I3 & I4 & I5 & I6 & I7 & I8 & I9 & I10 & I11 & I12) P S.
  assert (t < length (thr (ww w)))%nat as Ht.
  { destruct (Nat.lt_ge_cases t (length (thr (ww w)))) as [|G]; [assumption|].
    rewrite (get_oob' _ _ G) in S. discriminate S. }
  unfold RInv, do_ops, phase_of in *. cbn [ww refs freed bad ph].
  split; [apply (set_ops_WI n Hn); assumption|].
  split; [exact I3|]. split; [exact I4|]. split; [exact I5|].
  split; [exact I6|]. split; [exact I7|]. split; [exact I8|]. split; [exact I9|]. split; [|split].
  - intros t' P'. assert (t' <> t) as N by (intros ->; contradiction).
    rewrite set_ops_other by exact N. apply I10, P'.
  - intros F T PF N. rewrite (proj1 (proj2 (set_ops_fields (ww w) t o T Ht))). apply (I11 F T PF N).
  - intros Ef. exfalso. pose proof (pre_refs w t I4 P). specialize (I7 Ef). lia.
Qed.

(* last = (--refs == 0) *)
Lemma rinv_dec w t : RInv w -> phase_of w t = Pre -> dec_ready (get (ww w) t) = true -> RInv (do_dec w t).
Proof.
  intros (I1 & I3 & I4 & I5 & I6 & I7 & I8 & I9 & I10 & I11 & I12) P D.
  pose proof (WI_Inv _ I1) as HI.
  pose proof (pre_refs w t I4 P) as R1.
  assert (t < length (ph w))%nat as Ht by (apply phase_inb; rewrite P; discriminate).
  assert (freed w = false) as Ef by (destruct (freed w); [specialize (I7 eq_refl); lia | reflexivity]).
  assert (forall t', phase_of w t' <> Dec true) as ND by (intros t' E; specialize (I6 t' E); lia).
  assert (forall t' x, phase_of (do_dec w t) t' = x -> (t' = t /\ x = Dec (refs w - 1 =? 0)) \/ (t' <> t /\ phase_of w t' = x)) as PH.
  { intros t' x. unfold phase_of, do_dec. cbn [ph]. destruct (Nat.eq_dec t' t) as [->|N].
    - rewrite nth_lupd_same by exact Ht. intros <-. left. split; reflexivity.
    - rewrite nth_lupd_other by exact N. intros E. right. split; assumption. }
  unfold dec_ready in D. apply andb_prop in D. destruct D as [D D3]. apply andb_prop in D. destruct D as [D1 D2].
  apply is_idle_true in D1. apply holds_w_true in D3.
  unfold RInv. change (ww (do_dec w t)) with (ww w). change (refs (do_dec w t)) with (refs w - 1).
  change (freed (do_dec w t)) with (freed w). change (bad (do_dec w t)) with (bad w || freed w)%bool.
  split; [exact I1|].
  split; [unfold do_dec; cbn [ph]; rewrite length_lupd; exact I3|].
  split. { unfold do_dec; cbn [ph]. rewrite cntPre_lupd by exact Ht. unfold phase_of in P. rewrite P. cbn [isPre b2z]. lia. }
  split; [rewrite I5, Ef; reflexivity|].
  split. { intros t' E. apply PH in E. destruct E as [[_ E] | [_ E]]; [|now elim (ND t')].
           injection E as E. symmetry in E. apply Z.eqb_eq in E. exact E. }
  split; [rewrite Ef; discriminate|].
  split. { intros t1 t2 E1 E2. apply PH in E1. apply PH in E2.
           destruct E1 as [[-> _] | [_ E1]]; [|now elim (ND t1)].
           destruct E2 as [[-> _] | [_ E2]]; [reflexivity | now elim (ND t2)]. }
  split; [rewrite Ef; discriminate|].
  split; [|split].
  - intros t' NP. destruct (Nat.eq_dec t' t) as [->|N].
    + clear NP. split.
      * pose proof (pc_ok_get n (ww w) t HI) as Hok. unfold pc_ok in Hok. rewrite D1 in Hok. apply Hok.
      * left. split; [exact D1|]. split; [exact D2 | exact D3].
    + apply I10. intros E. apply NP. unfold phase_of, do_dec. cbn [ph]. rewrite nth_lupd_other by exact N. exact E.
  - intros F T PF N. apply PH in PF. destruct PF as [[-> _] | [_ PF]]; [|now elim (ND F)].
    pose proof (excl_of_inv n (ww w) HI) as X. unfold excl, nthreads, holds in X.
    assert (t < length (thr (ww w)))%nat as Lt.
    { destruct (Nat.lt_ge_cases t (length (thr (ww w)))) as [|G]; [assumption|].
      rewrite (get_oob' _ _ G) in D3. discriminate D3. }
    destruct (Nat.lt_ge_cases T (length (thr (ww w)))) as [LT|G]; [|rewrite (get_oob' _ _ G); reflexivity].
    destruct (held (get (ww w) T)) as [[|]|] eqn:HT; [| |reflexivity]; exfalso; apply N; symmetry;
      apply (X t T Lt LT D3); auto.
  - rewrite Ef. discriminate.
Qed.

(* if (last) free (obj) *)
Lemma rinv_free w t l : RInv w -> phase_of w t = Dec l -> free_ready (get (ww w) t) = true -> RInv (do_free w t l).
Proof.
  intros (I1 & I3 & I4 & I5 & I6 & I7 & I8 & I9 & I10 & I11 & I12) P D.
  pose proof (WI_Inv _ I1) as HI.
  assert (t < length (ph w))%nat as Ht by (apply phase_inb; rewrite P; discriminate).
  assert (forall t' x, phase_of (do_free w t l) t' = x -> (t' = t /\ x = Done) \/ (t' <> t /\ phase_of w t' = x)) as PH.
  { intros t' x. unfold phase_of, do_free. cbn [ph]. destruct (Nat.eq_dec t' t) as [->|N].
    - rewrite nth_lupd_same by exact Ht. intros <-. left. split; reflexivity.
    - rewrite nth_lupd_other by exact N. intros E. right. split; assumption. }
  apply andb_prop in D. destruct D as [D1 D2]. apply is_idle_true in D1. apply no_ops_true in D2.
  unfold RInv. change (ww (do_free w t l)) with (ww w). change (refs (do_free w t l)) with (refs w).
  change (freed (do_free w t l)) with (freed w || l)%bool.
  change (bad (do_free w t l)) with (bad w || (l && freed w))%bool.
  assert ((freed w || l)%bool = true -> refs w = 0) as FZ.
  { intros E. apply orb_prop in E. destruct E as [E | ->]; [apply I7, E | apply (I6 t P)]. }
  split; [exact I1|].
  split; [unfold do_free; cbn [ph]; rewrite length_lupd; exact I3|].
  split. { unfold do_free; cbn [ph]. rewrite cntPre_lupd by exact Ht. unfold phase_of in P. rewrite P. cbn [isPre b2z]. lia. }
  split. { rewrite I5. cbn [orb]. destruct l; [|reflexivity]. destruct (freed w) eqn:Ef; [|reflexivity].
           now elim (I9 eq_refl t). }
  split. { intros t' E. apply PH in E. destruct E as [[_ E] | [_ E]]; [discriminate E | apply (I6 t' E)]. }
  split; [exact FZ|].
  split. { intros t1 t2 E1 E2. apply PH in E1. apply PH in E2.
           destruct E1 as [[_ E1] | [_ E1]]; [discriminate E1|].
           destruct E2 as [[_ E2] | [_ E2]]; [discriminate E2|]. apply (I8 t1 t2 E1 E2). }
  split. { intros E t' E'. apply PH in E'. destruct E' as [[_ E'] | [N E']]; [discriminate E'|].
           apply orb_prop in E. destruct E as [E | ->]; [now elim (I9 E t')|]. apply N, (I8 t' t E' P). }
  split; [|split].
  - intros t' NP. apply I10. destruct (Nat.eq_dec t' t) as [->|N]; [rewrite P; discriminate|].
    intros E. apply NP. unfold phase_of, do_free. cbn [ph]. rewrite nth_lupd_other by exact N. exact E.
  - intros F T PF N. apply PH in PF. destruct PF as [[_ PF] | [_ PF]]; [discriminate PF|]. apply (I11 F T PF N).
  - intros E T. destruct (freed w) eqn:Ef; [apply (I12 eq_refl)|]. cbn [orb] in E. subst l.
    (* THE ARGUMENT: t computed last = true under the lock, its release has returned, it frees the object now *)
    pose proof (I6 t P) as Z0.
    assert (NPall : forall y, nonpre_ok (get (ww w) y)) by (intros y; apply I10, (no_pre w I4 Z0)).
    destruct (NPall T) as (Hm & OK).
    destruct (Nat.eq_dec T t) as [->|N]; [split; [exact D2 | split; [exact Hm | rewrite D1; reflexivity]]|].
    pose proof (I11 t T P N) as HT.
    destruct OK as [(_ & _ & c) | (Ho & Hu)]; [rewrite c in HT; discriminate HT|].
    split; [exact Ho|]. split; [exact Hm|].
    (* a member of a list of the scan / of a wake list would be a thread parked in nsync_mu_lock_slow_ or nsync_mu_wait: it owns a reference *)
    assert (NoMember : forall e, member (queue (ww w)) (winfo (ww w)) e -> False).
    { intros e He. destruct I1 as ((_ & H1 & _) & _).
      destruct (a_m _ _ _ _ _ _ _ H1 e He) as [_ Hq]. unfold winfo, info_of in Hq; cbn [i_mq] in Hq.
      destruct (NPall e) as (Hme & [(Ep & _) | (_ & Eu)]); rewrite Hme in Hq.
      - rewrite Ep in Hq. discriminate Hq.
      - rewrite (inU_not_mq _ Eu) in Hq. discriminate Hq. }
    pose proof (pc_ok_get n (ww w) T HI) as Hok. unfold pc_ok in Hok.
    destruct I1 as ((_ & H1 & _) & _ & _ & (_ & HQ)). specialize (HQ T). unfold pcq in HQ.
    destruct (t_pc (get (ww w) T)) eqn:EP; try discriminate Hu; try reflexivity; exfalso;
      try (destruct k; try discriminate Hu);
      try (destruct Hok as (Hok & _); unfold own in Hok; destruct Hok as (Hok & _); congruence).
    all: destruct Hok as (_ & lt & [(_ & Eh & _) | (Elt & _ & _)] & Hsc); [congruence|]; subst lt; rewrite EP in Hsc; cbn [scan_pc_ok] in Hsc.
    all: try (destruct Hsc as (_ & Hte & (_ & _ & Hlt & _)); specialize (Hlt Hte); discriminate Hlt).
    all: try (destruct Hsc as (_ & Hte & (_ & _ & Hlt & _) & _); specialize (Hlt Hte); discriminate Hlt).
    + (* RmLoad (KScan): the waiter under the cursor *)
      destruct (a_r2 _ _ _ _ _ _ _ H1 T SRm u) as (_ & _ & [pre Epre] & (Hne & _)); [unfold winfo, info_of; cbn [i_sk]; rewrite EP; reflexivity|].
      destruct (u_rest u) as [|e tl] eqn:Er; [now elim Hne|].
      apply (NoMember e). right. exists T. unfold ipl, irl, winfo, info_of; cbn [i_sk]. rewrite EP. cbn [sk_of].
      apply in_or_app; left. apply in_or_app; right. rewrite Epre. apply in_or_app; right. left; reflexivity.
    + (* RmCas (KScan) *)
      destruct (a_r2 _ _ _ _ _ _ _ H1 T SRm u) as (_ & _ & [pre Epre] & (Hne & _)); [unfold winfo, info_of; cbn [i_sk]; rewrite EP; reflexivity|].
      destruct (u_rest u) as [|e tl] eqn:Er; [now elim Hne|].
      apply (NoMember e). right. exists T. unfold ipl, irl, winfo, info_of; cbn [i_sk]. rewrite EP. cbn [sk_of].
      apply in_or_app; left. apply in_or_app; right. rewrite Epre. apply in_or_app; right. left; reflexivity.
    + (* UsRelLoad, released early: a waiter on the wake list still owns a reference *)
      destruct Hsc as (_ & _ & El). cbn [pcqa] in HQ. destruct HQ as ((_ & Hw) & _). specialize (Hw El).
      destruct (wake u) as [|e tl] eqn:Ew; [now elim Hw|].
      apply (NoMember e). right. exists T. unfold ipl, iwk, winfo, info_of; cbn [i_sk i_wk]. rewrite EP. cbn [sk_of wk_of].
      rewrite Ew. left; reflexivity.
    + (* UsRelCas *)
      destruct Hsc as (_ & _ & El). cbn [pcqa] in HQ. destruct HQ as ((_ & Hw) & _). specialize (Hw El).
      destruct (wake u) as [|e tl] eqn:Ew; [now elim Hw|].
      apply (NoMember e). right. exists T. unfold ipl, iwk, winfo, info_of; cbn [i_sk i_wk]. rewrite EP. cbn [sk_of wk_of].
      rewrite Ew. left; reflexivity.
Qed.

Lemma rwstep_rinv w a : RInv w -> RInv (rwstep w a).
Proof.
  intros H. destruct a as [t c|dt| |p]; cbn [rwstep]; try (apply rinv_env; [intros ? ? E; discriminate E | exact H]).
  unfold rwstep_thr. cbv zeta.
  destruct (phase_of w t) as [|l|] eqn:P.
  - destruct (dec_ready (get (ww w) t)) eqn:D; [apply rinv_dec; assumption|].
    destruct (skip_ready (get (ww w) t)) as [rest|] eqn:S; [eapply rinv_ops; eassumption | apply rinv_mu, H].
  - destruct (free_ready (get (ww w) t)) eqn:D; [apply rinv_free; assumption | apply rinv_mu, H].
  - apply rinv_mu, H.
Qed.

Lemma rwrun_rinv sched : forall w, RInv w -> RInv (rwrun w sched).
Proof.
  unfold rwrun. induction sched as [|a rest IH]; intros w H; cbn [fold_left]; [exact H|].
  apply IH, rwstep_rinv, H.
Qed.

End Wrapper.

(* ================================================================== *)
(* Part 5: reachable worlds                                            *)
(* ================================================================== *)
Lemma nth_map_const {A B} (c d : B) (l : list A) t : (t < length l)%nat -> nth t (map (fun _ => c) l) d = c.
Proof. revert t. induction l as [|a l IH]; intros [|t] H; cbn in *; try lia; [reflexivity | apply IH; lia]. Qed.

Lemma rwinit_phase progs cl c0 t :
  phase_of (rwinit progs cl c0) t = Pre \/ (phase_of (rwinit progs cl c0) t = Done /\ (length progs <= t)%nat).
Proof.
  unfold phase_of, rwinit. cbn [ph].
  destruct (Nat.lt_ge_cases t (length progs)) as [L|G].
  - left. apply nth_map_const, L.
  - right. split; [apply nth_overflow; rewrite map_length; exact G | exact G].
Qed.

Lemma rwinit_rinv progs cl c0 : RInv (length progs) (rwinit progs cl c0).
Proof.
  unfold RInv. change (ww (rwinit progs cl c0)) with (init progs cl c0). change (freed (rwinit progs cl c0)) with false.
  change (bad (rwinit progs cl c0)) with false. change (refs (rwinit progs cl c0)) with (Z.of_nat (length progs)).
  assert (forall t l, phase_of (rwinit progs cl c0) t <> Dec l) as ND.
  { intros t l E. destruct (rwinit_phase progs cl c0 t) as [E' | [E' _]]; rewrite E' in E; discriminate E. }
  split; [apply WI_init|].
  split; [unfold rwinit; cbn [ph]; apply map_length|].
  split; [unfold rwinit; cbn [ph]; symmetry; apply cntPre_init|].
  split; [reflexivity|].
  split; [intros t E; now elim (ND t true)|]. split; [discriminate|].
  split; [intros t1 t2 E; now elim (ND t1 true)|]. split; [discriminate|].
  split; [|split; [|discriminate]].
  - intros t NP. destruct (rwinit_phase progs cl c0 t) as [E | [_ G]]; [contradiction|].
    assert (get (init progs cl c0) t = dflt_t) as E by (apply get_oob'; unfold init; cbn [thr]; rewrite map_length; exact G).
    rewrite E. split; [reflexivity | right; split; reflexivity].
  - intros F T E. now elim (ND F true).
Qed.

Lemma reachable_rinv progs cl c0 sched : Z.of_nat (length progs) < 2 ^ 24 - 1 ->
  RInv (length progs) (rwrun (rwinit progs cl c0) sched).
Proof. intros H. apply (rwrun_rinv (length progs) H). apply rwinit_rinv. Qed.

(* the theorem of the property *)
Lemma no_touch_after_free_w : forall progs cl c0 sched, Z.of_nat (length progs) < 2 ^ 24 - 1 ->
  bad (rwrun (rwinit progs cl c0) sched) = false.
Proof. intros progs cl c0 sched H. apply (reachable_rinv progs cl c0 sched H). Qed.

(* ... and what lies behind it: once the object is freed nobody owns a reference, mu->waiters is empty, and every thread is
   between calls for good, crashed, or in the wake-up tail of nsync_mu_unlock_slow_ (so nobody acquires, releases or waits) *)
Lemma tail_after_free_w : forall progs cl c0 sched, Z.of_nat (length progs) < 2 ^ 24 - 1 ->
  let w := rwrun (rwinit progs cl c0) sched in
  freed w = true ->
  refs w = 0 /\ queue (ww w) = [] /\
  forall t, phase_of w t <> Pre /\ t_ops (get (ww w) t) = [] /\ mw (get (ww w) t) = None /\
            match t_pc (get (ww w) t) with
            | Idle | Crash _ | UsWakeStore _ _ | UsWakeV _ _ _ => True
            | _ => False
            end.
Proof.
  intros progs cl c0 sched H w Ef.
  destruct (reachable_rinv progs cl c0 sched H) as (I1 & _ & I4 & _ & _ & I7 & _ & _ & I10 & _ & I12).
  fold w in I1, I4, I7, I10, I12.
  specialize (I7 Ef). split; [exact I7|]. split.
  - destruct (queue (ww w)) as [|e q] eqn:Eq; [reflexivity | exfalso].
    destruct I1 as ((_ & H1 & _) & _).
    destruct (a_m _ _ _ _ _ _ _ H1 e) as [_ Hq]; [left; rewrite Eq; left; reflexivity|].
    unfold winfo, info_of in Hq; cbn [i_mq] in Hq.
    destruct (I12 Ef e) as (_ & Hm & Ht). rewrite Hm in Hq.
    destruct (t_pc (get (ww w) e)); try discriminate Ht; discriminate Hq.
  - intros t. split; [apply (no_pre (length progs) w I4 I7)|]. destruct (I12 Ef t) as (Ho & Hm & Hp). split; [exact Ho|]. split; [exact Hm|].
    destruct (t_pc (get (ww w) t)); try discriminate Hp; exact I.
Qed.

(* the free: by a thread that computed last = true, when its release has returned; it changes nothing of the mutex *)
Lemma free_step_w : forall w t c, freed w = false -> freed (rwstep_thr w t c) = true ->
  phase_of w t = Dec true /\ t_pc (get (ww w) t) = Idle /\ t_ops (get (ww w) t) = [] /\ ww (rwstep_thr w t c) = ww w.
Proof.
  intros w t c Ef. unfold rwstep_thr. cbv zeta.
  destruct (phase_of w t) as [|l|] eqn:P.
  - destruct (dec_ready (get (ww w) t)); [cbn [do_dec freed]; congruence|].
    destruct (skip_ready (get (ww w) t)); cbn [do_ops do_mu freed]; congruence.
  - destruct (free_ready (get (ww w) t)) eqn:D; [|cbn [do_mu freed]; congruence].
    cbn [do_free freed ww]. rewrite Ef. cbn [orb]. intros ->.
    apply andb_prop in D. destruct D as [D1 D2]. apply is_idle_true in D1. apply no_ops_true in D2. auto.
  - cbn [do_mu freed]. congruence.
Qed.

(* ----- the invariant behind it, over the mutex model itself ----- *)
Lemma WI_reachable progs cl c0 sched : Z.of_nat (length progs) < 2 ^ 24 - 1 -> WI (length progs) (run (init progs cl c0) sched).
Proof.
  intros H. unfold run. generalize (init progs cl c0) (WI_init progs cl c0).
  induction sched as [|a rest IH]; intros w Hw; cbn [fold_left]; [exact Hw|]. apply IH, (WI_step _ H), Hw.
Qed.

(* "the stale bits a timed-out nsync_mu_wait leaves come with MU_CONDITION": MU_WAITING over an empty queue with the spinlock
   free implies MU_CONDITION *)
Lemma stale_waiting_has_condition progs cl c0 sched : Z.of_nat (length progs) < 2 ^ 24 - 1 ->
  let w := run (init progs cl c0) sched in
  has (word w) MU_SPINLOCK = false -> has (word w) MU_WAITING = true -> queue w = [] -> has (word w) MU_CONDITION = true.
Proof.
  intros H w Hs Hw Hq. destruct (WI_reachable progs cl c0 sched H) as (_ & _ & _ & (K & _)). fold w in K.
  destruct (has (word w) MU_CONDITION) eqn:Hc; [reflexivity | exfalso].
  apply K; [| rewrite <- has_tb2; exact Hw | rewrite <- tb4_hC; exact Hc | exact Hq].
  change MU_SPINLOCK with (2 ^ 1) in Hs. rewrite has_tb in Hs by lia.
  pose proof (b1_range (word w)). destruct (Z.eq_dec (b1 (word w)) 1) as [E|E]; [| lia].
  apply b1_tb1 in E. congruence.
Qed.

(* the lists of waiters a thread inside nsync_mu_unlock_slow_ works on: waiters ++ new_waiters ++ wake during the scan, wake at
   the last load / CAS *)
Definition lists_of (p : pc) : list nat := ipl (info_of p None).

(* "MU_CONDITION makes the release late": a thread between the spinlock CAS of nsync_mu_unlock_slow_ and its last CAS on the
   word either still OWNS the write lock (it converted itself to a writer to test conditions, or was one: late release) --
   then nobody else can acquire, let alone decrement and free --, or it released EARLY, and then a waiter is on its lists:
   parked (waiting flag set) inside nsync_mu_lock_slow_ or nsync_mu_wait_with_deadline, hence not yet past its own decrement *)
Lemma release_window progs cl c0 sched t : Z.of_nat (length progs) < 2 ^ 24 - 1 ->
  let w := run (init progs cl c0) sched in
  scl (t_pc (get w t)) = true ->
  held (get w t) = Some W \/
  (held (get w t) = None /\
   exists e, In e (lists_of (t_pc (get w t))) /\ waiting w e = true /\ mq_of (t_pc (get w e)) (mw (get w e)) = true).
Proof.
  intros H w Hs. destruct (WI_reachable progs cl c0 sched H) as (((HI & _) & H1 & _) & _ & _ & (_ & HQ)). fold w in HI, H1, HQ.
  pose proof (pc_ok_get _ w t HI) as Hok. unfold pc_ok in Hok. specialize (HQ t). unfold pcq in HQ.
  assert (M : forall e, In e (lists_of (t_pc (get w t))) -> waiting w e = true /\ mq_of (t_pc (get w e)) (mw (get w e)) = true).
  { intros e He. apply (a_m _ _ _ _ _ _ _ H1 e). right. exists t. exact He. }
  destruct (t_pc (get w t)) eqn:EP; try discriminate Hs; try (destruct k; try discriminate Hs).
  all: destruct Hok as (_ & lt & [(_ & Eh & _) | (Elt & Eh & _)] & Hsc); [left; exact Eh | right; split; [exact Eh|]];
    subst lt; rewrite EP in Hsc; cbn [scan_pc_ok] in Hsc.
  all: try (destruct Hsc as (_ & Hte & (_ & _ & Hlt & _)); specialize (Hlt Hte); discriminate Hlt).
  all: try (destruct Hsc as (_ & Hte & (_ & _ & Hlt & _) & _); specialize (Hlt Hte); discriminate Hlt).
  - destruct (a_r2 _ _ _ _ _ _ _ H1 t SRm u) as (_ & _ & [pre Epre] & (Hne & _)); [unfold winfo, info_of; cbn [i_sk]; rewrite EP; reflexivity|].
    destruct (u_rest u) as [|e tl] eqn:Er; [now elim Hne|].
    assert (He : In e (lists_of (RmLoad (KScan m u)))).
    { unfold lists_of, ipl, irl, info_of; cbn [i_sk sk_of]. apply in_or_app; left. apply in_or_app; right. rewrite Epre. apply in_or_app; right. left; reflexivity. }
    exists e. split; [exact He | apply M, He].
  - destruct (a_r2 _ _ _ _ _ _ _ H1 t SRm u) as (_ & _ & [pre Epre] & (Hne & _)); [unfold winfo, info_of; cbn [i_sk]; rewrite EP; reflexivity|].
    destruct (u_rest u) as [|e tl] eqn:Er; [now elim Hne|].
    assert (He : In e (lists_of (RmCas (KScan m u) oldv))).
    { unfold lists_of, ipl, irl, info_of; cbn [i_sk sk_of]. apply in_or_app; left. apply in_or_app; right. rewrite Epre. apply in_or_app; right. left; reflexivity. }
    exists e. split; [exact He | apply M, He].
  - destruct Hsc as (_ & _ & El). cbn [pcqa] in HQ. destruct HQ as ((_ & Hw) & _). specialize (Hw El).
    destruct (wake u) as [|e tl] eqn:Ew; [now elim Hw|].
    assert (He : In e (lists_of (UsRelLoad m u first))) by (unfold lists_of, ipl, iwk, info_of; cbn [i_sk i_wk sk_of wk_of irl app]; rewrite Ew; left; reflexivity).
    exists e. split; [exact He | apply M, He].
  - destruct Hsc as (_ & _ & El). cbn [pcqa] in HQ. destruct HQ as ((_ & Hw) & _). specialize (Hw El).
    destruct (wake u) as [|e tl] eqn:Ew; [now elim Hw|].
    assert (He : In e (lists_of (UsRelCas m u old))) by (unfold lists_of, ipl, iwk, info_of; cbn [i_sk i_wk sk_of wk_of irl app]; rewrite Ew; left; reflexivity).
    exists e. split; [exact He | apply M, He].
Qed.

(* ----- non-vacuity ----- *)
Definition T (t : nat) : actor := Thr t CNormal.
(* (1) the stale bits: thread 0 calls nsync_mu_wait_with_deadline INSIDE its last critical section; the wait times out, the thread
   removes itself from mu->waiters and returns ETIMEDOUT with the write lock: MU_WAITING | MU_CONDITION over an empty queue.  It
   decrements (2 -> 1) and unlocks: nsync_mu_unlock_slow_ meets MU_CONDITION, KEEPS the write lock through the scan of the empty
   queue (late_release_mu = MU_WLOCK, empty wake list) while thread 1 spins in nsync_mu_lock_slow_; its last CAS clears the stale
   bits; thread 1 gets in, drops the last reference, unlocks, frees *)
Definition stale_progs : list (list op) :=
  [[OLock W; OMuWait (Some (1%nat, 0%nat)) false (Some 1) false; OUnlock]; [OLock W; OUnlock]].
Definition stale_s1 : list actor := repeat (T 0) 10 ++ [Tick 1; Thr 0 CTimeout] ++ repeat (T 0) 12.
Definition stale_s2 : list actor := [T 0] ++ repeat (T 0) 4 ++ repeat (T 1) 3.
Definition stale_s3 : list actor := repeat (T 0) 3 ++ repeat (T 1) 12.

Lemma stale_example :
  let w1 := rwrun (rwinit stale_progs (fun x => x) 0) stale_s1 in
  let w2 := rwrun w1 stale_s2 in
  let w3 := rwrun w2 stale_s3 in
  (word (ww w1) = 21 /\ queue (ww w1) = [] /\ last_ret (get (ww w1) 0%nat) = Some ETIMEDOUT /\
   map (fun s => (t_pc s, t_ops s, held s)) (thr (ww w1)) = [(Idle, [OUnlock], Some W); (Idle, [OLock W; OUnlock], None)] /\
   ph w1 = [Pre; Pre] /\ refs w1 = 2) /\
  (ph w2 = [Dec false; Pre] /\ refs w2 = 1 /\ held (get (ww w2) 0%nat) = Some W /\ conv (get (ww w2) 0%nat) = true /\
   (exists u, t_pc (get (ww w2) 0%nat) = UsRelLoad W u true /\ late u = MU_WLOCK /\ wake u = []) /\
   (exists l, t_pc (get (ww w2) 1%nat) = LsLoad W l) /\ held (get (ww w2) 1%nat) = None) /\
  (freed w3 = true /\ bad w3 = false /\ refs w3 = 0 /\ ph w3 = [Done; Done] /\ word (ww w3) = 0 /\ queue (ww w3) = [] /\
   map (fun s => (t_pc s, t_ops s, held s)) (thr (ww w3)) = [(Idle, [], None); (Idle, [], None)]).
Proof.
  cbv zeta. split; [|split].
  - vm_compute. repeat split; reflexivity.
  - split; [vm_compute; reflexivity|]. split; [vm_compute; reflexivity|]. split; [vm_compute; reflexivity|]. split; [vm_compute; reflexivity|].
    split; [eexists; split; [vm_compute; reflexivity | split; vm_compute; reflexivity]|].
    split; [eexists; vm_compute; reflexivity | vm_compute; reflexivity].
  - vm_compute. repeat split; reflexivity.
Qed.

(* (2) the free happens while another thread is in its post-last-CAS tail AFTER A CONDITIONAL SCAN: thread 1 waits for condition
   f0(a0) with a deadline; thread 0 makes it true, decrements (3 -> 2) and unlocks: nsync_mu_unlock_slow_ converts nothing (it is
   the writer), releases and re-takes the spinlock around the evaluation of thread 1's condition (true), removes it, makes its
   last CAS (late release of the write lock), clears thread 1's waiting flag and is stopped before the V.  Thread 1's timed P
   expires, it sees waiting == 0, re-acquires through nsync_mu_lock_slow_, finds its condition true, returns 0, decrements
   (2 -> 1), unlocks; thread 2 locks, decrements (1 -> 0), unlocks, FREES -- thread 0 then posts thread 1's semaphore *)
Definition tail_progs : list (list op) :=
  [[OLock W; OSetCond 0 0 true; OUnlock]; [OLock W; OMuWait (Some (0%nat, 0%nat)) false (Some 5) false; OUnlock]; [OLock W; OUnlock]].
Definition tail_s1 : list actor := repeat (T 1) 11 ++ repeat (T 0) 17.
Definition tail_s2 : list actor := repeat (T 0) 2 ++ [Tick 5; Thr 1 CTimeout] ++ repeat (T 1) 10 ++ repeat (T 2) 4.
Definition tail_s3 : list actor := repeat (T 0) 2.

Lemma tail_example :
  let w1 := rwrun (rwinit tail_progs (fun x => x) 0) tail_s1 in
  let w2 := rwrun w1 tail_s2 in
  let w3 := rwrun w2 tail_s3 in
  (ph w1 = [Dec false; Pre; Pre] /\ refs w1 = 2 /\ held (get (ww w1) 0%nat) = Some W /\ conv (get (ww w1) 0%nat) = true /\
   (exists u old, t_pc (get (ww w1) 0%nat) = UsRelCas W u old /\ late u = MU_WLOCK /\ wake u = [1%nat]) /\
   t_pc (get (ww w1) 1%nat) = MwSemP /\ length (evlog (ww w1)) = 2%nat) /\
  (freed w2 = true /\ bad w2 = false /\ refs w2 = 0 /\ ph w2 = [Dec false; Done; Done] /\ word (ww w2) = 0 /\
   (exists u, t_pc (get (ww w2) 0%nat) = UsWakeV W 1%nat u) /\
   step_touches (ww w2) 0%nat = false /\ snd (step_thr (ww w2) 0%nat CNormal) = EvV 1%nat /\
   last_ret (get (ww w2) 1%nat) = Some 0) /\
  (bad w3 = false /\ ph w3 = [Done; Done; Done] /\ sem (ww w3) 1%nat = 1 /\
   map (fun s => (t_pc s, t_ops s, held s)) (thr (ww w3)) = [(Idle, [], None); (Idle, [], None); (Idle, [], None)]).
Proof.
  cbv zeta. split; [|split].
  - split; [vm_compute; reflexivity|]. split; [vm_compute; reflexivity|]. split; [vm_compute; reflexivity|]. split; [vm_compute; reflexivity|].
    split; [eexists; eexists; split; [vm_compute; reflexivity | split; vm_compute; reflexivity]|].
    split; vm_compute; reflexivity.
  - split; [vm_compute; reflexivity|]. split; [vm_compute; reflexivity|]. split; [vm_compute; reflexivity|]. split; [vm_compute; reflexivity|].
    split; [vm_compute; reflexivity|]. split; [eexists; vm_compute; reflexivity|].
    split; [vm_compute; reflexivity|]. split; vm_compute; reflexivity.
  - vm_compute. repeat split; reflexivity.
Qed.

(* (3) an early release beside stale history: the same object is used by a plain locker queued in nsync_mu_lock_slow_ while the
   releaser's word has MU_CONDITION clear: the release is EARLY and the waiter on the wake list still owns its reference *)
Definition early_progs : list (list op) := pattern [[]; []; []].
Definition early_sched : list actor := [T 0] ++ repeat (T 1) 7 ++ repeat (T 0) 7.
Lemma early_example :
  let w := rwrun (rwinit early_progs (fun x => x) 0) early_sched in
  (exists u, t_pc (get (ww w) 0%nat) = UsRelLoad W u true /\ late u = 0 /\ wake u = [1%nat]) /\ held (get (ww w) 0%nat) = None /\
  has (word (ww w)) MU_WLOCK = false /\ ph w = [Dec false; Pre; Pre] /\ refs w = 2 /\ freed w = false.
Proof.
  cbv zeta. split; [eexists; split; [vm_compute; reflexivity | split; vm_compute; reflexivity]|].
  split; [vm_compute; reflexivity|]. split; [vm_compute; reflexivity|]. split; [vm_compute; reflexivity|]. split; vm_compute; reflexivity.
Qed.
