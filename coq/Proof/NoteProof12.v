(* NoteProof12: C09, InvS holds in every reachable world of a contract-abiding client; no call of note.c gets stuck. *)
From Coq Require Import String.
From NsyncBase Require Import CSem.
From NsyncGen Require Import Consts Sites.
From NsyncModel Require Import NoteModel.
From NsyncProof Require Import NoteProof NoteProof2 NoteProof3 NoteProof4 NoteProof7 NoteProof8 NoteProof9 NoteProof10 NoteProof11.
From Coq Require Import List ZArith Bool Lia Arith.
Import ListNotations.
Local Open Scope Z_scope.

Definition InvSC (w : world) : Prop := broken (gh w) = false -> InvS w.
Lemma InvSC_exec w a : InvC w -> InvSC w -> InvSC (exec w a).
Proof.
  intros C S. destruct a as [t c|d]; cbn [exec].
  - rewrite step_step1. intros B.
    destruct (step1_ghost (begin_call w t) t c) as (Eb & _). rewrite Eb in B.
    destruct (begin_broken w t B) as [B0 _]. destruct (S B0) as [S1 K].
    pose proof (InvC_begin w t C) as C1.
    assert (InvS1 (begin_call w t)) as S1' by (apply InvS1_begin; auto).
    assert (InvK (begin_call w t)) as K' by (apply InvK_begin; auto).
    split; [apply InvS1_step1; auto|apply InvK_step1; auto].
  - intros B. destruct (S B) as [S1 K]. split; [apply InvS1_tick; auto|apply InvK_tick; auto].
Qed.
Lemma InvSC_run sched : forall w, InvC w -> InvSC w -> InvSC (run w sched).
Proof. induction sched as [|a r IH]; intros w C S; cbn; auto. apply IH; [apply InvC_exec, C|apply InvSC_exec; auto]. Qed.
Theorem InvS_reachable w : reachable w -> broken (gh w) = false -> InvS w.
Proof.
  intros (c0 & progs & sched & H0 & ->). apply InvSC_run; [apply InvC_init, H0|].
  intros _. split; [apply InvS1_init|apply InvK_init].
Qed.

(* ================= C09: no call gets stuck ================= *)
Theorem no_stuck_full w : reachable w -> broken (gh w) = false ->
  (exists t, unfinished w t /\ ~ (exists n dl d rest, stk w t = AWait n dl (S1 d) :: rest)) ->
  exists t c, snd (step w t c) <> EvBlocked.
Proof. intros R B. apply no_stuck_cond; auto using InvC_reachable, InvS_reachable. Qed.

(* the two accounting facts behind it, in terms of the model only *)
Theorem disc_accounted w x : reachable w -> broken (gh w) = false -> (x < nnext w)%nat -> (0 < disc (nt w x))%nat ->
  exists t, (tcount w t x >= 1)%nat.
Proof. intros R B. apply (s_exact _ (proj1 (InvS_reachable w R B))). Qed.
Theorem children_accounted w t n rest : reachable w -> broken (gh w) = false ->
  (forall par, stk w t = FC n par C8 :: rest -> forall c, In c (children (nt w n)) -> (0 < disc (nt w c))%nat) /\
  (forall par seen, stk w t = FF n (F10 seen) par :: rest -> adoptions (nt w n) = seen ->
                    forall c, In c (children (nt w n)) -> (0 < disc (nt w c))%nat).
Proof.
  intros R B. destruct (InvS_reachable w R B) as [_ K]. split.
  - intros par Hst c Hc. pose proof (K t (FC n par C8) ltac:(rewrite Hst; left; reflexivity)) as Kf. cbn in Kf.
    destruct (Kf c Hc) as [Hd|[]]. exact Hd.
  - intros par seen Hst Ha c Hc. pose proof (K t (FF n (F10 seen) par) ltac:(rewrite Hst; left; reflexivity)) as Kf. cbn in Kf.
    destruct Kf as [_ [Kf|Kf]]; [|lia]. destruct (Kf c Hc) as [Hd|[]]. exact Hd.
Qed.

(* the two steps of the ranking argument, for reachable worlds *)
Theorem lock_holder_rank w : reachable w -> broken (gh w) = false ->
  forall y h, lock (nt w y) = Some h ->
  progress w \/ exists f rest v, stk w h = f :: rest /\ wrank f = Some v /\ (2 * y + 2 < v)%nat /\ (v < rank_bound w)%nat.
Proof. intros R B. apply holder_next; auto using InvC_reachable. Qed.
Theorem disc_holder_rank w : reachable w -> broken (gh w) = false ->
  forall x r, (tcount w r x >= 1)%nat ->
  progress w \/ exists f rest v, stk w r = f :: rest /\ wrank f = Some v /\ (1 <= v)%nat /\ (v < rank_bound w)%nat /\
                                 forall p, parent (nt w x) = Some p -> (2 * p + 1 < v)%nat.
Proof. intros R B. apply dholder_next; auto using InvC_reachable. Qed.

Print Assumptions no_stuck_full.
