(* MuDbgProof2: no lost wake-up / no deadlock for the combined system (lockers + debuggers).

   Part A  H9Inv = MuProof3.HInv without its last conjunct ("MU_SPINLOCK set -> a LOCKER thread owns it", false while a
           debugger owns the spinlock), and its preservation by MuModel.step.  The text of Part A is MuProof3's Part C/D
           with that conjunct replaced by True (lemma names suffixed 9); everything that does not mention HInv is
           imported from MuProof3.  H9Inv is preserved by locker steps from ANY base world satisfying Inv, QInv, H9Inv,
           in particular from worlds whose spinlock is held by a debugger.
   Part B  H9Inv is preserved by debugger steps (they change bit 1 of the word only); DInv = DInv1 + H9Inv
   Part C  quiescent combined worlds: the analogue of MuProof3.no_lost_handoff / last_holder_must_scan
   Part D  the owner of MU_SPINLOCK (locker or debugger) is enabled and, run alone, releases within a bounded number of
           its own steps (spin_owner_live) *)
From NsyncBase Require Import CSem.
From NsyncGen Require Import Consts Sites.
From NsyncModel Require Import MuModel MuSpec MuDbgModel.
From NsyncProof Require Import WordView MuProof MuProof2 MuProof3 MuDbgProof.
From Coq Require Import List ZArith Bool Lia PeanoNat Permutation.
Import ListNotations.
Local Open Scope Z_scope.

Ltac Zify.zify_post_hook ::= Z.div_mod_to_equations.

(* ================================================================== *)
(* Part A: the hand-off invariant without the locker-owns-spinlock conjunct *)
(* ================================================================== *)

Definition H9Inv (w : world) : Prop :=
  Z.testbit (word w) 7 = false /\
  (Z.testbit (word w) 5 = true -> Z.testbit (word w) 2 = true) /\
  (Z.testbit (word w) 6 = true -> exists T, lw_pc (P w T) = true) /\
  (Z.testbit (word w) 3 = true -> exists a, agent w a) /\
  (Z.testbit (word w) 2 = true -> free (word w) -> exists a, agent w a) /\
  (forall x, isq (kof w x) = true -> waiting w x = true ->
             In x (queue w) \/ exists t', In x (wl (kof w t'))) /\
  (forall x m l, P w x = LsSemP m l -> waiting w x = false ->
                 1 <= sem w x \/ exists t' m' u, P w t' = UsWakeV m' x u) /\
  (forall x, 0 <= sem w x) /\
  (forall x, pcB (P w x)) /\
  True.   (* MuProof3.HInv has "MU_SPINLOCK set -> some LOCKER owns it" here; in the combined system the owner may be a
             debugger: that conjunct lives in MuDbgProof.DOwn *)


(* the general step: queue, waiting flags and semaphores unchanged *)
Lemma HG9 w w' t s s' :
  H9Inv w -> (t < length (thr w))%nat -> get w t = s ->
  thr w' = lupd (thr w) t s' -> queue w' = queue w -> waiting w' = waiting w -> sem w' = sem w ->
  Z.testbit (word w') 7 = false ->
  (Z.testbit (word w') 5 = true -> Z.testbit (word w') 2 = true) ->
  (Z.testbit (word w') 6 = true ->
     lw_pc (t_pc s') = true \/ (lw_pc (t_pc s) = false /\ exists T, lw_pc (P w T) = true)) ->
  (Z.testbit (word w') 3 = true ->
     agent_pc (t_pc s') (waiting w t) = true \/ (agent_pc (t_pc s) (waiting w t) = false /\ exists a, agent w a)) ->
  (Z.testbit (word w') 2 = true -> free (word w') ->
     agent_pc (t_pc s') (waiting w t) = true \/ (agent_pc (t_pc s) (waiting w t) = false /\ exists a, agent w a)) ->
  wl (role_of (t_pc s')) = wl (role_of (t_pc s)) ->
  (isq (role_of (t_pc s')) = true -> isq (role_of (t_pc s)) = true) ->
  (forall m l, t_pc s' = LsSemP m l -> waiting w t = true \/ exists m0 l0, t_pc s = LsSemP m0 l0) ->
  (forall m x u, t_pc s <> UsWakeV m x u) ->
  pcB (t_pc s') ->
  (Z.testbit (word w') 1 = true ->
     own (role_of (t_pc s')) = true \/ (own (role_of (t_pc s)) = false /\ Z.testbit (word w) 1 = true)) ->
  H9Inv w'.
Proof.
  intros (H1 & H2 & H3 & H4 & H5 & H6 & H7 & H8 & H9 & H10) Ht Hs E Eq Ew Es C1 C2 C3 C4 C5 C6 C6' C7 C7' C9 C10.
  destruct (upd_P w w' t s' Ht E) as [Pt Po].
  assert (P w t = t_pc s) as Ps by (unfold P; now rewrite Hs).
  assert (agent_pc (t_pc s') (waiting w t) = true \/
          (agent_pc (t_pc s) (waiting w t) = false /\ exists a, agent w a) -> exists a, agent w' a) as AG.
  { intros [L | [Hf [a Ha]]].
    - exists t. unfold agent. rewrite Pt, Ew. exact L.
    - exists a. unfold agent in *. destruct (Nat.eq_dec a t) as [->|N].
      + rewrite Ps in Ha. congruence.
      + rewrite Ew, Po by exact N. exact Ha. }
  split; [exact C1|]. split; [exact C2|]. split; [|split; [|split; [|split; [|split; [|split]]]]].
  - intros B. destruct (C3 B) as [L | [Hf [T HT]]].
    + exists t. now rewrite Pt.
    + exists T. rewrite Po; [exact HT|]. intros ->. rewrite Ps in HT. congruence.
  - intros B. apply AG, C4, B.
  - intros B F. apply AG, C5; assumption.
  - intros x Ix Wx. rewrite Eq. rewrite Ew in Wx.
    assert (forall y, wl (kof w' y) = wl (kof w y)) as WL.
    { intros y. rewrite !kofP. destruct (Nat.eq_dec y t) as [->|N].
      - rewrite Pt, Ps. exact C6.
      - rewrite Po by exact N. reflexivity. }
    assert (isq (kof w x) = true) as Ix'.
    { rewrite kofP in *. destruct (Nat.eq_dec x t) as [->|N].
      - rewrite Pt in Ix. rewrite Ps. exact (C6' Ix).
      - rewrite Po in Ix by exact N. exact Ix. }
    destruct (H6 x Ix' Wx) as [Hq | [t' Ht']]; [left; exact Hq | right; exists t'; rewrite WL; exact Ht'].
  - intros x m l Px Wx. rewrite Es. rewrite Ew in Wx.
    assert (exists m0 l0, P w x = LsSemP m0 l0) as (m0 & l0 & Px0).
    { destruct (Nat.eq_dec x t) as [->|N].
      - rewrite Pt in Px. destruct (C7 m l Px) as [Wt | (m0 & l0 & E0)]; [congruence|].
        exists m0, l0. now rewrite Ps.
      - exists m, l. now rewrite <- (Po x N). }
    destruct (H7 x m0 l0 Px0 Wx) as [S | (t' & m' & u & Pt')]; [left; exact S | right].
    exists t', m', u. rewrite Po; [exact Pt'|]. intros ->. rewrite Ps in Pt'. exact (C7' _ _ _ Pt').
  - intros x. rewrite Es. apply H8.
  - split.
    + intros x. destruct (Nat.eq_dec x t) as [->|N]; [rewrite Pt; exact C9 | rewrite Po by exact N; apply H9].
    + exact I.
Qed.

(* a step that does not write the word *)
Lemma HG9_local w w' t s s' :
  H9Inv w -> (t < length (thr w))%nat -> get w t = s ->
  thr w' = lupd (thr w) t s' -> word w' = word w -> queue w' = queue w -> waiting w' = waiting w -> sem w' = sem w ->
  (agent_pc (t_pc s) (waiting w t) = true -> agent_pc (t_pc s') (waiting w t) = true) ->
  (lw_pc (t_pc s) = true -> lw_pc (t_pc s') = true) ->
  wl (role_of (t_pc s')) = wl (role_of (t_pc s)) ->
  (isq (role_of (t_pc s')) = true -> isq (role_of (t_pc s)) = true) ->
  (forall m l, t_pc s' = LsSemP m l -> waiting w t = true \/ exists m0 l0, t_pc s = LsSemP m0 l0) ->
  (forall m x u, t_pc s <> UsWakeV m x u) ->
  pcB (t_pc s') -> own (role_of (t_pc s')) = own (role_of (t_pc s)) -> H9Inv w'.
Proof.
  intros HH Ht Hs E Ex Eq Ew Es CA CL C6 C6' C7 C7' C9 CO.
  pose proof HH as (H1 & H2 & H3 & H4 & H5 & _).
  apply (HG9 w w' t s s'); try assumption; rewrite ?Ex; try assumption.
  - intros B. destruct (H3 B) as [T HT]. destruct (lw_pc (t_pc s)) eqn:L; [left; auto | right; eauto].
  - intros B. destruct (H4 B) as [a Ha]. destruct (agent_pc (t_pc s) (waiting w t)) eqn:L; [left; auto | right; eauto].
  - intros B F. destruct (H5 B F) as [a Ha].
    destruct (agent_pc (t_pc s) (waiting w t)) eqn:L; [left; auto | right; eauto].
  - intros B. destruct (own (role_of (t_pc s))) eqn:O; [left; congruence | right; auto].
Qed.

(* the enqueuer puts itself on the queue and sets its waiting flag *)
Lemma H9_S2 w w' t s s' m l :
  H9Inv w -> (t < length (thr w))%nat -> get w t = s ->
  thr w' = lupd (thr w) t s' -> word w' = word w ->
  (forall x, In x (queue w) -> In x (queue w')) -> In t (queue w') ->
  waiting w' = fupd (waiting w) t true -> sem w' = sem w ->
  t_pc s = LsStoreWaiting m l -> t_pc s' = LsRelLoad m l -> H9Inv w'.
Proof.
  intros (H1 & H2 & H3 & H4 & H5 & H6 & H7 & H8 & H9 & H10) Ht Hs E Ex Eq It Ew Es Ep Ep'.
  destruct (upd_P w w' t s' Ht E) as [Pt Po].
  assert (P w t = t_pc s) as Ps by (unfold P; now rewrite Hs).
  assert ((exists a, agent w a) -> exists a, agent w' a) as AG.
  { intros [a Ha]. exists a. unfold agent in *. destruct (Nat.eq_dec a t) as [->|N].
    - rewrite Ps, Ep in Ha. discriminate Ha.
    - rewrite Ew, fupd_other, Po by exact N. exact Ha. }
  unfold H9Inv. rewrite Ex. split; [exact H1|]. split; [exact H2|]. split; [|split; [|split; [|split; [|split; [|split]]]]].
  - intros B. destruct (H3 B) as [T HT]. destruct (Nat.eq_dec T t) as [->|N].
    + exists t. rewrite Pt, Ep'. rewrite Ps, Ep in HT. exact HT.
    + exists T. now rewrite Po.
  - intros B. auto.
  - intros B F. auto.
  - intros x Ix Wx. destruct (Nat.eq_dec x t) as [->|N]; [left; exact It|].
    rewrite Ew, fupd_other in Wx by exact N. rewrite kofP, Po in Ix by exact N.
    destruct (H6 x Ix Wx) as [Hq | [t' Ht']]; [left; auto | right].
    exists t'. rewrite kofP in *. destruct (Nat.eq_dec t' t) as [->|N'].
    + rewrite Ps, Ep in Ht'. destruct Ht'.
    + now rewrite Po.
  - intros x m0 l0 Px Wx. rewrite Es. destruct (Nat.eq_dec x t) as [->|N].
    { rewrite Pt, Ep' in Px. discriminate Px. }
    rewrite Ew, fupd_other in Wx by exact N. rewrite Po in Px by exact N.
    destruct (H7 x m0 l0 Px Wx) as [S | (t' & m' & u & Pt')]; [left; exact S | right].
    exists t', m', u. rewrite Po; [exact Pt'|]. intros ->. rewrite Ps, Ep in Pt'. discriminate Pt'.
  - intros x. rewrite Es. apply H8.
  - split.
    + intros x. destruct (Nat.eq_dec x t) as [->|N]; [rewrite Pt, Ep'; exact I | rewrite Po by exact N; apply H9].
    + exact I.
Qed.

(* a successful semaphore P *)
Lemma H9_P w w' t s s' m l :
  H9Inv w -> (t < length (thr w))%nat -> get w t = s ->
  thr w' = lupd (thr w) t s' -> word w' = word w -> queue w' = queue w -> waiting w' = waiting w ->
  sem w' = fupd (sem w) t (sem w t - 1) -> 0 < sem w t ->
  t_pc s = LsSemP m l -> t_pc s' = LsWaitLoad m l -> H9Inv w'.
Proof.
  intros (H1 & H2 & H3 & H4 & H5 & H6 & H7 & H8 & H9 & H10) Ht Hs E Ex Eq Ew Es Hp Ep Ep'.
  destruct (upd_P w w' t s' Ht E) as [Pt Po].
  assert (P w t = t_pc s) as Ps by (unfold P; now rewrite Hs).
  assert ((exists a, agent w a) -> exists a, agent w' a) as AG.
  { intros [a Ha]. exists a. unfold agent in *. rewrite Ew. destruct (Nat.eq_dec a t) as [->|N].
    - rewrite Ps, Ep in Ha. rewrite Pt, Ep'. exact Ha.
    - rewrite Po by exact N. exact Ha. }
  unfold H9Inv. rewrite Ex. split; [exact H1|]. split; [exact H2|]. split; [|split; [|split; [|split; [|split; [|split]]]]].
  - intros B. destruct (H3 B) as [T HT]. destruct (Nat.eq_dec T t) as [->|N].
    + exists t. rewrite Pt, Ep'. rewrite Ps, Ep in HT. exact HT.
    + exists T. now rewrite Po.
  - auto.
  - auto.
  - intros x Ix Wx. rewrite Eq. rewrite Ew in Wx.
    assert (forall y, kof w' y = kof w y) as K.
    { intros y. rewrite !kofP. destruct (Nat.eq_dec y t) as [->|N]; [now rewrite Pt, Ps, Ep, Ep' | now rewrite Po]. }
    rewrite K in Ix. destruct (H6 x Ix Wx) as [Hq | [t' Ht']]; [left; auto | right; exists t'; now rewrite K].
  - intros x m0 l0 Px Wx. destruct (Nat.eq_dec x t) as [->|N].
    { rewrite Pt, Ep' in Px. discriminate Px. }
    rewrite Ew in Wx. rewrite Po in Px by exact N. rewrite Es, fupd_other by exact N.
    destruct (H7 x m0 l0 Px Wx) as [S | (t' & m' & u & Pt')]; [left; exact S | right].
    exists t', m', u. rewrite Po; [exact Pt'|]. intros ->. rewrite Ps, Ep in Pt'. discriminate Pt'.
  - intros x. rewrite Es. unfold fupd. destruct (Nat.eqb x t); [lia | apply H8].
  - split.
    + intros x. destruct (Nat.eq_dec x t) as [->|N]; [rewrite Pt, Ep'; exact I | rewrite Po by exact N; apply H9].
    + exact I.
Qed.

(* the releaser takes the spinlock, gives up the lock and scans the queue *)
Lemma H9_S5 w w' t s s' m old u :
  H9Inv w -> (t < length (thr w))%nat -> get w t = s ->
  thr w' = lupd (thr w) t s' -> Permutation (wake u ++ queue w') (queue w) ->
  waiting w' = waiting w -> sem w' = sem w ->
  (forall k, k = 2 \/ k = 5 \/ k = 6 \/ k = 7 -> Z.testbit (word w') k = Z.testbit (word w) k) ->
  t_pc s = UsCasSpin m old -> t_pc s' = UsRelLoad m u -> uslB u -> H9Inv w'.
Proof.
  intros (H1 & H2 & H3 & H4 & H5 & H6 & H7 & H8 & H9 & H10) Ht Hs E Pq Ew Es Eb Ep Ep' Hu.
  destruct (upd_P w w' t s' Ht E) as [Pt Po].
  assert (P w t = t_pc s) as Ps by (unfold P; now rewrite Hs).
  assert (exists a, agent w' a) as AG.
  { exists t. unfold agent. rewrite Pt, Ep'. reflexivity. }
  unfold H9Inv. rewrite (Eb 7), (Eb 5), (Eb 2), (Eb 6) by tauto.
  split; [exact H1|]. split; [exact H2|]. split; [|split; [|split; [|split; [|split; [|split]]]]].
  - intros B. destruct (H3 B) as [T HT]. exists T. rewrite Po; [exact HT|].
    intros ->. rewrite Ps, Ep in HT. discriminate HT.
  - auto.
  - auto.
  - intros x Ix Wx. rewrite Ew in Wx. destruct (Nat.eq_dec x t) as [->|N].
    { rewrite kofP, Pt, Ep' in Ix. discriminate Ix. }
    rewrite kofP, Po in Ix by exact N.
    destruct (H6 x Ix Wx) as [Hq | [t' Ht']].
    + apply (Permutation_in _ (Permutation_sym Pq)), in_app_or in Hq. destruct Hq as [Hq | Hq]; [right | left; exact Hq].
      exists t. rewrite kofP, Pt, Ep'. exact Hq.
    + right. exists t'. rewrite kofP in *. destruct (Nat.eq_dec t' t) as [->|N'].
      * rewrite Ps, Ep in Ht'. destruct Ht'.
      * now rewrite Po.
  - intros x m0 l0 Px Wx. rewrite Es. destruct (Nat.eq_dec x t) as [->|N].
    { rewrite Pt, Ep' in Px. discriminate Px. }
    rewrite Ew in Wx. rewrite Po in Px by exact N.
    destruct (H7 x m0 l0 Px Wx) as [S | (t' & m' & u' & Pt')]; [left; exact S | right].
    exists t', m', u'. rewrite Po; [exact Pt'|]. intros ->. rewrite Ps, Ep in Pt'. discriminate Pt'.
  - intros x. rewrite Es. apply H8.
  - split.
    + intros x. destruct (Nat.eq_dec x t) as [->|N]; [rewrite Pt, Ep'; exact Hu | rewrite Po by exact N; apply H9].
    + exact I.
Qed.

(* the waker clears the waiting flag of the next waiter on its list *)
Lemma H9_S7 w w' t s s' m u u' p :
  H9Inv w -> (t < length (thr w))%nat -> get w t = s ->
  thr w' = lupd (thr w) t s' -> word w' = word w -> queue w' = queue w ->
  waiting w' = fupd (waiting w) p false -> sem w' = sem w ->
  t_pc s = UsWakeStore m u -> wake u = p :: wake u' -> t_pc s' = UsWakeV m p u' ->
  isq (kof w p) = true -> H9Inv w'.
Proof.
  intros (H1 & H2 & H3 & H4 & H5 & H6 & H7 & H8 & H9 & H10) Ht Hs E Ex Eq Ew Es Ep Eu Ep' Ip.
  destruct (upd_P w w' t s' Ht E) as [Pt Po].
  assert (P w t = t_pc s) as Ps by (unfold P; now rewrite Hs).
  assert (p <> t) as Npt.
  { intros ->. rewrite kofP, Ps, Ep in Ip. discriminate Ip. }
  assert (exists a, agent w' a) as AG.
  { exists p. unfold agent. rewrite Ew, fupd_same, Po by exact Npt. apply isq_agent. exact Ip. }
  unfold H9Inv. rewrite Ex. split; [exact H1|]. split; [exact H2|]. split; [|split; [|split; [|split; [|split; [|split]]]]].
  - intros B. destruct (H3 B) as [T HT]. exists T. rewrite Po; [exact HT|].
    intros ->. rewrite Ps, Ep in HT. discriminate HT.
  - auto.
  - auto.
  - intros x Ix Wx. rewrite Eq. destruct (Nat.eq_dec x p) as [->|Nxp].
    { rewrite Ew, fupd_same in Wx. discriminate Wx. }
    rewrite Ew, fupd_other in Wx by exact Nxp. destruct (Nat.eq_dec x t) as [->|N].
    { rewrite kofP, Pt, Ep' in Ix. discriminate Ix. }
    rewrite kofP, Po in Ix by exact N.
    destruct (H6 x Ix Wx) as [Hq | [t' Ht']]; [left; exact Hq | right].
    exists t'. rewrite kofP in *. destruct (Nat.eq_dec t' t) as [->|N'].
    + rewrite Ps, Ep in Ht'. cbn [role_of wl] in Ht'. rewrite Eu in Ht'. destruct Ht' as [<- | Ht']; [now elim Nxp|].
      rewrite Pt, Ep'. exact Ht'.
    + now rewrite Po.
  - intros x m0 l0 Px Wx. rewrite Es. destruct (Nat.eq_dec x t) as [->|N].
    { rewrite Pt, Ep' in Px. discriminate Px. }
    rewrite Po in Px by exact N. destruct (Nat.eq_dec x p) as [->|Nxp].
    { right. exists t, m, u'. now rewrite Pt. }
    rewrite Ew, fupd_other in Wx by exact Nxp.
    destruct (H7 x m0 l0 Px Wx) as [S | (t' & m' & u0 & Pt')]; [left; exact S | right].
    exists t', m', u0. rewrite Po; [exact Pt'|]. intros ->. rewrite Ps, Ep in Pt'. discriminate Pt'.
  - intros x. rewrite Es. apply H8.
  - split.
    + intros x. destruct (Nat.eq_dec x t) as [->|N]; [rewrite Pt, Ep'; exact I | rewrite Po by exact N; apply H9].
    + exact I.
Qed.

(* the waker posts the semaphore of the waiter whose flag it has cleared *)
Lemma H9_S8 w w' t s s' m u p :
  H9Inv w -> (t < length (thr w))%nat -> get w t = s ->
  thr w' = lupd (thr w) t s' -> word w' = word w -> queue w' = queue w ->
  waiting w' = waiting w -> sem w' = fupd (sem w) p (sem w p + 1) ->
  t_pc s = UsWakeV m p u -> t_pc s' = match wake u with [] => Idle | _ => UsWakeStore m u end -> H9Inv w'.
Proof.
  intros (H1 & H2 & H3 & H4 & H5 & H6 & H7 & H8 & H9 & H10) Ht Hs E Ex Eq Ew Es Ep Ep'.
  destruct (upd_P w w' t s' Ht E) as [Pt Po].
  assert (P w t = t_pc s) as Ps by (unfold P; now rewrite Hs).
  assert (forall y, kof w' y = kof w y) as K.
  { intros y. rewrite !kofP. destruct (Nat.eq_dec y t) as [->|N]; [|now rewrite Po].
    rewrite Pt, Ps, Ep, Ep'. destruct (wake u) eqn:Eu; cbn [role_of]; now rewrite ?Eu. }
  assert ((exists a, agent w a) -> exists a, agent w' a) as AG.
  { intros [a Ha]. exists a. unfold agent in *. rewrite Ew. destruct (Nat.eq_dec a t) as [->|N].
    - rewrite Ps, Ep in Ha. rewrite Pt, Ep'. cbn [agent_pc] in Ha.
      destruct (wake u) eqn:Eu; [discriminate Ha|]. cbn [agent_pc]. now rewrite Eu.
    - rewrite Po by exact N. exact Ha. }
  assert (forall x, sem w x <= sem w' x) as SM.
  { intros x. rewrite Es. unfold fupd. destruct (Nat.eqb_spec x p) as [->|]; lia. }
  unfold H9Inv. rewrite Ex. split; [exact H1|]. split; [exact H2|]. split; [|split; [|split; [|split; [|split; [|split]]]]].
  - intros B. destruct (H3 B) as [T HT]. exists T. rewrite Po; [exact HT|].
    intros ->. rewrite Ps, Ep in HT. discriminate HT.
  - auto.
  - auto.
  - intros x Ix Wx. rewrite Eq. rewrite Ew in Wx. rewrite K in Ix.
    destruct (H6 x Ix Wx) as [Hq | [t' Ht']]; [left; auto | right; exists t'; now rewrite K].
  - intros x m0 l0 Px Wx. rewrite Ew in Wx. destruct (Nat.eq_dec x t) as [->|N].
    { rewrite Pt, Ep' in Px. destruct (wake u); discriminate Px. }
    rewrite Po in Px by exact N.
    destruct (H7 x m0 l0 Px Wx) as [S | (t' & m' & u0 & Pt')].
    + left. specialize (SM x). lia.
    + destruct (Nat.eq_dec t' t) as [->|N'].
      * rewrite Ps, Ep in Pt'. injection Pt' as _ <- _. left. rewrite Es, fupd_same. specialize (H8 p). lia.
      * right. exists t', m', u0. now rewrite Po.
  - intros x. specialize (SM x). specialize (H8 x). lia.
  - split.
    + intros x. destruct (Nat.eq_dec x t) as [->|N]; [|rewrite Po by exact N; apply H9].
      rewrite Pt, Ep'. destruct (wake u) eqn:Eu; cbn [pcB]; [exact I | rewrite Eu; discriminate].
    + exact I.
Qed.

(* a step whose CAS only clears flag bits (mask c) besides changing the lock view *)
Lemma HG9_clear w w' t s s' c :
  H9Inv w -> (t < length (thr w))%nat -> get w t = s ->
  thr w' = lupd (thr w) t s' -> queue w' = queue w -> waiting w' = waiting w -> sem w' = sem w ->
  (forall k, 1 <= k < 8 -> Z.testbit (word w') k = Z.testbit (word w) k && negb (Z.testbit c k)) ->
  Z.testbit c 2 = false ->
  (lw_pc (t_pc s) = true -> Z.testbit c 6 = true \/ lw_pc (t_pc s') = true) ->
  (agent_pc (t_pc s) (waiting w t) = true -> Z.testbit c 3 = true \/ agent_pc (t_pc s') (waiting w t) = true) ->
  (Z.testbit (word w) 2 = true -> free (word w') ->
     agent_pc (t_pc s') (waiting w t) = true \/ (agent_pc (t_pc s) (waiting w t) = false /\ exists a, agent w a)) ->
  wl (role_of (t_pc s')) = wl (role_of (t_pc s)) ->
  (isq (role_of (t_pc s')) = true -> isq (role_of (t_pc s)) = true) ->
  (forall m l, t_pc s' = LsSemP m l -> waiting w t = true \/ exists m0 l0, t_pc s = LsSemP m0 l0) ->
  (forall m x u, t_pc s <> UsWakeV m x u) ->
  pcB (t_pc s') ->
  (own (role_of (t_pc s)) = true -> Z.testbit c 1 = true \/ own (role_of (t_pc s')) = true) -> H9Inv w'.
Proof.
  intros HH Ht Hs E Eq Ew Es FB C2 CL CA C5 C6 C6' C7 C7' C9 CO.
  pose proof HH as (H1 & H2 & H3 & H4 & H5 & _).
  apply (HG9 w w' t s s'); try assumption.
  - rewrite FB, H1 by lia. reflexivity.
  - rewrite !FB by lia. intros B. apply andb_true_iff in B. destruct B as [B _].
    rewrite (H2 B), C2. reflexivity.
  - rewrite FB by lia. intros B. apply andb_true_iff in B. destruct B as [B B'].
    destruct (H3 B) as [T HT]. destruct (lw_pc (t_pc s)) eqn:L; [|right; eauto].
    destruct (CL eq_refl) as [X | X]; [rewrite X in B'; discriminate B' | now left].
  - rewrite FB by lia. intros B. apply andb_true_iff in B. destruct B as [B B'].
    destruct (H4 B) as [a Ha]. destruct (agent_pc (t_pc s) (waiting w t)) eqn:L; [|right; eauto].
    destruct (CA eq_refl) as [X | X]; [rewrite X in B'; discriminate B' | now left].
  - rewrite FB by lia. intros B. apply andb_true_iff in B. destruct B as [B _]. apply C5, B.
  - rewrite FB by lia. intros B. apply andb_true_iff in B. destruct B as [B B'].
    destruct (own (role_of (t_pc s))) eqn:O; [|right; auto].
    destruct (CO eq_refl) as [X | X]; [rewrite X in B'; discriminate B' | now left].
Qed.


(* with the lock free and the spinlock free, a long waiter is (or is in the hands of) an agent *)
Lemma lw_gives_agent9 w T : QInv w -> H9Inv w -> tb1 (word w) = false -> free (word w) ->
  lw_pc (P w T) = true -> exists a, agent w a.
Proof.
  intros (HQL & HQB & _) (H1 & H2 & H3 & H4 & H5 & H6 & H7 & H8 & H9 & H10) S F L.
  destruct HQL as (_ & Hq & _). destruct HQB as (B1 & _ & _ & _ & Q5a & _).
  assert (own (kof w T) = true -> False) as NO.
  { intros O. apply B1 in O. congruence. }
  specialize (H9 T). pose proof (H6 T) as H6T. rewrite kofP in *. unfold agent at 1.
  destruct (P w T) eqn:PT; try discriminate L; unfold lw_pc in L; cbn [lsl_of] in L; apply Z.eqb_eq in L;
    cbn [role_of own isq pcB] in *; try (elim NO; reflexivity).
  - exists T. unfold agent. rewrite PT. cbn [agent_pc]. apply Z.eqb_eq. apply H9, L.
  - exists T. unfold agent. rewrite PT. cbn [agent_pc]. apply Z.eqb_eq. apply H9, L.
  - exists T. unfold agent. rewrite PT. cbn [agent_pc]. apply Z.eqb_eq. apply (proj1 H9), L.
  - destruct (waiting w T) eqn:WT.
    + destruct (H6T eq_refl eq_refl) as [Hq' | [t' Ht']].
      * apply H5; [|exact F]. apply Q5a. intros E. rewrite E in Hq'. destruct Hq'.
      * exists t'. unfold agent. eapply wl_agent. exact Ht'.
    + exists T. unfold agent. rewrite PT, WT. reflexivity.
  - destruct (waiting w T) eqn:WT.
    + destruct (H6T eq_refl eq_refl) as [Hq' | [t' Ht']].
      * apply H5; [|exact F]. apply Q5a. intros E. rewrite E in Hq'. destruct Hq'.
      * exists t'. unfold agent. eapply wl_agent. exact Ht'.
    + exists T. unfold agent. rewrite PT, WT. reflexivity.
Qed.

Ltac h9_local HH Ht Hs :=
  eapply HG9_local;
  [ exact HH | exact Ht | exact Hs | reflexivity | reflexivity | reflexivity | reflexivity | reflexivity
  | cbn [t_pc agent_pc] | cbn [t_pc lw_pc lsl_of] | cbn [t_pc role_of wl] | cbn [t_pc role_of isq]
  | cbn [t_pc]; intros ? ? EE; try discriminate EE | cbn [t_pc]; intros ? ? ? EE; try discriminate EE
  | cbn [t_pc pcB] | cbn [t_pc role_of own] ];
  try solve [intros; first [assumption | reflexivity | exact I | congruence]].

Lemma begin_op_h9 w t : H9Inv w -> H9Inv (begin_op w t).
Proof.
  intros HH. unfold begin_op. cbv zeta.
  destruct (Nat.lt_ge_cases t (length (thr w))) as [Ht|Ht].
  2:{ rewrite get_oob by exact Ht. exact HH. }
  destruct (get w t) as [p ops h sl lt] eqn:Hs. cbn [t_pc t_ops held sleeps last_try].
  destruct p; try exact HH. destruct ops as [|o rest]; try exact HH.
  unfold set_t. h9_local HH Ht Hs; destruct o, h; cbn; intros; first [exact I | reflexivity | congruence].
Qed.

Ltac fin9 := try solve [intros; first [assumption | reflexivity | exact I | congruence]].

Ltac h9_clear HH Ht Hs c :=
  eapply (HG9_clear _ _ _ _ _ c);
  [ exact HH | exact Ht | exact Hs | reflexivity | reflexivity | reflexivity | reflexivity
  | cbn [word]; intros k Hk | idtac
  | cbn [t_pc lw_pc lsl_of] | cbn [t_pc agent_pc] | cbn [word t_pc agent_pc]; intros B2 F
  | cbn [t_pc role_of wl] | cbn [t_pc role_of isq]
  | cbn [t_pc]; intros ? ? EE; try discriminate EE | cbn [t_pc]; intros ? ? ? EE; try discriminate EE
  | cbn [t_pc pcB] | cbn [t_pc role_of own] ]; fin9.

Ltac h9_gen HH Ht Hs :=
  eapply HG9;
  [ exact HH | exact Ht | exact Hs | reflexivity | reflexivity | reflexivity | reflexivity
  | cbn [word] | cbn [word] | cbn [word t_pc lw_pc lsl_of] | cbn [word t_pc agent_pc] | cbn [word t_pc agent_pc]
  | cbn [t_pc role_of wl] | cbn [t_pc role_of isq]
  | cbn [t_pc]; intros ? ? EE; try discriminate EE | cbn [t_pc]; intros ? ? ? EE; try discriminate EE
  | cbn [t_pc pcB] | cbn [word t_pc role_of own] ].

Section HandoffInvariant9.
Variable n : nat.
Hypothesis Hn : Z.of_nat n < 16777215.

Lemma step_h9 w0 t : Inv n w0 -> QInv w0 -> H9Inv w0 -> H9Inv (fst (step w0 t)).
Proof.
  intros H0 HQ HH.
  apply (begin_op_h9 _ t) in HH. apply (begin_op_qinv _ t) in HQ. apply (begin_op_inv _ _ t) in H0.
  unfold step. revert H0 HQ HH. generalize (begin_op w0 t). intros w H0 HQ HH. cbv zeta.
  destruct (Nat.lt_ge_cases t (length (thr w))) as [Ht|Ht].
  2:{ rewrite get_oob by exact Ht. exact HH. }
  pose proof H0 as (Hlen & (Rw & _ & _ & HX) & Hok). specialize (Hok t).
  pose proof (Inv_readers n Hn w H0) as Dw.
  pose proof (Inv_held n w t) as Hheld. specialize (fun m => Hheld m H0).
  pose proof HQ as (HQL & HQB & HA). specialize (HA t).
  pose proof HH as (H1 & H2 & H3 & H4 & H5 & H6 & H7 & H8 & H9 & H10). specialize (H9 t). unfold P in H9.
  destruct (get w t) as [p ops h sl lt] eqn:Hs.
  pose proof Hs as Hs'. unfold get in Hs'. rewrite Hs' in Hok.
  unfold pc_ok in Hok. cbn [t_pc t_ops held sleeps last_try] in *.
  destruct p as [ | m | m | m old | m | m | m old | m l | m l old | m l old | m l | m l | m l old | m l | m l
                | m | m | m old | m | m old | m old | m u | m u old | m u | m q u | why ].
  - (* Idle *) exact HH.
  - (* LkFast *) cas_split w; normt Hs' Ht.
    + h9_clear HH Ht Hs 0.
      * rewrite Hcas. apply fb_fast_new'. exact Hk.
      * rewrite Hcas, Z.bits_0 in B2. discriminate B2.
    + h9_local HH Ht Hs.
  - (* LkLoad *) destruct (fast_guard2 m (word w)) eqn:G; cbn [fst]; normt Hs' Ht; h9_local HH Ht Hs.
    apply lslB_init.
  - (* LkCas2 *) destruct Hok as [_ G]. cas_split w; normt Hs' Ht.
    + subst old. h9_clear HH Ht Hs (coa m).
      * apply fb_fast_new2; assumption.
      * destruct m; reflexivity.
      * exfalso. exact (trans_acq_not_free _ _ m Rw (fast_new2_trans m (word w) Rw Dw G) F).
    + h9_local HH Ht Hs. apply lslB_init.
  - (* TryFast *) cas_split w; normt Hs' Ht.
    + h9_clear HH Ht Hs 0.
      * rewrite Hcas. apply fb_try_new'. exact Hk.
      * rewrite Hcas, Z.bits_0 in B2. discriminate B2.
    + h9_local HH Ht Hs.
  - (* TryLoad *) destruct (try_guard2 m (word w)) eqn:G; cbn [fst]; normt Hs' Ht; h9_local HH Ht Hs.
  - (* TryCas2 *) destruct Hok as [_ G]. cas_split w; normt Hs' Ht.
    + subst old. h9_clear HH Ht Hs (coa m).
      * apply fb_try_new2; assumption.
      * destruct m; reflexivity.
      * exfalso. exact (trans_acq_not_free _ _ m Rw (try_new2_trans m (word w) Rw Dw G) F).
    + h9_local HH Ht Hs.
  - (* LsLoad *)
    destruct (nsync_mu_lock_slow_cas1_guard (word w) (zta l)) eqn:G1; cbn [fst].
    + normt Hs' Ht. h9_local HH Ht Hs.
    + destruct (nsync_mu_lock_slow_cas2_guard (word w) (zta l)) eqn:G2; cbn [fst].
      * normt Hs' Ht. h9_local HH Ht Hs. split; assumption.
      * exact HH.
  - (* LsCasAcq *) destruct Hok as (_ & Hl & G). cas_split w; normt Hs' Ht.
    + subst old. h9_clear HH Ht Hs (Z.lor (Z.lor (clr l) (longw l)) (coa m)).
      * rewrite fb_lock_slow_cas1 by assumption. rewrite !Z.lor_spec. reflexivity.
      * rewrite !Z.lor_spec. destruct Hl as (_ & [-> | ->] & [-> | ->]); destruct m; reflexivity.
      * intros L. left. apply Z.eqb_eq in L. rewrite L, !Z.lor_spec.
        destruct Hl as (_ & [-> | ->] & _); destruct m; reflexivity.
      * intros L. left. apply Z.eqb_eq in L. rewrite L, !Z.lor_spec.
        destruct Hl as (_ & _ & [-> | ->]); destruct m; reflexivity.
      * exfalso. exact (trans_acq_not_free _ _ m Rw (lock_slow_cas1_trans m l (word w) Rw Dw Hl G) F).
    + h9_local HH Ht Hs.
  - (* LsCasEnq *) destruct Hok as (_ & Hl). destruct H9 as [[LB1 LB2] G2]. cas_split w; normt Hs' Ht.
    + subst old. pose proof Hl as (Hz & Hc & Hlw). unfold MU_DESIG_WAKER, MU_LONG_WAIT in Hc, Hlw.
      h9_gen HH Ht Hs; fin9.
      * rewrite fb_lock_slow_cas2 by lia. change (Z.testbit 128 7) with true.
        rewrite orb_true_r. apply andb_false_r.
      * intros _. rewrite fb_lock_slow_cas2 by lia.
        destruct Hc as [-> | ->], m; cbn [sww]; tbc; rewrite ?orb_true_r; reflexivity.
      * rewrite fb_lock_slow_cas2 by lia. destruct Hlw as [Elw | Elw]; rewrite Elw.
        -- intros B. right. split; [reflexivity|]. apply H3.
           destruct (Z.testbit (word w) 6); [reflexivity | exfalso].
           destruct Hc as [Ec | Ec], m; rewrite Ec in B; vm_compute in B; discriminate B.
        -- intros _. left. reflexivity.
      * rewrite fb_lock_slow_cas2 by lia. destruct Hc as [Ec | Ec]; rewrite Ec.
        -- intros B. right. split; [reflexivity|]. apply H4.
           destruct (Z.testbit (word w) 3); [reflexivity | exfalso].
           destruct Hlw as [E | E], m; rewrite E in B; vm_compute in B; discriminate B.
        -- intros B. exfalso. replace (negb (Z.testbit 8 3 || Z.testbit 128 3)) with false in B by reflexivity.
           rewrite andb_false_r in B. discriminate B.
      * intros _ F. right.
        assert (free (word w)) as F0.
        { destruct (lock_slow_cas2_SL m l (word w) Rw Hl) as (_ & M & D). destruct F as [F1 F2]. split; lia. }
        destruct Hc as [Ec | Ec].
        -- split; [rewrite Ec; reflexivity|]. destruct Hz as [Ez | Ez]; rewrite Ez in G2.
           ++ destruct (enq_guard_fresh m (word w) Rw F0 G2) as [B6 | B5].
              ** destruct (H3 B6) as [T HT]. apply (lw_gives_agent9 w T HQ HH); auto.
              ** apply H5; [apply H2, B5 | exact F0].
           ++ elim (enq_guard_woken m (word w) Rw F0 G2).
        -- exfalso. rewrite (LB2 Ec) in G2. exact (enq_guard_woken m (word w) Rw F0 G2).
      * intros _. left. reflexivity.
    + h9_local HH Ht Hs. split; assumption.
  - (* LsStoreWaiting *) cbn [fst]. normt Hs' Ht.
    eapply H9_S2 with (m := m) (l := l);
      [ exact HH | exact Ht | exact Hs | reflexivity | reflexivity | cbn [queue] | cbn [queue]
      | reflexivity | reflexivity | reflexivity | reflexivity ].
    + intros x Hx. destruct (wcount l =? 0); [apply in_or_app; now left | now right].
    + destruct (wcount l =? 0); [apply in_or_app; right; now left | now left].
  - (* LsRelLoad *) cbn [fst]. normt Hs' Ht. h9_local HH Ht Hs.
  - (* LsRelCas *) destruct Hok as (_ & Hl). cas_split w; normt Hs' Ht.
    + subst old. h9_clear HH Ht Hs 2.
      * apply fb_release_spinlock. exact Hk.
      * intros X. right. exact X.
      * intros X. right. exact X.
      * assert (free (word w)) as F0.
        { destruct (release_spinlock_SL (word w) Rw) as (_ & M & D). destruct F as [F1 F2]. split; lia. }
        destruct (negb (waiting w t)); [now left | right; split; [reflexivity | apply H5; assumption]].
      * intros _. left. reflexivity.
    + h9_local HH Ht Hs.
  - (* LsWaitLoad *) destruct Hok as (_ & Hl). destruct (waiting w t) eqn:Ew; cbn [fst]; normt Hs' Ht.
    + h9_local HH Ht Hs. left. exact Ew.
    + h9_local HH Ht Hs.
      * intros L. destruct (wrap_u 32 (wcount l + 1) =? LONG_WAIT_THRESHOLD); [reflexivity | exact L].
      * apply lslB_next. apply Hl.
  - (* LsSemP *) destruct (0 <? sem w t) eqn:Es; cbn [fst]; [| exact HH]. normt Hs' Ht.
    apply Z.ltb_lt in Es.
    eapply H9_P with (m := m) (l := l);
      [ exact HH | exact Ht | exact Hs | reflexivity | reflexivity | reflexivity | reflexivity | reflexivity
      | exact Es | reflexivity | reflexivity ].
  - (* UlFast *) subst h. specialize (Hheld m eq_refl). cas_split w; normt Hs' Ht.
    + h9_clear HH Ht Hs 0.
      * rewrite Hcas. apply fb_ufast. exact Hk.
      * rewrite Hcas in B2. destruct m; vm_compute in B2; discriminate B2.
    + h9_local HH Ht Hs.
  - (* UlLoad *)
    destruct (unlock_try_cas2 m (word w)) eqn:G; [| destruct (unlock_bad m (word w))]; cbn [fst];
      normt Hs' Ht; h9_local HH Ht Hs.
  - (* UlCas2 *) subst h. specialize (Hheld m eq_refl). cas_split w; normt Hs' Ht.
    + subst old. h9_clear HH Ht Hs (cur m).
      * apply fb_unlock_new2; assumption.
      * destruct m; reflexivity.
      * right. split; [reflexivity|]. destruct m.
        -- destruct (unlock_cas2_guard_flags _ H9) as [X | X]; [congruence | apply H4, X].
        -- destruct (runlock_cas2_guard_flags _ Rw H1 H9) as [X | [X | X]]; [congruence | apply H4, X | exfalso].
           destruct (unlock_new2_trans R (word w) Rw Hheld) as [_ [_ D]]. destruct F as [_ F2]. lia.
    + h9_local HH Ht Hs.
  - (* UsLoad *)
    destruct (has (word w) MU_CONDITION);
      [| destruct (nsync_mu_unlock_slow_cas1_guard (word w)) eqn:G1;
         [| destruct (nsync_mu_unlock_slow_cas2_guard (word w)) eqn:G2]]; cbn [fst];
      try exact HH; normt Hs' Ht; h9_local HH Ht Hs.
  - (* UsCasRel *) subst h. specialize (Hheld m eq_refl). cas_split w; normt Hs' Ht.
    + subst old. h9_clear HH Ht Hs (cur m).
      * apply fb_unlock_slow_cas1; assumption.
      * destruct m; reflexivity.
      * right. split; [reflexivity|].
        destruct (unlock_slow_cas1_guard_flags _ Rw H9) as [X | [X | [X | X]]];
          [congruence | apply H4, X | exfalso | congruence].
        destruct (unlock_slow_cas1_trans m (word w) Rw Hheld) as [_ T]. destruct F as [F1 F2].
        destruct m; lia.
    + h9_local HH Ht Hs.
  - (* UsCasSpin *) subst h. specialize (Hheld m eq_refl). cas_split w.
    + destruct (us_after_scan _) as [u keep] eqn:E.
      pose proof (us_after_scan_B _ _ _ E) as HB.
      apply us_after_scan_facts in E. cbn [queue set_word] in E. destruct E as (Pm & _).
      cbn [fst]. normt Hs' Ht. subst old.
      eapply H9_S5 with (m := m) (old := word w) (u := u);
        [ exact HH | exact Ht | exact Hs | reflexivity | cbn [queue]; exact Pm | reflexivity | reflexivity
        | cbn [word]; intros k Hk | reflexivity | reflexivity | exact HB ].
      destruct Hk as [-> | [-> | [-> | ->]]]; rewrite fb_unlock_slow_cas2 by (first [exact Hheld | lia]);
        tbc; rewrite !orb_false_r; reflexivity.
    + normt Hs' Ht. h9_local HH Ht Hs.
  - (* UsRelLoad *) cbn [fst]. normt Hs' Ht. h9_local HH Ht Hs.
  - (* UsRelCas *) destruct Hok as (_ & (Hlate & _)). cas_split w; normt Hs' Ht.
    + subst old. destruct HA as (Nw & C1 & S1 & S2). destruct H9 as (U7 & U25 & U6). unfold tb2 in S2.
      assert (kof w t = Rrel (wake u) (tb2 (clear_on u))) as Kt by (unfold kof; rewrite Hs; reflexivity).
      destruct (wake u) as [|p0 r0] eqn:Ew; [now elim Nw|].
      h9_gen HH Ht Hs; fin9.
      * rewrite fb_unlock_slow_cas3 by (auto; lia). rewrite U7. apply andb_false_r.
      * rewrite !fb_unlock_slow_cas3 by (auto; lia). intros B. apply andb_true_iff in B. destruct B as [B B'].
        destruct (Z.testbit (clear_on u) 2) eqn:C2.
        { rewrite (U25 eq_refl) in B'. discriminate B'. }
        rewrite S2, orb_false_r, andb_true_r.
        destruct HQB as (_ & _ & C & _ & Q5a & _). apply Q5a. intros Eq.
        specialize (C t (tb2 (clear_on u))). rewrite Kt in C. apply (proj2 (C eq_refl)) in Eq.
        unfold tb2 in Eq. congruence.
      * rewrite fb_unlock_slow_cas3 by (auto; lia). rewrite U6, orb_false_r. intros B.
        apply andb_true_iff in B. right. split; [reflexivity | apply H3, (proj1 B)].
      * intros _. left. rewrite Ew. reflexivity.
      * intros _ _. left. rewrite Ew. reflexivity.
      * rewrite fb_unlock_slow_cas3 by (auto; lia). unfold tb1 in C1. rewrite C1, andb_false_r. discriminate.
    + h9_local HH Ht Hs.
  - (* UsWakeStore *) destruct (wake u) as [|p rest] eqn:Ew; [now elim H9|]. cbn [fst]. normt Hs' Ht.
    eapply H9_S7 with (m := m) (u := u) (p := p) (u' := mk_usl rest (set_on u) (clear_on u) (late u));
      [ exact HH | exact Ht | exact Hs | reflexivity | reflexivity | reflexivity | reflexivity | reflexivity
      | reflexivity | exact Ew | reflexivity | ].
    destruct HQL as (_ & _ & _ & Hw & _). apply (Hw t p). unfold kof. rewrite Hs. cbn [t_pc role_of wl].
    rewrite Ew. now left.
  - (* UsWakeV *) cbn [fst]. normt Hs' Ht.
    eapply H9_S8 with (m := m) (u := u) (p := q);
      [ exact HH | exact Ht | exact Hs | reflexivity | reflexivity | reflexivity | reflexivity | reflexivity
      | reflexivity | reflexivity ].
  - (* Crash *) exact HH.
Qed.

Lemma run_h9 sched : forall w, Inv n w -> QInv w -> H9Inv w ->
  Inv n (run w sched) /\ QInv (run w sched) /\ H9Inv (run w sched).
Proof.
  unfold run. induction sched as [|t rest IH]; intros w H HQ HH; cbn [fold_left]; [auto|].
  apply IH; [apply step_inv; assumption | eapply step_qinv; eassumption | apply step_h9; assumption].
Qed.

End HandoffInvariant9.

(* ================================================================== *)
(* Part B: debugger steps, the combined invariant                      *)
(* ================================================================== *)

Lemma H9_set_word b y : H9Inv b -> (forall k, k <> 1 -> Z.testbit y k = Z.testbit (word b) k) -> SL (word b) y ->
  H9Inv (set_word b y).
Proof.
  intros (H1 & H2 & H3 & H4 & H5 & H6 & H7 & H8 & H9 & _) Yk (_ & My & Dy).
  unfold H9Inv. cbn [word queue waiting sem set_word].
  change (P (set_word b y)) with (P b). change (kof (set_word b y)) with (kof b).
  change (agent (set_word b y)) with (agent b).
  rewrite !Yk by lia.
  assert (free y -> free (word b)) as F by (unfold free; rewrite My, Dy; auto).
  split; [exact H1|]. split; [exact H2|]. split; [exact H3|]. split; [exact H4|].
  split; [intros B Fy; apply H5; auto|]. split; [exact H6|]. split; [exact H7|]. split; [exact H8|].
  split; [exact H9 | exact I].
Qed.

Definition DInv (n : nat) (w : dworld) : Prop := DInv1 n w /\ H9Inv (base w).

Section CombinedInvariant.
Variable n : nat.
Hypothesis Hn : Z.of_nat n < 16777215.

Lemma dstep_dinv9 w a : DInv n w -> DInv n (fst (dstep w a)).
Proof.
  intros [D1 HH]. split; [apply (dstep_dinv n Hn), D1|].
  destruct D1 as (H0 & HQ & (Ag & Ok & _)).
  destruct a as [t|d].
  - rewrite dstep_base_eq. cbn [base dset_base]. apply (step_h9 n Hn); assumption.
  - cbn [dstep]. destruct (dbg_step_facts w d (Ok d) (Ag d)) as (_ & _ & _ & _ & K).
    pose proof (Inv_rng _ _ H0) as Rx.
    destruct K as [-> _ | _ _ _ -> | _ _ ->]; [exact HH | |].
    + apply H9_set_word; [exact HH | apply (spin_tas_new_bits _ Rx) | apply (spin_tas_new_SL _ Rx)].
    + apply H9_set_word; [exact HH | apply (dbg_rel_new_bits _ Rx)|].
      rewrite dbg_rel_new_eq. apply (release_spinlock_SL _ Rx).
Qed.

Lemma drun_dinv9 sched : forall w, DInv n w -> DInv n (drun w sched).
Proof.
  unfold drun. induction sched as [|a rest IH]; intros w H; cbn [fold_left]; [exact H|].
  apply IH, dstep_dinv9, H.
Qed.
End CombinedInvariant.

Lemma init_h9 progs : H9Inv (init progs).
Proof.
  unfold H9Inv. change (word (init progs)) with 0. rewrite !Z.bits_0.
  split; [reflexivity|]. split; [discriminate|]. split; [discriminate|]. split; [discriminate|].
  split; [discriminate|]. split; [|split; [|split; [|split]]].
  - intros x Ix. rewrite kofP, init_P in Ix. discriminate Ix.
  - intros x m l Px. rewrite init_P in Px. discriminate Px.
  - intros x. cbn. lia.
  - intros x. rewrite init_P. exact I.
  - exact I.
Qed.

Lemma dreachable_dinv9 progs dprogs sched : Z.of_nat (length progs) < 2 ^ 24 - 1 ->
  DInv (length progs) (drun (dinit progs dprogs) sched).
Proof.
  intros H. apply (drun_dinv9 (length progs) H). split; [apply dinit_dinv | apply init_h9].
Qed.

(* ================================================================== *)
(* Part C: quiescent combined worlds                                   *)
(* ================================================================== *)

(* the debugger has returned from its last call *)
Definition d_done (w : dworld) (d : nat) : Prop := dpcof w d = DIdle /\ d_ops (dget w d) = [].
(* the debugger is inside the loop of nsync_spin_test_and_set_, waiting for MU_SPINLOCK *)
Definition d_spinning (w : dworld) (d : nat) : Prop := spin_pc (dpcof w d) = true.
(* nothing moves except, possibly, debuggers going round their spin loop *)
Definition dquiescent (w : dworld) : Prop :=
  h_quiescent (base w) /\ forall d, (d < length (dbg w))%nat -> d_done w d \/ d_spinning w d.

Lemma dhandoff_core n w : DInv n w -> dquiescent w -> forall t, h_asleep (base w) t ->
  ~ free (word (base w)) /\ In t (queue (base w)) /\ waiting (base w) t = true /\
  Z.testbit (word (base w)) 2 = true /\ Z.testbit (word (base w)) 3 = false /\ Z.testbit (word (base w)) 7 = false /\
  Z.testbit (word (base w)) 1 = false.
Proof.
  intros ((H0 & (HQL & HQB & _) & (Ag & _ & _ & _ & H10 & _)) & (H1 & H2 & H3 & H4 & H5 & H6 & H7 & H8 & H9 & _)) [Q QD] t At.
  set (b := base w) in *.
  assert (forall x, P b x <> Idle -> exists m l, P b x = LsSemP m l /\ (0 <? sem b x) = false) as NQ.
  { intros x Nx. destruct (Q x (get_inb b x Nx)) as [A | [D _]]; [apply asleep_pc, A | now elim Nx]. }
  assert (forall a, agent b a -> False) as NA.
  { intros a Ha. unfold agent in Ha.
    assert (P b a <> Idle) as Na by (intros E; rewrite E in Ha; discriminate Ha).
    destruct (NQ a Na) as (m & l & Pa & Sa). rewrite Pa in Ha. cbn [agent_pc] in Ha.
    apply negb_true_iff in Ha. apply Z.ltb_ge in Sa.
    destruct (H7 a m l Pa Ha) as [S | (t' & m' & u & Pt')]; [lia|].
    assert (P b t' <> Idle) as Nt' by (rewrite Pt'; discriminate).
    destruct (NQ t' Nt') as (m2 & l2 & Pt2 & _). congruence. }
  destruct (asleep_pc b t At) as (m & l & Pt & St).
  assert (waiting b t = true) as Wt.
  { destruct (waiting b t) eqn:E; [reflexivity | exfalso]. apply (NA t). unfold agent. rewrite Pt, E. reflexivity. }
  assert (In t (queue b)) as Iq.
  { assert (isq (kof b t) = true) as It by (rewrite kofP, Pt; reflexivity).
    destruct (H6 t It Wt) as [Hq | [t' Ht']]; [exact Hq | exfalso].
    apply (NA t'). unfold agent. eapply wl_agent. exact Ht'. }
  assert (Z.testbit (word b) 2 = true) as B2.
  { destruct HQB as (_ & _ & _ & _ & Q5a & _). apply Q5a. intros E. rewrite E in Iq. destruct Iq. }
  split; [|split; [exact Iq | split; [exact Wt | split; [exact B2 | split; [|split; [exact H1|]]]]]].
  - intros F. destruct (H5 B2 F) as [a Ha]. exact (NA a Ha).
  - destruct (Z.testbit (word b) 3) eqn:B3; [exfalso | reflexivity].
    destruct (H4 eq_refl) as [a Ha]. exact (NA a Ha).
  - destruct (Z.testbit (word b) 1) eqn:B1; [exfalso | reflexivity].
    destruct (H10 B1) as [[o Ho] | [d O]].
    + assert (P b o <> Idle) as No by (intros E; rewrite kofP, E in Ho; discriminate Ho).
      destruct (NQ o No) as (m2 & l2 & Po2 & _). rewrite kofP, Po2 in Ho. discriminate Ho.
    + (* a debugger owner is neither done nor spinning *)
      rewrite Ag in O.
      assert (dpcof w d <> DIdle) as Nd by (intros E; rewrite E in O; discriminate O).
      destruct (QD d (dget_inb w d Nd)) as [[E _] | S]; [contradiction|].
      unfold d_spinning in S. destruct (dpcof w d); discriminate.
Qed.

(* in a quiescent combined world with a sleeper: some thread still HOLDS the mutex, the sleeper is queued with its
   waiting flag set, the word forces the holder's release through the scan, the spinlock is FREE -- so every debugger
   that is "spinning" is not stuck at all: run alone it takes the spinlock within 3 of its own steps *)
Lemma dno_lost_handoff : forall progs dprogs sched,
  Z.of_nat (length progs) < 2 ^ 24 - 1 ->
  let w := drun (dinit progs dprogs) sched in
  dquiescent w -> forall t, h_asleep (base w) t ->
  (exists t', holds (base w) t' W \/ holds (base w) t' R) /\
  In t (queue (base w)) /\ waiting (base w) t = true /\
  has (word (base w)) MU_WAITING = true /\ has (word (base w)) MU_DESIG_WAKER = false /\
  has (word (base w)) MU_ALL_FALSE = false /\ has (word (base w)) MU_SPINLOCK = false /\
  (forall d, d_spinning w d -> exists k, (k <= 3)%nat /\ downer (drun w (repeat (TDbg d) k)) d = true).
Proof.
  intros progs dprogs sched Hn w Q t At.
  pose proof (dreachable_dinv9 progs dprogs sched Hn) as HD. fold w in HD.
  destruct (dhandoff_core _ w HD Q t At) as (NF & Iq & Wt & B2 & B3 & B7 & B1).
  destruct HD as ((H0 & _) & _).
  rewrite has_waiting, has_desig, has_allfalse, has_spin.
  split; [exact (not_free_holder _ _ H0 NF)|]. repeat (split; [assumption|]).
  intros d S. destruct (spinner_acquires_alone 3 w d (srank_bound _ _) S B1) as (k & Hk & T). exists k. auto.
Qed.

Lemma dlast_holder_must_scan : forall progs dprogs sched,
  Z.of_nat (length progs) < 2 ^ 24 - 1 ->
  let w := drun (dinit progs dprogs) sched in
  dquiescent w -> forall t, h_asleep (base w) t -> forall m,
  match m with W => count_held (base w) W = 1 | R => count_held (base w) W = 0 /\ count_held (base w) R = 1 end ->
  word (base w) <> ufast_old m /\ unlock_try_cas2 m (word (base w)) = false /\
  nsync_mu_unlock_slow_cas1_guard (word (base w)) = false /\ nsync_mu_unlock_slow_cas2_guard (word (base w)) = true.
Proof.
  intros progs dprogs sched Hn w Q t At m Hm.
  pose proof (dreachable_dinv9 progs dprogs sched Hn) as HD. fold w in HD.
  destruct (dhandoff_core _ w HD Q t At) as (NF & Iq & Wt & B2 & B3 & B7 & B1).
  destruct HD as (((_ & (Rx & HW & HR & HX) & _) & _) & _). rewrite !count_held_cnt in Hm.
  apply release_must_scan; auto. destruct m; [split; [lia | apply HX; lia] | lia].
Qed.

(* the debuggers cannot be what everybody is waiting for: a world in which every locker is asleep or done and a
   debugger owns the spinlock is not quiescent -- the owner has a step, and (MuDbgProof.dbg_owner_releases) a bounded
   number of its own steps releases *)
Lemma dbg_owner_not_quiescent w d : downer w d = owner_pc (dpcof w d) -> downer w d = true ->
  ~ (d_done w d \/ d_spinning w d) /\ snd (dstep w (TDbg d)) <> DEvNone.
Proof.
  intros Ag O. rewrite Ag in O. split.
  - intros [[E _] | S]; [rewrite E in O; discriminate O|]. unfold d_spinning in S. destruct (dpcof w d); discriminate.
  - cbn [dstep]. assert (dpcof w d <> DIdle) as NI by (intros E; rewrite E in O; discriminate O).
    rewrite dbg_step_eq, (dbegin_nonidle w d NI). unfold dcore, dpcof in *. cbv zeta.
    destruct (d_pc (dget w d)); try discriminate O; unfold cas;
      repeat (match goal with |- context [if ?c then _ else _] => destruct c end; cbv beta iota); cbn [snd]; discriminate.
Qed.

(* ================================================================== *)
(* Part D: whoever holds the queue spinlock can move, and lets go      *)
(* ================================================================== *)

(* own steps a locker inside a spinlock section needs at most to leave it, run alone; x = the current word *)
Definition brank (x : Z) (p : pc) : nat :=
  match p with
  | LsStoreWaiting _ _ => 3
  | LsRelLoad _ _ | UsRelLoad _ _ => 2
  | LsRelCas _ _ old | UsRelCas _ _ old => if x =? old then 1 else 3
  | _ => 0
  end.

Lemma brank_bound x p : (brank x p <= 3)%nat.
Proof. destruct p; cbn [brank]; try lia; destruct (x =? old); lia. Qed.

Lemma base_owner_progress b t : own (kof b t) = true ->
  let b' := fst (step b t) in
  snd (step b t) <> EvBlocked /\ snd (step b t) <> EvNone /\
  (own (kof b' t) = false \/
   (own (kof b' t) = true /\ (brank (word b') (P b' t) < brank (word b) (P b t))%nat)).
Proof.
  intros O. cbv zeta.
  assert (t_pc (get b t) <> Idle) as NI by (intros E; unfold kof in O; rewrite E in O; discriminate O).
  pose proof (get_inb b t NI) as Ht. unfold step. rewrite (begin_op_nonidle b t NI). cbv zeta.
  unfold kof, P in *. destruct (get b t) as [p ops h sl lt] eqn:Hs. pose proof Hs as Hs'. unfold get in Hs'.
  cbn [t_pc] in *.
  destruct p; try discriminate O.
  - (* LsStoreWaiting *) cbn [fst snd]. split; [discriminate|]. split; [discriminate|]. right.
    normt Hs' Ht. cbn [role_of own brank]. split; [reflexivity | lia].
  - (* LsRelLoad *) cbn [fst snd]. split; [discriminate|]. split; [discriminate|]. right.
    normt Hs' Ht. cbn [role_of own brank]. rewrite Z.eqb_refl. split; [reflexivity | lia].
  - (* LsRelCas *) unfold cas. destruct (Z.eqb_spec (word b) old) as [E|E]; cbv beta iota; cbn [fst snd];
      (split; [discriminate|]); (split; [discriminate|]); normt Hs' Ht.
    + left. reflexivity.
    + right. cbn [role_of own brank]. destruct (Z.eqb_spec (word b) old); [contradiction|]. split; [reflexivity | lia].
  - (* UsRelLoad *) cbn [fst snd]. split; [discriminate|]. split; [discriminate|]. right.
    normt Hs' Ht. cbn [role_of own brank]. rewrite Z.eqb_refl. split; [reflexivity | lia].
  - (* UsRelCas *) unfold cas. destruct (Z.eqb_spec (word b) old) as [E|E]; cbv beta iota; cbn [fst snd];
      (split; [discriminate|]); (split; [discriminate|]); normt Hs' Ht.
    + left. destruct (wake u); reflexivity.
    + right. cbn [role_of own brank]. destruct (Z.eqb_spec (word b) old); [contradiction|]. split; [reflexivity | lia].
Qed.

Lemma run_alone_S b t k : run b (repeat t (S k)) = run (fst (step b t)) (repeat t k).
Proof. reflexivity. Qed.

Section LockerOwner.
Variable n : nat.
Hypothesis Hn : Z.of_nat n < 16777215.

Lemma base_owner_releases_alone : forall r b t, (brank (word b) (P b t) <= r)%nat ->
  Inv n b -> QInv b -> own (kof b t) = true ->
  exists k, (k <= r)%nat /\ own (kof (run b (repeat t k)) t) = false /\ tb1 (word (run b (repeat t k))) = false.
Proof.
  induction r as [|r IH]; intros b t Hr H0 HQ O.
  - exfalso. unfold kof, P in *. destruct (t_pc (get b t)); try discriminate O; cbn [brank] in Hr; try lia;
      destruct (word b =? old); lia.
  - destruct (base_owner_progress b t O) as (_ & _ & [F | (O' & Lt)]).
    + exists 1%nat. split; [lia|]. rewrite run_alone_S. cbn [repeat run fold_left]. split; [exact F|].
      pose proof (step_spin n b t H0 HQ) as SP. rewrite O, F in SP. exact SP.
    + destruct (IH (fst (step b t)) t ltac:(lia) (step_inv n Hn b t H0) (step_qinv n b t H0 HQ) O') as (k & Hk & R).
      exists (S k). split; [lia|]. rewrite run_alone_S. exact R.
Qed.
End LockerOwner.

(* in every reachable combined world in which MU_SPINLOCK is set the owner -- a locker inside a spinlock section or a
   debugger between its two CASes -- is enabled (its step is neither blocked nor idle), and run alone it clears the
   bit within 3 (locker) resp. 2 * (records still to print) + 3 (debugger) of its own steps: a thread that spins for
   the queue spinlock (a locker, nsync_spin_test_and_set_ in a debugger) never waits for something that cannot move *)
Lemma spin_owner_live progs dprogs sched : Z.of_nat (length progs) < 2 ^ 24 - 1 ->
  let w := drun (dinit progs dprogs) sched in
  Z.testbit (word (base w)) 1 = true ->
  (exists t, in_spin_section (t_pc (get (base w) t)) = true /\
             snd (dstep w (TBase t)) <> DEvBase EvBlocked /\ snd (dstep w (TBase t)) <> DEvBase EvNone /\
             exists k, (k <= 3)%nat /\ Z.testbit (word (base (drun w (repeat (TBase t) k)))) 1 = false) \/
  (exists d, downer w d = true /\ snd (dstep w (TDbg d)) <> DEvNone /\
             exists k, (k <= 2 * dwalk_left (dpcof w d) + 3)%nat /\
                       Z.testbit (word (base (drun w (repeat (TDbg d) k)))) 1 = false).
Proof.
  intros Hn w B.
  pose proof (dreachable_dinv progs dprogs sched Hn) as HD. fold w in HD.
  pose proof HD as (H0 & HQ & (Ag & Ok & D1 & D2 & H10 & Q6)).
  destruct (H10 B) as [[o Ho] | [d O]].
  - left. exists o. split; [now rewrite <- own_in_spin_section|].
    destruct (base_owner_progress (base w) o Ho) as (NB & NN & _).
    assert (snd (dstep w (TBase o)) = DEvBase (snd (step (base w) o))) as Es.
    { cbn [dstep]. destruct (step (base w) o). reflexivity. }
    rewrite Es. split; [congruence|]. split; [congruence|].
    destruct (base_owner_releases_alone (length progs) Hn 3 (base w) o (brank_bound _ _) H0 HQ Ho) as (k & Hk & _ & T).
    exists k. split; [exact Hk|].
    assert (forall j x, base (drun x (repeat (TBase o) j)) = run (base x) (repeat o j)) as RB.
    { induction j as [|j IHj]; intros x; [reflexivity|].
      change (drun x (repeat (TBase o) (S j))) with (drun (fst (dstep x (TBase o))) (repeat (TBase o) j)).
      rewrite IHj, dstep_base_eq. reflexivity. }
    rewrite RB. exact T.
  - right. exists d. split; [exact O|].
    split; [apply (dbg_owner_not_quiescent w d (Ag d) O)|].
    destruct (dbg_owner_releases progs dprogs sched d Hn O) as (k & Hk & _ & T & _).
    exists k. split; [exact Hk | exact T].
Qed.
